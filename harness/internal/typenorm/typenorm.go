// Package typenorm prints Go type expressions (go/ast) in a normal form in
// which every package qualifier is replaced by the quoted import path, so that
// types taken from different files (with different import aliases) compare as
// strings. Used by gencheck and copied into the generator helper program.
package typenorm

import (
	"embed"
	"go/ast"
	"strconv"
	"strings"
)

//go:embed *.go
var Source embed.FS

// Imports maps the local names of a file's imports to import paths.
func Imports(f *ast.File) map[string]string {
	m := map[string]string{}
	for _, is := range f.Imports {
		p, err := strconv.Unquote(is.Path.Value)
		if err != nil {
			continue
		}
		name := p[strings.LastIndex(p, "/")+1:]
		if is.Name != nil {
			name = is.Name.Name
		}
		m[name] = p
	}
	return m
}

var builtin = map[string]bool{"bool": true, "byte": true, "int8": true, "int16": true, "int32": true, "int64": true,
	"float64": true, "string": true, "error": true}

// Type prints e; identifiers that are not builtin are qualified with self (the
// import path of the file's own package).
func Type(e ast.Expr, imports map[string]string, self string) string {
	switch x := e.(type) {
	case *ast.Ident:
		if builtin[x.Name] {
			return x.Name
		}
		return strconv.Quote(self) + "." + x.Name
	case *ast.SelectorExpr:
		if id, ok := x.X.(*ast.Ident); ok {
			if p, ok := imports[id.Name]; ok {
				return strconv.Quote(p) + "." + x.Sel.Name
			}
			return "?" + id.Name + "." + x.Sel.Name
		}
	case *ast.StarExpr:
		return "*" + Type(x.X, imports, self)
	case *ast.ArrayType:
		if x.Len == nil {
			return "[]" + Type(x.Elt, imports, self)
		}
	case *ast.MapType:
		return "map[" + Type(x.Key, imports, self) + "]" + Type(x.Value, imports, self)
	case *ast.StructType:
		if x.Fields == nil || len(x.Fields.List) == 0 {
			return "struct{}"
		}
		var parts []string
		for _, f := range x.Fields.List {
			t := Type(f.Type, imports, self)
			if len(f.Names) == 0 {
				parts = append(parts, t)
			}
			for _, n := range f.Names {
				parts = append(parts, n.Name+" "+t)
			}
		}
		return "struct{" + strings.Join(parts, "; ") + "}"
	case *ast.FuncType:
		list := func(fl *ast.FieldList) []string {
			var out []string
			if fl == nil {
				return out
			}
			for _, f := range fl.List {
				t := Type(f.Type, imports, self)
				n := len(f.Names)
				if n == 0 {
					n = 1
				}
				for i := 0; i < n; i++ {
					out = append(out, t)
				}
			}
			return out
		}
		s := "func(" + strings.Join(list(x.Params), ", ") + ")"
		res := list(x.Results)
		switch len(res) {
		case 0:
		case 1:
			s += " " + res[0]
		default:
			s += " (" + strings.Join(res, ", ") + ")"
		}
		return s
	case *ast.ParenExpr:
		return Type(x.X, imports, self)
	}
	return "?"
}
