// Package gobuild runs the real code generator built from the repository under
// test on rendered Thrift programs, compiles and vets its output against the
// repository's runtime in a scratch Go module, and caches the results per
// (tree state, program, options).
package gobuild

import (
	"bytes"
	"crypto/sha256"
	"encoding/hex"
	"encoding/json"
	"fmt"
	"io"
	"io/fs"
	"os"
	"os/exec"
	"path"
	"path/filepath"
	"sort"
	"strings"
	"sync"
	"time"
)

// Env is the per-run build environment.
type Env struct {
	Repo     string // repository under test
	ModFile  string // VERIF_GOMODFILE (unused for building inside Repo, kept for reference)
	TreeHash string
	Cache    string // <verif>/.cache/gencheck/<treehash>
	ThriftRW string // path of the generator binary
	NoCache  bool
	mu       sync.Mutex
	tmpDirs  []string
}

func goEnv(extra ...string) []string {
	env := os.Environ()
	env = append(env, "GOPROXY=off", "GOSUMDB=off", "GOTOOLCHAIN=local", "CGO_ENABLED=0")
	return append(env, extra...)
}

func verifRoot() string {
	if v := os.Getenv("VERIF_ROOT"); v != "" {
		return v
	}
	// the harness runs with cwd = <verif>/harness; fall back to the executable's location
	if wd, err := os.Getwd(); err == nil {
		for d := wd; d != "/"; d = filepath.Dir(d) {
			if _, err := os.Stat(filepath.Join(d, "SCHEMA_PROTOCOL.md")); err == nil {
				return d
			}
		}
	}
	return "/verif"
}

// TreeHash hashes HEAD, the diff against HEAD and all untracked files.
func TreeHash(repo string) (string, error) {
	h := sha256.New()
	run := func(args ...string) ([]byte, error) {
		cmd := exec.Command("git", append([]string{"-C", repo}, args...)...)
		return cmd.Output()
	}
	head, err := run("rev-parse", "HEAD")
	if err != nil {
		return "", fmt.Errorf("git rev-parse in %s: %v", repo, err)
	}
	h.Write(head)
	diff, err := run("diff", "HEAD", "--binary")
	if err != nil {
		return "", err
	}
	h.Write(diff)
	others, err := run("ls-files", "--others", "--exclude-standard")
	if err != nil {
		return "", err
	}
	for _, f := range strings.Split(strings.TrimSpace(string(others)), "\n") {
		if f == "" {
			continue
		}
		b, err := os.ReadFile(filepath.Join(repo, f))
		if err != nil {
			continue
		}
		fmt.Fprintf(h, "\x00%s\x00%d\x00", f, len(b))
		h.Write(b)
	}
	return hex.EncodeToString(h.Sum(nil))[:32], nil
}

// Setup computes the tree hash, prepares the cache and builds the generator.
func Setup() (*Env, error) {
	e := &Env{Repo: os.Getenv("VERIF_REPO"), ModFile: os.Getenv("VERIF_GOMODFILE")}
	if e.Repo == "" {
		e.Repo = "/repo"
	}
	var err error
	if e.Repo, err = filepath.Abs(e.Repo); err != nil {
		return nil, err
	}
	if e.TreeHash, err = TreeHash(e.Repo); err != nil {
		return nil, err
	}
	base := filepath.Join(verifRoot(), ".cache", "gencheck")
	e.Cache = filepath.Join(base, e.TreeHash)
	if err := os.MkdirAll(filepath.Join(e.Cache, "prog"), 0o755); err != nil {
		return nil, err
	}
	now := time.Now()
	os.Chtimes(e.Cache, now, now)
	evict(base, e.TreeHash)
	e.ThriftRW = filepath.Join(e.Cache, "thriftrw")
	if _, err := os.Stat(e.ThriftRW); err != nil {
		tmp := fmt.Sprintf("%s.%d.tmp", e.ThriftRW, os.Getpid())
		cmd := exec.Command("go", "build", "-o", tmp, ".")
		cmd.Dir = e.Repo
		cmd.Env = goEnv("GOFLAGS=-mod=readonly")
		if out, err := cmd.CombinedOutput(); err != nil {
			os.Remove(tmp)
			return nil, fmt.Errorf("building thriftrw from %s: %v\n%s", e.Repo, err, out)
		}
		if err := os.Rename(tmp, e.ThriftRW); err != nil {
			return nil, err
		}
	}
	return e, nil
}

// evict keeps the current tree directory and the two most recently used
// others, and bounds the size of every kept directory.
func evict(base, current string) {
	ents, err := os.ReadDir(base)
	if err != nil {
		return
	}
	type d struct {
		name string
		mt   time.Time
	}
	var ds []d
	for _, en := range ents {
		if !en.IsDir() || en.Name() == current {
			continue
		}
		if info, err := en.Info(); err == nil {
			ds = append(ds, d{en.Name(), info.ModTime()})
		}
	}
	sort.Slice(ds, func(i, j int) bool { return ds[i].mt.After(ds[j].mt) })
	for i, x := range ds {
		if i >= 2 {
			os.RemoveAll(filepath.Join(base, x.name))
		}
	}
	// bound the program cache of the current tree (~2.5 GB)
	progDir := filepath.Join(base, current, "prog")
	pe, err := os.ReadDir(progDir)
	if err != nil {
		return
	}
	type p struct {
		name string
		mt   time.Time
		size int64
	}
	var ps []p
	var total int64
	for _, en := range pe {
		info, err := en.Info()
		if err != nil {
			continue
		}
		if strings.HasSuffix(en.Name(), ".tmp") && time.Since(info.ModTime()) > time.Hour {
			os.RemoveAll(filepath.Join(progDir, en.Name()))
			continue
		}
		var sz int64
		filepath.WalkDir(filepath.Join(progDir, en.Name()), func(_ string, de fs.DirEntry, err error) error {
			if err == nil && !de.IsDir() {
				if fi, err := de.Info(); err == nil {
					sz += fi.Size()
				}
			}
			return nil
		})
		ps = append(ps, p{en.Name(), info.ModTime(), sz})
		total += sz
	}
	sort.Slice(ps, func(i, j int) bool { return ps[i].mt.Before(ps[j].mt) })
	for _, x := range ps {
		if total <= 2500<<20 {
			break
		}
		if time.Since(x.mt) < 45*time.Minute {
			break // possibly in use by a concurrent run
		}
		os.RemoveAll(filepath.Join(progDir, x.name))
		total -= x.size
	}
}

// Cleanup removes scratch directories created by this environment.
func (e *Env) Cleanup() {
	e.mu.Lock()
	defer e.mu.Unlock()
	for _, d := range e.tmpDirs {
		os.RemoveAll(d)
	}
	e.tmpDirs = nil
}

// TempDir makes a scratch directory (outside /repo and /verif) that Cleanup removes.
func (e *Env) TempDir() (string, error) {
	out, err := exec.Command("mktemp", "-d", "/tmp/gencheck.XXXXXXXX").Output()
	if err != nil {
		return "", err
	}
	d := strings.TrimSpace(string(out))
	e.mu.Lock()
	e.tmpDirs = append(e.tmpDirs, d)
	e.mu.Unlock()
	return d, nil
}

// Options is one option set of the thriftrw command line.
type Options struct {
	NoZap      bool
	EnumStrict bool
	OutputFile string // --output-file NAME.go (implies one invocation per file)
	NoRecurse  bool   // one invocation per file
	PkgPrefix  string // import path prefix of generated packages inside module genout ("" = genout/gen)
	ThriftRoot bool   // pass --thrift-root explicitly
	Plugin     string // plugin name (-p), the executable must be on PATH via PluginDir
	PluginDir  string
	NoEmbedIDL bool `json:",omitempty"` // --no-embed-idl
	// NonStrict: compile with compile.NonStrict() (fields may lack ids and requiredness). The
	// command line has no flag for it, so such a job is generated by the in-process helper.
	NonStrict bool `json:",omitempty"`
}

func (o Options) Prefix() string {
	if o.PkgPrefix == "" {
		return "genout/gen"
	}
	return path.Clean(o.PkgPrefix)
}

// PrefixArg is the prefix as given on the command line (possibly not in clean
// form, e.g. with a trailing slash); Prefix is the import path it denotes.
func (o Options) PrefixArg() string {
	if o.PkgPrefix == "" {
		return "genout/gen"
	}
	return o.PkgPrefix
}

// OutDir is the output directory relative to the scratch module root.
func (o Options) OutDir() string { return strings.TrimPrefix(o.Prefix(), "genout/") }

func (o Options) String() string {
	var p []string
	if o.NoZap {
		p = append(p, "no-zap")
	}
	if o.EnumStrict {
		p = append(p, "enum-text-marshal-strict")
	}
	if o.OutputFile != "" {
		p = append(p, "output-file")
	}
	if o.NoRecurse {
		p = append(p, "no-recurse")
	}
	if o.PkgPrefix != "" {
		p = append(p, "pkg-prefix")
	}
	if o.ThriftRoot {
		p = append(p, "thrift-root")
	}
	if o.Plugin != "" {
		p = append(p, "plugin")
	}
	if o.NoEmbedIDL {
		p = append(p, "no-embed-idl")
	}
	if o.NonStrict {
		p = append(p, "non-strict(api)")
	}
	if len(p) == 0 {
		return "default"
	}
	return strings.Join(p, "+")
}

// PerFile says whether the generator has to be invoked once per Thrift file.
func (o Options) PerFile() bool { return o.NoRecurse || o.OutputFile != "" }

// Job is one program to generate and build.
type Job struct {
	Files   map[string]string // thrift files: path relative to the thrift root → text
	Order   []string          // files in dependency order (includes first); last one is the root
	Opts    Options
	Extra   map[string]string // extra Go files of the scratch module (path → text), e.g. drv/main.go
	Lib     map[string]string // library packages copied into the module (path → text)
	Binary  string            // package to link into an executable (e.g. "./drv"), "" = none
	NoBuild bool              // only run the generator
	NoVet   bool
	Tag     string // free-form extra cache key
	Tags    string // build tags
}

// Result of a job.
type Result struct {
	Key      string
	Dir      string // cache directory: gen/ (generated tree), bin (executable), meta.json
	GenOK    bool
	GenOut   string
	BuildOK  bool
	BuildOut string
	VetOK    bool
	VetOut   string
	Cached   bool
	GenFiles []string // generated files relative to Dir/gen
	Seconds  float64
	Internal string // harness-side failure (not attributable to the generator)
}

func (r *Result) BinPath() string { return filepath.Join(r.Dir, "bin") }
func (r *Result) GenDir() string  { return filepath.Join(r.Dir, "gen") }

func (j *Job) key(e *Env) string {
	h := sha256.New()
	enc := json.NewEncoder(h)
	names := func(m map[string]string) []string {
		var ks []string
		for k := range m {
			ks = append(ks, k)
		}
		sort.Strings(ks)
		return ks
	}
	for _, k := range names(j.Files) {
		enc.Encode([]string{"f", k, j.Files[k]})
	}
	enc.Encode(j.Order)
	enc.Encode(j.Opts)
	for _, k := range names(j.Extra) {
		enc.Encode([]string{"x", k, j.Extra[k]})
	}
	for _, k := range names(j.Lib) {
		enc.Encode([]string{"l", k, j.Lib[k]})
	}
	enc.Encode([]interface{}{j.Binary, j.NoBuild, j.NoVet, j.Tag, j.Tags, "v3"})
	return hex.EncodeToString(h.Sum(nil))[:24]
}

func writeFiles(root string, files map[string]string) error {
	for p, c := range files {
		full := filepath.Join(root, p)
		if err := os.MkdirAll(filepath.Dir(full), 0o755); err != nil {
			return err
		}
		if err := os.WriteFile(full, []byte(c), 0o644); err != nil {
			return err
		}
	}
	return nil
}

func copyFile(dst, src string, mode os.FileMode) error {
	in, err := os.Open(src)
	if err != nil {
		return err
	}
	defer in.Close()
	if err := os.MkdirAll(filepath.Dir(dst), 0o755); err != nil {
		return err
	}
	out, err := os.OpenFile(dst, os.O_CREATE|os.O_WRONLY|os.O_TRUNC, mode)
	if err != nil {
		return err
	}
	if _, err := io.Copy(out, in); err != nil {
		out.Close()
		return err
	}
	return out.Close()
}

func copyTree(dst, src string) ([]string, error) {
	var files []string
	err := filepath.WalkDir(src, func(p string, d fs.DirEntry, err error) error {
		if err != nil {
			return err
		}
		rel, _ := filepath.Rel(src, p)
		if d.IsDir() {
			return os.MkdirAll(filepath.Join(dst, rel), 0o755)
		}
		files = append(files, filepath.ToSlash(rel))
		return copyFile(filepath.Join(dst, rel), p, 0o644)
	})
	sort.Strings(files)
	return files, err
}

func runCmd(dir string, env []string, timeout time.Duration, name string, args ...string) (string, error) {
	cmd := exec.Command(name, args...)
	cmd.Dir = dir
	cmd.Env = env
	var out bytes.Buffer
	cmd.Stdout = &out
	cmd.Stderr = &out
	if err := cmd.Start(); err != nil {
		return "", err
	}
	done := make(chan error, 1)
	go func() { done <- cmd.Wait() }()
	select {
	case err := <-done:
		return out.String(), err
	case <-time.After(timeout):
		cmd.Process.Kill()
		<-done
		return out.String(), fmt.Errorf("timeout after %v", timeout)
	}
}

// ModuleFiles returns go.mod and go.sum of the scratch module.
func (e *Env) ModuleFiles() (map[string]string, error) {
	sum, err := os.ReadFile(filepath.Join(e.Repo, "go.sum"))
	if err != nil {
		return nil, err
	}
	mod := "module genout\n\ngo 1.22.1\n\nrequire go.uber.org/thriftrw v0.0.0\n\nreplace go.uber.org/thriftrw => " + e.Repo + "\n"
	return map[string]string{"go.mod": mod, "go.sum": string(sum)}, nil
}

// GenArgs is the generator command line for one invocation.
func (j *Job) GenArgs(scratch, file string) []string {
	return j.GenArgsTo(scratch, filepath.Join(scratch, j.Opts.OutDir()), file)
}

// GenArgsTo is GenArgs with an explicit output directory.
func (j *Job) GenArgsTo(scratch, outDir, file string) []string {
	o := j.Opts
	args := []string{"--out", outDir, "--pkg-prefix", o.PrefixArg()}
	if o.NoZap {
		args = append(args, "--no-zap")
	}
	if o.NoEmbedIDL {
		args = append(args, "--no-embed-idl")
	}
	if o.EnumStrict {
		args = append(args, "--enum-text-marshal-strict")
	}
	if o.OutputFile != "" {
		args = append(args, "--output-file", o.OutputFile)
	}
	if o.NoRecurse {
		args = append(args, "--no-recurse")
	}
	if o.ThriftRoot || o.PerFile() {
		args = append(args, "--thrift-root", filepath.Join(scratch, "thrift"))
	}
	if o.Plugin != "" {
		args = append(args, "-p", o.Plugin)
	}
	return append(args, filepath.Join(scratch, "thrift", file))
}

// Generate runs the generator into scratch (which must contain thrift/…).
func (e *Env) Generate(j *Job, scratch string, extraEnv ...string) (ok bool, out string) {
	return e.GenerateTo(j, scratch, filepath.Join(scratch, j.Opts.OutDir()), extraEnv...)
}

// GenerateTo runs the generator with an explicit output directory.
func (e *Env) GenerateTo(j *Job, scratch, outDir string, extraEnv ...string) (ok bool, out string) {
	if len(j.Order) == 0 {
		return true, "" // nothing to generate: the job only compiles the given Go files
	}
	files := []string{j.Order[len(j.Order)-1]}
	if j.Opts.PerFile() {
		files = j.Order
	}
	env := os.Environ()
	if j.Opts.PluginDir != "" {
		env = append(env, "PATH="+j.Opts.PluginDir+":"+os.Getenv("PATH"))
	}
	env = append(env, extraEnv...)
	var sb strings.Builder
	if j.Opts.NonStrict {
		helper, err := e.helperOnce()
		if err != nil {
			return false, "[" + err.Error() + "]"
		}
		for _, f := range files {
			rep, err := e.RunHelper(helper, scratch, j, f, outDir, filepath.Join(scratch, "thrift"), 0)
			if err != nil {
				return false, "[" + strings.Replace(err.Error(), scratch, "$S", -1) + "]"
			}
			if !rep.OK {
				return false, fmt.Sprintf("[genhelper %s: %s: %s]\n", f, rep.Stage, rep.Err)
			}
		}
		return true, ""
	}
	for _, f := range files {
		o, err := runCmd(scratch, env, 120*time.Second, e.ThriftRW, j.GenArgsTo(scratch, outDir, f)...)
		sb.WriteString(o)
		if err != nil {
			fmt.Fprintf(&sb, "[thriftrw %s: %v]\n", f, err)
			return false, strings.Replace(strings.Replace(sb.String(), outDir, "$O", -1), scratch, "$S", -1)
		}
	}
	return true, strings.Replace(strings.Replace(sb.String(), outDir, "$O", -1), scratch, "$S", -1)
}

// Build generates, compiles and vets one job (or returns the cached result).
func (e *Env) Build(j *Job) *Result {
	key := j.key(e)
	dir := filepath.Join(e.Cache, "prog", key)
	if !e.NoCache {
		if b, err := os.ReadFile(filepath.Join(dir, "meta.json")); err == nil {
			var r Result
			if json.Unmarshal(b, &r) == nil {
				r.Dir, r.Cached = dir, true
				now := time.Now()
				os.Chtimes(dir, now, now)
				return &r
			}
		}
	}
	start := time.Now()
	r := &Result{Key: key}
	fail := func(format string, a ...interface{}) *Result {
		r.Internal = fmt.Sprintf(format, a...)
		return r
	}
	scratch, err := e.TempDir()
	if err != nil {
		return fail("mktemp: %v", err)
	}
	defer os.RemoveAll(scratch)
	thrift := map[string]string{}
	for p, c := range j.Files {
		thrift[filepath.Join("thrift", p)] = c
	}
	mod, err := e.ModuleFiles()
	if err != nil {
		return fail("%v", err)
	}
	for _, m := range []map[string]string{thrift, mod, j.Extra, j.Lib} {
		if err := writeFiles(scratch, m); err != nil {
			return fail("%v", err)
		}
	}
	r.GenOK, r.GenOut = e.Generate(j, scratch)
	stage := filepath.Join(e.Cache, "prog", fmt.Sprintf("%s.%d.tmp", key, os.Getpid()))
	os.RemoveAll(stage)
	if err := os.MkdirAll(stage, 0o755); err != nil {
		return fail("%v", err)
	}
	defer os.RemoveAll(stage)
	if r.GenOK {
		outDir := filepath.Join(scratch, j.Opts.OutDir())
		if _, err := os.Stat(outDir); err == nil {
			if r.GenFiles, err = copyTree(filepath.Join(stage, "gen"), outDir); err != nil {
				return fail("%v", err)
			}
		}
	}
	if r.GenOK && !j.NoBuild {
		flags := "GOFLAGS=-mod=mod"
		if j.Tags != "" {
			flags += " -tags=" + j.Tags
		}
		env := goEnv(flags)
		out, err := runCmd(scratch, env, 10*time.Minute, "go", "build", "./...")
		r.BuildOut = strings.Replace(out, scratch, "$S", -1)
		r.BuildOK = err == nil
		if r.BuildOK && j.Binary != "" {
			out, err := runCmd(scratch, env, 10*time.Minute, "go", "build", "-ldflags=-s -w", "-o", filepath.Join(stage, "bin"), j.Binary)
			if err != nil {
				r.BuildOK = false
				r.BuildOut += strings.Replace(out, scratch, "$S", -1)
			}
		}
		if r.BuildOK && !j.NoVet {
			out, err := runCmd(scratch, env, 10*time.Minute, "go", "vet", "./"+j.Opts.OutDir()+"/...")
			r.VetOut = strings.Replace(out, scratch, "$S", -1)
			r.VetOK = err == nil
		}
	}
	r.Seconds = time.Since(start).Seconds()
	b, _ := json.MarshalIndent(r, "", " ")
	if err := os.WriteFile(filepath.Join(stage, "meta.json"), b, 0o644); err != nil {
		return fail("%v", err)
	}
	if err := os.Rename(stage, dir); err != nil {
		// somebody else finished the same job first
		if _, err2 := os.Stat(filepath.Join(dir, "meta.json")); err2 != nil {
			return fail("rename into cache: %v", err)
		}
	}
	r.Dir = dir
	return r
}

// BuildAll builds jobs in parallel.
func (e *Env) BuildAll(jobs []*Job, par int) []*Result {
	res := make([]*Result, len(jobs))
	sem := make(chan struct{}, par)
	var wg sync.WaitGroup
	for i := range jobs {
		wg.Add(1)
		sem <- struct{}{}
		go func(i int) {
			defer wg.Done()
			defer func() { <-sem }()
			res[i] = e.Build(jobs[i])
		}(i)
	}
	wg.Wait()
	return res
}
