package gobuild

import (
	_ "embed"
	"encoding/json"
	"fmt"
	"io/fs"
	"os"
	"strings"
	"sync"
	"time"

	"verifharness/internal/typenorm"
)

//go:embed helpersrc/main.go.txt
var helperMain string

// Helper builds (once per tree state) the in-process generator driver
// `genhelper` against the repository under test, with the verif build tag.
func (e *Env) Helper() (string, error) {
	job := &Job{Files: map[string]string{}, Extra: map[string]string{"helper/main.go": helperMain}, Lib: map[string]string{},
		Binary: "./helper", Tags: "verif", NoVet: true, Tag: "genhelper"}
	ents, _ := fs.ReadDir(typenorm.Source, ".")
	for _, en := range ents {
		b, _ := fs.ReadFile(typenorm.Source, en.Name())
		job.Lib["typenorm/"+en.Name()] = string(b)
	}
	r := e.Build(job)
	if r.Internal != "" {
		return "", fmt.Errorf("genhelper: %s", r.Internal)
	}
	if !r.BuildOK {
		return "", fmt.Errorf("genhelper does not build against %s:\n%s", e.Repo, r.BuildOut)
	}
	return r.BinPath(), nil
}

var helperMemo struct {
	mu   sync.Mutex
	path map[string]string
}

// helperOnce is Helper, built once per process and repository.
func (e *Env) helperOnce() (string, error) {
	helperMemo.mu.Lock()
	defer helperMemo.mu.Unlock()
	if p, ok := helperMemo.path[e.Repo]; ok {
		return p, nil
	}
	p, err := e.Helper()
	if err != nil {
		return "", err
	}
	if helperMemo.path == nil {
		helperMemo.path = map[string]string{}
	}
	helperMemo.path[e.Repo] = p
	return p, nil
}

// HelperReport is the JSON printed by genhelper.
type HelperReport struct {
	OK            bool   `json:"ok"`
	Err           string `json:"err"`
	Stage         string `json:"stage"`
	PackagePrefix string `json:"packagePrefix"`
	ThriftRoot    string `json:"thriftRoot"`
	Modules       []struct {
		ID         int    `json:"id"`
		ImportPath string `json:"importPath"`
		Directory  string `json:"directory"`
		ThriftFile string `json:"thriftFile"`
		Root       bool   `json:"root"`
	} `json:"modules"`
	Services []struct {
		ID         int    `json:"id"`
		Name       string `json:"name"`
		ThriftName string `json:"thriftName"`
		Module     int    `json:"module"`
		Parent     int    `json:"parent"`
		Root       bool   `json:"root"`
		Functions  []struct {
			Name       string                        `json:"name"`
			ThriftName string                        `json:"thriftName"`
			Args       []struct{ Name, Type string } `json:"args"`
			Ret        string                        `json:"ret"`
			Exceptions []struct{ Name, Type string } `json:"exceptions"`
			OneWay     bool                          `json:"oneWay"`
		} `json:"functions"`
	} `json:"services"`
	Problems  []string `json:"problems"`
	RawRoots  int      `json:"rawRoots"`
	RootOrder []string `json:"rootOrder"`
	Raw       string   `json:"-"`
}

// RunHelper runs genhelper for one thrift file of a job laid out in scratch
// (scratch/thrift/…), writing the generated code to outDir.
func (e *Env) RunHelper(helper, scratch string, j *Job, file, outDir, thriftRoot string, order uint64) (*HelperReport, error) {
	o := j.Opts
	args := []string{"-file", scratch + "/thrift/" + file, "-out", outDir, "-prefix", o.PrefixArg(), "-root", thriftRoot, "-order", fmt.Sprint(order)}
	if o.NoRecurse {
		args = append(args, "-no-recurse")
	}
	if o.NoZap {
		args = append(args, "-no-zap")
	}
	if o.EnumStrict {
		args = append(args, "-enum-text-marshal-strict")
	}
	if o.NoEmbedIDL {
		args = append(args, "-no-embed-idl")
	}
	if o.NonStrict {
		args = append(args, "-non-strict")
	}
	if o.OutputFile != "" {
		args = append(args, "-output-file", o.OutputFile)
	}
	out, err := runCmd(scratch, os.Environ(), 120*time.Second, helper, args...)
	if err != nil {
		return nil, fmt.Errorf("genhelper: %v: %s", err, out)
	}
	var rep HelperReport
	if err := json.Unmarshal([]byte(out), &rep); err != nil {
		return nil, fmt.Errorf("genhelper output: %v: %s", err, out)
	}
	rep.Raw = strings.Replace(out, scratch, "$S", -1)
	return &rep, nil
}

// Layout writes the thrift files of a job into a fresh scratch directory.
func (e *Env) Layout(j *Job) (string, error) {
	scratch, err := e.TempDir()
	if err != nil {
		return "", err
	}
	thrift := map[string]string{}
	for p, c := range j.Files {
		thrift["thrift/"+p] = c
	}
	return scratch, writeFiles(scratch, thrift)
}
