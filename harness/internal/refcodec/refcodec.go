// Package refcodec is the harness's independent, schema-driven reference codec
// for generated thriftrw types (DESIGN §5 C01/C05): Go-level values (gtext.G)
// to and from wire values (wv.V), written from the Thrift schema semantics and
// the rules the properties state. It shares no code with thriftrw.
package refcodec

import (
	"errors"
	"fmt"
	"sort"

	"verifharness/internal/gtext"
	"verifharness/internal/rng"
	"verifharness/internal/wv"
)

var (
	ErrRequired = errors.New("required field unset")
	ErrUnion    = errors.New("union arity")
	ErrNilElem  = errors.New("nil element")
	ErrShape    = errors.New("value does not fit type")
)

type Codec struct {
	Env *gtext.Env
	// OmitUnset, when non-nil, is asked for every unset optional field that has a
	// default whether the reference encoder leaves it out (as an independent
	// Thrift implementation would) instead of writing the default.
	OmitUnset func() bool
}

// ---- serialisation: G → W ----

// ToWire is the reference serialiser; it fails exactly on schema-violating values.
func (c *Codec) ToWire(t *gtext.T, g *gtext.G) (*wv.V, error) {
	root := t.Root()
	switch root.K {
	case gtext.KBool:
		if g.K != gtext.GBool {
			return nil, ErrShape
		}
		return &wv.V{T: wv.TBool, U: g.U}, nil
	case gtext.KI8:
		return scalar(g, gtext.GI8, wv.TI8)
	case gtext.KI16:
		return scalar(g, gtext.GI16, wv.TI16)
	case gtext.KI32, gtext.KEnum:
		return scalar(g, gtext.GI32, wv.TI32)
	case gtext.KI64:
		return scalar(g, gtext.GI64, wv.TI64)
	case gtext.KDouble:
		return scalar(g, gtext.GDouble, wv.TDouble)
	case gtext.KString:
		if g.K != gtext.GStr {
			return nil, ErrShape
		}
		return &wv.V{T: wv.TBinary, Bin: g.B}, nil
	case gtext.KBinary:
		if g.IsNil() {
			return &wv.V{T: wv.TBinary}, nil
		}
		if g.K != gtext.GBin {
			return nil, ErrShape
		}
		return &wv.V{T: wv.TBinary, Bin: g.B}, nil
	case gtext.KList, gtext.KSet, gtext.KSSet:
		v := &wv.V{T: wv.TList, ET: root.Elem.Code()}
		if root.K != gtext.KList {
			v.T = wv.TSet
		}
		if g.IsNil() {
			return v, nil
		}
		if (root.K == gtext.KList) != (g.K == gtext.GList) || (root.K != gtext.KList && g.K != gtext.GSet) {
			return nil, ErrShape
		}
		for _, it := range g.Items {
			if it.IsNil() && !root.Elem.IsPrim() {
				return nil, ErrNilElem
			}
			w, err := c.ToWire(root.Elem, it)
			if err != nil {
				return nil, err
			}
			v.Items = append(v.Items, w)
		}
		return v, nil
	case gtext.KMap:
		v := &wv.V{T: wv.TMap, KT: root.Key.Code(), ET: root.Elem.Code()}
		if g.IsNil() {
			return v, nil
		}
		if g.K != gtext.GMap {
			return nil, ErrShape
		}
		for i := 0; i+1 < len(g.Items); i += 2 {
			if (g.Items[i].IsNil() && !root.Key.IsPrim()) || (g.Items[i+1].IsNil() && !root.Elem.IsPrim()) {
				return nil, ErrNilElem
			}
		}
		for i := 0; i+1 < len(g.Items); i += 2 {
			k, err := c.ToWire(root.Key, g.Items[i])
			if err != nil {
				return nil, err
			}
			x, err := c.ToWire(root.Elem, g.Items[i+1])
			if err != nil {
				return nil, err
			}
			v.Items = append(v.Items, k, x)
		}
		return v, nil
	case gtext.KStruct:
		sd := c.Env.Structs[root.Name]
		if sd == nil {
			return nil, fmt.Errorf("unknown struct %s", root.Name)
		}
		if g.K != gtext.GStruct || len(g.Items) != len(sd.Fields) {
			return nil, ErrShape
		}
		v := &wv.V{T: wv.TStruct}
		for i, f := range sd.Fields {
			x := g.Items[i]
			switch {
			case f.Req:
				if x.IsNil() && !f.T.IsPrim() && !f.T.IsList() {
					return nil, ErrRequired
				}
			case f.Def != nil:
				if x.IsNil() {
					if c.OmitUnset != nil && c.OmitUnset() {
						continue
					}
					x = f.Def
				}
			default:
				if x.IsNil() {
					continue
				}
			}
			w, err := c.ToWire(f.T, x)
			if err != nil {
				return nil, err
			}
			v.Fields = append(v.Fields, wv.Field{ID: uint16(f.ID), V: w})
		}
		switch sd.Arity() {
		case 1:
			if len(v.Fields) != 1 && len(sd.Fields) > 0 {
				return nil, ErrUnion
			}
		case 2:
			if len(v.Fields) > 1 {
				return nil, ErrUnion
			}
		}
		return v, nil
	}
	return nil, ErrShape
}

func scalar(g *gtext.G, k gtext.GKind, t byte) (*wv.V, error) {
	if g.K != k {
		return nil, ErrShape
	}
	return &wv.V{T: t, U: g.U}, nil
}

// ---- deserialisation: W → G ----

// FromWire is the reference deserialiser on an arbitrary wire value whose wire
// type is that of t: unknown and mistyped fields are ignored, defaults are
// filled, required fields and union arity are enforced; an element-type
// mismatch inside a container of the right wire type yields nil.
func (c *Codec) FromWire(t *gtext.T, w *wv.V) (*gtext.G, error) {
	root := t.Root()
	if w.T != root.Code() {
		return nil, ErrShape
	}
	switch root.K {
	case gtext.KBool:
		return gtext.Bool(w.U != 0), nil
	case gtext.KI8:
		return gtext.Scalar(gtext.GI8, w.U&0xff), nil
	case gtext.KI16:
		return gtext.Scalar(gtext.GI16, w.U&0xffff), nil
	case gtext.KI32, gtext.KEnum:
		return gtext.Scalar(gtext.GI32, w.U&0xffffffff), nil
	case gtext.KI64:
		return gtext.Scalar(gtext.GI64, w.U), nil
	case gtext.KDouble:
		return gtext.Scalar(gtext.GDouble, w.U), nil
	case gtext.KString:
		return gtext.Str(append([]byte{}, w.Bin...)), nil
	case gtext.KBinary:
		return gtext.Bin(append([]byte{}, w.Bin...)), nil
	case gtext.KList, gtext.KSet, gtext.KSSet:
		if w.ET != root.Elem.Code() {
			return gtext.Nil(), nil
		}
		g := &gtext.G{K: gtext.GList, Items: []*gtext.G{}}
		if root.K != gtext.KList {
			g.K = gtext.GSet
			g.H = root.SetHashed()
		}
		for _, it := range w.Items {
			x, err := c.FromWire(root.Elem, it)
			if err != nil {
				return nil, err
			}
			if g.H {
				if i := findKey(g.Items, 1, x); i >= 0 {
					continue // Go map: the first key stays
				}
			}
			g.Items = append(g.Items, x)
		}
		return g, nil
	case gtext.KMap:
		if w.KT != root.Key.Code() || w.ET != root.Elem.Code() {
			return gtext.Nil(), nil
		}
		g := &gtext.G{K: gtext.GMap, H: root.MapHashed(), Items: []*gtext.G{}}
		for i := 0; i+1 < len(w.Items); i += 2 {
			k, err := c.FromWire(root.Key, w.Items[i])
			if err != nil {
				return nil, err
			}
			x, err := c.FromWire(root.Elem, w.Items[i+1])
			if err != nil {
				return nil, err
			}
			if g.H {
				if j := findKey(g.Items, 2, k); j >= 0 {
					g.Items[j+1] = x // same key: value overwritten, first key kept
					continue
				}
			}
			g.Items = append(g.Items, k, x)
		}
		return g, nil
	case gtext.KStruct:
		sd := c.Env.Structs[root.Name]
		if sd == nil {
			return nil, fmt.Errorf("unknown struct %s", root.Name)
		}
		g := &gtext.G{K: gtext.GStruct, Items: make([]*gtext.G, len(sd.Fields))}
		seen := make([]bool, len(sd.Fields))
		for i, f := range sd.Fields {
			g.Items[i] = gtext.Nil()
			if f.Req && f.T.IsPrim() {
				g.Items[i] = Zero(f.T)
			}
		}
		for _, wf := range w.Fields {
			for i, f := range sd.Fields {
				if uint16(f.ID) != wf.ID {
					continue
				}
				if wf.V.T == f.T.Code() {
					x, err := c.FromWire(f.T, wf.V)
					if err != nil {
						return nil, err
					}
					g.Items[i] = x
					seen[i] = true
				}
				break
			}
		}
		n := 0
		for i, f := range sd.Fields {
			if f.Def != nil {
				if g.Items[i].IsNil() {
					g.Items[i] = f.Def.Clone()
				}
			} else if f.Req && !seen[i] {
				return nil, ErrRequired
			}
			if !g.Items[i].IsNil() {
				n++
			}
		}
		switch sd.Arity() {
		case 1:
			if n != 1 && len(sd.Fields) > 0 {
				return nil, ErrUnion
			}
		case 2:
			if n > 1 {
				return nil, ErrUnion
			}
		}
		return g, nil
	}
	return nil, ErrShape
}

// Zero is the Go zero value of a primitive type in value representation.
func Zero(t *gtext.T) *gtext.G {
	switch t.Root().K {
	case gtext.KBool:
		return gtext.Bool(false)
	case gtext.KI8:
		return gtext.Scalar(gtext.GI8, 0)
	case gtext.KI16:
		return gtext.Scalar(gtext.GI16, 0)
	case gtext.KI32, gtext.KEnum:
		return gtext.Scalar(gtext.GI32, 0)
	case gtext.KI64:
		return gtext.Scalar(gtext.GI64, 0)
	case gtext.KDouble:
		return gtext.Scalar(gtext.GDouble, 0)
	case gtext.KString:
		return gtext.Str([]byte{})
	}
	return gtext.Nil()
}

// goKeyEq is Go's == on hashable keys: doubles compare numerically (NaN is
// never equal, +0 == -0), everything else by value.
func goKeyEq(a, b *gtext.G) bool {
	if a.K != b.K {
		return false
	}
	switch a.K {
	case gtext.GDouble:
		if isNaN(a.U) || isNaN(b.U) {
			return false
		}
		if a.U<<1 == 0 && b.U<<1 == 0 {
			return true
		}
		return a.U == b.U
	case gtext.GStr:
		return string(a.B) == string(b.B)
	}
	return a.U == b.U
}

func isNaN(bits uint64) bool {
	return bits&0x7ff0000000000000 == 0x7ff0000000000000 && bits&0xfffffffffffff != 0
}

func findKey(items []*gtext.G, step int, k *gtext.G) int {
	for i := 0; i < len(items); i += step {
		if goKeyEq(items[i], k) {
			return i
		}
	}
	return -1
}

// ---- wire value helpers ----

// Canon sorts the items of every set and the entries of every map by token
// text, recursively (inner first); struct field order is kept.
func Canon(v *wv.V) *wv.V {
	c := *v
	c.Fields = nil
	c.Items = nil
	for _, f := range v.Fields {
		c.Fields = append(c.Fields, wv.Field{ID: f.ID, V: Canon(f.V)})
	}
	for _, it := range v.Items {
		c.Items = append(c.Items, Canon(it))
	}
	switch v.T {
	case wv.TSet:
		ts := make([]string, len(c.Items))
		for i, it := range c.Items {
			ts[i] = it.Text()
		}
		idx := make([]int, len(ts))
		for i := range idx {
			idx[i] = i
		}
		sort.SliceStable(idx, func(a, b int) bool { return ts[idx[a]] < ts[idx[b]] })
		out := make([]*wv.V, len(idx))
		for i, j := range idx {
			out[i] = c.Items[j]
		}
		c.Items = out
	case wv.TMap:
		n := len(c.Items) / 2
		ts := make([]string, n)
		for i := 0; i < n; i++ {
			ts[i] = c.Items[2*i].Text() + " " + c.Items[2*i+1].Text()
		}
		idx := make([]int, n)
		for i := range idx {
			idx[i] = i
		}
		sort.SliceStable(idx, func(a, b int) bool { return ts[idx[a]] < ts[idx[b]] })
		out := make([]*wv.V, 0, 2*n)
		for _, j := range idx {
			out = append(out, c.Items[2*j], c.Items[2*j+1])
		}
		c.Items = out
	}
	return &c
}

// CanonText canonicalises a W text; ok=false if it does not parse.
func CanonText(s string) (string, bool) {
	v, err := wv.Parse(s)
	if err != nil {
		return s, false
	}
	return Canon(v).Text(), true
}

// Permute shuffles struct fields, set items and map entries at every level.
func Permute(r *rng.R, v *wv.V) *wv.V {
	c := *v
	c.Fields = nil
	c.Items = nil
	for _, f := range v.Fields {
		c.Fields = append(c.Fields, wv.Field{ID: f.ID, V: Permute(r, f.V)})
	}
	for _, it := range v.Items {
		c.Items = append(c.Items, Permute(r, it))
	}
	switch v.T {
	case wv.TStruct:
		for i := len(c.Fields) - 1; i > 0; i-- {
			j := r.Intn(i + 1)
			c.Fields[i], c.Fields[j] = c.Fields[j], c.Fields[i]
		}
	case wv.TSet:
		for i := len(c.Items) - 1; i > 0; i-- {
			j := r.Intn(i + 1)
			c.Items[i], c.Items[j] = c.Items[j], c.Items[i]
		}
	case wv.TMap:
		n := len(c.Items) / 2
		for i := n - 1; i > 0; i-- {
			j := r.Intn(i + 1)
			c.Items[2*i], c.Items[2*j] = c.Items[2*j], c.Items[2*i]
			c.Items[2*i+1], c.Items[2*j+1] = c.Items[2*j+1], c.Items[2*i+1]
		}
	}
	return &c
}

// ---- bytes → W: the harness's own strict decoder of the binary protocol ----

var ErrMalformed = errors.New("malformed")

// Decode reads one value of wire type t; it returns the value and the number
// of bytes consumed. Strict: bools are 0/1, lengths are non-negative, element
// types are valid type codes (also for empty containers? no: an empty
// container may carry any type byte, as in thriftrw).
func Decode(t byte, b []byte) (*wv.V, int, error) {
	d := &decoder{b: b}
	v, err := d.value(t, 0)
	if err != nil {
		return nil, d.pos, err
	}
	return v, d.pos, nil
}

type decoder struct {
	b       []byte
	pos     int
	lenient bool
	maxCnt  int
}

func (d *decoder) need(n int) error {
	if n < 0 || d.pos+n > len(d.b) {
		return ErrMalformed
	}
	return nil
}

func (d *decoder) be(n int) (uint64, error) {
	if err := d.need(n); err != nil {
		return 0, err
	}
	var u uint64
	for i := 0; i < n; i++ {
		u = u<<8 | uint64(d.b[d.pos+i])
	}
	d.pos += n
	return u, nil
}

func validType(t byte) bool {
	switch t {
	case 2, 3, 4, 6, 8, 10, 11, 12, 13, 14, 15:
		return true
	}
	return false
}

func (d *decoder) value(t byte, depth int) (*wv.V, error) {
	if depth > 4000 {
		return nil, ErrMalformed
	}
	switch t {
	case wv.TBool:
		u, err := d.be(1)
		if err != nil {
			return nil, err
		}
		if u > 1 && !d.lenient {
			return nil, ErrMalformed
		}
		return &wv.V{T: t, U: u}, nil
	case wv.TI8:
		u, err := d.be(1)
		return &wv.V{T: t, U: u}, err
	case wv.TI16:
		u, err := d.be(2)
		return &wv.V{T: t, U: u}, err
	case wv.TI32:
		u, err := d.be(4)
		return &wv.V{T: t, U: u}, err
	case wv.TI64, wv.TDouble:
		u, err := d.be(8)
		return &wv.V{T: t, U: u}, err
	case wv.TBinary:
		n, err := d.be(4)
		if err != nil {
			return nil, err
		}
		if int32(n) < 0 {
			return nil, ErrMalformed
		}
		if err := d.need(int(n)); err != nil {
			return nil, err
		}
		v := &wv.V{T: t, Bin: append([]byte{}, d.b[d.pos:d.pos+int(n)]...)}
		d.pos += int(n)
		return v, nil
	case wv.TStruct:
		v := &wv.V{T: t}
		for {
			ft, err := d.be(1)
			if err != nil {
				return nil, err
			}
			if ft == 0 {
				return v, nil
			}
			id, err := d.be(2)
			if err != nil {
				return nil, err
			}
			if !validType(byte(ft)) {
				return nil, ErrMalformed
			}
			x, err := d.value(byte(ft), depth+1)
			if err != nil {
				return nil, err
			}
			v.Fields = append(v.Fields, wv.Field{ID: uint16(id), V: x})
		}
	case wv.TMap:
		kt, err := d.be(1)
		if err != nil {
			return nil, err
		}
		vt, err := d.be(1)
		if err != nil {
			return nil, err
		}
		n, err := d.be(4)
		if err != nil {
			return nil, err
		}
		if int32(n) < 0 {
			return nil, ErrMalformed
		}
		if int(n) > d.maxCnt {
			d.maxCnt = int(n)
		}
		v := &wv.V{T: t, KT: byte(kt), ET: byte(vt)}
		if n > 0 && (!validType(byte(kt)) || !validType(byte(vt))) {
			return nil, ErrMalformed
		}
		if int(n) > len(d.b)-d.pos { // every entry takes at least two bytes
			return nil, ErrMalformed
		}
		for i := 0; i < int(n); i++ {
			k, err := d.value(byte(kt), depth+1)
			if err != nil {
				return nil, err
			}
			x, err := d.value(byte(vt), depth+1)
			if err != nil {
				return nil, err
			}
			v.Items = append(v.Items, k, x)
		}
		return v, nil
	case wv.TSet, wv.TList:
		et, err := d.be(1)
		if err != nil {
			return nil, err
		}
		n, err := d.be(4)
		if err != nil {
			return nil, err
		}
		if int32(n) < 0 {
			return nil, ErrMalformed
		}
		if int(n) > d.maxCnt {
			d.maxCnt = int(n)
		}
		v := &wv.V{T: t, ET: byte(et)}
		if n > 0 && !validType(byte(et)) {
			return nil, ErrMalformed
		}
		if int(n) > len(d.b)-d.pos {
			return nil, ErrMalformed
		}
		for i := 0; i < int(n); i++ {
			x, err := d.value(byte(et), depth+1)
			if err != nil {
				return nil, err
			}
			v.Items = append(v.Items, x)
		}
		return v, nil
	}
	return nil, ErrMalformed
}

// MaxDeclaredCount walks b as a value of wire type t as far as the grammar
// allows and returns the largest container count (or binary length) declared
// in any header reached before the first error. Generated decoders pre-size
// from declared counts (finding D3), so main streams drop inputs whose
// declared counts exceed 2^16.
func MaxDeclaredCount(t byte, b []byte) int {
	d := &decoder{b: b, lenient: true}
	d.scan(t, 0)
	return d.maxCnt
}

// scan is value() without the plausibility cut on counts: the header is
// recorded before anything else is checked.
func (d *decoder) scan(t byte, depth int) error {
	if depth > 4000 {
		return ErrMalformed
	}
	switch t {
	case wv.TStruct:
		for {
			ft, err := d.be(1)
			if err != nil || ft == 0 {
				return err
			}
			if _, err := d.be(2); err != nil {
				return err
			}
			if err := d.scan(byte(ft), depth+1); err != nil {
				return err
			}
		}
	case wv.TMap:
		kt, err := d.be(1)
		if err != nil {
			return err
		}
		vt, err := d.be(1)
		if err != nil {
			return err
		}
		n, err := d.be(4)
		if err != nil {
			return err
		}
		if int32(n) < 0 {
			return ErrMalformed
		}
		if int(n) > d.maxCnt {
			d.maxCnt = int(n)
		}
		for i := 0; i < int(n); i++ {
			if err := d.scan(byte(kt), depth+1); err != nil {
				return err
			}
			if err := d.scan(byte(vt), depth+1); err != nil {
				return err
			}
		}
		return nil
	case wv.TSet, wv.TList:
		et, err := d.be(1)
		if err != nil {
			return err
		}
		n, err := d.be(4)
		if err != nil {
			return err
		}
		if int32(n) < 0 {
			return ErrMalformed
		}
		if int(n) > d.maxCnt {
			d.maxCnt = int(n)
		}
		for i := 0; i < int(n); i++ {
			if err := d.scan(byte(et), depth+1); err != nil {
				return err
			}
		}
		return nil
	case wv.TBinary:
		n, err := d.be(4)
		if err != nil {
			return err
		}
		if int32(n) < 0 {
			return ErrMalformed
		}
		if int(n) > d.maxCnt {
			d.maxCnt = int(n)
		}
		if err := d.need(int(n)); err != nil {
			return err
		}
		d.pos += int(n)
		return nil
	}
	_, err := d.value(t, depth)
	return err
}
