package progs

import (
	"fmt"
	"strings"

	"verifharness/internal/rng"
)

// Config steers the random program generator.
type Config struct {
	Files      int  // number of files (≥1)
	Defs       int  // type definitions per file (approx.)
	Consts     int  // constants per file
	Services   int  // services per file
	Funcs      int  // functions per service (max)
	Nested     bool // nested directory layout
	RedactPct  int  // percentage of fields carrying go.redact / go.nolog
	AnnotPct   int  // percentage of entities with go.name/go.label/go.tag
	DefaultPct int  // percentage of eligible fields with a default
	MaxFields  int
	Depth      int // type nesting depth
	NoUnions   bool
	// SpreadRedact makes sure go.redact and go.nolog each occur on a field of every
	// type category present in the program (C15: "fields of every type").
	SpreadRedact bool
}

// DefaultConfig is the main-stream configuration.
func DefaultConfig() Config {
	return Config{Files: 3, Defs: 9, Consts: 5, Services: 1, Funcs: 4, Nested: true,
		RedactPct: 8, AnnotPct: 15, DefaultPct: 35, MaxFields: 7, Depth: 3}
}

type generator struct {
	r      *rng.R
	cfg    Config
	p      *Program
	used   map[string]bool // Go-cased identifiers in use, program-wide
	serial int
	defIdx int
	// msgForced: an exception with a required, redacted string field `message` exists (SpreadRedact)
	msgForced bool
	topIn     map[*File]map[string]bool // Go-cased top-level names per file
	topAll    []string
}

var wordPool = []string{"alpha", "bravo", "cargo", "delta", "ember", "frost", "gamma", "hotel", "index",
	"joker", "kilo", "lima", "metro", "nova", "omega", "pixel", "quark", "radio", "sigma", "tango",
	"ultra", "vista", "whisk", "xenon", "yield", "zebra", "user", "http", "url", "id", "json", "api", "uuid", "ip", "xml"}

// plainFieldNames are field names without a serial number (none of them Go-cases to a method of
// the generated types; not "key" / "value" / "name": the log of a map with non-string keys has
// entries called key and value, that of an enum has name and value, and the C15 token extractor
// could not tell those from fields).
var plainFieldNames = []string{"message", "msg", "code", "reason", "text", "detail", "data", "status", "cause", "info", "payload", "title"}

// fresh returns a new identifier in a random style whose Go-cased form is unique.
func (g *generator) fresh(style int) string {
	for {
		g.serial++
		w1 := wordPool[g.r.Intn(len(wordPool))]
		w2 := wordPool[g.r.Intn(len(wordPool))]
		n := fmt.Sprint(g.serial)
		var s string
		switch style {
		case 0: // PascalCase
			s = strings.Title(w1) + strings.Title(w2) + n
		case 1: // lowerCamel
			s = w1 + strings.Title(w2) + n
		case 2: // snake_case
			s = w1 + "_" + w2 + n
		case 3: // SCREAMING_SNAKE
			s = strings.ToUpper(w1) + "_" + strings.ToUpper(w2) + n
		case 4: // single lower word
			s = w1 + n
		case 5: // ALLCAPS single word
			s = strings.ToUpper(w1) + n
		default: // snake with trailing number chunk
			s = w1 + "_" + n
		}
		k := GoCase(s)
		k2 := ConstName(s)
		if g.used[k] || g.used[k2] || g.used[s] {
			continue
		}
		g.used[k] = true
		g.used[k2] = true
		return s
	}
}

func (g *generator) typeName() string {
	return g.fresh(g.r.Pick(0, 0, 0, 1, 2, 3, 4, 5))
}

// topName names a type or service of file f: usually fresh, sometimes a name
// that another file already uses for one of its own types or services (every
// file is its own scope and its own Go package, so this is no clash).
func (g *generator) topName(f *File) string {
	if g.topIn == nil {
		g.topIn = map[*File]map[string]bool{}
	}
	if g.topIn[f] == nil {
		g.topIn[f] = map[string]bool{}
	}
	if len(g.topAll) > 0 && g.r.Chance(1, 6) {
		n := g.topAll[g.r.Intn(len(g.topAll))]
		if !g.topIn[f][GoCase(n)] {
			g.topIn[f][GoCase(n)] = true
			return n
		}
	}
	n := g.typeName()
	g.topIn[f][GoCase(n)] = true
	g.topAll = append(g.topAll, n)
	return n
}
func (g *generator) fieldName() string {
	return g.fresh(g.r.Pick(1, 1, 2, 2, 4, 4, 3, 6))
}
func (g *generator) itemName() string {
	return g.fresh(g.r.Pick(3, 3, 5, 5, 0, 4, 2))
}

func (g *generator) goNameAnn() string {
	if !g.r.Chance(g.cfg.AnnotPct, 100) {
		return ""
	}
	return g.fresh(0)
}

func (g *generator) label() string {
	if !g.r.Chance(g.cfg.AnnotPct, 100) {
		return ""
	}
	g.serial++
	return fmt.Sprintf("lbl-%s.%d", wordPool[g.r.Intn(len(wordPool))], g.serial)
}

// Generate builds a random program that is valid by construction and avoids
// the shapes of the known generator findings (D9–D15, D17).
func Generate(r *rng.R, cfg Config) *Program {
	g := &generator{r: r, cfg: cfg, p: &Program{}, used: map[string]bool{}}
	if cfg.Files < 1 {
		cfg.Files = 1
		g.cfg.Files = 1
	}
	dirs := []string{""}
	if cfg.Nested {
		dirs = []string{"", "sub/", "sub/deep/", "other-dir/", "a_b/"}
		if r.Chance(1, 5) {
			// sibling directories one of whose names is a prefix of the other's (the common
			// ancestor of api/x.thrift and apiv2/y.thrift is their parent, not api)
			dirs = []string{"api/", "apiv2/", "api/", "apiv2/sub/", "api-v2/"}
		}
	}
	prefixDirs := len(dirs) > 0 && dirs[0] == "api/"
	bases := map[string]bool{}
	for i := 0; i < cfg.Files; i++ {
		var base string
		for {
			base = wordPool[r.Intn(26)] + fmt.Sprint(i)
			if r.Chance(1, 3) && i == cfg.Files-1 {
				// only a file nobody includes may be hyphenated (thriftrw refuses to include such files)
				base = wordPool[r.Intn(26)] + "-" + wordPool[r.Intn(26)] + fmt.Sprint(i)
			} else if r.Chance(1, 5) {
				base = wordPool[r.Intn(26)] + "_" + wordPool[r.Intn(26)] + fmt.Sprint(i)
			}
			if !bases[base] {
				bases[base] = true
				// an include declares its base name in the including file: no type, constant or
				// service may be called that (thriftrw refuses it at compile time — found by
				// the thorough tier: `struct delta1` beside `include "./delta1.thrift"`)
				g.used[GoCase(base)] = true
				g.used[ConstName(base)] = true
				g.used[base] = true
				break
			}
		}
		dir := dirs[r.Intn(len(dirs))]
		if i == cfg.Files-1 && r.Chance(1, 2) {
			dir = ""
			if prefixDirs {
				dir = "api/" // the file named on the command line, in the directory with the shorter name
			}
		}
		f := &File{Path: dir + base + ".thrift"}
		// includes: the last file includes (transitively) every other file
		// (later files first: an earlier file is then often reached only through another include)
		for j := len(g.p.Files) - 1; j >= 0; j-- {
			prev := g.p.Files[j]
			if r.Chance(1, 2) || (i == cfg.Files-1 && !g.reached(f, prev)) || (i < cfg.Files-1 && j == i-1 && r.Chance(1, 2)) {
				if !contains(f.Includes, prev) {
					f.Includes = append(f.Includes, prev)
				}
			}
		}
		g.p.Files = append(g.p.Files, f)
		g.fillFile(f)
	}
	g.p.Root = g.p.Files[len(g.p.Files)-1]
	// make sure the root reaches everything
	for _, f := range g.p.Files[:len(g.p.Files)-1] {
		if !g.reached(g.p.Root, f) {
			g.p.Root.Includes = append(g.p.Root.Includes, f)
		}
	}
	if cfg.SpreadRedact {
		g.spreadRedact()
	}
	return g.p
}

// category of a field type for the redaction spread.
func typeCategory(t *Type) string {
	pre := ""
	if t.K == Named && t.Ref.Kind == Typedef {
		pre = "typedef-of-"
	}
	root := t.Root()
	switch root.K {
	case Bool, I8, I16, I32, I64, Double:
		return pre + "number"
	case String:
		return pre + "string"
	case Binary:
		return pre + "binary"
	case List:
		return pre + "list"
	case Set:
		return pre + "set"
	case Map:
		return pre + "map"
	}
	if root.Ref.Kind == Enum {
		return pre + "enum"
	}
	return pre + "struct"
}

func (g *generator) spreadRedact() {
	byCat := map[string][]*Field{}
	var cats []string
	add := func(kind string, fs []*Field) {
		for _, f := range fs {
			c := kind + " " + typeCategory(f.Type)
			if _, ok := byCat[c]; !ok {
				cats = append(cats, c)
			}
			byCat[c] = append(byCat[c], f)
		}
	}
	for _, f := range g.p.Files {
		for _, d := range f.Defs {
			if d.Kind == Struct || d.Kind == Union || d.Kind == Exception {
				add(d.Kind.String(), d.Fields)
			}
		}
		for _, s := range f.Services {
			for _, fn := range s.Funcs {
				add("args", fn.Args)
			}
		}
	}
	for _, c := range cats {
		fs := byCat[c]
		fs[g.r.Intn(len(fs))].Redact = true
		fs[g.r.Intn(len(fs))].NoLog = true
	}
}

func contains(fs []*File, f *File) bool {
	for _, x := range fs {
		if x == f {
			return true
		}
	}
	return false
}

func (g *generator) reached(from, to *File) bool {
	for _, x := range from.Reaches() {
		if x == to {
			return true
		}
	}
	return false
}

// visibleDefs are definitions a type expression in f may name: earlier ones
// in f and all of the directly included files.
func (g *generator) visibleDefs(f *File) []*Def {
	var out []*Def
	for _, inc := range f.Includes {
		out = append(out, inc.Defs...)
	}
	out = append(out, f.Defs...)
	return out
}

func (g *generator) fillFile(f *File) {
	n := g.cfg.Defs/2 + g.r.Intn(g.cfg.Defs+1)
	if n < 3 {
		n = 3
	}
	// every file starts with an enum and a struct so that later shapes have material
	kinds := []DefKind{Enum, Struct}
	for len(kinds) < n {
		k := []DefKind{Enum, Struct, Struct, Struct, Union, Exception, Typedef, Typedef, Typedef}[g.r.Intn(9)]
		if k == Union && g.cfg.NoUnions {
			k = Struct
		}
		kinds = append(kinds, k)
	}
	// pre-declare struct-like definitions so that fields can refer forward to them
	pre := make([]*Def, len(kinds))
	for i, k := range kinds {
		if k == Struct || k == Union || k == Exception {
			pre[i] = &Def{File: f, Name: g.topName(f), Kind: k, GoName: g.goNameAnn()}
		}
	}
	for i, k := range kinds {
		var d *Def
		switch k {
		case Enum:
			d = g.genEnum(f)
		case Typedef:
			d = &Def{File: f, Name: g.topName(f), Kind: Typedef, GoName: g.goNameAnn(), complete: true}
			for {
				d.Target = g.genType(f, g.cfg.Depth, nil)
				// a typedef of a typedef must not lead to a struct from which a forward
				// reference is reachable: thriftrw computes typedef roots while linking and
				// such a chain can end with a nil root depending on link order (finding D10)
				if d.Target.K == Named && d.Target.Ref.Kind == Typedef && !typeLiteralSafe(d.Target) {
					continue
				}
				break
			}
		default:
			d = pre[i]
			var fwd []*Def
			for _, x := range pre[i:] {
				if x != nil {
					fwd = append(fwd, x)
				}
			}
			g.genFields(f, d, fwd)
			d.complete = true
			d.literalSafe = true
			for _, fl := range d.Fields {
				if !typeLiteralSafe(fl.Type) {
					d.literalSafe = false
				}
			}
		}
		g.defIdx++
		d.Index = g.defIdx
		f.Defs = append(f.Defs, d)
	}
	if len(g.p.Files) == 1 && g.p.Files[0] == f {
		// the first file of every program carries one struct whose fields reach lists, sets and maps
		// THROUGH typedefs, required and optional (generated code must see through the alias wherever it
		// asks "is this a list / a reference type")
		add := func(d *Def) *Def {
			g.defIdx++
			d.Index = g.defIdx
			d.complete = true
			f.Defs = append(f.Defs, d)
			return d
		}
		la := add(&Def{File: f, Name: g.topName(f), Kind: Typedef, Target: &Type{K: List, Elem: &Type{K: TKind(g.r.Pick(int(String), int(I32), int(Double)))}}})
		lb := add(&Def{File: f, Name: g.topName(f), Kind: Typedef, Target: &Type{K: Named, Ref: la}})
		sa := add(&Def{File: f, Name: g.topName(f), Kind: Typedef, Target: &Type{K: Set, Elem: &Type{K: I32}}})
		ma := add(&Def{File: f, Name: g.topName(f), Kind: Typedef, Target: &Type{K: Map, Key: &Type{K: String}, Elem: &Type{K: I64}}})
		host := &Def{File: f, Name: g.topName(f), Kind: Struct}
		req := func(b bool) Req {
			if b {
				return Required
			}
			return Optional
		}
		for i, t := range []*Def{la, lb, sa, ma, lb} {
			host.Fields = append(host.Fields, &Field{ID: i + 1, Name: g.fieldName(), Req: req(i != 4 && g.r.Chance(3, 4)), Type: &Type{K: Named, Ref: t}})
		}
		host.literalSafe = true
		add(host)
	}
	for i := 0; i < g.cfg.Consts; i++ {
		g.genConst(f)
	}
	for i := 0; i < g.cfg.Services; i++ {
		g.genService(f)
	}
}

func (g *generator) genEnum(f *File) *Def {
	d := &Def{File: f, Name: g.topName(f), Kind: Enum, GoName: g.goNameAnn(), complete: true}
	r := g.r
	n := 1 + r.Intn(6)
	if r.Chance(1, 12) {
		n = 0
	}
	next := int64(0)
	used := map[int32]bool{}
	for i := 0; i < n; i++ {
		it := &EnumItem{Name: g.itemName(), Label: g.label()}
		if r.Chance(g.cfg.AnnotPct, 200) {
			it.GoName = g.fresh(0)
		}
		// an implicit value must not repeat an earlier one (finding D11's shape) and must fit
		explicit := r.Chance(1, 2) || next > 2147483647 || used[int32(next)]
		v := int32(next)
		if explicit {
			for {
				switch r.Intn(6) {
				case 0:
					v = int32(r.Intn(2000)) - 1000
				case 1:
					v = int32(r.Pick(2147483647, -2147483648, 65536, -1, 0, 255, 256))
				default:
					nv := next + int64(r.Intn(20))
					if nv > 2147483647 {
						nv = int64(r.Intn(1000))
					}
					v = int32(nv)
				}
				if !used[v] {
					break
				}
			}
			it.Explicit = true
		}
		it.Value = v
		used[v] = true
		next = int64(v) + 1
		d.Items = append(d.Items, it)
	}
	return d
}

// genType makes a random type expression. fwd lists struct-like definitions
// that may be referenced although they are defined later (only from struct
// fields; typedef targets never point forward — that is finding D10's shape).
func (g *generator) genType(f *File, depth int, fwd []*Def) *Type {
	r := g.r
	vis := g.visibleDefs(f)
	roll := r.Intn(100)
	switch {
	case roll < 38 || (depth <= 0 && roll < 70):
		return &Type{K: TKind(r.Pick(int(Bool), int(I8), int(I16), int(I32), int(I32), int(I64), int(I64), int(Double), int(String), int(String), int(String), int(Binary)))}
	case roll < 70 && (len(vis) > 0 || len(fwd) > 0):
		if len(fwd) > 0 && (len(vis) == 0 || r.Chance(1, 4)) {
			return &Type{K: Named, Ref: fwd[r.Intn(len(fwd))]}
		}
		if r.Chance(1, 4) {
			// typedefs of containers are rare among the visible definitions, yet generated code
			// treats "is a list / set / map" through them: draw one of those on purpose
			var cts []*Def
			for _, d := range vis {
				if d.Kind == Typedef && d.complete {
					if k := (&Type{K: Named, Ref: d}).Root().K; k == List || k == Set || k == Map {
						cts = append(cts, d)
					}
				}
			}
			if len(cts) > 0 {
				return &Type{K: Named, Ref: cts[r.Intn(len(cts))]}
			}
		}
		return &Type{K: Named, Ref: vis[r.Intn(len(vis))]}
	case depth <= 0:
		return &Type{K: TKind(r.Pick(int(I32), int(String), int(Bool)))}
	}
	switch r.Intn(3) {
	case 0:
		t := &Type{K: List, Elem: g.genType(f, depth-1, fwd)}
		if r.Chance(1, 8) {
			t.Ann = `go.type = "slice"`
		}
		return t
	case 1:
		t := &Type{K: Set, Elem: g.genType(f, depth-1, fwd)}
		t.Slice = r.Chance(1, 4)
		if !t.Slice && r.Chance(1, 8) {
			t.Ann = []string{`go.type = "map"`, `go.type = "Slice"`, `cpp.type = "slice"`}[r.Intn(3)]
		}
		return t
	}
	t := &Type{K: Map, Elem: g.genType(f, depth-1, fwd)}
	if r.Chance(1, 5) {
		t.Ann = `go.type = "slice"`
	}
	if r.Chance(2, 3) {
		// hashable key, biased to strings and ints
		t.Key = g.genType(f, 0, nil)
		for !t.Key.IsPrim() {
			t.Key = g.genType(f, 0, nil)
		}
	} else {
		t.Key = g.genType(f, depth-1, fwd)
	}
	return t
}

// mentions reports whether type t (through typedefs and containers, not through
// struct fields) mentions definition d.
func mentions(t *Type, d *Def) bool {
	found := false
	t.Walk(func(x *Type) {
		if x.K == Named {
			if x.Ref == d {
				found = true
			} else if x.Ref.Kind == Typedef && mentions(x.Ref.Target, d) {
				found = true
			}
		}
	})
	return found
}

func (g *generator) genFields(f *File, d *Def, fwd []*Def) {
	r := g.r
	n := r.Intn(g.cfg.MaxFields + 1)
	if d.Kind != Union && r.Chance(1, 6) {
		n = 9 + r.Intn(8) // generated code may treat structs with many fields differently
	}
	if d.Kind == Union && n == 0 && !r.Chance(1, 8) {
		n = 1 // an empty union is legal (and has no arity check) but rare
	}
	// the conventional shape of an exception: a string field called message
	wantMsg := d.Kind == Exception && r.Chance(2, 3)
	// with SpreadRedact the first exception of a program always has the conventional message field,
	// required and redacted (below)
	forceMsg := d.Kind == Exception && g.cfg.SpreadRedact && !g.msgForced
	if forceMsg {
		wantMsg, g.msgForced = true, true
	}
	if wantMsg && n == 0 {
		n = 1
	}
	ids := map[int]bool{}
	plain := map[string]bool{}
	for i := 0; i < n; i++ {
		fl := &Field{Name: g.fieldName()}
		// now and then a name people actually give fields, without a serial number: code that
		// treats a field specially because of what it is called must still honour the rest of
		// the contract (annotations, requiredness, defaults) for it
		if r.Chance(1, 7) {
			w := plainFieldNames[r.Intn(len(plainFieldNames))]
			switch r.Intn(4) {
			case 0:
				w = strings.Title(w)
			case 1:
				w = strings.ToUpper(w)
			}
			if !plain[GoCase(w)] {
				plain[GoCase(w)] = true
				fl.Name = w
			}
		}
		for {
			switch r.Intn(8) {
			case 0:
				fl.ID = 1 + r.Intn(32767)
			case 1:
				fl.ID = r.Pick(32767, 1, 256, 255, 128, 127)
			default:
				fl.ID = 1 + r.Intn(40)
			}
			if !ids[fl.ID] {
				ids[fl.ID] = true
				break
			}
		}
		fl.Req = Optional
		if d.Kind != Union && r.Chance(2, 5) {
			fl.Req = Required
		}
		for {
			ffwd := fwd
			if d.Kind == Union && i == 0 {
				ffwd = nil // a union always has one member that does not lead back to itself
			}
			fl.Type = g.genType(f, g.cfg.Depth, ffwd)
			// a required field must not make the struct contain itself or a
			// later struct by value chain: only optional fields and containers
			// may refer forward / to the struct itself.
			if fl.Req == Required && fl.Type.IsStructLike() && refersForward(fl.Type, d, fwd) {
				continue
			}
			break
		}
		if wantMsg && i == 0 {
			w := []string{"message", "Message", "MESSAGE", "message"}[r.Intn(4)]
			if !plain[GoCase(w)] {
				plain[GoCase(w)] = true
				fl.Name, fl.Type = w, &Type{K: String}
			}
		}
		g.annotateField(fl)
		if d.Kind != Union && r.Chance(g.cfg.DefaultPct, 100) && fieldDefaultOK(fl.Type) {
			fl.Default = g.genLit(f, fl.Type, 2, 3)
		}
		if wantMsg && i == 0 && g.cfg.SpreadRedact && fl.Type.K == String && GoCase(fl.Name) == "Message" && (forceMsg || r.Chance(2, 3)) {
			// the message of an error is what Error() is most tempted to print: spelled the
			// conventional way, required and redacted
			fl.Name, fl.Req, fl.Redact, fl.Default = "message", Required, true, nil
		}
		d.Fields = append(d.Fields, fl)
	}
	// one struct in three is a tree: a list of its own kind (values of it can be nested to any depth
	// below a collection)
	if d.Kind == Struct && r.Chance(1, 3) {
		id := 1
		for ids[id] {
			id++
		}
		fl := &Field{ID: id, Name: g.fieldName(), Req: Optional, Type: &Type{K: List, Elem: &Type{K: Named, Ref: d}}}
		g.annotateField(fl)
		d.Fields = append(d.Fields, fl)
	}
}

// refersForward: the (typedef-stripped) struct type is d itself or one of fwd.
func refersForward(t *Type, d *Def, fwd []*Def) bool {
	x := t.Root().Ref
	if x == d {
		return true
	}
	for _, y := range fwd {
		if x == y {
			return true
		}
	}
	return false
}

func (g *generator) annotateField(fl *Field) {
	r := g.r
	fl.GoName = g.goNameAnn()
	fl.Label = g.label()
	if r.Chance(g.cfg.AnnotPct, 100) {
		g.serial++
		fl.Tag = []string{
			fmt.Sprintf(`json:"j%d"`, g.serial),
			fmt.Sprintf(`json:"j%d,omitempty" xml:"x%d"`, g.serial, g.serial),
			fmt.Sprintf(`json:"-"`),
			fmt.Sprintf(`json:"j%d,!omitempty"`, g.serial),
			fmt.Sprintf(`yaml:"y%d"`, g.serial),
		}[r.Intn(5)]
	}
	fl.Redact = r.Chance(g.cfg.RedactPct, 100)
	fl.NoLog = r.Chance(g.cfg.RedactPct, 100)
}

// typeLiteralSafe: every struct-like definition the type mentions (through
// typedefs and containers) is complete and itself literal-safe, i.e. nothing
// reachable from the type refers forward to a definition that was still open.
// Struct literals in field defaults are only written for such types: thriftrw
// links a default while the enclosing struct is being linked, and a literal of a
// struct that is itself mid-link (mutual recursion) fails or not depending on
// map iteration order (new finding, reported as D21).
func typeLiteralSafe(t *Type) bool {
	ok := true
	t.Walk(func(x *Type) {
		if x.K != Named {
			return
		}
		switch x.Ref.Kind {
		case Enum:
		case Typedef:
			if !typeLiteralSafe(x.Ref.Target) {
				ok = false
			}
		default:
			if !x.Ref.complete || !x.Ref.literalSafe {
				ok = false
			}
		}
	})
	return ok
}

// fieldDefaultOK: a default can be written for a field of this type (finding D12 —
// a default on a field whose type is a typedef with a non-primitive root did not
// compile — is repaired; such fields get defaults like any other).
func fieldDefaultOK(t *Type) bool {
	return typeLiteralSafe(t) && constable(t, 3)
}

// constable: a constant of this type can be written.
func constable(t *Type, depth int) bool {
	r := t.Root()
	switch r.K {
	case Bool, I8, I16, I32, I64, Double, String:
		return true
	case Binary:
		return false
	case List, Set, Map:
		return true // at least the empty literal
	}
	d := r.Ref
	if !d.complete {
		return false // still being generated (forward or self reference)
	}
	switch d.Kind {
	case Enum:
		return len(d.Items) > 0
	case Union:
		if depth <= 0 {
			return false
		}
		for _, f := range d.Fields {
			if constable(f.Type, depth-1) {
				return true
			}
		}
		return false
	default:
		if depth <= 0 {
			return false
		}
		for _, f := range d.Fields {
			if f.Req == Required && f.Default == nil && !constable(f.Type, depth-1) {
				return false
			}
		}
		return true
	}
}

var strPool = []string{"", "a", "hello", "Hello World", "x y z", "tab\there", "line\nbreak", "quote\"inside", "back\\slash", "semi;colon", "üñí", "{}[]", "0", "true",
	"dos\r\nline\r\nends", "two\n\nparagraphs\n", "cr\ronly", "back`quote\nand newline", "trailing space \n next", "\xef\xbb\xbfbom\nline"}

// genLit writes a literal for type t (which must be constable).
func (g *generator) genLit(f *File, t *Type, depth, cd int) *Lit {
	r := g.r
	root := t.Root()
	// reference to an earlier constant of exactly this (primitive) type
	if t.IsPrim() && r.Chance(1, 8) {
		var cands []*Constant
		for _, c := range g.visibleConsts(f) {
			// a constant of exactly this type: the same base type, or the same enum / typedef
			// (for a named type the generator emits a reference by name instead of the value)
			if c.Type.K == t.K && (t.K != Named || c.Type.Ref == t.Ref) {
				cands = append(cands, c)
			}
		}
		if len(cands) > 0 {
			return &Lit{K: LConstRef, Const: cands[r.Intn(len(cands))]}
		}
	}
	switch root.K {
	case Bool:
		if r.Chance(1, 3) {
			return &Lit{K: LInt, I: int64(r.Intn(2))}
		}
		return &Lit{K: LBool, B: r.Bool()}
	case I8:
		return &Lit{K: LInt, I: int64(r.Pick(0, 1, -1, 127, -128, 42))}
	case I16:
		return &Lit{K: LInt, I: int64(r.Pick(0, 1, -1, 32767, -32768, 300, -300))}
	case I32:
		return &Lit{K: LInt, I: int64(r.Pick(0, 1, -1, 2147483647, -2147483648, 70000, -70000, 7))}
	case I64:
		return &Lit{K: LInt, I: []int64{0, 1, -1, 9223372036854775807, -9223372036854775808, 1 << 40, -(1 << 40), 12}[r.Intn(8)]}
	case Double:
		if r.Chance(1, 3) {
			return &Lit{K: LInt, I: int64(r.Intn(2000) - 1000)}
		}
		return &Lit{K: LDouble, D: doublePool[r.Intn(len(doublePool))]}
	case String:
		if r.Chance(1, 2) {
			g.serial++
			return &Lit{K: LString, S: fmt.Sprintf("s%d", g.serial)}
		}
		return &Lit{K: LString, S: strPool[r.Intn(len(strPool))]}
	case List, Set:
		n := 0
		if depth > 0 && constable(root.Elem, cd) {
			n = r.Intn(4)
		}
		l := &Lit{K: LList}
		seen := map[string]bool{}
		for i := 0; i < n; i++ {
			it := g.genLit(f, root.Elem, depth-1, cd)
			if root.K == Set {
				k := CastLit(it, root.Elem).Text()
				k = strings.Replace(k, "d:9223372036854775808", "d:0", -1)
				if seen[k] {
					continue
				}
				seen[k] = true
			}
			l.Items = append(l.Items, it)
		}
		return l
	case Map:
		n := 0
		if depth > 0 && constable(root.Elem, cd) && constable(root.Key, cd) {
			n = r.Intn(4)
		}
		l := &Lit{K: LMap}
		seen := map[string]bool{}
		for i := 0; i < n; i++ {
			k := g.genLit(f, root.Key, depth-1, cd)
			kt := CastLit(k, root.Key).Text()
			if seen[kt] {
				continue
			}
			seen[kt] = true
			l.Items = append(l.Items, k, g.genLit(f, root.Elem, depth-1, cd))
		}
		return l
	}
	d := root.Ref
	if d.Kind == Enum {
		it := d.Items[r.Intn(len(d.Items))]
		// an item can only be named if the enum's file is this file or directly included
		// (a struct literal may reach enums of files that are included transitively only)
		if r.Chance(1, 3) || !(d.File == f || contains(f.Includes, d.File)) {
			return &Lit{K: LInt, I: int64(it.Value)}
		}
		return &Lit{K: LEnumRef, Enum: d, Item: it}
	}
	l := &Lit{K: LMap}
	if d.Kind == Union {
		var c []*Field
		for _, fl := range d.Fields {
			if constable(fl.Type, cd-1) {
				c = append(c, fl)
			}
		}
		fl := c[r.Intn(len(c))]
		l.Items = append(l.Items, &Lit{K: LString, S: fl.Name, Field: fl}, g.genLit(f, fl.Type, depth-1, cd-1))
		return l
	}
	for _, fl := range d.Fields {
		need := fl.Req == Required && fl.Default == nil
		if need || (depth > 0 && r.Chance(1, 2) && constable(fl.Type, cd-1)) {
			l.Items = append(l.Items, &Lit{K: LString, S: fl.Name, Field: fl}, g.genLit(f, fl.Type, depth-1, cd-1))
		}
	}
	return l
}

func (g *generator) visibleConsts(f *File) []*Constant {
	var out []*Constant
	for _, inc := range f.Includes {
		out = append(out, inc.Consts...)
	}
	return append(out, f.Consts...)
}

func (g *generator) genConst(f *File) {
	// now and then a constant that is just another constant of an enum / typedef-of-primitive
	// type (the generator then refers to that constant by its Go name)
	if g.r.Chance(1, 4) {
		var cands []*Constant
		for _, c := range g.visibleConsts(f) {
			// (the type must be nameable from this file: its definition is local or directly included)
			if c.Type.K == Named && c.Type.IsPrim() && (c.Type.Ref.File == f || contains(f.Includes, c.Type.Ref.File)) {
				cands = append(cands, c)
			}
		}
		if len(cands) > 0 {
			c0 := cands[g.r.Intn(len(cands))]
			f.Consts = append(f.Consts, &Constant{File: f, Name: g.fresh(g.r.Pick(1, 2, 3, 3, 5, 0)), Type: c0.Type, Value: &Lit{K: LConstRef, Const: c0}})
			return
		}
	}
	for try := 0; try < 20; try++ {
		t := g.genType(f, g.cfg.Depth-1, nil)
		if !constable(t, 3) {
			continue
		}
		// a struct-like constant must be complete at depth: reuse constable's depth
		c := &Constant{File: f, Name: g.fresh(g.r.Pick(1, 2, 3, 3, 5, 0)), Type: t}
		c.Value = g.genLit(f, t, 2, 3)
		f.Consts = append(f.Consts, c)
		return
	}
}

func (g *generator) genService(f *File) {
	r := g.r
	s := &Service{File: f, Name: g.topName(f)}
	var parents []*Service
	for _, inc := range f.Includes {
		parents = append(parents, inc.Services...)
	}
	parents = append(parents, f.Services...)
	if len(parents) > 0 && r.Chance(2, 3) {
		s.Parent = parents[r.Intn(len(parents))]
		// prefer a parent whose own ancestors live in files this file does not include itself:
		// inheritance then runs through modules that are reachable only transitively
		var deep []*Service
		for _, p := range parents {
			for a := p.Parent; a != nil; a = a.Parent {
				if a.File != f && !contains(f.Includes, a.File) {
					deep = append(deep, p)
					break
				}
			}
		}
		if len(deep) > 0 && r.Chance(2, 3) {
			s.Parent = deep[r.Intn(len(deep))]
		}
		// a service named like the (included) service it extends
		if p := s.Parent; p.File != f && r.Chance(1, 3) && !g.topIn[f][GoCase(p.Name)] {
			delete(g.topIn[f], GoCase(s.Name))
			s.Name = p.Name
			g.topIn[f][GoCase(s.Name)] = true
		}
	}
	var excs []*Def
	for _, d := range g.visibleDefs(f) {
		if d.Kind == Exception {
			excs = append(excs, d)
		}
	}
	n := 1 + r.Intn(g.cfg.Funcs)
	for i := 0; i < n; i++ {
		fn := &Func{Name: g.fieldName()}
		if g.r.Chance(1, 5) {
			fn.Ann = fmt.Sprintf(`go.name = "Renamed%d"`, g.serial)
		}
		na := r.Intn(4)
		ids := map[int]bool{}
		for j := 0; j < na; j++ {
			a := &Field{Name: g.fieldName(), Req: Req(r.Pick(int(Unspecified), int(Unspecified), int(Optional), int(Required)))}
			for {
				a.ID = 1 + r.Intn(12)
				if !ids[a.ID] {
					ids[a.ID] = true
					break
				}
			}
			a.Type = g.genType(f, g.cfg.Depth, nil)
			a.GoName = g.goNameAnn()
			a.Label = g.label()
			a.Redact = r.Chance(g.cfg.RedactPct, 100)
			if r.Chance(g.cfg.DefaultPct, 300) && fieldDefaultOK(a.Type) {
				a.Default = g.genLit(f, a.Type, 2, 3)
			}
			fn.Args = append(fn.Args, a)
		}
		if r.Chance(1, 8) {
			fn.Oneway = true
		} else {
			if r.Chance(3, 4) {
				fn.Ret = g.genType(f, g.cfg.Depth, nil)
			}
			ne := 0
			if len(excs) > 0 {
				ne = r.Intn(3)
			}
			eids := map[int]bool{}
			usedExc := map[*Def]bool{}
			for j := 0; j < ne; j++ {
				d := excs[r.Intn(len(excs))]
				if usedExc[d] {
					continue // the same exception type twice makes a duplicate case in IsException
				}
				usedExc[d] = true
				e := &Field{Name: g.fieldName(), Req: Unspecified, Type: &Type{K: Named, Ref: d}, GoName: g.goNameAnn()}
				for {
					e.ID = 1 + r.Intn(6)
					if !eids[e.ID] {
						eids[e.ID] = true
						break
					}
				}
				fn.Throws = append(fn.Throws, e)
			}
		}
		s.Funcs = append(s.Funcs, fn)
	}
	f.Services = append(f.Services, s)
}

// doublePool: small and non-integral values, whole numbers beyond every integer type (a printer
// that goes through int64 wraps them), the largest and smallest magnitudes, values whose shortest
// decimal form needs 17 digits.
var doublePool = []string{"0.0", "1.5", "-2.25", "3.0", "1e10", "-1.0e-3", "123456.789", "0.1", "2.5e+2",
	"1e19", "-1e19", "1e20", "6.022e23", "9223372036854775808.0", "-9223372036854775809.0", "18446744073709551616.0", "1e15", "1e21", "1e22", "123456789012345680000.0",
	"1.7976931348623157e308", "-1.7976931348623157e308", "5e-324", "2.2250738585072014e-308", "1e-310",
	"0.30000000000000004", "9007199254740993.0", "4503599627370497.5", "1e300", "-1e-300"}

// (negative zero is not in the pool: Go has no negative-zero constant, thriftrw writes the literal
// as `-0` and the generated constant / default is +0 — known finding D76, probed by a fixed program)
