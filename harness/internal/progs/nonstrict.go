package progs

import "verifharness/internal/rng"

// MakeNonStrict rewrites a program into the legacy dialect that only compile.NonStrict()
// accepts: in two definitions out of three, struct, union and exception fields lose their
// identifier (and take the implicit negative one: -1, -2, … counting down from the last negative
// identifier seen), carry an explicit negative identifier, or, when optional, lose the keyword.
// Everything else about the field (type, default, annotations) stays as it is.
func MakeNonStrict(r *rng.R, p *Program) {
	p.NonStrict = true
	for _, f := range p.Files {
		for _, d := range f.Defs {
			if d.Kind != Struct && d.Kind != Union && d.Kind != Exception {
				continue
			}
			if r.Chance(1, 3) {
				continue
			}
			next := -1
			for _, fl := range d.Fields {
				switch r.Intn(6) {
				case 0, 1, 2:
					fl.NoID = true
					fl.ID = next
					next--
				case 3:
					fl.ID = next - r.Intn(3)
					next = fl.ID - 1
				}
				if fl.Req == Optional && r.Chance(1, 3) {
					fl.ReqImplicit = true
				}
			}
		}
	}
}
