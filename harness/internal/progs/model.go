// Package progs is the harness's own abstract description of a Thrift program:
// files, includes, typedefs, enums, structs/unions/exceptions, constants and
// services. It has a random generator (driven by rng), a renderer to IDL text
// and a flattening to the schema definitions of SCHEMA_PROTOCOL.md. It shares no
// code with thriftrw: names, requiredness, defaults and constant casts are
// computed here from the abstract program.
package progs

import (
	"path"
	"strings"
)

type TKind int

const (
	Bool TKind = iota
	I8
	I16
	I32
	I64
	Double
	String
	Binary
	List
	Set
	Map
	Named
)

// Type is a type expression as written in the IDL.
type Type struct {
	K     TKind
	Elem  *Type // list/set element, map value
	Key   *Type // map key
	Slice bool  // set annotated (go.type = "slice")
	Ref   *Def  // Named
	// Ann is an annotation on a container type that means nothing to the generator: the
	// (go.type = "slice") of sets on a list or a map, another go.type on a set. It must change
	// neither the generated code nor what plugins are told.
	Ann string
}

type DefKind int

const (
	Enum DefKind = iota
	Struct
	Union
	Exception
	Typedef
)

func (k DefKind) String() string {
	return [...]string{"enum", "struct", "union", "exception", "typedef"}[k]
}

// Def is a named type definition.
type Def struct {
	File   *File
	Name   string
	Kind   DefKind
	GoName string // go.name annotation ("" = none)
	Items  []*EnumItem
	Fields []*Field
	Target *Type // typedef
	Index  int   // position in the program-wide definition order

	complete    bool // generator: fields are final
	literalSafe bool // generator: no forward reference reachable (see typeLiteralSafe)
}

type EnumItem struct {
	Name     string
	Value    int32
	Explicit bool // value written in the IDL
	GoName   string
	Label    string
}

type Req int

const (
	Optional Req = iota
	Required
	Unspecified // function parameters / throws only
)

// Field of a struct-like definition, function parameter or exception slot.
type Field struct {
	ID      int
	Name    string
	Type    *Type
	Req     Req
	Default *Lit
	GoName  string // go.name
	Label   string // go.label
	Tag     string // go.tag
	Redact  bool
	NoLog   bool
	// non-strict programs only (compile.NonStrict()):
	NoID        bool // written without a field identifier; ID holds the implicit (negative) one
	ReqImplicit bool // an optional field written without `optional`
}

type LitKind int

const (
	LInt LitKind = iota
	LDouble
	LBool
	LString
	LList
	LMap
	LEnumRef  // Enum.ITEM
	LConstRef // reference to another constant
)

// Lit is a constant expression as written in the IDL.
type Lit struct {
	K     LitKind
	I     int64
	D     string // text of a double literal
	B     bool
	S     string
	Items []*Lit // list items; map k0,v0,k1,v1…
	Enum  *Def
	Item  *EnumItem
	Const *Constant
	Field *Field // struct literal key: the field meant (its current name is rendered)
}

type Constant struct {
	File  *File
	Name  string
	Type  *Type
	Value *Lit
}

type Func struct {
	Name   string
	Args   []*Field
	Ret    *Type // nil = void
	Throws []*Field
	Oneway bool
	// Ann is an annotation on the function that the generator does not act on (go.name on a
	// function is accepted and handed to plugins among the annotations, nothing else): it must change
	// neither the generated names nor the names plugins are told.
	Ann string
}

type Service struct {
	File   *File
	Name   string
	Parent *Service
	Funcs  []*Func
}

// File is one .thrift file; Path is relative to the thrift root, with slashes.
type File struct {
	Path     string
	Includes []*File
	Defs     []*Def
	Consts   []*Constant
	Services []*Service
}

// Program is a set of files; Root includes every other file (transitively).
type Program struct {
	Files []*File // in dependency order: a file only includes earlier files
	Root  *File
	Seed  uint64
	// NonStrict: the program is only accepted by compile.NonStrict() (see MakeNonStrict)
	NonStrict bool
}

// CommonDir is the deepest common ancestor directory of all files ("" = the
// directory the paths are relative to): thriftrw's default --thrift-root.
func (p *Program) CommonDir() string {
	var common []string
	for i, f := range p.Files {
		dir := path.Dir(f.Path)
		var parts []string
		if dir != "." {
			parts = strings.Split(dir, "/")
		}
		if i == 0 {
			common = parts
			continue
		}
		n := 0
		for n < len(common) && n < len(parts) && common[n] == parts[n] {
			n++
		}
		common = common[:n]
	}
	return strings.Join(common, "/")
}

// PkgRel is the package directory of f relative to the output directory when
// the thrift root is `root` (a directory relative to the same base as f.Path).
func (f *File) PkgRel(root string) string {
	rel := f.Rel()
	if root != "" {
		rel = strings.TrimPrefix(rel, root+"/")
	}
	return rel
}

// Base is the include name of the file (basename without extension).
func (f *File) Base() string { return strings.TrimSuffix(path.Base(f.Path), ".thrift") }

// Rel is the path without extension; it is the package directory relative to
// the output directory and the file part of schema names.
func (f *File) Rel() string { return strings.TrimSuffix(f.Path, ".thrift") }

// PkgName is the Go package name thriftrw derives for the file.
func (f *File) PkgName() string { return strings.Replace(f.Base(), "-", "_", -1) }

// SchemaName is the SCHEMA_PROTOCOL name token of a definition.
func (d *Def) SchemaName() string { return d.File.Rel() + "." + d.Name }

// Root strips typedefs.
func (t *Type) Root() *Type {
	for t.K == Named && t.Ref.Kind == Typedef {
		t = t.Ref.Target
	}
	return t
}

func (t *Type) IsStructLike() bool {
	r := t.Root()
	return r.K == Named && (r.Ref.Kind == Struct || r.Ref.Kind == Union || r.Ref.Kind == Exception)
}

func (t *Type) IsEnum() bool { r := t.Root(); return r.K == Named && r.Ref.Kind == Enum }

// IsPrim: bool, ints, double, string, enum and typedefs thereof.
func (t *Type) IsPrim() bool {
	r := t.Root()
	switch r.K {
	case Bool, I8, I16, I32, I64, Double, String:
		return true
	}
	return t.IsEnum()
}

// Walk visits t and all nested type expressions (not through named references).
func (t *Type) Walk(f func(*Type)) {
	f(t)
	if t.Key != nil {
		t.Key.Walk(f)
	}
	if t.Elem != nil {
		t.Elem.Walk(f)
	}
}

// AllDefs lists the definitions of all files in program order.
func (p *Program) AllDefs() []*Def {
	var out []*Def
	for _, f := range p.Files {
		out = append(out, f.Defs...)
	}
	return out
}

// Reaches reports the files reachable from f through includes (f included).
func (f *File) Reaches() []*File {
	seen := map[*File]bool{}
	var out []*File
	var walk func(*File)
	walk = func(x *File) {
		if seen[x] {
			return
		}
		seen[x] = true
		for _, i := range x.Includes {
			walk(i)
		}
		out = append(out, x)
	}
	walk(f)
	return out
}
