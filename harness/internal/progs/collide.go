package progs

import (
	"fmt"
	"path"
	"strings"

	"verifharness/internal/rng"
)

// Injection is one collision-seeking change applied to a valid base program
// (DESIGN §5 C06). Class says what the harness may expect afterwards:
//
//	"A"     the program is still well-formed and free of Go name clashes by the
//	        harness's conservative NoGoClash predicate: thriftrw must accept it and
//	        the output must build and vet;
//	"B"     a clash (or something the predicate cannot vouch for) was introduced:
//	        thriftrw may reject; if it accepts, the output must build;
//	"K:Dnn" the shape of known finding Dnn.
type Injection struct {
	Name  string
	Class string
	What  string
}

var goKeywordNames = []string{"chan", "defer", "fallthrough", "func", "go", "range", "select", "type"}
var predeclared = []string{"int", "int32", "len", "make", "append", "iota", "uint8", "float64", "panic", "recover", "println", "cap", "copy", "close", "any", "rune", "complex"}
var templateLocals = []string{"v", "w", "err", "i", "x", "o", "fields", "field", "sr", "sw", "fh", "ok", "count", "lhs", "rhs", "enc", "value", "val", "key", "k", "result", "success", "e", "s", "m", "l", "d", "t"}
var initialismNames = []string{"user_id", "HTTP_URL", "xml_http_request", "URL", "id", "api_key", "uuid", "UUID_LIST", "tcp_ip", "json_rpc", "utf8_name", "vm_cpu", "HTML", "sql_db", "ttl", "uid_gid"}
var stdPackages = []string{"fmt", "errors", "strings", "bytes", "wire", "stream", "ptr", "zapcore", "multierr", "json", "math", "strconv", "base64", "thriftreflect", "zap", "time", "os"}
var methodLikeItems = []string{"String", "Ptr", "Values", "Equals", "ToWire", "FromWire", "Encode", "Decode"}

type injector struct {
	r *rng.R
	p *Program
}

func (in *injector) structs(minFields int, kinds ...DefKind) []*Def {
	var out []*Def
	for _, d := range in.p.AllDefs() {
		if d.Kind == Enum || d.Kind == Typedef || len(d.Fields) < minFields {
			continue
		}
		if len(kinds) > 0 {
			ok := false
			for _, k := range kinds {
				if d.Kind == k {
					ok = true
				}
			}
			if !ok {
				continue
			}
		}
		out = append(out, d)
	}
	return out
}

func (in *injector) funcs() []*Func {
	var out []*Func
	for _, f := range in.p.Files {
		for _, s := range f.Services {
			out = append(out, s.Funcs...)
		}
	}
	return out
}

func (in *injector) pickDef(ds []*Def) *Def {
	if len(ds) == 0 {
		return nil
	}
	return ds[in.r.Intn(len(ds))]
}

// distinct names from a pool
func (in *injector) some(pool []string, n int) []string {
	idx := make([]int, len(pool))
	for i := range idx {
		idx[i] = i
	}
	for i := len(idx) - 1; i > 0; i-- {
		j := in.r.Intn(i + 1)
		idx[i], idx[j] = idx[j], idx[i]
	}
	if n > len(idx) {
		n = len(idx)
	}
	out := make([]string, n)
	for i := range out {
		out[i] = pool[idx[i]]
	}
	return out
}

// renameFields gives the fields of d (and the args of a function) names from the pool.
func (in *injector) renameFields(pool []string) bool {
	done := false
	if d := in.pickDef(in.structs(1)); d != nil {
		names := in.some(pool, len(d.Fields))
		for i, n := range names {
			if in.r.Chance(2, 3) {
				d.Fields[i].Name, d.Fields[i].GoName = n, ""
				done = true
			}
		}
	}
	if fs := in.funcs(); len(fs) > 0 {
		fn := fs[in.r.Intn(len(fs))]
		names := in.some(pool, len(fn.Args))
		for i, n := range names {
			fn.Args[i].Name, fn.Args[i].GoName = n, ""
			done = true
		}
	}
	return done
}

// Inject applies one random injection to p and reports it; ok=false if the
// program has no place for the chosen injection (the caller draws again).
func Inject(r *rng.R, p *Program) (Injection, bool) { return InjectAt(r, p, -1) }

// NumInjections is the number of injections InjectAt knows.
var NumInjections = func() int {
	InjectAt(rng.New(1), &Program{}, -2) // builds the table only
	return injectionCount
}()

var injectionCount int

var injectionIndex map[string]int

// InjectionIndex is the number of the injection of that name (for InjectAt).
func InjectionIndex(name string) int {
	_ = NumInjections
	i, ok := injectionIndex[name]
	if !ok {
		panic("no injection named " + name)
	}
	return i
}

// InjectAt applies injection number idx (any number is reduced modulo the number of
// injections; idx < 0 draws one at random).
func InjectAt(r *rng.R, p *Program, idx int) (Injection, bool) {
	in := &injector{r: r, p: p}
	type inj struct {
		name, class string
		f           func() (string, bool)
	}
	list := []inj{
		{"std-package-file-name", "A", func() (string, bool) {
			// a file named like a package the generated code imports
			f := p.Files[r.Intn(len(p.Files))]
			name := stdPackages[r.Intn(len(stdPackages))]
			for _, g := range p.Files {
				if g.Base() == name {
					return "", false
				}
			}
			f.Path = path.Join(path.Dir(f.Path), name+".thrift")
			return "file renamed to " + f.Path, true
		}},
		{"go-keyword-names", "A", func() (string, bool) {
			return "fields/arguments named like Go keywords", in.renameFields(goKeywordNames)
		}},
		{"predeclared-names", "A", func() (string, bool) {
			return "fields/arguments named like predeclared identifiers", in.renameFields(predeclared)
		}},
		{"template-local-names", "A", func() (string, bool) {
			return "fields/arguments named like variables of the templates", in.renameFields(templateLocals)
		}},
		{"initialism-names", "A", func() (string, bool) {
			return "fields/arguments with initialisms and SCREAMING_CASE", in.renameFields(initialismNames)
		}},
		{"keyword-type-and-const-names", "A", func() (string, bool) {
			names := in.some(goKeywordNames, 3)
			ds := p.AllDefs()
			d := ds[r.Intn(len(ds))]
			d.Name, d.GoName = names[0], ""
			for _, f := range p.Files {
				if len(f.Consts) > 0 {
					f.Consts[0].Name = names[1]
					break
				}
			}
			if fs := in.funcs(); len(fs) > 0 {
				fs[0].Name = names[2]
			}
			return "type, constant and function named like Go keywords", true
		}},
		{"method-like-enum-items", "A", func() (string, bool) {
			for _, d := range p.AllDefs() {
				if d.Kind == Enum && len(d.Items) > 0 {
					names := in.some(methodLikeItems, len(d.Items))
					for i, n := range names {
						d.Items[i].Name, d.Items[i].GoName = n, ""
					}
					return "enum items named like generated methods", true
				}
			}
			return "", false
		}},
		{"same-label-in-different-structs", "A", func() (string, bool) {
			ds := in.structs(1)
			if len(ds) < 2 {
				return "", false
			}
			ds[0].Fields[0].Label, ds[1].Fields[0].Label = "shared-label", "shared-label"
			return "the same go.label in two structs", true
		}},
		{"file-that-renders-nothing", "A", func() (string, bool) {
			// a file without a single declaration to generate: nothing but a comment, nothing
			// but includes (an umbrella file), or a service without functions
			root := p.Files[len(p.Files)-1]
			f := &File{Path: path.Join(path.Dir(root.Path), "nothing_here.thrift")}
			for _, h := range p.Files {
				if h.Base() == "nothing_here" {
					return "", false
				}
			}
			what := "an empty file"
			switch r.Intn(3) {
			case 1:
				if len(p.Files) >= 2 {
					f.Includes = append(f.Includes, p.Files[0])
					what = "a file with nothing but an include"
				}
			case 2:
				f.Services = append(f.Services, &Service{File: f, Name: "NothingToDo"})
				what = "a file whose only definition is a service without functions"
			}
			p.Files = append(p.Files[:len(p.Files)-1], f, root)
			root.Includes = append(root.Includes, f)
			return what + ", included by the root file", true
		}},
		{"default-from-a-constant-of-a-package-used-for-nothing-else", "A", func() (string, bool) {
			// the root takes a field default from a constant of struct type that lives in one included
			// file while its type lives in another: the value is written out in place, so the
			// constant's package is named nowhere in the generated code (an import of it would be
			// unused — with --no-embed-idl nothing else imports the includes)
			root := p.Files[len(p.Files)-1]
			for _, h := range p.Files {
				if h.Base() == "origin_types" || h.Base() == "origin_values" {
					return "", false
				}
			}
			dir := path.Dir(root.Path)
			tf := &File{Path: path.Join(dir, "origin_types.thrift")}
			xf := &Field{ID: 1, Name: "x", Req: Optional, Type: &Type{K: I32}}
			pt := &Def{File: tf, Name: "OriginPoint", Kind: Struct, Index: 1 << 21, Fields: []*Field{xf, {ID: 2, Name: "tag", Req: Optional, Type: &Type{K: String}}}}
			tf.Defs = append(tf.Defs, pt)
			cf := &File{Path: path.Join(dir, "origin_values.thrift"), Includes: []*File{tf}}
			cst := &Constant{File: cf, Name: "ORIGIN_POINT", Type: &Type{K: Named, Ref: pt},
				Value: &Lit{K: LMap, Items: []*Lit{{K: LString, S: "x", Field: xf}, {K: LInt, I: 7}}}}
			cf.Consts = append(cf.Consts, cst)
			root.Includes = append(root.Includes, tf, cf)
			root.Defs = append(root.Defs, &Def{File: root, Name: "UsesOriginPoint", Kind: Struct, Index: 1<<21 + 1, Fields: []*Field{
				{ID: 1, Name: "where", Req: Optional, Type: &Type{K: Named, Ref: pt}, Default: &Lit{K: LConstRef, Const: cst}}}})
			p.Files = append(p.Files[:len(p.Files)-1], tf, cf, root)
			return "a field default taken from a struct constant of an included file that is used for nothing else", true
		}},
		{"label-equal-to-the-name-of-a-later-item", "B", func() (string, bool) {
			// two items of one enum with the same text (the label of one, the name of the other),
			// labelled item first: the check must not depend on the order
			for _, f := range p.Files {
				for _, d := range f.Defs {
					if d.Kind == Enum && len(d.Items) >= 2 {
						i := r.Intn(len(d.Items) - 1)
						j := i + 1 + r.Intn(len(d.Items)-i-1)
						if d.Items[j].Label != "" {
							continue
						}
						d.Items[i].Label = d.Items[j].Name
						return fmt.Sprintf("enum %s: item #%d labelled with the name of item #%d", d.Name, i, j), true
					}
				}
			}
			return "", false
		}},
		{"labels-that-need-quoting", "A", func() (string, bool) {
			// finding D91 (repaired): labels were pasted into Go string literals as they are. An
			// item labelled with the escape sequence that spells another item's name is a
			// different label; a quote in a label is just a character.
			hit := ""
			for _, f := range p.Files {
				for _, d := range f.Defs {
					if d.Kind == Enum && len(d.Items) >= 2 && d.Items[0].Label == "" && d.Items[1].Label == "" && hit == "" {
						n := d.Items[0].Name
						d.Items[1].Label = fmt.Sprintf("\\x%02x%s", n[0], n[1:])
						hit = "enum " + d.Name + ": item labelled " + d.Items[1].Label + " beside item " + n
					}
				}
			}
			if ds := in.structs(1); len(ds) > 0 {
				ds[0].Fields[0].Label = `quo"te`
				hit += "; field label with a quote in " + ds[0].Name
			}
			return hit, hit != ""
		}},
		{"same-go-case-types-renamed", "A", func() (string, bool) {
			// two types whose Thrift names are equal after Go-casing, told apart by
			// go.name, both used as elements of containers of the same shape
			for _, f := range p.Files {
				var ds []*Def
				for _, d := range f.Defs {
					if d.Kind == Struct || d.Kind == Union || d.Kind == Exception {
						ds = append(ds, d)
					}
				}
				if len(ds) < 2 {
					continue
				}
				a, b := ds[0], ds[1]
				a.Name, a.GoName = "audit_entry", ""
				b.Name, b.GoName = "AuditEntry", "AuditEntryRow"
				ref := func(d *Def) *Type { return &Type{K: Named, Ref: d} }
				h := &Def{File: f, Name: "AuditHost", Kind: Struct, Index: 1 << 20, Fields: []*Field{
					{ID: 1, Name: "entriesA", Req: Optional, Type: &Type{K: List, Elem: ref(a)}},
					{ID: 2, Name: "entriesB", Req: Optional, Type: &Type{K: List, Elem: ref(b)}},
					{ID: 3, Name: "byKeyA", Req: Optional, Type: &Type{K: Map, Key: &Type{K: String}, Elem: ref(a)}},
					{ID: 4, Name: "byKeyB", Req: Optional, Type: &Type{K: Map, Key: &Type{K: String}, Elem: ref(b)}}}}
				f.Defs = append(f.Defs, h)
				return "types audit_entry and AuditEntry (go.name AuditEntryRow) as list and map elements in one file", true
			}
			return "", false
		}},
		// ---- clashes: thriftrw may reject; if it accepts the output must build ----
		{"fields-same-go-name", "B", func() (string, bool) {
			d := in.pickDef(in.structs(2))
			if d == nil {
				return "", false
			}
			d.Fields[0].Name, d.Fields[0].GoName = "clash_name", ""
			d.Fields[1].Name, d.Fields[1].GoName = "clashName", ""
			return "fields clash_name and clashName in one struct", true
		}},
		{"types-same-go-name", "B", func() (string, bool) {
			f := p.Files[r.Intn(len(p.Files))]
			if len(f.Defs) < 2 {
				return "", false
			}
			f.Defs[0].Name, f.Defs[0].GoName = "clash_type", ""
			f.Defs[1].Name, f.Defs[1].GoName = "ClashType", ""
			return "types clash_type and ClashType in one file", true
		}},
		{"constants-same-go-name", "B", func() (string, bool) {
			for _, f := range p.Files {
				if len(f.Consts) >= 2 {
					f.Consts[0].Name, f.Consts[1].Name = "clash_const", "CLASH_CONST"
					return "constants clash_const and CLASH_CONST", true
				}
			}
			return "", false
		}},
		{"enum-item-vs-type", "B", func() (string, bool) {
			for _, f := range p.Files {
				var e, s *Def
				for _, d := range f.Defs {
					if d.Kind == Enum && len(d.Items) > 0 && e == nil {
						e = d
					} else if d.Kind != Enum && s == nil {
						s = d
					}
				}
				if e != nil && s != nil {
					e.Name, e.GoName = "Clash", ""
					e.Items[0].Name, e.Items[0].GoName = "Item", ""
					s.Name, s.GoName = "ClashItem", ""
					return "enum Clash{Item} and type ClashItem", true
				}
			}
			return "", false
		}},
		{"constant-vs-type", "B", func() (string, bool) {
			for _, f := range p.Files {
				if len(f.Consts) > 0 && len(f.Defs) > 0 {
					f.Consts[0].Name = "clash_thing"
					f.Defs[0].Name, f.Defs[0].GoName = "ClashThing", ""
					return "constant clash_thing and type ClashThing", true
				}
			}
			return "", false
		}},
		{"reserved-method-field", "B", func() (string, bool) {
			d := in.pickDef(in.structs(1))
			if d == nil {
				return "", false
			}
			n := []string{"toWire", "FromWire", "encode", "Decode", "string", "Equals", "error", "Error", "ptr", "marshalLogArray", "methodName", "EnvelopeType", "Default", "errorName"}[r.Intn(14)]
			if n == "string" {
				n = "String"
			}
			if (n == "errorName" || n == "ErrorName") && d.Kind == Exception {
				return "", false // that is finding D13's probe
			}
			d.Fields[0].Name, d.Fields[0].GoName = n, ""
			return fmt.Sprintf("field %s in %s %s", n, d.Kind, d.Name), true
		}},
		{"go-name-like-generated-method", "B", func() (string, bool) {
			// the same names, given through the go.name annotation instead of the Thrift name
			d := in.pickDef(in.structs(1))
			if d == nil {
				return "", false
			}
			n := []string{"ToWire", "FromWire", "Encode", "Decode", "String", "Equals", "Error", "MarshalLogObject", "MethodName", "EnvelopeType", "ErrorName"}[r.Intn(11)]
			if n == "ErrorName" && d.Kind == Exception {
				return "", false // finding D13's probe
			}
			d.Fields[0].GoName = n
			return fmt.Sprintf("field %s of %s %s with go.name %s", d.Fields[0].Name, d.Kind, d.Name, n), true
		}},
		{"accessor-name-field", "B", func() (string, bool) {
			d := in.pickDef(in.structs(2))
			if d == nil {
				return "", false
			}
			a, b := 0, 1
			if r.Bool() { // the accessor-like name may come before or after the field it shadows
				a, b = 1, 0
			}
			d.Fields[a].Name, d.Fields[a].GoName = "thing", ""
			d.Fields[b].Name, d.Fields[b].GoName = []string{"getThing", "GetThing", "isSetThing", "IsSetThing", "get_thing", "is_set_thing"}[r.Intn(6)], ""
			return fmt.Sprintf("fields thing (#%d) and %s (#%d)", a, d.Fields[b].Name, b), true
		}},
		{"D24-type-named-like-primitive", "K:D24", func() (string, bool) {
			// a user type whose Go name is that of a primitive's mangled name, used next to the primitive
			var s *Def
			for _, d := range p.AllDefs() {
				if d.Kind != Enum && d.Kind != Typedef {
					s = d
					break
				}
			}
			if s == nil {
				return "", false
			}
			prim := []struct {
				name string
				k    TKind
			}{{"String", String}, {"Bool", Bool}, {"I32", I32}, {"Binary", Binary}, {"Double", Double}, {"I64", I64}}[r.Intn(6)]
			s.Name, s.GoName = prim.name, ""
			host := &Def{File: s.File, Name: "MangleHost", Kind: Struct, Index: 1 << 20}
			host.Fields = []*Field{
				{ID: 1, Name: "userList", Req: Optional, Type: &Type{K: List, Elem: &Type{K: Named, Ref: s}}},
				{ID: 2, Name: "primList", Req: Optional, Type: &Type{K: List, Elem: &Type{K: prim.k}}},
			}
			s.File.Defs = append(s.File.Defs, host)
			return "user type named " + prim.name + " with list<" + prim.name + "> next to the primitive list", true
		}},
		{"bad-go-name-annotation", "B", func() (string, bool) {
			d := in.pickDef(in.structs(1))
			if d == nil {
				return "", false
			}
			d.Fields[0].GoName = []string{"lowercase", "With_Underscore", "9Digit", ""}[r.Intn(3)]
			return "go.name = " + d.Fields[0].GoName, true
		}},
		{"duplicate-go-name-annotation", "B", func() (string, bool) {
			d := in.pickDef(in.structs(2))
			if d == nil {
				return "", false
			}
			d.Fields[0].GoName, d.Fields[1].GoName = "SameName", "SameName"
			return "two fields with go.name = SameName", true
		}},
		{"duplicate-label", "B", func() (string, bool) {
			d := in.pickDef(in.structs(2))
			if d == nil {
				return "", false
			}
			d.Fields[0].Label, d.Fields[1].Label = "same-label", "same-label"
			return "two fields of one struct with the same go.label", true
		}},
		{"D23-duplicate-exception-in-throws", "B", func() (string, bool) {
			for _, fn := range in.funcs() {
				if len(fn.Throws) >= 1 && !fn.Oneway {
					e := *fn.Throws[0]
					e.Name, e.ID = "again", 99
					fn.Throws = append(fn.Throws, &e)
					return "the same exception type twice in one throws clause", true
				}
			}
			return "", false
		}},
		{"same-named-exceptions-from-two-files", "A", func() (string, bool) {
			// two distinct exception types with one Thrift name, defined in two files, thrown by
			// one function: different Go types (pkg.SharedExc and SharedExc), no clash
			for _, f := range p.Files {
				if len(f.Includes) == 0 {
					continue
				}
				g := f.Includes[r.Intn(len(f.Includes))]
				if g.Base() == f.Base() {
					continue
				}
				mk := func(file *File) *Def {
					return &Def{File: file, Name: "SharedExc", Kind: Exception, Index: 1 << 20, Fields: []*Field{{ID: 1, Name: "why", Req: Optional, Type: &Type{K: String}}}}
				}
				here, there := mk(f), mk(g)
				f.Defs, g.Defs = append(f.Defs, here), append(g.Defs, there)
				fn := &Func{Name: "throwsBoth", Ret: &Type{K: I32}, Throws: []*Field{
					{ID: 1, Name: "local", Req: Unspecified, Type: &Type{K: Named, Ref: here}},
					{ID: 2, Name: "included", Req: Unspecified, Type: &Type{K: Named, Ref: there}}}}
				f.Services = append(f.Services, &Service{File: f, Name: "SharedExcThrower", Funcs: []*Func{fn}})
				return "a function throwing SharedExc of its own file and SharedExc of an included file", true
			}
			return "", false
		}},
		{"enum-alias-with-the-label-of-its-original", "B", func() (string, bool) {
			f := p.Files[r.Intn(len(p.Files))]
			d := &Def{File: f, Name: "AliasLabel", Kind: Enum, Index: 1 << 20, Items: []*EnumItem{
				{Name: "LOW", Value: 1, Explicit: true}, {Name: "MEDIUM", Value: 2, Explicit: true}, {Name: "NORMAL", Value: 2, Explicit: true, Label: "MEDIUM"}}}
			f.Defs = append(f.Defs, d)
			return "enum item aliasing another item's value and carrying its label", true
		}},
		{"enum-alias-with-distinct-label", "A", func() (string, bool) {
			f := p.Files[r.Intn(len(p.Files))]
			d := &Def{File: f, Name: "AliasOwnLabel", Kind: Enum, Index: 1 << 20, Items: []*EnumItem{
				{Name: "LOW", Value: 1, Explicit: true, Label: "low"}, {Name: "MEDIUM", Value: 2, Explicit: true}, {Name: "NORMAL", Value: 2, Explicit: true, Label: "normal"}, {Name: "HIGH", Value: 1, Explicit: true}}}
			f.Defs = append(f.Defs, d)
			return "enum items aliasing values with labels of their own", true
		}},
		{"same-named-types-in-same-named-files", "A", func() (string, bool) {
			// d1/shared.thrift and d2/shared.thrift both define Item; one package uses both — the
			// first directly, the second through a typedef'd container of a third file. Helper names
			// derived from (file base name, type name) alone would collide.
			for _, f := range p.Files {
				if f.Base() == "shared" || f.Base() == "nsmid" || f.Base() == "nshost" {
					return "", false
				}
			}
			mk := func(dir, field string) (*File, *Def) {
				f := &File{Path: dir + "/shared.thrift"}
				d := &Def{File: f, Name: "Item", Kind: Struct, Index: 1 << 20, Fields: []*Field{{ID: 1, Name: field, Req: Optional, Type: &Type{K: String}}}}
				f.Defs = []*Def{d}
				return f, d
			}
			f1, item1 := mk("nsd1", "from_one")
			f2, item2 := mk("nsd2", "from_two")
			mid := &File{Path: "nsmid.thrift", Includes: []*File{f2}}
			items := &Def{File: mid, Name: "Items", Kind: Typedef, Index: 1 << 20, Target: &Type{K: List, Elem: &Type{K: Named, Ref: item2}}}
			byKey := &Def{File: mid, Name: "ItemsByKey", Kind: Typedef, Index: 1 << 20, Target: &Type{K: Map, Key: &Type{K: String}, Elem: &Type{K: Named, Ref: item2}}}
			mid.Defs = []*Def{items, byKey}
			host := &File{Path: "nshost.thrift", Includes: []*File{f1, mid}}
			host.Defs = []*Def{{File: host, Name: "Host", Kind: Struct, Index: 1 << 20, Fields: []*Field{
				{ID: 1, Name: "direct", Req: Optional, Type: &Type{K: List, Elem: &Type{K: Named, Ref: item1}}},
				{ID: 2, Name: "via_typedef", Req: Optional, Type: &Type{K: Named, Ref: items}},
				{ID: 3, Name: "direct_map", Req: Optional, Type: &Type{K: Map, Key: &Type{K: String}, Elem: &Type{K: Named, Ref: item1}}},
				{ID: 4, Name: "map_via_typedef", Req: Optional, Type: &Type{K: Named, Ref: byKey}}}}}
			// dependency order: the new files before the root, which includes the host
			root := p.Root
			var files []*File
			for _, f := range p.Files {
				if f != root {
					files = append(files, f)
				}
			}
			p.Files = append(files, f1, f2, mid, host, root)
			root.Includes = append(root.Includes, host)
			return "two files named shared.thrift with a type Item each, both used in one package (one through typedef'd containers of a third file)", true
		}},
		{"D80-included-file-named-like-a-name-of-the-generated-file", "K:D80", func() (string, bool) {
			// the package of an included file is imported under its own name; the generated file
			// already uses that name for something else (the constant rawIDL, the type string)
			for _, f := range p.Files {
				if len(f.Includes) == 0 {
					continue
				}
				g := f.Includes[r.Intn(len(f.Includes))]
				name := []string{"rawIDL", "string", "err"}[r.Intn(3)]
				for _, h := range p.Files {
					if h.Base() == name {
						return "", false
					}
				}
				g.Path = path.Join(path.Dir(g.Path), name+".thrift")
				if name == "err" {
					// the import is hidden by the err parameter of the response helpers, which
					// mention the exceptions a function throws: let a function of f throw one of g
					var exc *Def
					for _, d := range g.Defs {
						if d.Kind == Exception {
							exc = d
						}
					}
					if exc == nil {
						exc = &Def{File: g, Name: "OopsInErr", Kind: Exception, Index: -1}
						g.Defs = append(g.Defs, exc)
					}
					if len(f.Services) == 0 {
						f.Services = append(f.Services, &Service{File: f, Name: "ThrowsErr"})
					}
					sv := f.Services[0]
					sv.Funcs = append(sv.Funcs, &Func{Name: "throwsFromErr", Throws: []*Field{{ID: 1, Name: "oops", Req: Unspecified, Type: &Type{K: Named, Ref: exc}}}})
				}
				return "included file renamed to " + g.Path, true
			}
			return "", false
		}},
		{"file-whose-name-is-no-go-package-name", "B", func() (string, bool) {
			// findings D71 and D84 (repaired: such files are refused): keywords, main, a dot in the
			// name, a digit at the start, the blank identifier; finding D94 (repaired likewise): names
			// that make <name>.go a test file or a file for one platform
			f := p.Files[r.Intn(len(p.Files))]
			names := []string{"range", "type", "func", "select", "go", "main", "x.y", "1st", "_", "v1.2", "init",
				"b_test", "x_windows", "model_arm", "types_js", "api_linux_amd64", "svc_wasm", "conn_unix", "dev_android"}
			name := names[r.Intn(len(names))]
			for _, h := range p.Files {
				if h.Base() == name {
					return "", false
				}
			}
			f.Path = path.Join(path.Dir(f.Path), name+".thrift")
			return "file renamed to " + f.Path, true
		}},
		{"D81-set-constant-with-a-repeated-item", "B", func() (string, bool) {
			f := p.Files[r.Intn(len(p.Files))]
			one := func() *Lit { return &Lit{K: LInt, I: 1} }
			str := func() *Lit { return &Lit{K: LString, S: "x"} }
			switch r.Intn(4) {
			case 0:
				f.Consts = append(f.Consts, &Constant{File: f, Name: "dup_items", Type: &Type{K: Set, Elem: &Type{K: I32}}, Value: &Lit{K: LList, Items: []*Lit{one(), {K: LInt, I: 2}, one()}}})
			case 1:
				f.Consts = append(f.Consts, &Constant{File: f, Name: "dup_items", Type: &Type{K: Set, Elem: &Type{K: String}}, Value: &Lit{K: LList, Items: []*Lit{str(), str()}}})
			case 2:
				f.Consts = append(f.Consts, &Constant{File: f, Name: "dup_keys", Type: &Type{K: Map, Key: &Type{K: I64}, Elem: &Type{K: String}}, Value: &Lit{K: LMap, Items: []*Lit{one(), str(), one(), {K: LString, S: "y"}}}})
			default:
				f.Defs = append(f.Defs, &Def{File: f, Name: "DupDefault", Kind: Struct, Index: 1 << 20, Fields: []*Field{
					{ID: 1, Name: "s", Req: Optional, Type: &Type{K: Set, Elem: &Type{K: Double}}, Default: &Lit{K: LList, Items: []*Lit{one(), {K: LDouble, D: "1.0"}}}}}})
			}
			return "a set / map constant or default that gives a scalar twice", true
		}},
		{"args-same-go-name", "B", func() (string, bool) {
			for _, fn := range in.funcs() {
				if len(fn.Args) >= 2 {
					fn.Args[0].Name, fn.Args[1].Name = "arg_one", "argOne"
					return "arguments arg_one and argOne", true
				}
			}
			return "", false
		}},
		// ---- shapes of findings fixed in the repository (D9 D11 D13 D14 D23 D26 D27): ordinary
		// class A/B injections, so a regression is a disagreement ----
		{"D9-out-of-range-constant", "B", func() (string, bool) {
			f := p.Files[r.Intn(len(p.Files))]
			f.Consts = append(f.Consts, &Constant{File: f, Name: "out_of_range", Type: &Type{K: I8}, Value: &Lit{K: LInt, I: 1000}})
			return "const i8 out_of_range = 1000", true
		}},
		{"D11-duplicate-enum-values", "A", func() (string, bool) {
			f := p.Files[r.Intn(len(p.Files))]
			d := &Def{File: f, Name: "DupValues", Kind: Enum, Index: 1 << 20, Items: []*EnumItem{
				{Name: "A", Value: 1, Explicit: true}, {Name: "B", Value: 1, Explicit: true}, {Name: "C", Value: 2, Explicit: true}}}
			f.Defs = append(f.Defs, d)
			return "enum DupValues {A = 1, B = 1, C = 2}", true
		}},
		// ---- shapes of repaired findings and probes of known ones ----
		{"D12-default-on-typedef-of-container", "A", func() (string, bool) {
			f := p.Files[r.Intn(len(p.Files))]
			td := &Def{File: f, Name: "IntListAlias", Kind: Typedef, Index: 1 << 20, Target: &Type{K: List, Elem: &Type{K: I32}}}
			h := &Def{File: f, Name: "DefaultHost", Kind: Struct, Index: 1 << 20, Fields: []*Field{
				{ID: 1, Name: "xs", Req: Optional, Type: &Type{K: Named, Ref: td}, Default: &Lit{K: LList, Items: []*Lit{{K: LInt, I: 1}}}}}}
			f.Defs = append(f.Defs, td, h)
			return "default on a field whose type is a typedef of a list", true
		}},
		{"D13-exception-field-ErrorName", "B", func() (string, bool) {
			d := in.pickDef(in.structs(1, Exception))
			if d == nil {
				return "", false
			}
			d.Fields[0].Name, d.Fields[0].GoName = "ErrorName", ""
			return "exception field named ErrorName", true
		}},
		{"D14-go-name-on-argument", "A", func() (string, bool) {
			for _, fn := range in.funcs() {
				if len(fn.Args) > 0 {
					fn.Args[0].GoName = "RenamedArg"
					if len(fn.Throws) > 0 {
						fn.Throws[0].GoName = "RenamedExc"
					}
					return "go.name on a function argument (and exception)", true
				}
			}
			return "", false
		}},
		{"D15-type-named-List", "K:D15", func() (string, bool) {
			f := p.Files[r.Intn(len(p.Files))]
			l := &Def{File: f, Name: "List", Kind: Struct, Index: 1 << 20, Fields: []*Field{{ID: 1, Name: "n", Req: Optional, Type: &Type{K: I32}}}}
			a := &Def{File: f, Name: "MangleA", Kind: Struct, Index: 1 << 20, Fields: []*Field{{ID: 1, Name: "n", Req: Optional, Type: &Type{K: I32}}}}
			ref := func(d *Def) *Type { return &Type{K: Named, Ref: d} }
			h := &Def{File: f, Name: "MangleHost", Kind: Struct, Index: 1 << 20, Fields: []*Field{
				{ID: 1, Name: "m1", Req: Optional, Type: &Type{K: Map, Key: ref(l), Elem: &Type{K: List, Elem: ref(a)}}},
				{ID: 2, Name: "m2", Req: Optional, Type: &Type{K: Map, Key: &Type{K: List, Elem: ref(l)}, Elem: ref(a)}}}}
			f.Defs = append(f.Defs, l, a, h)
			return "struct List with map<List,list<A>> and map<list<List>,A>", true
		}},
		{"D26-field-named-MarshalLogObject", "B", func() (string, bool) {
			d := in.pickDef(in.structs(1))
			if d == nil {
				return "", false
			}
			d.Fields[0].Name, d.Fields[0].GoName = []string{"MarshalLogObject", "marshalLogObject"}[r.Intn(2)], ""
			return "field named MarshalLogObject (clashes with the generated zap method unless --no-zap)", true
		}},
		{"D27-argument-named-like-enveloper-method", "B", func() (string, bool) {
			for _, fn := range in.funcs() {
				if len(fn.Args) > 0 {
					fn.Args[0].Name, fn.Args[0].GoName = []string{"methodName", "envelopeType", "MethodName"}[r.Intn(3)], ""
					return "function argument named " + fn.Args[0].Name + " (clashes with the generated MethodName/EnvelopeType methods of the args struct)", true
				}
			}
			return "", false
		}},
		{"D21-struct-literal-default-in-cycle", "K:D21", func() (string, bool) {
			f := p.Files[r.Intn(len(p.Files))]
			a := &Def{File: f, Name: "CycleA", Kind: Struct, Index: 1 << 20}
			b := &Def{File: f, Name: "CycleB", Kind: Struct, Index: 1 << 20}
			a.Fields = []*Field{{ID: 1, Name: "b", Req: Optional, Type: &Type{K: Named, Ref: b}}, {ID: 2, Name: "a", Req: Optional, Type: &Type{K: Named, Ref: a}}}
			b.Fields = []*Field{{ID: 1, Name: "x", Req: Optional, Type: &Type{K: Named, Ref: a},
				Default: &Lit{K: LMap, Items: []*Lit{{K: LString, S: "a"}, {K: LMap}}}}}
			f.Defs = append(f.Defs, a, b)
			return "struct-literal default of a struct that is mutually recursive with the enclosing struct", true
		}},
	}
	injectionCount = len(list)
	if injectionIndex == nil {
		injectionIndex = map[string]int{}
		for i, c := range list {
			injectionIndex[c.name] = i
		}
	}
	if idx < -1 {
		return Injection{}, false
	}
	if idx == -1 {
		idx = r.Intn(len(list))
	}
	c := list[idx%len(list)]
	what, ok := c.f()
	if !ok {
		return Injection{}, false
	}
	return Injection{Name: c.name, Class: c.class, What: what}, true
}

// IDLReserved lists identifiers the IDL refuses.
var IDLReserved = strings.Fields(`BEGIN END __CLASS__ __DIR__ __FILE__ __FUNCTION__ __LINE__ __METHOD__ __NAMESPACE__ abstract alias and args as assert begin break case catch class clone continue declare def default del delete do dynamic elif else elseif elsif end enddeclare endfor endforeach endif endswitch endwhile ensure except exec finally float for foreach from function global goto if implements import in inline instanceof interface is lambda module native new next nil not or package pass public print private protected raise redo rescue retry register return self sizeof static super switch synchronized then this throw transient try undef unless unsigned until use var virtual volatile when while with xor yield include cpp_include namespace void bool byte i8 i16 i32 i64 double string binary map list set oneway typedef struct union exception extends throws service enum const required optional true false`)
