package progs

import (
	"fmt"
	"path"
	"strconv"
	"strings"
)

// Render returns the IDL text of file f.
func (f *File) Render() string {
	var sb strings.Builder
	for _, inc := range f.Includes {
		rel := relPath(path.Dir(f.Path), inc.Path)
		fmt.Fprintf(&sb, "include \"%s\"\n", rel)
	}
	sb.WriteString("\n")
	for _, d := range f.Defs {
		f.renderDef(&sb, d)
		sb.WriteString("\n")
	}
	for _, c := range f.Consts {
		fmt.Fprintf(&sb, "const %s %s = %s\n", f.TypeText(c.Type), c.Name, f.LitText(c.Value))
	}
	sb.WriteString("\n")
	for _, s := range f.Services {
		fmt.Fprintf(&sb, "service %s", s.Name)
		if s.Parent != nil {
			fmt.Fprintf(&sb, " extends %s", f.qualify(s.Parent.File, s.Parent.Name))
		}
		sb.WriteString(" {\n")
		for _, fn := range s.Funcs {
			sb.WriteString("  ")
			if fn.Oneway {
				sb.WriteString("oneway ")
			}
			if fn.Ret == nil {
				sb.WriteString("void")
			} else {
				sb.WriteString(f.TypeText(fn.Ret))
			}
			fmt.Fprintf(&sb, " %s(", fn.Name)
			for i, a := range fn.Args {
				if i > 0 {
					sb.WriteString(", ")
				}
				sb.WriteString(f.fieldText(a))
			}
			sb.WriteString(")")
			if len(fn.Throws) > 0 {
				sb.WriteString(" throws (")
				for i, a := range fn.Throws {
					if i > 0 {
						sb.WriteString(", ")
					}
					sb.WriteString(f.fieldText(a))
				}
				sb.WriteString(")")
			}
			if fn.Ann != "" {
				sb.WriteString(" (" + fn.Ann + ")")
			}
			sb.WriteString("\n")
		}
		sb.WriteString("}\n\n")
	}
	return sb.String()
}

// relPath computes a relative include path from directory `from` to file `to`
// (both relative to the thrift root, slash separated).
func relPath(from, to string) string {
	if from == "." {
		from = ""
	}
	var fp []string
	if from != "" {
		fp = strings.Split(from, "/")
	}
	tp := strings.Split(to, "/")
	i := 0
	for i < len(fp) && i < len(tp)-1 && fp[i] == tp[i] {
		i++
	}
	out := strings.Repeat("../", len(fp)-i) + strings.Join(tp[i:], "/")
	if !strings.HasPrefix(out, "../") {
		out = "./" + out
	}
	return out
}

func (f *File) qualify(of *File, name string) string {
	if of == f {
		return name
	}
	return of.Base() + "." + name
}

// TypeText renders a type expression as seen from file f.
func (f *File) TypeText(t *Type) string {
	switch t.K {
	case Bool:
		return "bool"
	case I8:
		return "byte"
	case I16:
		return "i16"
	case I32:
		return "i32"
	case I64:
		return "i64"
	case Double:
		return "double"
	case String:
		return "string"
	case Binary:
		return "binary"
	case List:
		return "list<" + f.TypeText(t.Elem) + ">" + annText(t)
	case Set:
		s := "set<" + f.TypeText(t.Elem) + ">"
		if t.Slice {
			s += " (go.type = \"slice\")"
		}
		return s + annText(t)
	case Map:
		return "map<" + f.TypeText(t.Key) + ", " + f.TypeText(t.Elem) + ">" + annText(t)
	}
	return f.qualify(t.Ref.File, t.Ref.Name)
}

func annText(t *Type) string {
	if t.Ann == "" {
		return ""
	}
	return " (" + t.Ann + ")"
}

func annots(kv ...string) string {
	var parts []string
	for i := 0; i+1 < len(kv); i += 2 {
		if kv[i+1] == "" {
			continue
		}
		if kv[i+1] == "\x00" {
			parts = append(parts, kv[i])
			continue
		}
		if strings.HasPrefix(kv[i+1], "\x01") { // a flag annotation written with a value
			parts = append(parts, kv[i]+" = "+strconv.Quote(kv[i+1][1:]))
			continue
		}
		q := strconv.Quote(kv[i+1])
		if strings.Contains(kv[i+1], "\"") {
			q = "'" + kv[i+1] + "'"
		}
		parts = append(parts, kv[i]+" = "+q)
	}
	if len(parts) == 0 {
		return ""
	}
	return " (" + strings.Join(parts, ", ") + ")"
}

func flag(b bool) string {
	if b {
		return "\x00"
	}
	return ""
}

// flagValues: the spellings of a flag annotation (go.redact, go.nolog). The annotation counts
// whatever value it is written with; the spelling is a function of the field's name, so that
// rendering stays deterministic.
var flagValues = []string{"\x00", "\x00", "\x00", "\x01", "\x01true", "\x011", "\x01yes", "\x01on", "\x01false", "\x010", "\x01TRUE ", "\x01enabled"}

func flagFor(name string, salt int, b bool) string {
	if !b {
		return ""
	}
	h := salt
	for _, ch := range []byte(name) {
		h = h*31 + int(ch)
	}
	if h < 0 {
		h = -h
	}
	return flagValues[h%len(flagValues)]
}

func (f *File) fieldText(fl *Field) string {
	var sb strings.Builder
	if !fl.NoID {
		fmt.Fprintf(&sb, "%d: ", fl.ID)
	}
	switch {
	case fl.Req == Required:
		sb.WriteString("required ")
	case fl.Req == Optional && !fl.ReqImplicit:
		sb.WriteString("optional ")
	}
	sb.WriteString(f.TypeText(fl.Type))
	sb.WriteString(" " + fl.Name)
	if fl.Default != nil {
		sb.WriteString(" = " + f.LitText(fl.Default))
	}
	sb.WriteString(annots("go.name", fl.GoName, "go.label", fl.Label, "go.tag", fl.Tag, "go.redact", flagFor(fl.Name, 1, fl.Redact), "go.nolog", flagFor(fl.Name, 2, fl.NoLog)))
	return sb.String()
}

func (f *File) renderDef(sb *strings.Builder, d *Def) {
	switch d.Kind {
	case Typedef:
		fmt.Fprintf(sb, "typedef %s %s%s\n", f.TypeText(d.Target), d.Name, annots("go.name", d.GoName))
	case Enum:
		fmt.Fprintf(sb, "enum %s {\n", d.Name)
		for _, it := range d.Items {
			sb.WriteString("  " + it.Name)
			if it.Explicit {
				fmt.Fprintf(sb, " = %d", it.Value)
			}
			sb.WriteString(annots("go.name", it.GoName, "go.label", it.Label))
			sb.WriteString(",\n")
		}
		fmt.Fprintf(sb, "}%s\n", annots("go.name", d.GoName))
	default:
		fmt.Fprintf(sb, "%s %s {\n", d.Kind, d.Name)
		for _, fl := range d.Fields {
			sb.WriteString("  " + f.fieldText(fl) + "\n")
		}
		fmt.Fprintf(sb, "}%s\n", annots("go.name", d.GoName))
	}
}

// LitText renders a constant expression as seen from file f.
func (f *File) LitText(l *Lit) string {
	switch l.K {
	case LInt:
		return strconv.FormatInt(l.I, 10)
	case LDouble:
		return l.D
	case LBool:
		if l.B {
			return "true"
		}
		return "false"
	case LString:
		if l.Field != nil {
			return quoteIDL(l.Field.Name)
		}
		return quoteIDL(l.S)
	case LList:
		parts := make([]string, len(l.Items))
		for i, it := range l.Items {
			parts[i] = f.LitText(it)
		}
		return "[" + strings.Join(parts, ", ") + "]"
	case LMap:
		var parts []string
		for i := 0; i+1 < len(l.Items); i += 2 {
			parts = append(parts, f.LitText(l.Items[i])+": "+f.LitText(l.Items[i+1]))
		}
		return "{" + strings.Join(parts, ", ") + "}"
	case LEnumRef:
		return f.qualify(l.Enum.File, l.Enum.Name) + "." + l.Item.Name
	case LConstRef:
		return f.qualify(l.Const.File, l.Const.Name)
	}
	return "?"
}

// quoteIDL writes a double-quoted IDL string literal with the escapes the
// Thrift lexer understands (\n \t \r \" \\); other bytes are written raw.
func quoteIDL(s string) string {
	var sb strings.Builder
	sb.WriteByte('"')
	for i := 0; i < len(s); i++ {
		switch c := s[i]; c {
		case '\n':
			sb.WriteString(`\n`)
		case '\t':
			sb.WriteString(`\t`)
		case '\r':
			sb.WriteString(`\r`)
		case '"':
			sb.WriteString(`\"`)
		case '\\':
			sb.WriteString(`\\`)
		default:
			sb.WriteByte(c)
		}
	}
	sb.WriteByte('"')
	return sb.String()
}
