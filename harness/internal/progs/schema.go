package progs

import (
	"math"
	"strconv"

	"verifharness/internal/gtext"
)

// TopType is a named type on which value operations can be run.
type TopType struct {
	Name string   // schema name
	T    *gtext.T // struct:Name / enum:Name / typedef:Name T
	Def  *Def     // nil for args/result structs
	File *File
	Go   string // Go identifier of the type in its package
	Kind string // enum typedef struct union exception args result resultv
	Func *FuncInfo
}

// ConstInfo describes a generated constant and the value it must have.
type ConstInfo struct {
	Const *Constant
	Name  string // schema-style name file.Name
	Go    string
	T     *gtext.T
	G     *gtext.G
}

// FuncInfo describes a service function and its generated companions.
type FuncInfo struct {
	Service *Service
	Func    *Func
	Prefix  string // Go prefix Service_Func_
	Args    string // schema name of the args struct
	Result  string // "" for oneway
	Ret     *gtext.T
	Throws  []*gtext.T
}

// Schema is the flattening of a program to SCHEMA_PROTOCOL definitions.
type Schema struct {
	Env    *gtext.Env
	Types  []*TopType
	Consts []*ConstInfo
	Funcs  []*FuncInfo
	ByName map[string]*TopType
}

// T converts a type expression.
func (t *Type) T() *gtext.T {
	switch t.K {
	case Bool:
		return gtext.Base(gtext.KBool)
	case I8:
		return gtext.Base(gtext.KI8)
	case I16:
		return gtext.Base(gtext.KI16)
	case I32:
		return gtext.Base(gtext.KI32)
	case I64:
		return gtext.Base(gtext.KI64)
	case Double:
		return gtext.Base(gtext.KDouble)
	case String:
		return gtext.Base(gtext.KString)
	case Binary:
		return gtext.Base(gtext.KBinary)
	case List:
		return &gtext.T{K: gtext.KList, Elem: t.Elem.T()}
	case Set:
		if t.Slice {
			return &gtext.T{K: gtext.KSSet, Elem: t.Elem.T()}
		}
		return &gtext.T{K: gtext.KSet, Elem: t.Elem.T()}
	case Map:
		return &gtext.T{K: gtext.KMap, Key: t.Key.T(), Elem: t.Elem.T()}
	}
	d := t.Ref
	switch d.Kind {
	case Enum:
		return &gtext.T{K: gtext.KEnum, Name: d.SchemaName()}
	case Typedef:
		return &gtext.T{K: gtext.KTypedef, Name: d.SchemaName(), Elem: d.Target.T()}
	}
	return &gtext.T{K: gtext.KStruct, Name: d.SchemaName()}
}

func fieldDef(fl *Field, goName string) *gtext.FieldDef {
	fd := &gtext.FieldDef{ID: int16(fl.ID), GoName: goName, Label: fl.LabelOf(),
		Req: fl.Req == Required && fl.Default == nil, Redact: fl.Redact, NoLog: fl.NoLog, T: fl.Type.T()}
	if fl.Default != nil {
		fd.Def = CastLit(fl.Default, fl.Type)
	}
	return fd
}

// Schema flattens the program.
func (p *Program) Schema() *Schema {
	s := &Schema{Env: gtext.NewEnv(), ByName: map[string]*TopType{}}
	add := func(t *TopType) {
		s.Types = append(s.Types, t)
		s.ByName[t.Name] = t
	}
	for _, f := range p.Files {
		for _, d := range f.Defs {
			tt := &TopType{Name: d.SchemaName(), Def: d, File: f, Go: d.Go(), Kind: d.Kind.String()}
			switch d.Kind {
			case Enum:
				e := &gtext.EnumDef{Name: d.SchemaName()}
				for _, it := range d.Items {
					e.Items = append(e.Items, gtext.EnumItem{Name: it.LabelOf(), Value: it.Value})
				}
				s.Env.AddEnum(e)
				tt.T = &gtext.T{K: gtext.KEnum, Name: d.SchemaName()}
			case Typedef:
				tt.T = &gtext.T{K: gtext.KTypedef, Name: d.SchemaName(), Elem: d.Target.T()}
			default:
				sd := &gtext.StructDef{Name: d.SchemaName(), Kind: d.Kind.String()}
				for _, fl := range d.Fields {
					sd.Fields = append(sd.Fields, fieldDef(fl, fl.Go()))
				}
				s.Env.AddStruct(sd)
				tt.T = &gtext.T{K: gtext.KStruct, Name: d.SchemaName()}
			}
			add(tt)
		}
		for _, c := range f.Consts {
			s.Consts = append(s.Consts, &ConstInfo{Const: c, Name: f.Rel() + "." + c.Name, Go: c.Go(), T: c.Type.T(), G: CastLit(c.Value, c.Type)})
		}
		for _, sv := range f.Services {
			for _, fn := range sv.Funcs {
				fi := &FuncInfo{Service: sv, Func: fn, Prefix: FuncPrefix(sv, fn)}
				fi.Args = f.Rel() + "." + sv.Name + "_" + fn.Name + "_Args"
				args := &gtext.StructDef{Name: fi.Args, Kind: "args"}
				for _, a := range fn.Args {
					args.Fields = append(args.Fields, fieldDef(a, a.Go()))
				}
				s.Env.AddStruct(args)
				add(&TopType{Name: fi.Args, T: &gtext.T{K: gtext.KStruct, Name: fi.Args}, File: f, Go: fi.Prefix + "Args", Kind: "args", Func: fi})
				if !fn.Oneway {
					fi.Result = f.Rel() + "." + sv.Name + "_" + fn.Name + "_Result"
					kind := "resultv"
					res := &gtext.StructDef{Name: fi.Result}
					if fn.Ret != nil {
						kind = "result"
						fi.Ret = fn.Ret.T()
						res.Fields = append(res.Fields, &gtext.FieldDef{ID: 0, GoName: "Success", Label: "success", T: fi.Ret})
					}
					res.Kind = kind
					for _, e := range fn.Throws {
						res.Fields = append(res.Fields, fieldDef(e, e.Go()))
						fi.Throws = append(fi.Throws, e.Type.T())
					}
					s.Env.AddStruct(res)
					add(&TopType{Name: fi.Result, T: &gtext.T{K: gtext.KStruct, Name: fi.Result}, File: f, Go: fi.Prefix + "Result", Kind: kind, Func: fi})
				}
				s.Funcs = append(s.Funcs, fi)
			}
		}
	}
	return s
}

// CastLit is the harness's own cast of an IDL literal to a declared type,
// yielding the Go-level value the generated constant / default must have.
func CastLit(l *Lit, t *Type) *gtext.G {
	if l.K == LConstRef {
		return CastLit(l.Const.Value, t)
	}
	root := t.Root()
	switch root.K {
	case Bool:
		if l.K == LInt {
			return gtext.Bool(l.I == 1)
		}
		return gtext.Bool(l.B)
	case I8:
		return gtext.Scalar(gtext.GI8, uint64(uint8(int8(l.I))))
	case I16:
		return gtext.Scalar(gtext.GI16, uint64(uint16(int16(l.I))))
	case I32:
		return gtext.Scalar(gtext.GI32, uint64(uint32(int32(l.I))))
	case I64:
		return gtext.Scalar(gtext.GI64, uint64(l.I))
	case Double:
		if l.K == LInt {
			return gtext.Scalar(gtext.GDouble, math.Float64bits(float64(l.I)))
		}
		d, _ := strconv.ParseFloat(l.D, 64)
		return gtext.Scalar(gtext.GDouble, math.Float64bits(d))
	case String:
		return gtext.Str([]byte(l.S))
	case List:
		g := &gtext.G{K: gtext.GList, Items: []*gtext.G{}}
		for _, it := range l.Items {
			g.Items = append(g.Items, CastLit(it, root.Elem))
		}
		return g
	case Set:
		g := &gtext.G{K: gtext.GSet, H: !root.Slice && root.Elem.IsPrim(), Items: []*gtext.G{}}
		for _, it := range l.Items {
			g.Items = append(g.Items, CastLit(it, root.Elem))
		}
		return g
	case Map:
		g := &gtext.G{K: gtext.GMap, H: root.Key.IsPrim(), Items: []*gtext.G{}}
		for i := 0; i+1 < len(l.Items); i += 2 {
			g.Items = append(g.Items, CastLit(l.Items[i], root.Key), CastLit(l.Items[i+1], root.Elem))
		}
		return g
	case Binary:
		return gtext.Bin([]byte(l.S))
	}
	d := root.Ref
	if d.Kind == Enum {
		if l.K == LEnumRef {
			return gtext.Scalar(gtext.GI32, uint64(uint32(l.Item.Value)))
		}
		return gtext.Scalar(gtext.GI32, uint64(uint32(int32(l.I))))
	}
	// struct literal: fields given in the literal, else the field's default, else unset
	g := &gtext.G{K: gtext.GStruct}
	given := map[string]*Lit{}
	for i := 0; i+1 < len(l.Items); i += 2 {
		k := l.Items[i].S
		if l.Items[i].Field != nil {
			k = l.Items[i].Field.Name
		}
		given[k] = l.Items[i+1]
	}
	for _, fl := range d.Fields {
		switch {
		case given[fl.Name] != nil:
			g.Items = append(g.Items, CastLit(given[fl.Name], fl.Type))
		case fl.Default != nil:
			g.Items = append(g.Items, CastLit(fl.Default, fl.Type))
		default:
			g.Items = append(g.Items, gtext.Nil())
		}
	}
	return g
}
