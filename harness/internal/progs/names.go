package progs

import (
	"strings"
	"unicode"
	"unicode/utf8"
)

// The naming rules below are the harness's own statement of how Thrift names
// map to Go identifiers (DESIGN §5 C06). The list of initialisms is also
// extracted from gen/string.go by factgen; a difference shows up as a
// "shape-mismatch" from the value driver (field not found).
var Initialisms = map[string]bool{
	"API": true, "ASCII": true, "CPU": true, "CSS": true, "DNS": true, "EOF": true,
	"GUID": true, "HTML": true, "HTTP": true, "HTTPS": true, "ID": true, "IP": true,
	"JSON": true, "LHS": true, "QPS": true, "RAM": true, "RHS": true, "RPC": true,
	"SLA": true, "SMTP": true, "SQL": true, "SSH": true, "TCP": true, "TLS": true,
	"TTL": true, "UDP": true, "UI": true, "UID": true, "UUID": true, "URI": true,
	"URL": true, "UTF8": true, "VM": true, "XML": true, "XSRF": true, "XSS": true,
}

var GoKeywords = []string{
	"break", "default", "func", "interface", "select", "case", "defer", "go", "map",
	"struct", "chan", "else", "goto", "package", "switch", "const", "fallthrough", "if",
	"range", "type", "continue", "for", "import", "return", "var",
}

func isAllCaps(s string) bool {
	for _, r := range s {
		if unicode.IsLetter(r) && !unicode.IsUpper(r) {
			return false
		}
	}
	return true
}

func titleLower(s string) string {
	s = strings.ToLower(s)
	// strings.Title upper-cases the first letter of every "word"; words are
	// separated by non-letters (digits do not separate).
	prev := ' '
	return strings.Map(func(r rune) rune {
		out := r
		if !(unicode.IsLetter(prev) || unicode.IsDigit(prev) || prev == '_' || prev == '\'') {
			out = unicode.ToTitle(r)
		}
		prev = r
		return out
	}, s)
}

func pascalCase(allowAllCaps bool, words []string) string {
	out := make([]string, len(words))
	for i, chunk := range words {
		if chunk == "" {
			continue
		}
		up := strings.ToUpper(chunk)
		if Initialisms[up] {
			out[i] = up
			continue
		}
		if isAllCaps(chunk) && !allowAllCaps {
			out[i] = titleLower(chunk)
			continue
		}
		head, n := utf8.DecodeRuneInString(chunk)
		out[i] = string(unicode.ToUpper(head)) + chunk[n:]
	}
	return strings.Join(out, "")
}

// GoCase is the exported Go identifier for a Thrift name.
func GoCase(s string) string {
	words := strings.Split(s, "_")
	return pascalCase(len(words) == 1, words)
}

// ConstName is the Go identifier of a constant (and the suffix of enum items).
func ConstName(s string) string { return pascalCase(false, strings.Split(s, "_")) }

// GoNameOf returns the go.name annotation if present, else GoCase(name).
func GoNameOf(ann, name string) string {
	if ann != "" {
		return ann
	}
	return GoCase(name)
}

func (d *Def) Go() string { return GoNameOf(d.GoName, d.Name) }

func (f *Field) Go() string { return GoNameOf(f.GoName, f.Name) }

// LabelOf: go.label if non-empty, else the Thrift name.
func (f *Field) LabelOf() string {
	if f.Label != "" {
		return f.Label
	}
	return f.Name
}

func (it *EnumItem) LabelOf() string {
	if it.Label != "" {
		return it.Label
	}
	return it.Name
}

// ItemGo is the Go constant name of an enum item.
func (d *Def) ItemGo(it *EnumItem) string {
	if it.GoName != "" {
		return d.Go() + it.GoName
	}
	return d.Go() + ConstName(it.Name)
}

func (c *Constant) Go() string { return ConstName(c.Name) }

// FuncPrefix is the prefix of the generated Args/Result/Helper names.
func FuncPrefix(s *Service, f *Func) string { return GoCase(s.Name) + "_" + GoCase(f.Name) + "_" }

// ValidGoNameAnnotation mirrors the go.name validity rule: capitalised letter
// first, no underscores.
func ValidGoNameAnnotation(name string) bool {
	c, _ := utf8.DecodeRuneInString(name)
	return unicode.IsLetter(c) && unicode.IsUpper(c) && !strings.Contains(name, "_")
}
