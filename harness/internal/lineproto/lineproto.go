// Package lineproto pipes operation lines to a Lean driver and returns its answers.
package lineproto

import (
	"bufio"
	"bytes"
	"fmt"
	"os/exec"
	"strings"
)

// Run feeds ops (one per line) to the driver binary and returns one answer per op.
func Run(driver string, ops []string) ([]string, error) {
	var in bytes.Buffer
	for _, o := range ops {
		if strings.ContainsAny(o, "\n\r") {
			return nil, fmt.Errorf("op contains newline")
		}
		in.WriteString(o)
		in.WriteByte('\n')
	}
	cmd := exec.Command(driver)
	cmd.Stdin = &in
	var out, errb bytes.Buffer
	cmd.Stdout = &out
	cmd.Stderr = &errb
	if err := cmd.Run(); err != nil {
		return nil, fmt.Errorf("driver %s: %v: %s", driver, err, errb.String())
	}
	var res []string
	sc := bufio.NewScanner(&out)
	sc.Buffer(make([]byte, 1<<20), 1<<30)
	for sc.Scan() {
		res = append(res, sc.Text())
	}
	if len(res) != len(ops) {
		return nil, fmt.Errorf("driver answered %d lines for %d ops: %s", len(res), len(ops), errb.String())
	}
	return res, nil
}
