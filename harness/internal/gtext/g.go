package gtext

import (
	"encoding/hex"
	"fmt"
	"sort"
	"strconv"
	"strings"
)

// GKind of a Go-level value.
type GKind byte

const (
	GNil    GKind = 'n'
	GBool   GKind = 'b'
	GI8     GKind = '1'
	GI16    GKind = '2'
	GI32    GKind = '4'
	GI64    GKind = '8'
	GDouble GKind = 'd'
	GStr    GKind = 's'
	GBin    GKind = 'x'
	GList   GKind = 'L'
	GSet    GKind = 'S'
	GMap    GKind = 'M'
	GStruct GKind = 'R'
)

// G is a Go-level value (SCHEMA_PROTOCOL.md "G").
type G struct {
	K     GKind
	U     uint64 // scalar bit pattern
	B     []byte // string / binary payload
	H     bool   // set/map: backed by a Go map
	Items []*G   // list/set elements; map k0,v0,k1,v1…; struct fields
}

func Nil() *G                     { return &G{K: GNil} }
func Bool(b bool) *G              { return &G{K: GBool, U: b2u(b)} }
func Str(b []byte) *G             { return &G{K: GStr, B: b} }
func Bin(b []byte) *G             { return &G{K: GBin, B: b} }
func Scalar(k GKind, u uint64) *G { return &G{K: k, U: u} }

func b2u(b bool) uint64 {
	if b {
		return 1
	}
	return 0
}

func (g *G) IsNil() bool { return g == nil || g.K == GNil }

// Clone makes a deep copy.
func (g *G) Clone() *G {
	if g == nil {
		return nil
	}
	c := *g
	if g.B != nil {
		c.B = append([]byte{}, g.B...)
	}
	if g.Items != nil {
		c.Items = make([]*G, len(g.Items))
		for i, it := range g.Items {
			c.Items[i] = it.Clone()
		}
	}
	return &c
}

// Text is the token text; Go-map backed sets/maps are printed sorted by
// (key) token text so that equal Go values have equal text.
func (g *G) Text() string {
	var sb strings.Builder
	g.write(&sb)
	return sb.String()
}

func (g *G) write(sb *strings.Builder) {
	switch g.K {
	case GNil:
		sb.WriteString("nil")
	case GBool:
		if g.U != 0 {
			sb.WriteString("b1")
		} else {
			sb.WriteString("b0")
		}
	case GI8:
		sb.WriteString("i8:" + strconv.FormatUint(g.U&0xff, 10))
	case GI16:
		sb.WriteString("i16:" + strconv.FormatUint(g.U&0xffff, 10))
	case GI32:
		sb.WriteString("i32:" + strconv.FormatUint(g.U&0xffffffff, 10))
	case GI64:
		sb.WriteString("i64:" + strconv.FormatUint(g.U, 10))
	case GDouble:
		sb.WriteString("d:" + strconv.FormatUint(g.U, 10))
	case GStr:
		sb.WriteString("s:" + hex.EncodeToString(g.B))
	case GBin:
		sb.WriteString("x:" + hex.EncodeToString(g.B))
	case GList, GStruct:
		sb.WriteByte(byte(g.K))
		sb.WriteByte(' ')
		sb.WriteString(strconv.Itoa(len(g.Items)))
		for _, it := range g.Items {
			sb.WriteByte(' ')
			it.write(sb)
		}
	case GSet:
		sb.WriteString("S ")
		sb.WriteString(h01(g.H))
		sb.WriteByte(' ')
		sb.WriteString(strconv.Itoa(len(g.Items)))
		if g.H {
			ts := make([]string, len(g.Items))
			for i, it := range g.Items {
				ts[i] = it.Text()
			}
			sort.Strings(ts)
			for _, t := range ts {
				sb.WriteByte(' ')
				sb.WriteString(t)
			}
		} else {
			for _, it := range g.Items {
				sb.WriteByte(' ')
				it.write(sb)
			}
		}
	case GMap:
		sb.WriteString("M ")
		sb.WriteString(h01(g.H))
		sb.WriteByte(' ')
		sb.WriteString(strconv.Itoa(len(g.Items) / 2))
		if g.H {
			type kv struct{ k, v string }
			ts := make([]kv, len(g.Items)/2)
			for i := range ts {
				ts[i] = kv{g.Items[2*i].Text(), g.Items[2*i+1].Text()}
			}
			sort.SliceStable(ts, func(i, j int) bool { return ts[i].k < ts[j].k })
			for _, t := range ts {
				sb.WriteByte(' ')
				sb.WriteString(t.k)
				sb.WriteByte(' ')
				sb.WriteString(t.v)
			}
		} else {
			for _, it := range g.Items {
				sb.WriteByte(' ')
				it.write(sb)
			}
		}
	default:
		sb.WriteString("?")
	}
}

func h01(h bool) string {
	if h {
		return "1"
	}
	return "0"
}

// ParseG reads one value from the token stream.
func ParseG(toks []string) (*G, []string, error) {
	if len(toks) == 0 {
		return nil, nil, fmt.Errorf("G: eof")
	}
	tok, rest := toks[0], toks[1:]
	num := func(s string, bits int) (uint64, error) { return strconv.ParseUint(s, 10, bits) }
	count := func(s string) (int, error) {
		n, err := strconv.Atoi(s)
		if err != nil || n < 0 || n > len(toks) {
			return 0, fmt.Errorf("G: bad count %q", s)
		}
		return n, nil
	}
	switch {
	case tok == "nil":
		return Nil(), rest, nil
	case tok == "b0":
		return Bool(false), rest, nil
	case tok == "b1":
		return Bool(true), rest, nil
	case strings.HasPrefix(tok, "i8:"):
		n, err := num(tok[3:], 8)
		return &G{K: GI8, U: n}, rest, err
	case strings.HasPrefix(tok, "i16:"):
		n, err := num(tok[4:], 16)
		return &G{K: GI16, U: n}, rest, err
	case strings.HasPrefix(tok, "i32:"):
		n, err := num(tok[4:], 32)
		return &G{K: GI32, U: n}, rest, err
	case strings.HasPrefix(tok, "i64:"):
		n, err := num(tok[4:], 64)
		return &G{K: GI64, U: n}, rest, err
	case strings.HasPrefix(tok, "d:"):
		n, err := num(tok[2:], 64)
		return &G{K: GDouble, U: n}, rest, err
	case strings.HasPrefix(tok, "s:"):
		b, err := hex.DecodeString(tok[2:])
		if b == nil {
			b = []byte{}
		}
		return &G{K: GStr, B: b}, rest, err
	case strings.HasPrefix(tok, "x:"):
		b, err := hex.DecodeString(tok[2:])
		if b == nil {
			b = []byte{}
		}
		return &G{K: GBin, B: b}, rest, err
	case tok == "L" || tok == "R":
		if len(rest) < 1 {
			return nil, nil, fmt.Errorf("G: short")
		}
		n, err := count(rest[0])
		if err != nil {
			return nil, nil, err
		}
		g := &G{K: GKind(tok[0]), Items: make([]*G, 0, n)}
		rest = rest[1:]
		for i := 0; i < n; i++ {
			var it *G
			it, rest, err = ParseG(rest)
			if err != nil {
				return nil, nil, err
			}
			g.Items = append(g.Items, it)
		}
		return g, rest, nil
	case tok == "S" || tok == "M":
		if len(rest) < 2 || (rest[0] != "0" && rest[0] != "1") {
			return nil, nil, fmt.Errorf("G: bad set/map header")
		}
		n, err := count(rest[1])
		if err != nil {
			return nil, nil, err
		}
		g := &G{K: GKind(tok[0]), H: rest[0] == "1"}
		if tok == "M" {
			n *= 2
		}
		g.Items = make([]*G, 0, n)
		rest = rest[2:]
		for i := 0; i < n; i++ {
			var it *G
			it, rest, err = ParseG(rest)
			if err != nil {
				return nil, nil, err
			}
			g.Items = append(g.Items, it)
		}
		return g, rest, nil
	}
	return nil, nil, fmt.Errorf("G: bad token %q", tok)
}

// ParseGText parses a complete G text.
func ParseGText(s string) (*G, error) {
	g, rest, err := ParseG(strings.Fields(s))
	if err != nil {
		return nil, err
	}
	if len(rest) != 0 {
		return nil, fmt.Errorf("G: trailing tokens")
	}
	return g, nil
}

// Nodes counts value nodes.
func (g *G) Nodes() int {
	n := 1
	for _, it := range g.Items {
		n += it.Nodes()
	}
	return n
}
