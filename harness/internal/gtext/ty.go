// Package gtext holds the text forms of SCHEMA_PROTOCOL.md: resolved types (T),
// Go-level values (G) and schema definitions. It depends on the standard
// library only; it is used by the harness (cmd/gencheck) and is copied verbatim
// into the scratch module of every generated program, where the value driver
// (package govalue) uses it.
package gtext

import (
	"fmt"
	"strings"
)

// Kind of a resolved type.
type Kind int

const (
	KBool Kind = iota
	KI8
	KI16
	KI32
	KI64
	KDouble
	KString
	KBinary
	KEnum
	KList
	KSet  // set backed by a Go map when the element is hashable, else slice
	KSSet // set annotated go.type = "slice"
	KMap
	KStruct
	KTypedef
)

// T is a resolved Thrift type.
type T struct {
	K    Kind
	Name string // enum / struct / typedef name
	Elem *T     // list, set, sset element; map value; typedef target
	Key  *T     // map key
}

var baseNames = map[string]Kind{
	"bool": KBool, "i8": KI8, "i16": KI16, "i32": KI32, "i64": KI64,
	"double": KDouble, "string": KString, "binary": KBinary,
}

var kindNames = map[Kind]string{
	KBool: "bool", KI8: "i8", KI16: "i16", KI32: "i32", KI64: "i64",
	KDouble: "double", KString: "string", KBinary: "binary",
	KList: "list", KSet: "set", KSSet: "sset", KMap: "map",
}

// Base returns the primitive type of the given kind.
func Base(k Kind) *T { return &T{K: k} }

// Tokens appends the token sequence of t.
func (t *T) Tokens(out []string) []string {
	switch t.K {
	case KEnum:
		return append(out, "enum:"+t.Name)
	case KStruct:
		return append(out, "struct:"+t.Name)
	case KTypedef:
		out = append(out, "typedef:"+t.Name)
		return t.Elem.Tokens(out)
	case KList, KSet, KSSet:
		out = append(out, kindNames[t.K])
		return t.Elem.Tokens(out)
	case KMap:
		out = append(out, "map")
		out = t.Key.Tokens(out)
		return t.Elem.Tokens(out)
	}
	return append(out, kindNames[t.K])
}

func (t *T) Text() string { return strings.Join(t.Tokens(nil), " ") }

// ParseT reads one type from the token stream.
func ParseT(toks []string) (*T, []string, error) {
	if len(toks) == 0 {
		return nil, nil, fmt.Errorf("type: eof")
	}
	tok, rest := toks[0], toks[1:]
	if k, ok := baseNames[tok]; ok {
		return &T{K: k}, rest, nil
	}
	switch {
	case tok == "list" || tok == "set" || tok == "sset":
		e, r, err := ParseT(rest)
		if err != nil {
			return nil, nil, err
		}
		k := KList
		if tok == "set" {
			k = KSet
		} else if tok == "sset" {
			k = KSSet
		}
		return &T{K: k, Elem: e}, r, nil
	case tok == "map":
		k, r, err := ParseT(rest)
		if err != nil {
			return nil, nil, err
		}
		v, r2, err := ParseT(r)
		if err != nil {
			return nil, nil, err
		}
		return &T{K: KMap, Key: k, Elem: v}, r2, nil
	case strings.HasPrefix(tok, "enum:"):
		return &T{K: KEnum, Name: tok[5:]}, rest, nil
	case strings.HasPrefix(tok, "struct:"):
		return &T{K: KStruct, Name: tok[7:]}, rest, nil
	case strings.HasPrefix(tok, "typedef:"):
		e, r, err := ParseT(rest)
		if err != nil {
			return nil, nil, err
		}
		return &T{K: KTypedef, Name: tok[8:], Elem: e}, r, nil
	}
	return nil, nil, fmt.Errorf("type: bad token %q", tok)
}

// Root strips typedefs.
func (t *T) Root() *T {
	for t.K == KTypedef {
		t = t.Elem
	}
	return t
}

// IsPrim mirrors thriftrw's isPrimitiveType: bool, ints, double, string, enum
// and typedefs of those (binary is not primitive).
func (t *T) IsPrim() bool {
	switch t.Root().K {
	case KBool, KI8, KI16, KI32, KI64, KDouble, KString, KEnum:
		return true
	}
	return false
}

func (t *T) IsList() bool { return t.Root().K == KList }

// IsRef mirrors isReferenceType: binary and containers.
func (t *T) IsRef() bool {
	switch t.Root().K {
	case KBinary, KList, KSet, KSSet, KMap:
		return true
	}
	return false
}

func (t *T) IsStruct() bool { return t.Root().K == KStruct }

// Code is the wire type code of the root type.
func (t *T) Code() byte {
	switch t.Root().K {
	case KBool:
		return 2
	case KI8:
		return 3
	case KDouble:
		return 4
	case KI16:
		return 6
	case KI32, KEnum:
		return 8
	case KI64:
		return 10
	case KString, KBinary:
		return 11
	case KStruct:
		return 12
	case KMap:
		return 13
	case KSet, KSSet:
		return 14
	case KList:
		return 15
	}
	return 0
}

// SetHashed says whether a set of this (root) type is a Go map.
func (t *T) SetHashed() bool {
	r := t.Root()
	return r.K == KSet && r.Elem.IsPrim()
}

// MapHashed says whether a map of this (root) type is a Go map.
func (t *T) MapHashed() bool {
	r := t.Root()
	return r.K == KMap && r.Key.IsPrim()
}

// Walk visits t and every type nested in it (typedef targets included).
func (t *T) Walk(f func(*T)) {
	f(t)
	if t.Key != nil {
		t.Key.Walk(f)
	}
	if t.Elem != nil {
		t.Elem.Walk(f)
	}
}

// Shape is a coarse description used for histograms.
func (t *T) Shape() string {
	switch t.K {
	case KTypedef:
		return "td(" + t.Elem.Shape() + ")"
	case KList:
		return "list<" + t.Elem.Shape() + ">"
	case KSet:
		return "set<" + t.Elem.Shape() + ">"
	case KSSet:
		return "sset<" + t.Elem.Shape() + ">"
	case KMap:
		return "map<" + t.Key.Shape() + "," + t.Elem.Shape() + ">"
	case KEnum:
		return "enum"
	case KStruct:
		return "struct"
	}
	return kindNames[t.K]
}
