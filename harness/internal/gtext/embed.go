package gtext

import "embed"

// Source holds this package's source files (see govalue.Source).
//
//go:embed *.go
var Source embed.FS
