package gtext

import (
	"fmt"
	"strconv"
	"strings"
)

// EnumItem is one item of an enum definition.
type EnumItem struct {
	Name  string
	Value int32
}

type EnumDef struct {
	Name  string
	Items []EnumItem
}

// FieldDef is one field of a struct definition line.
type FieldDef struct {
	ID     int16
	GoName string
	Label  string
	Req    bool // effective requiredness (required and no default)
	Redact bool
	NoLog  bool
	Def    *G // nil when there is no default
	T      *T
}

type StructDef struct {
	Name   string
	Kind   string // struct union uniona exception args result resultv
	Fields []*FieldDef
}

// Arity: 1 = exactly one field, 2 = at most one, 0 = no rule.
func (s *StructDef) Arity() int {
	switch s.Kind {
	case "union", "result":
		return 1
	case "uniona", "resultv":
		return 2
	}
	return 0
}

func (s *StructDef) HasDefaults() bool {
	for _, f := range s.Fields {
		if f.Def != nil {
			return true
		}
	}
	return false
}

// Env is a set of definitions.
type Env struct {
	Enums   map[string]*EnumDef
	Structs map[string]*StructDef
	Order   []string // definition lines in arrival order
}

func NewEnv() *Env {
	return &Env{Enums: map[string]*EnumDef{}, Structs: map[string]*StructDef{}}
}

// Line renders the definition line of an enum.
func (e *EnumDef) Line() string {
	var sb strings.Builder
	fmt.Fprintf(&sb, "enum %s %d", e.Name, len(e.Items))
	for _, it := range e.Items {
		fmt.Fprintf(&sb, " %s %d", it.Name, uint32(it.Value))
	}
	return sb.String()
}

// Line renders the definition line of a struct.
func (s *StructDef) Line() string {
	var sb strings.Builder
	fmt.Fprintf(&sb, "struct %s %s %d", s.Name, s.Kind, len(s.Fields))
	for _, f := range s.Fields {
		fmt.Fprintf(&sb, " %d %s %s %s %s %s", uint16(f.ID), f.GoName, f.Label, h01(f.Req), h01(f.Redact), h01(f.NoLog))
		if f.Def != nil {
			sb.WriteString(" def " + f.Def.Text())
		} else {
			sb.WriteString(" nodef")
		}
		sb.WriteString(" " + f.T.Text())
	}
	return sb.String()
}

// Define parses an `enum …` or `struct …` line into the environment.
func (env *Env) Define(toks []string) error {
	if len(toks) < 3 {
		return fmt.Errorf("short definition")
	}
	switch toks[0] {
	case "enum":
		n, err := strconv.Atoi(toks[2])
		if err != nil || n < 0 || len(toks) != 3+2*n {
			return fmt.Errorf("bad enum definition")
		}
		e := &EnumDef{Name: toks[1]}
		for i := 0; i < n; i++ {
			v, err := strconv.ParseUint(toks[4+2*i], 10, 32)
			if err != nil {
				return err
			}
			e.Items = append(e.Items, EnumItem{Name: toks[3+2*i], Value: int32(uint32(v))})
		}
		env.Enums[e.Name] = e
		return nil
	case "struct":
		if len(toks) < 4 {
			return fmt.Errorf("short struct definition")
		}
		n, err := strconv.Atoi(toks[3])
		if err != nil || n < 0 {
			return fmt.Errorf("bad field count")
		}
		switch toks[2] {
		case "struct", "union", "uniona", "exception", "args", "result", "resultv":
		default:
			return fmt.Errorf("bad kind %q", toks[2])
		}
		s := &StructDef{Name: toks[1], Kind: toks[2]}
		rest := toks[4:]
		for i := 0; i < n; i++ {
			if len(rest) < 7 {
				return fmt.Errorf("short field")
			}
			id, err := strconv.ParseUint(rest[0], 10, 16)
			if err != nil {
				return err
			}
			f := &FieldDef{ID: int16(uint16(id)), GoName: rest[1], Label: rest[2],
				Req: rest[3] == "1", Redact: rest[4] == "1", NoLog: rest[5] == "1"}
			d := rest[6]
			rest = rest[7:]
			switch d {
			case "nodef":
			case "def":
				f.Def, rest, err = ParseG(rest)
				if err != nil {
					return err
				}
			default:
				return fmt.Errorf("bad default marker %q", d)
			}
			f.T, rest, err = ParseT(rest)
			if err != nil {
				return err
			}
			s.Fields = append(s.Fields, f)
		}
		if len(rest) != 0 {
			return fmt.Errorf("trailing tokens in struct definition")
		}
		env.Structs[s.Name] = s
		return nil
	}
	return fmt.Errorf("not a definition")
}

// AddEnum / AddStruct register definitions built in Go.
func (env *Env) AddEnum(e *EnumDef) { env.Enums[e.Name] = e; env.Order = append(env.Order, e.Line()) }
func (env *Env) AddStruct(s *StructDef) {
	env.Structs[s.Name] = s
	env.Order = append(env.Order, s.Line())
}
