// Package wv is the harness's own representation of a Thrift wire value. It
// mirrors the Lean model's WValue (raw container element type bytes, scalars as
// bit patterns) and shares the line-protocol text form with the Lean drivers.
package wv

import (
	"encoding/hex"
	"fmt"
	"math"
	"strconv"
	"strings"

	"go.uber.org/thriftrw/wire"
)

const (
	TBool   = 2
	TI8     = 3
	TDouble = 4
	TI16    = 6
	TI32    = 8
	TI64    = 10
	TBinary = 11
	TStruct = 12
	TMap    = 13
	TSet    = 14
	TList   = 15
)

var AllTypes = []byte{TBool, TI8, TDouble, TI16, TI32, TI64, TBinary, TStruct, TMap, TSet, TList}

type Field struct {
	ID uint16
	V  *V
}

type V struct {
	T      byte   // wire type code of this value
	U      uint64 // scalar bit pattern (bool: 0/1)
	Bin    []byte
	Fields []Field
	KT, ET byte // map key type / (map value | list | set element) type
	Items  []*V // list/set items; map: k0,v0,k1,v1,...
}

// Text is the line-protocol form (see lean/ThriftVerif/Wire/Text.lean).
func (v *V) Text() string {
	var sb strings.Builder
	v.text(&sb)
	return sb.String()
}

func (v *V) text(sb *strings.Builder) {
	if sb.Len() > 0 {
		sb.WriteByte(' ')
	}
	switch v.T {
	case TBool:
		if v.U != 0 {
			sb.WriteString("b1")
		} else {
			sb.WriteString("b0")
		}
	case TI8:
		fmt.Fprintf(sb, "i8:%d", v.U&0xff)
	case TI16:
		fmt.Fprintf(sb, "i16:%d", v.U&0xffff)
	case TI32:
		fmt.Fprintf(sb, "i32:%d", v.U&0xffffffff)
	case TI64:
		fmt.Fprintf(sb, "i64:%d", v.U)
	case TDouble:
		fmt.Fprintf(sb, "d:%d", v.U)
	case TBinary:
		sb.WriteString("x:" + hex.EncodeToString(v.Bin))
	case TStruct:
		fmt.Fprintf(sb, "s %d", len(v.Fields))
		for _, f := range v.Fields {
			fmt.Fprintf(sb, " %d", f.ID)
			f.V.text(sb)
		}
	case TMap:
		fmt.Fprintf(sb, "m %d %d %d", v.KT, v.ET, len(v.Items)/2)
		for _, it := range v.Items {
			it.text(sb)
		}
	case TSet:
		fmt.Fprintf(sb, "t %d %d", v.ET, len(v.Items))
		for _, it := range v.Items {
			it.text(sb)
		}
	case TList:
		fmt.Fprintf(sb, "l %d %d", v.ET, len(v.Items))
		for _, it := range v.Items {
			it.text(sb)
		}
	default:
		fmt.Fprintf(sb, "?%d", v.T)
	}
}

// Parse reads the text form back.
func Parse(s string) (*V, error) {
	toks := strings.Fields(s)
	v, rest, err := parse(toks)
	if err != nil {
		return nil, err
	}
	if len(rest) != 0 {
		return nil, fmt.Errorf("trailing tokens")
	}
	return v, nil
}

func parse(toks []string) (*V, []string, error) {
	if len(toks) == 0 {
		return nil, nil, fmt.Errorf("eof")
	}
	t := toks[0]
	num := func(s string) (uint64, error) { return strconv.ParseUint(s, 10, 64) }
	switch {
	case t == "b0":
		return &V{T: TBool}, toks[1:], nil
	case t == "b1":
		return &V{T: TBool, U: 1}, toks[1:], nil
	case strings.HasPrefix(t, "i8:"):
		n, err := num(t[3:])
		return &V{T: TI8, U: n}, toks[1:], err
	case strings.HasPrefix(t, "i16:"):
		n, err := num(t[4:])
		return &V{T: TI16, U: n}, toks[1:], err
	case strings.HasPrefix(t, "i32:"):
		n, err := num(t[4:])
		return &V{T: TI32, U: n}, toks[1:], err
	case strings.HasPrefix(t, "i64:"):
		n, err := num(t[4:])
		return &V{T: TI64, U: n}, toks[1:], err
	case strings.HasPrefix(t, "d:"):
		n, err := num(t[2:])
		return &V{T: TDouble, U: n}, toks[1:], err
	case strings.HasPrefix(t, "x:"):
		b, err := hex.DecodeString(t[2:])
		return &V{T: TBinary, Bin: b}, toks[1:], err
	case t == "s":
		if len(toks) < 2 {
			return nil, nil, fmt.Errorf("short")
		}
		n, err := num(toks[1])
		if err != nil {
			return nil, nil, err
		}
		v := &V{T: TStruct}
		rest := toks[2:]
		for i := uint64(0); i < n; i++ {
			if len(rest) == 0 {
				return nil, nil, fmt.Errorf("short")
			}
			id, err := num(rest[0])
			if err != nil {
				return nil, nil, err
			}
			var fv *V
			fv, rest, err = parse(rest[1:])
			if err != nil {
				return nil, nil, err
			}
			v.Fields = append(v.Fields, Field{ID: uint16(id), V: fv})
		}
		return v, rest, nil
	case t == "m":
		if len(toks) < 4 {
			return nil, nil, fmt.Errorf("short")
		}
		kt, e1 := num(toks[1])
		vt, e2 := num(toks[2])
		n, e3 := num(toks[3])
		if e1 != nil || e2 != nil || e3 != nil {
			return nil, nil, fmt.Errorf("bad map header")
		}
		v := &V{T: TMap, KT: byte(kt), ET: byte(vt)}
		rest := toks[4:]
		for i := uint64(0); i < 2*n; i++ {
			var it *V
			var err error
			it, rest, err = parse(rest)
			if err != nil {
				return nil, nil, err
			}
			v.Items = append(v.Items, it)
		}
		return v, rest, nil
	case t == "t" || t == "l":
		if len(toks) < 3 {
			return nil, nil, fmt.Errorf("short")
		}
		et, e1 := num(toks[1])
		n, e2 := num(toks[2])
		if e1 != nil || e2 != nil {
			return nil, nil, fmt.Errorf("bad list header")
		}
		v := &V{T: TList, ET: byte(et)}
		if t == "t" {
			v.T = TSet
		}
		rest := toks[3:]
		for i := uint64(0); i < n; i++ {
			var it *V
			var err error
			it, rest, err = parse(rest)
			if err != nil {
				return nil, nil, err
			}
			v.Items = append(v.Items, it)
		}
		return v, rest, nil
	}
	return nil, nil, fmt.Errorf("bad token %q", t)
}

// ToWire converts to thriftrw's wire.Value (slice-backed containers).
func (v *V) ToWire() wire.Value {
	switch v.T {
	case TBool:
		return wire.NewValueBool(v.U != 0)
	case TI8:
		return wire.NewValueI8(int8(v.U))
	case TI16:
		return wire.NewValueI16(int16(v.U))
	case TI32:
		return wire.NewValueI32(int32(v.U))
	case TI64:
		return wire.NewValueI64(int64(v.U))
	case TDouble:
		return wire.NewValueDouble(math.Float64frombits(v.U))
	case TBinary:
		return wire.NewValueBinary(v.Bin)
	case TStruct:
		fs := make([]wire.Field, len(v.Fields))
		for i, f := range v.Fields {
			fs[i] = wire.Field{ID: int16(f.ID), Value: f.V.ToWire()}
		}
		return wire.NewValueStruct(wire.Struct{Fields: fs})
	case TMap:
		items := make([]wire.MapItem, len(v.Items)/2)
		for i := range items {
			items[i] = wire.MapItem{Key: v.Items[2*i].ToWire(), Value: v.Items[2*i+1].ToWire()}
		}
		return wire.NewValueMap(wire.MapItemListFromSlice(wire.Type(v.KT), wire.Type(v.ET), items))
	case TSet, TList:
		items := make([]wire.Value, len(v.Items))
		for i := range items {
			items[i] = v.Items[i].ToWire()
		}
		l := wire.ValueListFromSlice(wire.Type(v.ET), items)
		if v.T == TSet {
			return wire.NewValueSet(l)
		}
		return wire.NewValueList(l)
	}
	panic("wv: bad type")
}

// FromWire makes an eager deep copy of a (possibly lazy) wire.Value, forcing every
// lazy container exactly once, in one ForEach pass per container. Errors from
// ForEach (decode errors surfacing late) are returned.
func FromWire(w wire.Value) (*V, error) {
	switch w.Type() {
	case wire.TBool:
		if w.GetBool() {
			return &V{T: TBool, U: 1}, nil
		}
		return &V{T: TBool}, nil
	case wire.TI8:
		return &V{T: TI8, U: uint64(uint8(w.GetI8()))}, nil
	case wire.TI16:
		return &V{T: TI16, U: uint64(uint16(w.GetI16()))}, nil
	case wire.TI32:
		return &V{T: TI32, U: uint64(uint32(w.GetI32()))}, nil
	case wire.TI64:
		return &V{T: TI64, U: uint64(w.GetI64())}, nil
	case wire.TDouble:
		return &V{T: TDouble, U: math.Float64bits(w.GetDouble())}, nil
	case wire.TBinary:
		return &V{T: TBinary, Bin: append([]byte{}, w.GetBinary()...)}, nil
	case wire.TStruct:
		v := &V{T: TStruct}
		for _, f := range w.GetStruct().Fields {
			fv, err := FromWire(f.Value)
			if err != nil {
				return nil, err
			}
			v.Fields = append(v.Fields, Field{ID: uint16(f.ID), V: fv})
		}
		return v, nil
	case wire.TMap:
		m := w.GetMap()
		v := &V{T: TMap, KT: byte(m.KeyType()), ET: byte(m.ValueType())}
		err := m.ForEach(func(it wire.MapItem) error {
			k, err := FromWire(it.Key)
			if err != nil {
				return err
			}
			x, err := FromWire(it.Value)
			if err != nil {
				return err
			}
			v.Items = append(v.Items, k, x)
			return nil
		})
		if err != nil {
			return nil, err
		}
		if len(v.Items)/2 != m.Size() {
			return nil, fmt.Errorf("map size mismatch")
		}
		return v, nil
	case wire.TSet, wire.TList:
		var l wire.ValueList
		v := &V{T: TList}
		if w.Type() == wire.TSet {
			l = w.GetSet()
			v.T = TSet
		} else {
			l = w.GetList()
		}
		v.ET = byte(l.ValueType())
		err := l.ForEach(func(x wire.Value) error {
			xv, err := FromWire(x)
			if err != nil {
				return err
			}
			v.Items = append(v.Items, xv)
			return nil
		})
		if err != nil {
			return nil, err
		}
		if len(v.Items) != l.Size() {
			return nil, fmt.Errorf("list size mismatch")
		}
		return v, nil
	}
	return nil, fmt.Errorf("unknown wire type %d", w.Type())
}

// Nodes counts value nodes.
func (v *V) Nodes() int {
	n := 1
	for _, f := range v.Fields {
		n += f.V.Nodes()
	}
	for _, it := range v.Items {
		n += it.Nodes()
	}
	return n
}

// Depth is the nesting depth.
func (v *V) Depth() int {
	d := 0
	for _, f := range v.Fields {
		if x := f.V.Depth(); x > d {
			d = x
		}
	}
	for _, it := range v.Items {
		if x := it.Depth(); x > d {
			d = x
		}
	}
	return d + 1
}
