package wv

import (
	"fmt"
	"math"
	"sync/atomic"
	"unsafe"

	"go.uber.org/thriftrw/protocol/stream"
	"go.uber.org/thriftrw/wire"
)

// WriteStream emits v through the stream.Writer call sequence that generated
// code would use (including the no-op Begin/End calls).
func (v *V) WriteStream(w stream.Writer) error {
	switch v.T {
	case TBool:
		return w.WriteBool(v.U != 0)
	case TI8:
		return w.WriteInt8(int8(v.U))
	case TI16:
		return w.WriteInt16(int16(v.U))
	case TI32:
		return w.WriteInt32(int32(v.U))
	case TI64:
		return w.WriteInt64(int64(v.U))
	case TDouble:
		return w.WriteDouble(math.Float64frombits(v.U))
	case TBinary:
		return w.WriteBinary(v.Bin)
	case TStruct:
		if err := w.WriteStructBegin(); err != nil {
			return err
		}
		for _, f := range v.Fields {
			if err := w.WriteFieldBegin(stream.FieldHeader{ID: int16(f.ID), Type: wire.Type(f.V.T)}); err != nil {
				return err
			}
			if err := f.V.WriteStream(w); err != nil {
				return err
			}
			if err := w.WriteFieldEnd(); err != nil {
				return err
			}
		}
		return w.WriteStructEnd()
	case TMap:
		if err := w.WriteMapBegin(stream.MapHeader{KeyType: wire.Type(v.KT), ValueType: wire.Type(v.ET), Length: len(v.Items) / 2}); err != nil {
			return err
		}
		for _, it := range v.Items {
			if err := it.WriteStream(w); err != nil {
				return err
			}
		}
		return w.WriteMapEnd()
	case TSet:
		if err := w.WriteSetBegin(stream.SetHeader{Type: wire.Type(v.ET), Length: len(v.Items)}); err != nil {
			return err
		}
		for _, it := range v.Items {
			if err := it.WriteStream(w); err != nil {
				return err
			}
		}
		return w.WriteSetEnd()
	case TList:
		if err := w.WriteListBegin(stream.ListHeader{Type: wire.Type(v.ET), Length: len(v.Items)}); err != nil {
			return err
		}
		for _, it := range v.Items {
			if err := it.WriteStream(w); err != nil {
				return err
			}
		}
		return w.WriteListEnd()
	}
	return fmt.Errorf("bad type %d", v.T)
}

// ReadStream is a schema-less reader built only from stream.Reader primitives
// (what generated Decode methods are made of).
var readAlt atomic.Uint32

func ReadStream(r stream.Reader, t byte) (*V, error) {
	switch t {
	case TBool:
		b, err := r.ReadBool()
		if err != nil {
			return nil, err
		}
		if b {
			return &V{T: TBool, U: 1}, nil
		}
		return &V{T: TBool}, nil
	case TI8:
		x, err := r.ReadInt8()
		return &V{T: TI8, U: uint64(uint8(x))}, err
	case TI16:
		x, err := r.ReadInt16()
		return &V{T: TI16, U: uint64(uint16(x))}, err
	case TI32:
		x, err := r.ReadInt32()
		return &V{T: TI32, U: uint64(uint32(x))}, err
	case TI64:
		x, err := r.ReadInt64()
		return &V{T: TI64, U: uint64(x)}, err
	case TDouble:
		x, err := r.ReadDouble()
		return &V{T: TDouble, U: math.Float64bits(x)}, err
	case TBinary:
		// keep the returned slice as generated code does (no defensive copy): a reader that
		// hands out aliased storage is then visible when the value is dumped at the end
		// every other read goes through ReadString (the call generated code makes for string
		// fields, map keys and elements): same bytes on the wire, a separate code path
		if readAlt.Add(1)%2 == 0 {
			s, err := r.ReadString()
			if len(s) == 0 {
				return &V{T: TBinary, Bin: []byte{}}, err
			}
			// no copy here either: look at the string's own bytes when the value is dumped
			return &V{T: TBinary, Bin: unsafe.Slice(unsafe.StringData(s), len(s))}, err
		}
		x, err := r.ReadBinary()
		return &V{T: TBinary, Bin: x}, err
	case TStruct:
		if err := r.ReadStructBegin(); err != nil {
			return nil, err
		}
		v := &V{T: TStruct}
		fh, ok, err := r.ReadFieldBegin()
		if err != nil {
			return nil, err
		}
		for ok {
			fv, err := ReadStream(r, byte(fh.Type))
			if err != nil {
				return nil, err
			}
			v.Fields = append(v.Fields, Field{ID: uint16(fh.ID), V: fv})
			if err := r.ReadFieldEnd(); err != nil {
				return nil, err
			}
			if fh, ok, err = r.ReadFieldBegin(); err != nil {
				return nil, err
			}
		}
		return v, r.ReadStructEnd()
	case TMap:
		mh, err := r.ReadMapBegin()
		if err != nil {
			return nil, err
		}
		v := &V{T: TMap, KT: byte(mh.KeyType), ET: byte(mh.ValueType)}
		for i := 0; i < mh.Length; i++ {
			k, err := ReadStream(r, v.KT)
			if err != nil {
				return nil, err
			}
			x, err := ReadStream(r, v.ET)
			if err != nil {
				return nil, err
			}
			v.Items = append(v.Items, k, x)
		}
		return v, r.ReadMapEnd()
	case TSet:
		sh, err := r.ReadSetBegin()
		if err != nil {
			return nil, err
		}
		v := &V{T: TSet, ET: byte(sh.Type)}
		for i := 0; i < sh.Length; i++ {
			x, err := ReadStream(r, v.ET)
			if err != nil {
				return nil, err
			}
			v.Items = append(v.Items, x)
		}
		return v, r.ReadSetEnd()
	case TList:
		lh, err := r.ReadListBegin()
		if err != nil {
			return nil, err
		}
		v := &V{T: TList, ET: byte(lh.Type)}
		for i := 0; i < lh.Length; i++ {
			x, err := ReadStream(r, v.ET)
			if err != nil {
				return nil, err
			}
			v.Items = append(v.Items, x)
		}
		return v, r.ReadListEnd()
	}
	return nil, fmt.Errorf("unknown ttype %d", t)
}
