package wv

import (
	"math"

	"verifharness/internal/rng"
)

var interestingU64 = []uint64{
	0, 1, 2, 0x7f, 0x80, 0xff, 0x100, 0x7fff, 0x8000, 0xffff, 0x10000,
	0x7fffffff, 0x80000000, 0xffffffff, 0x100000000,
	0x7fffffffffffffff, 0x8000000000000000, 0xffffffffffffffff, 0xfffffffffffffffe,
}

var interestingDoubles = []uint64{
	0, 0x8000000000000000, // +0 -0
	0x7ff0000000000000, 0xfff0000000000000, // +-inf
	0x7ff8000000000000, 0x7ff8000000000001, 0xfff8000000000000, 0x7ff0000000000001, // NaNs incl. signalling
	0x0000000000000001, 0x000fffffffffffff, // subnormals
	0x0010000000000000, 0x7fefffffffffffff, // min normal, max
	math.Float64bits(1), math.Float64bits(-1), math.Float64bits(0.1), math.Float64bits(math.Pi),
}

func scalarBits(r *rng.R, bits uint) uint64 {
	var u uint64
	if r.Chance(1, 2) {
		u = interestingU64[r.Intn(len(interestingU64))]
	} else {
		u = r.U64()
	}
	if bits < 64 {
		u &= (1 << bits) - 1
	}
	return u
}

// GenCfg bounds random generation.
type GenCfg struct {
	MaxDepth int
	MaxLen   int // container length / field count
	MaxBin   int
}

// Gen generates a random well-typed value of type t.
func Gen(r *rng.R, t byte, c GenCfg, depth int) *V {
	switch t {
	case TBool:
		return &V{T: TBool, U: uint64(r.Intn(2))}
	case TI8:
		return &V{T: TI8, U: scalarBits(r, 8)}
	case TI16:
		return &V{T: TI16, U: scalarBits(r, 16)}
	case TI32:
		return &V{T: TI32, U: scalarBits(r, 32)}
	case TI64:
		return &V{T: TI64, U: scalarBits(r, 64)}
	case TDouble:
		if r.Chance(1, 2) {
			return &V{T: TDouble, U: interestingDoubles[r.Intn(len(interestingDoubles))]}
		}
		return &V{T: TDouble, U: r.U64()}
	case TBinary:
		n := 0
		if c.MaxBin > 0 && !r.Chance(1, 5) {
			n = r.Intn(c.MaxBin + 1)
		}
		return &V{T: TBinary, Bin: r.Bytes(n)}
	}
	leafOnly := depth >= c.MaxDepth
	pickT := func() byte {
		if leafOnly {
			return AllTypes[r.Intn(7)]
		}
		return AllTypes[r.Intn(len(AllTypes))]
	}
	n := 0
	if !r.Chance(1, 6) {
		n = r.Intn(c.MaxLen + 1)
	}
	switch t {
	case TStruct:
		v := &V{T: TStruct}
		used := map[uint16]bool{}
		for i := 0; i < n; i++ {
			id := uint16(scalarBits(r, 16))
			if r.Chance(2, 3) {
				id = uint16(r.Intn(20)) - 3 // small ids incl. negative
			}
			if used[id] {
				continue
			}
			used[id] = true
			v.Fields = append(v.Fields, Field{ID: id, V: Gen(r, pickT(), c, depth+1)})
		}
		return v
	case TMap:
		v := &V{T: TMap, KT: pickT(), ET: pickT()}
		if n == 0 && r.Chance(1, 4) { // empty container may carry any type byte
			v.KT, v.ET = byte(r.U64()), byte(r.U64())
		}
		for i := 0; i < n; i++ {
			v.Items = append(v.Items, Gen(r, v.KT, c, depth+1), Gen(r, v.ET, c, depth+1))
		}
		return v
	case TSet, TList:
		v := &V{T: t, ET: pickT()}
		if n == 0 && r.Chance(1, 4) {
			v.ET = byte(r.U64())
		}
		for i := 0; i < n; i++ {
			v.Items = append(v.Items, Gen(r, v.ET, c, depth+1))
		}
		return v
	}
	panic("gen: bad type")
}

// Encode is the harness's own statement of the Thrift binary format (an
// independent reference, sharing no code with thriftrw).
func (v *V) Encode(out []byte) []byte {
	be := func(out []byte, u uint64, k int) []byte {
		for i := k - 1; i >= 0; i-- {
			out = append(out, byte(u>>(8*uint(i))))
		}
		return out
	}
	switch v.T {
	case TBool:
		if v.U > 1 {
			return append(out, byte(v.U)) // a deliberately invalid bool byte (see PoisonBool)
		}
		if v.U != 0 {
			return append(out, 1)
		}
		return append(out, 0)
	case TI8:
		return append(out, byte(v.U))
	case TI16:
		return be(out, v.U, 2)
	case TI32:
		return be(out, v.U, 4)
	case TI64, TDouble:
		return be(out, v.U, 8)
	case TBinary:
		out = be(out, uint64(len(v.Bin)), 4)
		return append(out, v.Bin...)
	case TStruct:
		for _, f := range v.Fields {
			out = append(out, f.V.T)
			out = be(out, uint64(f.ID), 2)
			out = f.V.Encode(out)
		}
		return append(out, 0)
	case TMap:
		out = append(out, v.KT, v.ET)
		out = be(out, uint64(len(v.Items)/2), 4)
	case TSet, TList:
		out = append(out, v.ET)
		out = be(out, uint64(len(v.Items)), 4)
	}
	for _, it := range v.Items {
		out = it.Encode(out)
	}
	return out
}

// Enumerate calls f on every value of type t with at most `budget` nodes, with
// leaves drawn from tiny domains; returns false if f stopped the enumeration.
func Enumerate(t byte, budget int, f func(*V) bool) bool {
	if budget <= 0 {
		return true
	}
	leaf := func(vals ...uint64) bool {
		for _, u := range vals {
			if !f(&V{T: t, U: u}) {
				return false
			}
		}
		return true
	}
	switch t {
	case TBool:
		return leaf(0, 1)
	case TI8:
		return leaf(0, 0x80, 0xff)
	case TI16:
		return leaf(0, 0x8000, 0xffff)
	case TI32:
		return leaf(1, 0x80000000)
	case TI64:
		return leaf(0, 0x8000000000000000)
	case TDouble:
		return leaf(0x8000000000000000, 0x7ff8000000000001)
	case TBinary:
		return f(&V{T: TBinary, Bin: []byte{}}) && f(&V{T: TBinary, Bin: []byte{0, 0xff}})
	case TStruct:
		// structs with 0..2 fields
		if !f(&V{T: TStruct}) {
			return false
		}
		for _, ft := range AllTypes {
			ok := Enumerate(ft, budget-1, func(a *V) bool {
				if !f(&V{T: TStruct, Fields: []Field{{ID: 0xffff, V: a}}}) {
					return false
				}
				rem := budget - 1 - a.Nodes()
				if rem <= 0 {
					return true
				}
				// second field: leaves only, to keep the space small
				for _, ft2 := range []byte{TBool, TBinary, TList} {
					if !Enumerate(ft2, 1, func(b *V) bool {
						return f(&V{T: TStruct, Fields: []Field{{ID: 1, V: a}, {ID: 0x7fff, V: b}}})
					}) {
						return false
					}
				}
				return true
			})
			if !ok {
				return false
			}
		}
		return true
	case TSet, TList:
		for _, et := range AllTypes {
			if !f(&V{T: t, ET: et}) {
				return false
			}
			ok := Enumerate(et, budget-1, func(a *V) bool {
				if !f(&V{T: t, ET: et, Items: []*V{a}}) {
					return false
				}
				if 2*a.Nodes()+1 <= budget {
					return f(&V{T: t, ET: et, Items: []*V{a, a}})
				}
				return true
			})
			if !ok {
				return false
			}
		}
		return true
	case TMap:
		for _, kt := range AllTypes {
			for _, vt := range AllTypes {
				if !f(&V{T: TMap, KT: kt, ET: vt}) {
					return false
				}
				ok := Enumerate(kt, budget-2, func(k *V) bool {
					return Enumerate(vt, budget-1-k.Nodes(), func(x *V) bool {
						return f(&V{T: TMap, KT: kt, ET: vt, Items: []*V{k, x}})
					})
				})
				if !ok {
					return false
				}
			}
		}
		return true
	}
	return true
}

// Bools lists the bool nodes of v, at any depth.
func (v *V) Bools() []*V {
	var out []*V
	var walk func(x *V)
	walk = func(x *V) {
		if x == nil {
			return
		}
		if x.T == TBool {
			out = append(out, x)
		}
		for i := range x.Fields {
			walk(x.Fields[i].V)
		}
		for _, it := range x.Items {
			walk(it)
		}
	}
	walk(v)
	return out
}

// PoisonBool turns one bool of v into a byte outside {0, 1}; false if v has no bool.
func (v *V) PoisonBool(r *rng.R) bool {
	bs := v.Bools()
	if len(bs) == 0 {
		return false
	}
	bs[r.Intn(len(bs))].U = uint64(2 + r.Intn(254))
	return true
}
