// Package valgen generates Go-level values (gtext.G) of schema types: valid
// ones by construction, and schema-violating ones by breaking exactly one rule
// of a valid value.
package valgen

import (
	"fmt"
	"math"

	"verifharness/internal/gtext"
	"verifharness/internal/rng"
)

type Gen struct {
	Env      *gtext.Env
	R        *rng.R
	MaxDepth int  // struct nesting depth after which optionals stay unset and containers empty
	MaxLen   int  // container length
	NoNaN    bool // no NaN anywhere (C14)
	Markers  bool // every string/binary leaf is a unique ASCII marker mk<digits>; numbers unique where possible
	marker   int
	num      uint64
}

func New(env *gtext.Env, r *rng.R) *Gen {
	return &Gen{Env: env, R: r, MaxDepth: 3, MaxLen: 4}
}

var interesting = []uint64{0, 1, 2, 0x7f, 0x80, 0xff, 0x100, 0x7fff, 0x8000, 0xffff, 0x10000,
	0x7fffffff, 0x80000000, 0xffffffff, 0x100000000, 0x7fffffffffffffff, 0x8000000000000000, 0xffffffffffffffff}

var doubles = []uint64{0, 0x8000000000000000, 0x7ff0000000000000, 0xfff0000000000000,
	0x0000000000000001, 0x0010000000000000, 0x7fefffffffffffff,
	math.Float64bits(1), math.Float64bits(-1), math.Float64bits(0.1), math.Float64bits(math.Pi), math.Float64bits(1e100)}

var nans = []uint64{0x7ff8000000000000, 0x7ff8000000000001, 0xfff8000000000000, 0x7ff0000000000001}

func (g *Gen) bits(n uint) uint64 {
	var u uint64
	if g.Markers {
		g.num++
		u = 1000 + g.num*7
	} else if g.R.Chance(1, 2) {
		u = interesting[g.R.Intn(len(interesting))]
	} else {
		u = g.R.U64()
	}
	if n < 64 {
		u &= 1<<n - 1
	}
	return u
}

func isNaN(bits uint64) bool {
	return bits&0x7ff0000000000000 == 0x7ff0000000000000 && bits&0xfffffffffffff != 0
}

// NextMarker returns a fresh marker payload.
func (g *Gen) NextMarker() []byte {
	g.marker++
	return []byte(fmt.Sprintf("mk%d", 100000+g.marker))
}

func (g *Gen) str() []byte {
	if g.Markers {
		return g.NextMarker()
	}
	r := g.R
	switch r.Intn(6) {
	case 0:
		return []byte{}
	case 1:
		return r.Bytes(r.Intn(6)) // arbitrary bytes, not necessarily UTF-8
	case 2:
		return []byte("héllo ✓")
	}
	n := r.Intn(10)
	b := make([]byte, n)
	for i := range b {
		b[i] = byte('a' + r.Intn(26))
	}
	return b
}

// prim generates a primitive (root kind) value; key=true excludes NaN.
func (g *Gen) prim(root *gtext.T, key bool) *gtext.G {
	r := g.R
	switch root.K {
	case gtext.KBool:
		return gtext.Bool(r.Bool())
	case gtext.KI8:
		return gtext.Scalar(gtext.GI8, g.bits(8))
	case gtext.KI16:
		return gtext.Scalar(gtext.GI16, g.bits(16))
	case gtext.KI32:
		return gtext.Scalar(gtext.GI32, g.bits(32))
	case gtext.KI64:
		return gtext.Scalar(gtext.GI64, g.bits(64))
	case gtext.KDouble:
		if g.Markers {
			g.num++
			return gtext.Scalar(gtext.GDouble, math.Float64bits(float64(1000+g.num*7)+0.5))
		}
		if !key && !g.NoNaN && r.Chance(1, 10) {
			return gtext.Scalar(gtext.GDouble, nans[r.Intn(len(nans))])
		}
		if r.Chance(1, 8) {
			return gtext.Scalar(gtext.GDouble, uint64(r.Intn(2))<<63) // +0 or -0, also as set element / map key
		}
		if r.Chance(1, 2) {
			return gtext.Scalar(gtext.GDouble, doubles[r.Intn(len(doubles))])
		}
		u := r.U64()
		if isNaN(u) {
			u = math.Float64bits(float64(r.Intn(1000)))
		}
		return gtext.Scalar(gtext.GDouble, u)
	case gtext.KString:
		return gtext.Str(g.str())
	case gtext.KEnum:
		e := g.Env.Enums[root.Name]
		if e != nil && len(e.Items) > 0 && (g.Markers || r.Chance(3, 4)) {
			return gtext.Scalar(gtext.GI32, uint64(uint32(e.Items[r.Intn(len(e.Items))].Value)))
		}
		return gtext.Scalar(gtext.GI32, g.bits(32))
	}
	panic("valgen: not a primitive: " + root.Text())
}

// Value generates a valid non-nil value of type t in value representation.
func (g *Gen) Value(t *gtext.T) *gtext.G { return g.value(t, 0, false) }

func (g *Gen) length(depth int) int {
	if depth > g.MaxDepth {
		return 0
	}
	if g.R.Chance(1, 6) {
		return 0
	}
	return g.R.Intn(g.MaxLen + 1)
}

func (g *Gen) value(t *gtext.T, depth int, key bool) *gtext.G {
	root := t.Root()
	switch root.K {
	case gtext.KBinary:
		if g.Markers {
			return gtext.Bin(g.NextMarker())
		}
		return gtext.Bin(g.R.Bytes(g.R.Pick(0, 1, 3, 8)))
	case gtext.KList:
		n := g.length(depth)
		out := &gtext.G{K: gtext.GList, Items: make([]*gtext.G, 0, n)}
		for i := 0; i < n; i++ {
			out.Items = append(out.Items, g.value(root.Elem, depth+1, false))
		}
		return out
	case gtext.KSet, gtext.KSSet:
		n := g.length(depth)
		out := &gtext.G{K: gtext.GSet, H: root.SetHashed(), Items: make([]*gtext.G, 0, n)}
		for i := 0; i < n; i++ {
			x := g.value(root.Elem, depth+1, true)
			if !containsEq(out.Items, 1, x) {
				out.Items = append(out.Items, x)
			}
		}
		return out
	case gtext.KMap:
		n := g.length(depth)
		out := &gtext.G{K: gtext.GMap, H: root.MapHashed(), Items: make([]*gtext.G, 0, 2*n)}
		for i := 0; i < n; i++ {
			k := g.value(root.Key, depth+1, true)
			if !containsEq(out.Items, 2, k) {
				out.Items = append(out.Items, k, g.value(root.Elem, depth+1, false))
			}
		}
		return out
	case gtext.KStruct:
		return g.structValue(root, depth, key)
	}
	return g.prim(root, key)
}

// logically equal as set elements / map keys (doubles: ±0 equal; NaN excluded by construction)
func containsEq(items []*gtext.G, step int, x *gtext.G) bool {
	xt := keyText(x)
	for i := 0; i < len(items); i += step {
		if keyText(items[i]) == xt {
			return true
		}
	}
	return false
}

func keyText(x *gtext.G) string {
	if x.K == gtext.GDouble && x.U<<1 == 0 {
		return "d:0"
	}
	if len(x.Items) == 0 {
		return x.Text()
	}
	c := x.Clone()
	normZero(c)
	return c.Text()
}

func normZero(x *gtext.G) {
	if x.K == gtext.GDouble && x.U<<1 == 0 {
		x.U = 0
	}
	for _, it := range x.Items {
		normZero(it)
	}
}

func (g *Gen) structValue(root *gtext.T, depth int, key bool) *gtext.G {
	sd := g.Env.Structs[root.Name]
	if sd == nil {
		panic("valgen: unknown struct " + root.Name)
	}
	r := g.R
	out := &gtext.G{K: gtext.GStruct, Items: make([]*gtext.G, len(sd.Fields))}
	for i := range out.Items {
		out.Items[i] = gtext.Nil()
	}
	if ar := sd.Arity(); ar != 0 {
		if len(sd.Fields) == 0 {
			return out
		}
		if ar == 2 && r.Chance(1, 3) {
			return out
		}
		i := r.Intn(len(sd.Fields))
		if depth > g.MaxDepth {
			i = 0 // the first member of a union never leads back to the union itself
		}
		out.Items[i] = g.value(sd.Fields[i].T, depth+1, key)
		return out
	}
	for i, f := range sd.Fields {
		switch {
		case f.Req && f.T.IsPrim():
			out.Items[i] = g.prim(f.T.Root(), key)
		case f.Req:
			if f.T.IsList() && r.Chance(1, 4) {
				continue // a nil slice is a valid required list
			}
			out.Items[i] = g.value(f.T, depth+1, key)
		default:
			if depth >= g.MaxDepth && !f.T.IsPrim() {
				continue
			}
			if r.Chance(2, 5) {
				continue
			}
			out.Items[i] = g.value(f.T, depth+1, key)
		}
	}
	return out
}

// site is a place where a valid value can be made schema-violating.
type site struct {
	what  string
	apply func()
}

// Invalidate returns a deep copy of the valid value v (of type t) that breaks
// exactly one schema rule, with a description of the rule; ok=false if v has
// no place where a rule can be broken.
func (g *Gen) Invalidate(t *gtext.T, v *gtext.G) (*gtext.G, string, bool) {
	c := v.Clone()
	var sites []site
	g.sites(t, c, &sites)
	if len(sites) == 0 {
		return nil, "", false
	}
	s := sites[g.R.Intn(len(sites))]
	// +0 and -0 are one value to Go's == and to every equality in this library, but two bit
	// patterns: when the value holds a zero double, flipping its sign is tried often
	var zs []site
	for _, x := range sites {
		if x.what == "zero-sign" {
			zs = append(zs, x)
		}
	}
	if len(zs) > 0 && g.R.Chance(1, 2) {
		s = zs[g.R.Intn(len(zs))]
	}
	s.apply()
	return c, s.what, true
}

func (g *Gen) sites(t *gtext.T, v *gtext.G, out *[]site) {
	if v.IsNil() {
		return
	}
	root := t.Root()
	switch root.K {
	case gtext.KList, gtext.KSet, gtext.KSSet:
		for i := range v.Items {
			i := i
			if !root.Elem.IsPrim() {
				*out = append(*out, site{"nil-element", func() { v.Items[i] = gtext.Nil() }})
			}
			g.sites(root.Elem, v.Items[i], out)
		}
	case gtext.KMap:
		for i := range v.Items {
			i := i
			et := root.Key
			if i%2 == 1 {
				et = root.Elem
			}
			if !et.IsPrim() {
				*out = append(*out, site{"nil-map-entry", func() { v.Items[i] = gtext.Nil() }})
			}
			g.sites(et, v.Items[i], out)
		}
	case gtext.KStruct:
		sd := g.Env.Structs[root.Name]
		if sd == nil || len(v.Items) != len(sd.Fields) {
			return
		}
		if ar := sd.Arity(); ar != 0 && len(sd.Fields) > 0 {
			set := -1
			for i, x := range v.Items {
				if !x.IsNil() {
					set = i
				}
			}
			if ar == 1 && set >= 0 {
				*out = append(*out, site{"union-empty", func() { v.Items[set] = gtext.Nil() }})
			}
			if len(sd.Fields) > 1 {
				j := g.R.Intn(len(sd.Fields))
				if j == set {
					j = (j + 1) % len(sd.Fields)
				}
				if set < 0 {
					// an empty (allowed) union: set two members
					k := (j + 1) % len(sd.Fields)
					*out = append(*out, site{"union-two", func() {
						v.Items[j] = g.value(sd.Fields[j].T, g.MaxDepth, false)
						v.Items[k] = g.value(sd.Fields[k].T, g.MaxDepth, false)
					}})
				} else {
					*out = append(*out, site{"union-two", func() { v.Items[j] = g.value(sd.Fields[j].T, g.MaxDepth, false) }})
				}
			}
		}
		for i, f := range sd.Fields {
			i := i
			if f.Req && !f.T.IsPrim() && !f.T.IsList() && !v.Items[i].IsNil() {
				*out = append(*out, site{"required-unset", func() { v.Items[i] = gtext.Nil() }})
			}
			g.sites(f.T, v.Items[i], out)
		}
	}
}

// Perturb returns a deep copy of the valid value v changed at exactly one place
// (a leaf, the presence of an optional field, nil vs empty, the length or the
// order of a container, the sign of a zero), still valid; what names the change.
func (g *Gen) Perturb(t *gtext.T, v *gtext.G) (*gtext.G, string, bool) {
	c := v.Clone()
	var sites []site
	g.psites(t, c, func(n *gtext.G) { *c = *n }, true, &sites)
	if len(sites) == 0 {
		return nil, "", false
	}
	s := sites[g.R.Intn(len(sites))]
	s.apply()
	return c, s.what, true
}

// psites collects perturbation sites; set replaces the value at this position.
func (g *Gen) psites(t *gtext.T, v *gtext.G, set func(*gtext.G), top bool, out *[]site) {
	root := t.Root()
	r := g.R
	if v.IsNil() {
		return
	}
	switch root.K {
	case gtext.KBool:
		*out = append(*out, site{"leaf", func() { set(gtext.Bool(v.U == 0)) }})
	case gtext.KI8, gtext.KI16, gtext.KI32, gtext.KI64, gtext.KEnum:
		*out = append(*out, site{"leaf", func() { n := *v; n.U ^= 1 << uint(r.Intn(7)); set(&n) }})
	case gtext.KDouble:
		if v.U<<1 == 0 {
			*out = append(*out, site{"zero-sign", func() { n := *v; n.U ^= 1 << 63; set(&n) }})
		} else {
			*out = append(*out, site{"leaf", func() {
				n := *v
				n.U ^= 1 << uint(r.Intn(40))
				if isNaN(n.U) {
					n.U = 0x3ff0000000000000
				}
				set(&n)
			}})
		}
	case gtext.KString, gtext.KBinary:
		*out = append(*out, site{"leaf", func() { n := *v; n.B = append(append([]byte{}, v.B...), byte('a'+r.Intn(26))); set(&n) }})
	case gtext.KList, gtext.KSet, gtext.KSSet:
		key := root.K != gtext.KList
		*out = append(*out, site{"length+1", func() {
			x := g.value(root.Elem, g.MaxDepth, key)
			if key && containsEq(v.Items, 1, x) {
				return
			}
			pos := r.Intn(len(v.Items) + 1)
			v.Items = append(v.Items[:pos], append([]*gtext.G{x}, v.Items[pos:]...)...)
		}})
		if len(v.Items) > 0 {
			*out = append(*out, site{"length-1", func() { pos := r.Intn(len(v.Items)); v.Items = append(v.Items[:pos], v.Items[pos+1:]...) }})
		}
		if len(v.Items) > 1 {
			*out = append(*out, site{"order", func() { i := r.Intn(len(v.Items) - 1); v.Items[i], v.Items[i+1] = v.Items[i+1], v.Items[i] }})
		}
		for i := range v.Items {
			i := i
			g.psites(root.Elem, v.Items[i], func(n *gtext.G) { v.Items[i] = n }, false, out)
		}
	case gtext.KMap:
		*out = append(*out, site{"length+1", func() {
			k := g.value(root.Key, g.MaxDepth, true)
			if containsEq(v.Items, 2, k) {
				return
			}
			v.Items = append(v.Items, k, g.value(root.Elem, g.MaxDepth, false))
		}})
		if len(v.Items) > 0 {
			*out = append(*out, site{"length-1", func() { pos := 2 * r.Intn(len(v.Items)/2); v.Items = append(v.Items[:pos], v.Items[pos+2:]...) }})
		}
		if len(v.Items) > 2 {
			*out = append(*out, site{"order", func() {
				i := 2 * r.Intn(len(v.Items)/2-1)
				v.Items[i], v.Items[i+2] = v.Items[i+2], v.Items[i]
				v.Items[i+1], v.Items[i+3] = v.Items[i+3], v.Items[i+1]
			}})
		}
		for i := range v.Items {
			i := i
			et := root.Key
			if i%2 == 1 {
				et = root.Elem
			}
			g.psites(et, v.Items[i], func(n *gtext.G) { v.Items[i] = n }, false, out)
		}
	case gtext.KStruct:
		sd := g.Env.Structs[root.Name]
		if sd == nil || len(v.Items) != len(sd.Fields) {
			return
		}
		union := sd.Arity() != 0
		for i, f := range sd.Fields {
			i, f := i, f
			x := v.Items[i]
			if !union && !f.Req {
				if x.IsNil() {
					*out = append(*out, site{"presence:set", func() { v.Items[i] = g.value(f.T, g.MaxDepth, false) }})
				} else if f.Def == nil {
					*out = append(*out, site{"presence:unset", func() { v.Items[i] = gtext.Nil() }})
				}
			}
			if union && !x.IsNil() && len(sd.Fields) > 1 && sd.Arity() == 1 {
				*out = append(*out, site{"union-member", func() {
					j := (i + 1 + r.Intn(len(sd.Fields)-1)) % len(sd.Fields)
					v.Items[i] = gtext.Nil()
					v.Items[j] = g.value(sd.Fields[j].T, g.MaxDepth, false)
				}})
			}
			if !x.IsNil() && f.T.IsRef() && f.T.Root().K != gtext.KBinary && len(x.Items) == 0 && (f.T.IsList() || !f.Req) && !union && f.Def == nil {
				*out = append(*out, site{"empty-to-nil", func() { v.Items[i] = gtext.Nil() }})
			}
			g.psites(f.T, x, func(n *gtext.G) { v.Items[i] = n }, false, out)
		}
	}
}
