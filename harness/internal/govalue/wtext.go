package govalue

import (
	"encoding/hex"
	"fmt"
	"math"
	"strconv"
	"strings"

	"go.uber.org/thriftrw/wire"
)

// wireText renders a wire.Value in the M-Wire text form, forcing every lazily
// wrapped container exactly once; an error from ForEach surfaces here.
func wireText(sb *strings.Builder, w wire.Value) error {
	if sb.Len() > 0 {
		sb.WriteByte(' ')
	}
	switch w.Type() {
	case wire.TBool:
		if w.GetBool() {
			sb.WriteString("b1")
		} else {
			sb.WriteString("b0")
		}
	case wire.TI8:
		fmt.Fprintf(sb, "i8:%d", uint8(w.GetI8()))
	case wire.TI16:
		fmt.Fprintf(sb, "i16:%d", uint16(w.GetI16()))
	case wire.TI32:
		fmt.Fprintf(sb, "i32:%d", uint32(w.GetI32()))
	case wire.TI64:
		fmt.Fprintf(sb, "i64:%d", uint64(w.GetI64()))
	case wire.TDouble:
		fmt.Fprintf(sb, "d:%d", math.Float64bits(w.GetDouble()))
	case wire.TBinary:
		sb.WriteString("x:" + hex.EncodeToString(w.GetBinary()))
	case wire.TStruct:
		fs := w.GetStruct().Fields
		fmt.Fprintf(sb, "s %d", len(fs))
		for _, f := range fs {
			fmt.Fprintf(sb, " %d", uint16(f.ID))
			if err := wireText(sb, f.Value); err != nil {
				return err
			}
		}
	case wire.TMap:
		m := w.GetMap()
		fmt.Fprintf(sb, "m %d %d %d", byte(m.KeyType()), byte(m.ValueType()), m.Size())
		n := 0
		err := m.ForEach(func(it wire.MapItem) error {
			n++
			if err := wireText(sb, it.Key); err != nil {
				return err
			}
			return wireText(sb, it.Value)
		})
		if err != nil {
			return err
		}
		if n != m.Size() {
			return fmt.Errorf("map size %d but %d items", m.Size(), n)
		}
	case wire.TSet, wire.TList:
		var l wire.ValueList
		tag := "l"
		if w.Type() == wire.TSet {
			l, tag = w.GetSet(), "t"
		} else {
			l = w.GetList()
		}
		fmt.Fprintf(sb, "%s %d %d", tag, byte(l.ValueType()), l.Size())
		n := 0
		err := l.ForEach(func(x wire.Value) error {
			n++
			return wireText(sb, x)
		})
		if err != nil {
			return err
		}
		if n != l.Size() {
			return fmt.Errorf("list size %d but %d items", l.Size(), n)
		}
	default:
		return fmt.Errorf("unknown wire type %d", w.Type())
	}
	return nil
}

// parseWire reads one wire value in text form.
func parseWire(toks []string) (wire.Value, []string, error) {
	var zero wire.Value
	if len(toks) == 0 {
		return zero, nil, fmt.Errorf("W: eof")
	}
	t, rest := toks[0], toks[1:]
	num := func(s string, bits int) (uint64, error) { return strconv.ParseUint(s, 10, bits) }
	switch {
	case t == "b0":
		return wire.NewValueBool(false), rest, nil
	case t == "b1":
		return wire.NewValueBool(true), rest, nil
	case strings.HasPrefix(t, "i8:"):
		n, err := num(t[3:], 8)
		return wire.NewValueI8(int8(n)), rest, err
	case strings.HasPrefix(t, "i16:"):
		n, err := num(t[4:], 16)
		return wire.NewValueI16(int16(n)), rest, err
	case strings.HasPrefix(t, "i32:"):
		n, err := num(t[4:], 32)
		return wire.NewValueI32(int32(n)), rest, err
	case strings.HasPrefix(t, "i64:"):
		n, err := num(t[4:], 64)
		return wire.NewValueI64(int64(n)), rest, err
	case strings.HasPrefix(t, "d:"):
		n, err := num(t[2:], 64)
		return wire.NewValueDouble(math.Float64frombits(n)), rest, err
	case strings.HasPrefix(t, "x:"):
		b, err := hex.DecodeString(t[2:])
		if b == nil {
			b = []byte{}
		}
		return wire.NewValueBinary(b), rest, err
	case t == "s":
		if len(rest) < 1 {
			return zero, nil, fmt.Errorf("W: short")
		}
		n, err := strconv.Atoi(rest[0])
		if err != nil || n < 0 || n > len(rest) {
			return zero, nil, fmt.Errorf("W: bad field count")
		}
		rest = rest[1:]
		fs := make([]wire.Field, 0, n)
		for i := 0; i < n; i++ {
			if len(rest) == 0 {
				return zero, nil, fmt.Errorf("W: short")
			}
			id, err := num(rest[0], 16)
			if err != nil {
				return zero, nil, err
			}
			var v wire.Value
			v, rest, err = parseWire(rest[1:])
			if err != nil {
				return zero, nil, err
			}
			fs = append(fs, wire.Field{ID: int16(uint16(id)), Value: v})
		}
		return wire.NewValueStruct(wire.Struct{Fields: fs}), rest, nil
	case t == "m":
		if len(rest) < 3 {
			return zero, nil, fmt.Errorf("W: short")
		}
		kt, e1 := num(rest[0], 8)
		vt, e2 := num(rest[1], 8)
		n, e3 := strconv.Atoi(rest[2])
		if e1 != nil || e2 != nil || e3 != nil || n < 0 || n > len(rest) {
			return zero, nil, fmt.Errorf("W: bad map header")
		}
		rest = rest[3:]
		items := make([]wire.MapItem, 0, n)
		for i := 0; i < n; i++ {
			var k, v wire.Value
			var err error
			if k, rest, err = parseWire(rest); err != nil {
				return zero, nil, err
			}
			if v, rest, err = parseWire(rest); err != nil {
				return zero, nil, err
			}
			items = append(items, wire.MapItem{Key: k, Value: v})
		}
		return wire.NewValueMap(wire.MapItemListFromSlice(wire.Type(kt), wire.Type(vt), items)), rest, nil
	case t == "t" || t == "l":
		if len(rest) < 2 {
			return zero, nil, fmt.Errorf("W: short")
		}
		et, e1 := num(rest[0], 8)
		n, e2 := strconv.Atoi(rest[1])
		if e1 != nil || e2 != nil || n < 0 || n > len(rest) {
			return zero, nil, fmt.Errorf("W: bad list header")
		}
		rest = rest[2:]
		items := make([]wire.Value, 0, n)
		for i := 0; i < n; i++ {
			var v wire.Value
			var err error
			if v, rest, err = parseWire(rest); err != nil {
				return zero, nil, err
			}
			items = append(items, v)
		}
		l := wire.ValueListFromSlice(wire.Type(et), items)
		if t == "t" {
			return wire.NewValueSet(l), rest, nil
		}
		return wire.NewValueList(l), rest, nil
	}
	return zero, nil, fmt.Errorf("W: bad token %q", t)
}
