package govalue

import "embed"

// Source holds this package's own source files; gencheck copies them (and
// package gtext) into the scratch module of every generated program.
//
//go:embed *.go
var Source embed.FS
