package govalue

import (
	"fmt"
	"math"
	"reflect"
	"strings"

	"verifharness/internal/gtext"
)

// shapeError reports that the Go representation found by reflection is not
// the one SCHEMA_PROTOCOL.md prescribes for the schema type.
type shapeError struct{ msg string }

func (e *shapeError) Error() string { return e.msg }

func shapef(format string, a ...interface{}) error {
	return &shapeError{fmt.Sprintf(format, a...)}
}

func isKV(rt reflect.Type) bool {
	if rt.Kind() != reflect.Struct || rt.Name() != "" || rt.NumField() != 2 {
		return false
	}
	return rt.Field(0).Name == "Key" && rt.Field(1).Name == "Value"
}

// build makes a Go value of type rt from g, following the schema type t.
func (s *session) build(t *gtext.T, rt reflect.Type, g *gtext.G) (reflect.Value, error) {
	root := t.Root()
	if rt.Kind() == reflect.Ptr {
		if g.IsNil() {
			return reflect.Zero(rt), nil
		}
		et := rt.Elem()
		if et.Kind() == reflect.Struct {
			return s.buildStruct(root, rt, g)
		}
		v, err := s.build(t, et, g)
		if err != nil {
			return v, err
		}
		p := reflect.New(et)
		p.Elem().Set(v)
		return p, nil
	}
	v := reflect.New(rt).Elem()
	switch rt.Kind() {
	case reflect.Bool:
		if g.K != gtext.GBool || root.K != gtext.KBool {
			return v, shapef("bool slot: schema %s, value %c", t.Text(), g.K)
		}
		v.SetBool(g.U != 0)
	case reflect.Int8:
		if g.K != gtext.GI8 || root.K != gtext.KI8 {
			return v, shapef("int8 slot: schema %s, value %c", t.Text(), g.K)
		}
		v.SetInt(int64(int8(g.U)))
	case reflect.Int16:
		if g.K != gtext.GI16 || root.K != gtext.KI16 {
			return v, shapef("int16 slot: schema %s, value %c", t.Text(), g.K)
		}
		v.SetInt(int64(int16(g.U)))
	case reflect.Int32:
		if g.K != gtext.GI32 || (root.K != gtext.KI32 && root.K != gtext.KEnum) {
			return v, shapef("int32 slot: schema %s, value %c", t.Text(), g.K)
		}
		v.SetInt(int64(int32(g.U)))
	case reflect.Int64:
		if g.K != gtext.GI64 || root.K != gtext.KI64 {
			return v, shapef("int64 slot: schema %s, value %c", t.Text(), g.K)
		}
		v.SetInt(int64(g.U))
	case reflect.Float64:
		if g.K != gtext.GDouble || root.K != gtext.KDouble {
			return v, shapef("float64 slot: schema %s, value %c", t.Text(), g.K)
		}
		v.SetFloat(math.Float64frombits(g.U))
	case reflect.String:
		if g.K != gtext.GStr || root.K != gtext.KString {
			return v, shapef("string slot: schema %s, value %c", t.Text(), g.K)
		}
		v.SetString(string(g.B))
	case reflect.Slice:
		if g.IsNil() {
			return v, nil
		}
		switch {
		case root.K == gtext.KBinary:
			if rt.Elem().Kind() != reflect.Uint8 || g.K != gtext.GBin {
				return v, shapef("binary slot: go %s, value %c", rt, g.K)
			}
			b := reflect.MakeSlice(rt, len(g.B), len(g.B))
			reflect.Copy(b, reflect.ValueOf(g.B))
			return b, nil
		case root.K == gtext.KList || ((root.K == gtext.KSet || root.K == gtext.KSSet) && !root.SetHashed()):
			want := gtext.GList
			if root.K != gtext.KList {
				want = gtext.GSet
			}
			if g.K != want || g.H {
				return v, shapef("slice slot for %s: value %c h=%v", t.Text(), g.K, g.H)
			}
			out := reflect.MakeSlice(rt, len(g.Items), len(g.Items))
			for i, it := range g.Items {
				x, err := s.build(root.Elem, rt.Elem(), it)
				if err != nil {
					return v, err
				}
				out.Index(i).Set(x)
			}
			return out, nil
		case root.K == gtext.KMap && !root.MapHashed():
			if g.K != gtext.GMap || g.H || !isKV(rt.Elem()) {
				return v, shapef("key/value slice slot for %s: go %s value %c h=%v", t.Text(), rt, g.K, g.H)
			}
			n := len(g.Items) / 2
			out := reflect.MakeSlice(rt, n, n)
			for i := 0; i < n; i++ {
				k, err := s.build(root.Key, rt.Elem().Field(0).Type, g.Items[2*i])
				if err != nil {
					return v, err
				}
				x, err := s.build(root.Elem, rt.Elem().Field(1).Type, g.Items[2*i+1])
				if err != nil {
					return v, err
				}
				out.Index(i).Field(0).Set(k)
				out.Index(i).Field(1).Set(x)
			}
			return out, nil
		}
		return v, shapef("go slice %s for schema %s", rt, t.Text())
	case reflect.Map:
		if g.IsNil() {
			return v, nil
		}
		switch {
		case root.SetHashed():
			if g.K != gtext.GSet || !g.H || rt.Elem().Kind() != reflect.Struct || rt.Elem().NumField() != 0 {
				return v, shapef("map-set slot for %s: go %s value %c h=%v", t.Text(), rt, g.K, g.H)
			}
			out := reflect.MakeMapWithSize(rt, len(g.Items))
			for _, it := range g.Items {
				k, err := s.build(root.Elem, rt.Key(), it)
				if err != nil {
					return v, err
				}
				out.SetMapIndex(k, reflect.Zero(rt.Elem()))
			}
			return out, nil
		case root.MapHashed():
			if g.K != gtext.GMap || !g.H {
				return v, shapef("map slot for %s: value %c h=%v", t.Text(), g.K, g.H)
			}
			out := reflect.MakeMapWithSize(rt, len(g.Items)/2)
			for i := 0; i+1 < len(g.Items); i += 2 {
				k, err := s.build(root.Key, rt.Key(), g.Items[i])
				if err != nil {
					return v, err
				}
				x, err := s.build(root.Elem, rt.Elem(), g.Items[i+1])
				if err != nil {
					return v, err
				}
				out.SetMapIndex(k, x)
			}
			return out, nil
		}
		return v, shapef("go map %s for schema %s", rt, t.Text())
	default:
		return v, shapef("unsupported go type %s for schema %s", rt, t.Text())
	}
	return v, nil
}

func (s *session) buildStruct(root *gtext.T, rt reflect.Type, g *gtext.G) (reflect.Value, error) {
	p := reflect.New(rt.Elem())
	if root.K != gtext.KStruct {
		return p, shapef("go struct pointer %s for schema %s", rt, root.Text())
	}
	sd := s.env.Structs[root.Name]
	if sd == nil {
		return p, fmt.Errorf("unknown struct %s", root.Name)
	}
	if g.K != gtext.GStruct || len(g.Items) != len(sd.Fields) {
		return p, fmt.Errorf("struct %s: value is not R %d", root.Name, len(sd.Fields))
	}
	for i, f := range sd.Fields {
		fv := p.Elem().FieldByName(f.GoName)
		if !fv.IsValid() {
			return p, shapef("struct %s has no Go field %s", root.Name, f.GoName)
		}
		if g.Items[i].IsNil() && !canBeNil(fv.Type()) {
			return p, shapef("field %s.%s (%s) cannot be nil", root.Name, f.GoName, fv.Type())
		}
		x, err := s.build(f.T, fv.Type(), g.Items[i])
		if err != nil {
			return p, err
		}
		fv.Set(x)
	}
	return p, nil
}

func canBeNil(rt reflect.Type) bool {
	switch rt.Kind() {
	case reflect.Ptr, reflect.Slice, reflect.Map:
		return true
	}
	return false
}

// dump renders a Go value as G, following the schema type t.
func (s *session) dump(t *gtext.T, v reflect.Value) (*gtext.G, error) {
	root := t.Root()
	switch v.Kind() {
	case reflect.Ptr:
		if v.IsNil() {
			return gtext.Nil(), nil
		}
		if v.Type().Elem().Kind() == reflect.Struct {
			return s.dumpStruct(root, v)
		}
		return s.dump(t, v.Elem())
	case reflect.Bool:
		if root.K != gtext.KBool {
			return nil, shapef("go bool for schema %s", t.Text())
		}
		return gtext.Bool(v.Bool()), nil
	case reflect.Int8:
		if root.K != gtext.KI8 {
			return nil, shapef("go int8 for schema %s", t.Text())
		}
		return gtext.Scalar(gtext.GI8, uint64(uint8(v.Int()))), nil
	case reflect.Int16:
		if root.K != gtext.KI16 {
			return nil, shapef("go int16 for schema %s", t.Text())
		}
		return gtext.Scalar(gtext.GI16, uint64(uint16(v.Int()))), nil
	case reflect.Int32:
		if root.K != gtext.KI32 && root.K != gtext.KEnum {
			return nil, shapef("go int32 for schema %s", t.Text())
		}
		return gtext.Scalar(gtext.GI32, uint64(uint32(v.Int()))), nil
	case reflect.Int64:
		if root.K != gtext.KI64 {
			return nil, shapef("go int64 for schema %s", t.Text())
		}
		return gtext.Scalar(gtext.GI64, uint64(v.Int())), nil
	case reflect.Float64:
		if root.K != gtext.KDouble {
			return nil, shapef("go float64 for schema %s", t.Text())
		}
		return gtext.Scalar(gtext.GDouble, math.Float64bits(v.Float())), nil
	case reflect.String:
		if root.K != gtext.KString {
			return nil, shapef("go string for schema %s", t.Text())
		}
		return gtext.Str([]byte(v.String())), nil
	case reflect.Slice:
		if v.IsNil() {
			return gtext.Nil(), nil
		}
		switch {
		case root.K == gtext.KBinary && v.Type().Elem().Kind() == reflect.Uint8:
			b := make([]byte, v.Len())
			reflect.Copy(reflect.ValueOf(b), v)
			return gtext.Bin(b), nil
		case root.K == gtext.KList || ((root.K == gtext.KSet || root.K == gtext.KSSet) && !root.SetHashed()):
			g := &gtext.G{K: gtext.GList, Items: make([]*gtext.G, 0, v.Len())}
			if root.K != gtext.KList {
				g.K = gtext.GSet
			}
			for i := 0; i < v.Len(); i++ {
				x, err := s.dump(root.Elem, v.Index(i))
				if err != nil {
					return nil, err
				}
				g.Items = append(g.Items, x)
			}
			return g, nil
		case root.K == gtext.KMap && !root.MapHashed() && isKV(v.Type().Elem()):
			g := &gtext.G{K: gtext.GMap, Items: make([]*gtext.G, 0, 2*v.Len())}
			for i := 0; i < v.Len(); i++ {
				k, err := s.dump(root.Key, v.Index(i).Field(0))
				if err != nil {
					return nil, err
				}
				x, err := s.dump(root.Elem, v.Index(i).Field(1))
				if err != nil {
					return nil, err
				}
				g.Items = append(g.Items, k, x)
			}
			return g, nil
		}
		return nil, shapef("go slice %s for schema %s", v.Type(), t.Text())
	case reflect.Map:
		if v.IsNil() {
			return gtext.Nil(), nil
		}
		switch {
		case root.SetHashed():
			g := &gtext.G{K: gtext.GSet, H: true, Items: make([]*gtext.G, 0, v.Len())}
			for _, k := range v.MapKeys() {
				x, err := s.dump(root.Elem, k)
				if err != nil {
					return nil, err
				}
				g.Items = append(g.Items, x)
			}
			return g, nil
		case root.MapHashed():
			g := &gtext.G{K: gtext.GMap, H: true, Items: make([]*gtext.G, 0, 2*v.Len())}
			it := v.MapRange()
			for it.Next() {
				k, err := s.dump(root.Key, it.Key())
				if err != nil {
					return nil, err
				}
				x, err := s.dump(root.Elem, it.Value())
				if err != nil {
					return nil, err
				}
				g.Items = append(g.Items, k, x)
			}
			return g, nil
		}
		return nil, shapef("go map %s for schema %s", v.Type(), t.Text())
	}
	return nil, shapef("unsupported go value %s for schema %s", v.Type(), t.Text())
}

func (s *session) dumpStruct(root *gtext.T, v reflect.Value) (*gtext.G, error) {
	if root.K != gtext.KStruct {
		return nil, shapef("go struct pointer %s for schema %s", v.Type(), root.Text())
	}
	sd := s.env.Structs[root.Name]
	if sd == nil {
		return nil, fmt.Errorf("unknown struct %s", root.Name)
	}
	g := &gtext.G{K: gtext.GStruct, Items: make([]*gtext.G, 0, len(sd.Fields))}
	if v.Elem().NumField() != len(sd.Fields) {
		return nil, shapef("struct %s: %d Go fields, schema has %d", root.Name, v.Elem().NumField(), len(sd.Fields))
	}
	for i, f := range sd.Fields {
		fv := v.Elem().FieldByName(f.GoName)
		if !fv.IsValid() {
			return nil, shapef("struct %s has no Go field %s", root.Name, f.GoName)
		}
		if sf, _ := v.Type().Elem().FieldByName(f.GoName); len(sf.Index) != 1 || sf.Index[0] != i {
			return nil, shapef("struct %s: Go field %s is at position %v, schema position %d", root.Name, f.GoName, sf.Index, i)
		}
		x, err := s.dump(f.T, fv)
		if err != nil {
			return nil, err
		}
		g.Items = append(g.Items, x)
	}
	return g, nil
}

// typeText renders a Go type with named types replaced by their schema names.
func (s *session) typeText(rt reflect.Type) string {
	if rt.Name() != "" && rt.PkgPath() != "" {
		if n, ok := s.reg.names[rt]; ok {
			return n
		}
		return rt.PkgPath() + "." + rt.Name()
	}
	switch rt.Kind() {
	case reflect.Ptr:
		return "*" + s.typeText(rt.Elem())
	case reflect.Slice:
		return "[]" + s.typeText(rt.Elem())
	case reflect.Map:
		return "map[" + s.typeText(rt.Key()) + "]" + s.typeText(rt.Elem())
	case reflect.Struct:
		if rt.NumField() == 0 {
			return "struct{}"
		}
		out := "struct{"
		for i := 0; i < rt.NumField(); i++ {
			if i > 0 {
				out += "; "
			}
			out += rt.Field(i).Name + " " + s.typeText(rt.Field(i).Type)
		}
		return out + "}"
	case reflect.Uint8:
		return "byte"
	case reflect.Func:
		var in, out []string
		for i := 0; i < rt.NumIn(); i++ {
			in = append(in, s.typeText(rt.In(i)))
		}
		for i := 0; i < rt.NumOut(); i++ {
			out = append(out, s.typeText(rt.Out(i)))
		}
		txt := "func(" + strings.Join(in, ", ") + ")"
		switch len(out) {
		case 0:
		case 1:
			txt += " " + out[0]
		default:
			txt += " (" + strings.Join(out, ", ") + ")"
		}
		return txt
	case reflect.Interface:
		if rt.Name() == "error" {
			return "error"
		}
	}
	return rt.String()
}

// scribble overwrites everything reachable from a value the generated code handed out: what a
// pointer points at, the elements of a slice, the entries of a map, nested struct fields. A caller
// owns what a deserializer, a Default_ constructor or an accessor returns and may do this; when
// the generated code keeps sharing any of it (one default literal for every decoded value, say),
// every later answer in the same process changes.
func scribble(v reflect.Value, depth int) {
	if depth > 64 || !v.IsValid() {
		return
	}
	switch v.Kind() {
	case reflect.Ptr:
		if !v.IsNil() {
			scribble(v.Elem(), depth+1)
		}
	case reflect.Struct:
		for i := 0; i < v.NumField(); i++ {
			scribble(v.Field(i), depth+1)
		}
	case reflect.Slice:
		for i := 0; i < v.Len(); i++ {
			scribble(v.Index(i), depth+1)
		}
	case reflect.Map:
		for _, k := range v.MapKeys() {
			scribble(v.MapIndex(k), depth+1) // reaches pointers and slices held as map values
			v.SetMapIndex(k, reflect.Value{})
		}
	case reflect.Bool:
		if v.CanSet() {
			v.SetBool(!v.Bool())
		}
	case reflect.Int, reflect.Int8, reflect.Int16, reflect.Int32, reflect.Int64:
		if v.CanSet() {
			v.SetInt(^v.Int())
		}
	case reflect.Uint8:
		if v.CanSet() {
			v.SetUint(^v.Uint() & 0xff)
		}
	case reflect.Float64:
		if v.CanSet() {
			v.SetFloat(v.Float() + 1)
		}
	case reflect.String:
		if v.CanSet() {
			v.SetString(v.String() + "!")
		}
	}
}
