// Package govalue is the implementation-side value driver of gencheck: linked
// with the packages thriftrw generated for one random program, it reads the
// operations of SCHEMA_PROTOCOL.md (plus a few implementation-only ones) from
// stdin, performs them on the generated Go types by reflection and answers in
// the driver's answer syntax.
package govalue

import (
	"bufio"
	"bytes"
	"encoding/hex"
	"encoding/json"
	"errors"
	"fmt"
	"io"
	"os"
	"reflect"
	"runtime"
	"runtime/debug"
	"strconv"
	"strings"
	"syscall"
	"time"

	"go.uber.org/thriftrw/protocol/binary"
	"go.uber.org/thriftrw/protocol/stream"
	"go.uber.org/thriftrw/wire"
	"go.uber.org/zap/zapcore"

	"verifharness/internal/gtext"
)

// Registry maps schema names to the generated Go entities.
type Registry struct {
	types    map[string]reflect.Type
	names    map[reflect.Type]string
	defaults map[string]reflect.Value
	consts   map[string]reflect.Value
	helpers  map[string]reflect.Value
}

func NewRegistry() *Registry {
	return &Registry{types: map[string]reflect.Type{}, names: map[reflect.Type]string{},
		defaults: map[string]reflect.Value{}, consts: map[string]reflect.Value{}, helpers: map[string]reflect.Value{}}
}

// Type registers a generated type; ptr is a nil pointer to it: (*pkg.T)(nil).
func (r *Registry) Type(name string, ptr interface{}) {
	t := reflect.TypeOf(ptr).Elem()
	r.types[name] = t
	r.names[t] = name
}

// Default registers Default_<T>.
func (r *Registry) Default(name string, fn interface{}) { r.defaults[name] = reflect.ValueOf(fn) }

// Const registers a generated constant (or package variable).
func (r *Registry) Const(name string, v interface{}) { r.consts[name] = reflect.ValueOf(v) }

// Helper registers a <Service>_<Func>_Helper value.
func (r *Registry) Helper(name string, h interface{}) { r.helpers[name] = reflect.ValueOf(h) }

type session struct {
	reg *Registry
	env *gtext.Env
}

// chunkReader delivers the given chunks one per Read; an empty chunk is a
// zero-length read. It is not an io.Seeker.
type chunkReader struct {
	chunks [][]byte
	pos    int
	// eofWithData: the Read that delivers the last byte returns it together with io.EOF
	// (as iotest.DataErrReader and HTTP bodies of known length do) instead of on a later call.
	eofWithData bool
}

func (c *chunkReader) Read(p []byte) (int, error) {
	if len(c.chunks) == 0 {
		return 0, io.EOF
	}
	if len(c.chunks[0]) == 0 {
		c.chunks = c.chunks[1:]
		return 0, nil
	}
	n := copy(p, c.chunks[0])
	c.chunks[0] = c.chunks[0][n:]
	if len(c.chunks[0]) == 0 {
		c.chunks = c.chunks[1:]
	}
	c.pos += n
	if c.eofWithData && len(c.chunks) == 0 {
		return n, io.EOF
	}
	return n, nil
}

func splitChunks(data []byte, mode string) (*chunkReader, error) {
	c := &chunkReader{}
	switch {
	case mode == "whole":
		c.chunks = [][]byte{data}
	case mode == "one":
		for i := range data {
			c.chunks = append(c.chunks, data[i:i+1])
		}
	case strings.HasPrefix(mode, "c:"):
		pos := 0
		for _, s := range strings.Split(mode[2:], ",") {
			n, err := strconv.Atoi(s)
			if err != nil || n < 0 {
				return nil, fmt.Errorf("bad chunk size")
			}
			if pos+n > len(data) {
				n = len(data) - pos
			}
			c.chunks = append(c.chunks, data[pos:pos+n])
			pos += n
		}
		if pos < len(data) {
			c.chunks = append(c.chunks, data[pos:])
		}
	default:
		return nil, fmt.Errorf("bad chunk mode")
	}
	c.eofWithData = (len(data)+len(c.chunks))%2 == 1
	return c, nil
}

func unhex(s string) ([]byte, error) {
	if s == "-" {
		return []byte{}, nil
	}
	return hex.DecodeString(s)
}

func hx(b []byte) string {
	if len(b) == 0 {
		return "-"
	}
	return hex.EncodeToString(b)
}

// goType is the Go type of a top-level value of schema type t (value
// representation: *S for structs and typedefs of structs).
func (s *session) goType(t *gtext.T) (reflect.Type, error) {
	switch t.K {
	case gtext.KStruct, gtext.KTypedef, gtext.KEnum:
		rt, ok := s.reg.types[t.Name]
		if !ok {
			return nil, fmt.Errorf("type %s is not registered", t.Name)
		}
		if rt.Kind() == reflect.Struct {
			return reflect.PtrTo(rt), nil
		}
		return rt, nil
	}
	return nil, fmt.Errorf("top-level type must be struct:/typedef:/enum:")
}

var errType = reflect.TypeOf((*error)(nil)).Elem()

func asErr(v reflect.Value) error {
	if v.IsNil() {
		return nil
	}
	return v.Interface().(error)
}

// method finds a method on v, taking the address if it has a pointer receiver.
func method(v reflect.Value, name string) reflect.Value {
	if m := v.MethodByName(name); m.IsValid() {
		return m
	}
	if v.Kind() != reflect.Ptr {
		p := reflect.New(v.Type())
		p.Elem().Set(v)
		return p.MethodByName(name)
	}
	return reflect.Value{}
}

func (s *session) parseTG(toks []string) (*gtext.T, reflect.Type, reflect.Value, []string, error) {
	t, rest, err := gtext.ParseT(toks)
	if err != nil {
		return nil, nil, reflect.Value{}, nil, err
	}
	rt, err := s.goType(t)
	if err != nil {
		return nil, nil, reflect.Value{}, nil, err
	}
	g, rest, err := gtext.ParseG(rest)
	if err != nil {
		return nil, nil, reflect.Value{}, nil, err
	}
	v, err := s.build(t, rt, g)
	return t, rt, v, rest, err
}

type badOp struct{ error }

func bad(format string, a ...interface{}) error { return badOp{fmt.Errorf(format, a...)} }

// exec performs one operation.
func (s *session) exec(line string) (string, error) {
	toks := strings.Fields(line)
	if len(toks) == 0 {
		return "", bad("empty")
	}
	switch toks[0] {
	case "reset":
		s.env = gtext.NewEnv()
		return "ok", nil
	case "enum", "struct":
		if err := s.env.Define(toks); err != nil {
			return "", badOp{err}
		}
		return "ok", nil
	case "towire":
		_, _, v, rest, err := s.parseTG(toks[1:])
		if err != nil || len(rest) != 0 {
			return "", orBad(err)
		}
		out := method(v, "ToWire").Call(nil)
		if e := asErr(out[1]); e != nil {
			return "err", nil
		}
		var sb strings.Builder
		if err := wireText(&sb, out[0].Interface().(wire.Value)); err != nil {
			return "err", nil
		}
		return "ok " + sb.String(), nil
	case "encode":
		_, _, v, rest, err := s.parseTG(toks[1:])
		if err != nil || len(rest) != 0 {
			return "", orBad(err)
		}
		var buf bytes.Buffer
		sw := binary.Default.Writer(&buf)
		out := method(v, "Encode").Call([]reflect.Value{reflect.ValueOf(sw)})
		sw.Close()
		if e := asErr(out[0]); e != nil {
			return "err", nil
		}
		return "ok " + hx(buf.Bytes()), nil
	case "towireenc":
		_, _, v, rest, err := s.parseTG(toks[1:])
		if err != nil || len(rest) != 0 {
			return "", orBad(err)
		}
		out := method(v, "ToWire").Call(nil)
		if e := asErr(out[1]); e != nil {
			return "err", nil
		}
		var buf bytes.Buffer
		if err := binary.Default.Encode(out[0].Interface().(wire.Value), &buf); err != nil {
			return "err", nil
		}
		return "ok " + hx(buf.Bytes()), nil
	case "decodevw":
		t, rest, err := gtext.ParseT(toks[1:])
		if err != nil || len(rest) != 1 {
			return "", orBad(err)
		}
		data, err := unhex(rest[0])
		if err != nil {
			return "", badOp{err}
		}
		rt, err := s.goType(t)
		if err != nil {
			return "", badOp{err}
		}
		w, err := binary.Default.Decode(bytes.NewReader(data), wire.Type(t.Code()))
		if err != nil {
			return "err", nil
		}
		p := newTarget(rt)
		out := p.MethodByName("FromWire").Call([]reflect.Value{reflect.ValueOf(w)})
		if e := asErr(out[0]); e != nil {
			return "err", nil
		}
		g, err := s.dump(t, result(rt, p))
		if err != nil {
			return "", err
		}
		scribble(p, 0)
		return "ok " + g.Text(), nil
	case "fromwire":
		t, rest, err := gtext.ParseT(toks[1:])
		if err != nil {
			return "", badOp{err}
		}
		w, rest, err := parseWire(rest)
		if err != nil || len(rest) != 0 {
			return "", orBad(err)
		}
		rt, err := s.goType(t)
		if err != nil {
			return "", badOp{err}
		}
		p := newTarget(rt)
		out := p.MethodByName("FromWire").Call([]reflect.Value{reflect.ValueOf(w)})
		if e := asErr(out[0]); e != nil {
			return "err", nil
		}
		g, err := s.dump(t, result(rt, p))
		if err != nil {
			return "", err
		}
		scribble(p, 0)
		return "ok " + g.Text(), nil
	case "decode", "decodec", "memdecode":
		t, rest, err := gtext.ParseT(toks[1:])
		if err != nil || len(rest) < 1 {
			return "", orBad(err)
		}
		data, err := unhex(rest[0])
		if err != nil {
			return "", badOp{err}
		}
		mode := "whole"
		if toks[0] == "decodec" {
			if len(rest) != 2 {
				return "", bad("decodec needs a mode")
			}
			mode = rest[1]
		} else if toks[0] == "memdecode" && len(rest) == 2 {
			mode = rest[1]
		} else if len(rest) != 1 {
			return "", bad("trailing tokens")
		}
		rt, err := s.goType(t)
		if err != nil {
			return "", badOp{err}
		}
		var consumed func() int
		open := func() (io.Reader, error) {
			if mode == "seek" {
				br := bytes.NewReader(data)
				consumed = func() int { return len(data) - br.Len() }
				return br, nil
			}
			cr, err := splitChunks(data, mode)
			if err != nil {
				return nil, err
			}
			consumed = func() int { return cr.pos }
			// every other non-seekable source has a Seek method that always fails (the read end
			// of a pipe is such a source)
			if pipeAlt++; pipeAlt%2 == 0 {
				return pipeLike{cr}, nil
			}
			return cr, nil
		}
		if toks[0] == "memdecode" {
			// TotalAlloc delta and time of one Decode call (the smaller of wall time and the CPU time of
			// the process; best of two when slow)
			var res string
			var alloc uint64
			best := time.Duration(1 << 62)
			for try := 0; try < 2; try++ {
				rd, err := open()
				if err != nil {
					return "", badOp{err}
				}
				p := newTarget(rt)
				var before, after runtime.MemStats
				runtime.GC()
				runtime.ReadMemStats(&before)
				cpu0, cpuOK := processCPU()
				start := time.Now()
				sr := binary.Default.Reader(rd)
				out := p.MethodByName("Decode").Call([]reflect.Value{reflect.ValueOf(sr)})
				el := time.Since(start)
				// work is what the process burned, not what the clock says: on a loaded machine a
				// decode of microseconds can wait its turn for longer than the bound
				if cpu1, ok := processCPU(); ok && cpuOK && cpu1-cpu0 < el {
					el = cpu1 - cpu0
				}
				runtime.ReadMemStats(&after)
				sr.Close()
				res = "ok"
				if asErr(out[0]) != nil {
					res = "err"
				}
				if try == 0 {
					alloc = after.TotalAlloc - before.TotalAlloc
				}
				if el < best {
					best = el
				}
				if el < 5*time.Millisecond {
					break
				}
			}
			return fmt.Sprintf("ok %d %s %d", alloc, res, best.Nanoseconds()), nil
		}
		rd, err := open()
		if err != nil {
			return "", badOp{err}
		}
		p := newTarget(rt)
		sr := binary.Default.Reader(rd)
		out := p.MethodByName("Decode").Call([]reflect.Value{reflect.ValueOf(sr)})
		sr.Close()
		if e := asErr(out[0]); e != nil {
			return "err", nil
		}
		g, err := s.dump(t, result(rt, p))
		if err != nil {
			return "", err
		}
		scribble(p, 0)
		return fmt.Sprintf("ok %d %s", consumed(), g.Text()), nil
	case "equals":
		t, rt, a, rest, err := s.parseTG(toks[1:])
		if err != nil {
			return "", orBad(err)
		}
		gb, rest, err := gtext.ParseG(rest)
		if err != nil || len(rest) != 0 {
			return "", orBad(err)
		}
		b, err := s.build(t, rt, gb)
		if err != nil {
			return "", err
		}
		out := method(a, "Equals").Call([]reflect.Value{b})
		return "ok " + b01(out[0].Bool()), nil
	case "weqg":
		// wire.ValuesAreEqual(a.ToWire(), b.ToWire())
		t, rt, a, rest, err := s.parseTG(toks[1:])
		if err != nil {
			return "", orBad(err)
		}
		gb, rest, err := gtext.ParseG(rest)
		if err != nil || len(rest) != 0 {
			return "", orBad(err)
		}
		b, err := s.build(t, rt, gb)
		if err != nil {
			return "", err
		}
		wa := method(a, "ToWire").Call(nil)
		wb := method(b, "ToWire").Call(nil)
		if asErr(wa[1]) != nil || asErr(wb[1]) != nil {
			return "err", nil
		}
		return "ok " + b01(wire.ValuesAreEqual(wa[0].Interface().(wire.Value), wb[0].Interface().(wire.Value))), nil
	case "weq":
		a, rest, err := parseWire(toks[1:])
		if err != nil {
			return "", badOp{err}
		}
		b, rest, err := parseWire(rest)
		if err != nil || len(rest) != 0 {
			return "", orBad(err)
		}
		return "ok " + b01(wire.ValuesAreEqual(a, b)), nil
	case "weqlazy":
		// wire.ValuesAreEqual, both ways round, on two values as binary.Default.Decode returns them
		// (containers still lazy): weqlazy <type code> <hex> <hex>
		if len(toks) != 4 {
			return "", bad("weqlazy <type> <hex> <hex>")
		}
		tc, err := strconv.Atoi(toks[1])
		if err != nil {
			return "", badOp{err}
		}
		var vs [2]wire.Value
		for i := 0; i < 2; i++ {
			data, err := unhex(toks[2+i])
			if err != nil {
				return "", badOp{err}
			}
			v, err := binary.Default.Decode(bytes.NewReader(data), wire.Type(tc))
			if err != nil {
				return "undecodable", nil
			}
			vs[i] = v
		}
		try := func(a, b wire.Value) (res string) {
			defer func() {
				if recover() != nil {
					res = "panic"
				}
			}()
			return b01(wire.ValuesAreEqual(a, b))
		}
		ab, ba := try(vs[0], vs[1]), try(vs[1], vs[0])
		if ab == ba && ab != "panic" {
			return "ok sym", nil
		}
		return "ok " + ab + " " + ba, nil
	case "default":
		if len(toks) != 2 {
			return "", bad("default <Name>")
		}
		if _, ok := s.env.Structs[toks[1]]; !ok {
			return "", bad("unknown struct")
		}
		fn, ok := s.reg.defaults[toks[1]]
		if !ok {
			return "none", nil
		}
		out := fn.Call(nil)
		g, err := s.dump(&gtext.T{K: gtext.KStruct, Name: toks[1]}, out[0])
		if err != nil {
			return "", err
		}
		scribble(out[0], 0)
		return "ok " + g.Text(), nil
	case "get", "isset":
		if len(toks) < 4 {
			return "", bad("short")
		}
		sd := s.env.Structs[toks[1]]
		idx, err := strconv.Atoi(toks[2])
		if sd == nil || err != nil || idx < 0 || idx >= len(sd.Fields) {
			return "", bad("unknown struct or field")
		}
		t := &gtext.T{K: gtext.KStruct, Name: toks[1]}
		rt, err := s.goType(t)
		if err != nil {
			return "", badOp{err}
		}
		g, rest, err := gtext.ParseG(toks[3:])
		if err != nil || len(rest) != 0 {
			return "", orBad(err)
		}
		recv, err := s.build(t, rt, g)
		if err != nil {
			return "", err
		}
		f := sd.Fields[idx]
		if toks[0] == "isset" {
			m := recv.MethodByName("IsSet" + f.GoName)
			if !m.IsValid() {
				return "nomethod", nil
			}
			return "ok " + b01(m.Call(nil)[0].Bool()), nil
		}
		m := recv.MethodByName("Get" + f.GoName)
		if !m.IsValid() {
			return "nomethod", nil
		}
		got := m.Call(nil)[0]
		r, err := s.dump(f.T, got)
		if err != nil {
			return "", err
		}
		scribble(got, 0)
		return "ok " + r.Text(), nil
	case "rawstring", "rawerror", "rawzap":
		_, _, v, rest, err := s.parseTG(toks[1:])
		if err != nil || len(rest) != 0 {
			return "", orBad(err)
		}
		switch toks[0] {
		case "rawstring":
			m := method(v, "String")
			if !m.IsValid() {
				return "nomethod", nil
			}
			return "ok " + hx([]byte(m.Call(nil)[0].String())), nil
		case "rawerror":
			m := method(v, "Error")
			if !m.IsValid() {
				return "nomethod", nil
			}
			return "ok " + hx([]byte(m.Call(nil)[0].String())), nil
		}
		enc := zapcore.NewMapObjectEncoder()
		var zerr error
		switch x := v.Interface().(type) {
		case zapcore.ObjectMarshaler:
			zerr = enc.AddObject("v", x)
		case zapcore.ArrayMarshaler:
			zerr = enc.AddArray("v", x)
		default:
			return "nomethod", nil
		}
		if zerr != nil {
			return "err", nil
		}
		js, err := json.Marshal(enc.Fields["v"])
		if err != nil {
			return "", err
		}
		return "ok " + hx(js), nil
	case "fieldtype":
		if len(toks) != 3 {
			return "", bad("fieldtype <Name> <idx>")
		}
		sd := s.env.Structs[toks[1]]
		idx, err := strconv.Atoi(toks[2])
		if sd == nil || err != nil || idx < 0 || idx >= len(sd.Fields) {
			return "", bad("unknown struct or field")
		}
		rt, ok := s.reg.types[toks[1]]
		if !ok {
			return "", bad("type not registered")
		}
		sf, ok := rt.FieldByName(sd.Fields[idx].GoName)
		if !ok {
			return "", shapef("struct %s has no Go field %s", toks[1], sd.Fields[idx].GoName)
		}
		return "ok " + hx([]byte(sf.Tag)) + " " + s.typeText(sf.Type), nil
	case "methods":
		if len(toks) != 2 {
			return "", bad("methods <Name>")
		}
		rt, ok := s.reg.types[toks[1]]
		if !ok {
			return "", bad("type not registered")
		}
		pt := reflect.PtrTo(rt)
		var ms []string
		for i := 0; i < pt.NumMethod(); i++ {
			ms = append(ms, pt.Method(i).Name)
		}
		return "ok " + strings.Join(ms, " "), nil
	case "const":
		if len(toks) < 3 {
			return "", bad("const <Name> T")
		}
		t, rest, err := gtext.ParseT(toks[2:])
		if err != nil || len(rest) != 0 {
			return "", orBad(err)
		}
		v, ok := s.reg.consts[toks[1]]
		if !ok {
			return "", bad("constant not registered")
		}
		g, err := s.dump(t, v)
		if err != nil {
			return "", err
		}
		return "ok " + g.Text(), nil
	case "hargs", "hwrap", "hunwrap", "hisexc", "hsig":
		return s.helperOp(toks)
	}
	return "", bad("unknown op %q", toks[0])
}

func orBad(err error) error {
	if err == nil {
		return bad("trailing tokens")
	}
	var se *shapeError
	if errors.As(err, &se) {
		return err
	}
	if _, ok := err.(badOp); ok {
		return err
	}
	return badOp{err}
}

func b01(b bool) string {
	if b {
		return "1"
	}
	return "0"
}

// newTarget allocates the receiver for FromWire/Decode: a pointer to the named type.
func newTarget(rt reflect.Type) reflect.Value {
	if rt.Kind() == reflect.Ptr {
		return reflect.New(rt.Elem())
	}
	return reflect.New(rt)
}

// result is the decoded value in value representation.
func result(rt reflect.Type, p reflect.Value) reflect.Value {
	if rt.Kind() == reflect.Ptr {
		return p
	}
	return p.Elem()
}

var _ stream.Reader

// Main runs the operation loop: one answer line per input line.
func Main(reg *Registry) {
	opTimeout := 20 * time.Second
	if v := os.Getenv("GOVALUE_OP_TIMEOUT"); v != "" {
		if d, err := time.ParseDuration(v); err == nil {
			opTimeout = d
		}
	}
	if os.Getenv("GOMEMLIMIT") == "" {
		debug.SetMemoryLimit(2 << 30)
	}
	flushEach := os.Getenv("GOVALUE_FLUSH") != ""
	s := &session{reg: reg, env: gtext.NewEnv()}
	in := bufio.NewReaderSize(os.Stdin, 1<<20)
	out := bufio.NewWriterSize(os.Stdout, 1<<16)
	defer out.Flush()
	type res struct{ ans string }
	for {
		line, err := in.ReadString('\n')
		if len(line) == 0 && err != nil {
			return
		}
		line = strings.TrimRight(line, "\r\n")
		ch := make(chan res, 1)
		go func() {
			defer func() {
				if r := recover(); r != nil {
					msg := strings.Replace(fmt.Sprint(r), "\n", " ", -1)
					if len(msg) > 300 {
						msg = msg[:300]
					}
					ch <- res{"panic " + msg}
				}
			}()
			ans, err := s.exec(line)
			if err != nil {
				var se *shapeError
				switch {
				case errors.As(err, &se):
					ans = "shape-mismatch " + strings.Replace(se.msg, "\n", " ", -1)
				default:
					ans = "bad-op " + strings.Replace(err.Error(), "\n", " ", -1)
				}
			}
			ch <- res{ans}
		}()
		select {
		case r := <-ch:
			out.WriteString(r.ans)
			out.WriteByte('\n')
		case <-time.After(opTimeout):
			out.WriteString("timeout\n")
			out.Flush()
			os.Exit(4)
		}
		if in.Buffered() == 0 || flushEach {
			out.Flush()
		}
		if err != nil {
			return
		}
	}
}

var pipeAlt int

type pipeLike struct{ r io.Reader }

func (p pipeLike) Read(b []byte) (int, error) { return p.r.Read(b) }
func (p pipeLike) Seek(int64, int) (int64, error) {
	return 0, errors.New("seek: illegal seek")
}

// processCPU is the CPU time (user + system) this process has used so far.
func processCPU() (time.Duration, bool) {
	var ru syscall.Rusage
	if err := syscall.Getrusage(syscall.RUSAGE_SELF, &ru); err != nil {
		return 0, false
	}
	return time.Duration(ru.Utime.Nano() + ru.Stime.Nano()), true
}
