package govalue

import (
	"errors"
	"fmt"
	"reflect"
	"strconv"
	"strings"

	"verifharness/internal/gtext"
)

// helperOp performs the service-helper operations (C19). fn is the registry key
// of a <Service>_<Func>_Helper; the args/result structs are <fn>_Args/<fn>_Result.
//
//	hargs   <fn> G1 … Gn            → ok G(args struct)
//	hwrap   <fn> val G | void | exc <i> G | nilexc <i> | wrapped <i> G | other   → ok G(result) | err
//	hunwrap <fn> G(result)          → ok val G | ok void | ok exc <i> G | ok other
//	hisexc  <fn> exc <i> G | other | nil                         → ok 0|1
//	hsig    <fn>                    → ok Args=<sig> | Wrap=<sig> | Unwrap=<sig>
func (s *session) helperOp(toks []string) (string, error) {
	if len(toks) < 2 {
		return "", bad("short helper op")
	}
	fn := toks[1]
	h, ok := s.reg.helpers[fn]
	if !ok {
		return "", bad("helper %s not registered", fn)
	}
	args := s.env.Structs[fn+"_Args"]
	if args == nil {
		return "", bad("args struct of %s not defined", fn)
	}
	res := s.env.Structs[fn+"_Result"]
	resT := &gtext.T{K: gtext.KStruct, Name: fn + "_Result"}
	field := func(name string) reflect.Value { return h.FieldByName(name) }
	hasSuccess := res != nil && res.Kind == "result"
	excField := func(i int) (*gtext.FieldDef, error) {
		if res == nil {
			return nil, bad("no result struct")
		}
		j := i
		if hasSuccess {
			j++
		}
		if i < 0 || j >= len(res.Fields) {
			return nil, bad("exception index out of range")
		}
		return res.Fields[j], nil
	}
	switch toks[0] {
	case "hsig":
		var parts []string
		for _, n := range []string{"Args", "IsException", "WrapResponse", "UnwrapResponse"} {
			f := field(n)
			if f.IsValid() {
				parts = append(parts, n+"="+s.typeText(f.Type()))
			}
		}
		return "ok " + strings.Join(parts, " | "), nil
	case "hargs":
		f := field("Args")
		ft := f.Type()
		if ft.NumIn() != len(args.Fields) {
			return "", shapef("%s.Args takes %d parameters, schema has %d", fn, ft.NumIn(), len(args.Fields))
		}
		rest := toks[2:]
		in := make([]reflect.Value, ft.NumIn())
		for i := range in {
			g, r, err := gtext.ParseG(rest)
			if err != nil {
				return "", badOp{err}
			}
			rest = r
			v, err := s.build(args.Fields[i].T, ft.In(i), g)
			if err != nil {
				return "", err
			}
			in[i] = v
		}
		if len(rest) != 0 {
			return "", bad("trailing tokens")
		}
		out := f.Call(in)
		g, err := s.dump(&gtext.T{K: gtext.KStruct, Name: fn + "_Args"}, out[0])
		if err != nil {
			return "", err
		}
		return "ok " + g.Text(), nil
	case "hwrap":
		f := field("WrapResponse")
		if !f.IsValid() || len(toks) < 3 {
			return "nomethod", nil
		}
		ft := f.Type()
		var in []reflect.Value
		var errv reflect.Value = reflect.Zero(errType)
		success := reflect.Value{}
		if hasSuccess {
			success = reflect.Zero(ft.In(0))
		}
		switch toks[2] {
		case "val":
			if !hasSuccess {
				return "", bad("void function")
			}
			g, rest, err := gtext.ParseG(toks[3:])
			if err != nil || len(rest) != 0 {
				return "", orBad(err)
			}
			success, err = s.build(res.Fields[0].T, ft.In(0), g)
			if err != nil {
				return "", err
			}
		case "void":
			if hasSuccess {
				return "", bad("non-void function")
			}
		case "exc", "nilexc", "wrapped":
			if len(toks) < 4 {
				return "", bad("short")
			}
			i, err := strconv.Atoi(toks[3])
			if err != nil {
				return "", badOp{err}
			}
			fd, err := excField(i)
			if err != nil {
				return "", err
			}
			rt, err := s.goType(fd.T)
			if err != nil {
				return "", badOp{err}
			}
			var ev reflect.Value
			if toks[2] == "nilexc" {
				ev = reflect.Zero(rt)
			} else {
				g, rest, err := gtext.ParseG(toks[4:])
				if err != nil || len(rest) != 0 {
					return "", orBad(err)
				}
				if ev, err = s.build(fd.T, rt, g); err != nil {
					return "", err
				}
			}
			if !rt.Implements(errType) {
				return "", shapef("exception type %s does not implement error", rt)
			}
			errv = reflect.New(errType).Elem()
			errv.Set(ev)
			if toks[2] == "wrapped" {
				// an error of a type the function does not declare, with a declared exception in its chain
				errv = reflect.ValueOf(fmt.Errorf("while serving the request: %w", ev.Interface().(error))).Convert(errType)
			}
		case "other":
			errv = reflect.ValueOf(errors.New("not a declared exception")).Convert(errType)
		default:
			return "", bad("bad hwrap mode")
		}
		if hasSuccess {
			in = append(in, success)
		}
		in = append(in, errv)
		out := f.Call(in)
		if asErr(out[1]) != nil {
			return "err", nil
		}
		g, err := s.dump(resT, out[0])
		if err != nil {
			return "", err
		}
		return "ok " + g.Text(), nil
	case "hunwrap":
		f := field("UnwrapResponse")
		if !f.IsValid() {
			return "nomethod", nil
		}
		g, rest, err := gtext.ParseG(toks[2:])
		if err != nil || len(rest) != 0 {
			return "", orBad(err)
		}
		rv, err := s.build(resT, f.Type().In(0), g)
		if err != nil {
			return "", err
		}
		out := f.Call([]reflect.Value{rv})
		e := asErr(out[len(out)-1])
		if e == nil {
			if !hasSuccess {
				return "ok void", nil
			}
			sg, err := s.dump(res.Fields[0].T, out[0])
			if err != nil {
				return "", err
			}
			return "ok val " + sg.Text(), nil
		}
		ev := reflect.ValueOf(e)
		for j, fd := range res.Fields {
			if hasSuccess && j == 0 {
				continue
			}
			rt, err := s.goType(fd.T)
			if err == nil && ev.Type() == rt {
				eg, err := s.dump(fd.T, ev)
				if err != nil {
					return "", err
				}
				i := j
				if hasSuccess {
					i--
				}
				return fmt.Sprintf("ok exc %d %s", i, eg.Text()), nil
			}
		}
		return "ok other", nil
	case "hisexc":
		f := field("IsException")
		if !f.IsValid() || len(toks) < 3 {
			return "nomethod", nil
		}
		errv := reflect.Zero(errType)
		switch toks[2] {
		case "nil":
		case "other":
			errv = reflect.ValueOf(errors.New("x")).Convert(errType)
		case "exc":
			if len(toks) < 4 {
				return "", bad("short")
			}
			i, err := strconv.Atoi(toks[3])
			if err != nil {
				return "", badOp{err}
			}
			fd, err := excField(i)
			if err != nil {
				return "", err
			}
			rt, err := s.goType(fd.T)
			if err != nil {
				return "", badOp{err}
			}
			g, rest, err := gtext.ParseG(toks[4:])
			if err != nil || len(rest) != 0 {
				return "", orBad(err)
			}
			ev, err := s.build(fd.T, rt, g)
			if err != nil {
				return "", err
			}
			errv = reflect.New(errType).Elem()
			errv.Set(ev)
		default:
			return "", bad("bad hisexc mode")
		}
		return "ok " + b01(f.Call([]reflect.Value{errv})[0].Bool()), nil
	}
	return "", bad("unknown helper op")
}
