// Package rng is the single source of randomness of the harness: a splitmix64
// generator seeded from VERIF_SEED, so that every run replays exactly.
package rng

import (
	"os"
	"strconv"
)

type R struct{ s uint64 }

func New(seed uint64) *R { return &R{s: seed} }

// FromEnv seeds from VERIF_SEED (default 1), mixed with a per-stream salt.
func FromEnv(salt uint64) *R {
	seed := uint64(1)
	if v := os.Getenv("VERIF_SEED"); v != "" {
		if n, err := strconv.ParseInt(v, 10, 64); err == nil {
			seed = uint64(n)
		}
	}
	// hash seed and salt separately first: successive seeds must give unrelated streams
	// (seed*gamma+salt would make seed n+1 the stream of seed n shifted by one draw).
	h := New(seed)
	a := h.U64()
	h2 := New(salt ^ 0xD6E8FEB86659FD93)
	b := h2.U64()
	r := New(a ^ (b << 1) ^ (b >> 7))
	r.U64()
	return r
}

func Seed() int64 {
	if v := os.Getenv("VERIF_SEED"); v != "" {
		if n, err := strconv.ParseInt(v, 10, 64); err == nil {
			return n
		}
	}
	return 1
}

func (r *R) U64() uint64 {
	r.s += 0x9E3779B97F4A7C15
	z := r.s
	z = (z ^ (z >> 30)) * 0xBF58476D1CE4E5B9
	z = (z ^ (z >> 27)) * 0x94D049BB133111EB
	return z ^ (z >> 31)
}

// Intn returns a value in [0,n).
func (r *R) Intn(n int) int {
	if n <= 0 {
		return 0
	}
	return int(r.U64() % uint64(n))
}

func (r *R) Bool() bool { return r.U64()&1 == 1 }

// Chance is true with probability num/den.
func (r *R) Chance(num, den int) bool { return r.Intn(den) < num }

func (r *R) Bytes(n int) []byte {
	b := make([]byte, n)
	for i := range b {
		b[i] = byte(r.U64())
	}
	return b
}

// Fork derives an independent generator.
func (r *R) Fork() *R { return New(r.U64()) }

// Pick returns one of the given ints.
func (r *R) Pick(xs ...int) int { return xs[r.Intn(len(xs))] }
