// Package report is the result file a harness command hands to bin/check.
package report

import (
	"encoding/json"
	"hash/fnv"
	"os"
	"sort"
)

type Disagreement struct {
	Kind   string `json:"kind"`   // which observable / oracle
	Input  string `json:"input"`  // replayable input (op line or description)
	Impl   string `json:"impl"`   // what thriftrw did
	Model  string `json:"model"`  // what the Lean model did (if involved)
	Oracle string `json:"oracle"` // which property clause fails on the implementation ("" if only a model/impl mismatch)
}

type Known struct {
	ID   string `json:"id"`
	What string `json:"what"`
}

type Report struct {
	Property           string                    `json:"property"`
	Evaluations        int                       `json:"evaluations"`
	DistinctNontrivial int                       `json:"distinct_nontrivial"`
	Rule               string                    `json:"rule"`
	Samples            []string                  `json:"samples"`
	Histograms         map[string]map[string]int `json:"histograms"`
	Disagreements      []Disagreement            `json:"disagreements"`
	Known              []Known                   `json:"known_findings"`
	Notes              []string                  `json:"notes"`
	Exhaustive         bool                      `json:"exhaustive,omitempty"`

	distinct map[uint64]struct{}
}

func New(prop string) *Report {
	return &Report{Property: prop, Histograms: map[string]map[string]int{}, distinct: map[uint64]struct{}{}}
}

func (r *Report) Hist(name, key string) {
	m := r.Histograms[name]
	if m == nil {
		m = map[string]int{}
		r.Histograms[name] = m
	}
	m[key]++
}

// Case records one evaluation; key identifies the canonical input; nontrivial
// says whether it exercised a non-trivial branch by the check's stated rule.
func (r *Report) Case(key string, nontrivial bool) {
	r.Evaluations++
	if nontrivial {
		// keyed by a 64-bit hash: inputs can be megabytes and runs millions of cases
		h := fnv.New64a()
		h.Write([]byte(key))
		k := h.Sum64()
		if _, ok := r.distinct[k]; !ok {
			r.distinct[k] = struct{}{}
			r.DistinctNontrivial++
		}
	}
}

func (r *Report) Sample(s string) {
	if len(r.Samples) < 12 {
		if len(s) > 600 {
			s = s[:600] + "…"
		}
		r.Samples = append(r.Samples, s)
	}
}

func (r *Report) Disagree(d Disagreement) {
	if len(d.Input) > 1<<16 {
		d.Input = d.Input[:1<<16] + "…(truncated)"
	}
	if len(r.Disagreements) < 50 {
		r.Disagreements = append(r.Disagreements, d)
	}
}

func (r *Report) Write(path string) error {
	sort.Slice(r.Disagreements, func(i, j int) bool { return len(r.Disagreements[i].Input) < len(r.Disagreements[j].Input) })
	if r.Disagreements == nil {
		r.Disagreements = []Disagreement{}
	}
	if r.Known == nil {
		r.Known = []Known{}
	}
	if r.Samples == nil {
		r.Samples = []string{}
	}
	if r.Notes == nil {
		r.Notes = []string{}
	}
	b, err := json.MarshalIndent(r, "", " ")
	if err != nil {
		return err
	}
	return os.WriteFile(path, b, 0o644)
}
