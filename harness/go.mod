module verifharness

go 1.22.1

require (
	go.uber.org/thriftrw v0.0.0
	go.uber.org/zap v1.9.1
)

require (
	dario.cat/mergo v1.0.0 // indirect
	github.com/ProtonMail/go-crypto v0.0.0-20230828082145-3c4c8a2d2371 // indirect
	github.com/anmitsu/go-shlex v0.0.0-20200514113438-38f4b401e2be // indirect
	github.com/cloudflare/circl v1.3.7 // indirect
	github.com/cyphar/filepath-securejoin v0.2.4 // indirect
	github.com/emirpasic/gods v1.18.1 // indirect
	github.com/fatih/structtag v1.2.0 // indirect
	github.com/go-git/gcfg v1.5.1-0.20230307220236-3a3c6141e376 // indirect
	github.com/go-git/go-billy/v5 v5.5.0 // indirect
	github.com/go-git/go-git/v5 v5.11.0 // indirect
	github.com/golang/groupcache v0.0.0-20210331224755-41bb18bfe9da // indirect
	github.com/jbenet/go-context v0.0.0-20150711004518-d14ea06fba99 // indirect
	github.com/kevinburke/ssh_config v1.2.0 // indirect
	github.com/pjbgf/sha1cd v0.3.0 // indirect
	github.com/sergi/go-diff v1.1.0 // indirect
	github.com/skeema/knownhosts v1.2.1 // indirect
	github.com/xanzy/ssh-agent v0.3.3 // indirect
	go.uber.org/atomic v1.3.2 // indirect
	go.uber.org/multierr v1.1.0 // indirect
	golang.org/x/crypto v0.31.0 // indirect
	golang.org/x/net v0.33.0 // indirect
	golang.org/x/sys v0.28.0 // indirect
	golang.org/x/tools v0.21.1-0.20240531212143-b6235391adb3 // indirect
	gopkg.in/warnings.v0 v0.1.2 // indirect
)

replace go.uber.org/thriftrw => /repo
