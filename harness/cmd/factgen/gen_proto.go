package main

// Facts for M-Proto (properties C16 C17 C18), extracted syntactically (go/parser only):
//
//   apiVersion, featureServiceGenerator     plugin/api/api.go
//   fastPathFrameSize                       internal/frame/reader.go
//   pluginExecPrefix, multiplexServices,
//   clientMethods (+ the bytes of "<Service>:<method>")   internal/plugin, plugin/api clients
//   handshakeChecks                         the comparisons NewTransportHandle makes
//   dotdotChecks                            strings.Contains(path, "..") in serviceGenerator.Generate
//   closeShape / flagHandleShape            calls of transportHandle.Close / Flag.Handle's error branch
//   generatePhases                          order of the phases of gen.Generate (path check, then the write loop, last)
//   sendShape                               frame.Client.Send: lock held across write+read
//   multiGenerateShape                      MultiServiceGenerator.Generate: merge under the mutex
//   poolVars, poolSites, poolStructs        every sync.Pool of protocol/binary: element type,
//                                           Get sites with the fields assigned afterwards, Put sites
//                                           with the fields cleared before and uses after
//
// Sites are keyed by file + enclosing function, never by line number.

import (
	"fmt"
	"go/ast"
	"go/token"
	"go/types"
	"os"
	"path/filepath"
	"sort"
	"strings"
)

func init() { generators = append(generators, genProto) }

func protoCallName(e ast.Expr) string {
	switch x := e.(type) {
	case *ast.CallExpr:
		return protoCallName(x.Fun)
	case *ast.SelectorExpr:
		return protoCallName(x.X) + "." + x.Sel.Name
	case *ast.Ident:
		return x.Name
	case *ast.TypeAssertExpr:
		return protoCallName(x.X)
	case *ast.ParenExpr:
		return protoCallName(x.X)
	case *ast.StarExpr:
		return protoCallName(x.X)
	case *ast.IndexExpr:
		return protoCallName(x.X)
	}
	return "?"
}

// protoCalls lists, in source order, the calls inside n whose name passes keep; deferred
// calls are prefixed with "defer ".
func protoCalls(n ast.Node, keep func(string) bool) []string {
	var out []string
	deferred := map[*ast.CallExpr]bool{}
	ast.Inspect(n, func(x ast.Node) bool {
		switch c := x.(type) {
		case *ast.DeferStmt:
			deferred[c.Call] = true
		case *ast.CallExpr:
			name := protoCallName(c)
			if keep(name) {
				if deferred[c] {
					name = "defer " + name
				}
				out = append(out, name)
			}
		}
		return true
	})
	return out
}

func protoMethod(f *file, recv, name string) *ast.FuncDecl {
	for _, d := range f.f.Decls {
		fd, ok := d.(*ast.FuncDecl)
		if !ok || fd.Name.Name != name {
			continue
		}
		if recv == "" && fd.Recv == nil {
			return fd
		}
		if fd.Recv != nil && len(fd.Recv.List) == 1 {
			t := fd.Recv.List[0].Type
			if s, ok := t.(*ast.StarExpr); ok {
				t = s.X
			}
			if id, ok := t.(*ast.Ident); ok && id.Name == recv {
				return fd
			}
		}
	}
	return nil
}

func (l *leanFile) strTable(name string, rows [][]string) {
	fmt.Fprintf(&l.sb, "def %s : List (List String) := [", name)
	for i, r := range rows {
		if i > 0 {
			l.sb.WriteString(",\n  ")
		}
		l.sb.WriteString("[")
		for j, x := range r {
			if j > 0 {
				l.sb.WriteString(", ")
			}
			fmt.Fprintf(&l.sb, "%q", x)
		}
		l.sb.WriteString("]")
	}
	l.sb.WriteString("]\n")
}

func (l *leanFile) natLists(name string, rows [][]byte) {
	fmt.Fprintf(&l.sb, "def %s : List (List Nat) := [", name)
	for i, r := range rows {
		if i > 0 {
			l.sb.WriteString(", ")
		}
		l.sb.WriteString("[")
		for j, x := range r {
			if j > 0 {
				l.sb.WriteString(", ")
			}
			fmt.Fprintf(&l.sb, "%d", x)
		}
		l.sb.WriteString("]")
	}
	l.sb.WriteString("]\n")
}

func protoStringArgs(n ast.Node, fn string, argIdx int) []string {
	var out []string
	ast.Inspect(n, func(x ast.Node) bool {
		if c, ok := x.(*ast.CallExpr); ok && protoCallName(c) == fn && len(c.Args) > argIdx {
			if bl, ok := c.Args[argIdx].(*ast.BasicLit); ok && bl.Kind == token.STRING {
				out = append(out, strings.Trim(bl.Value, "\"`"))
			}
		}
		return true
	})
	return out
}

func genProto() {
	l := newLean("GenProto", "plugin API constants, protocol names, code-shape facts of the plugin host, the generator's phases, the frame client, and every sync.Pool site of protocol/binary")

	api := parse("plugin/api/api.go").consts()
	l.nat("apiVersion", api["APIVersion"])
	l.nat("featureServiceGenerator", api["FeatureServiceGenerator"])
	l.nat("fastPathFrameSize", parse("internal/frame/reader.go").consts()["_fastPathFrameSize"])

	flagF := parse("internal/plugin/flag.go")
	prefix := ""
	if v := flagF.consts()["_pluginExecPrefix"]; v != nil {
		prefix = strings.Trim(v.ExactString(), "\"")
	}
	l.str("pluginExecPrefix", prefix)

	transport := parse("internal/plugin/transport.go")
	services := protoStringArgs(transport.f, "multiplex.NewClient", 0)
	l.strList("multiplexServices", services)
	var methods []string
	for _, f := range []string{"plugin/api/plugin_client.go", "plugin/api/servicegenerator_client.go"} {
		methods = append(methods, protoStringArgs(parse(f).f, "c.client.Send", 0)...)
	}
	l.strList("clientMethods", methods)
	// "<service>:<method>" as the multiplexing client builds them, paired by service file
	var names [][]byte
	pair := map[string]string{"handshake": "Plugin", "goodbye": "Plugin", "generate": "ServiceGenerator"}
	for _, m := range []string{"handshake", "generate", "goodbye"} {
		found := false
		for _, x := range methods {
			found = found || x == m
		}
		svcOK := false
		for _, s := range services {
			svcOK = svcOK || s == pair[m]
		}
		if found && svcOK {
			names = append(names, []byte(pair[m]+":"+m))
		} else {
			names = append(names, nil)
		}
	}
	l.natLists("requestNames", names)

	// NewTransportHandle: which fields of the handshake are compared with what
	var checks []string
	if fd := protoMethod(transport, "", "NewTransportHandle"); fd != nil {
		ast.Inspect(fd.Body, func(x ast.Node) bool {
			if ifs, ok := x.(*ast.IfStmt); ok {
				if be, ok := ifs.Cond.(*ast.BinaryExpr); ok && (be.Op == token.NEQ || be.Op == token.EQL) {
					checks = append(checks, exprString(be.X)+" "+be.Op.String()+" "+exprString(be.Y))
				}
			}
			return true
		})
	}
	l.strList("handshakeChecks", checks)
	var dd []string
	if fd := protoMethod(transport, "serviceGenerator", "Generate"); fd != nil {
		dd = protoStringArgs(fd.Body, "strings.Contains", 1)
	}
	l.strList("dotdotChecks", dd)
	// internal/multiplex: how the handler cuts the envelope name and how the client builds it
	var muxSplit, muxJoin []string
	if fd := protoMethod(parse("internal/multiplex/handler.go"), "Handler", "Handle"); fd != nil {
		ast.Inspect(fd.Body, func(x ast.Node) bool {
			if c, ok := x.(*ast.CallExpr); ok && strings.HasPrefix(protoCallName(c), "strings.") {
				muxSplit = append(muxSplit, types.ExprString(c))
			}
			if ix, ok := x.(*ast.IndexExpr); ok {
				muxSplit = append(muxSplit, types.ExprString(ix))
			}
			return true
		})
	}
	if fd := protoMethod(parse("internal/multiplex/client.go"), "client", "Send"); fd != nil {
		ast.Inspect(fd.Body, func(x ast.Node) bool {
			if c, ok := x.(*ast.CallExpr); ok {
				for _, a := range c.Args {
					if be, ok := a.(*ast.BinaryExpr); ok {
						muxJoin = append(muxJoin, types.ExprString(be))
					}
				}
			}
			return true
		})
	}
	l.strList("muxSplit", muxSplit)
	l.strList("muxJoin", muxJoin)
	featureGate := []string{}
	if fd := protoMethod(transport, "transportHandle", "ServiceGenerator"); fd != nil {
		ast.Inspect(fd.Body, func(x ast.Node) bool {
			if ix, ok := x.(*ast.IndexExpr); ok {
				featureGate = append(featureGate, exprString(ix.X)+"["+exprString(ix.Index)+"]")
			}
			return true
		})
	}
	l.strList("featureGate", featureGate)
	closeKeep := func(n string) bool {
		return strings.HasSuffix(n, ".Goodbye") || strings.HasSuffix(n, ".Close") || strings.HasSuffix(n, "Running.Swap")
	}
	var closeShape []string
	if fd := protoMethod(transport, "transportHandle", "Close"); fd != nil {
		closeShape = protoCalls(fd.Body, closeKeep)
	}
	l.strList("closeShape", closeShape)
	var flagShape, flagsShape []string
	if fd := protoMethod(flagF, "Flag", "Handle"); fd != nil {
		flagShape = protoCalls(fd.Body, func(n string) bool {
			return n == "process.NewClient" || n == "NewTransportHandle" || strings.HasSuffix(n, ".Close")
		})
	}
	if fd := protoMethod(flagF, "Flags", "Handle"); fd != nil {
		flagsShape = protoCalls(fd.Body, func(n string) bool {
			return n == "concurrent.Range" || n == "f.Handle" || strings.HasSuffix(n, ".Close") || strings.HasSuffix(n, "ock.Lock") || strings.HasSuffix(n, "ock.Unlock")
		})
	}
	l.strList("flagHandleShape", flagShape)
	l.strList("flagsHandleShape", flagsShape)
	var procClose []string
	if fd := protoMethod(parse("internal/process/client.go"), "Client", "Close"); fd != nil {
		procClose = protoCalls(fd.Body, func(n string) bool {
			return strings.HasSuffix(n, ".Close") || strings.HasSuffix(n, ".Wait") || strings.HasSuffix(n, "running.Swap")
		})
	}
	l.strList("processCloseShape", procClose)
	var mainShape []string
	if fd := protoMethod(parse("main.go"), "", "do"); fd != nil {
		mainShape = protoCalls(fd.Body, func(n string) bool {
			switch n {
			case "compile.Compile", "findCommonAncestor", "verifyAncestry", "gopts.Plugins.Handle", "pluginHandle.Close", "gen.Generate", "pluginHandle.ServiceGenerator":
				return true
			}
			return false
		})
	}
	l.strList("mainShape", mainShape)

	// gen.Generate: everything is produced before the first write
	var phases []string
	if fd := protoMethod(parse("gen/generate.go"), "", "Generate"); fd != nil {
		phases = protoCalls(fd.Body, func(n string) bool {
			switch n {
			case "generateModule", "addFile", "generate", "m.Walk", "plug.Generate", "mergeFiles", "checkFilePaths", "os.MkdirAll", "os.WriteFile", "filepath.Join":
				return true
			}
			return false
		})
	}
	l.strList("generatePhases", phases)

	// frame.Client.Send
	var send []string
	if fd := protoMethod(parse("internal/frame/client.go"), "Client", "Send"); fd != nil {
		send = protoCalls(fd.Body, func(string) bool { return true })
	}
	l.strList("sendShape", send)
	var multi []string
	if fd := protoMethod(parse("internal/plugin/multi.go"), "MultiServiceGenerator", "Generate"); fd != nil {
		multi = protoCalls(fd.Body, func(n string) bool {
			return n == "concurrent.Range" || n == "sg.Generate" || strings.HasSuffix(n, "ock.Lock") || strings.HasSuffix(n, "ock.Unlock")
		})
		// the map writes must come after lock.Lock: record assignments to index expressions
		ast.Inspect(fd.Body, func(x ast.Node) bool {
			if as, ok := x.(*ast.AssignStmt); ok {
				for _, lhs := range as.Lhs {
					if ix, ok := lhs.(*ast.IndexExpr); ok {
						multi = append(multi, "write "+exprString(ix.X))
					}
				}
			}
			return true
		})
	}
	l.strList("multiGenerateShape", multi)

	genPools(l)
	l.write("GenProto")
}

// genPools: every sync.Pool in protocol/binary.
func genPools(l *leanFile) {
	dir := filepath.Join(*repo, "protocol/binary")
	ents, _ := os.ReadDir(dir)
	var files []string
	for _, e := range ents {
		n := e.Name()
		if strings.HasSuffix(n, ".go") && !strings.HasSuffix(n, "_test.go") {
			files = append(files, n)
		}
	}
	sort.Strings(files)
	parsed := map[string]*file{}
	pools := map[string]bool{}
	var poolVars [][]string
	structs := map[string][]string{}
	for _, n := range files {
		f := parse("protocol/binary/" + n)
		parsed[n] = f
		for _, d := range f.f.Decls {
			gd, ok := d.(*ast.GenDecl)
			if !ok {
				continue
			}
			for _, s := range gd.Specs {
				switch sp := s.(type) {
				case *ast.ValueSpec:
					for i, v := range sp.Values {
						if cl, ok := v.(*ast.CompositeLit); ok && protoCallName(cl.Type) == "sync.Pool" && i < len(sp.Names) {
							pools[sp.Names[i].Name] = true
							// fields assigned inside New
							var newFields []string
							ast.Inspect(cl, func(x ast.Node) bool {
								if as, ok := x.(*ast.AssignStmt); ok {
									for _, lhs := range as.Lhs {
										if se, ok := lhs.(*ast.SelectorExpr); ok {
											newFields = append(newFields, se.Sel.Name)
										}
									}
								}
								return true
							})
							poolVars = append(poolVars, append([]string{n, sp.Names[i].Name}, newFields...))
						}
					}
				case *ast.TypeSpec:
					if st, ok := sp.Type.(*ast.StructType); ok {
						var fs []string
						for _, fl := range st.Fields.List {
							for _, nm := range fl.Names {
								fs = append(fs, nm.Name)
							}
						}
						structs[sp.Name.Name] = fs
					}
				}
			}
		}
	}
	l.strTable("poolVars", poolVars)
	var sites [][]string
	elem := map[string]string{}
	for _, n := range files {
		f := parsed[n]
		for _, d := range f.f.Decls {
			fd, ok := d.(*ast.FuncDecl)
			if !ok || fd.Body == nil {
				continue
			}
			fname := fd.Name.Name
			if fd.Recv != nil && len(fd.Recv.List) == 1 {
				fname = protoCallName(fd.Recv.List[0].Type) + "." + fname
			}
			// Get sites: x := pool.Get().(*T) or return pool.Get().(*T)
			ast.Inspect(fd.Body, func(x ast.Node) bool {
				ta, ok := x.(*ast.TypeAssertExpr)
				if !ok {
					return true
				}
				call, ok := ta.X.(*ast.CallExpr)
				if !ok {
					return true
				}
				sel, ok := call.Fun.(*ast.SelectorExpr)
				if !ok || sel.Sel.Name != "Get" || !pools[protoCallName(sel.X)] {
					return true
				}
				pool := protoCallName(sel.X)
				elem[pool] = protoCallName(ta.Type)
				// the variable it is assigned to, and the fields of it assigned in this function
				holder := ""
				ast.Inspect(fd.Body, func(y ast.Node) bool {
					if as, ok := y.(*ast.AssignStmt); ok && len(as.Rhs) == 1 && as.Rhs[0] == ast.Expr(ta) {
						holder = exprString(as.Lhs[0])
					}
					return true
				})
				var fields []string
				if holder != "" {
					ast.Inspect(fd.Body, func(y ast.Node) bool {
						if as, ok := y.(*ast.AssignStmt); ok {
							for _, lhs := range as.Lhs {
								if se, ok := lhs.(*ast.SelectorExpr); ok && exprString(se.X) == holder {
									fields = append(fields, se.Sel.Name)
								}
							}
						}
						return true
					})
				}
				sort.Strings(fields)
				fields = protoUniq(fields)
				sites = append(sites, append([]string{n, fname, pool, "get"}, fields...))
				return true
			})
			// Put sites: pool.Put(v): fields of v assigned before it, uses of v after it
			for i, st := range fd.Body.List {
				es, ok := st.(*ast.ExprStmt)
				if !ok {
					continue
				}
				call, ok := es.X.(*ast.CallExpr)
				if !ok {
					continue
				}
				sel, ok := call.Fun.(*ast.SelectorExpr)
				if !ok || sel.Sel.Name != "Put" || !pools[protoCallName(sel.X)] || len(call.Args) != 1 {
					continue
				}
				v := exprString(call.Args[0])
				var cleared []string
				for _, before := range fd.Body.List[:i] {
					if as, ok := before.(*ast.AssignStmt); ok {
						for _, lhs := range as.Lhs {
							if se, ok := lhs.(*ast.SelectorExpr); ok && exprString(se.X) == v {
								cleared = append(cleared, se.Sel.Name)
							}
						}
					}
				}
				after := 0
				for _, later := range fd.Body.List[i+1:] {
					ast.Inspect(later, func(y ast.Node) bool {
						if id, ok := y.(*ast.Ident); ok && id.Name == v {
							after++
						}
						return true
					})
				}
				sort.Strings(cleared)
				row := append([]string{n, fname, protoCallName(sel.X), "put"}, cleared...)
				if after > 0 {
					row = append(row, fmt.Sprintf("USED-AFTER-PUT:%d", after))
				}
				sites = append(sites, row)
			}
			// any other Put (nested, deferred, conditional) is reported as irregular
			ast.Inspect(fd.Body, func(x ast.Node) bool {
				call, ok := x.(*ast.CallExpr)
				if !ok {
					return true
				}
				sel, ok := call.Fun.(*ast.SelectorExpr)
				if !ok || sel.Sel.Name != "Put" || !pools[protoCallName(sel.X)] {
					return true
				}
				top := false
				for _, st := range fd.Body.List {
					if es, ok := st.(*ast.ExprStmt); ok && es.X == ast.Expr(call) {
						top = true
					}
				}
				if !top {
					sites = append(sites, []string{n, fname, protoCallName(sel.X), "put-irregular"})
				}
				return true
			})
		}
	}
	// wrappers: functions that only `return pool.Get().(*T)`; their call sites are the real Get sites
	wrappers := map[string]string{}
	for _, row := range sites {
		if row[3] == "get" && len(row) == 4 {
			wrappers[row[1]] = row[2]
		}
	}
	for _, n := range files {
		f := parsed[n]
		for _, d := range f.f.Decls {
			fd, ok := d.(*ast.FuncDecl)
			if !ok || fd.Body == nil {
				continue
			}
			fname := fd.Name.Name
			if fd.Recv != nil && len(fd.Recv.List) == 1 {
				fname = protoCallName(fd.Recv.List[0].Type) + "." + fname
			}
			ast.Inspect(fd.Body, func(x ast.Node) bool {
				as, ok := x.(*ast.AssignStmt)
				if !ok || len(as.Rhs) != 1 || len(as.Lhs) != 1 {
					return true
				}
				call, ok := as.Rhs[0].(*ast.CallExpr)
				if !ok || wrappers[protoCallName(call)] == "" {
					return true
				}
				holder := exprString(as.Lhs[0])
				var fields []string
				// assignments to the holder's fields in the enclosing block, up to the next re-assignment
				ast.Inspect(fd.Body, func(y ast.Node) bool {
					blk, ok := y.(*ast.BlockStmt)
					if !ok {
						return true
					}
					for i, st := range blk.List {
						if st != ast.Stmt(as) {
							continue
						}
						for _, later := range blk.List[i+1:] {
							if a2, ok := later.(*ast.AssignStmt); ok {
								for _, lhs := range a2.Lhs {
									if se, ok := lhs.(*ast.SelectorExpr); ok && exprString(se.X) == holder {
										fields = append(fields, se.Sel.Name)
									}
								}
							}
						}
					}
					return true
				})
				sort.Strings(fields)
				sites = append(sites, append([]string{n, fname, wrappers[protoCallName(call)], "get-via-" + protoCallName(call)}, protoUniq(fields)...))
				return true
			})
		}
	}
	sort.Slice(sites, func(i, j int) bool { return strings.Join(sites[i], "\x00") < strings.Join(sites[j], "\x00") })
	l.strTable("poolSites", sites)
	var ps [][]string
	var pnames []string
	for p := range elem {
		pnames = append(pnames, p)
	}
	sort.Strings(pnames)
	for _, p := range pnames {
		ps = append(ps, append([]string{p, elem[p]}, structs[elem[p]]...))
	}
	l.strTable("poolStructs", ps)
}

func protoUniq(xs []string) []string {
	var out []string
	for i, x := range xs {
		if i == 0 || x != xs[i-1] {
			out = append(out, x)
		}
	}
	return out
}
