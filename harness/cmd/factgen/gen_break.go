package main

// Facts for M-Break (property C20): every `for … range` over a MAP in internal/compare and
// internal/git, keyed by (file, enclosing function, ranged expression text) — the model's
// visit-order parameters must cover exactly those — and the message templates of the
// diagnostics compare.go reports (the harness and the model classify diagnostics by them).
//
// The two packages are type-checked from source. Imports inside the thriftrw module are
// type-checked from source recursively; every other import (standard library, go-git, …)
// is replaced by an empty package and the resulting errors are ignored, so nothing is
// executed and no `go list` is needed. A ranged expression whose type cannot be resolved
// that way is reported separately (`unresolvedRangeSites`) and pinned by an obligation.

import (
	"fmt"
	"go/ast"
	"go/build"
	"go/parser"
	"go/token"
	"go/types"
	"os"
	"path"
	"path/filepath"
	"sort"
	"strconv"
	"strings"
)

func init() { generators = append(generators, genBreak) }

type breakImporter struct {
	fset    *token.FileSet
	modPath string
	pkgs    map[string]*types.Package
}

func (im *breakImporter) parseDir(rel string) []*ast.File {
	dir := filepath.Join(*repo, rel)
	ents, err := os.ReadDir(dir)
	if err != nil {
		return nil
	}
	var files []*ast.File
	for _, e := range ents {
		n := e.Name()
		if e.IsDir() || !strings.HasSuffix(n, ".go") || strings.HasSuffix(n, "_test.go") {
			continue
		}
		if ok, err := build.Default.MatchFile(dir, n); err != nil || !ok {
			continue // build-constrained away (e.g. the `verif` hooks)
		}
		f, err := parser.ParseFile(im.fset, filepath.Join(dir, n), nil, parser.SkipObjectResolution)
		if err != nil {
			fmt.Fprintf(os.Stderr, "factgen: %v\n", err)
			os.Exit(2)
		}
		files = append(files, f)
	}
	return files
}

func (im *breakImporter) check(pkgPath string, files []*ast.File, info *types.Info) *types.Package {
	conf := types.Config{Importer: im, Error: func(error) {}, FakeImportC: true}
	pkg, _ := conf.Check(pkgPath, im.fset, files, info)
	return pkg
}

func (im *breakImporter) Import(p string) (*types.Package, error) {
	if pkg, ok := im.pkgs[p]; ok {
		return pkg, nil
	}
	var pkg *types.Package
	if p == im.modPath || strings.HasPrefix(p, im.modPath+"/") {
		rel := strings.TrimPrefix(strings.TrimPrefix(p, im.modPath), "/")
		if files := im.parseDir(rel); len(files) > 0 {
			pkg = im.check(p, files, nil)
		}
	}
	if pkg == nil {
		pkg = types.NewPackage(p, path.Base(p))
		pkg.MarkComplete()
	}
	im.pkgs[p] = pkg
	return pkg, nil
}

func modulePath() string {
	b, err := os.ReadFile(filepath.Join(*repo, "go.mod"))
	if err != nil {
		fmt.Fprintf(os.Stderr, "factgen: %v\n", err)
		os.Exit(2)
	}
	for _, l := range strings.Split(string(b), "\n") {
		if strings.HasPrefix(l, "module ") {
			return strings.TrimSpace(strings.TrimPrefix(l, "module "))
		}
	}
	return ""
}

func leanTriples(sb *strings.Builder, name string, xs [][3]string) {
	fmt.Fprintf(sb, "def %s : List (String × String × String) := [", name)
	for i, x := range xs {
		if i > 0 {
			sb.WriteString(", ")
		}
		fmt.Fprintf(sb, "(%q, %q, %q)", x[0], x[1], x[2])
	}
	sb.WriteString("]\n")
}

func genBreak() {
	l := newLean("GenBreak", "map-range sites of internal/compare and internal/git; diagnostic message templates of compare.go")
	im := &breakImporter{fset: token.NewFileSet(), modPath: modulePath(), pkgs: map[string]*types.Package{}}
	var mapSites, unresolved [][3]string
	var templates [][2]string
	for _, rel := range []string{"internal/compare", "internal/git"} {
		files := im.parseDir(rel)
		if len(files) == 0 {
			fmt.Fprintf(os.Stderr, "factgen: no Go files in %s\n", rel)
			os.Exit(2)
		}
		info := &types.Info{Types: map[ast.Expr]types.TypeAndValue{}}
		im.check(im.modPath+"/"+rel, files, info)
		for _, f := range files {
			fname := filepath.ToSlash(strings.TrimPrefix(im.fset.Position(f.Pos()).Filename, filepath.Clean(*repo)+string(filepath.Separator)))
			for _, d := range f.Decls {
				fd, ok := d.(*ast.FuncDecl)
				if !ok || fd.Body == nil {
					continue
				}
				ast.Inspect(fd.Body, func(n ast.Node) bool {
					switch x := n.(type) {
					case *ast.RangeStmt:
						site := [3]string{fname, fd.Name.Name, types.ExprString(x.X)}
						t := info.TypeOf(x.X)
						if t == nil || t == types.Typ[types.Invalid] {
							unresolved = append(unresolved, site)
						} else if _, ok := t.Underlying().(*types.Map); ok {
							mapSites = append(mapSites, site)
						}
					case *ast.KeyValueExpr:
						if k, ok := x.Key.(*ast.Ident); ok && k.Name == "Message" && rel == "internal/compare" {
							if c, ok := x.Value.(*ast.CallExpr); ok && len(c.Args) > 0 {
								if lit, ok := c.Args[0].(*ast.BasicLit); ok && lit.Kind == token.STRING {
									if s, err := strconv.Unquote(lit.Value); err == nil {
										templates = append(templates, [2]string{fd.Name.Name, s})
									}
								}
							}
						}
					}
					return true
				})
			}
		}
	}
	less := func(xs [][3]string) func(i, j int) bool {
		return func(i, j int) bool {
			for k := 0; k < 3; k++ {
				if xs[i][k] != xs[j][k] {
					return xs[i][k] < xs[j][k]
				}
			}
			return false
		}
	}
	sort.SliceStable(mapSites, less(mapSites))
	sort.SliceStable(unresolved, less(unresolved))
	leanTriples(&l.sb, "mapRangeSites", mapSites)
	leanTriples(&l.sb, "unresolvedRangeSites", unresolved)
	fmt.Fprintf(&l.sb, "def messageTemplates : List (String × String) := [")
	for i, t := range templates {
		if i > 0 {
			l.sb.WriteString(", ")
		}
		fmt.Fprintf(&l.sb, "(%q, %q)", t[0], t[1])
	}
	l.sb.WriteString("]\n")
	l.write("GenBreak")
}
