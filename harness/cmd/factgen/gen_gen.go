package main

import (
	"go/ast"
	"go/constant"
	"go/token"
	"sort"
	"strconv"
)

func init() { generators = append(generators, genGen) }

// mapLiteralKeys returns the string keys of the composite literal a package-level
// variable is initialised with (e.g. `var reservedIdentifiers = map[string]struct{}{…}`).
func (f *file) mapLiteralKeys(varName string) []string {
	var keys []string
	for _, d := range f.f.Decls {
		gd, ok := d.(*ast.GenDecl)
		if !ok || gd.Tok != token.VAR {
			continue
		}
		for _, s := range gd.Specs {
			vs := s.(*ast.ValueSpec)
			for i, n := range vs.Names {
				if n.Name != varName || i >= len(vs.Values) {
					continue
				}
				if cl, ok := vs.Values[i].(*ast.CompositeLit); ok {
					for _, e := range cl.Elts {
						if kv, ok := e.(*ast.KeyValueExpr); ok {
							if bl, ok := kv.Key.(*ast.BasicLit); ok && bl.Kind == token.STRING {
								if s, err := strconv.Unquote(bl.Value); err == nil {
									keys = append(keys, s)
								}
							}
						}
					}
				}
			}
		}
	}
	sort.Strings(keys)
	return keys
}

func strConst(env map[string]constant.Value, name string) string {
	if v := env[name]; v != nil && v.Kind() == constant.String {
		return constant.StringVal(v)
	}
	return "?"
}

func genGen() {
	l := newLean("GenGen", "generator facts: redaction / no-log annotations, reserved identifiers, initialisms")
	field := parse("gen/field.go")
	fenv := field.consts()
	l.str("redactLabel", strConst(fenv, "RedactLabel"))
	l.str("redactContent", strConst(fenv, "_redactContent"))
	l.strList("reservedIdentifiers", field.mapLiteralKeys("reservedIdentifiers"))
	zenv := parse("gen/zap.go").consts()
	l.str("noZapLabel", strConst(zenv, "NoZapLabel"))
	l.strList("commonInitialisms", parse("gen/string.go").mapLiteralKeys("commonInitialisms"))
	l.write("GenGen")
}
