package main

// Facts for M-Compile (C07 C08 C09 C10): the numeric limits and integer
// conversions compile/ uses, and every `for … range <map>` statement of the
// package, keyed by (file, enclosing function, text of the ranged expression).
// Nothing is executed: the package is parsed and type-checked with go/types
// (imports are not resolved; only locally declared types are needed to know
// that a ranged expression is a map).

import (
	"bytes"
	"fmt"
	"go/ast"
	"go/importer"
	"go/parser"
	"go/printer"
	"go/token"
	"go/types"
	"os"
	"path/filepath"
	"sort"
	"strings"
)

func init() { generators = append(generators, genCompile) }

type failingImporter struct{ def types.Importer }

func (f failingImporter) Import(path string) (*types.Package, error) {
	// Standard-library packages resolve through the default importer when
	// export data is available; anything else stays unresolved (errors are
	// ignored, locally declared types are all that is needed).
	if p, err := f.def.Import(path); err == nil {
		return p, nil
	}
	return nil, fmt.Errorf("not resolved: %s", path)
}

func nodeText(fset *token.FileSet, n ast.Node) string {
	var b bytes.Buffer
	printer.Fprint(&b, fset, n)
	return strings.Join(strings.Fields(b.String()), " ")
}

func funcKey(fd *ast.FuncDecl) string {
	if fd.Recv != nil && len(fd.Recv.List) == 1 {
		t := fd.Recv.List[0].Type
		if s, ok := t.(*ast.StarExpr); ok {
			t = s.X
		}
		if id, ok := t.(*ast.Ident); ok {
			return id.Name + "." + fd.Name.Name
		}
	}
	return fd.Name.Name
}

func genCompile() {
	dir := filepath.Join(*repo, "compile")
	fset := token.NewFileSet()
	entries, err := os.ReadDir(dir)
	if err != nil {
		fmt.Fprintln(os.Stderr, "factgen:", err)
		os.Exit(2)
	}
	var files []*ast.File
	var names []string
	for _, e := range entries {
		n := e.Name()
		if !strings.HasSuffix(n, ".go") || strings.HasSuffix(n, "_test.go") || strings.HasPrefix(n, "verif_") {
			continue
		}
		f, err := parser.ParseFile(fset, filepath.Join(dir, n), nil, 0)
		if err != nil {
			fmt.Fprintln(os.Stderr, "factgen:", err)
			os.Exit(2)
		}
		files = append(files, f)
		names = append(names, n)
	}
	info := &types.Info{Types: map[ast.Expr]types.TypeAndValue{}}
	conf := types.Config{Importer: failingImporter{importer.Default()}, Error: func(error) {}}
	conf.Check("compile", fset, files, info) // errors ignored on purpose

	type site struct{ file, fn, expr string }
	var sites []site
	var convs []site
	var idCheck, enumPrev, enumCheck string
	var rangeCalls []string
	var walkOrder []string // Module.Walk: how it ranges over the includes and what it sorts
	for i, f := range files {
		for _, d := range f.Decls {
			fd, ok := d.(*ast.FuncDecl)
			if !ok || fd.Body == nil {
				continue
			}
			key := funcKey(fd)
			ast.Inspect(fd.Body, func(n ast.Node) bool {
				switch x := n.(type) {
				case *ast.RangeStmt:
					if key == "Module.Walk" {
						part := func(e ast.Expr) string {
							if e == nil {
								return "-"
							}
							return nodeText(fset, e)
						}
						walkOrder = append(walkOrder, fmt.Sprintf("range %s, %s over %s", part(x.Key), part(x.Value), nodeText(fset, x.X)))
					}
					if tv, ok := info.Types[x.X]; ok && tv.Type != nil {
						if _, isMap := tv.Type.Underlying().(*types.Map); isMap {
							sites = append(sites, site{names[i], key, nodeText(fset, x.X)})
						}
					}
				case *ast.CallExpr:
					if sel, ok := x.Fun.(*ast.SelectorExpr); ok && key == "Module.Walk" && nodeText(fset, sel.X) == "sort" {
						walkOrder = append(walkOrder, nodeText(fset, x))
					}
					if sel, ok := x.Fun.(*ast.SelectorExpr); ok && sel.Sel.Name == "inRange" && key == "ConstantInt.Link" {
						rangeCalls = append(rangeCalls, nodeText(fset, x))
					}
					if id, ok := x.Fun.(*ast.Ident); ok && len(x.Args) == 1 {
						switch id.Name {
						case "int8", "int16", "int32", "int64", "uint8", "uint16", "uint32", "uint64", "int", "float64", "float32":
							convs = append(convs, site{names[i], key, nodeText(fset, x)})
						}
					}
				case *ast.IfStmt:
					if key == "compileField" && idCheck == "" {
						t := nodeText(fset, x.Cond)
						if strings.Contains(t, "src.ID") {
							idCheck = t
						}
					}
					if key == "compileEnum" && enumCheck == "" {
						t := nodeText(fset, x.Cond)
						if strings.Contains(t, "math.") {
							enumCheck = t
						}
					}
				case *ast.AssignStmt:
					if key == "compileEnum" && len(x.Lhs) == 1 && nodeText(fset, x.Lhs[0]) == "prev" && x.Tok == token.DEFINE {
						enumPrev = nodeText(fset, x)
					}
				}
				return true
			})
		}
	}
	sortSites := func(s []site) {
		sort.Slice(s, func(a, b int) bool {
			if s[a].file != s[b].file {
				return s[a].file < s[b].file
			}
			if s[a].fn != s[b].fn {
				return s[a].fn < s[b].fn
			}
			return s[a].expr < s[b].expr
		})
	}
	sortSites(sites)
	sortSites(convs)

	l := newLean("GenCompile", "compile/: map-range sites, integer conversions, bounds checks for field ids / enum values / integer constants, enum start value")
	emit := func(name string, s []site) {
		fmt.Fprintf(&l.sb, "def %s : List (String × String × String) := [", name)
		for i, x := range s {
			if i > 0 {
				l.sb.WriteString(",\n  ")
			}
			fmt.Fprintf(&l.sb, "(%q, %q, %q)", x.file, x.fn, x.expr)
		}
		l.sb.WriteString("]\n")
	}
	emit("mapRangeSites", sites)
	emit("conversions", convs)
	l.str("fieldIdCheck", idCheck)
	l.str("enumPrevInit", enumPrev)
	l.str("enumValueCheck", enumCheck)
	l.strList("intRangeChecks", rangeCalls)
	l.strList("walkOrder", walkOrder)
	l.write("GenCompile")
}
