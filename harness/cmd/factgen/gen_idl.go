package main

// Facts for M-Idl (C11): read from the *text* of idl/internal/lex.rl and thrift.y — ragel and
// goyacc are not available, nothing is executed. Keyword alternatives (word → token), the
// reservedKeyword list, the symbol class, the token patterns the scanner model was written
// against (whitespace-normalised), and the base_type_name table of the grammar.

import (
	"fmt"
	"os"
	"path/filepath"
	"regexp"
	"strings"
)

func init() { generators = append(generators, genIdl) }

func readText(rel string) string {
	b, err := os.ReadFile(filepath.Join(*repo, rel))
	if err != nil {
		fmt.Fprintf(os.Stderr, "factgen: %v\n", err)
		os.Exit(2)
	}
	return string(b)
}

func (l *leanFile) pairList(name string, kv [][2]string) {
	fmt.Fprintf(&l.sb, "def %s : List (String × String) := [", name)
	for i, p := range kv {
		if i > 0 {
			l.sb.WriteString(", ")
		}
		fmt.Fprintf(&l.sb, "(%s, %s)", leanStr(p[0]), leanStr(p[1]))
	}
	l.sb.WriteString("]\n")
}

// leanStr quotes a string as a Lean string literal (ASCII; backslash, quote, control chars escaped).
func leanStr(s string) string {
	var sb strings.Builder
	sb.WriteByte('"')
	for _, c := range []byte(s) {
		switch {
		case c == '\\':
			sb.WriteString(`\\`)
		case c == '"':
			sb.WriteString(`\"`)
		case c == '\n':
			sb.WriteString(`\n`)
		case c == '\t':
			sb.WriteString(`\t`)
		case c < 0x20 || c > 0x7e:
			fmt.Fprintf(&sb, "\\x%02x", c)
		default:
			sb.WriteByte(c)
		}
	}
	sb.WriteByte('"')
	return sb.String()
}

var spaceRun = regexp.MustCompile(`\s+`)

func genIdl() {
	l := newLean("GenIdl", "scanner keyword alternatives, reserved words, symbol class and token patterns (idl/internal/lex.rl, as text); base_type_name table (idl/internal/thrift.y, as text)")
	rl := readText("idl/internal/lex.rl")

	// keyword alternatives of `main := |* … *|`:   'word' __ => { tok = TOKEN; fbreak; };
	kwRe := regexp.MustCompile(`(?m)^\s*'([A-Za-z0-9_]+)'\s+__\s*=>\s*\{\s*tok\s*=\s*([A-Z0-9_]+)\s*;\s*fbreak;\s*\};`)
	var kws [][2]string
	for _, m := range kwRe.FindAllStringSubmatch(rl, -1) {
		kws = append(kws, [2]string{m[1], m[2]})
	}
	l.pairList("keywords", kws)

	// reservedKeyword = ( 'a' | 'b' … ) @{ … }
	var reserved []string
	if i := strings.Index(rl, "reservedKeyword ="); i >= 0 {
		rest := rl[i:]
		if j := strings.Index(rest, ") @{"); j >= 0 {
			for _, m := range regexp.MustCompile(`'([^']+)'`).FindAllStringSubmatch(rest[:j], -1) {
				reserved = append(reserved, m[1])
			}
		}
	}
	l.strList("reserved", reserved)

	// named machine definitions, whitespace-normalised:  name = … ;
	defs := map[string]string{}
	defRe := regexp.MustCompile(`(?ms)^\s+(ws|newline|__|line_comment|multiline_comment|docstring|symbol|literal|identifier|integer|hex_integer|double)\s*=\s(.*?);\s*$`)
	for _, m := range defRe.FindAllStringSubmatch(rl, -1) {
		if _, seen := defs[m[1]]; !seen {
			defs[m[1]] = strings.TrimSpace(spaceRun.ReplaceAllString(m[2], " "))
		}
	}
	symbols := ""
	if s, ok := defs["symbol"]; ok && strings.HasPrefix(s, "[") && strings.HasSuffix(s, "]") {
		symbols = strings.ReplaceAll(s[1:len(s)-1], `\`, "")
	}
	l.str("symbols", symbols)
	var pats [][2]string
	for _, n := range []string{"ws", "newline", "__", "line_comment", "multiline_comment", "docstring", "literal", "identifier", "integer", "hex_integer", "double"} {
		pats = append(pats, [2]string{n, defs[n]})
	}
	l.pairList("patterns", pats)

	// the non-keyword alternatives of the scanner, in order (what is a token, what is skipped)
	var alts []string
	if i := strings.Index(rl, "main := |*"); i >= 0 {
		body := rl[i:]
		if j := strings.Index(body, "*|;"); j >= 0 {
			body = body[:j]
		}
		altRe := regexp.MustCompile(`(?m)^\s{12}(\(?[a-zA-Z_| ]+\)?(?: __)?)\s*(=>|;)`)
		for _, m := range altRe.FindAllStringSubmatch(body, -1) {
			kind := "skip"
			if m[2] == "=>" {
				kind = "token"
			}
			if strings.TrimSpace(m[1]) != "fbreak" {
				alts = append(alts, strings.TrimSpace(m[1])+" : "+kind)
			}
		}
	}
	l.strList("alternatives", alts)

	// thrift.y  base_type_name : BOOL { $$ = ast.BoolTypeID } | …
	y := readText("idl/internal/thrift.y")
	var bases [][2]string
	if loc := regexp.MustCompile(`(?m)^base_type_name\s*$`).FindStringIndex(y); loc != nil {
		rest := y[loc[0]:]
		if j := strings.Index(rest, ";"); j >= 0 {
			for _, m := range regexp.MustCompile(`([A-Z0-9]+)\s*\{\s*\$\$\s*=\s*ast\.([A-Za-z0-9]+)\s*\}`).FindAllStringSubmatch(rest[:j], -1) {
				bases = append(bases, [2]string{m[1], m[2]})
			}
		}
	}
	l.pairList("baseTypeNames", bases)
	l.write("GenIdl")
}
