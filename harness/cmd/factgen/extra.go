package main

// genExtra is extended as further models come online (gen/, idl/, compile/ facts).
func genExtra() {}
