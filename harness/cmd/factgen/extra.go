package main

// generators is the registry of fact generators; each gen_<area>.go file appends
// its own in an init function, e.g.
//
//	func init() { generators = append(generators, genIdl) }
var generators []func()

func genExtra() {
	for _, g := range generators {
		g()
	}
}
