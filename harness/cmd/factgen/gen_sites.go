package main

import (
	"go/ast"
	"go/token"
	"go/types"
	"path/filepath"
	"sort"
	"strings"
)

func init() { generators = append(generators, genSites) }

// mapRangeSitesOf type-checks a repository package from source (repository imports resolved
// recursively, everything else faked) and returns every `for … range <map-typed expr>` as
// (file, enclosing function, ranged expression text), sorted.
func mapRangeSitesOf(rel string) [][3]string {
	im := &breakImporter{fset: token.NewFileSet(), modPath: modulePath(), pkgs: map[string]*types.Package{}}
	files := im.parseDir(rel)
	info := &types.Info{Types: map[ast.Expr]types.TypeAndValue{}}
	im.check(im.modPath+"/"+rel, files, info)
	var out [][3]string
	for _, f := range files {
		name := filepath.Base(im.fset.Position(f.Pos()).Filename)
		if strings.HasPrefix(name, "verif_") {
			continue
		}
		for _, d := range f.Decls {
			fd, ok := d.(*ast.FuncDecl)
			if !ok || fd.Body == nil {
				continue
			}
			key := funcKey(fd)
			ast.Inspect(fd.Body, func(n ast.Node) bool {
				if rs, ok := n.(*ast.RangeStmt); ok {
					if tv, ok := info.Types[rs.X]; ok && tv.Type != nil {
						if _, isMap := tv.Type.Underlying().(*types.Map); isMap {
							// the calls made in the loop body are part of the fact: a call with a
							// side effect (say, one that hands out import names) makes the iteration
							// order observable even if what the loop collects is sorted afterwards
							calls := map[string]bool{}
							ast.Inspect(rs.Body, func(b ast.Node) bool {
								if ce, ok := b.(*ast.CallExpr); ok {
									calls[nodeText(im.fset, ce.Fun)] = true
								}
								return true
							})
							var cs []string
							for c := range calls {
								cs = append(cs, c)
							}
							sort.Strings(cs)
							out = append(out, [3]string{name, key, nodeText(im.fset, rs.X) + " | body calls: " + strings.Join(cs, ", ")})
						}
					}
				}
				return true
			})
		}
	}
	sort.Slice(out, func(a, b int) bool {
		for i := 0; i < 3; i++ {
			if out[a][i] != out[b][i] {
				return out[a][i] < out[b][i]
			}
		}
		return false
	})
	return out
}

func genSites() {
	l := newLean("GenSites", "every `for … range <map>` in gen/ and internal/plugin (code generation determinism, C10)")
	leanTriples(&l.sb, "genMapRangeSites", mapRangeSitesOf("gen"))
	leanTriples(&l.sb, "pluginMapRangeSites", mapRangeSitesOf("internal/plugin"))
	l.write("GenSites")
}
