package main

// The property oracle: the set of diagnostics the DOCUMENTED rules prescribe for a
// pair of (source-level) programs, computed without thriftrw and without the Lean
// model. Matching is by name / field id, as the property is stated:
//
//   removed service      a service name present in the old version of a file and absent from the new
//                        version of that file (the file itself may be gone)            -> DS file svc
//   removed method       service still there, method name gone                          -> RM file svc method
//   added required field struct-like type present on both sides, a field id that is new,
//                        effectively required                                           -> AR file struct field
//   optional -> required same field id, effectively optional before, effectively required after -> OR file struct field
//   type name changed    same field id, declared type name differs                      -> TC file struct field
//
// "effectively required" = declared required without a default (DESIGN §5 C20, Interpretation).
// Everything else (additions, deletions of types/fields/files, reorderings, include
// changes, renames of fields, …) must be silent.

import (
	"fmt"
	"sort"
	"strings"
)

type Diag struct {
	Class    string // DS RM AR OR TC
	File     string
	A, B     string // service / struct ; method / field
	From     string // TC only (implementation and model side)
	To       string
	QualOnly bool // oracle side, TC only: the declared names differ only in include qualifiers (shape of D32)
}

// key identifies a diagnostic by what the property names: class, file, subject.
func (d Diag) key() string {
	switch d.Class {
	case "DS":
		return "DS|" + escPath(d.File) + "|" + esc(d.A)
	default:
		return d.Class + "|" + escPath(d.File) + "|" + esc(d.A) + "|" + esc(d.B)
	}
}

// render is the driver's answer syntax (ThriftVerif/Break/Text.lean `Diag.render`).
func (d Diag) render() string {
	if d.Class == "TC" {
		return d.key() + "|" + esc(d.From) + "|" + esc(d.To)
	}
	return d.key()
}

func esc(s string) string {
	var sb strings.Builder
	for i := 0; i < len(s); i++ {
		c := s[i]
		switch {
		case c >= 'a' && c <= 'z', c >= 'A' && c <= 'Z', c >= '0' && c <= '9', c == '_', c == '.', c == '<', c == '>', c == ',', c == '-':
			sb.WriteByte(c)
		default:
			fmt.Fprintf(&sb, "%%%02X", c)
		}
	}
	if sb.Len() == 0 {
		return "%"
	}
	return sb.String()
}

func escPath(p string) string {
	parts := strings.Split(p, "/")
	for i := range parts {
		parts[i] = esc(parts[i])
	}
	return strings.Join(parts, "/")
}

func renderSet(ds []Diag) string {
	seen := map[string]bool{}
	var xs []string
	for _, d := range ds {
		r := d.render()
		if !seen[r] {
			seen[r] = true
			xs = append(xs, r)
		}
	}
	if len(xs) == 0 {
		return "-"
	}
	sort.Strings(xs)
	return strings.Join(xs, " ")
}

func structLikes(f *File) map[string]*Def {
	m := map[string]*Def{}
	for _, d := range f.Defs {
		if d.structLike() {
			m[d.Name] = d
		}
	}
	return m
}

func services(f *File) map[string]*Def {
	m := map[string]*Def{}
	for _, d := range f.Defs {
		if d.Kind == "service" {
			m[d.Name] = d
		}
	}
	return m
}

// expected computes the documented diagnostics for old -> new.
func expected(old, new *Prog) []Diag {
	var out []Diag
	for _, of := range old.Files {
		nf := new.file(of.Path)
		var nsv, nst map[string]*Def
		if nf != nil {
			nsv, nst = services(nf), structLikes(nf)
		}
		for _, d := range of.Defs {
			switch {
			case d.Kind == "service":
				ns := nsv[d.Name]
				if ns == nil {
					out = append(out, Diag{Class: "DS", File: of.Path, A: d.Name})
					continue
				}
				have := map[string]bool{}
				for _, m := range ns.Methods {
					have[m.Name] = true
				}
				for _, m := range d.Methods {
					if !have[m.Name] {
						out = append(out, Diag{Class: "RM", File: of.Path, A: d.Name, B: m.Name})
					}
				}
			case d.structLike():
				nd := nst[d.Name]
				if nd == nil {
					continue
				}
				byID := map[int]*Field{}
				for _, x := range d.Fields {
					byID[x.ID] = x
				}
				for _, y := range nd.Fields {
					x := byID[y.ID]
					if x == nil {
						if y.effRequired() {
							out = append(out, Diag{Class: "AR", File: of.Path, A: nd.Name, B: y.Name})
						}
						continue
					}
					if !x.effRequired() && y.effRequired() {
						out = append(out, Diag{Class: "OR", File: of.Path, A: nd.Name, B: y.Name})
					}
					if x.Type.declName() != y.Type.declName() {
						out = append(out, Diag{Class: "TC", File: of.Path, A: nd.Name, B: y.Name,
							From: x.Type.unqualName(), To: y.Type.unqualName(),
							QualOnly: x.Type.unqualName() == y.Type.unqualName()})
					}
				}
			}
		}
	}
	return out
}

// literalReadingExtra counts the diagnostics a LITERAL reading of "required" (declared
// `required`, default or not) would add to / remove from `expected` — evidence only.
func literalReadingExtra(old, new *Prog) (n int) {
	for _, of := range old.Files {
		nf := new.file(of.Path)
		if nf == nil {
			continue
		}
		nst := structLikes(nf)
		for _, d := range of.Defs {
			nd := nst[d.Name]
			if !d.structLike() || nd == nil {
				continue
			}
			byID := map[int]*Field{}
			for _, x := range d.Fields {
				byID[x.ID] = x
			}
			for _, y := range nd.Fields {
				x := byID[y.ID]
				eff, lit := false, false
				if x == nil {
					eff, lit = y.effRequired(), y.Req == 2
				} else {
					eff, lit = !x.effRequired() && y.effRequired(), x.Req != 2 && y.Req == 2
				}
				if eff != lit {
					n++
				}
			}
		}
	}
	return n
}
