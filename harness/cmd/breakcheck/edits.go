package main

// The edit script: every edit kind the property names (breaking, additive,
// structural) as a rewrite of the abstract program that keeps it compilable
// (references to deleted / renamed things are repaired, as a developer would).

import (
	"path"
	"strings"
)

type editor struct {
	g *gen
	p *Prog // the version being edited (HEAD)
}

type editKind struct {
	name  string
	group string // breaking | reqdefault | additive | structural | neutral | finding
	may   string // diagnostic classes the edit can cause (space separated)
	w     int    // weight in the main stream
	apply func(e *editor) bool
}

// ---- pickers ----

func (e *editor) pickFile() *File {
	if len(e.p.Files) == 0 {
		return nil
	}
	return e.p.Files[e.g.r.Intn(len(e.p.Files))]
}

type fd struct {
	f *File
	d *Def
}

func (e *editor) defs(pred func(*Def) bool) []fd {
	var out []fd
	for _, f := range e.p.Files {
		for _, d := range f.Defs {
			if pred(d) {
				out = append(out, fd{f, d})
			}
		}
	}
	return out
}

func (e *editor) pickDef(pred func(*Def) bool) (fd, bool) {
	c := e.defs(pred)
	if len(c) == 0 {
		return fd{}, false
	}
	return c[e.g.r.Intn(len(c))], true
}

func isStructOrEx(d *Def) bool { return d.Kind == "struct" || d.Kind == "exception" }
func isService(d *Def) bool    { return d.Kind == "service" }

type fdx struct {
	f *File
	d *Def
	x *Field
}

func (e *editor) pickField(dp func(*Def) bool, fp func(*Field) bool) (fdx, bool) {
	var c []fdx
	for _, t := range e.defs(dp) {
		for _, x := range t.d.Fields {
			if fp(x) {
				c = append(c, fdx{t.f, t.d, x})
			}
		}
	}
	if len(c) == 0 {
		return fdx{}, false
	}
	return c[e.g.r.Intn(len(c))], true
}

func maxID(d *Def) int {
	m := 0
	for _, x := range d.Fields {
		if x.ID > m {
			m = x.ID
		}
	}
	return m
}

func removeDef(f *File, d *Def) {
	for i, x := range f.Defs {
		if x == d {
			f.Defs = append(f.Defs[:i:i], f.Defs[i+1:]...)
			return
		}
	}
}

func removeField(d *Def, x *Field) {
	for i, y := range d.Fields {
		if y == x {
			d.Fields = append(d.Fields[:i:i], d.Fields[i+1:]...)
			return
		}
	}
}

// ---- reference repair ----

// refersTo reports whether t (inside file g) names a type `name` of file target for which hit() holds.
func (e *editor) mentions(t *TypeExpr, g, target *File, name string) bool {
	found := false
	t.walk(func(r *TypeExpr) {
		if !r.isRef() {
			return
		}
		if name != "" && r.Name != name {
			return
		}
		if (g == target && r.Qual == "") || (g != target && r.Qual == target.qual() && includes(g, target.Path)) {
			found = true
		}
	})
	return found
}

func includes(g *File, p string) bool {
	for _, i := range g.Includes {
		if i == p {
			return true
		}
	}
	return false
}

// dropRefs repairs every use of type `name` of file target ("" = every type of that file
// as seen from OTHER files) after its deletion: fields are removed or retyped, typedefs
// retargeted, arguments retyped, results made void, throws entries removed.
func (e *editor) dropRefs(target *File, name string) {
	for _, g := range e.p.Files {
		if name == "" && g == target {
			continue
		}
		for _, d := range g.Defs {
			if d.structLike() {
				var keep []*Field
				for _, x := range d.Fields {
					if !e.mentions(x.Type, g, target, name) {
						keep = append(keep, x)
						continue
					}
					if e.g.r.Bool() && d.Kind != "union" {
						continue // field removed
					}
					x.Type = base("string")
					x.Def = ""
					keep = append(keep, x)
				}
				d.Fields = keep
			}
			if d.Target != nil && e.mentions(d.Target, g, target, name) {
				d.Target = base("string")
			}
			for _, m := range d.Methods {
				if m.Ret != nil && e.mentions(m.Ret, g, target, name) {
					m.Ret = nil
				}
				for _, a := range m.Args {
					if e.mentions(a.Type, g, target, name) {
						a.Type = base("i32")
					}
				}
				var keep []*Field
				for _, a := range m.Throws {
					if !e.mentions(a.Type, g, target, name) {
						keep = append(keep, a)
					}
				}
				m.Throws = keep
			}
		}
	}
}

// renameRefs rewrites every reference to type oldName of file target.
func (e *editor) renameRefs(target *File, oldName, newName string) {
	for _, g := range e.p.Files {
		for _, d := range g.Defs {
			d.typeExprs(func(r *TypeExpr) {
				if r.isRef() && r.Name == oldName &&
					((g == target && r.Qual == "") || (g != target && r.Qual == target.qual() && includes(g, target.Path))) {
					r.Name = newName
				}
			})
		}
	}
}

// fixExtends rewrites `extends` clauses naming service svc of file target ("" = any service of it).
func (e *editor) fixExtends(target *File, svc, newName string) {
	for _, g := range e.p.Files {
		for _, d := range g.Defs {
			if d.Kind != "service" || d.Extends == "" {
				continue
			}
			q, n := "", d.Extends
			if i := strings.Index(n, "."); i >= 0 {
				q, n = n[:i], n[i+1:]
			}
			hit := (g == target && q == "") || (g != target && q == target.qual() && includes(g, target.Path))
			if !hit || (svc != "" && n != svc) {
				continue
			}
			if newName == "" {
				d.Extends = ""
			} else if q == "" {
				d.Extends = newName
			} else {
				d.Extends = q + "." + newName
			}
		}
	}
}

// reach reports whether file a (transitively) includes path b.
func (e *editor) reach(a *File, b string, seen map[string]bool) bool {
	if a == nil || seen[a.Path] {
		return false
	}
	seen[a.Path] = true
	for _, i := range a.Includes {
		if i == b || e.reach(e.p.file(i), b, seen) {
			return true
		}
	}
	return false
}

func (e *editor) qualInUse(g *File, q string) bool {
	used := false
	for _, d := range g.Defs {
		d.typeExprs(func(r *TypeExpr) {
			if r.isRef() && r.Qual == q {
				used = true
			}
		})
		if strings.HasPrefix(d.Extends, q+".") {
			used = true
		}
	}
	return used
}

func (e *editor) bigComment() string {
	var sb strings.Builder
	for i := 0; i < 12; i++ {
		sb.WriteString(e.g.fresh("note"))
		for j := 0; j < 6; j++ {
			sb.WriteString(" " + e.g.fresh("w") + strings.Repeat("x", e.g.r.Intn(9)))
		}
		if i < 11 {
			sb.WriteString("\n")
		}
	}
	return sb.String()
}

// ---- the edit kinds ----

var editKinds []editKind

func init() {
	editKinds = []editKind{
		// ---- breaking (documented) ----
		{"removeService", "breaking", "DS", 8, func(e *editor) bool {
			t, ok := e.pickDef(isService)
			if !ok {
				return false
			}
			removeDef(t.f, t.d)
			e.fixExtends(t.f, t.d.Name, "")
			return true
		}},
		{"removeMethod", "breaking", "RM", 10, func(e *editor) bool {
			t, ok := e.pickDef(func(d *Def) bool { return isService(d) && len(d.Methods) > 0 })
			if !ok {
				return false
			}
			i := e.g.r.Intn(len(t.d.Methods))
			t.d.Methods = append(t.d.Methods[:i:i], t.d.Methods[i+1:]...)
			return true
		}},
		{"addRequiredField", "breaking", "AR", 10, func(e *editor) bool {
			t, ok := e.pickDef(isStructOrEx)
			if !ok {
				return false
			}
			x := &Field{ID: maxID(t.d) + 1 + e.g.r.Intn(3), Name: e.g.fresh("f"), Req: 2, Type: e.g.genType(e.p, t.f, 1, true)}
			e.insertField(t.d, x)
			return true
		}},
		{"optionalToRequired", "breaking", "OR", 10, func(e *editor) bool {
			t, ok := e.pickField(isStructOrEx, func(x *Field) bool { return x.Req == 1 })
			if !ok {
				return false
			}
			t.x.Req = 2
			t.x.Def = ""
			return true
		}},
		{"changeFieldType", "breaking", "TC", 10, func(e *editor) bool {
			t, ok := e.pickField((*Def).structLike, func(x *Field) bool { return true })
			if !ok {
				return false
			}
			old := t.x.Type.unqualName()
			for i := 0; i < 20; i++ {
				var nt *TypeExpr
				if t.x.Def != "" {
					nt = e.g.baseType()
					if nt.Base == "binary" {
						continue
					}
				} else {
					nt = e.g.genType(e.p, t.f, 2, true)
				}
				if nt.unqualName() != old {
					t.x.Type = nt
					if t.x.Def != "" {
						t.x.Def = e.g.literal(nt.Base)
					}
					return true
				}
			}
			return false
		}},
		{"renameService", "breaking", "DS", 3, func(e *editor) bool {
			t, ok := e.pickDef(isService)
			if !ok {
				return false
			}
			n := e.g.fresh("Svc")
			e.fixExtends(t.f, t.d.Name, n)
			t.d.Name = n
			return true
		}},
		{"renameMethod", "breaking", "RM", 3, func(e *editor) bool {
			t, ok := e.pickDef(func(d *Def) bool { return isService(d) && len(d.Methods) > 0 })
			if !ok {
				return false
			}
			t.d.Methods[e.g.r.Intn(len(t.d.Methods))].Name = e.g.fresh("m")
			return true
		}},
		{"renameType", "breaking", "TC", 4, func(e *editor) bool { // rename + all references follow: referencing fields change type name
			t, ok := e.pickDef(func(d *Def) bool { return d.isType() && !strings.HasPrefix(d.Name, "Common") })
			if !ok {
				return false
			}
			n := e.g.fresh(kindPrefix[t.d.Kind])
			e.renameRefs(t.f, t.d.Name, n)
			t.d.Name = n
			return true
		}},
		{"changeFieldID", "breaking", "AR", 4, func(e *editor) bool { // the old id disappears (silent), the new id is an added field
			t, ok := e.pickField((*Def).structLike, func(x *Field) bool { return true })
			if !ok {
				return false
			}
			t.x.ID = maxID(t.d) + 1 + e.g.r.Intn(3)
			return true
		}},
		{"swapFieldIDs", "breaking", "TC OR", 4, func(e *editor) bool { // compare matches by id, not by name
			t, ok := e.pickDef(func(d *Def) bool { return d.structLike() && len(d.Fields) >= 2 })
			if !ok {
				return false
			}
			i, j := e.g.r.Intn(len(t.d.Fields)), e.g.r.Intn(len(t.d.Fields))
			if i == j {
				return false
			}
			t.d.Fields[i].ID, t.d.Fields[j].ID = t.d.Fields[j].ID, t.d.Fields[i].ID
			return true
		}},
		{"dropDefaultOfRequired", "breaking", "OR", 5, func(e *editor) bool { // required-with-default -> required: effectively optional -> required
			t, ok := e.pickField(isStructOrEx, func(x *Field) bool { return x.Req == 2 && x.Def != "" })
			if !ok {
				return false
			}
			t.x.Def = ""
			return true
		}},
		// ---- "required with a default": generated, counted separately, not breaking for thriftrw ----
		{"addRequiredFieldWithDefault", "reqdefault", "", 5, func(e *editor) bool {
			t, ok := e.pickDef(isStructOrEx)
			if !ok {
				return false
			}
			bt := e.g.baseType()
			for bt.Base == "binary" {
				bt = e.g.baseType()
			}
			e.insertField(t.d, &Field{ID: maxID(t.d) + 1 + e.g.r.Intn(3), Name: e.g.fresh("f"), Req: 2, Type: bt, Def: e.g.literal(bt.Base)})
			return true
		}},
		{"optionalToRequiredWithDefault", "reqdefault", "", 5, func(e *editor) bool {
			t, ok := e.pickField(isStructOrEx, func(x *Field) bool {
				return x.Req == 1 && x.Type.isBase() && x.Type.Base != "binary"
			})
			if !ok {
				return false
			}
			t.x.Req = 2
			if t.x.Def == "" {
				t.x.Def = e.g.literal(t.x.Type.Base)
			}
			return true
		}},
		// ---- additive (documented as compatible) ----
		{"addOptionalField", "additive", "", 8, func(e *editor) bool {
			t, ok := e.pickDef((*Def).structLike)
			if !ok {
				return false
			}
			x := &Field{ID: maxID(t.d) + 1 + e.g.r.Intn(3), Name: e.g.fresh("f"), Req: 1, Type: e.g.genType(e.p, t.f, 2, true)}
			if t.d.Kind == "union" {
				x.Req = e.g.r.Intn(2)
			}
			e.insertField(t.d, x)
			return true
		}},
		{"addMethod", "additive", "", 8, func(e *editor) bool {
			t, ok := e.pickDef(isService)
			if !ok {
				return false
			}
			m := e.g.genMethod(e.p, t.f)
			i := e.g.r.Intn(len(t.d.Methods) + 1)
			t.d.Methods = append(t.d.Methods[:i:i], append([]*Method{m}, t.d.Methods[i:]...)...)
			return true
		}},
		{"addService", "additive", "", 5, func(e *editor) bool {
			f := e.pickFile()
			if f == nil {
				return false
			}
			d := e.g.newShell("service")
			e.g.fillDef(e.p, f, d)
			e.insertDef(f, d)
			return true
		}},
		{"addType", "additive", "", 6, func(e *editor) bool {
			f := e.pickFile()
			if f == nil {
				return false
			}
			d := e.g.newShell([]string{"struct", "struct", "union", "exception", "enum", "typedef"}[e.g.r.Intn(6)])
			e.g.fillDef(e.p, f, d)
			e.insertDef(f, d)
			return true
		}},
		{"addConstant", "additive", "", 4, func(e *editor) bool {
			f := e.pickFile()
			if f == nil {
				return false
			}
			d := e.g.newShell("const")
			e.g.fillDef(e.p, f, d)
			e.insertDef(f, d)
			return true
		}},
		{"addFile", "additive", "", 5, func(e *editor) bool {
			f := &File{Path: e.g.freshPath(), Comment: e.bigComment()}
			st := e.g.newShell("struct")
			f.Defs = append(f.Defs, st)
			for i, n := 0, e.g.r.Intn(3); i < n; i++ {
				f.Defs = append(f.Defs, e.g.newShell(defKinds[e.g.r.Intn(len(defKinds))]))
			}
			e.p.Files = append(e.p.Files, f)
			for _, d := range f.Defs {
				e.g.fillDef(e.p, f, d)
			}
			// sometimes an existing file starts using it
			if g := e.pickFile(); g != f && !g.hasName(f.qual()) && e.g.r.Bool() {
				g.Includes = append(g.Includes, f.Path)
				if t, ok := e.pickDef(func(d *Def) bool { return g.def(d.Name) == d && isStructOrEx(d) }); ok {
					e.insertField(t.d, &Field{ID: maxID(t.d) + 1, Name: e.g.fresh("f"), Req: 1, Type: ref(f.qual(), st.Name)})
				}
			}
			return true
		}},
		// ---- structural ----
		{"deleteType", "structural", "TC", 7, func(e *editor) bool {
			t, ok := e.pickDef((*Def).isType)
			if !ok {
				return false
			}
			removeDef(t.f, t.d)
			e.dropRefs(t.f, t.d.Name)
			return true
		}},
		{"structToEnum", "structural", "", 2, func(e *editor) bool {
			t, ok := e.pickDef(func(d *Def) bool { return d.Kind == "struct" })
			if !ok {
				return false
			}
			t.d.Kind, t.d.Fields, t.d.Items = "enum", nil, []string{strings.ToUpper(e.g.fresh("it"))}
			return true
		}},
		{"deleteFile", "structural", "DS TC", 6, func(e *editor) bool {
			if len(e.p.Files) < 2 {
				return false
			}
			f := e.pickFile()
			e.dropRefs(f, "")
			e.fixExtends(f, "", "")
			var keep []*File
			for _, g := range e.p.Files {
				if g == f {
					continue
				}
				var inc []string
				for _, i := range g.Includes {
					if i != f.Path {
						inc = append(inc, i)
					}
				}
				g.Includes = inc
				keep = append(keep, g)
			}
			e.p.Files = keep
			return true
		}},
		{"reorder", "structural", "", 8, func(e *editor) bool {
			f := e.pickFile()
			if f == nil {
				return false
			}
			r := e.g.r
			for i := len(f.Defs) - 1; i > 0; i-- {
				j := r.Intn(i + 1)
				f.Defs[i], f.Defs[j] = f.Defs[j], f.Defs[i]
			}
			for _, d := range f.Defs {
				if r.Bool() {
					e.g.shuffleFields(d.Fields)
				}
				for i := len(d.Methods) - 1; i > 0; i-- {
					j := r.Intn(i + 1)
					d.Methods[i], d.Methods[j] = d.Methods[j], d.Methods[i]
				}
			}
			for i := len(f.Includes) - 1; i > 0; i-- {
				j := r.Intn(i + 1)
				f.Includes[i], f.Includes[j] = f.Includes[j], f.Includes[i]
			}
			return true
		}},
		{"changeIncludes", "structural", "", 6, func(e *editor) bool {
			g := e.pickFile()
			if g == nil {
				return false
			}
			if e.g.r.Bool() { // drop an unused include
				for i, inc := range g.Includes {
					h := e.p.file(inc)
					if h != nil && !e.qualInUse(g, h.qual()) {
						g.Includes = append(g.Includes[:i:i], g.Includes[i+1:]...)
						return true
					}
				}
			}
			h := e.pickFile()
			if h == g || includes(g, h.Path) || g.hasName(h.qual()) || e.reach(h, g.Path, map[string]bool{}) {
				return false
			}
			g.Includes = append(g.Includes, h.Path)
			// and use it
			if t, ok := e.pickDef(func(d *Def) bool { return g.def(d.Name) == d && d.structLike() }); ok && e.g.r.Bool() {
				x := &Field{ID: maxID(t.d) + 1, Name: e.g.fresh("f"), Req: 1, Type: e.g.genType(e.p, g, 1, true)}
				if t.d.Kind == "union" {
					x.Req = 0
				}
				e.insertField(t.d, x)
			}
			return true
		}},
		// ---- neutral edits that must stay silent ----
		{"requiredToOptional", "neutral", "", 3, func(e *editor) bool {
			t, ok := e.pickField(isStructOrEx, func(x *Field) bool { return x.Req == 2 })
			if !ok {
				return false
			}
			t.x.Req = 1
			return true
		}},
		{"removeField", "neutral", "", 4, func(e *editor) bool {
			t, ok := e.pickField(func(d *Def) bool { return isStructOrEx(d) || (d.Kind == "union" && len(d.Fields) > 1) }, func(x *Field) bool { return true })
			if !ok {
				return false
			}
			removeField(t.d, t.x)
			return true
		}},
		{"renameField", "neutral", "", 3, func(e *editor) bool {
			t, ok := e.pickField((*Def).structLike, func(x *Field) bool { return true })
			if !ok {
				return false
			}
			t.x.Name = e.g.fresh("f")
			return true
		}},
		{"byteAlias", "neutral", "", 2, func(e *editor) bool { // byte and i8 are the same declared type
			t, ok := e.pickField((*Def).structLike, func(x *Field) bool { return x.Type.Base == "byte" || x.Type.Base == "i8" })
			if !ok {
				return false
			}
			if t.x.Type.Base == "byte" {
				t.x.Type = base("i8")
			} else {
				t.x.Type = base("byte")
			}
			return true
		}},
		{"touch", "neutral", "", 4, func(e *editor) bool { // comment / spacing only: a Modify change with identical meaning
			f := e.pickFile()
			if f == nil {
				return false
			}
			if e.g.r.Bool() {
				f.Loose = !f.Loose
			} else {
				f.Comment = e.g.fresh("touched")
			}
			return true
		}},
		{"changeSignature", "neutral", "", 3, func(e *editor) bool { // arguments / results are not in the documented set
			t, ok := e.pickDef(func(d *Def) bool { return isService(d) && len(d.Methods) > 0 })
			if !ok {
				return false
			}
			i := e.g.r.Intn(len(t.d.Methods))
			m := e.g.genMethod(e.p, t.f)
			m.Name = t.d.Methods[i].Name
			t.d.Methods[i] = m
			return true
		}},
		{"changeExtends", "neutral", "", 2, func(e *editor) bool {
			t, ok := e.pickDef(func(d *Def) bool { return isService(d) && d.Extends != "" })
			if !ok {
				return false
			}
			t.d.Extends = ""
			return true
		}},
		{"retargetTypedef", "neutral", "", 2, func(e *editor) bool { // the NAME of the field's type is unchanged
			t, ok := e.pickDef(func(d *Def) bool { return d.Kind == "typedef" })
			if !ok {
				return false
			}
			t.d.Target = e.g.genType(e.p, t.f, 1, false)
			return true
		}},
		// ---- shapes of known findings (weight 0 in the main stream; own probes) ----
		// renameFile was the shape of D30 (fixed); it stays in the finding stream so that renames
		// remain frequent, and is part of the main stream too.
		{"renameFile", "finding", "DS", 5, func(e *editor) bool {
			f := e.pickFile()
			if f == nil {
				return false
			}
			oldPath, oldQual := f.Path, f.qual()
			if e.g.r.Bool() { // move to another directory, same base name
				for i := 0; i < 8 && f.Path == oldPath; i++ {
					f.Path = path.Join(dirs[e.g.r.Intn(len(dirs))], path.Base(oldPath))
				}
				if f.Path == oldPath {
					return false
				}
			} else {
				f.Path = path.Join(path.Dir(oldPath), e.g.fresh("mod")+".thrift")
			}
			for _, g := range e.p.Files {
				hit := false
				for i, inc := range g.Includes {
					if inc == oldPath {
						g.Includes[i] = f.Path
						hit = true
					}
				}
				if !hit || f.qual() == oldQual {
					continue
				}
				for _, d := range g.Defs {
					d.typeExprs(func(r *TypeExpr) {
						if r.isRef() && r.Qual == oldQual {
							r.Qual = f.qual()
						}
					})
					if strings.HasPrefix(d.Extends, oldQual+".") {
						d.Extends = f.qual() + strings.TrimPrefix(d.Extends, oldQual)
					}
				}
			}
			return true
		}},
		{"qualifierSwap", "finding", "TC", 0, func(e *editor) bool { // x.Foo -> y.Foo: same last component, different type
			var c []fdx
			var alt []string
			for _, g := range e.p.Files {
				for _, d := range g.Defs {
					if !d.structLike() {
						continue
					}
					for _, x := range d.Fields {
						t := x.Type
						if !t.isRef() {
							continue
						}
						cur := g
						if t.Qual != "" {
							cur = nil
							for _, inc := range g.Includes {
								if h := e.p.file(inc); h != nil && h.qual() == t.Qual {
									cur = h
								}
							}
						}
						// another visible file defining the same name
						cands := append([]string{g.Path}, g.Includes...)
						for _, hp := range cands {
							h := e.p.file(hp)
							if h == nil || h == cur || h.def(t.Name) == nil || !h.def(t.Name).isType() || h.def(t.Name).Kind == "exception" {
								continue
							}
							q := h.qual()
							if h == g {
								q = ""
							}
							c = append(c, fdx{g, d, x})
							alt = append(alt, q)
						}
					}
				}
			}
			if len(c) == 0 {
				return false
			}
			i := e.g.r.Intn(len(c))
			c[i].x.Type = ref(alt[i], c[i].x.Type.Name)
			return true
		}},
	}
}

func (e *editor) insertField(d *Def, x *Field) {
	i := e.g.r.Intn(len(d.Fields) + 1)
	d.Fields = append(d.Fields[:i:i], append([]*Field{x}, d.Fields[i:]...)...)
}

func (e *editor) insertDef(f *File, d *Def) {
	i := e.g.r.Intn(len(f.Defs) + 1)
	f.Defs = append(f.Defs[:i:i], append([]*Def{d}, f.Defs[i:]...)...)
}

func kindByName(n string) *editKind {
	for i := range editKinds {
		if editKinds[i].name == n {
			return &editKinds[i]
		}
	}
	return nil
}
