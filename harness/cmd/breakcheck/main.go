// Command breakcheck is the correspondence harness of property C20 ("thriftbreak flags
// exactly the documented breaking changes").
//
// A case is a pair of source-level programs (HEAD~, HEAD): a generated base program and
// the result of an edit script over the breaking / additive / structural edit kinds.
// For every case the harness
//   - commits the two versions to a scratch git repository (git CLI),
//   - runs the REAL thriftbreak binary built from $VERIF_REPO, readable (cwd) and --json (-C),
//   - runs git.Compare in-process, and its loop again over verifhook.CompareModules on
//     modules the harness compiles itself (through verifhook.GitChangedThrift's change list),
//   - hands summaries of those compiled modules, the change list and random visit orders
//     to the Lean model (ops C and R of Driver/BreakMain.lean) and compares answers,
//   - evaluates the property oracle (oracle.go: documented rules on the source-level
//     programs; no thriftrw, no model) on the binary's output and exit status.
package main

import (
	"bufio"
	"crypto/sha256"
	"encoding/binary"
	"encoding/json"
	"flag"
	"fmt"
	"os"
	"os/exec"
	"path/filepath"
	"sort"
	"strings"
	"sync"

	"go.uber.org/thriftrw/compile"
	"go.uber.org/thriftrw/verifhook"

	"verifharness/internal/lineproto"
	"verifharness/internal/report"
	"verifharness/internal/rng"
)

type caseInput struct {
	Kinds []string `json:"kinds"`
	Old   *Prog    `json:"old"`
	New   *Prog    `json:"new"`
}

func (c *caseInput) line() string {
	b, _ := json.Marshal(c)
	return string(b)
}

type fileCmp struct {
	op   string
	impl string
}

type caseResult struct {
	in       *caseInput
	input    string
	skipped  string // generator produced something that does not compile
	internal string
	changes  []verifhook.GitChange
	bin      obs // readable
	binJSON  obs
	gitCmp   obs
	loop     obs
	runOp    string
	diffOp   string   // T op: the harness's own tree diff (with arbitrary rename pairings)
	wantList []string // the change list the trees prescribe: "M p" / "D p"
	files    []fileCmp
	abort    bool
	expected []Diag
	litExtra int
	// the change list findChangedThrift returned cannot be one of Thrift files of HEAD~
	listProblem string
}

var (
	binPath string
	tmpRoot string
)

func copyFiles(m map[string]string) map[string]string {
	out := make(map[string]string, len(m)+1)
	for k, v := range m {
		out[k] = v
	}
	return out
}

func orderSeed(input string) uint64 {
	h := sha256.Sum256([]byte(input))
	return binary.LittleEndian.Uint64(h[:8]) ^ uint64(rng.Seed())
}

func runCase(idx int, in *caseInput) *caseResult {
	res := &caseResult{in: in, input: in.line()}
	oldFiles, newFiles := in.Old.render(), in.New.render()
	dir := filepath.Join(tmpRoot, fmt.Sprintf("case%d", idx))
	defer os.RemoveAll(dir)

	// every file of both versions must compile on its own (the property quantifies over programs)
	oldMods, newMods := map[string]*compile.Module{}, map[string]*compile.Module{}
	for _, p := range sortedKeys(oldFiles) {
		m, err := compileAt(dir, oldFiles, p)
		if err != nil {
			res.skipped = fmt.Sprintf("old %s: %v", p, err)
			return res
		}
		oldMods[p] = m
	}
	for _, p := range sortedKeys(newFiles) {
		m, err := compileAt(dir, newFiles, p)
		if err != nil {
			res.skipped = fmt.Sprintf("new %s: %v", p, err)
			return res
		}
		newMods[p] = m
	}

	// files that are not Thrift files, placed so that the commit looks like a rename between a
	// Thrift file and something else: a deleted Thrift file lives on under another extension, an
	// added one existed before as something else. Neither is a Thrift file of its commit; the
	// deletion is still a deletion and the addition still an addition.
	repoOld, repoNew := oldFiles, newFiles
	switch idx % 8 {
	case 2:
		for _, p := range sortedKeys(oldFiles) {
			if _, still := newFiles[p]; !still {
				repoNew = copyFiles(newFiles)
				repoNew[p+[]string{".disabled", ".bak", ".txt"}[idx/8%3]] = oldFiles[p]
				break
			}
		}
	case 4:
		for _, p := range sortedKeys(newFiles) {
			if _, was := oldFiles[p]; !was {
				repoOld = copyFiles(oldFiles)
				repoOld[strings.TrimSuffix(p, ".thrift")+[]string{".idl", ".thrift.txt", ""}[idx/8%3]] = newFiles[p]
				break
			}
		}
	}
	if err := makeRepo(dir, repoOld, repoNew); err != nil {
		res.internal = err.Error()
		return res
	}
	// the linter compares the two committed versions: what the checkout looks like afterwards
	// (an uncommitted undo of the last commit, files deleted, files with garbage in them) must
	// not change anything
	switch idx % 8 {
	case 3:
		if err := dirtyTree(dir, oldFiles, newFiles, ""); err != nil {
			res.internal = err.Error()
			return res
		}
	case 5:
		if err := dirtyTree(dir, nil, newFiles, ""); err != nil {
			res.internal = err.Error()
			return res
		}
	case 7:
		if err := dirtyTree(dir, newFiles, newFiles, "\nstruct {{{ not thrift\n"); err != nil {
			res.internal = err.Error()
			return res
		}
	}
	var err error
	if res.bin, err = runBinary(binPath, dir, nil, false); err != nil {
		res.internal = err.Error()
		return res
	}
	// the repository may be named in any spelling that denotes it: absolute, with a trailing
	// separator, relative to the working directory, with a leading "./", or "." from inside it
	rel := filepath.Base(dir)
	jcwd, jdir := tmpRoot, dir
	switch idx % 6 {
	case 1:
		jdir = dir + string(filepath.Separator)
	case 2:
		jdir = rel
	case 3:
		jdir = "./" + rel + "/"
	case 4:
		jcwd, jdir = dir, "."
	case 5:
		jdir = filepath.Join(tmpRoot, ".", rel, "..", rel)
		jdir = tmpRoot + "/./" + rel
	}
	if res.binJSON, err = runBinary(binPath, jcwd, []string{"-C", jdir, "--json"}, true); err != nil {
		res.internal = err.Error()
		return res
	}
	if res.changes, err = verifhook.GitChangedThrift(dir); err != nil {
		res.internal = "GitChangedThrift: " + err.Error()
		return res
	}
	func() {
		defer func() {
			if r := recover(); r != nil {
				res.gitCmp = obs{exit: 2, bad: []string{fmt.Sprint("panic: ", r)}}
			}
		}()
		pass, err := verifhook.GitCompare(dir)
		res.gitCmp = lintsToObs(dir, pass.Lints(), err != nil)
	}()

	// the loop of git.Compare, re-run by the harness over CompareModules, file by file
	r := rng.New(orderSeed(res.input))
	var ops []string
	ops = append(ops, fmt.Sprint(len(res.changes)))
	var orders []string
	ordOf := map[string]string{}
	orderFor := func(p string) (string, error) {
		if o, ok := ordOf[p]; ok {
			return o, nil
		}
		fs, err := summarize(dir, oldMods[p])
		if err != nil {
			return "", err
		}
		o := fs.ordersOp(r)
		ordOf[p] = o
		orders = append(orders, escPath(p)+" "+o)
		return o, nil
	}
	var all []verifhook.Diagnostic
	for _, c := range res.changes {
		if c.Action == "insert" {
			res.listProblem = "the list of changed Thrift files contains an insert: " + c.File
			return res
		}
		from := oldMods[c.File]
		if from == nil {
			res.listProblem = "the list of changed Thrift files names " + c.File + ", which is no Thrift file of HEAD~"
			return res
		}
		fs, err := summarize(dir, from)
		if err != nil {
			res.internal = err.Error()
			return res
		}
		ord, err := orderFor(c.File)
		if err != nil {
			res.internal = err.Error()
			return res
		}
		var to *compile.Module
		toSum := modSum{path: c.File}
		if c.Action == "modify" {
			ops = append(ops, "M "+escPath(c.File))
			to = newMods[c.File]
			if to == nil {
				res.abort = true
				continue
			}
			if toSum, err = summarize(dir, to); err != nil {
				res.internal = err.Error()
				return res
			}
		} else {
			ops = append(ops, "D "+escPath(c.File))
			to = &compile.Module{Name: c.File}
		}
		pass := verifhook.ComparePass{GitDir: dir}
		func() {
			defer func() {
				if r := recover(); r != nil {
					res.internal = fmt.Sprint("CompareModules panicked: ", r)
				}
			}()
			verifhook.CompareModules(&pass, from, to)
		}()
		o := lintsToObs(dir, pass.Lints(), false)
		res.files = append(res.files, fileCmp{op: "C " + ord + " " + fs.op() + " " + toSum.op(), impl: "ok " + renderSet(o.diags)})
		res.loop.bad = append(res.loop.bad, o.bad...)
		all = append(all, pass.Lints()...)
	}
	res.loop = lintsToObs(dir, all, res.abort)
	// the tree diff as the harness sees it: a file that keeps its path and changes content is
	// modified; a path that disappears was deleted — whether or not go-git pairs it with an
	// added file as a rename, so the pairing is drawn at random here
	var added []string
	for _, p := range sortedKeys(newFiles) {
		if _, ok := oldFiles[p]; !ok {
			added = append(added, p)
		}
	}
	var diffToks []string
	for _, p := range sortedKeys(oldFiles) {
		if nc, ok := newFiles[p]; ok {
			if nc == oldFiles[p] {
				continue
			}
			res.wantList = append(res.wantList, "M "+p)
			diffToks = append(diffToks, escPath(p)+" "+escPath(p))
		} else {
			res.wantList = append(res.wantList, "D "+p)
			if len(added) > 0 && r.Bool() {
				diffToks = append(diffToks, escPath(p)+" "+escPath(added[r.Intn(len(added))]))
			} else {
				diffToks = append(diffToks, escPath(p)+" -")
			}
		}
		if _, err := orderFor(p); err != nil {
			res.internal = err.Error()
			return res
		}
	}
	var tail []string
	// both trees (every file), orders of the changed files
	ops0 := ops
	ops = nil
	ops = append(ops, fmt.Sprint(len(oldMods)))
	for _, p := range sortedKeys(oldFiles) {
		s, err := summarize(dir, oldMods[p])
		if err != nil {
			res.internal = err.Error()
			return res
		}
		ops = append(ops, s.op())
	}
	ops = append(ops, fmt.Sprint(len(newMods)))
	for _, p := range sortedKeys(newFiles) {
		s, err := summarize(dir, newMods[p])
		if err != nil {
			res.internal = err.Error()
			return res
		}
		ops = append(ops, s.op())
	}
	ops = append(ops, fmt.Sprint(len(orders)))
	ops = append(ops, orders...)
	tail = ops
	res.runOp = "R " + strings.Join(append(ops0, tail...), " ")
	res.diffOp = "T " + strings.Join(append(append([]string{fmt.Sprint(len(diffToks))}, diffToks...), tail...), " ")

	res.expected = expected(in.Old, in.New)
	res.litExtra = literalReadingExtra(in.Old, in.New)
	return res
}

// ---- evaluation ----

const (
	idBase = "D31"
	idQual = "D32"
)

var knownWhat = map[string]string{
	idBase: "the 'deleting service' diagnostic of a file in a sub-directory carries only the base name (compare.go service() uses filepath.Base; pinned by internal/git/git_test.go); 'removing method' and the struct diagnostics of the same file carry the relative path",
	idQual: "a field whose declared type changes from x.Foo to y.Foo (same last component, different include qualifier, i.e. a different type) is not reported: compare uses TypeSpec.ThriftName(), which drops the qualifier",
}

type verdict struct {
	known map[string]int
	fails []report.Disagreement
}

func baseOf(p string) string {
	if i := strings.LastIndex(p, "/"); i >= 0 {
		return p[i+1:]
	}
	return p
}

// judge evaluates the property oracle on what the binary did.
func judge(res *caseResult) (known map[string]bool, fails []string) {
	known = map[string]bool{}
	o := res.bin
	impl := map[string]bool{}
	for _, d := range o.diags {
		impl[d.key()] = true
	}
	matched := map[string]bool{}
	for _, e := range res.expected {
		k := e.key()
		if impl[k] {
			matched[k] = true
			continue
		}
		if e.Class == "DS" && strings.Contains(e.File, "/") {
			b := e
			b.File = baseOf(e.File)
			if impl[b.key()] {
				matched[b.key()] = true
				known[idBase] = true
				continue
			}
		}
		if e.Class == "TC" && e.QualOnly {
			known[idQual] = true
			continue
		}
		fails = append(fails, "missing diagnostic "+k)
	}
	for _, d := range o.diags {
		if !matched[d.key()] {
			fails = append(fails, "unexpected diagnostic "+d.render())
		}
	}
	if (o.exit != 0) != (len(o.diags) > 0) {
		fails = append(fails, fmt.Sprintf("exit status %d with %d diagnostics", o.exit, len(o.diags)))
	}
	// the property fixes only zero / non-zero; an exit status that belongs to a crash of the Go
	// runtime is told from its stderr
	if strings.Contains(o.stderr, "panic:") || strings.Contains(o.stderr, "fatal error:") || strings.Contains(o.stderr, "goroutine ") {
		fails = append(fails, fmt.Sprintf("the linter crashed (exit status %d)", o.exit))
	}
	if len(res.in.Kinds) == 0 && len(res.expected) > 0 {
		fails = append(fails, "ORACLE-INCONSISTENT: an empty edit script with expected diagnostics")
	}
	return known, fails
}

func main() {
	prop := flag.String("prop", "C20", "property")
	tier := flag.String("tier", "quick", "quick|thorough")
	driver := flag.String("driver", "", "Lean driver: path of Driver/BreakMain.lean (run with lake env lean --run) or of a binary")
	corpus := flag.String("corpus", "", "corpus directory")
	out := flag.String("out", "", "report path")
	replay := flag.String("replay", "", "replay file (replay JSON or text file of case lines)")
	nFlag := flag.Int("n", 0, "number of generated cases (default by tier)")
	flag.Parse()
	if *out == "" || *driver == "" {
		fmt.Fprintln(os.Stderr, "breakcheck: --driver and --out required")
		os.Exit(3)
	}
	rep := report.New(*prop)
	rep.Rule = "case = (base program of 1-5 Thrift files with cross-file references, some in sub-directories) + edit script of 0-6 edits drawn from the breaking / required-with-default / additive / structural / neutral kinds (histogram edit_kind), committed as HEAD~ and HEAD; in two cases of eight a deleted Thrift file lives on under another extension, or an added one existed before as a file that is no Thrift file (exact renames for go-git); in three cases of eight the checkout is then changed without committing (the last commit undone, every Thrift file deleted, garbage appended to every Thrift file); non-trivial = go-git reports at least one changed .thrift file; distinct = distinct (old, new) file contents"
	fail := func(err error) {
		fmt.Fprintln(os.Stderr, "breakcheck:", err)
		os.Exit(3)
	}
	var err error
	if tmpRoot, err = os.MkdirTemp("", "breakcheck-"); err != nil {
		fail(err)
	}
	defer os.RemoveAll(tmpRoot)
	code := realMain(rep, *tier, *driver, *corpus, *replay, *nFlag)
	os.RemoveAll(tmpRoot)
	if code != 0 {
		os.Exit(code)
	}
	if err := rep.Write(*out); err != nil {
		fail(err)
	}
}

func buildBinary() error {
	repo := os.Getenv("VERIF_REPO")
	if repo == "" {
		repo = "/repo"
	}
	binPath = filepath.Join(tmpRoot, "thriftbreak")
	cmd := exec.Command("go", "build", "-o", binPath, "./cmd/thriftbreak")
	cmd.Dir = repo
	cmd.Env = append(os.Environ(), "GOFLAGS=-mod=mod", "GOPROXY=off", "GOSUMDB=off", "GOTOOLCHAIN=local", "CGO_ENABLED=0")
	if outp, err := cmd.CombinedOutput(); err != nil {
		return fmt.Errorf("go build ./cmd/thriftbreak in %s: %v\n%s", repo, err, outp)
	}
	return nil
}

func driverCmd(driver string) (string, error) {
	if !strings.HasSuffix(driver, ".lean") {
		return driver, nil
	}
	abs, err := filepath.Abs(driver)
	if err != nil {
		return "", err
	}
	leanDir := filepath.Dir(filepath.Dir(abs))
	rel, _ := filepath.Rel(leanDir, abs)
	sh := filepath.Join(tmpRoot, "driver.sh")
	script := fmt.Sprintf("#!/bin/sh\ncd %q && exec lake env lean --run %q\n", leanDir, rel)
	if err := os.WriteFile(sh, []byte(script), 0o755); err != nil {
		return "", err
	}
	return sh, nil
}

func readCases(path string) ([]*caseInput, error) {
	b, err := os.ReadFile(path)
	if err != nil {
		return nil, err
	}
	var lines []string
	var rj struct {
		Disagreements []struct {
			Input string `json:"input"`
		} `json:"disagreements"`
	}
	if json.Unmarshal(b, &rj) == nil && rj.Disagreements != nil {
		for _, d := range rj.Disagreements {
			lines = append(lines, d.Input)
		}
	} else {
		sc := bufio.NewScanner(strings.NewReader(string(b)))
		sc.Buffer(make([]byte, 1<<20), 1<<28)
		for sc.Scan() {
			l := strings.TrimSpace(sc.Text())
			if l != "" && !strings.HasPrefix(l, "#") {
				lines = append(lines, l)
			}
		}
	}
	var out []*caseInput
	for _, l := range lines {
		var c caseInput
		if err := json.Unmarshal([]byte(l), &c); err != nil || c.Old == nil || c.New == nil {
			return nil, fmt.Errorf("%s: not a case line: %.80s", path, l)
		}
		out = append(out, &c)
	}
	return out, nil
}

func realMain(rep *report.Report, tier, driver, corpus, replay string, n int) int {
	if err := buildBinary(); err != nil {
		// the linter no longer builds: that is a finding about the tree, not about the harness
		rep.Disagree(report.Disagreement{Kind: "build", Input: "go build ./cmd/thriftbreak", Impl: err.Error(), Oracle: "the thriftbreak binary must build"})
		return 0
	}
	drv, err := driverCmd(driver)
	if err != nil {
		fmt.Fprintln(os.Stderr, "breakcheck:", err)
		return 3
	}

	var cases []*caseInput
	var corpusCases int
	if replay != "" {
		cs, err := readCases(replay)
		if err != nil {
			fmt.Fprintln(os.Stderr, "breakcheck:", err)
			return 3
		}
		cases = cs
	} else {
		if corpus != "" {
			files, _ := filepath.Glob(filepath.Join(corpus, "*"))
			sort.Strings(files)
			for _, f := range files {
				if st, err := os.Stat(f); err != nil || st.IsDir() || strings.HasSuffix(f, ".md") {
					continue
				}
				cs, err := readCases(f)
				if err != nil {
					fmt.Fprintln(os.Stderr, "breakcheck:", err)
					return 3
				}
				cases = append(cases, cs...)
			}
		}
		corpusCases = len(cases)
		if n == 0 {
			n = 5000
			if tier == "thorough" {
				n = 60000
			}
		}
	}
	if replay != "" {
		n = 0
	}
	// rng.FromEnv(salt) seeds with seed*gamma+salt, and splitmix64 advances by the same gamma, so
	// consecutive VERIF_SEEDs yield the same stream shifted by one draw; hash the seed instead.
	sh := sha256.Sum256([]byte(fmt.Sprintf("breakcheck C20 seed %d", rng.Seed())))
	r := rng.New(binary.LittleEndian.Uint64(sh[:8]))
	known := map[string]int{}
	skipped, internal, total := 0, 0, 0
	const batchSize = 3000
	first := true
	for first || n > 0 {
		first = false
		batch := cases
		cases = nil
		for len(batch) < batchSize && n > 0 {
			batch = append(batch, generate(r.Fork()))
			n--
		}
		if len(batch) == 0 {
			break
		}
		rc := runBatch(rep, drv, batch, corpusCases, total, known, &skipped, &internal)
		corpusCases = 0
		total += len(batch)
		if rc != 0 {
			return rc
		}
	}
	return finish(rep, replay, known, skipped, internal, total)
}

// runBatch runs one batch of cases: implementation side in parallel, then the model, then the comparison.
func runBatch(rep *report.Report, drv string, cases []*caseInput, corpusCases, offset int, known map[string]int, skippedP, internalP *int) int {
	skipped, internal := 0, 0
	defer func() { *skippedP += skipped; *internalP += internal }()

	// phase 1: implementation side, in parallel
	results := make([]*caseResult, len(cases))
	var wg sync.WaitGroup
	sem := make(chan struct{}, 12)
	for i := range cases {
		wg.Add(1)
		sem <- struct{}{}
		go func(i int) {
			defer wg.Done()
			defer func() { <-sem }()
			results[i] = runCase(offset+i, cases[i])
		}(i)
	}
	wg.Wait()

	// phase 2: the model
	var ops []string
	for _, res := range results {
		if res.skipped != "" || res.internal != "" || res.listProblem != "" {
			continue
		}
		ops = append(ops, res.runOp, res.diffOp)
		for _, f := range res.files {
			ops = append(ops, f.op)
		}
	}
	answers, err := lineproto.Run(drv, ops)
	if err != nil {
		fmt.Fprintln(os.Stderr, "breakcheck:", err)
		return 3
	}

	// phase 3: compare
	k := 0
	for ci, res := range results {
		src := "generated"
		if ci < corpusCases {
			src = "corpus"
		}
		if res.listProblem != "" {
			rep.Disagree(report.Disagreement{Kind: "changed-file list", Input: res.input, Impl: res.listProblem,
				Oracle: "only Thrift files of HEAD~ that were modified or deleted are compared; binary said: " + res.bin.answer()})
			continue
		}
		if res.internal != "" {
			internal++
			fmt.Fprintln(os.Stderr, "breakcheck: internal:", res.internal)
			continue
		}
		if res.skipped != "" {
			skipped++
			rep.Hist("generator", "rejected: does not compile")
			if skipped <= 3 {
				rep.Notes = append(rep.Notes, "generator produced a program that does not compile (case dropped): "+res.skipped)
			}
			continue
		}
		rep.Hist("generator", "valid ("+src+")")
		rep.Case(fmt.Sprintf("%x", sha256.Sum256([]byte(res.in.Old.renderKey()+"\x00"+res.in.New.renderKey())))[:24], len(res.changes) > 0)
		modelRun := answers[k]
		k++
		dis := func(kind, impl, model, oracle string) {
			rep.Disagree(report.Disagreement{Kind: kind, Input: res.input, Impl: impl, Model: model, Oracle: oracle})
		}
		for _, b := range append(append(append([]string{}, res.bin.bad...), res.binJSON.bad...), res.loop.bad...) {
			dis("unclassified output", b, "", "every line thriftbreak prints is one of the five documented diagnostics")
		}
		implRun := res.bin.answer()
		if j := res.binJSON.answer(); j != implRun {
			dis("readable vs --json", implRun, j+" | stderr of the --json run: "+res.binJSON.stderr, "the reported set and exit status do not depend on the output mode or on the run (map iteration order)")
		}
		if g := res.gitCmp.answer(); g != implRun {
			dis("binary vs in-process git.Compare", implRun, g, "")
		}
		if l := res.loop.answer(); l != implRun {
			dis("binary vs loop over CompareModules on harness-compiled modules", implRun, l, "")
		}
		if modelRun != implRun {
			dis("model vs thriftbreak (run)", implRun, modelRun+"   op: "+res.runOp, "")
		}
		if modelDiff := answers[k]; modelDiff != implRun {
			dis("model vs thriftbreak (from the tree diff)", implRun, modelDiff+"   op: "+res.diffOp, "")
		}
		k++
		var got []string
		for _, c := range res.changes {
			got = append(got, map[string]string{"modify": "M ", "delete": "D ", "insert": "I "}[c.Action]+c.File)
		}
		sort.Strings(got)
		want := append([]string(nil), res.wantList...)
		sort.Strings(want)
		if strings.Join(got, ",") != strings.Join(want, ",") {
			dis("changed-file list", strings.Join(got, ","), "", "findChangedThrift must list a changed file that keeps its path as modified and every path that disappears (deleted or renamed) as deleted; expected "+strings.Join(want, ","))
		}
		for _, f := range res.files {
			if answers[k] != f.impl {
				dis("model vs CompareModules (file pair)", f.impl, answers[k]+"   op: "+f.op, "")
			}
			k++
		}
		kn, fails := judge(res)
		for id := range kn {
			known[id]++
			rep.Hist("known_finding_shapes", id)
		}
		for _, f := range fails {
			dis("property oracle", implRun, "", f+"   (expected by the documented rules: "+renderSet(res.expected)+")")
		}

		// distributions
		for _, kd := range res.in.Kinds {
			rep.Hist("edit_kind", kd)
			if ek := kindByName(kd); ek != nil {
				rep.Hist("edit_group", ek.group)
			}
		}
		rep.Hist("script_length", fmt.Sprint(len(res.in.Kinds)))
		rep.Hist("files_old", fmt.Sprint(len(res.in.Old.Files)))
		rep.Hist("changed_files", fmt.Sprint(len(res.changes)))
		for _, c := range res.changes {
			rep.Hist("change_action", c.Action)
			if strings.Contains(c.File, "/") {
				rep.Hist("change_location", "sub-directory")
			} else {
				rep.Hist("change_location", "repository root")
			}
		}
		for _, d := range res.bin.diags {
			rep.Hist("diagnostic_class", d.Class)
		}
		rep.Hist("exit_status", fmt.Sprint(res.bin.exit))
		if len(res.bin.diags) == 0 && res.bin.exit == 0 && len(res.changes) > 0 {
			rep.Hist("outcome", "silent with changed files")
		} else if len(res.bin.diags) > 0 {
			rep.Hist("outcome", "diagnostics")
		} else if res.bin.exit != 0 {
			rep.Hist("outcome", "aborted")
		} else {
			rep.Hist("outcome", "no changed thrift file")
		}
		if res.litExtra > 0 {
			rep.Hist("required_with_default", "cases where a literal reading of 'required' would differ")
		}
		if len(rep.Samples) < 4 && len(res.bin.diags) > 0 && len(res.input) < 6000 {
			rep.Sample(res.runOp + "  =>  " + implRun)
		}
	}
	if k != len(answers) {
		fmt.Fprintln(os.Stderr, "breakcheck: answer bookkeeping")
		return 3
	}
	return 0
}

func finish(rep *report.Report, replay string, known map[string]int, skipped, internal, total int) int {
	if internal > 0 {
		return 3
	}
	if skipped*10 > total && total > 20 {
		fmt.Fprintf(os.Stderr, "breakcheck: generator rejects too many programs (%d of %d)\n", skipped, total)
		return 3
	}
	ids := make([]string, 0, len(known))
	for id := range known {
		ids = append(ids, id)
	}
	sort.Strings(ids)
	for _, id := range ids {
		rep.Known = append(rep.Known, report.Known{ID: id, What: fmt.Sprintf("%s (reproduced on %d cases of this run)", knownWhat[id], known[id])})
	}
	if replay == "" {
		for _, id := range []string{idBase, idQual} {
			if known[id] == 0 {
				rep.Notes = append(rep.Notes, "known finding "+id+" was NOT reproduced by its corpus witness: if it was repaired, turn its record in known_findings.json into 'fixed' and update the model")
			}
		}
	}
	rep.Notes = append(rep.Notes,
		"'required' is thriftrw's effective requiredness (declared required without a default); edits producing `required … = default` are generated (edit_group reqdefault) and expected to be silent; histogram required_with_default counts cases where a literal reading would differ",
		"go-git's tree diff and rename detection are not modelled: op R runs the model's loop over the change list the real findChangedThrift returns (verifhook.GitChangedThrift), op T over the harness's own tree diff with randomly drawn rename pairings (the result must not depend on the pairing); the two lists are also compared as sets")
	return 0
}
