package main

import (
	"fmt"
	"path"

	"verifharness/internal/rng"
)

// generate draws one case: a base program and an edit script.
func generate(r *rng.R) *caseInput {
	g := &gen{r: r}
	old := g.baseProgram()
	e := &editor{g: g, p: old.clone()}
	in := &caseInput{Old: old}

	// stream: 0 main mix, 1 only silent kinds, 2 only breaking kinds, 3 known-finding shapes, 4 identical
	stream := 0
	switch k := r.Intn(20); {
	case k < 11:
		stream = 0
	case k < 14:
		stream = 1
	case k < 16:
		stream = 2
	case k < 19:
		stream = 3
	default:
		stream = 4
	}
	weight := func(k *editKind) int {
		switch stream {
		case 1:
			if k.group == "breaking" || k.group == "finding" || k.may != "" {
				return 0
			}
			return k.w
		case 2:
			if k.group != "breaking" {
				return 0
			}
			return k.w
		case 3:
			if k.group == "finding" {
				return 40
			}
			return k.w
		}
		return k.w
	}
	n := 0
	if stream != 4 {
		n = 1 + r.Intn(6)
	}
	total := 0
	for i := range editKinds {
		total += weight(&editKinds[i])
	}
	for tries := 0; len(in.Kinds) < n && tries < 40; tries++ {
		x := r.Intn(total)
		var k *editKind
		for i := range editKinds {
			w := weight(&editKinds[i])
			if x < w {
				k = &editKinds[i]
				break
			}
			x -= w
		}
		if k.apply(e) {
			in.Kinds = append(in.Kinds, k.name)
		}
	}
	in.New = e.p
	// one case in forty reports exactly 256 or 512 diagnostics and nothing else (an exit status is
	// eight bits wide): that many required fields are added to one struct of the unedited program
	if r.Chance(1, 40) {
		e2 := &editor{g: g, p: old.clone()}
		if t, ok := e2.pickDef(isStructOrEx); ok {
			n := 256 * (1 + r.Intn(2))
			for i := 0; i < n; i++ {
				e2.insertField(t.d, &Field{ID: maxID(t.d) + 1, Name: g.fresh("wide"), Req: 2, Type: g.genType(e2.p, t.f, 0, true)})
			}
			in.Kinds = []string{"addRequiredField×" + fmt.Sprint(n)}
			in.New = e2.p
			return in
		}
	}
	// sometimes the same file is kept twice (two API versions side by side) and edited identically:
	// the diagnostics of the two copies then differ in nothing but the file they are attributed to
	if r.Chance(1, 8) {
		addTwin(r, in)
	}
	return in
}

func addTwin(r *rng.R, in *caseInput) {
	i := r.Intn(len(in.Old.Files))
	pth := in.Old.Files[i].Path
	twin := path.Join("twin", path.Base(pth))
	if in.New.file(pth) == nil || in.Old.file(twin) != nil || in.New.file(twin) != nil {
		return
	}
	o, n := in.Old.clone().file(pth), in.New.clone().file(pth)
	o.Path, n.Path = twin, twin
	in.Old.Files = append(in.Old.Files, o)
	in.New.Files = append(in.New.Files, n)
	in.Kinds = append(in.Kinds, "twinFile")
}
