package main

// The implementation side: scratch git repositories, the real thriftbreak binary
// (readable and --json), git.Compare and compare.Pass.CompareModules in-process,
// and the module summaries handed to the Lean model.

import (
	"bytes"
	"encoding/json"
	"errors"
	"fmt"
	"os"
	"os/exec"
	"path/filepath"
	"regexp"
	"sort"
	"strings"
	"time"

	"go.uber.org/thriftrw/compile"
	"go.uber.org/thriftrw/verifhook"

	"verifharness/internal/rng"
)

// ---- scratch repositories ----

var gitEnv = []string{
	"GIT_CONFIG_GLOBAL=/dev/null", "GIT_CONFIG_SYSTEM=/dev/null", "GIT_CONFIG_NOSYSTEM=1",
	"GIT_AUTHOR_NAME=verif", "GIT_AUTHOR_EMAIL=verif@example.com", "GIT_COMMITTER_NAME=verif", "GIT_COMMITTER_EMAIL=verif@example.com",
	"GIT_AUTHOR_DATE=2024-01-01T00:00:00Z", "GIT_COMMITTER_DATE=2024-01-01T00:00:00Z", "HOME=/nonexistent", "PATH=" + os.Getenv("PATH"),
}

func git(dir string, args ...string) error {
	cmd := exec.Command("git", args...)
	cmd.Dir = dir
	cmd.Env = gitEnv
	out, err := cmd.CombinedOutput()
	if err != nil {
		return fmt.Errorf("git %v: %v: %s", args, err, out)
	}
	return nil
}

func writeTree(dir string, files map[string]string) error {
	for p, c := range files {
		full := filepath.Join(dir, filepath.FromSlash(p))
		if err := os.MkdirAll(filepath.Dir(full), 0o755); err != nil {
			return err
		}
		// one file in four is committed with the executable bit (git mode 100755): as much a file as
		// any other
		mode := os.FileMode(0o644)
		h := 0
		for _, ch := range []byte(p) {
			h = h*31 + int(ch)
		}
		if h%4 == 0 {
			mode = 0o755
		}
		if err := os.WriteFile(full, []byte(c), mode); err != nil {
			return err
		}
		if err := os.Chmod(full, mode); err != nil {
			return err
		}
	}
	return nil
}

// makeRepo creates dir as a git repository whose HEAD~ holds old and whose HEAD holds new.
func makeRepo(dir string, old, new map[string]string) error {
	if err := os.MkdirAll(dir, 0o755); err != nil {
		return err
	}
	if err := git(dir, "init", "-q", "-b", "main", "."); err != nil {
		return err
	}
	// an unrelated non-thrift file that changes in every commit
	old2 := map[string]string{"README.md": "one\n"}
	for k, v := range old {
		old2[k] = v
	}
	if err := writeTree(dir, old2); err != nil {
		return err
	}
	if err := git(dir, "add", "-A"); err != nil {
		return err
	}
	if err := git(dir, "commit", "-q", "--allow-empty", "-m", "old"); err != nil {
		return err
	}
	ents, _ := os.ReadDir(dir)
	for _, e := range ents {
		if e.Name() != ".git" {
			os.RemoveAll(filepath.Join(dir, e.Name()))
		}
	}
	new2 := map[string]string{"README.md": "two\n"}
	for k, v := range new {
		new2[k] = v
	}
	if err := writeTree(dir, new2); err != nil {
		return err
	}
	if err := git(dir, "add", "-A"); err != nil {
		return err
	}
	return git(dir, "commit", "-q", "--allow-empty", "-m", "new")
}

// dirtyTree replaces the Thrift files of the checkout (those of committed) by want, each with
// suffix appended, without committing anything.
func dirtyTree(dir string, want, committed map[string]string, suffix string) error {
	for p := range committed {
		if err := os.Remove(filepath.Join(dir, filepath.FromSlash(p))); err != nil && !os.IsNotExist(err) {
			return err
		}
	}
	out := map[string]string{}
	for p, text := range want {
		out[p] = text + suffix
	}
	return writeTree(dir, out)
}

// ---- the real binary ----

var templates = []struct {
	class string
	re    *regexp.Regexp
}{
	{"DS", regexp.MustCompile(`^deleting service "([^"]*)"$`)},
	{"RM", regexp.MustCompile(`^removing method "([^"]*)" in service "([^"]*)"$`)},
	{"AR", regexp.MustCompile(`^adding a required field "([^"]*)" to "([^"]*)"$`)},
	{"OR", regexp.MustCompile(`^changing an optional field "([^"]*)" in "([^"]*)" to required$`)},
	{"TC", regexp.MustCompile(`^changing type of field "([^"]*)" in struct "([^"]*)" from "([^"]*)" to "([^"]*)"$`)},
}

// classify turns (FilePath, Message) into the canonical diagnostic; ok=false if the message
// matches none of compare.go's templates.
func classify(file, msg string) (Diag, bool) {
	for _, t := range templates {
		m := t.re.FindStringSubmatch(msg)
		if m == nil {
			continue
		}
		switch t.class {
		case "DS":
			return Diag{Class: "DS", File: file, A: m[1]}, true
		case "RM":
			return Diag{Class: "RM", File: file, A: m[2], B: m[1]}, true
		case "AR", "OR":
			return Diag{Class: t.class, File: file, A: m[2], B: m[1]}, true
		case "TC":
			return Diag{Class: "TC", File: file, A: m[2], B: m[1], From: m[3], To: m[4]}, true
		}
	}
	return Diag{Class: "??", File: file, A: msg}, false
}

type obs struct {
	exit   int
	diags  []Diag
	bad    []string // unclassifiable output
	stderr string
}

// answer: the exit status enters as zero / non-zero only (that is all the property fixes)
func (o obs) answer() string {
	e := o.exit
	if e != 0 {
		e = 1
	}
	return fmt.Sprintf("ok %d %s", e, renderSet(o.diags))
}

func runBinary(bin, cwd string, args []string, jsonMode bool) (obs, error) {
	cmd := exec.Command(bin, args...)
	cmd.Dir = cwd
	cmd.Env = []string{"HOME=/nonexistent", "PATH=" + os.Getenv("PATH"), "GOMEMLIMIT=1GiB"}
	var stdout, stderr bytes.Buffer
	cmd.Stdout, cmd.Stderr = &stdout, &stderr
	if err := cmd.Start(); err != nil {
		return obs{}, err
	}
	done := make(chan error, 1)
	go func() { done <- cmd.Wait() }()
	var werr error
	select {
	case werr = <-done:
	case <-time.After(60 * time.Second):
		cmd.Process.Kill()
		<-done
		return obs{exit: 124, bad: []string{"timeout"}}, nil
	}
	o := obs{stderr: strings.TrimSpace(stderr.String())}
	var ee *exec.ExitError
	if errors.As(werr, &ee) {
		o.exit = ee.ExitCode()
	} else if werr != nil {
		return obs{}, werr
	}
	for _, line := range strings.Split(stdout.String(), "\n") {
		if line == "" {
			continue
		}
		var file, msg string
		if jsonMode {
			var d struct{ FilePath, Message string }
			if err := json.Unmarshal([]byte(line), &d); err != nil {
				o.bad = append(o.bad, line)
				continue
			}
			file, msg = d.FilePath, d.Message
		} else {
			i := strings.Index(line, ":")
			if i < 0 {
				o.bad = append(o.bad, line)
				continue
			}
			file, msg = line[:i], line[i+1:]
		}
		d, ok := classify(filepath.ToSlash(file), msg)
		if !ok {
			o.bad = append(o.bad, line)
		}
		o.diags = append(o.diags, d)
	}
	return o, nil
}

// ---- in-process ----

type memFS struct {
	root  string
	files map[string]string
}

func (f memFS) Read(p string) ([]byte, error) {
	rel, err := filepath.Rel(f.root, p)
	if err != nil {
		return nil, err
	}
	s, ok := f.files[filepath.ToSlash(rel)]
	if !ok {
		return nil, fmt.Errorf("open %q: file not found", rel)
	}
	return []byte(s), nil
}

func (f memFS) Abs(p string) (string, error) {
	if filepath.IsAbs(p) {
		return p, nil
	}
	return filepath.Join(f.root, p), nil
}

func compileAt(root string, files map[string]string, p string) (m *compile.Module, err error) {
	defer func() {
		if r := recover(); r != nil {
			err = fmt.Errorf("panic: %v", r)
		}
	}()
	return compile.Compile(p, compile.Filesystem(memFS{root, files}))
}

func lintsToObs(root string, lints []verifhook.Diagnostic, failed bool) obs {
	o := obs{}
	for _, l := range lints {
		d, ok := classify(filepath.ToSlash(l.FilePath), l.Message)
		if !ok {
			o.bad = append(o.bad, l.FilePath+":"+l.Message)
		}
		o.diags = append(o.diags, d)
	}
	if failed {
		o.diags = nil
	}
	if failed || len(lints) > 0 {
		o.exit = 1
	}
	return o
}

// ---- summaries for the model ----

type fieldSum struct {
	id   int
	name string
	req  bool
	typ  string
}
type structSum struct {
	name   string
	fields []fieldSum
}
type svcSum struct {
	name string
	fns  []string
}
type modSum struct {
	path      string
	services  []svcSum
	structs   []structSum
	others    []string
	constants []string
}

func summarize(root string, m *compile.Module) (modSum, error) {
	rel, err := filepath.Rel(root, m.ThriftPath)
	if err != nil {
		return modSum{}, err
	}
	s := modSum{path: filepath.ToSlash(rel)}
	for k, sv := range m.Services {
		if k != sv.Name {
			return s, fmt.Errorf("service key %q != name %q", k, sv.Name)
		}
		ss := svcSum{name: sv.Name}
		for fk := range sv.Functions {
			ss.fns = append(ss.fns, fk)
		}
		sort.Strings(ss.fns)
		s.services = append(s.services, ss)
	}
	sort.Slice(s.services, func(i, j int) bool { return s.services[i].name < s.services[j].name })
	for k, t := range m.Types {
		st, ok := t.(*compile.StructSpec)
		if !ok {
			s.others = append(s.others, k)
			continue
		}
		if k != st.ThriftName() {
			return s, fmt.Errorf("type key %q != name %q", k, st.ThriftName())
		}
		ts := structSum{name: st.ThriftName()}
		for _, f := range st.Fields {
			if f.Type == nil {
				return s, fmt.Errorf("nil field type in %s.%s", k, f.Name)
			}
			ts.fields = append(ts.fields, fieldSum{int(f.ID), f.ThriftName(), f.Required, f.Type.ThriftName()})
		}
		s.structs = append(s.structs, ts)
	}
	sort.Slice(s.structs, func(i, j int) bool { return s.structs[i].name < s.structs[j].name })
	sort.Strings(s.others)
	for k := range m.Constants {
		s.constants = append(s.constants, k)
	}
	sort.Strings(s.constants)
	return s, nil
}

func tokList(xs []string) string {
	var sb strings.Builder
	fmt.Fprintf(&sb, "%d", len(xs))
	for _, x := range xs {
		sb.WriteString(" " + esc(x))
	}
	return sb.String()
}

func (m modSum) op() string {
	var sb strings.Builder
	fmt.Fprintf(&sb, "mod %s %d", escPath(m.path), len(m.services))
	for _, s := range m.services {
		fmt.Fprintf(&sb, " %s %s", esc(s.name), tokList(s.fns))
	}
	fmt.Fprintf(&sb, " %d", len(m.structs))
	for _, s := range m.structs {
		fmt.Fprintf(&sb, " %s %d", esc(s.name), len(s.fields))
		for _, f := range s.fields {
			r := 0
			if f.req {
				r = 1
			}
			fmt.Fprintf(&sb, " %d %s %d %s", f.id, esc(f.name), r, esc(f.typ))
		}
	}
	sb.WriteString(" " + tokList(m.others) + " " + tokList(m.constants))
	return sb.String()
}

func perm(r *rng.R, xs []string) []string {
	out := append([]string(nil), xs...)
	for i := len(out) - 1; i > 0; i-- {
		j := r.Intn(i + 1)
		out[i], out[j] = out[j], out[i]
	}
	return out
}

// ordersOp draws a visit order for every map compare.go ranges over in module m.
func (m modSum) ordersOp(r *rng.R) string {
	var svc, types []string
	for _, s := range m.services {
		svc = append(svc, s.name)
	}
	for _, s := range m.structs {
		types = append(types, s.name)
	}
	types = append(types, m.others...)
	var sb strings.Builder
	sb.WriteString("ord " + tokList(perm(r, svc)) + " " + tokList(perm(r, types)))
	fmt.Fprintf(&sb, " %d", len(m.services))
	for _, s := range m.services {
		sb.WriteString(" " + esc(s.name) + " " + tokList(perm(r, s.fns)))
	}
	return sb.String()
}
