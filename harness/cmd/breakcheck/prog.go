package main

// Abstract (source-level) Thrift programs: what the generator builds, the edit
// script rewrites, the renderer prints and the oracle reads. Nothing here looks
// at thriftrw.

import (
	"fmt"
	"path"
	"sort"
	"strings"
)

type TypeExpr struct {
	Base string      `json:"b,omitempty"` // base type name (bool byte i8 i16 i32 i64 double string binary) …
	Qual string      `json:"q,omitempty"` // … or a reference: include qualifier ("" = local)
	Name string      `json:"n,omitempty"` //   and type name …
	Ctor string      `json:"c,omitempty"` // … or a container: list set map
	Args []*TypeExpr `json:"a,omitempty"` //   with element types
}

func base(n string) *TypeExpr    { return &TypeExpr{Base: n} }
func ref(q, n string) *TypeExpr  { return &TypeExpr{Qual: q, Name: n} }
func (t *TypeExpr) isBase() bool { return t.Base != "" }
func (t *TypeExpr) isRef() bool  { return t.Base == "" && t.Ctor == "" }
func (t *TypeExpr) clone() *TypeExpr {
	if t == nil {
		return nil
	}
	c := *t
	c.Args = nil
	for _, a := range t.Args {
		c.Args = append(c.Args, a.clone())
	}
	return &c
}

// src renders the type as Thrift source; loose spacing exercises the parser only.
func (t *TypeExpr) src(loose bool) string {
	sp := ""
	if loose {
		sp = " "
	}
	switch {
	case t.Base != "":
		return t.Base
	case t.Ctor == "map":
		return "map<" + sp + t.Args[0].src(loose) + sp + "," + sp + t.Args[1].src(loose) + sp + ">"
	case t.Ctor != "":
		return t.Ctor + "<" + sp + t.Args[0].src(loose) + sp + ">"
	case t.Qual != "":
		return t.Qual + "." + t.Name
	}
	return t.Name
}

// declName is the oracle's reading of "declared type name": the type as written,
// spacing normalised, the two spellings of the 8-bit integer identified, include
// qualifiers KEPT (x.Foo and y.Foo are different declared names).
func (t *TypeExpr) declName() string {
	switch {
	case t.Base == "i8":
		return "byte"
	case t.Base != "":
		return t.Base
	case t.Ctor == "map":
		return "map<" + t.Args[0].declName() + ", " + t.Args[1].declName() + ">"
	case t.Ctor != "":
		return t.Ctor + "<" + t.Args[0].declName() + ">"
	case t.Qual != "":
		return t.Qual + "." + t.Name
	}
	return t.Name
}

// unqualName drops include qualifiers (what survives of a declared name when only the
// last component is looked at); used to recognise the known-finding shape D32.
func (t *TypeExpr) unqualName() string {
	switch {
	case t.Base == "i8":
		return "byte"
	case t.Base != "":
		return t.Base
	case t.Ctor == "map":
		return "map<" + t.Args[0].unqualName() + ", " + t.Args[1].unqualName() + ">"
	case t.Ctor != "":
		return t.Ctor + "<" + t.Args[0].unqualName() + ">"
	}
	return t.Name
}

func (t *TypeExpr) walk(f func(*TypeExpr)) {
	f(t)
	for _, a := range t.Args {
		a.walk(f)
	}
}

type Field struct {
	ID   int       `json:"id"`
	Name string    `json:"name"`
	Req  int       `json:"req"` // 0 unspecified (unions, arguments), 1 optional, 2 required
	Def  string    `json:"def,omitempty"`
	Type *TypeExpr `json:"type"`
}

// effRequired is thriftrw's effective requiredness (DESIGN §5 C20 Interpretation):
// declared required and no default value.
func (f *Field) effRequired() bool { return f.Req == 2 && f.Def == "" }

type Method struct {
	Name   string    `json:"name"`
	Oneway bool      `json:"oneway,omitempty"`
	Ret    *TypeExpr `json:"ret,omitempty"` // nil = void
	Args   []*Field  `json:"args,omitempty"`
	Throws []*Field  `json:"throws,omitempty"`
}

type Def struct {
	Kind    string    `json:"kind"` // struct union exception enum typedef const service
	Name    string    `json:"name"`
	Fields  []*Field  `json:"fields,omitempty"`  // struct union exception
	Items   []string  `json:"items,omitempty"`   // enum
	Target  *TypeExpr `json:"target,omitempty"`  // typedef, const
	Value   string    `json:"value,omitempty"`   // const
	Methods []*Method `json:"methods,omitempty"` // service
	Extends string    `json:"extends,omitempty"` // service ("" none, "S" or "q.S")
}

func (d *Def) structLike() bool {
	return d.Kind == "struct" || d.Kind == "union" || d.Kind == "exception"
}
func (d *Def) isType() bool { return d.structLike() || d.Kind == "enum" || d.Kind == "typedef" }

type File struct {
	Path     string   `json:"path"`               // repository-relative, slash separated
	Includes []string `json:"includes,omitempty"` // paths of included files
	Defs     []*Def   `json:"defs,omitempty"`
	Comment  string   `json:"comment,omitempty"`
	Loose    bool     `json:"loose,omitempty"` // spacing style
}

func (f *File) qual() string { return strings.TrimSuffix(path.Base(f.Path), ".thrift") }

type Prog struct {
	Files []*File `json:"files"`
}

func (p *Prog) file(pth string) *File {
	for _, f := range p.Files {
		if f.Path == pth {
			return f
		}
	}
	return nil
}

func (f *File) def(name string) *Def {
	for _, d := range f.Defs {
		if d.Name == name {
			return d
		}
	}
	return nil
}

func (f *File) hasName(name string) bool {
	if f.def(name) != nil {
		return true
	}
	for _, i := range f.Includes {
		if strings.TrimSuffix(path.Base(i), ".thrift") == name {
			return true
		}
	}
	return false
}

func (p *Prog) clone() *Prog {
	q := &Prog{}
	for _, f := range p.Files {
		nf := &File{Path: f.Path, Includes: append([]string(nil), f.Includes...), Comment: f.Comment, Loose: f.Loose}
		for _, d := range f.Defs {
			nf.Defs = append(nf.Defs, d.clone())
		}
		q.Files = append(q.Files, nf)
	}
	return q
}

func cloneFields(fs []*Field) []*Field {
	var out []*Field
	for _, f := range fs {
		c := *f
		c.Type = f.Type.clone()
		out = append(out, &c)
	}
	return out
}

func (d *Def) clone() *Def {
	c := *d
	c.Fields = cloneFields(d.Fields)
	c.Items = append([]string(nil), d.Items...)
	c.Target = d.Target.clone()
	c.Methods = nil
	for _, m := range d.Methods {
		mc := *m
		mc.Ret = m.Ret.clone()
		mc.Args = cloneFields(m.Args)
		mc.Throws = cloneFields(m.Throws)
		c.Methods = append(c.Methods, &mc)
	}
	return &c
}

// typeExprs visits every type expression of a definition together with the list it sits in
// (so that edits can repair references).
func (d *Def) typeExprs(f func(t *TypeExpr)) {
	for _, x := range d.Fields {
		x.Type.walk(f)
	}
	if d.Target != nil {
		d.Target.walk(f)
	}
	for _, m := range d.Methods {
		if m.Ret != nil {
			m.Ret.walk(f)
		}
		for _, x := range m.Args {
			x.Type.walk(f)
		}
		for _, x := range m.Throws {
			x.Type.walk(f)
		}
	}
}

// ---- rendering ----

func relInclude(from, to string) string {
	fd := strings.Split(path.Dir(from), "/")
	if path.Dir(from) == "." {
		fd = nil
	}
	tp := strings.Split(to, "/")
	i := 0
	for i < len(fd) && i < len(tp)-1 && fd[i] == tp[i] {
		i++
	}
	var parts []string
	for range fd[i:] {
		parts = append(parts, "..")
	}
	parts = append(parts, tp[i:]...)
	s := strings.Join(parts, "/")
	if !strings.HasPrefix(s, "../") {
		s = "./" + s
	}
	return s
}

func renderField(x *Field, loose bool) string {
	var sb strings.Builder
	fmt.Fprintf(&sb, "%d:", x.ID)
	switch x.Req {
	case 1:
		sb.WriteString(" optional")
	case 2:
		sb.WriteString(" required")
	}
	sb.WriteString(" " + x.Type.src(loose) + " " + x.Name)
	if x.Def != "" {
		sb.WriteString(" = " + x.Def)
	}
	return sb.String()
}

func (f *File) render() string {
	var sb strings.Builder
	if f.Comment != "" {
		for _, l := range strings.Split(f.Comment, "\n") {
			sb.WriteString("// " + l + "\n")
		}
	}
	for _, i := range f.Includes {
		fmt.Fprintf(&sb, "include \"%s\"\n", relInclude(f.Path, i))
	}
	sep := "\n"
	if f.Loose {
		sep = ";\n"
	}
	for _, d := range f.Defs {
		sb.WriteString("\n")
		switch d.Kind {
		case "struct", "union", "exception":
			fmt.Fprintf(&sb, "%s %s {\n", d.Kind, d.Name)
			for _, x := range d.Fields {
				sb.WriteString("  " + renderField(x, f.Loose) + sep)
			}
			sb.WriteString("}\n")
		case "enum":
			fmt.Fprintf(&sb, "enum %s {\n", d.Name)
			for i, it := range d.Items {
				fmt.Fprintf(&sb, "  %s = %d,\n", it, i+1)
			}
			sb.WriteString("}\n")
		case "typedef":
			fmt.Fprintf(&sb, "typedef %s %s\n", d.Target.src(f.Loose), d.Name)
		case "const":
			fmt.Fprintf(&sb, "const %s %s = %s\n", d.Target.src(f.Loose), d.Name, d.Value)
		case "service":
			fmt.Fprintf(&sb, "service %s", d.Name)
			if d.Extends != "" {
				fmt.Fprintf(&sb, " extends %s", d.Extends)
			}
			sb.WriteString(" {\n")
			for _, m := range d.Methods {
				sb.WriteString("  ")
				if m.Oneway {
					sb.WriteString("oneway ")
				}
				if m.Ret == nil {
					sb.WriteString("void")
				} else {
					sb.WriteString(m.Ret.src(f.Loose))
				}
				sb.WriteString(" " + m.Name + "(")
				for i, a := range m.Args {
					if i > 0 {
						sb.WriteString(", ")
					}
					sb.WriteString(renderField(a, f.Loose))
				}
				sb.WriteString(")")
				if len(m.Throws) > 0 {
					sb.WriteString(" throws (")
					for i, a := range m.Throws {
						if i > 0 {
							sb.WriteString(", ")
						}
						sb.WriteString(renderField(a, f.Loose))
					}
					sb.WriteString(")")
				}
				sb.WriteString(sep)
			}
			sb.WriteString("}\n")
		}
	}
	return sb.String()
}

// render returns path -> contents.
func (p *Prog) render() map[string]string {
	out := map[string]string{}
	for _, f := range p.Files {
		out[f.Path] = f.render()
	}
	return out
}

func sortedKeys(m map[string]string) []string {
	ks := make([]string, 0, len(m))
	for k := range m {
		ks = append(ks, k)
	}
	sort.Strings(ks)
	return ks
}

// renderKey is a canonical string of the rendered files (distinctness of cases).
func (p *Prog) renderKey() string {
	m := p.render()
	var sb strings.Builder
	for _, k := range sortedKeys(m) {
		sb.WriteString(k + "\x01" + m[k] + "\x02")
	}
	return sb.String()
}
