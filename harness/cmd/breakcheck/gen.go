package main

// Base-program generator: 1–5 Thrift files (some in sub-directories) with includes
// forming a DAG, each holding structs / unions / exceptions / enums / typedefs /
// constants / services that reference each other across files.

import (
	"fmt"
	"path"
	"strings"

	"verifharness/internal/rng"
)

type gen struct {
	r *rng.R
	n int
}

func (g *gen) fresh(prefix string) string {
	g.n++
	return fmt.Sprintf("%s%d", prefix, g.n)
}

var baseTypes = []string{"bool", "byte", "i8", "i16", "i32", "i64", "double", "string", "binary"}

func (g *gen) literal(b string) string {
	switch b {
	case "bool":
		if g.r.Bool() {
			return "true"
		}
		return "false"
	case "byte", "i8", "i16", "i32", "i64":
		return fmt.Sprint(g.r.Intn(100))
	case "double":
		return fmt.Sprintf("%d.5", g.r.Intn(10))
	case "string":
		return fmt.Sprintf("\"v%d\"", g.r.Intn(10))
	}
	return ""
}

type avail struct {
	qual string
	def  *Def
}

// availableTypes lists the types a definition in f may name.
func availableTypes(p *Prog, f *File, typedefs bool) []avail {
	var out []avail
	add := func(q string, src *File) {
		for _, d := range src.Defs {
			if d.Kind == "struct" || d.Kind == "union" || d.Kind == "enum" || (typedefs && d.Kind == "typedef") {
				out = append(out, avail{q, d})
			}
		}
	}
	add("", f)
	for _, inc := range f.Includes {
		if h := p.file(inc); h != nil {
			add(h.qual(), h)
		}
	}
	return out
}

func (g *gen) baseType() *TypeExpr { return base(baseTypes[g.r.Intn(len(baseTypes))]) }

func (g *gen) genType(p *Prog, f *File, depth int, typedefs bool) *TypeExpr {
	av := availableTypes(p, f, typedefs)
	switch k := g.r.Intn(10); {
	case k < 5 || (len(av) == 0 && k < 8):
		return g.baseType()
	case k < 8:
		a := av[g.r.Intn(len(av))]
		return ref(a.qual, a.def.Name)
	default:
		if depth <= 0 {
			return g.baseType()
		}
		switch g.r.Intn(3) {
		case 0:
			return &TypeExpr{Ctor: "list", Args: []*TypeExpr{g.genType(p, f, depth-1, typedefs)}}
		case 1:
			return &TypeExpr{Ctor: "set", Args: []*TypeExpr{base([]string{"string", "i32", "i64"}[g.r.Intn(3)])}}
		default:
			return &TypeExpr{Ctor: "map", Args: []*TypeExpr{base([]string{"string", "i32", "i64"}[g.r.Intn(3)]), g.genType(p, f, depth-1, typedefs)}}
		}
	}
}

// genField makes a struct / exception field (union: union=true).
func (g *gen) genField(p *Prog, f *File, id int, union bool) *Field {
	x := &Field{ID: id, Name: g.fresh("f"), Type: g.genType(p, f, 2, true)}
	if union {
		x.Req = g.r.Intn(2) // unspecified or optional
		return x
	}
	switch k := g.r.Intn(20); {
	case k < 11:
		x.Req = 1
	case k < 13: // optional with a default
		x.Req = 1
		x.Type = g.baseType()
		x.Def = g.literal(x.Type.Base)
	case k < 17:
		x.Req = 2
	default: // required WITH a default: effectively optional for thriftrw
		x.Req = 2
		x.Type = g.baseType()
		x.Def = g.literal(x.Type.Base)
	}
	return x
}

func (g *gen) genFields(p *Prog, f *File, n int, union bool) []*Field {
	var out []*Field
	id := 0
	for i := 0; i < n; i++ {
		id += 1 + g.r.Intn(3)
		out = append(out, g.genField(p, f, id, union))
	}
	if g.r.Chance(1, 4) {
		g.shuffleFields(out)
	}
	return out
}

func (g *gen) shuffleFields(xs []*Field) {
	for i := len(xs) - 1; i > 0; i-- {
		j := g.r.Intn(i + 1)
		xs[i], xs[j] = xs[j], xs[i]
	}
}

func exceptionsFor(p *Prog, f *File) []avail {
	var out []avail
	for _, d := range f.Defs {
		if d.Kind == "exception" {
			out = append(out, avail{"", d})
		}
	}
	for _, inc := range f.Includes {
		if h := p.file(inc); h != nil {
			for _, d := range h.Defs {
				if d.Kind == "exception" {
					out = append(out, avail{h.qual(), d})
				}
			}
		}
	}
	return out
}

func (g *gen) genMethod(p *Prog, f *File) *Method {
	m := &Method{Name: g.fresh("m")}
	for i, n := 0, g.r.Intn(4); i < n; i++ {
		m.Args = append(m.Args, &Field{ID: i + 1, Name: g.fresh("a"), Req: g.r.Intn(2), Type: g.genType(p, f, 1, true)})
	}
	if !g.r.Chance(2, 5) {
		m.Ret = g.genType(p, f, 1, true)
	}
	if ex := exceptionsFor(p, f); len(ex) > 0 && g.r.Chance(1, 4) {
		e := ex[g.r.Intn(len(ex))]
		m.Throws = append(m.Throws, &Field{ID: 1, Name: g.fresh("e"), Req: 0, Type: ref(e.qual, e.def.Name)})
	}
	if m.Ret == nil && len(m.Throws) == 0 && g.r.Chance(1, 8) {
		m.Oneway = true
	}
	return m
}

// fillDef generates the body of a definition shell.
func (g *gen) fillDef(p *Prog, f *File, d *Def) {
	switch d.Kind {
	case "struct", "exception":
		d.Fields = g.genFields(p, f, g.r.Intn(6), false)
	case "union":
		d.Fields = g.genFields(p, f, 1+g.r.Intn(3), true)
	case "enum":
		for i, n := 0, 1+g.r.Intn(3); i < n; i++ {
			d.Items = append(d.Items, strings.ToUpper(g.fresh("it")))
		}
	case "typedef":
		d.Target = g.genType(p, f, 1, false)
	case "const":
		d.Target = base([]string{"i32", "string", "bool", "i64", "double"}[g.r.Intn(5)])
		d.Value = g.literal(d.Target.Base)
	case "service":
		for i, n := 0, g.r.Intn(5); i < n; i++ {
			d.Methods = append(d.Methods, g.genMethod(p, f))
		}
	}
}

var defKinds = []string{"struct", "struct", "struct", "struct", "service", "service", "service", "exception", "union", "enum", "typedef", "const"}
var kindPrefix = map[string]string{"struct": "St", "service": "Svc", "exception": "Ex", "union": "Un", "enum": "En", "typedef": "Td", "const": "K"}

func (g *gen) newShell(kind string) *Def { return &Def{Kind: kind, Name: g.fresh(kindPrefix[kind])} }

var dirs = []string{"", "", "", "sub", "sub", "sub/deep", "other"}

func (g *gen) freshPath() string {
	return path.Join(dirs[g.r.Intn(len(dirs))], g.fresh("mod")+".thrift")
}

func (g *gen) baseProgram() *Prog {
	p := &Prog{}
	nf := 1 + g.r.Intn(5)
	for i := 0; i < nf; i++ {
		f := &File{Path: g.freshPath(), Loose: g.r.Chance(1, 5)}
		for j := 0; j < i; j++ {
			if g.r.Chance(1, 2) && len(f.Includes) < 3 {
				f.Includes = append(f.Includes, p.Files[j].Path)
			}
		}
		nd := 2 + g.r.Intn(5)
		for j := 0; j < nd; j++ {
			f.Defs = append(f.Defs, g.newShell(defKinds[g.r.Intn(len(defKinds))]))
		}
		if i == 0 { // every program has at least one struct and one service
			f.Defs = append(f.Defs, g.newShell("struct"), g.newShell("service"))
		}
		p.Files = append(p.Files, f)
	}
	type commonUse struct {
		f *File
		d *Def
		t *TypeExpr
	}
	var common []commonUse
	// sometimes the same type name in two files (needed for qualifier-only type changes)
	if nf >= 2 && g.r.Chance(1, 3) {
		a, b := g.r.Intn(nf), g.r.Intn(nf)
		if a != b {
			n := g.fresh("Common")
			p.Files[a].Defs = append(p.Files[a].Defs, &Def{Kind: "struct", Name: n})
			p.Files[b].Defs = append(p.Files[b].Defs, &Def{Kind: "struct", Name: n})
			// the later file uses the earlier file's type, so that x.Common -> Common is possible
			if a > b {
				a, b = b, a
			}
			if !includes(p.Files[b], p.Files[a].Path) {
				p.Files[b].Includes = append(p.Files[b].Includes, p.Files[a].Path)
			}
			user := g.newShell("struct")
			p.Files[b].Defs = append(p.Files[b].Defs, user)
			common = append(common, commonUse{p.Files[b], user, ref(p.Files[a].qual(), n)})
		}
	}
	for _, f := range p.Files {
		for _, d := range f.Defs {
			g.fillDef(p, f, d)
		}
		for _, c := range common {
			if c.f == f {
				c.d.Fields = append(c.d.Fields, &Field{ID: maxID(c.d) + 1, Name: g.fresh("f"), Req: 1, Type: c.t})
			}
		}
		// extends: an earlier service of this file or a service of an included file
		for i, d := range f.Defs {
			if d.Kind != "service" || !g.r.Chance(1, 4) {
				continue
			}
			var cands []string
			for _, e := range f.Defs[:i] {
				if e.Kind == "service" {
					cands = append(cands, e.Name)
				}
			}
			for _, inc := range f.Includes {
				h := p.file(inc)
				for _, e := range h.Defs {
					if e.Kind == "service" {
						cands = append(cands, h.qual()+"."+e.Name)
					}
				}
			}
			if len(cands) > 0 {
				d.Extends = cands[g.r.Intn(len(cands))]
			}
		}
	}
	return p
}
