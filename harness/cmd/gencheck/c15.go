package main

import (
	"encoding/json"
	"sort"

	"verifharness/internal/gobuild"
	"verifharness/internal/gtext"
	"verifharness/internal/progs"
	"verifharness/internal/refcodec"
	"verifharness/internal/rng"
	"verifharness/internal/valgen"
)

func redactConfig(r *rng.R) progs.Config {
	cfg := progs.DefaultConfig()
	cfg.Files = r.Pick(1, 2, 3)
	cfg.RedactPct = 30
	cfg.Consts = 1
	cfg.Defs = 11
	cfg.DefaultPct = 25
	cfg.SpreadRedact = true
	return small(cfg)
}

func redactOptions(r *rng.R) gobuild.Options {
	var o gobuild.Options
	switch r.Intn(5) {
	case 0:
		o.NoZap = true
	case 1:
		o.EnumStrict = true
	case 2:
		o.NoRecurse = true
	}
	// every third program is in the legacy dialect (fields without identifiers or requiredness),
	// compiled through the API with compile.NonStrict(): annotations must survive that path too
	redactPrograms++
	o.NonStrict = redactPrograms%3 == 2
	o.ThriftRoot = o.NonStrict // the helper is always given the thrift root
	return o
}

var redactPrograms int

// scramble replaces the content of every set redacted field (for zap: also of
// every no-log field) by another value of the same type, keeping set/unset:
// the result differs from g only under redacted fields.
func scramble(vg *valgen.Gen, env *gtext.Env, zap bool, t *gtext.T, g *gtext.G) *gtext.G {
	if g.IsNil() {
		return g
	}
	root := t.Root()
	c := *g
	c.Items = nil
	switch root.K {
	case gtext.KList, gtext.KSet, gtext.KSSet:
		for _, it := range g.Items {
			c.Items = append(c.Items, scramble(vg, env, zap, root.Elem, it))
		}
	case gtext.KMap:
		for i, it := range g.Items {
			et := root.Key
			if i%2 == 1 {
				et = root.Elem
			}
			c.Items = append(c.Items, scramble(vg, env, zap, et, it))
		}
	case gtext.KStruct:
		sd := env.Structs[root.Name]
		if sd == nil {
			return g
		}
		for i, f := range sd.Fields {
			x := g.Items[i]
			if !x.IsNil() && (f.Redact || (zap && f.NoLog)) {
				x = vg.Value(f.T)
			} else {
				x = scramble(vg, env, zap, f.T, x)
			}
			c.Items = append(c.Items, x)
		}
	default:
		return g
	}
	return &c
}

// canonJSON sorts every array of a JSON document (arrays that come from Go maps
// have no stable order) so that two renderings can be compared as text.
func canonJSON(raw []byte) string {
	var v interface{}
	if json.Unmarshal(raw, &v) != nil {
		return "!bad-json " + string(raw)
	}
	var norm func(v interface{}) interface{}
	norm = func(v interface{}) interface{} {
		switch x := v.(type) {
		case map[string]interface{}:
			for k, e := range x {
				x[k] = norm(e)
			}
			return x
		case []interface{}:
			type el struct {
				txt string
				v   interface{}
			}
			els := make([]el, len(x))
			for i, e := range x {
				n := norm(e)
				b, _ := json.Marshal(n)
				els[i] = el{string(b), n}
			}
			sort.SliceStable(els, func(i, j int) bool { return els[i].txt < els[j].txt })
			out := make([]interface{}, len(x))
			for i := range els {
				out[i] = els[i].v
			}
			return out
		}
		return v
	}
	b, _ := json.Marshal(norm(v))
	return string(b)
}

func c15Program(cs *caseSet, nVal int) {
	c, b := cs.c, cs.b
	env := b.schema.Env
	r := c.r.Fork()
	vg := valgen.New(env, r)
	vg.Markers, vg.NoNaN = true, true
	codec := &refcodec.Codec{Env: env}
	for _, tt := range b.schema.Types {
		t := tt.T
		hasStruct := false
		t.Walk(func(x *gtext.T) {
			if x.K == gtext.KStruct {
				hasStruct = true
			}
		})
		if !hasStruct {
			continue
		}
		tText := t.Text()
		isExc := tt.Kind == "exception"
		for i := 0; i < nVal; i++ {
			vg.MaxDepth, vg.MaxLen = r.Pick(1, 2, 3), r.Pick(0, 1, 2, 3)
			g := vg.Value(t)
			if _, err := codec.ToWire(t, g); err != nil {
				fatal("invalid generated value: %v", err)
			}
			gt := g.Text()
			tokS := expectedTokens(env, false, t, g)
			for _, tk := range tokS {
				c.rep.Hist("expected-token-kind", firstWord(tk[:2]))
			}
			c.rep.Hist("type-kind", tt.Kind)
			why := "String()/Error() must show exactly: the label of every set field, <redacted> for set redacted fields, and no leaf under a redacted field"
			s0 := cs.add(opCase{Kind: "C15 String", Impl: "rawstring " + tText + " " + gt, Model: "string " + tText + " " + gt, Canon: "vis:string",
				Want: joinTokens(tokS), Why: why, nontrivial: true})
			if isExc {
				cs.add(opCase{Kind: "C15 Error", Impl: "rawerror " + tText + " " + gt, Canon: "vis:string", Want: joinTokens(tokS), Same: s0, Why: why, nontrivial: true})
			}
			// non-interference: a value that differs only under redacted fields prints identically
			g2 := scramble(vg, env, false, t, g)
			if g2.Text() != gt {
				c.rep.Hist("non-interference", "string:pair")
				r0 := cs.add(opCase{Kind: "C15 String raw", Impl: "rawstring " + tText + " " + gt})
				cs.add(opCase{Kind: "C15 String non-interference", Impl: "rawstring " + tText + " " + g2.Text(), Same: r0, nontrivial: true,
					Why: "two values that differ only under go.redact fields must print identically"})
			}
			// zap
			if b.opts.NoZap {
				cs.add(opCase{Kind: "C15 no zap code with --no-zap", Impl: "rawzap " + tText + " " + gt, Want: "nomethod", Why: "--no-zap must not generate MarshalLogObject"})
				continue
			}
			tokZ := expectedTokens(env, true, t, g)
			whyZ := "MarshalLogObject must log exactly: every set field that is not go.nolog under its label, <redacted> for redacted ones, and no leaf under a redacted or no-log field"
			cs.add(opCase{Kind: "C15 zap", Impl: "rawzap " + tText + " " + gt, Model: "zap " + tText + " " + gt, Canon: "vis:zap", Want: joinTokens(tokZ), Why: whyZ, nontrivial: true})
			g3 := scramble(vg, env, true, t, g)
			if g3.Text() != gt {
				c.rep.Hist("non-interference", "zap:pair")
				r0 := cs.add(opCase{Kind: "C15 zap raw", Impl: "rawzap " + tText + " " + gt, Canon: "zapjson"})
				cs.add(opCase{Kind: "C15 zap non-interference", Impl: "rawzap " + tText + " " + g3.Text(), Canon: "zapjson", Same: r0, nontrivial: true,
					Why: "two values that differ only under go.redact / go.nolog fields must log identically"})
			}
		}
	}
}

func joinTokens(toks []string) string {
	out := "ok"
	for _, t := range toks {
		out += " " + t
	}
	return out
}

func runC15(c *checker) {
	if c.replayOrCorpus("C15") {
		return
	}
	nProg, nVal := pick(6, 60), pick(60, 150)
	if *programs > 0 {
		nProg = *programs
	}
	if *values > 0 {
		nVal = *values
	}
	bs := c.buildPrograms(nProg, redactConfig, redactOptions, true)
	for _, b := range bs {
		if !c.checkBuild(b) {
			continue
		}
		c.shapeHist(b)
		for _, sd := range b.schema.Env.Structs {
			for _, f := range sd.Fields {
				if f.Redact {
					c.rep.Hist("redacted-field-shape", sd.Kind+" "+shorten(f.T.Shape(), 30))
					c.rep.Hist("redacted-field-category", sd.Kind+" "+shapeCategory(f.T))
				}
				if f.NoLog {
					c.rep.Hist("nolog-field-shape", sd.Kind+" "+shorten(f.T.Shape(), 30))
				}
				if sd.Kind == "exception" && f.Redact && f.Req && f.GoName == "Message" && f.T.K == gtext.KString {
					c.rep.Hist("redacted-field-category", "exception: required string `message`")
				}
			}
		}
		cs := c.newCaseSet("C15", b)
		c15Program(cs, nVal)
		logf("%s: %d ops", b.id(), len(cs.ops))
		cs.run()
	}
	c.rep.Rule = "programs placing go.redact / go.nolog on ~30% of the fields of structs, unions, exceptions and function arguments (fields of every type, required/optional/defaulted, reached through lists, sets, maps, typedefs) × {zap, --no-zap, strict enum text, no-recurse} × {strict IDL, legacy IDL without field identifiers/requiredness compiled with compile.NonStrict() (every third program)}; per struct-containing named type: values whose every string/binary leaf is a unique marker; String(), Error() (exceptions), MarshalLogObject/Array through a zapcore map encoder → token sets (labels shown, <redacted> labels, markers present, found by scanning for all markers of the value incl. fmt's []byte form and base64) vs the harness's statement of the rule and vs the model; non-interference pairs differing only under redacted (zap: + no-log) fields must render identically; non-trivial = every case; distinct by (program, op)"
}

func init() {
	modes["C15"] = runC15
	modeGens["C15"] = modeGen{redactConfig, redactOptions}
}

func shapeCategory(t *gtext.T) string {
	pre := ""
	if t.K == gtext.KTypedef {
		pre = "typedef-of-"
	}
	switch t.Root().K {
	case gtext.KString:
		return pre + "string"
	case gtext.KBinary:
		return pre + "binary"
	case gtext.KEnum:
		return pre + "enum"
	case gtext.KList:
		return pre + "list"
	case gtext.KSet, gtext.KSSet:
		return pre + "set"
	case gtext.KMap:
		return pre + "map"
	case gtext.KStruct:
		return pre + "struct"
	}
	return pre + "number"
}
