// Command gencheck checks thriftrw's *generated code*: it generates random
// abstract Thrift programs, renders them, runs the real code generator built
// from the repository under test, compiles and vets the output against the
// repository's runtime, drives the generated types through a reflect-based
// value driver, feeds the same operations to the Lean model driver schemadrv
// (SCHEMA_PROTOCOL.md) and evaluates implementation-side property oracles for
// C01 C04 C05 C06 C10 C14 C15 C19 and the generated part of C13.
package main

import (
	"flag"
	"fmt"
	"os"
	"os/signal"
	"runtime"
	"syscall"

	"verifharness/internal/gobuild"
	"verifharness/internal/report"
	"verifharness/internal/rng"
)

var (
	prop     = flag.String("prop", "", "property id (C01 C04 C05 C06 C10 C14 C15 C19 C13gen, or `build`)")
	tier     = flag.String("tier", "quick", "quick|thorough")
	driver   = flag.String("driver", "", "path to the Lean schema driver (schemadrv)")
	out      = flag.String("out", "", "report file")
	replay   = flag.String("replay", "", "replay file")
	corpus   = flag.String("corpus", "", "corpus directory")
	noModel  = flag.Bool("no-model", false, "do not compare with the Lean model")
	programs = flag.Int("programs", 0, "override the number of random programs")
	values   = flag.Int("values", 0, "override the number of values per type")
	dumpDir  = flag.String("dump-dir", "", "write the rendered programs of failing cases here (debugging)")
	noCache  = flag.Bool("no-cache", false, "ignore cached build results")
	par      = flag.Int("par", 0, "parallel builds (default: number of CPUs)")
	verbose  = flag.Bool("v", false, "progress on stderr")
	mkCorpus = flag.String("make-corpus", "", "append a self-contained sample of the run's cases (program text + ops) to this corpus file")
)

type checker struct {
	rep  *report.Report
	env  *gobuild.Env
	r    *rng.R
	pend []pending
}

func logf(format string, a ...interface{}) {
	if *verbose {
		fmt.Fprintf(os.Stderr, format+"\n", a...)
	}
}

func (c *checker) oracle(kind, input, impl, why string) {
	c.rep.Disagree(report.Disagreement{Kind: kind, Input: input, Impl: impl, Oracle: why})
}

func (c *checker) known(id, what string) {
	for _, k := range c.rep.Known {
		if k.ID == id {
			return
		}
	}
	c.rep.Known = append(c.rep.Known, report.Known{ID: id, What: what})
}

func fatal(format string, a ...interface{}) {
	fmt.Fprintf(os.Stderr, "gencheck: "+format+"\n", a...)
	os.Exit(3)
}

func thorough() bool { return *tier == "thorough" }

func pick(quick, thor int) int {
	if thorough() {
		return thor
	}
	return quick
}

func main() {
	flag.Parse()
	if *par <= 0 {
		*par = runtime.NumCPU()
	}
	if *out == "" {
		fatal("--out is required")
	}
	env, err := gobuild.Setup()
	if err != nil {
		fatal("%v", err)
	}
	env.NoCache = *noCache
	sig := make(chan os.Signal, 1)
	signal.Notify(sig, syscall.SIGINT, syscall.SIGTERM)
	go func() {
		<-sig
		killChildren()
		env.Cleanup()
		os.Exit(3)
	}()
	rep := report.New(*prop)
	c := &checker{rep: rep, env: env, r: seededRng(0x6e00)}
	if *noModel || *driver == "" {
		*noModel = true
		rep.Notes = append(rep.Notes, "model comparison switched off (--no-model): implementation-side oracles only")
	}
	rep.Notes = append(rep.Notes, "repository under test: "+env.Repo+" tree "+env.TreeHash)
	run, ok := modes[*prop]
	if !ok {
		fatal("unknown property %q", *prop)
	}
	func() {
		defer func() {
			killChildren()
			env.Cleanup()
		}()
		run(c)
	}()
	if t, ok := lastChildStderr.Load().(string); ok && t != "" {
		rep.Notes = append(rep.Notes, "last words of a value driver process on stderr: "+summarize(t, 1200))
	}
	if n := crashesNotReproduced.Load(); n > 0 {
		rep.Notes = append(rep.Notes, fmt.Sprintf("%d operations whose driver process died in a batch ran to an answer when run again alone (the machine, not the code): their second answer is what was compared", n))
	}
	if err := rep.Write(*out); err != nil {
		fatal("%v", err)
	}
}

// seededRng derives the run's generator from VERIF_SEED through rng's own
// output function: rng.FromEnv(salt) starts at seed·γ+salt and advances by γ per
// draw, so the streams of consecutive seeds are shifted copies of one another;
// hashing the seed first makes them unrelated.
func seededRng(salt uint64) *rng.R {
	h := rng.New(uint64(rng.Seed())).U64()
	return rng.New(rng.New(h ^ salt).U64())
}

// modes maps --prop to its implementation; every mode replays the corpus (or
// the --replay file) first.
var modes = map[string]func(*checker){}
