package main

import (
	"bufio"
	"fmt"
	"os"
	"os/exec"
	"strings"
	"sync"
	"sync/atomic"
	"time"

	"verifharness/internal/lineproto"
)

// ---- child process registry (so that nothing is left behind) ----

var (
	childMu  sync.Mutex
	children = map[*exec.Cmd]bool{}
)

func track(cmd *exec.Cmd, on bool) {
	childMu.Lock()
	if on {
		children[cmd] = true
	} else {
		delete(children, cmd)
	}
	childMu.Unlock()
}

func killChildren() {
	childMu.Lock()
	for c := range children {
		if c.Process != nil {
			c.Process.Kill()
		}
	}
	childMu.Unlock()
}

// implDriver runs operations on the value driver binary of one generated program.
type implDriver struct {
	bin      string
	preamble []string // reset + definitions, replayed after every restart
	memLimit string
	restarts int
	vlimitKB int // address-space limit of the child in KiB (0 = none)
}

// runOnce feeds preamble+ops to a fresh child and returns the answers obtained
// for ops (possibly fewer than len(ops) if the child died).
func (d *implDriver) runOnce(ops []string, flushEach bool) []string {
	cmd := exec.Command(d.bin)
	if d.vlimitKB > 0 {
		cmd = exec.Command("sh", "-c", fmt.Sprintf("ulimit -v %d; exec %q", d.vlimitKB, d.bin))
	}
	mem := d.memLimit
	if mem == "" {
		mem = "3GiB"
	}
	cmd.Env = append(os.Environ(), "GOMEMLIMIT="+mem, "GOVALUE_OP_TIMEOUT=20s", "GOTRACEBACK=none")
	if flushEach {
		cmd.Env = append(cmd.Env, "GOVALUE_FLUSH=1")
	}
	stdin, err := cmd.StdinPipe()
	if err != nil {
		return nil
	}
	stdout, err := cmd.StdoutPipe()
	if err != nil {
		return nil
	}
	stderrTail := &tailBuffer{max: 1500}
	cmd.Stderr = stderrTail
	if err := cmd.Start(); err != nil {
		return nil
	}
	defer func() {
		if t := strings.TrimSpace(stderrTail.String()); t != "" {
			lastChildStderr.Store(t)
		}
	}()
	track(cmd, true)
	defer track(cmd, false)
	go func() {
		w := bufio.NewWriterSize(stdin, 1<<16)
		for _, l := range d.preamble {
			w.WriteString(l)
			w.WriteByte('\n')
		}
		for _, l := range ops {
			w.WriteString(l)
			w.WriteByte('\n')
		}
		w.Flush()
		stdin.Close()
	}()
	var answers []string
	progress := make(chan struct{}, 1)
	done := make(chan struct{})
	go func() {
		sc := bufio.NewScanner(stdout)
		sc.Buffer(make([]byte, 1<<20), 1<<30)
		n := 0
		for sc.Scan() {
			n++
			if n > len(d.preamble) {
				answers = append(answers, sc.Text())
			}
			select {
			case progress <- struct{}{}:
			default:
			}
		}
		close(done)
	}()
	for alive := true; alive; {
		select {
		case <-done:
			alive = false
		case <-progress:
		case <-time.After(90 * time.Second):
			cmd.Process.Kill()
			<-done
			alive = false
		}
	}
	cmd.Wait()
	if len(answers) > len(ops) {
		answers = answers[:len(ops)]
	}
	return answers
}

// run returns exactly one answer per op; an op on which the child dies or
// hangs is answered `crash` and the child is restarted for the rest.
func (d *implDriver) run(ops []string) []string {
	out := make([]string, 0, len(ops))
	flush := false
	for len(out) < len(ops) {
		got := d.runOnce(ops[len(out):], flush)
		out = append(out, got...)
		if len(out) < len(ops) {
			d.restarts++
			if flush || len(got) == 0 && d.restarts > 1 {
				out = append(out, "crash")
			}
			flush = true
		}
	}
	// an op on which the child died is run again, alone in a fresh child: a decoder that kills the
	// process does so again; a child that fell victim to the machine (memory pressure from whatever
	// else is running, a stalled scheduler) does not. The first few are given two more chances after
	// a pause; when everything keeps dying the decoder is the reason, and pauses would only add up.
	for i, a := range out {
		if a != "crash" {
			continue
		}
		pauses := []time.Duration{0}
		if retriedCrashes.Add(1) <= 4 {
			pauses = []time.Duration{0, 5 * time.Second, 20 * time.Second}
		}
		for _, pause := range pauses {
			time.Sleep(pause)
			if again := d.runOnce(ops[i:i+1], true); len(again) == 1 {
				out[i] = again[0]
				crashesNotReproduced.Add(1)
				break
			}
		}
	}
	return out
}

// crashesNotReproduced counts ops whose child died in a batch and which ran to an answer alone.
var crashesNotReproduced, retriedCrashes atomic.Int64

// runSharded splits ops over several children running in parallel.
func (d *implDriver) runSharded(ops []string, shards int) []string {
	if shards <= 1 || len(ops) < 64 {
		return d.run(ops)
	}
	out := make([]string, len(ops))
	var wg sync.WaitGroup
	per := (len(ops) + shards - 1) / shards
	for s := 0; s < shards; s++ {
		lo, hi := s*per, (s+1)*per
		if lo >= len(ops) {
			break
		}
		if hi > len(ops) {
			hi = len(ops)
		}
		wg.Add(1)
		go func(lo, hi int) {
			defer wg.Done()
			sub := &implDriver{bin: d.bin, preamble: d.preamble, memLimit: d.memLimit}
			copy(out[lo:hi], sub.run(ops[lo:hi]))
		}(lo, hi)
	}
	wg.Wait()
	return out
}

// modelRun feeds preamble+ops to the Lean driver (sharded) and returns one answer per op.
func modelRun(preamble, ops []string, shards int) ([]string, error) {
	if shards < 1 {
		shards = 1
	}
	if len(ops) < 256 {
		shards = 1
	}
	out := make([]string, len(ops))
	errs := make([]error, shards)
	var wg sync.WaitGroup
	per := (len(ops) + shards - 1) / shards
	for s := 0; s < shards; s++ {
		lo, hi := s*per, (s+1)*per
		if lo >= len(ops) {
			break
		}
		if hi > len(ops) {
			hi = len(ops)
		}
		wg.Add(1)
		go func(s, lo, hi int) {
			defer wg.Done()
			all := append(append([]string{}, preamble...), ops[lo:hi]...)
			ans, err := lineproto.Run(*driver, all)
			if err != nil {
				errs[s] = err
				return
			}
			for i, a := range ans[:len(preamble)] {
				if a != "ok" {
					errs[s] = fmt.Errorf("model rejected definition %q: %s", preamble[i], a)
					return
				}
			}
			copy(out[lo:hi], ans[len(preamble):])
		}(s, lo, hi)
	}
	wg.Wait()
	for _, e := range errs {
		if e != nil {
			return nil, e
		}
	}
	return out, nil
}

// pending is one op whose implementation answer is to be compared with the model's.
type pending struct {
	kind  string
	op    string // model op line
	impl  string // implementation answer, canonicalised
	canon func(string) string
}

func summarize(s string, n int) string {
	if len(s) > n {
		return s[:n] + "…"
	}
	return s
}

var _ = strings.TrimSpace

// tailBuffer keeps the last max bytes written to it (what a dying child said last).
type tailBuffer struct {
	mu  sync.Mutex
	max int
	b   []byte
}

func (t *tailBuffer) Write(p []byte) (int, error) {
	t.mu.Lock()
	defer t.mu.Unlock()
	t.b = append(t.b, p...)
	if len(t.b) > t.max {
		t.b = t.b[len(t.b)-t.max:]
	}
	return len(p), nil
}

func (t *tailBuffer) String() string {
	t.mu.Lock()
	defer t.mu.Unlock()
	return string(t.b)
}

// lastChildStderr: the last thing any driver child wrote to stderr (a Go runtime that dies says why).
var lastChildStderr atomic.Value
