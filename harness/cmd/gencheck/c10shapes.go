package main

import (
	"fmt"
	"strings"

	"verifharness/internal/gobuild"
	"verifharness/internal/rng"
)

// Shape programs for C10: program families in which an order dependence of the
// compiler, the generator or the plugin request builder has something to act
// on — chains of constants of named (enum / typedef) type, service inheritance
// across several modules reached through sibling includes, and files that
// share a base name. Written as text; sizes, names and declaration order are drawn.

type c10Shape struct {
	detail string
	note   string
	files  map[string]string
	order  []string // dependency order, root last
}

func shuffled(r *rng.R, xs []string) []string {
	out := append([]string(nil), xs...)
	for i := len(out) - 1; i > 0; i-- {
		j := r.Intn(i + 1)
		out[i], out[j] = out[j], out[i]
	}
	return out
}

// shapeConstChains: constants defined through other constants of the same
// named type, in one module and across an include, used in containers and defaults.
func shapeConstChains(r *rng.R, plain bool) c10Shape {
	type fam struct{ typ, prefix, lit string }
	fams := []fam{
		{"Color", "col", "Color.GREEN"}, {"Timestamp", "ts", "86400"}, {"Label", "lab", `"north"`},
		{"Paint", "pnt", "Color.BLUE"}, {"i32", "num", "7"}, {"string", "str", `"plain"`}, {"Flag", "flg", "true"},
	}
	base := []string{
		"enum Color {\n  RED = 1,\n  GREEN = 2,\n  BLUE = 3,\n}",
		"typedef i64 Timestamp", "typedef string Label", "typedef Color Paint", "typedef bool Flag",
	}
	mk := func(qual string, inc []string) (decls []string, names map[string][]string) {
		names = map[string][]string{}
		for _, f := range fams {
			n := 2 + r.Intn(4)
			for i := 0; i < n; i++ {
				name := fmt.Sprintf("%s%s%d", f.prefix, qual, i)
				val := f.lit
				if qual == "" {
					val = strings.Replace(val, "Color.", "shared.Color.", 1)
				}
				cands := append([]string(nil), names[f.typ]...)
				cands = append(cands, inc...)
				var pool []string
				for _, c := range cands {
					if strings.HasPrefix(strings.TrimPrefix(c, "shared."), f.prefix) {
						pool = append(pool, c)
					}
				}
				if len(pool) > 0 && r.Chance(4, 5) {
					val = pool[r.Intn(len(pool))]
				}
				typ := f.typ
				if qual == "" && (typ == "Color" || typ == "Timestamp" || typ == "Label" || typ == "Paint" || typ == "Flag") {
					typ = "shared." + typ
				}
				decls = append(decls, fmt.Sprintf("const %s %s = %s", typ, name, val))
				names[f.typ] = append(names[f.typ], name)
			}
		}
		return
	}
	sharedDecls, sharedNames := mk("S", nil)
	var exported []string
	for _, ns := range sharedNames {
		for _, n := range ns {
			exported = append(exported, "shared."+n)
		}
	}
	rootDecls, rootNames := mk("", exported)
	pickN := func(ns []string) string { return ns[r.Intn(len(ns))] }
	rootDecls = append(rootDecls,
		fmt.Sprintf("const list<shared.Color> palette = [%s, %s]", pickN(rootNames["Color"]), pickN(rootNames["Color"])),
		fmt.Sprintf("const map<shared.Label, shared.Timestamp> stamps = {%s: %s}", pickN(rootNames["Label"]), pickN(rootNames["Timestamp"])),
		fmt.Sprintf("struct Holder {\n  1: optional shared.Color c = %s\n  2: optional shared.Timestamp t = %s\n  3: optional shared.Label l = %s\n  4: optional shared.Paint p = %s\n  5: optional i32 n = %s\n  6: optional shared.Flag f = %s\n}",
			pickN(rootNames["Color"]), pickN(rootNames["Timestamp"]), pickN(rootNames["Label"]), pickN(rootNames["Paint"]), pickN(rootNames["i32"]), pickN(rootNames["Flag"])),
		fmt.Sprintf("const Holder held = {\"c\": %s, \"t\": %s}", pickN(rootNames["Color"]), pickN(rootNames["Timestamp"])))
	shared := strings.Join(shuffled(r, append(base, sharedDecls...)), "\n\n") + "\n"
	root := "include \"./shared.thrift\"\n\n" + strings.Join(shuffled(r, rootDecls), "\n\n") + "\n"
	return c10Shape{"", "shape: chains of constants of named type", map[string]string{"shared.thrift": shared, "consts.thrift": root}, []string{"shared.thrift", "consts.thrift"}}
}

// shapeServiceChain: service inheritance through k modules, each including only
// the next; the root includes several of them as siblings.
func shapeServiceChain(r *rng.R, plain bool) c10Shape {
	k := r.Pick(2, 2, 3, 3, 4, 5) // (2: one service and its parent, both included by the root — which of the two is linked first is a coin toss)
	if plain {
		k = 3 // the smallest chain, nothing but includes in the root: the first round of every run
	}
	files := map[string]string{}
	var order []string
	for i := k - 1; i >= 0; i-- {
		var sb strings.Builder
		ext := ""
		if i+1 < k {
			fmt.Fprintf(&sb, "include \"./link%d.thrift\"\n\n", i+1)
			ext = fmt.Sprintf(" extends link%d.Svc%d", i+1, i+1)
		}
		fmt.Fprintf(&sb, "struct Arg%d {\n  1: optional string v\n}\n\n", i)
		fmt.Fprintf(&sb, "service Svc%d%s {\n", i, ext)
		for j, nf := 0, 1+r.Intn(3); j < nf; j++ {
			fmt.Fprintf(&sb, "  Arg%d call%d_%d(1: Arg%d a)\n", i, i, j, i)
		}
		sb.WriteString("}\n")
		name := fmt.Sprintf("link%d.thrift", i)
		files[name] = sb.String()
		order = append(order, name)
	}
	// the root includes link0 and some of the others (always link1), in drawn order
	incs := []string{"link0", "link1"}
	all := !plain && r.Chance(1, 2) // every module of the chain is also an include of the root: which one is reached first, directly or as somebody's parent, is then a matter of order only
	for i := 2; i < k; i++ {
		if all || (!plain && r.Chance(1, 3)) {
			incs = append(incs, fmt.Sprintf("link%d", i))
		}
	}
	var sb strings.Builder
	for _, inc := range shuffled(r, incs) {
		fmt.Fprintf(&sb, "include \"./%s.thrift\"\n", inc)
	}
	// (a service in the root fixes the order in which the chain is first visited: only sometimes)
	if !plain && r.Chance(1, 6) {
		sb.WriteString("\nservice Top extends link0.Svc0 {\n  void top()\n}\n")
	}
	if !plain && r.Chance(1, 6) {
		sb.WriteString("\nservice Side extends link1.Svc1 {\n  void side()\n}\n")
	}
	files["root.thrift"] = sb.String()
	return c10Shape{fmt.Sprintf("chain of %d modules, root includes %d, %d services in the root", k, len(incs), strings.Count(sb.String(), "service ")), "shape: service inheritance across modules", files, append(order, "root.thrift")}
}

// shapeSameBaseName: files sharing a base name in different directories, each
// defining a service and a struct of the same name, reached through sibling includes.
func shapeSameBaseName(r *rng.R, plain bool) c10Shape {
	dirs := []string{"dx", "dy", "dz"}[:2+r.Intn(2)]
	files := map[string]string{}
	var order, users []string
	for i, d := range dirs {
		files[d+"/common.thrift"] = fmt.Sprintf("struct Item {\n  1: optional string from%s\n}\n\nservice Shared {\n  Item ping%s(1: Item i)\n}\n", strings.ToUpper(d), strings.ToUpper(d))
		order = append(order, d+"/common.thrift")
		u := fmt.Sprintf("user%d", i)
		files[u+".thrift"] = fmt.Sprintf("include \"./%s/common.thrift\"\n\nservice User%d extends common.Shared {\n  common.Item get%d()\n}\n", d, i, i)
		users = append(users, u)
	}
	for _, u := range users {
		order = append(order, u+".thrift")
	}
	var sb strings.Builder
	for _, u := range shuffled(r, users) {
		fmt.Fprintf(&sb, "include \"./%s.thrift\"\n", u)
	}
	if !plain && r.Chance(1, 3) {
		sb.WriteString("\nservice Root extends user0.User0 {\n  void root()\n}\n")
	} else {
		sb.WriteString("\nstruct RootOnly {\n  1: optional string v\n}\n")
	}
	files["root.thrift"] = sb.String()
	return c10Shape{fmt.Sprintf("%d directories, %d services in the root", len(dirs), strings.Count(sb.String(), "service ")), "shape: files sharing a base name", files, append(order, "root.thrift")}
}

// shapeImportNames: included files whose package names compete with packages the generated
// code imports anyway (wire, stream, fmt, …) and with the numbered names handed out on a
// clash (wire2, wire3): the name each package is imported under depends on what is taken
// already, i.e. on the order of the imports. Some includes are used in types, some only included
// (finding D75: the IDL-embedding code imported those while ranging over a map).
func shapeImportNames(r *rng.R, plain bool) c10Shape {
	pool := []string{"wire", "wire2", "wire3", "stream", "stream2", "fmt", "fmt2", "errors", "errors2", "strings", "zapcore", "multierr", "thriftreflect", "thriftreflect2"}
	names := shuffled(r, pool)[:2+r.Intn(5)]
	if plain {
		names = []string{"wire", "wire2", "wire3"}
	}
	files := map[string]string{}
	var order []string
	var sb strings.Builder
	for _, n := range names {
		files[n+".thrift"] = fmt.Sprintf("struct Item {\n  1: optional string v\n}\n\nconst i32 K = %d\n", len(n))
		order = append(order, n+".thrift")
	}
	for _, n := range shuffled(r, names) {
		fmt.Fprintf(&sb, "include \"./%s.thrift\"\n", n)
	}
	sb.WriteString("\nstruct Root {\n  1: optional string s\n")
	used := 0
	if !plain {
		for i, n := range names {
			if r.Chance(1, 4) {
				fmt.Fprintf(&sb, "  %d: optional %s.Item f%d\n", i+2, n, i)
				used++
			}
		}
	}
	sb.WriteString("}\n")
	files["root.thrift"] = sb.String()
	return c10Shape{fmt.Sprintf("%d includes named like imported packages, %d used in types", len(names), used), "shape: includes competing for import names", files, append(order, "root.thrift")}
}

// shapeUmbrella: a root file that only includes; one of the included modules needs both a library
// package and a Thrift package of the same name (errors, fmt, strings), a sibling needs the
// library package only. Whatever is shared between the modules of one Generate call (a table of
// import aliases, say) is filled in the order the modules are generated in.
func shapeUmbrella(r *rng.R, plain bool) c10Shape {
	lib := []string{"errors", "fmt", "strings"}[r.Intn(3)]
	if plain {
		lib = "errors"
	}
	files := map[string]string{
		lib + ".thrift":  "exception Oops {\n  1: optional string m\n}\n\nstruct Item {\n  1: required string v\n}\n",
		"catalog.thrift": fmt.Sprintf("include \"./%s.thrift\"\n\nstruct Entry {\n  1: required string name\n  2: optional %s.Item item\n  3: optional list<%s.Oops> failures\n}\n\nservice Catalog {\n  Entry get(1: string name) throws (1: %s.Oops oops)\n}\n", lib, lib, lib, lib),
		"plain.thrift":   "struct Plain {\n  1: required string name\n  2: required i32 n\n}\n\nservice Plains {\n  Plain get(1: string name)\n}\n",
		"other.thrift":   "include \"./plain.thrift\"\n\nstruct Other {\n  1: required plain.Plain p\n}\n",
	}
	incs := shuffled(r, []string{"catalog", "plain", "other"})
	var sb strings.Builder
	for _, n := range incs {
		fmt.Fprintf(&sb, "include \"./%s.thrift\"\n", n)
	}
	sb.WriteString("\nconst i32 VERSION = 1\n")
	files["root.thrift"] = sb.String()
	return c10Shape{"umbrella file over modules that need " + lib + " as a library and as a Thrift package", "shape: umbrella over modules sharing an import name", files, []string{lib + ".thrift", "plain.thrift", "catalog.thrift", "other.thrift", "root.thrift"}}
}

// shapeLongNames: helper names of a hundred to several hundred characters — containers nested 5 to 10
// levels deep over structs with long names: whatever the generator does with a name that long
// (cut it, number it, digest it) has to come out the same in every process.
func shapeLongNames(r *rng.R, plain bool) c10Shape {
	long := "Record" + strings.Repeat("OfAnotherKind", 1+r.Intn(8))
	var sb strings.Builder
	fmt.Fprintf(&sb, "struct %s {\n  1: optional string v\n}\n\nenum Colour { RED, GREEN }\n\n", long)
	leaf := []string{long, "string", "binary", "i64", "double", "Colour", "bool"}
	var deepest int
	nest := func(depth int) string {
		t := leaf[r.Intn(len(leaf))]
		for d := 0; d < depth; d++ {
			switch r.Intn(4) {
			case 0:
				t = "list<" + t + ">"
			case 1:
				t = "set<" + t + ">"
			case 2:
				t = "map<string, " + t + ">"
			default:
				t = "map<" + []string{"i32", "string", "Colour"}[r.Intn(3)] + ", " + t + ">"
			}
		}
		return t
	}
	sb.WriteString("struct Holder {\n")
	nf := 2 + r.Intn(4)
	for i := 1; i <= nf; i++ {
		depth := 5 + r.Intn(6)
		if depth > deepest {
			deepest = depth
		}
		fmt.Fprintf(&sb, "  %d: optional %s f%d\n", i, nest(depth), i)
	}
	sb.WriteString("}\n")
	if !plain {
		fmt.Fprintf(&sb, "\nservice Deep {\n  %s get(1: %s a)\n}\n", nest(6+r.Intn(3)), nest(5+r.Intn(3)))
	}
	files := map[string]string{"root.thrift": sb.String()}
	return c10Shape{fmt.Sprintf("struct name of %d characters, containers up to %d levels", len(long), deepest), "shape: helper names hundreds of characters long", files, []string{"root.thrift"}}
}

// shapeTypedefLoop: a chain of 2–5 typedefs that closes through a struct (`typedef Beta Alpha … typedef
// Node Omega; struct Node {1: optional Alpha next}`): which typedef is linked first depends on map
// iteration, and every one of them must come out with its root whatever the order (finding D10,
// repaired) — compile and generation succeed every time, with the same bytes.
func shapeTypedefLoop(r *rng.R, plain bool) c10Shape {
	n := 2 + r.Intn(4)
	names := []string{"Alpha", "Beta", "Gamma", "Delta", "Omega"}[:n]
	var lines []string
	for i := 0; i+1 < n; i++ {
		lines = append(lines, fmt.Sprintf("typedef %s %s", names[i+1], names[i]))
	}
	lines = append(lines, fmt.Sprintf("typedef Node %s", names[n-1]))
	user := names[r.Intn(n)]
	if r.Bool() {
		lines = append(lines, fmt.Sprintf("struct Node {\n  1: optional %s nxt\n}", names[0]))
	} else {
		lines = append(lines, fmt.Sprintf("struct Node {\n  1: optional %s nxt\n  2: optional list<%s> more\n  3: optional string label\n}", names[0], user))
	}
	if !plain && r.Bool() {
		lines = append(lines, fmt.Sprintf("struct Holder {\n  1: optional map<string, %s> byName\n}", names[r.Intn(n)]))
		lines = append(lines, fmt.Sprintf("service Walk {\n  %s step(1: %s origin)\n}", names[r.Intn(n)], names[r.Intn(n)]))
	}
	files := map[string]string{"root.thrift": strings.Join(shuffled(r, lines), "\n\n") + "\n"}
	return c10Shape{fmt.Sprintf("%d typedefs", n), "shape: typedef chain that closes through a struct", files, []string{"root.thrift"}}
}

// shapeZeroPadded: names that are equal up to the zero padding of a number (Rev1 / Rev01 / Rev001) among
// types, constants, enum items, services and functions: an ordering that reads digits as numbers has no
// opinion about them, and what it leaves undecided must not be decided by map iteration.
func shapeZeroPadded(r *rng.R, plain bool) c10Shape {
	pads := shuffled(r, []string{"1", "01", "001", "0001"})[:2+r.Intn(3)]
	var lines []string
	for _, p := range pads {
		lines = append(lines, fmt.Sprintf("struct Rev%s {\n  1: optional string v%s\n  2: optional i32 n%s\n}", p, p, p))
		lines = append(lines, fmt.Sprintf("const i32 LIMIT_%s = %d", p, len(p)))
		lines = append(lines, fmt.Sprintf("typedef list<Rev%s> Revs%s", p, p))
	}
	var items, funcs []string
	for i, p := range pads {
		items = append(items, fmt.Sprintf("  STEP%s = %d", p, i+1))
		funcs = append(funcs, fmt.Sprintf("  Rev%s get%s(1: Revs%s all%s)", p, p, p, p))
	}
	lines = append(lines, "enum Step {\n"+strings.Join(items, ",\n")+"\n}")
	lines = append(lines, "service Store {\n"+strings.Join(shuffled(r, funcs), "\n")+"\n}")
	if !plain {
		for _, p := range pads {
			lines = append(lines, fmt.Sprintf("service Svc%s {\n  void ping%s()\n}", p, p))
		}
	}
	files := map[string]string{"root.thrift": strings.Join(shuffled(r, lines), "\n\n") + "\n"}
	return c10Shape{fmt.Sprintf("%d spellings of one number", len(pads)), "shape: names equal up to zero padding", files, []string{"root.thrift"}}
}

// shapeMidLinkValues: values that are cast while the structs they belong to are being linked, in the
// variants whose outcome does NOT depend on the order on the unchanged tree (base-typed defaults next
// to an empty struct literal of a mutually recursive struct; a constant of a struct type that is used,
// cast to another struct type, inside the cycle of its own type). The variants that do depend on the
// order are the known findings D21 / D50 and are replayed from the corpus.
func shapeMidLinkValues(r *rng.R, plain bool) c10Shape {
	var lines []string
	note := ""
	if r.Bool() {
		note = "base-typed defaults beside an empty literal of a mutually recursive struct"
		// an integer literal at a double: the cast is visible in the generated code (float64(7))
		defaults := append([]string{"optional double d = 7"}, shuffled(r, []string{"optional i32 n = 3", "optional string s = \"x\"", "optional bool b = true", "optional i64 big = 5", "optional double e = 2.5"})[:r.Intn(3)]...)
		var fs []string
		fs = append(fs, "  1: optional U u")
		for i, d := range defaults {
			fs = append(fs, fmt.Sprintf("  %d: %s", i+2, d))
		}
		lines = append(lines, "struct S {\n"+strings.Join(fs, "\n")+"\n}")
		lines = append(lines, "struct U {\n  1: optional S s = {}\n  2: optional string label\n}")
		if !plain {
			lines = append(lines, "struct V {\n  1: optional U u = {}\n  2: optional S s = {}\n}")
		}
	} else {
		note = "a constant used, cast to another struct type, inside the cycle of its own type"
		lines = append(lines, "struct S2 {}", "struct T {\n  1: optional S2 x = C\n}", "const S C = {}",
			"struct S {\n  1: optional U u\n}", "struct U {\n  1: optional S s = C\n}")
		if !plain {
			lines = append(lines, "struct W {\n  1: optional S s = C\n  2: optional S2 y = C\n}")
		}
	}
	files := map[string]string{"root.thrift": strings.Join(shuffled(r, lines), "\n\n") + "\n"}
	return c10Shape{note, "shape: values cast while their structs are being linked (order-independent variants)", files, []string{"root.thrift"}}
}

var c10ShapeGens = []func(*rng.R, bool) c10Shape{shapeConstChains, shapeServiceChain, shapeSameBaseName, shapeImportNames, shapeUmbrella, shapeLongNames, shapeTypedefLoop, shapeZeroPadded, shapeMidLinkValues}

// c10ShapeSizes: order dependences of the generator act on Go's natural map
// order only (the link-order hook steers the compiler, not the generator), and
// some show in one run out of eight: these programs get many natural runs.
func c10ShapeSizes() (n, natural, perms int) { return pick(12, 48), pick(28, 96), pick(8, 32) }

func (c *checker) runC10Shapes(helper string) {
	rounds := pick(3, 10)
	for round := 0; round < rounds; round++ {
		for _, mk := range c10ShapeGens {
			sh := mk(c.r.Fork(), round == 0)
			job := &gobuild.Job{Files: sh.files, Order: sh.order, Opts: gobuild.Options{}}
			n, natural, perms := c10ShapeSizes()
			runs := c.c10Runs(job, commonDirOf(sh.order), n, natural, perms, helper)
			c.rep.Hist("program-kind", sh.note)
			if sh.detail != "" {
				c.rep.Hist("shape-detail", sh.detail)
			}
			c.rep.Hist("runs-per-program", fmt.Sprint(len(runs)))
			if !runs[0].ok && strings.Contains(runs[0].errText, "could not parse file") {
				fatal("shape program %q does not parse (a mistake of the harness): %s", sh.note, summarize(strings.TrimSpace(runs[0].errText), 400))
			}
			if !runs[0].ok && len(c.rep.Samples) < 12 {
				c.rep.Sample(sh.note + " rejected: " + summarize(strings.TrimSpace(runs[0].errText), 300))
			}
			c.c10Check(fmt.Sprintf("%s #%d", sh.note, round), c.c10Input(0, job, "", sh.note), "", job, runs)
		}
	}
}
