package main

import (
	"fmt"
	"strings"

	"verifharness/internal/gtext"
	"verifharness/internal/refcodec"
	"verifharness/internal/rng"
	"verifharness/internal/valgen"
	"verifharness/internal/wv"
)

// logicalEq is the harness's independent structural comparison of two wire
// values: struct fields by id, sets and maps as multisets, lists in order,
// doubles numerically (+0 = −0; NaN excluded by the generator).
func logicalEq(a, b *wv.V) bool {
	if a.T != b.T {
		return false
	}
	switch a.T {
	case wv.TDouble:
		if a.U<<1 == 0 && b.U<<1 == 0 {
			return true
		}
		return a.U == b.U
	case wv.TBinary:
		return string(a.Bin) == string(b.Bin)
	case wv.TStruct:
		// a struct may list an identifier more than once: the last entry is the field (that is
		// what every decoder of the library makes of it)
		last := func(v *wv.V) map[uint16]*wv.V {
			m := map[uint16]*wv.V{}
			for _, f := range v.Fields {
				m[f.ID] = f.V
			}
			return m
		}
		la, lb := last(a), last(b)
		if len(la) != len(lb) {
			return false
		}
		for id, va := range la {
			vb, ok := lb[id]
			if !ok || !logicalEq(va, vb) {
				return false
			}
		}
		return true
	case wv.TList:
		if a.ET != b.ET || len(a.Items) != len(b.Items) {
			return false
		}
		for i := range a.Items {
			if !logicalEq(a.Items[i], b.Items[i]) {
				return false
			}
		}
		return true
	case wv.TSet:
		if a.ET != b.ET || len(a.Items) != len(b.Items) {
			return false
		}
		used := make([]bool, len(b.Items))
		for _, x := range a.Items {
			ok := false
			for j, y := range b.Items {
				if !used[j] && logicalEq(x, y) {
					used[j], ok = true, true
					break
				}
			}
			if !ok {
				return false
			}
		}
		return true
	case wv.TMap:
		if a.KT != b.KT || a.ET != b.ET || len(a.Items) != len(b.Items) {
			return false
		}
		used := make([]bool, len(b.Items)/2)
		for i := 0; i+1 < len(a.Items); i += 2 {
			ok := false
			for j := 0; j+1 < len(b.Items); j += 2 {
				if !used[j/2] && logicalEq(a.Items[i], b.Items[j]) && logicalEq(a.Items[i+1], b.Items[j+1]) {
					used[j/2], ok = true, true
					break
				}
			}
			if !ok {
				return false
			}
		}
		return true
	}
	return a.U == b.U
}

// dupFree: no set has two logically equal items, no map two logically equal keys.
func dupFree(v *wv.V) bool {
	for _, f := range v.Fields {
		if !dupFree(f.V) {
			return false
		}
	}
	for _, it := range v.Items {
		if !dupFree(it) {
			return false
		}
	}
	step := 0
	switch v.T {
	case wv.TSet:
		step = 1
	case wv.TMap:
		step = 2
	}
	if step > 0 {
		for i := 0; i < len(v.Items); i += step {
			for j := i + step; j < len(v.Items); j += step {
				if logicalEq(v.Items[i], v.Items[j]) {
					return false
				}
			}
		}
	}
	return true
}

func b01s(b bool) string {
	if b {
		return "ok 1"
	}
	return "ok 0"
}

func c14Program(cs *caseSet, nVal int) {
	c, b := cs.c, cs.b
	env := b.schema.Env
	r := c.r.Fork()
	codec := &refcodec.Codec{Env: env}
	omit := &refcodec.Codec{Env: env, OmitUnset: func() bool { return r.Chance(1, 2) }}
	vg := valgen.New(env, r)
	vg.NoNaN = true
	for _, tt := range b.schema.Types {
		t := tt.T
		tText := t.Text()
		n := nVal
		if t.IsPrim() {
			n = nVal/6 + 1
		}
		for i := 0; i < n; i++ {
			vg.MaxDepth, vg.MaxLen = r.Pick(1, 2, 3), r.Pick(0, 1, 2, 4)
			g := vg.Value(t)
			w, err := omit.ToWire(t, g)
			if err != nil {
				fatal("invalid generated value: %v", err)
			}
			// x and y: the value as decoded from two differently ordered encodings
			x, err1 := codec.FromWire(t, w)
			y, err2 := codec.FromWire(t, refcodec.Permute(r, w))
			if err1 != nil || err2 != nil {
				fatal("reference decode failed")
			}
			// filling defaults can make two set items / map keys equal: such a value is outside the statement
			if xw, err := codec.ToWire(t, x); err != nil || !dupFree(xw) {
				c.rep.Hist("perturbation", "skipped:duplicates-after-default-filling")
				continue
			}
			// z: x with one perturbation (still valid and duplicate-free)
			var z *gtext.G
			what := "none"
			for try := 0; try < 5 && z == nil; try++ {
				if p, wh, ok := vg.Perturb(t, x); ok {
					if pw, err := codec.ToWire(t, p); err == nil && dupFree(pw) {
						z, what = p, wh
					}
				}
			}
			vals := []*gtext.G{x, y}
			if z != nil {
				vals = append(vals, z)
			}
			c.rep.Hist("perturbation", what)
			c.rep.Hist("type-kind", tt.Kind)
			ws := make([]*wv.V, len(vals))
			for k, v := range vals {
				ws[k], err = codec.ToWire(t, v)
				if err != nil {
					fatal("decoded value is not serialisable: %v", err)
				}
			}
			pair := func(i, j int, note string) int {
				a, bb := vals[i], vals[j]
				want := b01s(logicalEq(ws[i], ws[j]))
				op := "equals " + tText + " " + a.Text() + " " + bb.Text()
				e := cs.add(opCase{Kind: "C14 Equals " + note, Impl: op, Model: op, Want: want, nontrivial: true,
					Why: "Equals disagrees with the independent structural comparison of the two logical values"})
				rev := "equals " + tText + " " + bb.Text() + " " + a.Text()
				cs.add(opCase{Kind: "C14 Equals symmetric " + note, Impl: rev, Model: rev, Same: e, nontrivial: true, Why: "Equals is not symmetric"})
				cs.add(opCase{Kind: "C14 ValuesAreEqual(ToWire) " + note, Impl: "weqg " + tText + " " + a.Text() + " " + bb.Text(),
					Model: "weq " + ws[i].Text() + " " + ws[j].Text(), Want: want, nontrivial: true,
					Why: "wire.ValuesAreEqual on the wire forms disagrees with the structural comparison (and hence with what Equals must say)"})
				return e
			}
			for k := range vals {
				op := "equals " + tText + " " + vals[k].Text() + " " + vals[k].Text()
				cs.add(opCase{Kind: "C14 Equals reflexive", Impl: op, Model: op, Want: "ok 1", Why: "Equals is not reflexive", nontrivial: true})
			}
			pair(0, 1, "permuted")
			if z != nil {
				xz := pair(0, 2, "perturbed:"+what)
				// transitivity through x ≈ y: Equals(y,z) must be Equals(x,z)
				op := "equals " + tText + " " + y.Text() + " " + z.Text()
				cs.add(opCase{Kind: "C14 Equals transitive", Impl: op, Model: op, Same: xz, nontrivial: true,
					Why: "x equals y (same value, other element order) but Equals(y,z) differs from Equals(x,z)"})
			}
			// nil receivers and arguments (struct pointers and reference-typed typedefs)
			if !t.IsPrim() && i%8 == 0 {
				for _, op := range []struct{ a, b, want string }{{"nil", "nil", "ok 1"}, {"nil", x.Text(), ""}, {x.Text(), "nil", ""}} {
					want := op.want
					if want == "" {
						want = "ok 0"
						// a nil container equals an empty one (len comparison); a nil []byte equals an empty one
						if t.Root().K != gtext.KStruct && len(x.Items) == 0 && len(x.B) == 0 {
							want = "ok 1"
						}
					}
					line := "equals " + tText + " " + op.a + " " + op.b
					cs.add(opCase{Kind: "C14 Equals nil", Impl: line, Model: line, Want: want, Why: "Equals on a nil receiver/argument must not panic and must treat nil as unequal to a value", nontrivial: true})
				}
			}
		}
	}
	// +0 against -0 at every place a double can sit in a wire value (equal everywhere: bare, in lists,
	// as set elements, as map keys and values, inside structs in containers)
	{
		pz, nz := &wv.V{T: wv.TDouble, U: 0}, &wv.V{T: wv.TDouble, U: 1 << 63}
		one := &wv.V{T: wv.TI32, U: 1}
		shapes := func(z *wv.V) []*wv.V {
			st := &wv.V{T: wv.TStruct, Fields: []wv.Field{{ID: 1, V: z}}}
			return []*wv.V{
				z,
				{T: wv.TList, ET: wv.TDouble, Items: []*wv.V{z, {T: wv.TDouble, U: 0x3ff0000000000000}}},
				{T: wv.TSet, ET: wv.TDouble, Items: []*wv.V{z}},
				{T: wv.TSet, ET: wv.TDouble, Items: []*wv.V{{T: wv.TDouble, U: 0x4000000000000000}, z}},
				{T: wv.TMap, KT: wv.TDouble, ET: wv.TI32, Items: []*wv.V{z, one}},
				{T: wv.TMap, KT: wv.TI32, ET: wv.TDouble, Items: []*wv.V{one, z}},
				{T: wv.TMap, KT: wv.TDouble, ET: wv.TDouble, Items: []*wv.V{z, z}},
				st,
				{T: wv.TSet, ET: wv.TStruct, Items: []*wv.V{st}},
				{T: wv.TMap, KT: wv.TStruct, ET: wv.TI32, Items: []*wv.V{st, one}},
				{T: wv.TList, ET: wv.TSet, Items: []*wv.V{{T: wv.TSet, ET: wv.TDouble, Items: []*wv.V{z}}}},
			}
		}
		ps, ns := shapes(pz), shapes(nz)
		for i := range ps {
			for _, pair := range [][2]*wv.V{{ps[i], ns[i]}, {ns[i], ps[i]}} {
				op := "weq " + pair[0].Text() + " " + pair[1].Text()
				cs.add(opCase{Kind: "C14 ValuesAreEqual zero-sign", Impl: op, Model: op, Want: b01s(logicalEq(pair[0], pair[1])), nontrivial: true,
					Why: "wire.ValuesAreEqual must treat +0 and -0 as the same double wherever it occurs"})
				addSpec(cs, pair[0], pair[1])
			}
		}
	}
	// structs that list a field identifier more than once (finding D87, repaired: the comparison
	// depended on the order of the arguments): both ways round
	for i := 0; i < 150; i++ {
		mk := func() *wv.V {
			v := &wv.V{T: wv.TStruct}
			for n := 1 + r.Intn(4); n > 0; n-- {
				var fv *wv.V
				if r.Chance(1, 4) {
					fv = &wv.V{T: wv.TStruct, Fields: []wv.Field{{ID: 1, V: &wv.V{T: wv.TI32, U: uint64(r.Pick(7, 9))}}, {ID: uint16(r.Pick(1, 2)), V: &wv.V{T: wv.TI32, U: 7}}}}
				} else {
					fv = &wv.V{T: wv.TI32, U: uint64(r.Pick(7, 9))}
				}
				v.Fields = append(v.Fields, wv.Field{ID: uint16(r.Pick(1, 1, 2, 3)), V: fv})
			}
			return v
		}
		a, bb := mk(), mk()
		if i == 0 {
			seven, nine := &wv.V{T: wv.TI32, U: 7}, &wv.V{T: wv.TI32, U: 9}
			a = &wv.V{T: wv.TStruct, Fields: []wv.Field{{ID: 1, V: seven}, {ID: 1, V: seven}}}
			bb = &wv.V{T: wv.TStruct, Fields: []wv.Field{{ID: 1, V: seven}, {ID: 2, V: nine}}}
		}
		for _, pair := range [][2]*wv.V{{a, bb}, {bb, a}} {
			op := "weq " + pair[0].Text() + " " + pair[1].Text()
			cs.add(opCase{Kind: "C14 ValuesAreEqual repeated field ids", Impl: op, Model: op, Want: b01s(logicalEq(pair[0], pair[1])), nontrivial: true,
				Why: "wire.ValuesAreEqual on structs that repeat a field identifier disagrees with the comparison of the fields they denote (last entry wins), or depends on the order of its arguments"})
			addSpec(cs, pair[0], pair[1])
		}
	}
	// values as the decoder hands them out, with a container that fails when it is read (the byte
	// 2 as a bool: the decoder does not look at fixed-width items before they are used). Finding
	// D88, repaired: the comparison ignored the error — a panic one way round, "equal" the other.
	{
		hexOf := func(bs ...byte) string { return hx(bs) }
		type lz struct {
			tc   int
			a, b string
		}
		var cases []lz
		for _, ok := range []byte{0, 1} {
			cases = append(cases,
				lz{15, hexOf(2, 0, 0, 0, 1, 2), hexOf(2, 0, 0, 0, 1, ok)},                                              // list<bool>
				lz{14, hexOf(2, 0, 0, 0, 1, 2), hexOf(2, 0, 0, 0, 1, ok)},                                              // set<bool>
				lz{15, hexOf(2, 0, 0, 0, 2, ok, 2), hexOf(2, 0, 0, 0, 2, ok, 1)},                                       // second item bad
				lz{13, hexOf(2, 2, 0, 0, 0, 1, 2, ok), hexOf(2, 2, 0, 0, 0, 1, 1, ok)},                                 // map<bool,bool>, bad key
				lz{13, hexOf(2, 2, 0, 0, 0, 1, ok, 2), hexOf(2, 2, 0, 0, 0, 1, ok, 1)},                                 // bad value
				lz{13, hexOf(15, 2, 0, 0, 0, 1, 2, 0, 0, 0, 1, 2, ok), hexOf(15, 2, 0, 0, 0, 1, 2, 0, 0, 0, 1, 1, ok)}, // map<list<bool>,bool>
				lz{15, hexOf(15, 0, 0, 0, 1, 2, 0, 0, 0, 1, 2), hexOf(15, 0, 0, 0, 1, 2, 0, 0, 0, 1, ok)},              // list<list<bool>>
				lz{14, hexOf(15, 0, 0, 0, 1, 2, 0, 0, 0, 1, 2), hexOf(15, 0, 0, 0, 1, 2, 0, 0, 0, 1, ok)},              // set<list<bool>>
				lz{12, hexOf(15, 0, 1, 2, 0, 0, 0, 1, 2, 0), hexOf(15, 0, 1, 2, 0, 0, 0, 1, ok, 0)},                    // struct {1: list<bool>}
			)
		}
		for _, c := range cases {
			for _, pair := range [][2]string{{c.a, c.b}, {c.a, c.a}} {
				cs.add(opCase{Kind: "C14 ValuesAreEqual on a container that fails when read", Impl: fmt.Sprintf("weqlazy %d %s %s", c.tc, pair[0], pair[1]), Want: "ok sym", nontrivial: true,
					Why: "wire.ValuesAreEqual on decoded values panics or depends on the order of its arguments"})
			}
		}
	}
	// pairs of arbitrary wire values for wire.ValuesAreEqual
	for i := 0; i < nVal*4; i++ {
		cfg := wv.GenCfg{MaxDepth: 1 + r.Intn(3), MaxLen: r.Pick(0, 1, 2, 3), MaxBin: r.Pick(0, 1, 4)}
		a := noNaNDup(r, wv.Gen(r, wv.AllTypes[r.Intn(len(wv.AllTypes))], cfg, 0))
		forcePermute := false
		if i%5 == 2 {
			// a set whose items, or a map whose keys, are (lists of) structs of several fields: the other
			// side lists the same fields, items and entries in another order
			a, forcePermute = noNaNDup(r, structCollection(r)), true
		}
		if a == nil {
			continue
		}
		var bb *wv.V
		switch k := r.Intn(3); {
		case forcePermute && k < 2:
			bb = refcodec.Permute(r, a)
		case k == 0:
			bb = refcodec.Permute(r, a)
		case k == 1:
			bb = noNaNDup(r, wv.Gen(r, a.T, cfg, 0))
		default:
			bb = mutateW(r, a)
		}
		if bb == nil || !dupFree(bb) {
			continue
		}
		op := "weq " + a.Text() + " " + bb.Text()
		cs.add(opCase{Kind: "C14 ValuesAreEqual arbitrary", Impl: op, Model: op, Want: b01s(logicalEq(a, bb)), nontrivial: true,
			Why: "wire.ValuesAreEqual disagrees with the independent structural comparison"})
		addSpec(cs, a, bb)
	}
}

// structCollection: a set of structs, a map keyed by structs, or either with the structs one list
// further down; every struct has 2–4 scalar fields.
func structCollection(r *rng.R) *wv.V {
	scalars := []byte{wv.TBool, wv.TI8, wv.TI16, wv.TI32, wv.TI64, wv.TBinary}
	leaf := wv.GenCfg{MaxDepth: 1, MaxLen: 1, MaxBin: 3}
	strct := func() *wv.V {
		v := &wv.V{T: wv.TStruct}
		n := 2 + r.Intn(3)
		for id := 1; id <= n; id++ {
			v.Fields = append(v.Fields, wv.Field{ID: uint16(id * 3), V: wv.Gen(r, scalars[r.Intn(len(scalars))], leaf, 0)})
		}
		return v
	}
	item := func() *wv.V { return strct() }
	et := byte(wv.TStruct)
	if r.Chance(1, 3) {
		et = wv.TList
		item = func() *wv.V {
			l := &wv.V{T: wv.TList, ET: wv.TStruct}
			for k := 1 + r.Intn(2); k > 0; k-- {
				l.Items = append(l.Items, strct())
			}
			return l
		}
	}
	n := 1 + r.Intn(3)
	if r.Bool() {
		v := &wv.V{T: wv.TSet, ET: et}
		for i := 0; i < n; i++ {
			v.Items = append(v.Items, item())
		}
		return v
	}
	v := &wv.V{T: wv.TMap, KT: et, ET: wv.TI32}
	for i := 0; i < n; i++ {
		v.Items = append(v.Items, item(), wv.Gen(r, wv.TI32, leaf, 0))
	}
	return v
}

// addSpec compares wire.ValuesAreEqual with the Lean statement of "the same logical value" (specEq,
// theorem wire_equal_iff_same_logical_value) — a second independent comparison next to logicalEq.
func addSpec(cs *caseSet, a, b *wv.V) {
	if hasNaN(a) || hasNaN(b) { // a mutation may turn an infinity into a NaN: outside specEq's domain
		return
	}
	cs.add(opCase{Kind: "C14 ValuesAreEqual vs specEq (Lean)", Impl: "weq " + a.Text() + " " + b.Text(), Model: "weqspec " + a.Text() + " " + b.Text(), nontrivial: true,
		Why: "wire.ValuesAreEqual disagrees with the model's independent statement of the same logical value"})
}

func hasNaN(v *wv.V) bool {
	if v.T == wv.TDouble && v.U&0x7ff0000000000000 == 0x7ff0000000000000 && v.U&0xfffffffffffff != 0 {
		return true
	}
	for _, f := range v.Fields {
		if hasNaN(f.V) {
			return true
		}
	}
	for _, it := range v.Items {
		if hasNaN(it) {
			return true
		}
	}
	return false
}

// noNaNDup rejects values with NaN, duplicate set items / map keys, or empty
// containers carrying arbitrary element type bytes (not comparable logically).
func noNaNDup(r *rng.R, v *wv.V) *wv.V {
	ok := true
	var walk func(x *wv.V)
	walk = func(x *wv.V) {
		if x.T == wv.TDouble && x.U&0x7ff0000000000000 == 0x7ff0000000000000 && x.U&0xfffffffffffff != 0 {
			ok = false
		}
		for _, f := range x.Fields {
			walk(f.V)
		}
		for _, it := range x.Items {
			walk(it)
		}
	}
	walk(v)
	// struct fields with duplicate ids are not "obtained by decoding a generated type"
	var ids func(x *wv.V)
	ids = func(x *wv.V) {
		seen := map[uint16]bool{}
		for _, f := range x.Fields {
			if seen[f.ID] {
				ok = false
			}
			seen[f.ID] = true
			ids(f.V)
		}
		for _, it := range x.Items {
			ids(it)
		}
	}
	ids(v)
	if !ok || !dupFree(v) {
		return nil
	}
	return v
}

// mutateW changes one node of a wire value.
func mutateW(r *rng.R, v *wv.V) *wv.V {
	c := *v
	c.Fields = append([]wv.Field{}, v.Fields...)
	c.Items = append([]*wv.V{}, v.Items...)
	switch {
	case len(c.Fields) > 0 && r.Bool():
		i := r.Intn(len(c.Fields))
		c.Fields[i] = wv.Field{ID: c.Fields[i].ID, V: mutateW(r, c.Fields[i].V)}
	case len(c.Items) > 0 && r.Bool():
		i := r.Intn(len(c.Items))
		c.Items[i] = mutateW(r, c.Items[i])
	case len(c.Items) > 1 && v.T != wv.TMap:
		i := r.Intn(len(c.Items) - 1)
		c.Items[i], c.Items[i+1] = c.Items[i+1], c.Items[i]
	case v.T == wv.TBinary:
		c.Bin = append(append([]byte{}, v.Bin...), 'x')
	case v.T == wv.TDouble:
		if v.U<<1 == 0 {
			c.U ^= 1 << 63
		} else {
			c.U ^= 1
		}
	case len(c.Fields) == 0 && len(c.Items) == 0 && v.T != wv.TStruct && v.T != wv.TMap && v.T != wv.TList && v.T != wv.TSet:
		c.U ^= 1
	}
	return &c
}

func runC14(c *checker) {
	if c.replayOrCorpus("C14") {
		return
	}
	nProg, nVal := pick(6, 60), pick(60, 150)
	if *programs > 0 {
		nProg = *programs
	}
	if *values > 0 {
		nVal = *values
	}
	bs := c.buildPrograms(nProg, mainConfig, optionSet, true)
	for _, b := range bs {
		if !c.checkBuild(b) {
			continue
		}
		c.shapeHist(b)
		cs := c.newCaseSet("C14", b)
		c14Program(cs, nVal)
		logf("%s: %d ops", b.id(), len(cs.ops))
		cs.run()
	}
	c.rep.Rule = "per named type: triples (x = value as decoded, y = the same value decoded from a re-encoding with struct fields, set items and map entries permuted, z = x with one perturbation: leaf, presence of an optional field, union member, nil vs empty, container length, element order, sign of zero), NaN-free and duplicate-free; Equals reflexive on each, Equals(x,y) and Equals(x,z) vs the harness's structural comparison of the logical values, symmetric, transitive through x≈y, wire.ValuesAreEqual(ToWire x, ToWire ·) the same; nil receivers/arguments; plus pairs of arbitrary wire values (permuted / independent / one-node mutation; one pair in five a set of structs or a map keyed by structs, also one list further down, against its permutation) for wire.ValuesAreEqual; non-trivial = every case; distinct by (program, op)"
}

func init() {
	modes["C14"] = runC14
	modeGens["C14"] = modeGen{mainConfig, optionSet}
}

var _ = strings.TrimSpace
