package main

import (
	"fmt"
	"sort"

	"verifharness/internal/gtext"
	"verifharness/internal/rng"
	"verifharness/internal/wv"
)

// evolve derives a writer schema from the reader schema by random evolution
// steps on (some of) its structs: add/remove field, change type, change
// requiredness, reorder, widen containers, rename. Names stay the same so that
// nested references keep working; the result shares type trees with the input.
func evolve(r *rng.R, env *gtext.Env, hist func(string)) *gtext.Env {
	out := gtext.NewEnv()
	for n, e := range env.Enums {
		out.Enums[n] = e
	}
	names := make([]string, 0, len(env.Structs))
	for n := range env.Structs {
		names = append(names, n)
	}
	sort.Strings(names)
	var enums []string
	for n := range env.Enums {
		enums = append(enums, n)
	}
	sort.Strings(enums)
	randType := func(depth int) *gtext.T {
		var gen func(d int) *gtext.T
		gen = func(d int) *gtext.T {
			k := r.Intn(14)
			if d <= 0 && k >= 9 && k <= 11 {
				k = r.Intn(8)
			}
			switch k {
			case 0:
				return gtext.Base(gtext.KBool)
			case 1:
				return gtext.Base(gtext.KI8)
			case 2:
				return gtext.Base(gtext.KI16)
			case 3:
				return gtext.Base(gtext.KI32)
			case 4:
				return gtext.Base(gtext.KI64)
			case 5:
				return gtext.Base(gtext.KDouble)
			case 6:
				return gtext.Base(gtext.KString)
			case 7:
				return gtext.Base(gtext.KBinary)
			case 8:
				if len(enums) > 0 {
					return &gtext.T{K: gtext.KEnum, Name: enums[r.Intn(len(enums))]}
				}
				return gtext.Base(gtext.KI32)
			case 9:
				return &gtext.T{K: gtext.KList, Elem: gen(d - 1)}
			case 10:
				k := gtext.KSet
				if r.Chance(1, 3) {
					k = gtext.KSSet
				}
				return &gtext.T{K: k, Elem: gen(d - 1)}
			case 11:
				return &gtext.T{K: gtext.KMap, Key: gen(d - 1), Elem: gen(d - 1)}
			}
			return &gtext.T{K: gtext.KStruct, Name: names[r.Intn(len(names))]}
		}
		return gen(depth)
	}
	mentionsStruct := func(t *gtext.T) bool {
		found := false
		t.Walk(func(x *gtext.T) {
			if x.K == gtext.KStruct {
				found = true
			}
		})
		return found
	}
	for _, n := range names {
		sd := env.Structs[n]
		c := &gtext.StructDef{Name: sd.Name, Kind: sd.Kind}
		for _, f := range sd.Fields {
			fc := *f
			if fc.Def != nil && mentionsStruct(fc.T) {
				fc.Def = nil // a struct-shaped default is positional in the reader's layout; the writer just leaves the field out
			}
			c.Fields = append(c.Fields, &fc)
		}
		out.Structs[n] = c
		if !r.Chance(2, 3) {
			continue
		}
		isUnion := c.Arity() != 0
		for step := r.Intn(4); step > 0; step-- {
			switch r.Intn(7) {
			case 0, 1: // add a field with an id the reader does not know
				ids := map[int16]bool{}
				for _, f := range c.Fields {
					ids[f.ID] = true
				}
				id := int16(1 + r.Intn(60))
				if r.Chance(1, 4) {
					id = int16(r.Intn(65536))
				}
				if ids[id] {
					continue
				}
				hist("add-field")
				f := &gtext.FieldDef{ID: id, GoName: fmt.Sprintf("Added%d", uint16(id)), Label: fmt.Sprintf("added%d", uint16(id)), T: randType(2)}
				if !isUnion && !mentionsStruct(f.T) && r.Chance(1, 2) {
					f.Req = true
				}
				pos := r.Intn(len(c.Fields) + 1)
				if isUnion && len(c.Fields) > 0 && pos == 0 {
					pos = 1 // the first member of a union stays one that does not lead back to the union
				}
				c.Fields = append(c.Fields[:pos], append([]*gtext.FieldDef{f}, c.Fields[pos:]...)...)
			case 2: // remove a field
				if len(c.Fields) > 0 {
					pos := r.Intn(len(c.Fields))
					if isUnion && pos == 0 {
						continue
					}
					hist("remove-field")
					c.Fields = append(c.Fields[:pos], c.Fields[pos+1:]...)
				}
			case 3: // change the type of a field
				if len(c.Fields) > 0 {
					f := c.Fields[r.Intn(len(c.Fields))]
					nt := randType(2)
					if (f.Req || isUnion) && mentionsStruct(nt) {
						continue
					}
					if nt.Code() == f.T.Code() {
						hist("change-type-same-wire-type")
					} else {
						hist("change-type")
					}
					f.T, f.Def = nt, nil
				}
			case 4: // change requiredness
				if len(c.Fields) > 0 && !isUnion {
					f := c.Fields[r.Intn(len(c.Fields))]
					if f.Req {
						hist("required-to-optional")
						f.Req = false
					} else if f.Def == nil && !mentionsStruct(f.T) {
						hist("optional-to-required")
						f.Req = true
					}
				}
			case 5: // reorder
				if isUnion {
					continue
				}
				hist("reorder")
				for i := len(c.Fields) - 1; i > 0; i-- {
					j := r.Intn(i + 1)
					c.Fields[i], c.Fields[j] = c.Fields[j], c.Fields[i]
				}
			case 6: // widen / change container element types
				for _, f := range c.Fields {
					root := f.T.Root()
					if root.K == gtext.KList || root.K == gtext.KSet || root.K == gtext.KSSet || root.K == gtext.KMap {
						hist("container-element-change")
						nt := *root
						if root.K == gtext.KMap && r.Bool() {
							nt.Key = widen(r, root.Key)
						} else {
							nt.Elem = widen(r, root.Elem)
						}
						f.T, f.Def = &nt, nil
						break
					}
				}
			}
		}
		// rename: Go names and labels do not travel on the wire
		if r.Chance(1, 4) {
			hist("rename")
			for _, f := range c.Fields {
				f.GoName, f.Label = "R"+f.GoName, "r"+f.Label
			}
		}
	}
	return out
}

func widen(r *rng.R, t *gtext.T) *gtext.T {
	switch t.Root().K {
	case gtext.KI8:
		return gtext.Base(gtext.KI16)
	case gtext.KI16:
		return gtext.Base(gtext.KI32)
	case gtext.KI32, gtext.KEnum:
		return gtext.Base(gtext.KI64)
	case gtext.KI64:
		return gtext.Base(gtext.KDouble)
	case gtext.KString:
		return gtext.Base(gtext.KBinary)
	}
	return gtext.Base(gtext.Kind(r.Intn(8)))
}

// inject inserts arbitrary well-formed extra fields into every struct of a
// valid wire encoding of reader type t: unknown ids, or known ids with a wire
// type other than the declared one. The reader must ignore all of them.
func inject(r *rng.R, env *gtext.Env, t *gtext.T, v *wv.V, hist func(string)) *wv.V {
	root := t.Root()
	c := *v
	c.Fields, c.Items = nil, nil
	switch root.K {
	case gtext.KList, gtext.KSet, gtext.KSSet:
		for _, it := range v.Items {
			c.Items = append(c.Items, inject(r, env, root.Elem, it, hist))
		}
		return &c
	case gtext.KMap:
		for i, it := range v.Items {
			et := root.Key
			if i%2 == 1 {
				et = root.Elem
			}
			c.Items = append(c.Items, inject(r, env, et, it, hist))
		}
		return &c
	case gtext.KStruct:
	default:
		return v
	}
	sd := env.Structs[root.Name]
	if sd == nil || v.T != wv.TStruct {
		return v
	}
	byID := map[uint16]*gtext.FieldDef{}
	for _, f := range sd.Fields {
		byID[uint16(f.ID)] = f
	}
	for _, f := range v.Fields {
		fd := byID[f.ID]
		if fd != nil && fd.T.Code() == f.V.T {
			c.Fields = append(c.Fields, wv.Field{ID: f.ID, V: inject(r, env, fd.T, f.V, hist)})
		} else {
			c.Fields = append(c.Fields, f)
		}
	}
	n := r.Intn(3)
	for i := 0; i < n; i++ {
		cfg := wv.GenCfg{MaxDepth: 1 + r.Intn(4), MaxLen: r.Pick(0, 1, 2, 3, 5), MaxBin: r.Pick(0, 1, 4, 20)}
		wt := wv.AllTypes[r.Intn(len(wv.AllTypes))]
		var id uint16
		if len(sd.Fields) > 0 && r.Chance(1, 2) {
			// a declared id with another wire type
			fd := sd.Fields[r.Intn(len(sd.Fields))]
			id = uint16(fd.ID)
			for wt == fd.T.Code() {
				wt = wv.AllTypes[r.Intn(len(wv.AllTypes))]
			}
			hist("inject-known-id-other-type")
		} else {
			for {
				id = uint16(r.U64())
				if r.Chance(1, 2) {
					id = uint16(r.Intn(64))
				}
				if byID[id] == nil {
					break
				}
			}
			hist("inject-unknown-id")
		}
		x := wv.Gen(r, wt, cfg, 0)
		if byID[id] == nil && r.Chance(1, 8) {
			// "of any … nesting depth": the injected value (under an unknown id) sits below 40–300 levels of structs,
			// lists, sets and map values
			x = deepWrap(r, x, 40+r.Intn(261))
			hist("inject-deeply-nested")
		}
		pos := r.Intn(len(c.Fields) + 1)
		c.Fields = append(c.Fields[:pos], append([]wv.Field{{ID: id, V: x}}, c.Fields[pos:]...)...)
	}
	// a declared field sent twice, well-typed both times (the same value, so that whichever occurrence
	// wins the result is the same): a reader must not take the count of what it has read for the
	// number of fields it has seen
	if len(c.Fields) >= 2 && r.Chance(1, 3) {
		var cands []int
		for j, f := range c.Fields {
			if fd := byID[f.ID]; fd != nil && fd.T.Code() == f.V.T {
				cands = append(cands, j)
			}
		}
		if len(cands) > 0 {
			j := cands[r.Intn(len(cands))]
			dup := c.Fields[j]
			pos := r.Intn(j + 1)
			c.Fields = append(c.Fields[:pos], append([]wv.Field{dup}, c.Fields[pos:]...)...)
			hist("inject-declared-field-twice")
		}
	}
	return &c
}

// deepWrap puts v below `depth` levels of containers: struct field, list item, set item, map value
// (one kind throughout, or a random mix).
func deepWrap(r *rng.R, v *wv.V, depth int) *wv.V {
	kind := r.Intn(5)
	for i := 0; i < depth; i++ {
		k := kind
		if kind == 4 {
			k = r.Intn(4)
		}
		switch k {
		case 0:
			v = &wv.V{T: wv.TStruct, Fields: []wv.Field{{ID: uint16(1 + r.Intn(3)), V: v}}}
		case 1:
			v = &wv.V{T: wv.TList, ET: v.T, Items: []*wv.V{v}}
		case 2:
			v = &wv.V{T: wv.TSet, ET: v.T, Items: []*wv.V{v}}
		default:
			v = &wv.V{T: wv.TMap, KT: wv.TI8, ET: v.T, Items: []*wv.V{{T: wv.TI8, U: uint64(i & 0x7f)}, v}}
		}
	}
	return v
}
