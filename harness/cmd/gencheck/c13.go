package main

import (
	"encoding/json"
	"fmt"
	"strconv"
	"strings"

	"verifharness/internal/gtext"
	"verifharness/internal/report"
	"verifharness/internal/wv"
)

// C13 (generated part): messages of at most 64 bytes whose container counts are
// 2^16 … 2^27 are fed to generated Decode in a child process under GOMEMLIMIT
// and an address-space limit; the TotalAlloc delta of the call is measured.
// Pre-sizing from the header count when the element types match is finding D3
// (known); every other message must stay within 12 MiB + 64·|input|.

type c13Case struct {
	op    string
	shape string
	match bool // element types match the declared ones: the pre-sizing site of D3 is reached
	count int
	seek  bool // decoded from a seekable reader (bytes.Reader)
}

func be32(n int) []byte { return []byte{byte(n >> 24), byte(n >> 16), byte(n >> 8), byte(n)} }

func fieldHeader(code byte, id int16) []byte { return []byte{code, byte(uint16(id) >> 8), byte(id)} }

// containerHeader writes the header of a container of root type t with count n.
func containerHeader(t *gtext.T, n int, mismatch bool) []byte {
	r := t.Root()
	alt := func(c byte) byte {
		if !mismatch {
			return c
		}
		if c == wv.TI64 {
			return wv.TI32
		}
		return wv.TI64
	}
	switch r.K {
	case gtext.KMap:
		return append([]byte{r.Key.Code(), alt(r.Elem.Code())}, be32(n)...)
	default:
		return append([]byte{alt(r.Elem.Code())}, be32(n)...)
	}
}

func isContainer(t *gtext.T) bool {
	switch t.Root().K {
	case gtext.KList, gtext.KSet, gtext.KSSet, gtext.KMap:
		return true
	}
	return false
}

func c13Cases(b *built) []c13Case {
	var out []c13Case
	counts := []int{1 << 16, 1 << 20, 1 << 24, 1 << 27}
	env := b.schema.Env
	for _, tt := range b.schema.Types {
		t := tt.T
		tText := t.Text()
		add := func(shape string, msg []byte, match bool, n int) {
			// pre-sizing a Go map really touches the memory (buckets are cleared): keep those
			// probes at ≤ 2^22 entries so that a run stays short; slices go up to 2^27
			if match && n > 1<<22 && strings.Contains(shape, "map") || match && n > 1<<22 && strings.Contains(shape, " set<") {
				n = 1 << 22
				msg = nil
			}
			if msg != nil && len(msg) <= 64 {
				out = append(out, c13Case{op: "memdecode " + tText + " " + hx(msg), shape: shape, match: match, count: n})
				if !match && n <= 1<<24 {
					// the same message from a seekable reader: Skip is then an unchecked Seek
					out = append(out, c13Case{op: "memdecode " + tText + " " + hx(msg) + " seek", shape: shape + " [seekable]", match: match, count: n, seek: true})
				}
			}
		}
		if isContainer(t) {
			// typedef of a container decoded at top level
			for _, n := range counts {
				add("top-level "+shorten(t.Root().Shape(), 24)+" matching", containerHeader(t, n, false), true, n)
				add("top-level "+shorten(t.Root().Shape(), 24)+" element-type-mismatch", containerHeader(t, n, true), false, n)
			}
			continue
		}
		sd := env.Structs[tt.Name]
		if sd == nil {
			continue
		}
		used := map[int16]bool{}
		for _, f := range sd.Fields {
			used[f.ID] = true
		}
		unknown := int16(30000)
		for used[unknown] {
			unknown++
		}
		for _, n := range counts {
			// unknown field carrying a huge list / map / binary: skipped
			add("unknown-field list", append(append(fieldHeader(wv.TList, unknown), wv.TI64), be32(n)...), false, n)
			add("unknown-field map", append(append(fieldHeader(wv.TMap, unknown), wv.TI64, wv.TStruct), be32(n)...), false, n)
			add("unknown-field binary", append(fieldHeader(wv.TBinary, unknown), be32(n)...), false, n)
		}
		for _, f := range sd.Fields {
			root := f.T.Root()
			switch {
			case isContainer(f.T):
				for _, n := range counts {
					h := fieldHeader(f.T.Code(), f.ID)
					add("field "+shorten(root.Shape(), 24)+" matching", append(h, containerHeader(f.T, n, false)...), true, n)
					add("field "+shorten(root.Shape(), 24)+" element-type-mismatch", append(append([]byte{}, h...), containerHeader(f.T, n, true)...), false, n)
					// nested: one outer element whose inner container declares the huge count
					if isContainer(root.Elem) && root.K != gtext.KMap {
						msg := append(append([]byte{}, h...), containerHeader(f.T, 1, false)...)
						add("field nested "+shorten(root.Shape(), 24)+" matching", append(msg, containerHeader(root.Elem, n, false)...), true, n)
					}
				}
			case root.K == gtext.KString || root.K == gtext.KBinary:
				for _, n := range counts {
					add("field "+root.Shape()+" length", append(fieldHeader(wv.TBinary, f.ID), be32(n)...), false, n)
				}
			}
		}
	}
	return out
}

func (c *checker) c13Run(b *built, cases []c13Case) {
	if len(cases) == 0 {
		return
	}
	preamble := append([]string{"reset"}, b.schema.Env.Order...)
	d := &implDriver{bin: b.res.BinPath(), preamble: preamble, memLimit: "2GiB", vlimitKB: 16 << 20}
	ops := make([]string, len(cases))
	for i, cs := range cases {
		ops[i] = cs.op
	}
	ans := d.run(ops)
	for i, cs := range cases {
		a := ans[i]
		c.rep.Case(b.id()+"|"+cs.op, true)
		c.rep.Hist("message-shape", strings.Join(strings.Fields(cs.shape)[:2], " "))
		c.rep.Hist("declared-count", fmt.Sprintf("2^%d", log2(cs.count)))
		f := strings.Fields(a)
		input := func() string {
			js, _ := json.Marshal(replayCase{Mode: "C13gen", Seed: b.seed, Opts: b.opts, Ops: []opCase{{Kind: cs.shape, Impl: cs.op}}})
			return string(js)
		}
		opf := strings.Fields(cs.op)
		hexTok := opf[len(opf)-1]
		if hexTok == "seek" {
			hexTok = opf[len(opf)-2]
		}
		msgLen := len(hexTok) / 2
		bound := uint64(12<<20 + 64*msgLen)
		var alloc, nanos uint64
		crashed := false
		switch {
		case len(f) == 4 && f[0] == "ok":
			alloc, _ = strconv.ParseUint(f[1], 10, 64)
			nanos, _ = strconv.ParseUint(f[3], 10, 64)
			c.rep.Hist("decode-result", f[2])
		case a == "crash" || a == "timeout" || strings.HasPrefix(a, "panic"):
			crashed = true
			c.rep.Hist("decode-result", firstWord(a))
		default:
			c.rep.Disagree(report.Disagreement{Kind: "C13gen driver failure", Input: input(), Impl: a, Oracle: "the value driver could not run the operation"})
			continue
		}
		// time: work must be linear in the input; a ≤ 64-byte message gets 10 ms
		slow := !crashed && nanos > 10_000_000
		if slow && alloc <= bound {
			what := fmt.Sprintf("%s, declared count %d in a %d-byte message: %.1f ms (best of two) for one Decode", cs.shape, cs.count, msgLen, float64(nanos)/1e6)
			switch {
			case cs.seek && strings.Contains(cs.shape, "element-type-mismatch"):
				c.rep.Hist("time", "D25: per-element Seek loop on a seekable reader")
				if nanos > worstD25 {
					worstD25 = nanos
					for k := range c.rep.Known {
						if c.rep.Known[k].ID == "D25" {
							c.rep.Known = append(c.rep.Known[:k], c.rep.Known[k+1:]...)
							break
						}
					}
					c.known("D25", "generated Decode skips a container with a mismatching fixed-width element type one unchecked Seek per declared element: "+what+"; op: "+cs.op)
				}
			default:
				c.rep.Hist("time", "over 10 ms")
				c.rep.Disagree(report.Disagreement{Kind: "C13gen work not linear in the input", Input: input(), Impl: a,
					Oracle: "decoding cost must be bounded by the input size: " + what})
			}
			continue
		}
		if !crashed {
			c.rep.Hist("time", "≤ 10 ms or attributed to allocation")
		}
		if !crashed && alloc <= bound {
			c.rep.Hist("allocation", "within bound")
			continue
		}
		what := fmt.Sprintf("%s, declared count %d in a %d-byte message: %d bytes allocated (bound %d)", cs.shape, cs.count, msgLen, alloc, bound)
		if crashed {
			what = fmt.Sprintf("%s, declared count %d in a %d-byte message: the decoder process died / hung under a 16 GiB address-space limit (%s)", cs.shape, cs.count, msgLen, a)
		}
		if cs.match {
			c.rep.Hist("allocation", "D3: pre-sized from the header count")
			if alloc > worstD3 || crashed {
				worstD3 = alloc
				// keep the worst witness in the known-finding text
				for k := range c.rep.Known {
					if c.rep.Known[k].ID == "D3" {
						c.rep.Known = append(c.rep.Known[:k], c.rep.Known[k+1:]...)
						break
					}
				}
				c.known("D3", "generated Decode pre-sizes containers from the declared count: "+what+"; op: "+cs.op)
			}
			continue
		}
		c.rep.Hist("allocation", "over bound")
		c.rep.Disagree(report.Disagreement{Kind: "C13gen allocation not bounded by the input", Input: input(), Impl: a,
			Oracle: "decoding cost must be bounded by the input size: " + what})
	}
}

var worstD3, worstD25 uint64

func log2(n int) int {
	k := 0
	for n > 1 {
		n >>= 1
		k++
	}
	return k
}

func runC13gen(c *checker) {
	if c.replayOrCorpus("C13gen") {
		return
	}
	nProg := pick(3, 16)
	if *programs > 0 {
		nProg = *programs
	}
	// the repository's own generated packages first: a witness of D3 that does not depend on the random programs
	if rb := c.repoBuilt(); rb != nil {
		var cases []c13Case
		for _, cs := range c13Cases(rb) {
			if strings.Contains(cs.op, "containers.") || strings.Contains(cs.op, "structs.Graph") || strings.Contains(cs.op, "api.Function") {
				cases = append(cases, cs)
			}
		}
		if max := pick(60, 400); len(cases) > max {
			r := c.r.Fork()
			for i := len(cases) - 1; i > 0; i-- {
				j := r.Intn(i + 1)
				cases[i], cases[j] = cases[j], cases[i]
			}
			cases = cases[:max]
		}
		// the classic witness: struct with a list<i64> field declaring 2^27 elements, 9 bytes
		cases = append(cases, c13Case{op: "memdecode struct:containers.PrimitiveContainers 0f00020a0800000000", shape: "field list<i64> matching", match: true, count: 1 << 27})
		// the witness of D25: plugin/api Function, field 3 (list<Argument>) sent as list<bool> with count 0x00ffffff
		cases = append(cases, c13Case{op: "memdecode struct:api.Function 0f00030200ffffff00 seek", shape: "field list<struct> element-type-mismatch [seekable]", count: 0xffffff, seek: true},
			c13Case{op: "memdecode struct:api.Function 0f00030200ffffff00", shape: "field list<struct> element-type-mismatch", count: 0xffffff})
		logf("repository packages: %d messages", len(cases))
		c.c13Run(rb, cases)
	}
	bs := c.buildPrograms(nProg, mainConfig, optionSet, true)
	for _, b := range bs {
		if !c.checkBuild(b) {
			continue
		}
		cases := c13Cases(b)
		// a bounded sample per program keeps the quick tier short
		max := pick(150, 1000)
		if len(cases) > max {
			r := c.r.Fork()
			for i := len(cases) - 1; i > 0; i-- {
				j := r.Intn(i + 1)
				cases[i], cases[j] = cases[j], cases[i]
			}
			cases = cases[:max]
		}
		logf("%s: %d messages", b.id(), len(cases))
		c.c13Run(b, cases)
	}
	c.rep.Rule = "per struct type of random compiled programs: messages ≤ 64 bytes = one field header + one container header whose count is 2^16, 2^20, 2^24 or 2^27 and no payload — for every container field with the declared element types (the pre-sizing site, D3), with a mismatching element type (skip loop), one level nested, for an unknown field id (list, map, binary), for string/binary fields (length), and for typedefs of containers at top level; every non-matching message also from a seekable reader (counts ≤ 2^24); generated Decode run in a child (GOMEMLIMIT 2 GiB, 16 GiB address space, 20 s); observables: runtime.MemStats.TotalAlloc delta of the call (bound 12 MiB + 64·|input|; above it with matching element types = D3) and wall time (best of two; bound 10 ms; above it on a seekable reader with a mismatching fixed-width element type = D25); non-trivial = every message; distinct by (program, op)"
}

func init() {
	modes["C13gen"] = runC13gen
	modeGens["C13gen"] = modeGen{mainConfig, optionSet}
	replayHandlers["C13repo"] = func(c *checker, raw string) bool {
		var rc replayCase
		if json.Unmarshal([]byte(raw), &rc) != nil || len(rc.Ops) == 0 {
			return false
		}
		rb := c.repoBuilt()
		if rb == nil {
			return true
		}
		var cases []c13Case
		for _, o := range rc.Ops {
			cases = append(cases, c13Case{op: o.Impl, shape: o.Kind, match: strings.Contains(o.Kind, "matching"), count: 0, seek: strings.HasSuffix(o.Impl, " seek")})
		}
		c.c13Run(rb, cases)
		return true
	}
	replayHandlers["C13gen"] = func(c *checker, raw string) bool {
		var rc replayCase
		if json.Unmarshal([]byte(raw), &rc) != nil || len(rc.Ops) == 0 {
			return false
		}
		b := c.makeProgram(rc.Seed, mainConfig, optionSet)
		b.opts = rc.Opts
		b.job = jobWithDriver(b)
		b.res = c.env.Build(b.job)
		if !c.checkBuild(b) {
			return true
		}
		var cases []c13Case
		for _, o := range rc.Ops {
			cases = append(cases, c13Case{op: o.Impl, shape: o.Kind, match: strings.Contains(o.Kind, "matching"), count: 0, seek: strings.HasSuffix(o.Impl, " seek")})
		}
		c.c13Run(b, cases)
		return true
	}
}
