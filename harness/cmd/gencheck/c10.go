package main

import (
	"crypto/sha256"
	"encoding/hex"
	"encoding/json"
	"fmt"
	"io/fs"
	"os"
	"path/filepath"
	"sort"
	"strings"
	"sync"

	"verifharness/internal/gobuild"
	"verifharness/internal/progs"
	"verifharness/internal/report"
	"verifharness/internal/rng"
)

func c10Config(r *rng.R) progs.Config {
	cfg := progs.DefaultConfig()
	cfg.Files = r.Pick(3, 4, 5, 6)
	cfg.Defs = 10
	cfg.Consts = 6
	cfg.Services = 2
	return cfg
}

// hashTree returns per-file hashes of a directory tree.
func hashTree(dir string) map[string]string {
	out := map[string]string{}
	filepath.WalkDir(dir, func(p string, d fs.DirEntry, err error) error {
		if err != nil || d.IsDir() {
			return nil
		}
		b, err := os.ReadFile(p)
		if err != nil {
			return nil
		}
		rel, _ := filepath.Rel(dir, p)
		h := sha256.Sum256(b)
		out[filepath.ToSlash(rel)] = hex.EncodeToString(h[:])
		return nil
	})
	return out
}

func treeDigest(m map[string]string) string {
	keys := make([]string, 0, len(m))
	for k := range m {
		keys = append(keys, k)
	}
	sort.Strings(keys)
	h := sha256.New()
	for _, k := range keys {
		fmt.Fprintf(h, "%s %s\n", k, m[k])
	}
	return hex.EncodeToString(h.Sum(nil))[:16]
}

// runResult is the observable of one generation run.
type runResult struct {
	how     string
	ok      bool
	errText string
	files   map[string]string
	request string // canonical plugin request ("" when not captured)
}

func (r *runResult) outcome() string {
	if r.ok {
		return "ok " + treeDigest(r.files)
	}
	return "fail"
}

// c10Runs generates one program n times with the real binary in fresh
// processes, and with the in-process helper under natural and permuted link orders.
func (c *checker) c10Runs(job *gobuild.Job, thriftRoot string, n, natural, perms int, helper string) []*runResult {
	scratch, err := c.env.Layout(job)
	if err != nil {
		fatal("%v", err)
	}
	defer os.RemoveAll(scratch)
	root := filepath.Join(scratch, "thrift", thriftRoot)
	total := n
	if helper != "" {
		total += natural + perms
	}
	res := make([]*runResult, total)
	sem := make(chan struct{}, *par)
	var wg sync.WaitGroup
	for i := 0; i < total; i++ {
		wg.Add(1)
		sem <- struct{}{}
		go func(i int) {
			defer wg.Done()
			defer func() { <-sem }()
			outDir := filepath.Join(scratch, fmt.Sprintf("out%d", i))
			rr := &runResult{}
			if i < n {
				rr.how = "thriftrw process"
				ok, out := c.env.GenerateTo(job, scratch, outDir, fmt.Sprintf("GOMAXPROCS=%d", 1+i%4))
				rr.ok, rr.errText = ok, out
			} else {
				order := uint64(0)
				rr.how = "in-process, natural map order"
				if i >= n+natural {
					order = uint64(i-n-natural) + 1
					rr.how = fmt.Sprintf("in-process, link order permutation %d", order)
				}
				hr, err := c.env.RunHelper(helper, scratch, job, job.Order[len(job.Order)-1], outDir, root, order)
				if err != nil {
					fatal("%v", err)
				}
				rr.ok, rr.errText, rr.request = hr.OK, hr.Stage+": "+hr.Err, "-"
				if hr.OK {
					rr.request = hr.Raw
				}
			}
			if rr.ok {
				rr.files = hashTree(outDir)
			}
			res[i] = rr
		}(i)
	}
	wg.Wait()
	return res
}

// c10Check compares the runs of one program.
func (c *checker) c10Check(id, input, known string, job *gobuild.Job, runs []*runResult) {
	c.rep.Case(id, true)
	var procRuns, helperRuns []*runResult
	for _, r := range runs {
		if r.request == "" && strings.HasPrefix(r.how, "thriftrw") {
			procRuns = append(procRuns, r)
		} else {
			helperRuns = append(helperRuns, r)
		}
	}
	report1 := func(kind, impl, why string) {
		if known != "" {
			c.known(known, kind+": "+summarize(impl, 300))
			return
		}
		c.rep.Disagree(report.Disagreement{Kind: kind, Input: input, Impl: summarize(impl, 3000), Oracle: why})
	}
	describe := func(rs []*runResult) string {
		cnt := map[string]int{}
		for _, r := range rs {
			cnt[r.outcome()]++
		}
		var parts []string
		for k, v := range cnt {
			parts = append(parts, fmt.Sprintf("%d× %s", v, k))
		}
		sort.Strings(parts)
		return strings.Join(parts, ", ")
	}
	differs := func(rs []*runResult) (a, b *runResult) {
		for _, r := range rs[1:] {
			if r.outcome() != rs[0].outcome() {
				return rs[0], r
			}
		}
		return nil, nil
	}
	detail := func(a, b *runResult) string {
		if a.ok != b.ok {
			f := a
			if a.ok {
				f = b
			}
			return "one run succeeded, another failed: " + summarize(strings.TrimSpace(f.errText), 600)
		}
		var diff []string
		for k, h := range a.files {
			if b.files[k] != h {
				diff = append(diff, k)
			}
		}
		for k := range b.files {
			if _, ok := a.files[k]; !ok {
				diff = append(diff, k)
			}
		}
		sort.Strings(diff)
		return "files differ: " + strings.Join(diff, ", ")
	}
	c.rep.Hist("program-outcome", strings.SplitN(procRuns[0].outcome(), " ", 2)[0])
	if a, b := differs(procRuns); a != nil {
		report1("C10 output differs across processes", describe(procRuns)+"; "+detail(a, b),
			"for fixed sources and options every run must produce the same files with the same contents and the same success/failure outcome")
		return
	}
	if len(helperRuns) == 0 {
		return
	}
	// the in-process runs must agree with the command line runs …
	all := append([]*runResult{procRuns[0]}, helperRuns...)
	if !job.Opts.PerFile() {
		if a, b := differs(all); a != nil {
			report1("C10 output depends on map iteration / link order", describe(all)+"; "+b.how+": "+detail(a, b),
				"the generated files must not depend on the order in which types, constants, services and includes are linked")
			return
		}
	} else if a, b := differs(helperRuns); a != nil {
		report1("C10 output depends on map iteration / link order", describe(helperRuns)+"; "+b.how+": "+detail(a, b),
			"the generated files must not depend on the order in which types, constants, services and includes are linked")
		return
	}
	// … and hand the same request to plugins (ids renumbered canonically)
	for _, r := range helperRuns[1:] {
		if r.request != helperRuns[0].request {
			report1("C10 plugin request differs between runs", r.how+" vs "+helperRuns[0].how+"\n"+firstDiff(helperRuns[0].request, r.request),
				"the request handed to plugins must be the same up to the numbering of module and service ids")
			return
		}
	}
}

func firstDiff(a, b string) string {
	la, lb := strings.Split(a, "\n"), strings.Split(b, "\n")
	for i := 0; i < len(la) && i < len(lb); i++ {
		if la[i] != lb[i] {
			return fmt.Sprintf("line %d: %q vs %q", i+1, la[i], lb[i])
		}
	}
	return fmt.Sprintf("lengths %d vs %d lines", len(la), len(lb))
}

var c10Probes = []struct{ id, note, text string }{
	{"D10", "typedef chain through a struct that uses the outer typedef", "typedef B A\ntypedef C B\nstruct C {1: optional A a}\n"},
	{"D21", "struct-literal default of a struct mutually recursive with the enclosing struct", "struct A {\n  1: optional B b\n  2: optional A a\n}\nstruct B {\n  1: optional A x = {\"a\": {}}\n}\n"},
}

func (c *checker) c10Input(seed uint64, job *gobuild.Job, known, note string) string {
	rc := replayCase{Mode: "C10", Seed: seed, Opts: job.Opts, Files: job.Files, Order: job.Order, Class: known, Note: note}
	js, _ := json.Marshal(rc)
	return string(js)
}

func c10Sizes() (n, natural, perms int) { return pick(8, 64), pick(3, 8), pick(10, 48) }

func init() {
	replayHandlers["C10"] = func(c *checker, raw string) bool {
		var rc replayCase
		if json.Unmarshal([]byte(raw), &rc) != nil || len(rc.Files) == 0 {
			return false
		}
		helper, _ := c.env.Helper()
		job := &gobuild.Job{Files: rc.Files, Order: rc.Order, Opts: rc.Opts}
		n, natural, perms := c10Sizes()
		if rc.Class != "" {
			n = 40 // a known nondeterministic failure needs enough runs to show both outcomes
		}
		if strings.HasPrefix(rc.Note, "shape:") {
			n, natural, perms = c10ShapeSizes()
		}
		c.rep.Hist("how", "replay")
		runs := c.c10Runs(job, commonDirOf(rc.Order), n, natural, perms, helper)
		c.c10Check("replay:"+rc.Note, raw, rc.Class, job, runs)
		return true
	}
}

// commonDirOf is thriftrw's default thrift root for a set of file paths.
func commonDirOf(paths []string) string {
	p := &progs.Program{}
	for _, x := range paths {
		p.Files = append(p.Files, &progs.File{Path: x})
	}
	return p.CommonDir()
}

func runC10(c *checker) {
	if c.replayOrCorpus("C10") {
		return
	}
	helper, err := c.env.Helper()
	if err != nil {
		c.rep.Notes = append(c.rep.Notes, "in-process link-order runs skipped: "+summarize(err.Error(), 300))
		helper = ""
	}
	nProg := pick(10, 30)
	if *programs > 0 {
		nProg = *programs
	}
	n, natural, perms := c10Sizes()
	for i := 0; i < nProg; i++ {
		b := c.makeProgram(c.r.U64(), c10Config, optionSet)
		if i%3 == 2 {
			// import-alias collisions: a file named like a package the generated code imports
			r := rng.New(b.seed ^ 0x5bd1e995)
			f := b.prog.Files[r.Intn(len(b.prog.Files)-1)]
			f.Path = filepath.Join(filepath.Dir(f.Path), []string{"fmt", "errors", "strings", "wire", "stream", "bytes"}[r.Intn(6)]+".thrift")
			c.rep.Hist("program-kind", "std-package-file-name")
		} else {
			c.rep.Hist("program-kind", "plain")
		}
		job := gobuild.JobFor(b.prog, nil, b.opts, false)
		c.rep.Hist("options", b.opts.String())
		root := gobuild.ThriftRootOf(b.prog, b.opts)
		runs := c.c10Runs(job, root, n, natural, perms, helper)
		c.rep.Hist("runs-per-program", fmt.Sprint(len(runs)))
		c.c10Check(b.id(), c.c10Input(b.seed, job, "", ""), "", job, runs)
		logf("%s: %d runs, %s", b.id(), len(runs), runs[0].outcome())
	}
	c.runC10Shapes(helper)
	c.rep.Rule = fmt.Sprintf("random programs with many includes, types, constants of container/struct type, two services per file (every third with a file named like an imported std/runtime package) × option sets; each generated %d× by the thriftrw binary in fresh processes, %d× in-process with natural map order and %d× in-process under permuted link orders of includes/types/constants/services/functions (compile.CompileWithLinkOrder); observables: success/failure, sha256 of every generated file, the plugin request after canonical renumbering of ids, with the root services in the order of the request's list; plus shape programs (chains of constants of enum/typedef type within and across modules used in containers and defaults; service inheritance through 3–5 modules reached by sibling includes; files sharing a base name with same-named services; packages competing for import names; an umbrella file; helper names of hundreds of characters from containers nested 5–10 levels over long struct names; typedef chains that close through a struct; names equal up to the zero padding of a number) with many more natural-order runs each; known findings D10/D21 are replayed from the corpus as probes; non-trivial = every program; distinct by (seed, options)", n, natural, perms)
}

func init() { modes["C10"] = runC10 }
