package main

import (
	"encoding/json"
	"fmt"
	"math"
	"os"
	"path/filepath"
	"sort"
	"strings"

	"verifharness/internal/gobuild"
	"verifharness/internal/gtext"
	"verifharness/internal/progs"
)

// The repository's own generated packages (plugin/api and a part of
// gen/internal/tests) with schemas written down by hand from the .thrift
// sources (plugin/api.thrift, gen/internal/tests/thrift/{structs,unions,
// containers,enums,typedefs}.thrift). gen/internal/tests is an internal
// package tree, so its checked-in generated sources are copied into the scratch
// module (import paths rewritten) and compiled against the repository runtime.

type repoBuilder struct {
	env   *gtext.Env
	types []repoType
}

type repoType struct {
	name string // schema name = pkg.GoName
	pkg  string
	goID string
	t    *gtext.T
}

func mustT(s string) *gtext.T {
	t, rest, err := gtext.ParseT(strings.Fields(s))
	if err != nil || len(rest) != 0 {
		panic("bad type text: " + s)
	}
	return t
}

func mustG(s string) *gtext.G {
	g, err := gtext.ParseGText(s)
	if err != nil {
		panic("bad value text: " + s)
	}
	return g
}

type rf struct {
	id   int
	name string
	req  bool
	t    string
	def  string
	goN  string
	red  bool
}

func (rb *repoBuilder) strct(pkg, name, kind string, fields ...rf) {
	sd := &gtext.StructDef{Name: pkg + "." + name, Kind: kind}
	for _, f := range fields {
		fd := &gtext.FieldDef{ID: int16(f.id), GoName: progs.GoCase(f.name), Label: f.name, Req: f.req, T: mustT(f.t), Redact: f.red}
		if f.goN != "" {
			fd.GoName = f.goN
		}
		if f.def != "" {
			fd.Def = mustG(f.def)
			fd.Req = false
		}
		sd.Fields = append(sd.Fields, fd)
	}
	rb.env.AddStruct(sd)
	rb.types = append(rb.types, repoType{sd.Name, pkg, name, &gtext.T{K: gtext.KStruct, Name: sd.Name}})
}

func (rb *repoBuilder) enum(pkg, name string, items ...interface{}) {
	e := &gtext.EnumDef{Name: pkg + "." + name}
	for i := 0; i+1 < len(items); i += 2 {
		e.Items = append(e.Items, gtext.EnumItem{Name: items[i].(string), Value: int32(items[i+1].(int))})
	}
	rb.env.AddEnum(e)
	rb.types = append(rb.types, repoType{e.Name, pkg, name, &gtext.T{K: gtext.KEnum, Name: e.Name}})
}

func (rb *repoBuilder) typedef(pkg, name, target string) {
	rb.types = append(rb.types, repoType{pkg + "." + name, pkg, name, &gtext.T{K: gtext.KTypedef, Name: pkg + "." + name, Elem: mustT(target)}})
}

func dbl(f float64) string { return fmt.Sprintf("d:%d", math.Float64bits(f)) }

func repoSchema() *repoBuilder {
	rb := &repoBuilder{env: gtext.NewEnv()}
	ann := "map string string"
	// plugin/api.thrift
	rb.typedef("api", "ServiceID", "i32")
	rb.typedef("api", "ModuleID", "i32")
	rb.enum("api", "SimpleType", "BOOL", 1, "BYTE", 2, "INT8", 3, "INT16", 4, "INT32", 5, "INT64", 6, "FLOAT64", 7, "STRING", 8, "STRUCT_EMPTY", 9)
	rb.enum("api", "Feature", "SERVICE_GENERATOR", 1)
	rb.strct("api", "TypeReference", "struct", rf{id: 1, name: "name", req: true, t: "string"}, rf{id: 2, name: "importPath", req: true, t: "string"}, rf{id: 3, name: "annotations", t: ann})
	rb.strct("api", "TypePair", "struct", rf{id: 1, name: "left", req: true, t: "struct:api.Type"}, rf{id: 2, name: "right", req: true, t: "struct:api.Type"}, rf{id: 3, name: "annotations", t: ann})
	rb.strct("api", "Type", "union", rf{id: 1, name: "simpleType", t: "enum:api.SimpleType"}, rf{id: 2, name: "sliceType", t: "struct:api.Type"},
		rf{id: 3, name: "keyValueSliceType", t: "struct:api.TypePair"}, rf{id: 4, name: "mapType", t: "struct:api.TypePair"},
		rf{id: 5, name: "referenceType", t: "struct:api.TypeReference"}, rf{id: 6, name: "pointerType", t: "struct:api.Type"})
	rb.strct("api", "Argument", "struct", rf{id: 1, name: "name", req: true, t: "string"}, rf{id: 2, name: "type", req: true, t: "struct:api.Type"}, rf{id: 3, name: "annotations", t: ann})
	rb.strct("api", "Function", "struct", rf{id: 1, name: "name", req: true, t: "string"}, rf{id: 2, name: "thriftName", req: true, t: "string"},
		rf{id: 3, name: "arguments", req: true, t: "list struct:api.Argument"}, rf{id: 4, name: "returnType", t: "struct:api.Type"},
		rf{id: 5, name: "exceptions", t: "list struct:api.Argument"}, rf{id: 6, name: "oneWay", t: "bool"}, rf{id: 7, name: "annotations", t: ann})
	rb.strct("api", "Service", "struct", rf{id: 7, name: "name", req: true, t: "string"}, rf{id: 1, name: "thriftName", req: true, t: "string"},
		rf{id: 4, name: "parentID", t: "typedef:api.ServiceID i32"}, rf{id: 5, name: "functions", req: true, t: "list struct:api.Function"},
		rf{id: 6, name: "moduleID", req: true, t: "typedef:api.ModuleID i32"}, rf{id: 8, name: "annotations", t: ann})
	rb.strct("api", "Module", "struct", rf{id: 1, name: "importPath", req: true, t: "string"}, rf{id: 2, name: "directory", req: true, t: "string"}, rf{id: 3, name: "thriftFilePath", req: true, t: "string"})
	rb.strct("api", "HandshakeRequest", "struct")
	rb.strct("api", "HandshakeResponse", "struct", rf{id: 1, name: "name", req: true, t: "string"}, rf{id: 2, name: "apiVersion", req: true, t: "i32", goN: "APIVersion"},
		rf{id: 3, name: "features", req: true, t: "list enum:api.Feature"}, rf{id: 4, name: "libraryVersion", t: "string"})
	rb.strct("api", "GenerateServiceRequest", "struct", rf{id: 1, name: "rootServices", req: true, t: "list typedef:api.ServiceID i32"},
		rf{id: 2, name: "services", req: true, t: "map typedef:api.ServiceID i32 struct:api.Service"}, rf{id: 3, name: "modules", req: true, t: "map typedef:api.ModuleID i32 struct:api.Module"},
		rf{id: 4, name: "packagePrefix", req: true, t: "string"}, rf{id: 5, name: "thriftRoot", req: true, t: "string"}, rf{id: 6, name: "rootModules", t: "list typedef:api.ModuleID i32"})
	rb.strct("api", "GenerateServiceResponse", "struct", rf{id: 1, name: "files", t: "map string binary"})
	// gen/internal/tests/thrift/enums.thrift, typedefs.thrift (the parts used below)
	rb.enum("enums", "EnumDefault", "Foo", 0, "Bar", 1, "Baz", 2)
	rb.typedef("typedefs", "PDF", "binary")
	// structs.thrift
	rb.strct("structs", "EmptyStruct", "struct")
	prims := []string{"bool", "i8", "i16", "i32", "i64", "double", "string", "binary"}
	pnames := []string{"boolField", "byteField", "int16Field", "int32Field", "int64Field", "doubleField", "stringField", "binaryField"}
	var reqF, optF []rf
	for i := range prims {
		reqF = append(reqF, rf{id: i + 1, name: pnames[i], req: true, t: prims[i]})
		optF = append(optF, rf{id: i + 1, name: pnames[i], t: prims[i]})
	}
	rb.strct("structs", "PrimitiveRequiredStruct", "struct", reqF...)
	rb.strct("structs", "PrimitiveOptionalStruct", "struct", optF...)
	rb.strct("structs", "Point", "struct", rf{id: 1, name: "x", req: true, t: "double"}, rf{id: 2, name: "y", req: true, t: "double"})
	rb.strct("structs", "Size", "struct", rf{id: 1, name: "width", req: true, t: "double"}, rf{id: 2, name: "height", req: true, t: "double"})
	rb.strct("structs", "Frame", "struct", rf{id: 1, name: "topLeft", req: true, t: "struct:structs.Point"}, rf{id: 2, name: "size", req: true, t: "struct:structs.Size"})
	rb.strct("structs", "Edge", "struct", rf{id: 1, name: "startPoint", req: true, t: "struct:structs.Point"}, rf{id: 2, name: "endPoint", req: true, t: "struct:structs.Point"})
	rb.strct("structs", "Graph", "struct", rf{id: 1, name: "edges", req: true, t: "list struct:structs.Edge"})
	rb.strct("structs", "ContactInfo", "struct", rf{id: 1, name: "emailAddress", req: true, t: "string"})
	rb.strct("structs", "PersonalInfo", "struct", rf{id: 1, name: "age", t: "i32"}, rf{id: 2, name: "race", t: "string", red: true})
	rb.strct("structs", "User", "struct", rf{id: 1, name: "name", req: true, t: "string"}, rf{id: 2, name: "contact", t: "struct:structs.ContactInfo"}, rf{id: 3, name: "personal", t: "struct:structs.PersonalInfo"})
	rb.typedef("structs", "UserMap", "map string struct:structs.User")
	rb.typedef("structs", "List", "struct:structs.Node")
	rb.strct("structs", "Node", "struct", rf{id: 1, name: "value", req: true, t: "i32"}, rf{id: 2, name: "tail", t: "typedef:structs.List struct:structs.Node"})
	pt := func(x, y float64) string { return "R 2 " + dbl(x) + " " + dbl(y) }
	rb.strct("structs", "DefaultsStruct", "struct",
		rf{id: 1, name: "requiredPrimitive", req: true, t: "i32", def: "i32:100"}, rf{id: 2, name: "optionalPrimitive", t: "i32", def: "i32:200"},
		rf{id: 3, name: "requiredEnum", req: true, t: "enum:enums.EnumDefault", def: "i32:1"}, rf{id: 4, name: "optionalEnum", t: "enum:enums.EnumDefault", def: "i32:2"},
		rf{id: 5, name: "requiredList", req: true, t: "list string", def: "L 2 s:68656c6c6f s:776f726c64"},
		rf{id: 6, name: "optionalList", t: "list double", def: "L 3 " + dbl(1) + " " + dbl(2) + " " + dbl(3)},
		rf{id: 7, name: "requiredStruct", req: true, t: "struct:structs.Frame", def: "R 2 " + pt(1, 2) + " " + pt(100, 200)},
		rf{id: 8, name: "optionalStruct", t: "struct:structs.Edge", def: "R 2 " + pt(1, 2) + " " + pt(3, 4)},
		rf{id: 9, name: "requiredBoolDefaultTrue", req: true, t: "bool", def: "b1"}, rf{id: 10, name: "optionalBoolDefaultTrue", t: "bool", def: "b1"},
		rf{id: 11, name: "requiredBoolDefaultFalse", req: true, t: "bool", def: "b0"}, rf{id: 12, name: "optionalBoolDefaultFalse", t: "bool", def: "b0"})
	// unions.thrift
	rb.strct("unions", "EmptyUnion", "union")
	rb.strct("unions", "Document", "union", rf{id: 1, name: "pdf", t: "typedef:typedefs.PDF binary"}, rf{id: 2, name: "plainText", t: "string"})
	rb.strct("unions", "ArbitraryValue", "union", rf{id: 1, name: "boolValue", t: "bool"}, rf{id: 2, name: "int64Value", t: "i64"}, rf{id: 3, name: "stringValue", t: "string"},
		rf{id: 4, name: "listValue", t: "list struct:unions.ArbitraryValue"}, rf{id: 5, name: "mapValue", t: "map string struct:unions.ArbitraryValue"})
	// containers.thrift
	rb.strct("containers", "PrimitiveContainers", "struct", rf{id: 1, name: "listOfBinary", t: "list binary"}, rf{id: 2, name: "listOfInts", t: "list i64"},
		rf{id: 3, name: "setOfStrings", t: "set string"}, rf{id: 4, name: "setOfBytes", t: "set i8"}, rf{id: 5, name: "mapOfIntToString", t: "map i32 string"}, rf{id: 6, name: "mapOfStringToBool", t: "map string bool"})
	rb.strct("containers", "PrimitiveContainersRequired", "struct", rf{id: 1, name: "listOfStrings", req: true, t: "list string"}, rf{id: 2, name: "setOfInts", req: true, t: "set i32"}, rf{id: 3, name: "mapOfIntsToDoubles", req: true, t: "map i64 double"})
	rb.strct("containers", "ContainersOfContainers", "struct",
		rf{id: 1, name: "listOfLists", t: "list list i32"}, rf{id: 2, name: "listOfSets", t: "list set i32"}, rf{id: 3, name: "listOfMaps", t: "list map i32 i32"},
		rf{id: 4, name: "setOfSets", t: "set set string"}, rf{id: 5, name: "setOfLists", t: "set list string"}, rf{id: 6, name: "setOfMaps", t: "set map string string"},
		rf{id: 7, name: "mapOfMapToInt", t: "map map string i32 i64"}, rf{id: 8, name: "mapOfListToSet", t: "map list i32 set i64"}, rf{id: 9, name: "mapOfSetToListOfDouble", t: "map set i32 list double"})
	rb.strct("containers", "MapOfBinaryAndString", "struct", rf{id: 1, name: "binaryToString", t: "map binary string"}, rf{id: 2, name: "stringToBinary", t: "map string binary"})
	return rb
}

// repoJob assembles the scratch module for the repository's packages.
func (c *checker) repoJob(rb *repoBuilder) (*gobuild.Job, error) {
	job := &gobuild.Job{Files: map[string]string{}, NoBuild: false, Tag: "repo-packages", Lib: gobuild.LibFiles(), Extra: map[string]string{}, Binary: "./drv"}
	job.Opts.PkgPrefix = "genout/repotests"
	root := filepath.Join(c.env.Repo, "gen", "internal", "tests")
	dirs, err := os.ReadDir(root)
	if err != nil {
		return nil, err
	}
	for _, d := range dirs {
		if !d.IsDir() || d.Name() == "thrift" {
			continue
		}
		files, _ := filepath.Glob(filepath.Join(root, d.Name(), "*.go"))
		for _, f := range files {
			if strings.HasSuffix(f, "_test.go") {
				continue
			}
			b, err := os.ReadFile(f)
			if err != nil {
				return nil, err
			}
			src := strings.Replace(string(b), "go.uber.org/thriftrw/gen/internal/tests/", "genout/repotests/", -1)
			job.Extra[filepath.Join("repotests", d.Name(), filepath.Base(f))] = src
		}
	}
	var sb strings.Builder
	sb.WriteString("package main\n\nimport (\n\t\"genout/govalue\"\n\tapi \"go.uber.org/thriftrw/plugin/api\"\n")
	pkgs := map[string]bool{}
	for _, t := range rb.types {
		pkgs[t.pkg] = true
	}
	var ps []string
	for p := range pkgs {
		if p != "api" {
			ps = append(ps, p)
		}
	}
	sort.Strings(ps)
	for _, p := range ps {
		fmt.Fprintf(&sb, "\t%s \"genout/repotests/%s\"\n", p, p)
	}
	sb.WriteString(")\n\nfunc main() {\n\treg := govalue.NewRegistry()\n")
	for _, t := range rb.types {
		fmt.Fprintf(&sb, "\treg.Type(%q, (*%s.%s)(nil))\n", t.name, t.pkg, t.goID)
		if sd := rb.env.Structs[t.name]; sd != nil && sd.HasDefaults() {
			fmt.Fprintf(&sb, "\treg.Default(%q, %s.Default_%s)\n", t.name, t.pkg, t.goID)
		}
	}
	sb.WriteString("\tgovalue.Main(reg)\n}\n")
	job.Extra["drv/main.go"] = sb.String()
	// the generator is not run for this job: there are no thrift files
	job.Order = nil
	return job, nil
}

func init() {
	replayHandlers["C04repo"] = func(c *checker, raw string) bool {
		var rc replayCase
		if json.Unmarshal([]byte(raw), &rc) != nil {
			return false
		}
		rb := repoSchema()
		job, err := c.repoJob(rb)
		if err != nil {
			return false
		}
		res := c.env.Build(job)
		if !res.BuildOK {
			return true
		}
		b := &built{opts: job.Opts, res: res, job: job, schema: &progs.Schema{Env: rb.env}}
		cs := c.newCaseSet("C04", b)
		cs.repo = true
		for _, o := range rc.Ops {
			o.nontrivial = true
			cs.add(o)
		}
		cs.run()
		return true
	}
}

// repoBuilt builds the scratch module of the repository's own packages.
func (c *checker) repoBuilt() *built {
	rb := repoSchema()
	job, err := c.repoJob(rb)
	if err != nil {
		fatal("repository packages: %v", err)
	}
	res := c.env.Build(job)
	b := &built{seed: 0, opts: job.Opts, res: res, job: job, schema: &progs.Schema{Env: rb.env}}
	for _, t := range rb.types {
		b.schema.Types = append(b.schema.Types, &progs.TopType{Name: t.name, T: t.t, Go: t.goID, Kind: "repo"})
	}
	c.rep.Hist("how", "repository-packages")
	if res.Internal != "" {
		fatal("repository packages: %s", res.Internal)
	}
	if !res.BuildOK {
		c.oracle("repository packages do not build in the scratch module", "repo-packages", summarize(res.BuildOut, 3000), "the repository's checked-in generated code does not compile against the working tree runtime")
		return nil
	}
	return b
}

// repoPackages runs the C04 relations (and the C01 reference checks, which are
// cheap) on the repository's own generated packages.
func (c *checker) repoPackages() {
	b := c.repoBuilt()
	if b == nil {
		return
	}
	nVal := pick(60, 300)
	cs := c.newCaseSet("C04", b)
	cs.repo = true
	c04Program(cs, nVal)
	c01Program(cs, nVal/3)
	logf("repository packages: %d ops", len(cs.ops))
	cs.run()
}
