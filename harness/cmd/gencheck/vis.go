package main

import (
	"encoding/base64"
	"encoding/json"
	"regexp"
	"sort"
	"strconv"
	"strings"

	"verifharness/internal/gtext"
)

// What String()/Error()/MarshalLogObject show (C15). The observable compared
// with the model is the set of tokens L:<name> (field shown with a value),
// RED:<name> (set redacted field), V:<marker> (string/binary leaf that is an
// ASCII marker mk<digits>). Numbers, bools, doubles and enums are not compared
// (fmt prints enum names, zap prints objects): those V: kinds are dropped on
// both sides.

var markerRe = regexp.MustCompile(`mk[0-9]{6,}`)
var byteListRe = regexp.MustCompile(`\[([0-9]{1,3}(?: [0-9]{1,3})*)\]`)

func isMarker(b []byte) bool {
	return len(b) >= 3 && b[0] == 'm' && b[1] == 'k' && strings.Trim(string(b[2:]), "0123456789") == ""
}

func uniqSorted(toks []string) []string {
	sort.Strings(toks)
	out := toks[:0]
	for i, t := range toks {
		if i == 0 || t != toks[i-1] {
			out = append(out, t)
		}
	}
	return out
}

// expectedTokens is the harness's own statement of the C15 rule on (t, g).
func expectedTokens(env *gtext.Env, zap bool, t *gtext.T, g *gtext.G) []string {
	var out []string
	var walk func(t *gtext.T, g *gtext.G)
	walk = func(t *gtext.T, g *gtext.G) {
		if g.IsNil() {
			return
		}
		root := t.Root()
		switch root.K {
		case gtext.KList, gtext.KSet, gtext.KSSet:
			for _, it := range g.Items {
				walk(root.Elem, it)
			}
		case gtext.KMap:
			for i := 0; i+1 < len(g.Items); i += 2 {
				walk(root.Key, g.Items[i])
				walk(root.Elem, g.Items[i+1])
			}
		case gtext.KStruct:
			sd := env.Structs[root.Name]
			if sd == nil || len(g.Items) != len(sd.Fields) {
				return
			}
			for i, f := range sd.Fields {
				x := g.Items[i]
				if zap && f.NoLog {
					continue
				}
				if !f.Req && x.IsNil() {
					continue
				}
				name := f.GoName
				if zap {
					name = f.Label
				}
				if f.Redact {
					out = append(out, "RED:"+name)
					continue
				}
				out = append(out, "L:"+name)
				walk(f.T, x)
			}
		case gtext.KString, gtext.KBinary:
			if isMarker(g.B) {
				out = append(out, "V:"+string(g.B))
			}
		}
	}
	walk(t, g)
	return uniqSorted(out)
}

// schemaNames collects the Go field names and labels of all structs.
func schemaNames(env *gtext.Env, zap bool) map[string]bool {
	m := map[string]bool{}
	for _, sd := range env.Structs {
		for _, f := range sd.Fields {
			if zap {
				m[f.Label] = true
			} else {
				m[f.GoName] = true
			}
		}
	}
	return m
}

// extractString finds the tokens in the text of String()/Error().
func extractString(raw string, env *gtext.Env) []string {
	var out []string
	for _, m := range markerRe.FindAllString(raw, -1) {
		out = append(out, "V:"+m)
	}
	// []byte prints as a list of decimal bytes
	for _, m := range byteListRe.FindAllStringSubmatch(raw, -1) {
		var b []byte
		ok := true
		for _, n := range strings.Fields(m[1]) {
			x, err := strconv.Atoi(n)
			if err != nil || x > 255 {
				ok = false
				break
			}
			b = append(b, byte(x))
		}
		if ok {
			for _, mk := range markerRe.FindAllString(string(b), -1) {
				out = append(out, "V:"+mk)
			}
		}
	}
	for name := range schemaNames(env, false) {
		for _, pre := range []string{"{", ", "} {
			idx := 0
			for {
				i := strings.Index(raw[idx:], pre+name+": ")
				if i < 0 {
					break
				}
				at := idx + i + len(pre) + len(name) + 2
				if strings.HasPrefix(raw[at:], "<redacted>") {
					out = append(out, "RED:"+name)
				} else {
					out = append(out, "L:"+name)
				}
				idx = at
			}
		}
	}
	return uniqSorted(out)
}

// extractZap finds the tokens in the JSON rendering of MarshalLogObject/Array.
func extractZap(raw string, env *gtext.Env) []string {
	var out []string
	names := schemaNames(env, true)
	str := func(s string) {
		for _, m := range markerRe.FindAllString(s, -1) {
			out = append(out, "V:"+m)
		}
		if b, err := base64.StdEncoding.DecodeString(s); err == nil {
			for _, m := range markerRe.FindAllString(string(b), -1) {
				out = append(out, "V:"+m)
			}
		}
	}
	var walk func(v interface{})
	walk = func(v interface{}) {
		switch x := v.(type) {
		case map[string]interface{}:
			for k, val := range x {
				str(k)
				if names[k] {
					if s, ok := val.(string); ok && s == "<redacted>" {
						out = append(out, "RED:"+k)
					} else {
						out = append(out, "L:"+k)
					}
				}
				walk(val)
			}
		case []interface{}:
			for _, e := range x {
				walk(e)
			}
		case string:
			str(x)
		}
	}
	var v interface{}
	if err := json.Unmarshal([]byte(raw), &v); err != nil {
		return []string{"!bad-json"}
	}
	walk(v)
	return uniqSorted(out)
}

// visCanon turns the raw output (hex) of rawstring/rawerror/rawzap into the token answer.
func visCanon(which, op, body string, env *gtext.Env) string {
	if which == "tokens" {
		return "ok " + body
	}
	raw, err := unhex(body)
	if err != nil {
		return "ok " + body + " !bad-hex"
	}
	var toks []string
	if which == "zap" {
		toks = extractZap(string(raw), env)
	} else {
		toks = extractString(string(raw), env)
	}
	return strings.TrimSpace("ok " + strings.Join(toks, " "))
}

// filterTokens keeps the compared token kinds of a model answer.
func filterTokens(ans string) string {
	if !strings.HasPrefix(ans, "ok") {
		return ans
	}
	var keep []string
	for _, t := range strings.Fields(ans)[1:] {
		if strings.HasPrefix(t, "L:") || strings.HasPrefix(t, "RED:") || (strings.HasPrefix(t, "V:mk") && isMarker([]byte(t[2:]))) {
			keep = append(keep, t)
		}
	}
	return strings.TrimSpace("ok " + strings.Join(uniqSorted(keep), " "))
}
