package main

import (
	"encoding/hex"
	"encoding/json"
	"fmt"
	"os"
	"strconv"
	"strings"

	"verifharness/internal/gobuild"
	"verifharness/internal/gtext"
	"verifharness/internal/refcodec"
	"verifharness/internal/report"
)

// opCase is one operation on the generated code of a program, with what the
// harness expects (implementation-side oracle) and the model op it corresponds to.
type opCase struct {
	Kind  string `json:"kind"`
	Impl  string `json:"impl"`            // op line for the value driver
	Model string `json:"model,omitempty"` // op line for the Lean driver ("" = not modelled)
	Want  string `json:"want,omitempty"`  // expected canonical implementation answer
	Why   string `json:"why,omitempty"`   // property clause violated when Want does not hold
	Canon string `json:"canon,omitempty"` // "", "w", "hex:<typecode>", "vis:string", "vis:zap", "decode"
	Same  int    `json:"same,omitempty"`  // 1+index: answers must be equal
	IfOk  int    `json:"ifok,omitempty"`  // 1+index: if that answer is ok…, this one must equal it
	Known string `json:"known,omitempty"` // finding id: a failure of this op is that known finding

	nontrivial bool
	ans        string // canonical implementation answer
}

// replayCase is a self-contained failing input: the program (as text), how it
// was generated, the definitions and the operations.
type replayCase struct {
	Mode     string            `json:"mode"`
	Seed     uint64            `json:"seed"`
	Opts     gobuild.Options   `json:"opts"`
	Files    map[string]string `json:"files,omitempty"`
	Order    []string          `json:"order,omitempty"`
	DrvMain  string            `json:"drvmain,omitempty"`
	Preamble []string          `json:"preamble,omitempty"`
	Ops      []opCase          `json:"ops,omitempty"`
	Class    string            `json:"class,omitempty"` // C06: injection class
	Note     string            `json:"note,omitempty"`
}

func canonAnswer(canon, op, ans string, env *gtext.Env) string {
	if canon == "vistokens" {
		return filterTokens(ans)
	}
	if !strings.HasPrefix(ans, "ok ") {
		return ans
	}
	body := ans[3:]
	switch {
	case canon == "w":
		if t, ok := refcodec.CanonText(body); ok {
			return "ok " + t
		}
		return ans + " !unparsable-W"
	case strings.HasPrefix(canon, "hex:"):
		code, _ := strconv.Atoi(canon[4:])
		b, err := unhex(body)
		if err != nil {
			return ans + " !bad-hex"
		}
		v, n, err := refcodec.Decode(byte(code), b)
		if err != nil || n != len(b) {
			return ans + " !not-a-complete-encoding"
		}
		return "ok " + refcodec.Canon(v).Text()
	case canon == "fieldtype":
		// impl: ok <tag hex> <type text>; model: ok <type text>
		if op != "" && strings.HasPrefix(op, "fieldtype ") {
			if parts := strings.SplitN(body, " ", 2); len(parts) == 2 {
				return "ok " + parts[1]
			}
		}
		return ans
	case canon == "zapjson":
		raw, err := unhex(body)
		if err != nil {
			return ans + " !bad-hex"
		}
		return "ok " + hx([]byte(canonJSON(raw)))
	case strings.HasPrefix(canon, "vis:"):
		return visCanon(canon[4:], op, body, env)
	case canon == "vistokens":
		return filterTokens(ans)
	}
	return ans
}

func unhex(s string) ([]byte, error) {
	if s == "-" {
		return []byte{}, nil
	}
	return hex.DecodeString(s)
}

func hx(b []byte) string {
	if len(b) == 0 {
		return "-"
	}
	return hex.EncodeToString(b)
}

func isAbnormal(ans string) bool {
	for _, p := range []string{"panic", "crash", "timeout", "shape-mismatch", "bad-op"} {
		if strings.HasPrefix(ans, p) {
			return true
		}
	}
	return false
}

// caseSet is the batch of operations of one program.
type caseSet struct {
	c        *checker
	b        *built
	mode     string
	preamble []string
	ops      []opCase
	drvMain  string
	repo     bool // the repository's own packages (rebuilt from the repository on replay)
}

func (c *checker) newCaseSet(mode string, b *built) *caseSet {
	cs := &caseSet{c: c, b: b, mode: mode}
	cs.preamble = append([]string{"reset"}, b.schema.Env.Order...)
	return cs
}

func (cs *caseSet) add(o opCase) int {
	cs.ops = append(cs.ops, o)
	return len(cs.ops) // 1+index
}

// input renders the replayable input of op i (with the ops it refers to).
func (cs *caseSet) input(idx ...int) string {
	rc := replayCase{Mode: cs.mode, Opts: cs.b.opts, Preamble: cs.preamble}
	if cs.b.prog != nil {
		rc.Seed = cs.b.seed
	}
	remap := map[int]int{}
	var add func(i int)
	add = func(i int) {
		if _, ok := remap[i]; ok {
			return
		}
		o := cs.ops[i]
		if o.Same > 0 {
			add(o.Same - 1)
		}
		if o.IfOk > 0 {
			add(o.IfOk - 1)
		}
		remap[i] = len(rc.Ops)
		if o.Same > 0 {
			o.Same = remap[o.Same-1] + 1
		}
		if o.IfOk > 0 {
			o.IfOk = remap[o.IfOk-1] + 1
		}
		rc.Ops = append(rc.Ops, o)
	}
	for _, i := range idx {
		add(i)
	}
	job := cs.b.job
	if cs.repo {
		rc.Mode, rc.Preamble = "C04repo", nil
	} else if job != nil {
		size := 0
		for _, t := range job.Files {
			size += len(t)
		}
		for _, l := range cs.preamble {
			size += len(l)
		}
		if size < 36000 || *mkCorpus != "" {
			rc.Files, rc.Order = job.Files, job.Order
			rc.DrvMain = job.Extra["drv/main.go"]
		} else {
			rc.Preamble = nil // regenerate from the seed
		}
	}
	js, _ := json.Marshal(rc)
	return string(js)
}

// run executes all ops on the implementation, evaluates the expectations and
// relations (implementation-side oracles), then compares with the model.
func (cs *caseSet) run() {
	c := cs.c
	if len(cs.ops) == 0 {
		return
	}
	d := &implDriver{bin: cs.b.res.BinPath(), preamble: cs.preamble}
	lines := make([]string, len(cs.ops))
	for i, o := range cs.ops {
		lines[i] = o.Impl
	}
	shards := *par
	if shards > 8 {
		shards = 8
	}
	ans := d.runSharded(lines, shards)
	env := cs.b.schema.Env
	for i := range cs.ops {
		o := &cs.ops[i]
		o.ans = canonAnswer(o.Canon, o.Impl, ans[i], env)
		c.rep.Case(cs.b.id()+"|"+o.Impl, o.nontrivial)
		c.rep.Hist("op", strings.SplitN(o.Kind, " ", 2)[0]+" "+firstWord(o.Impl))
		c.rep.Hist("impl-outcome", firstWord(o.ans))
	}
	for i := 0; i < len(cs.ops) && i < 400; i += 97 {
		if len(c.rep.Samples) < 10 {
			c.rep.Sample(cs.ops[i].Kind + ": " + summarize(cs.ops[i].Impl, 260) + " → " + summarize(cs.ops[i].ans, 200))
		}
	}
	fail := func(i int, kind, why string, extra ...int) {
		o := &cs.ops[i]
		if o.Known != "" {
			c.known(o.Known, fmt.Sprintf("%s: %s → %s", kind, summarize(o.Impl, 200), summarize(o.ans, 200)))
			return
		}
		c.rep.Disagree(report.Disagreement{Kind: kind, Input: cs.input(append([]int{i}, extra...)...), Impl: summarize(o.ans, 4000), Oracle: why})
	}
	for i := range cs.ops {
		o := &cs.ops[i]
		switch {
		case isAbnormal(o.ans):
			fail(i, o.Kind+": "+firstWord(o.ans), "generated code (or its Go representation) misbehaved: "+summarize(o.ans, 300))
		case o.Want != "" && o.ans != o.Want:
			fail(i, o.Kind, o.Why+"; expected "+summarize(o.Want, 1500))
		}
		if o.Same > 0 {
			p := &cs.ops[o.Same-1]
			if !relEqual(p, o) && !isAbnormal(o.ans) && !isAbnormal(p.ans) {
				fail(i, o.Kind, o.Why+"; the related operation answered "+summarize(p.ans, 1500), o.Same-1)
			}
		}
		if o.IfOk > 0 {
			p := &cs.ops[o.IfOk-1]
			if strings.HasPrefix(p.ans, "ok") && !relEqual(p, o) && !isAbnormal(o.ans) {
				fail(i, o.Kind, o.Why+"; the related operation answered "+summarize(p.ans, 1500), o.IfOk-1)
			}
		}
	}
	cs.emitCorpus()
	if *noModel {
		return
	}
	var mops []string
	var midx []int
	for i, o := range cs.ops {
		if o.Model != "" {
			mops = append(mops, o.Model)
			midx = append(midx, i)
		}
	}
	if len(mops) == 0 {
		return
	}
	mans, err := modelRun(cs.preamble, mops, *par)
	if err != nil {
		fatal("model driver: %v", err)
	}
	for k, i := range midx {
		o := &cs.ops[i]
		m := mans[k]
		if strings.HasPrefix(m, "bad-op") || m == "fuel" {
			c.rep.Hist("model", "not-modelled:"+firstWord(o.Model))
			continue
		}
		m = canonAnswer(modelCanon(o.Canon), o.Model, m, env)
		c.rep.Hist("model", "compared:"+firstWord(o.Model))
		if m != o.ans && !isAbnormal(o.ans) {
			if o.Known != "" {
				continue
			}
			c.rep.Disagree(report.Disagreement{Kind: o.Kind + " (implementation vs model)", Input: cs.input(i), Impl: summarize(o.ans, 4000), Model: summarize(m, 4000)})
		}
	}
}

// modelCanon: the model answers string/zap ops with tokens directly.
func modelCanon(canon string) string {
	if strings.HasPrefix(canon, "vis:") {
		return "vistokens"
	}
	return canon
}

func firstWord(s string) string {
	if i := strings.IndexByte(s, ' '); i >= 0 {
		return s[:i]
	}
	return s
}

// relEqual compares the answers of two related ops; a streaming decode answer
// carries the consumed byte count, which is dropped when the other op has none.
func relEqual(a, b *opCase) bool {
	ca, cb := hasCount(a), hasCount(b)
	if ca == cb {
		return a.ans == b.ans
	}
	return dropCount(a, ca) == dropCount(b, cb)
}

func hasCount(o *opCase) bool {
	w := firstWord(o.Impl)
	return w == "decode" || w == "decodec"
}

func dropCount(o *opCase, has bool) string {
	if has && strings.HasPrefix(o.ans, "ok ") {
		if parts := strings.SplitN(o.ans, " ", 3); len(parts) == 3 {
			return "ok " + parts[2]
		}
	}
	return o.ans
}

// emitCorpus appends a sample of this batch as one self-contained replay case.
func (cs *caseSet) emitCorpus() {
	if *mkCorpus == "" || cs.repo || cs.b.job == nil {
		return
	}
	step := len(cs.ops)/250 + 1
	var idx []int
	seenKind := map[string]int{}
	for i, o := range cs.ops {
		k := firstWord(o.Impl) + "/" + o.Kind
		if i%step == 0 || seenKind[k] < 3 || o.Known != "" && seenKind["known"] < 12 {
			if len(o.Impl) < 3000 {
				idx = append(idx, i)
				seenKind[k]++
				if o.Known != "" {
					seenKind["known"]++
				}
			}
		}
	}
	rc := cs.input(idx...)
	fh, err := os.OpenFile(*mkCorpus, os.O_APPEND|os.O_CREATE|os.O_WRONLY, 0o644)
	if err != nil {
		fatal("%v", err)
	}
	defer fh.Close()
	fh.WriteString(rc + "\n")
}
