package main

import (
	"fmt"
	"go/ast"
	"go/parser"
	"go/token"
	"os"
	"path"
	"path/filepath"
	"sort"
	"strings"

	"verifharness/internal/gobuild"
	"verifharness/internal/gtext"
	"verifharness/internal/progs"
	"verifharness/internal/refcodec"
	"verifharness/internal/rng"
	"verifharness/internal/typenorm"
	"verifharness/internal/valgen"
)

func servicesConfig(r *rng.R) progs.Config {
	cfg := progs.DefaultConfig()
	cfg.Files = r.Pick(2, 3, 4)
	cfg.Defs = 8
	cfg.Consts = 1
	cfg.Services = r.Pick(1, 2, 3)
	cfg.Funcs = 6
	return small(cfg)
}

func servicesOptions(r *rng.R) gobuild.Options {
	var o gobuild.Options
	switch r.Intn(6) {
	case 0, 1:
		o.NoRecurse = true
	case 2:
		o.NoZap = true
	case 3:
		// also in spellings that are not clean: what plugins are told (import paths, directories)
		// must be what the generated packages have
		o.PkgPrefix = []string{"genout/x/y-z/gen", "genout/x/y-z/gen/", "./genout/x/y-z/gen", "genout/x//y-z/gen", "genout/x/y-z/./gen/"}[r.Intn(5)]
	case 4:
		// --output-file without --no-recurse: code is generated for the given file only, and only its
		// services are root services
		o.OutputFile = "all_in_one.go"
	}
	return o
}

// genTypes holds what go/ast finds in one generated package.
type genTypes struct {
	structs map[string]map[string]string // struct name → field name → normalised type
	helpers map[string]map[string]string // helper var name → func field → normalised func type
}

func parseGenerated(dir, importPath string) (*genTypes, error) {
	gt := &genTypes{structs: map[string]map[string]string{}, helpers: map[string]map[string]string{}}
	files, _ := filepath.Glob(filepath.Join(dir, "*.go"))
	fset := token.NewFileSet()
	for _, fn := range files {
		f, err := parser.ParseFile(fset, fn, nil, 0)
		if err != nil {
			return nil, err
		}
		imports := typenorm.Imports(f)
		for _, d := range f.Decls {
			gd, ok := d.(*ast.GenDecl)
			if !ok {
				continue
			}
			for _, sp := range gd.Specs {
				switch s := sp.(type) {
				case *ast.TypeSpec:
					st, ok := s.Type.(*ast.StructType)
					if !ok {
						continue
					}
					m := map[string]string{}
					for _, fl := range st.Fields.List {
						for _, n := range fl.Names {
							m[n.Name] = typenorm.Type(fl.Type, imports, importPath)
						}
					}
					gt.structs[s.Name.Name] = m
				case *ast.ValueSpec:
					if gd.Tok != token.VAR || len(s.Names) != 1 || !strings.HasSuffix(s.Names[0].Name, "_Helper") || len(s.Values) != 1 {
						continue
					}
					cl, ok := s.Values[0].(*ast.CompositeLit)
					if !ok {
						continue
					}
					st, ok := cl.Type.(*ast.StructType)
					if !ok {
						continue
					}
					m := map[string]string{}
					for _, fl := range st.Fields.List {
						for _, n := range fl.Names {
							m[n.Name] = typenorm.Type(fl.Type, imports, importPath)
						}
					}
					gt.helpers[s.Names[0].Name] = m
				}
			}
		}
	}
	return gt, nil
}

// splitFunc splits a normalised func type "func(a, b) (c, d)" into params and results.
func splitFunc(s string) (params, results []string) {
	if !strings.HasPrefix(s, "func(") {
		return nil, nil
	}
	depth, i := 0, 4
	for ; i < len(s); i++ {
		if s[i] == '(' {
			depth++
		} else if s[i] == ')' {
			depth--
			if depth == 0 {
				break
			}
		}
	}
	params = splitTop(s[5:i])
	rest := strings.TrimSpace(s[i+1:])
	if strings.HasPrefix(rest, "(") && strings.HasSuffix(rest, ")") {
		results = splitTop(rest[1 : len(rest)-1])
	} else if rest != "" {
		results = []string{rest}
	}
	return
}

// splitTop splits at top-level ", " (not inside brackets, braces or quotes).
func splitTop(s string) []string {
	if strings.TrimSpace(s) == "" {
		return nil
	}
	var out []string
	depth, start, inq := 0, 0, false
	for i := 0; i < len(s); i++ {
		switch c := s[i]; {
		case c == '"':
			inq = !inq
		case inq:
		case c == '(' || c == '[' || c == '{':
			depth++
		case c == ')' || c == ']' || c == '}':
			depth--
		case c == ',' && depth == 0:
			out = append(out, strings.TrimSpace(s[start:i]))
			start = i + 1
		}
	}
	return append(out, strings.TrimSpace(s[start:]))
}

// c19Static checks the captured plugin request against the program and the generated sources.
func (c *checker) c19Static(b *built, helper string) {
	p := b.prog
	root := gobuild.ThriftRootOf(p, b.opts)
	scratch, err := c.env.Layout(b.job)
	if err != nil {
		fatal("%v", err)
	}
	defer os.RemoveAll(scratch)
	thriftRoot := filepath.Join(scratch, "thrift", root)
	hr, err := c.env.RunHelper(helper, scratch, b.job, p.Root.Path, filepath.Join(scratch, "helper-out"), thriftRoot, 0)
	if err != nil {
		fatal("%v", err)
	}
	input := cs19Input(b)
	fail := func(kind, impl, why string) {
		c.oracle("C19 "+kind, input, impl, why)
	}
	if !hr.OK {
		fail("generator failed in-process", hr.Stage+": "+hr.Err, "the program was accepted by the thriftrw binary but gen.Generate failed in-process")
		return
	}
	for _, pr := range hr.Problems {
		fail("request not self-consistent / import names of a plugin file not consistent", pr, "every root service, parent and module id must resolve within the request and parent chains must be acyclic; every name the template's import function hands out must be bound to that path, once, in the generated file")
	}
	prefix := b.opts.Prefix()
	// (compared in clean form: the request hands the option on as it was spelled, and the
	// property speaks of names, import paths and directories)
	if path.Clean(hr.PackagePrefix) != prefix {
		fail("request package prefix", hr.PackagePrefix, "PackagePrefix must be the --pkg-prefix in effect: "+prefix)
	}
	// modules: exactly the files reachable from the root, with the right paths
	wantMods := map[string]*progs.File{}
	for _, f := range p.Root.Reaches() {
		wantMods["$R/"+f.PkgRel(root)+".thrift"] = f
	}
	modFile := map[int]*progs.File{}
	for _, m := range hr.Modules {
		f := wantMods[m.ThriftFile]
		if f == nil {
			fail("request module unknown", m.ThriftFile, "a module of the request is not a file of the program")
			continue
		}
		delete(wantMods, m.ThriftFile)
		modFile[m.ID] = f
		if m.ImportPath != prefix+"/"+f.PkgRel(root) || m.Directory != f.PkgRel(root) {
			fail("request module paths", fmt.Sprintf("%s: importPath=%s directory=%s", m.ThriftFile, m.ImportPath, m.Directory),
				"import path and directory must match the generated package: "+prefix+"/"+f.PkgRel(root))
		}
		if m.Root != (f == p.Root) {
			fail("request root modules", fmt.Sprintf("%s root=%v", m.ThriftFile, m.Root), "the root modules are exactly the files thriftrw was called with")
		}
	}
	for k := range wantMods {
		fail("request module missing", k, "every file reachable from the root must be a module of the request")
	}
	// services
	type skey struct {
		f    *progs.File
		name string
	}
	have := map[skey]int{}
	for i, s := range hr.Services {
		have[skey{modFile[s.Module], s.ThriftName}] = i
	}
	wantRoot := map[skey]bool{}
	needed := map[skey]*progs.Service{}
	for _, f := range p.Root.Reaches() {
		if b.opts.PerFile() && f != p.Root {
			continue
		}
		for _, s := range f.Services {
			wantRoot[skey{f, s.Name}] = true
			for x := s; x != nil; x = x.Parent {
				needed[skey{x.File, x.Name}] = x
			}
		}
	}
	for k, s := range needed {
		i, ok := have[k]
		if !ok {
			fail("request service missing", k.f.Path+":"+k.name, "root services and all their ancestors must be in the request")
			continue
		}
		hs := hr.Services[i]
		if hs.Root != wantRoot[k] {
			fail("request root services", fmt.Sprintf("%s root=%v", k.name, hs.Root), "root services are exactly the services of the files code is generated for")
		}
		if hs.Name != progs.GoCase(s.Name) {
			fail("request service name", hs.Name, "Name must be the Go name "+progs.GoCase(s.Name))
		}
		wantParent := 0
		if s.Parent != nil {
			if j, ok := have[skey{s.Parent.File, s.Parent.Name}]; ok {
				wantParent = hr.Services[j].ID
			}
		}
		if hs.Parent != wantParent {
			fail("request parent id", fmt.Sprintf("%s parent=%d", k.name, hs.Parent), fmt.Sprintf("parent must resolve to the declared parent service (id %d)", wantParent))
		}
		// functions: sorted by thrift name, types agree with the generated structs
		fns := append([]*progs.Func{}, s.Funcs...)
		sort.Slice(fns, func(i, j int) bool { return fns[i].Name < fns[j].Name })
		if len(fns) != len(hs.Functions) {
			fail("request functions", fmt.Sprintf("%s has %d functions in the request", k.name, len(hs.Functions)), fmt.Sprintf("expected %d", len(fns)))
			continue
		}
		pkgDir := filepath.Join(b.res.GenDir(), k.f.PkgRel(root))
		importPath := prefix + "/" + k.f.PkgRel(root)
		gt, err := parseGenerated(pkgDir, importPath)
		if err != nil {
			fail("generated source does not parse", err.Error(), "")
			continue
		}
		for j, fn := range fns {
			hf := hs.Functions[j]
			id := k.name + "." + fn.Name
			c.rep.Case(b.id()+"|"+id, true)
			if hf.ThriftName != fn.Name || hf.Name != progs.GoCase(fn.Name) || hf.OneWay != fn.Oneway {
				fail("request function identity", fmt.Sprintf("%s: name=%s thriftName=%s oneWay=%v", id, hf.Name, hf.ThriftName, hf.OneWay), "functions must be listed in sorted order with their Go and Thrift names")
				continue
			}
			pfx := progs.FuncPrefix(s, fn)
			args := gt.structs[pfx+"Args"]
			if args == nil {
				fail("generated args struct missing", pfx+"Args", "")
				continue
			}
			if len(hf.Args) != len(fn.Args) {
				fail("request arguments", id, "argument count")
				continue
			}
			for a, arg := range fn.Args {
				c.rep.Hist("described-type-shape", shorten(arg.Type.T().Shape(), 32))
				ha := hf.Args[a]
				got := args[arg.Go()]
				if ha.Name != arg.Go() || ha.Type != got {
					fail("argument description ≠ generated field type", fmt.Sprintf("%s argument %s: description %s %s, generated field %s", id, arg.Name, ha.Name, ha.Type, got),
						"the Go type obtained by formatting the type description sent to plugins must be identical to the type of the field in the generated Args struct")
				}
			}
			helperT := gt.helpers[pfx+"Helper"]
			if helperT == nil {
				fail("generated helper missing", pfx+"Helper", "")
				continue
			}
			ap, ar := splitFunc(helperT["Args"])
			if len(ap) != len(fn.Args) || len(ar) != 1 || ar[0] != "*"+quoteSelf(importPath)+"."+pfx+"Args" {
				fail("helper Args signature", helperT["Args"], "Args must take the parameters in order and return the args struct")
			} else {
				for a := range fn.Args {
					if ap[a] != hf.Args[a].Type {
						fail("argument description ≠ helper parameter type", fmt.Sprintf("%s argument %d: %s vs %s", id, a, hf.Args[a].Type, ap[a]), "Helper.Args parameter types must equal the described argument types")
					}
				}
			}
			if fn.Oneway {
				continue
			}
			res := gt.structs[pfx+"Result"]
			if res == nil {
				fail("generated result struct missing", pfx+"Result", "")
				continue
			}
			if len(hf.Exceptions) != len(fn.Throws) {
				fail("request exceptions", id, "exception count")
				continue
			}
			for e, exc := range fn.Throws {
				he := hf.Exceptions[e]
				got := res[exc.Go()]
				if he.Name != exc.Go() || he.Type != got {
					fail("exception description ≠ generated field type", fmt.Sprintf("%s exception %s: description %s %s, generated field %s", id, exc.Name, he.Name, he.Type, got),
						"the formatted description of an exception must be identical to the type of the field in the generated Result struct")
				}
			}
			wp, wr := splitFunc(helperT["WrapResponse"])
			up, ur := splitFunc(helperT["UnwrapResponse"])
			resPtr := "*" + quoteSelf(importPath) + "." + pfx + "Result"
			if fn.Ret != nil {
				c.rep.Hist("described-type-shape", "ret:"+shorten(fn.Ret.T().Shape(), 32))
				if len(wp) != 2 || len(ur) != 2 || wp[0] != hf.Ret || ur[0] != hf.Ret {
					fail("return description ≠ helper value type", fmt.Sprintf("%s: description %s, WrapResponse %s, UnwrapResponse %s", id, hf.Ret, helperT["WrapResponse"], helperT["UnwrapResponse"]),
						"the formatted return type must be identical to the value type accepted by WrapResponse and returned by UnwrapResponse")
				}
			} else if hf.Ret != "" || len(wp) != 1 || len(ur) != 1 {
				fail("void function helpers", fmt.Sprintf("%s: ret=%q %s %s", id, hf.Ret, helperT["WrapResponse"], helperT["UnwrapResponse"]), "a void function has no return description and helpers without a value")
			}
			if len(wr) != 2 || wr[0] != resPtr || len(up) != 1 || up[0] != resPtr {
				fail("helper result struct type", helperT["WrapResponse"]+" / "+helperT["UnwrapResponse"], "WrapResponse returns and UnwrapResponse takes the result struct")
			}
		}
	}
}

func quoteSelf(p string) string { return fmt.Sprintf("%q", p) }

func cs19Input(b *built) string {
	cs := &caseSet{b: b, mode: "C19"}
	return cs.input()
}

// c19Dynamic queues the helper round trips executed in the value driver.
func c19Dynamic(cs *caseSet, nVal int) {
	c, b := cs.c, cs.b
	env := b.schema.Env
	r := c.r.Fork()
	vg := valgen.New(env, r)
	codec := &refcodec.Codec{Env: env}
	_ = codec
	for _, fi := range b.schema.Funcs {
		key := strings.TrimSuffix(fi.Args, "_Args")
		args := env.Structs[fi.Args]
		for i := 0; i < nVal; i++ {
			vg.MaxDepth, vg.MaxLen = r.Pick(1, 2), r.Pick(0, 1, 2, 3)
			// Args: parameters in order → args struct
			av := vg.Value(&gtext.T{K: gtext.KStruct, Name: fi.Args})
			var parts []string
			for _, x := range av.Items {
				parts = append(parts, x.Text())
			}
			op := strings.TrimSpace("hargs " + key + " " + strings.Join(parts, " "))
			cs.add(opCase{Kind: "C19 Helper.Args", Impl: op, Want: "ok " + av.Text(), Why: "Helper.Args must build the args struct from the parameters in order", nontrivial: len(args.Fields) > 0})
			if fi.Result == "" {
				continue
			}
			res := env.Structs[fi.Result]
			nF := len(res.Fields)
			mk := func(idx int, v *gtext.G) *gtext.G {
				g := &gtext.G{K: gtext.GStruct}
				for j := 0; j < nF; j++ {
					if j == idx {
						g.Items = append(g.Items, v)
					} else {
						g.Items = append(g.Items, gtext.Nil())
					}
				}
				return g
			}
			first := 0
			if fi.Ret != nil {
				first = 1
				v := vg.Value(fi.Ret)
				rg := mk(0, v)
				why := "WrapResponse/UnwrapResponse must map a return value to the result struct and back without loss"
				cs.add(opCase{Kind: "C19 WrapResponse(value)", Impl: "hwrap " + key + " val " + v.Text(), Want: "ok " + rg.Text(), Why: why, nontrivial: true})
				cs.add(opCase{Kind: "C19 UnwrapResponse(value)", Impl: "hunwrap " + key + " " + rg.Text(), Want: "ok val " + v.Text(), Why: why, nontrivial: true})
				if i == 0 {
					cs.add(opCase{Kind: "C19 UnwrapResponse(empty result)", Impl: "hunwrap " + key + " " + mk(-1, nil).Text(), Want: "ok other",
						Why: "a non-void result without value or exception must be reported as an error", nontrivial: true})
				}
			} else {
				cs.add(opCase{Kind: "C19 WrapResponse(void)", Impl: "hwrap " + key + " void", Want: "ok " + mk(-1, nil).Text(), Why: "a void success maps to the empty result", nontrivial: true})
				cs.add(opCase{Kind: "C19 UnwrapResponse(void)", Impl: "hunwrap " + key + " " + mk(-1, nil).Text(), Want: "ok void", Why: "the empty result of a void function is success", nontrivial: true})
			}
			for e := first; e < nF; e++ {
				ev := vg.Value(res.Fields[e].T)
				rg := mk(e, ev)
				why := "WrapResponse/UnwrapResponse/IsException must map a declared exception to the result struct and back without loss"
				cs.add(opCase{Kind: "C19 WrapResponse(exception)", Impl: fmt.Sprintf("hwrap %s exc %d %s", key, e-first, ev.Text()), Want: "ok " + rg.Text(), Why: why, nontrivial: true})
				cs.add(opCase{Kind: "C19 WrapResponse(undeclared error that wraps a declared exception)", Impl: fmt.Sprintf("hwrap %s wrapped %d %s", key, e-first, ev.Text()), Want: "err",
					Why: "an error whose own type the function does not declare must be refused, whatever it wraps (taking the exception out of its chain would also drop the error that was returned)", nontrivial: true})
				cs.add(opCase{Kind: "C19 UnwrapResponse(exception)", Impl: "hunwrap " + key + " " + rg.Text(), Want: fmt.Sprintf("ok exc %d %s", e-first, ev.Text()), Why: why, nontrivial: true})
				cs.add(opCase{Kind: "C19 IsException(declared)", Impl: fmt.Sprintf("hisexc %s exc %d %s", key, e-first, ev.Text()), Want: "ok 1", Why: why, nontrivial: true})
				if i == 0 {
					cs.add(opCase{Kind: "C19 WrapResponse(typed nil exception)", Impl: fmt.Sprintf("hwrap %s nilexc %d", key, e-first), Want: "err",
						Why: "a non-nil error interface holding a nil exception pointer must be refused", nontrivial: true})
				}
			}
			if i == 0 {
				cs.add(opCase{Kind: "C19 WrapResponse(undeclared error)", Impl: "hwrap " + key + " other", Want: "err", Why: "errors the function does not declare must be refused", nontrivial: true})
				cs.add(opCase{Kind: "C19 IsException(undeclared)", Impl: "hisexc " + key + " other", Want: "ok 0", Why: "an undeclared error is not an exception of the function", nontrivial: true})
				cs.add(opCase{Kind: "C19 IsException(nil)", Impl: "hisexc " + key + " nil", Want: "ok 0", Why: "nil is not an exception", nontrivial: true})
			}
		}
	}
	// the Go type of every field vs the model's core type mapping
	names := make([]string, 0, len(env.Structs))
	for n := range env.Structs {
		names = append(names, n)
	}
	sort.Strings(names)
	for _, n := range names {
		for idx, f := range env.Structs[n].Fields {
			cs.add(opCase{Kind: "C19 Go field type", Impl: fmt.Sprintf("fieldtype %s %d", n, idx), Model: "gotype " + f.T.Text() + " " + b01(f.Req), Canon: "fieldtype",
				Want: "ok " + goTypeText(f.T, f.Req), Why: "the Go type of the generated field is not the core type mapping of the schema type", nontrivial: true})
		}
	}
}

func b01(b bool) string {
	if b {
		return "1"
	}
	return "0"
}

// goTypeText is the harness's own statement of the core type mapping
// (SCHEMA_PROTOCOL.md "Go representation"), with named types printed as schema names.
func goTypeText(t *gtext.T, req bool) string {
	var name func(t *gtext.T) string
	name = func(t *gtext.T) string {
		switch t.K {
		case gtext.KBool:
			return "bool"
		case gtext.KI8:
			return "int8"
		case gtext.KI16:
			return "int16"
		case gtext.KI32:
			return "int32"
		case gtext.KI64:
			return "int64"
		case gtext.KDouble:
			return "float64"
		case gtext.KString:
			return "string"
		case gtext.KBinary:
			return "[]byte"
		case gtext.KEnum, gtext.KStruct, gtext.KTypedef:
			return t.Name
		case gtext.KList:
			return "[]" + ref(t.Elem)
		case gtext.KSet:
			if t.Elem.IsPrim() {
				return "map[" + ref(t.Elem) + "]struct{}"
			}
			return "[]" + ref(t.Elem)
		case gtext.KSSet:
			return "[]" + ref(t.Elem)
		case gtext.KMap:
			if t.Key.IsPrim() {
				return "map[" + ref(t.Key) + "]" + ref(t.Elem)
			}
			return "[]struct{Key " + ref(t.Key) + "; Value " + ref(t.Elem) + "}"
		}
		return "?"
	}
	s := name(t)
	if t.IsStruct() {
		return "*" + s
	}
	if !req && !t.IsRef() {
		return "*" + s
	}
	return s
}

func ref(t *gtext.T) string {
	s := goTypeText(t, true)
	return s
}

func runC19(c *checker) {
	if c.replayOrCorpus("C19") {
		return
	}
	helper, err := c.env.Helper()
	if err != nil {
		fatal("%v", err)
	}
	nProg, nVal := pick(8, 80), pick(16, 40)
	if *programs > 0 {
		nProg = *programs
	}
	if *values > 0 {
		nVal = *values
	}
	bs := c.buildPrograms(nProg, servicesConfig, servicesOptions, true)
	for _, b := range bs {
		if !c.checkBuild(b) {
			continue
		}
		c.shapeHist(b)
		for _, fi := range b.schema.Funcs {
			switch {
			case fi.Func.Oneway:
				c.rep.Hist("function-kind", "oneway")
			case fi.Func.Ret == nil:
				c.rep.Hist("function-kind", fmt.Sprintf("void throws %d", len(fi.Func.Throws)))
			default:
				c.rep.Hist("function-kind", fmt.Sprintf("value throws %d", len(fi.Func.Throws)))
			}
			if fi.Service.Parent != nil {
				if fi.Service.Parent.File != fi.Service.File {
					c.rep.Hist("service-inheritance", "cross-file parent")
				} else {
					c.rep.Hist("service-inheritance", "same-file parent")
				}
			} else {
				c.rep.Hist("service-inheritance", "none")
			}
		}
		c.c19Static(b, helper)
		cs := c.newCaseSet("C19", b)
		c19Dynamic(cs, nVal)
		logf("%s: %d ops", b.id(), len(cs.ops))
		cs.run()
	}
	c.rep.Rule = "programs with 1–3 services per file (up to 6 functions; parameters/returns/exceptions over every type shape incl. optional/required/defaulted primitives, enums, binary, nested containers, unhashable keys, slice sets, typedefs of each, structs, cross-file references; inherited services across files) × {recurse, no-recurse, no-zap, pkg-prefix}; the GenerateServiceRequest captured in-process (gen.Generate with a capturing ServiceGenerator), every api.Type formatted by plugin.GoFileFromTemplate/formatType, once more in a file that imports 3–8 packages competing for names (equal base names, numbered variants, Go keywords) through the template's import function; generated *_Args/*_Result field types and *_Helper signatures parsed with go/ast, import aliases resolved to import paths; oracle: description = generated type, request self-consistent and matching the generated packages; Helper.Args/WrapResponse/UnwrapResponse/IsException executed by reflection on random values; Go type of every struct field vs the core type mapping (and the model's gotype); non-trivial = every function and op; distinct by (program, function/op)"
}

func init() {
	modes["C19"] = runC19
	modeGens["C19"] = modeGen{servicesConfig, servicesOptions}
}
