package main

import (
	"fmt"
	"os"
	"path/filepath"
	"sort"
	"strings"

	"verifharness/internal/gobuild"
	"verifharness/internal/progs"
	"verifharness/internal/rng"
)

// built is a random program that went through generator + go build + go vet.
type built struct {
	seed   uint64
	prog   *progs.Program
	schema *progs.Schema
	opts   gobuild.Options
	res    *gobuild.Result
	job    *gobuild.Job
}

func (b *built) id() string { return fmt.Sprintf("prog-seed=%d opts=%s", b.seed, b.opts) }

// optionSets are the CLI option combinations the pipeline draws from.
func optionSet(r *rng.R) gobuild.Options {
	var o gobuild.Options
	switch r.Intn(8) {
	case 0, 1:
	case 2:
		o.NoZap = true
	case 3:
		o.EnumStrict = true
	case 4:
		o.OutputFile = "all_in_one.go"
	case 5:
		o.NoRecurse = true
	case 6:
		o.PkgPrefix = "genout/x/y-z/gen"
		if r.Chance(1, 2) {
			o.PkgPrefix += "/" // not in clean form: the import paths must be the cleaned ones
		}
	case 7:
		o.ThriftRoot = true
		o.NoZap = r.Bool()
		o.EnumStrict = r.Bool()
	}
	o.NoEmbedIDL = r.Chance(1, 4) // independent of the rest: the IDL is left out of the generated package
	return o
}

// programText renders all files of a program for reports and replays.
func programText(p *progs.Program) string {
	var sb strings.Builder
	if p == nil {
		return "(program given by its files in the replay input)"
	}
	for _, f := range p.Files {
		fmt.Fprintf(&sb, "// ---- %s ----\n%s\n", f.Path, f.Render())
	}
	return sb.String()
}

func dumpProgram(dir, name string, p *progs.Program) {
	if dir == "" || p == nil {
		return
	}
	for _, f := range p.Files {
		full := filepath.Join(dir, name, f.Path)
		os.MkdirAll(filepath.Dir(full), 0o755)
		os.WriteFile(full, []byte(f.Render()), 0o644)
	}
}

// buildPrograms generates n random programs from per-program seeds (so that a
// single program can be replayed by seed) and builds them in parallel.
func (c *checker) buildPrograms(n int, cfg func(r *rng.R) progs.Config, opt func(r *rng.R) gobuild.Options, withDriver bool) []*built {
	bs := make([]*built, n)
	jobs := make([]*gobuild.Job, n)
	for i := 0; i < n; i++ {
		seed := c.r.U64()
		bs[i] = c.makeProgram(seed, cfg, opt)
		jobs[i] = gobuild.JobFor(bs[i].prog, bs[i].schema, bs[i].opts, withDriver)
		bs[i].job = jobs[i]
	}
	res := c.env.BuildAll(jobs, *par)
	for i := range bs {
		bs[i].res = res[i]
	}
	return bs
}

func (c *checker) makeProgram(seed uint64, cfg func(r *rng.R) progs.Config, opt func(r *rng.R) gobuild.Options) *built {
	r := rng.New(seed)
	b := &built{seed: seed}
	b.opts = opt(r)
	b.prog = progs.Generate(r, cfg(r))
	if b.opts.NonStrict {
		progs.MakeNonStrict(r, b.prog)
	}
	b.prog.Seed = seed
	b.schema = b.prog.Schema()
	return b
}

// checkBuild evaluates the C06 oracle on a built program: accepted by the
// generator ⇒ go build and go vet succeed. Programs of the main stream are
// valid by construction, so a rejection is a failure too. Returns false if the
// program cannot be used further.
func (c *checker) checkBuild(b *built) bool {
	r := b.res
	c.rep.Hist("options", b.opts.String())
	switch {
	case r.Internal != "":
		fatal("internal build pipeline failure: %s", r.Internal)
	case !r.GenOK:
		c.rep.Hist("pipeline", "generator-rejected")
		dumpProgram(*dumpDir, fmt.Sprintf("rejected-%d", b.seed), b.prog)
		c.oracle("C06 valid program rejected", b.id()+"\n"+programText(b.prog), summarize(r.GenOut, 2000),
			"a program that is well-formed and free of Go name clashes by construction was rejected by thriftrw")
		return false
	case !r.BuildOK:
		c.rep.Hist("pipeline", "go-build-failed")
		dumpProgram(*dumpDir, fmt.Sprintf("nobuild-%d", b.seed), b.prog)
		c.oracle("C06 accepted program does not compile", b.id()+"\n"+programText(b.prog), summarize(r.BuildOut, 3000),
			"thriftrw accepted the program but `go build ./...` of its output fails")
		return false
	case !r.VetOK:
		c.rep.Hist("pipeline", "go-vet-failed")
		dumpProgram(*dumpDir, fmt.Sprintf("novet-%d", b.seed), b.prog)
		c.oracle("C06 accepted program fails go vet", b.id()+"\n"+programText(b.prog), summarize(r.VetOut, 3000),
			"thriftrw accepted the program but `go vet` of its output fails")
		return false
	}
	if r.Cached {
		c.rep.Hist("pipeline", "ok-cached")
	} else {
		c.rep.Hist("pipeline", "ok-built")
	}
	return true
}

// shapeHist records the type shapes of a program in the report.
func (c *checker) shapeHist(b *built) {
	for _, t := range b.schema.Types {
		c.rep.Hist("named-type-kind", t.Kind)
	}
	names := make([]string, 0, len(b.schema.Env.Structs))
	for n := range b.schema.Env.Structs {
		names = append(names, n)
	}
	sort.Strings(names)
	for _, n := range names {
		for _, f := range b.schema.Env.Structs[n].Fields {
			sh := f.T.Shape()
			if len(sh) > 40 {
				sh = sh[:40] + "…"
			}
			c.rep.Hist("field-type-shape", sh)
			switch {
			case f.Def != nil:
				c.rep.Hist("field-requiredness", "default")
			case f.Req:
				c.rep.Hist("field-requiredness", "required")
			default:
				c.rep.Hist("field-requiredness", "optional")
			}
		}
	}
}

// runBuildOnly is `--prop build`: the pipeline alone (generator development aid
// and the C06 oracle on main-stream programs).
func runBuildOnly(c *checker) {
	n := pick(50, 300)
	if *programs > 0 {
		n = *programs
	}
	bs := c.buildPrograms(n, func(r *rng.R) progs.Config { return progs.DefaultConfig() }, optionSet, true)
	for _, b := range bs {
		c.rep.Case(b.id(), true)
		if c.checkBuild(b) {
			c.shapeHist(b)
		}
		logf("%s gen=%v build=%v vet=%v cached=%v %.1fs", b.id(), b.res.GenOK, b.res.BuildOK, b.res.VetOK, b.res.Cached, b.res.Seconds)
	}
	c.rep.Rule = "random multi-file programs (valid by construction, known-finding shapes excluded) × option sets; oracle: generator accepts, go build and go vet succeed"
}

func init() { modes["build"] = runBuildOnly }

func jobWithDriver(b *built) *gobuild.Job { return gobuild.JobFor(b.prog, b.schema, b.opts, true) }
