package main

import (
	"fmt"
	"strings"

	"verifharness/internal/gtext"
	"verifharness/internal/refcodec"
	"verifharness/internal/valgen"
	"verifharness/internal/wv"
)

// addBothPaths queues the value-based path, the streaming path and the
// chunked/seekable streaming variants of reader type t on bytes enc (the
// encoding of wire value w); want = expected canonical answer without count
// ("" = no expectation, only the C04 relations).
func (cs *caseSet) addBothPaths(kind string, t *gtext.T, w *wv.V, enc []byte, wantG string, why string, known ...string) {
	tText := t.Text()
	h := hx(enc)
	vw := opCase{Kind: kind + " value path", Impl: "decodevw " + tText + " " + h, Why: why, nontrivial: true}
	st := opCase{Kind: kind + " streaming path", Impl: "decode " + tText + " " + h, Model: "decode " + tText + " " + h, nontrivial: true,
		Why: "an input accepted by the value-based path must be accepted by the streaming path with an equal value"}
	if w != nil {
		vw.Model = "fromwire " + tText + " " + w.Text()
	}
	if wantG != "" {
		vw.Want = wantG
		st.Want, st.Why = wantG, why
		if strings.HasPrefix(wantG, "ok ") {
			st.Want = fmt.Sprintf("ok %d %s", len(enc), wantG[3:])
		}
	}
	kn := ""
	if len(known) > 0 {
		kn = known[0]
	}
	i0 := cs.add(vw)
	st.IfOk, st.Known = i0, kn
	i1 := cs.add(st)
	for _, m := range chunkModes(cs.c.r, len(enc)) {
		cs.add(opCase{Kind: kind + " streaming path [" + strings.SplitN(m, ":", 2)[0] + "]", Impl: "decodec " + tText + " " + h + " " + m, Same: i1, Known: kn,
			Why: "the streaming result must not depend on read segmentation or seekability", nontrivial: true})
	}
}

// structLike lists the top types whose encodings contain structs.
func structTops(b *built) []*gtext.T {
	var out []*gtext.T
	for _, tt := range b.schema.Types {
		has := false
		tt.T.Walk(func(x *gtext.T) {
			if x.K == gtext.KStruct {
				has = true
			}
		})
		if has {
			out = append(out, tt.T)
		}
	}
	return out
}

func outcomeKind(err error) string {
	switch err {
	case nil:
		return "ok"
	case refcodec.ErrRequired:
		return "err-required"
	case refcodec.ErrUnion:
		return "err-union"
	}
	return "err-other"
}

func c05Program(cs *caseSet, nVal int) {
	c, b := cs.c, cs.b
	R := b.schema.Env
	r := c.r.Fork()
	codecR := &refcodec.Codec{Env: R}
	tops := structTops(b)
	rounds := 5
	hist := func(k string) { c.rep.Hist("evolution-step", k) }
	for round := 0; round < rounds; round++ {
		W := evolve(r, R, hist)
		codecW := &refcodec.Codec{Env: W, OmitUnset: func() bool { return r.Chance(1, 2) }}
		vg := valgen.New(W, r)
		for _, t := range tops {
			for i := 0; i < nVal/rounds+1; i++ {
				vg.MaxDepth, vg.MaxLen = r.Pick(1, 2, 3), r.Pick(0, 1, 2, 3)
				g := vg.Value(t)
				w, err := codecW.ToWire(t, g)
				if err != nil {
					fatal("writer-schema value is invalid: %v: %s %s", err, t.Text(), g.Text())
				}
				wp := refcodec.Permute(r, w)
				exp, err := codecR.FromWire(t, wp)
				c.rep.Hist("expected-outcome", "evolved:"+outcomeKind(err))
				want := "err"
				if err == nil {
					want = "ok " + exp.Text()
					if containsNilContainer(R, t, exp) {
						c.rep.Hist("expected-outcome", "evolved:ok-with-nil-container-from-element-type-mismatch")
					}
				}
				cs.addBothPaths("C05 evolved schema", t, wp, wp.Encode(nil), want,
					"decoding under an evolved schema must ignore unknown/retyped fields, fill defaults, and fail iff a required field is absent/mistyped, union arity is violated or a nested value fails")
			}
		}
	}
	// injection of arbitrary extra fields at every struct level of a valid encoding
	omit := &refcodec.Codec{Env: R, OmitUnset: func() bool { return r.Chance(1, 2) }}
	vg := valgen.New(R, r)
	ih := func(k string) { c.rep.Hist("injection", k) }
	for _, t := range tops {
		for i := 0; i < nVal/2+1; i++ {
			vg.MaxDepth, vg.MaxLen = r.Pick(1, 2, 3), r.Pick(0, 1, 2, 3)
			g := vg.Value(t)
			w, err := omit.ToWire(t, g)
			if err != nil {
				fatal("reader-schema value is invalid: %v", err)
			}
			wp := refcodec.Permute(r, w)
			base, err := codecR.FromWire(t, wp)
			if err != nil {
				fatal("reference FromWire failed on a valid encoding: %v", err)
			}
			wi := inject(r, R, t, wp, ih)
			exp, err := codecR.FromWire(t, wi)
			if err != nil || exp.Text() != base.Text() {
				fatal("reference codec: injection of foreign fields changed the result")
			}
			c.rep.Hist("expected-outcome", "injected:ok")
			cs.addBothPaths("C05 injected fields", t, wi, wi.Encode(nil), "ok "+exp.Text(),
				"fields with unknown ids or with a wire type other than the declared one must be skipped without affecting the other fields")
		}
	}
}

// containsNilContainer: the expected value has a nil container where the schema
// has a required container or a container element — the "element type mismatch
// inside a container of the right wire type" case, reported separately.
func containsNilContainer(env *gtext.Env, t *gtext.T, g *gtext.G) bool {
	found := false
	var walk func(t *gtext.T, g *gtext.G, mayBeNil bool)
	walk = func(t *gtext.T, g *gtext.G, mayBeNil bool) {
		root := t.Root()
		if g.IsNil() {
			if !mayBeNil && root.IsRef() && root.K != gtext.KBinary {
				found = true
			}
			return
		}
		switch root.K {
		case gtext.KList, gtext.KSet, gtext.KSSet:
			for _, it := range g.Items {
				walk(root.Elem, it, false)
			}
		case gtext.KMap:
			for i, it := range g.Items {
				if i%2 == 0 {
					walk(root.Key, it, false)
				} else {
					walk(root.Elem, it, false)
				}
			}
		case gtext.KStruct:
			sd := env.Structs[root.Name]
			if sd == nil {
				return
			}
			for i, f := range sd.Fields {
				if i < len(g.Items) {
					walk(f.T, g.Items[i], !f.Req)
				}
			}
		}
	}
	walk(t, g, false)
	return found
}

func runC05(c *checker) {
	if c.replayOrCorpus("C05") {
		return
	}
	nProg, nVal := pick(6, 60), pick(60, 150)
	if *programs > 0 {
		nProg = *programs
	}
	if *values > 0 {
		nVal = *values
	}
	bs := c.buildPrograms(nProg, mainConfig, optionSet, true)
	for _, b := range bs {
		if !c.checkBuild(b) {
			continue
		}
		c.shapeHist(b)
		cs := c.newCaseSet("C05", b)
		c05Program(cs, nVal)
		logf("%s: %d ops", b.id(), len(cs.ops))
		cs.run()
	}
	c.rep.Rule = "reader schema R = a random compiled program; writer schema W = R after random evolution steps on its structs (add/remove field, change type, change requiredness, reorder, change container element types, rename); values of W (reference-encoded, fields permuted, unset defaults written or omitted) through both decoding paths of R under {whole, 1-byte, random incl. zero-length reads, seekable}; plus injection of arbitrary well-formed fields (unknown id, or declared id with another wire type, or a declared field a second time with its own type and value; any type/size; under an unknown id 1 in 8 below 40–300 levels of structs / lists / sets / map values) at every struct level of a valid encoding; expected result = the rule itself evaluated by the harness; non-trivial = every case; distinct by (program, op)"
}

func init() {
	modes["C05"] = runC05
	modeGens["C05"] = modeGen{mainConfig, optionSet}
}
