package main

import (
	"fmt"

	"verifharness/internal/gtext"
	"verifharness/internal/refcodec"
	"verifharness/internal/rng"
	"verifharness/internal/valgen"
	"verifharness/internal/wv"
)

// mutateBytes applies a few grammar-aware byte-level mutations.
func mutateBytes(r *rng.R, b []byte) []byte {
	b = append([]byte{}, b...)
	n := 1 + r.Intn(3)
	for k := 0; k < n; k++ {
		if len(b) == 0 {
			b = append(b, byte(r.U64()))
			continue
		}
		i := r.Intn(len(b))
		switch r.Intn(10) {
		case 0:
			b[i] ^= 1 << uint(r.Intn(8))
		case 1:
			b[i] = byte(r.U64())
		case 2:
			b[i] = wv.AllTypes[r.Intn(len(wv.AllTypes))]
		case 3: // 4-byte length/count edit (small values: declared counts stay ≤ 2^16 in this stream)
			if i+4 <= len(b) {
				vals := [][]byte{{0xff, 0xff, 0xff, 0xff}, {0x80, 0, 0, 0}, {0, 0, 0, 0}, {0, 0, 0, 1}, {0, 0, 0, 2}, {0, 0, 1, 0}, {0, 1, 0, 0}}
				copy(b[i:], vals[r.Intn(len(vals))])
			}
		case 4:
			b = b[:i] // truncate
		case 5:
			b = append(b[:i], append([]byte{byte(r.U64())}, b[i:]...)...) // insert
		case 6:
			b = append(b[:i], b[i+1:]...) // delete
		case 7:
			b[i] = []byte{0, 1, 2, 0xff, 0x80}[r.Intn(5)]
		case 8:
			b = append(b, r.Bytes(r.Intn(4))...)
		case 9: // duplicate a slice of the message (repeated fields / elements)
			j := i + r.Intn(len(b)-i+1)
			dup := append([]byte{}, b[i:j]...)
			b = append(b[:j], append(dup, b[j:]...)...)
		}
	}
	return b
}

// genericStruct makes an arbitrary wire struct whose field ids are mostly the declared ones.
func genericStruct(r *rng.R, sd *gtext.StructDef) *wv.V {
	v := &wv.V{T: wv.TStruct}
	n := r.Intn(5)
	for i := 0; i < n; i++ {
		cfg := wv.GenCfg{MaxDepth: 1 + r.Intn(3), MaxLen: r.Pick(0, 1, 2, 3), MaxBin: r.Pick(0, 1, 4, 12)}
		id := uint16(r.Intn(40))
		wt := wv.AllTypes[r.Intn(len(wv.AllTypes))]
		if sd != nil && len(sd.Fields) > 0 && r.Chance(3, 4) {
			f := sd.Fields[r.Intn(len(sd.Fields))]
			id = uint16(f.ID)
			if r.Chance(2, 3) {
				wt = f.T.Code()
			}
		}
		x := wv.Gen(r, wt, cfg, 0)
		if r.Chance(1, 10) {
			// below 40–300 levels of structs, lists, sets and map values: what one path walks through
			// the other may have to skip
			x = deepWrap(r, x, 40+r.Intn(261))
		}
		v.Fields = append(v.Fields, wv.Field{ID: id, V: x})
	}
	return v
}

func c04Program(cs *caseSet, nVal int) {
	c, b := cs.c, cs.b
	R := b.schema.Env
	r := c.r.Fork()
	codecR := &refcodec.Codec{Env: R, OmitUnset: func() bool { return r.Chance(1, 2) }}
	vgR := valgen.New(R, r)
	hist := func(string) {}
	W := evolve(r, R, hist)
	codecW := &refcodec.Codec{Env: W, OmitUnset: func() bool { return r.Chance(1, 2) }}
	vgW := valgen.New(W, r)
	why := "an input accepted by the value-based path must be accepted by the streaming path with an equal value"
	for _, tt := range b.schema.Types {
		t := tt.T
		code := t.Code()
		n := nVal
		if t.IsPrim() {
			n = nVal/8 + 1
		}
		for i := 0; i < n; i++ {
			var enc []byte
			how := ""
			vgR.MaxDepth, vgR.MaxLen = r.Pick(1, 2, 3), r.Pick(0, 1, 2, 3)
			vgW.MaxDepth, vgW.MaxLen = vgR.MaxDepth, vgR.MaxLen
			switch k := r.Intn(3); {
			case k == 0:
				w, err := codecR.ToWire(t, vgR.Value(t))
				if err != nil {
					fatal("invalid generated value: %v", err)
				}
				enc, how = refcodec.Permute(r, w).Encode(nil), "valid"
			case k == 1:
				w, err := codecW.ToWire(t, vgW.Value(t))
				if err != nil {
					fatal("invalid generated writer value: %v", err)
				}
				enc, how = refcodec.Permute(r, w).Encode(nil), "evolved"
			default:
				if t.Root().K == gtext.KStruct {
					enc, how = genericStruct(r, R.Structs[t.Root().Name]).Encode(nil), "generic-struct"
				} else {
					cfg := wv.GenCfg{MaxDepth: 1 + r.Intn(3), MaxLen: r.Pick(0, 1, 2, 3), MaxBin: r.Pick(0, 1, 4, 12)}
					enc, how = wv.Gen(r, code, cfg, 0).Encode(nil), "generic-value"
				}
			}
			if r.Chance(3, 5) {
				enc, how = mutateBytes(r, enc), how+"+mutated"
			}
			if refcodec.MaxDeclaredCount(code, enc) > 1<<16 {
				c.rep.Hist("byte-input", "dropped: declared count > 2^16 (C13's domain)")
				continue
			}
			c.rep.Hist("byte-input", how)
			// if the bytes are well-formed, the model can also be asked about the value path
			var w *wv.V
			if v, _, err := refcodec.Decode(code, enc); err == nil {
				w = v
				c.rep.Hist("byte-input-wellformed", "yes")
			} else {
				c.rep.Hist("byte-input-wellformed", "no")
			}
			known := ""
			if w == nil && t.Root().K != gtext.KStruct && !t.IsPrim() {
				// Finding D22 (protocol level, C03's seek-past-end class): a truncated container whose
				// elements are skipped by offset arithmetic / Seek is accepted by the value path and by a
				// seekable stream but rejected by a non-seekable stream. Reachable in generated code only
				// through typedefs of containers decoded at top level with mismatching element types;
				// malformed inputs for such types are a probe of that finding, not part of the main stream.
				known = "D22"
				c.rep.Hist("byte-input", "probe-D22:malformed-input-for-top-level-container-typedef")
			}
			cs.addBothPaths("C04", t, w, enc, "", why, known)
		}
		// serialiser agreement on Go values, valid and schema-violating
		for i := 0; i < n/2+1; i++ {
			vgR.MaxDepth, vgR.MaxLen = r.Pick(1, 2, 3), r.Pick(0, 1, 2, 3)
			g := vgR.Value(t)
			kind := "valid"
			if r.Chance(1, 2) {
				if gi, what, ok := vgR.Invalidate(t, g); ok {
					g, kind = gi, "invalid:"+what
				}
			}
			c.rep.Hist("go-value", kind)
			gt := g.Text()
			canon := fmt.Sprintf("hex:%d", code)
			i0 := cs.add(opCase{Kind: "C04 Encode", Impl: "encode " + t.Text() + " " + gt, Model: "encode " + t.Text() + " " + gt, Canon: canon, nontrivial: true})
			cs.add(opCase{Kind: "C04 ToWire+binary.Encode vs Encode", Impl: "towireenc " + t.Text() + " " + gt, Canon: canon, Same: i0, nontrivial: true,
				Why: "the streaming and value-based serialisers must both fail or produce encodings that decode to equal values"})
		}
	}
}

func runC04(c *checker) {
	if c.replayOrCorpus("C04") {
		return
	}
	nProg, nVal := pick(6, 60), pick(100, 250)
	if *programs > 0 {
		nProg = *programs
	}
	if *values > 0 {
		nVal = *values
	}
	bs := c.buildPrograms(nProg, mainConfig, optionSet, true)
	for _, b := range bs {
		if !c.checkBuild(b) {
			continue
		}
		c.shapeHist(b)
		cs := c.newCaseSet("C04", b)
		c04Program(cs, nVal)
		logf("%s: %d ops", b.id(), len(cs.ops))
		cs.run()
	}
	c.repoPackages()
	c.rep.Rule = "per named type of random compiled programs and of the repository's own generated packages: byte strings = {valid reference encodings, encodings under an evolved writer schema, arbitrary wire structs over the declared field ids, one field in ten below 40–300 levels of containers} and grammar-aware mutations thereof (bit/byte flips, type-byte swaps, length/count edits, insert/delete/duplicate/truncate/append; declared counts ≤ 2^16) × {value path FromWire∘Decode, streaming Decode whole / 1-byte / random incl. zero-length reads / seekable}; Go values valid and broken at one schema rule × {Encode, ToWire+binary.Encode}; oracle: value path ok ⇒ streaming ok with equal value, streaming independent of segmentation and seekability, serialisers both fail or decode to equal values; non-trivial = every case; distinct by (program, op)"
}

func init() {
	modes["C04"] = runC04
	modeGens["C04"] = modeGen{mainConfig, optionSet}
}
