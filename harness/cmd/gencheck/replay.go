package main

import (
	"bufio"
	"encoding/json"
	"os"
	"path/filepath"
	"sort"
	"strings"

	"verifharness/internal/gobuild"
	"verifharness/internal/gtext"
	"verifharness/internal/progs"
	"verifharness/internal/rng"
)

// modeGen tells how a mode generates its programs (to regenerate one from its seed).
type modeGen struct {
	cfg func(*rng.R) progs.Config
	opt func(*rng.R) gobuild.Options
}

var modeGens = map[string]modeGen{}

// special replay handlers for inputs that are not op batches (C06, C10, C19 …).
var replayHandlers = map[string]func(c *checker, raw string) bool{}

// replayInput re-runs one replayable input (the `input` of a disagreement or a corpus line).
func (c *checker) replayInput(raw string) {
	raw = strings.TrimSpace(raw)
	if raw == "" || !strings.HasPrefix(raw, "{") {
		return // comments and lines of other tools sharing the corpus directory
	}
	var rc replayCase
	if err := json.Unmarshal([]byte(raw), &rc); err != nil {
		c.rep.Notes = append(c.rep.Notes, "unreadable replay input skipped: "+summarize(raw, 80))
		return
	}
	if h, ok := replayHandlers[rc.Mode]; ok && h(c, raw) {
		return
	}
	var b *built
	if len(rc.Files) > 0 {
		job := &gobuild.Job{Files: rc.Files, Order: rc.Order, Opts: rc.Opts}
		if rc.DrvMain != "" {
			job.Lib = gobuild.LibFiles()
			job.Extra = map[string]string{"drv/main.go": rc.DrvMain}
			job.Binary = "./drv"
		}
		env := gtext.NewEnv()
		for _, l := range rc.Preamble {
			if l == "reset" {
				continue
			}
			if err := env.Define(strings.Fields(l)); err == nil {
				env.Order = append(env.Order, l)
			}
		}
		b = &built{seed: rc.Seed, opts: rc.Opts, job: job, schema: &progs.Schema{Env: env}}
		b.res = c.env.Build(job)
	} else {
		mg, ok := modeGens[rc.Mode]
		if !ok {
			c.rep.Notes = append(c.rep.Notes, "replay input of unknown mode skipped: "+rc.Mode)
			return
		}
		b = c.makeProgram(rc.Seed, mg.cfg, func(*rng.R) gobuild.Options { return rc.Opts })
		b.opts = rc.Opts
		b.job = gobuild.JobFor(b.prog, b.schema, b.opts, true)
		b.res = c.env.Build(b.job)
	}
	c.rep.Hist("how", "replay")
	if !c.checkBuild(b) {
		return
	}
	cs := c.newCaseSet(rc.Mode, b)
	for _, o := range rc.Ops {
		o.nontrivial = true
		cs.add(o)
	}
	cs.run()
}

func (c *checker) replayFile(path string) {
	fh, err := os.Open(path)
	if err != nil {
		return
	}
	defer fh.Close()
	if strings.HasSuffix(path, ".json") {
		var doc struct {
			Disagreements []struct {
				Input string `json:"input"`
			} `json:"disagreements"`
		}
		if json.NewDecoder(fh).Decode(&doc) == nil && len(doc.Disagreements) > 0 {
			for _, d := range doc.Disagreements {
				c.replayInput(d.Input)
			}
			return
		}
		fh.Seek(0, 0)
	}
	sc := bufio.NewScanner(fh)
	sc.Buffer(make([]byte, 1<<20), 1<<28)
	for sc.Scan() {
		c.replayInput(sc.Text())
	}
}

// replayOrCorpus handles --replay (returns true: nothing else to do) or replays
// the corpus directory first (returns false).
func (c *checker) replayOrCorpus(mode string) bool {
	if *replay != "" {
		c.replayFile(*replay)
		c.rep.Rule = "replay of " + *replay
		return true
	}
	if *corpus != "" {
		files, _ := filepath.Glob(filepath.Join(*corpus, "*"))
		sort.Strings(files)
		for _, f := range files {
			c.replayFile(f)
		}
		c.rep.Hist("how", "corpus-files:"+itoa(len(files)))
	}
	return false
}

func itoa(n int) string {
	b, _ := json.Marshal(n)
	return string(b)
}
