package main

import (
	"fmt"
	"strings"

	"verifharness/internal/gobuild"
	"verifharness/internal/gtext"
	"verifharness/internal/progs"
	"verifharness/internal/refcodec"
	"verifharness/internal/rng"
	"verifharness/internal/valgen"
)

func mainConfig(r *rng.R) progs.Config {
	cfg := progs.DefaultConfig()
	cfg.Files = r.Pick(1, 2, 3, 3, 4)
	return small(cfg)
}

// chunkModes are the read segmentations every decode is run under.
func chunkModes(r *rng.R, n int) []string {
	modes := []string{"one", "seek"}
	var sizes []string
	for left := n; left > 0; {
		k := r.Intn(7) // includes zero-length reads
		if r.Chance(1, 8) {
			k = r.Intn(left + 1)
		}
		sizes = append(sizes, fmt.Sprint(k))
		left -= k
	}
	if len(sizes) == 0 {
		sizes = []string{"0"}
	}
	return append(modes, "c:"+strings.Join(sizes, ","))
}

// addDecodes queues `decode` (compared with the model) and its chunked /
// seekable variants (implementation only) for bytes b, all expected to give want.
func (cs *caseSet) addDecodes(kind, tText string, b []byte, want, why string, nt bool) int {
	h := hx(b)
	first := cs.add(opCase{Kind: kind, Impl: "decode " + tText + " " + h, Model: "decode " + tText + " " + h, Want: want, Why: why, nontrivial: nt})
	for _, m := range chunkModes(cs.c.r, len(b)) {
		cs.add(opCase{Kind: kind + " [" + strings.SplitN(m, ":", 2)[0] + "]", Impl: "decodec " + tText + " " + h + " " + m, Want: want, Same: first,
			Why: why + " (the result must not depend on read segmentation or seekability)", nontrivial: nt})
	}
	return first
}

func c01Program(cs *caseSet, nVal int) {
	c, b := cs.c, cs.b
	env := b.schema.Env
	codec := &refcodec.Codec{Env: env}
	r := c.r.Fork()
	vg := valgen.New(env, r)
	omit := &refcodec.Codec{Env: env, OmitUnset: func() bool { return r.Chance(2, 3) }}
	for _, tt := range b.schema.Types {
		tText := tt.T.Text()
		code := tt.T.Code()
		n := nVal
		if tt.T.IsPrim() {
			n = nVal/6 + 1
		}
		var kept []*gtext.G
		for i := 0; i < n; i++ {
			vg.MaxDepth, vg.MaxLen = r.Pick(1, 2, 3), r.Pick(0, 1, 2, 4)
			g := vg.Value(tt.T)
			refW, err := codec.ToWire(tt.T, g)
			if err != nil {
				fatal("value generator produced an invalid value of %s: %v: %s", tText, err, g.Text())
			}
			nt := g.Nodes() > 1
			c.rep.Hist("value", "valid "+tt.Kind)
			if len(kept) < 6 {
				kept = append(kept, g)
			}
			if i == 0 && len(c.rep.Samples) < 8 {
				c.rep.Sample("towire " + tText + " " + g.Text())
			}
			wantW := "ok " + refcodec.Canon(refW).Text()
			gt := g.Text()
			cs.add(opCase{Kind: "C01 ToWire", Impl: "towire " + tText + " " + gt, Model: "towire " + tText + " " + gt, Canon: "w", Want: wantW,
				Why: "the wire value produced by ToWire is not the reference encoding of the value (defaults filled)", nontrivial: nt})
			cs.add(opCase{Kind: "C01 Encode", Impl: "encode " + tText + " " + gt, Model: "encode " + tText + " " + gt, Canon: fmt.Sprintf("hex:%d", code), Want: wantW,
				Why: "the bytes written by Encode do not decode, with the reference decoder, to the logical value", nontrivial: nt})
			// a reference encoding may leave out unset optional fields that have defaults
			refW2, err := omit.ToWire(tt.T, g)
			if err != nil {
				fatal("reference ToWire (omitting unset defaults) failed: %v", err)
			}
			wp := refcodec.Permute(r, refW2)
			expG, err := codec.FromWire(tt.T, wp)
			if err != nil {
				fatal("reference FromWire failed on a reference encoding of %s: %v", tText, err)
			}
			cs.add(opCase{Kind: "C01 FromWire", Impl: "fromwire " + tText + " " + wp.Text(), Model: "fromwire " + tText + " " + wp.Text(), Want: "ok " + expG.Text(),
				Why: "FromWire of a (permuted) reference encoding is not the value with defaults filled", nontrivial: nt})
			enc := wp.Encode(nil)
			cs.addDecodes("C01 Decode", tText, enc, fmt.Sprintf("ok %d %s", len(enc), expG.Text()),
				"Decode of a (permuted) reference encoding is not the value with defaults filled", nt)
			if i%4 == 1 {
				cs.add(opCase{Kind: "C01 Decode+FromWire", Impl: "decodevw " + tText + " " + hx(enc), Want: "ok " + expG.Text(),
					Why: "binary.Decode + FromWire of a (permuted) reference encoding is not the value with defaults filled", nontrivial: nt})
			}
			if i%3 == 0 {
				if gi, what, ok := vg.Invalidate(tt.T, g); ok {
					if _, err := codec.ToWire(tt.T, gi); err == nil {
						fatal("invalidated value is still valid (%s): %s %s", what, tText, gi.Text())
					}
					c.rep.Hist("value", "invalid "+what)
					it := gi.Text()
					cs.add(opCase{Kind: "C01 ToWire rejects", Impl: "towire " + tText + " " + it, Model: "towire " + tText + " " + it, Canon: "w", Want: "err",
						Why: "a schema-violating value (" + what + ") was serialised by ToWire instead of being reported", nontrivial: true})
					cs.add(opCase{Kind: "C01 Encode rejects", Impl: "encode " + tText + " " + it, Model: "encode " + tText + " " + it, Canon: fmt.Sprintf("hex:%d", code), Want: "err",
						Why: "a schema-violating value (" + what + ") was serialised by Encode instead of being reported", nontrivial: true})
					// … and through the value path to bytes: ToWire may hand out lazy containers whose
					// violation only shows when the protocol's writer goes through them
					cs.add(opCase{Kind: "C01 ToWire+protocol.Encode rejects", Impl: "towireenc " + tText + " " + it, Want: "err",
						Why: "a schema-violating value (" + what + ") went through ToWire and the protocol's Encode without an error", nontrivial: true})
					// … after which the same path must serve a valid value as if nothing had happened
					cs.add(opCase{Kind: "C01 ToWire+protocol.Encode after a rejected value", Impl: "towireenc " + tText + " " + gt, Canon: fmt.Sprintf("hex:%d", code), Want: wantW,
						Why: "the bytes written by ToWire + the protocol's Encode, right after that path rejected another value, do not decode to the logical value", nontrivial: true})
				}
			}
		}
		sd := env.Structs[tt.Name]
		if sd == nil {
			continue
		}
		c01Big(cs, vg, codec, tt.T, sd)
		c01Deep(cs, vg, codec, tt.T, sd)
		// a nil slice in a REQUIRED list field is the empty list — also when the field's type is a
		// typedef (chain) of a list: one value per such field
		for idx, f := range sd.Fields {
			if !f.Req || !f.T.IsList() || len(kept) == 0 || kept[0].IsNil() || len(kept[0].Items) != len(sd.Fields) {
				continue
			}
			g := &gtext.G{K: kept[0].K, Items: append([]*gtext.G(nil), kept[0].Items...)}
			g.Items[idx] = gtext.Nil()
			refW, err := codec.ToWire(tt.T, g)
			if err != nil {
				continue // (a union: setting the field to nil leaves no member set)
			}
			c.rep.Hist("value", "nil slice in a required list field")
			wantW := "ok " + refcodec.Canon(refW).Text()
			gt := g.Text()
			cs.add(opCase{Kind: "C01 ToWire", Impl: "towire " + tText + " " + gt, Model: "towire " + tText + " " + gt, Canon: "w", Want: wantW,
				Why: "a nil slice in a required list field must serialise as the empty list (ToWire)", nontrivial: true})
			cs.add(opCase{Kind: "C01 Encode", Impl: "encode " + tText + " " + gt, Model: "encode " + tText + " " + gt, Canon: fmt.Sprintf("hex:%d", code), Want: wantW,
				Why: "a nil slice in a required list field must serialise as the empty list (Encode)", nontrivial: true})
		}
		// Default_<T>
		want := "none"
		if sd.HasDefaults() {
			d := &gtext.G{K: gtext.GStruct}
			for _, f := range sd.Fields {
				if f.Def != nil {
					d.Items = append(d.Items, f.Def)
				} else if f.Req && f.T.IsPrim() {
					d.Items = append(d.Items, refcodec.Zero(f.T))
				} else {
					d.Items = append(d.Items, gtext.Nil())
				}
			}
			want = "ok " + d.Text()
		}
		cs.add(opCase{Kind: "C01 Default_", Impl: "default " + tt.Name, Model: "default " + tt.Name, Want: want,
			Why: "the default constructor does not yield the IDL defaults cast to the field types", nontrivial: sd.HasDefaults()})
		// accessors on nil and on a few values
		recvs := append([]*gtext.G{gtext.Nil()}, kept...)
		for _, recv := range recvs {
			for idx, f := range sd.Fields {
				cur := gtext.Nil()
				if !recv.IsNil() {
					cur = recv.Items[idx]
				}
				exp := cur
				if cur.IsNil() {
					if f.Def != nil {
						exp = f.Def
					} else {
						exp = refcodec.Zero(f.T)
					}
				}
				op := fmt.Sprintf("get %s %d %s", tt.Name, idx, recv.Text())
				cs.add(opCase{Kind: "C01 Get", Impl: op, Model: op, Want: "ok " + exp.Text(),
					Why: "the accessor does not return the field value, else its declared default, else the zero value", nontrivial: true})
				op = fmt.Sprintf("isset %s %d %s", tt.Name, idx, recv.Text())
				if f.Req && f.T.IsPrim() {
					cs.add(opCase{Kind: "C01 IsSet", Impl: op, Want: "nomethod", Why: "IsSet generated for a required primitive field"})
				} else {
					w := "ok 0"
					if !cur.IsNil() {
						w = "ok 1"
					}
					cs.add(opCase{Kind: "C01 IsSet", Impl: op, Model: op, Want: w, Why: "IsSet does not report whether the field is non-nil", nontrivial: true})
				}
			}
		}
	}
	for _, ci := range b.schema.Consts {
		c.rep.Hist("constant-shape", shorten(ci.T.Shape(), 40))
		cs.add(opCase{Kind: "C01 constant", Impl: "const " + ci.Name + " " + ci.T.Text(), Want: "ok " + ci.G.Text(),
			Why: "the generated constant is not the IDL literal cast to the declared type", nontrivial: true})
	}
}

// bigLeft is how many more over-threshold payload cases this run adds: a
// string/binary longer than 1 MiB takes a separate read path in the codec, and
// what follows it in the encoding must still be read correctly.
var bigLeft = 2

func c01Big(cs *caseSet, vg *valgen.Gen, codec *refcodec.Codec, t *gtext.T, sd *gtext.StructDef) {
	if bigLeft == 0 || sd.Arity() != 0 || len(sd.Fields) < 2 {
		return
	}
	at := -1
	for i, f := range sd.Fields {
		if k := f.T.Root().K; (k == gtext.KString || k == gtext.KBinary) && i+1 < len(sd.Fields) {
			at = i
			break
		}
	}
	if at < 0 {
		return
	}
	r := cs.c.r
	vg.MaxDepth, vg.MaxLen = 2, 2
	g := vg.Value(t)
	if g.IsNil() || len(g.Items) != len(sd.Fields) {
		return
	}
	big := make([]byte, 1<<20+1+r.Intn(6000))
	for i := range big {
		big[i] = byte('a' + i%23)
	}
	if sd.Fields[at].T.Root().K == gtext.KString {
		g.Items[at] = gtext.Str(big)
	} else {
		g.Items[at] = gtext.Bin(big)
	}
	refW, err := codec.ToWire(t, g)
	if err != nil {
		return
	}
	bigLeft--
	cs.c.rep.Hist("value", "payload over 1 MiB")
	tText, gt := t.Text(), g.Text()
	wantW := "ok " + refcodec.Canon(refW).Text()
	cs.add(opCase{Kind: "C01 ToWire", Impl: "towire " + tText + " " + gt, Model: "towire " + tText + " " + gt, Canon: "w", Want: wantW,
		Why: "the wire value produced by ToWire is not the reference encoding of the value (payload over 1 MiB)", nontrivial: true})
	cs.add(opCase{Kind: "C01 Encode", Impl: "encode " + tText + " " + gt, Canon: fmt.Sprintf("hex:%d", t.Code()), Want: wantW,
		Why: "the bytes written by Encode do not decode, with the reference decoder, to the logical value (payload over 1 MiB)", nontrivial: true})
	expG, err := codec.FromWire(t, refW)
	if err != nil {
		fatal("reference FromWire failed on a reference encoding of %s: %v", tText, err)
	}
	cs.add(opCase{Kind: "C01 FromWire", Impl: "fromwire " + tText + " " + refW.Text(), Want: "ok " + expG.Text(),
		Why: "FromWire of a reference encoding is not the value (payload over 1 MiB)", nontrivial: true})
	enc := refW.Encode(nil)
	cs.addDecodes("C01 Decode", tText, enc, fmt.Sprintf("ok %d %s", len(enc), expG.Text()),
		"Decode of a reference encoding holding a payload over 1 MiB, followed by further fields, is not the value", true)
}

// deepLeft is how many more deeply nested values this run adds: through a list of the struct's own
// kind, and through a field of its own kind.
var deepLeft = map[bool]int{true: 3, false: 2}

// c01Deep: a VALID value of a struct that contains itself (through an optional field of its own
// type, or a list of it), nested 70 to 200 levels deep — every codec path has to take it, as it takes
// the shallow ones (depth limits belong to hostile input, C03/C13, not to valid values).
func c01Deep(cs *caseSet, vg *valgen.Gen, codec *refcodec.Codec, t *gtext.T, sd *gtext.StructDef) {
	if sd.Arity() != 0 {
		return
	}
	at, viaList := -1, false
	for i, f := range sd.Fields {
		if f.Req {
			continue
		}
		rt := f.T.Root()
		if rt.K == gtext.KList && rt.Elem != nil && rt.Elem.Root().K == gtext.KStruct && rt.Elem.Root().Name == sd.Name {
			at, viaList = i, true
			break
		}
		if rt.K == gtext.KStruct && rt.Name == sd.Name && at < 0 {
			at = i
		}
	}
	if at < 0 || deepLeft[viaList] == 0 {
		return
	}
	r := cs.c.r
	vg.MaxDepth, vg.MaxLen = 1, 1
	base := vg.Value(t)
	if base.IsNil() || len(base.Items) != len(sd.Fields) {
		return
	}
	base.Items[at] = gtext.Nil()
	depth := r.Pick(70, 100, 130, 200)
	cur := base
	for d := 0; d < depth; d++ {
		nxt := base.Clone()
		if viaList {
			nxt.Items[at] = &gtext.G{K: gtext.GList, Items: []*gtext.G{cur}}
		} else {
			nxt.Items[at] = cur
		}
		cur = nxt
	}
	g := cur
	refW, err := codec.ToWire(t, g)
	if err != nil {
		return
	}
	deepLeft[viaList]--
	cs.c.rep.Hist("value", fmt.Sprintf("valid, nested %d levels (through a list: %v)", depth, viaList))
	tText, gt := t.Text(), g.Text()
	wantW := "ok " + refcodec.Canon(refW).Text()
	cs.add(opCase{Kind: "C01 ToWire", Impl: "towire " + tText + " " + gt, Canon: "w", Want: wantW,
		Why: "the wire value produced by ToWire is not the reference encoding of the value (deeply nested valid value)", nontrivial: true})
	cs.add(opCase{Kind: "C01 Encode", Impl: "encode " + tText + " " + gt, Canon: fmt.Sprintf("hex:%d", t.Code()), Want: wantW,
		Why: "the bytes written by Encode do not decode, with the reference decoder, to the logical value (deeply nested valid value)", nontrivial: true})
	cs.add(opCase{Kind: "C01 ToWire+protocol.Encode", Impl: "towireenc " + tText + " " + gt, Canon: fmt.Sprintf("hex:%d", t.Code()), Want: wantW,
		Why: "the bytes written by ToWire + the protocol's Encode do not decode to the logical value (deeply nested valid value)", nontrivial: true})
	expG, err := codec.FromWire(t, refW)
	if err != nil {
		fatal("reference FromWire failed on a reference encoding of %s: %v", tText, err)
	}
	enc := refW.Encode(nil)
	cs.addDecodes("C01 Decode", tText, enc, fmt.Sprintf("ok %d %s", len(enc), expG.Text()),
		fmt.Sprintf("Decode of the reference encoding of a valid value nested %d levels deep is not the value", depth), true)
	// … and the value path from the same bytes: the protocol's random-access Decode, then FromWire
	cs.add(opCase{Kind: "C01 Decode+FromWire", Impl: "decodevw " + tText + " " + hx(enc), Want: "ok " + expG.Text(),
		Why: fmt.Sprintf("binary.Decode + FromWire of the reference encoding of a valid value nested %d levels deep is not the value", depth), nontrivial: true})
}

func shorten(s string, n int) string {
	if len(s) > n {
		return s[:n] + "…"
	}
	return s
}

func runC01(c *checker) {
	if c.replayOrCorpus("C01") {
		return
	}
	nProg, nVal := pick(8, 90), pick(100, 200)
	if *programs > 0 {
		nProg = *programs
	}
	if *values > 0 {
		nVal = *values
	}
	bs := c.buildPrograms(nProg, mainConfig, optionSet, true)
	for _, b := range bs {
		if !c.checkBuild(b) {
			continue
		}
		c.shapeHist(b)
		cs := c.newCaseSet("C01", b)
		c01Program(cs, nVal)
		logf("%s: %d ops", b.id(), len(cs.ops))
		cs.run()
	}
	c01NegZeroProbe(c)
	c.rep.Rule = "programs: random multi-file abstract programs (all base types, nested containers incl. unhashable keys and slice sets, typedef chains, enums with gaps/negatives, structs/unions/exceptions, defaults, constants, services with inheritance, go.* annotations) × CLI option sets; per named type (struct, union, exception, typedef, enum, args, result): random valid Go values (nil vs empty, unset vs set, extreme scalars, NaN outside keys) → ToWire/Encode vs reference encoding, permuted reference encoding → FromWire / Decode / binary.Decode+FromWire under {whole, 1-byte, random incl. zero-length reads, seekable}; every third value broken at one schema rule → both serialisers must fail, also ToWire followed by the protocol's Encode, after which that path must serve the valid value again; valid values of self-containing structs nested 70–200 levels deep; Default_*, Get*/IsSet* on nil and non-nil receivers, every constant; non-trivial = value with more than one node / invalid value / accessor; distinct by (program, op)"
}

func init() { modes["C01"] = runC01 }

var _ = gobuild.Options{}

func init() {
	modeGens["C01"] = modeGen{mainConfig, optionSet}
}

// small shrinks a configuration when a corpus sample is being made.
func small(cfg progs.Config) progs.Config {
	if *mkCorpus != "" {
		cfg.Files, cfg.Defs, cfg.Consts, cfg.Services, cfg.Funcs = 2, 4, 3, 1, 3
	}
	return cfg
}

// c01NegZeroProbe: known finding D76. A double literal -0.0 in a constant or a default value is
// written into the generated code as `-0`, which Go evaluates to +0 (the language has no
// negative-zero constant): the generated constant, Default_*, Get* and the default the
// serialisers write differ from the IDL literal in the sign bit. The fixed program below is run
// through the ordinary C01 operations with every failure attributed to D76.
func c01NegZeroProbe(c *checker) {
	f := &progs.File{Path: "negzero.thrift"}
	dbl := func() *progs.Type { return &progs.Type{K: progs.Double} }
	nz := func() *progs.Lit { return &progs.Lit{K: progs.LDouble, D: "-0.0"} }
	f.Consts = []*progs.Constant{
		{File: f, Name: "NEG_ZERO", Type: dbl(), Value: nz()},
		{File: f, Name: "ZEROS", Type: &progs.Type{K: progs.List, Elem: dbl()}, Value: &progs.Lit{K: progs.LList, Items: []*progs.Lit{nz(), {K: progs.LDouble, D: "0.0"}}}},
	}
	f.Defs = []*progs.Def{{File: f, Name: "Holder", Kind: progs.Struct, Index: 0, Fields: []*progs.Field{
		{ID: 1, Name: "d", Req: progs.Optional, Type: dbl(), Default: nz()},
		{ID: 2, Name: "plain", Req: progs.Optional, Type: dbl()}}}}
	prog := &progs.Program{Files: []*progs.File{f}, Root: f}
	b := &built{seed: 0, prog: prog}
	b.schema = prog.Schema()
	b.job = gobuild.JobFor(prog, b.schema, b.opts, true)
	b.res = c.env.BuildAll([]*gobuild.Job{b.job}, 1)[0]
	if b.res.Internal != "" || !b.res.GenOK || !b.res.BuildOK {
		c.rep.Notes = append(c.rep.Notes, "D76 probe: the probe program did not build: "+summarize(b.res.GenOut+b.res.BuildOut, 300))
		return
	}
	before := len(c.rep.Known)
	cs := c.newCaseSet("C01", b)
	c01Program(cs, 24)
	for i := range cs.ops {
		cs.ops[i].Known = "D76"
	}
	c.rep.Hist("how", "D76 probe (negative-zero literals)")
	cs.run()
	if len(c.rep.Known) == before {
		c.rep.Notes = append(c.rep.Notes, "D76 probe: no operation on the negative-zero program failed — the finding appears to be repaired; known_findings.json should say so")
	}
}
