package main

import (
	"encoding/json"
	"fmt"
	"strings"

	"verifharness/internal/gobuild"
	"verifharness/internal/progs"
	"verifharness/internal/report"
	"verifharness/internal/rng"
)

type c06Case struct {
	seed uint64
	prog *progs.Program
	inj  progs.Injection
	opts gobuild.Options
	job  *gobuild.Job
	res  *gobuild.Result
}

func c06Config(r *rng.R) progs.Config {
	cfg := progs.DefaultConfig()
	cfg.Files = r.Pick(1, 2, 3)
	cfg.Defs = 6
	cfg.Consts = 3
	cfg.AnnotPct = 25
	return cfg
}

// makeC06 builds the program of a seed: a valid base program plus one injection.
func makeC06(seed uint64) *c06Case {
	r := rng.New(seed)
	cs := &c06Case{seed: seed, opts: optionSet(r)}
	// the injection is chosen by the seed (runC06 hands out seeds that rotate through all of
	// them); base programs are drawn until one has a place for it
	want := int(seed % uint64(progs.NumInjections))
	if cs.opts.NoEmbedIDL && r.Chance(1, 2) {
		// without the embedded IDL a file may have nothing at all to generate: half of these runs
		// get such a file (instead of the injection whose turn it is)
		want = progs.InjectionIndex("file-that-renders-nothing")
		if r.Bool() {
			// … or a constant whose package is needed for nothing but a value that is written out in place
			want = progs.InjectionIndex("default-from-a-constant-of-a-package-used-for-nothing-else")
		}
	}
	for try := 0; try < 40 && cs.inj.Name == ""; try++ {
		cfg := c06Config(r)
		if try > 0 && try%2 == 1 {
			cfg.Files = 3 // injections that need includes, services or exceptions
		}
		cs.prog = progs.Generate(r, cfg)
		if inj, ok := progs.InjectAt(r, cs.prog, want); ok {
			cs.inj = inj
		}
	}
	for try := 0; try < 50 && cs.inj.Name == ""; try++ {
		if inj, ok := progs.Inject(r, cs.prog); ok {
			cs.inj = inj
		}
	}
	if cs.inj.Name == "" {
		cs.inj = progs.Injection{Name: "none", Class: "A", What: "no injection"}
	}
	cs.job = gobuild.JobFor(cs.prog, nil, cs.opts, false)
	return cs
}

func (c *checker) c06Input(cs *c06Case) string {
	rc := replayCase{Mode: "C06", Seed: cs.seed, Opts: cs.opts, Files: cs.job.Files, Order: cs.job.Order, Class: cs.inj.Class, Note: cs.inj.Name + ": " + cs.inj.What}
	js, _ := json.Marshal(rc)
	return string(js)
}

// c06Evaluate applies the C06 oracle to one generated-and-built program.
func (c *checker) c06Evaluate(id, class, injName, input string, res *gobuild.Result) {
	c.rep.Hist("injection", injName)
	c.rep.Hist("injection-class", class)
	known := ""
	if strings.HasPrefix(class, "K:") {
		known = class[2:]
	}
	outcome := "accepted+builds"
	switch {
	case res.Internal != "":
		fatal("internal build pipeline failure: %s", res.Internal)
	case !res.GenOK:
		outcome = "rejected-at-generation"
	case !res.BuildOK:
		outcome = "accepted-but-go-build-fails"
	case !res.VetOK:
		outcome = "accepted-but-go-vet-fails"
	}
	c.rep.Hist("outcome", class+" → "+outcome)
	c.rep.Case(id, true)
	switch outcome {
	case "accepted+builds":
		if known != "" {
			c.rep.Hist("known-finding-probe", known+": did not reproduce")
		}
	case "rejected-at-generation":
		switch {
		case known == "D21":
			c.known(known, injName+": valid program rejected: "+summarize(strings.TrimSpace(res.GenOut), 300))
		case known != "":
			c.rep.Hist("known-finding-probe", known+": rejected at generation time")
		case class == "A":
			c.rep.Disagree(report.Disagreement{Kind: "C06 valid clash-free program rejected (" + injName + ")", Input: input, Impl: summarize(res.GenOut, 2000),
				Oracle: "a program that is well-formed and free of Go name clashes (NoGoClash) was rejected by thriftrw"})
		}
	default:
		out := res.BuildOut
		if outcome == "accepted-but-go-vet-fails" {
			out = res.VetOut
		}
		if known != "" {
			c.known(known, injName+": accepted, but the output does not compile: "+summarize(firstLines(out, 3), 400))
			return
		}
		c.rep.Disagree(report.Disagreement{Kind: "C06 accepted program does not compile (" + injName + ")", Input: input, Impl: summarize(out, 3000),
			Oracle: "thriftrw accepted the program but `go build ./... && go vet` of its output against the working tree runtime fails; programs that cannot be mapped to valid Go must be rejected at generation time"})
	}
}

func firstLines(s string, n int) string {
	lines := strings.Split(strings.TrimSpace(s), "\n")
	if len(lines) > n {
		lines = lines[:n]
	}
	return strings.Join(lines, " | ")
}

func init() {
	replayHandlers["C06"] = func(c *checker, raw string) bool {
		var rc replayCase
		if json.Unmarshal([]byte(raw), &rc) != nil {
			return false
		}
		c.rep.Hist("how", "replay")
		if len(rc.Files) > 0 {
			job := &gobuild.Job{Files: rc.Files, Order: rc.Order, Opts: rc.Opts}
			res := c.env.Build(job)
			c.c06Evaluate("replay:"+rc.Note, rc.Class, strings.SplitN(rc.Note, ":", 2)[0], raw, res)
			return true
		}
		cs := makeC06(rc.Seed)
		cs.res = c.env.Build(cs.job)
		c.c06Evaluate(fmt.Sprintf("seed=%d", cs.seed), cs.inj.Class, cs.inj.Name, c.c06Input(cs), cs.res)
		return true
	}
}

func runC06(c *checker) {
	if c.replayOrCorpus("C06") {
		return
	}
	n := pick(160, 1500)
	if *programs > 0 {
		n = *programs
	}
	cases := make([]*c06Case, n)
	jobs := make([]*gobuild.Job, n)
	for i := range cases {
		k := uint64(progs.NumInjections)
		cases[i] = makeC06(c.r.U64()/k/2*k + uint64(i)%k)
		jobs[i] = cases[i].job
	}
	// fixed programs: Thrift files that include each other (cycle length 1..3) — the generated
	// packages would import each other (finding D83, repaired: generation refuses)
	for k := 1; k <= 3; k++ {
		files, order := map[string]string{}, []string{}
		for i := 0; i < k; i++ {
			nx := (i + 1) % k
			files[fmt.Sprintf("cyc%d.thrift", i)] = fmt.Sprintf("include \"./cyc%d.thrift\"\n\nstruct S%d {\n  1: optional cyc%d.S%d peer\n  2: optional string v\n}\n", nx, i, nx, nx)
			order = append(order, fmt.Sprintf("cyc%d.thrift", i))
		}
		job := &gobuild.Job{Files: files, Order: order, Opts: gobuild.Options{}}
		inj := progs.Injection{Name: "D83-include-cycle", Class: "B", What: fmt.Sprintf("%d Thrift files that include each other in a cycle", k)}
		cases = append(cases, &c06Case{seed: uint64(k), inj: inj, job: job})
		jobs = append(jobs, job)
	}
	res := c.env.BuildAll(jobs, *par)
	for i, cs := range cases {
		cs.res = res[i]
		c.rep.Hist("options", cs.opts.String())
		if i < 6 {
			c.rep.Sample(fmt.Sprintf("%s [%s] %s", cs.inj.Name, cs.inj.Class, cs.inj.What))
		}
		if cs.prog != nil && (!cs.res.GenOK || !cs.res.BuildOK || !cs.res.VetOK) {
			dumpProgram(*dumpDir, fmt.Sprintf("c06-%s-%d", cs.inj.Name, cs.seed), cs.prog)
		}
		c.c06Evaluate(fmt.Sprintf("seed=%d opts=%s", cs.seed, cs.opts), cs.inj.Class, cs.inj.Name, c.c06Input(cs), cs.res)
	}
	c.rep.Rule = "valid random multi-file programs (nested directories, every annotation) + exactly one collision-seeking injection each, × CLI option sets: class A (file named like an imported std/runtime package; fields, arguments, types, constants, functions named like Go keywords, predeclared identifiers, template-local variables, initialisms/SCREAMING_CASE; enum items named like generated methods; shared labels) must be accepted and build+vet; class B (identifiers equal after Go-casing, enum item vs type, constant vs type, fields named like generated methods/accessors, user types named like primitives, invalid/duplicate go.name, duplicate labels, duplicate exception in throws, go.name equal to a generated method, fields/arguments named ErrorName / MarshalLogObject / MethodName / EnvelopeType, clashing argument names) may be rejected, but if accepted must build+vet; files whose name cannot be a Go package name — keywords, main, dots, a leading digit: findings D71 D84, repaired; class K = probes of the known findings D15 D21 D24 D80 (reported as known, never as disagreements); the shapes of the repaired findings D9 D13 D23 D26 D27 are ordinary class B (D11, D12, D14, D70: class A) injections and corpus entries; non-trivial = every program; distinct by (seed, options)"
}

func init() { modes["C06"] = runC06 }
