// Command int32probe is built for GOARCH=386 by bin/check (C09): it compiles a fixed list of
// sources whose numbers do not fit into a 32-bit int and prints what the compiler made of them.
// On a platform where int is 32 bits wide nothing may be truncated before it is range-checked
// (finding D82, repaired).
package main

import (
	"fmt"
	"sort"
	"strconv"

	"go.uber.org/thriftrw/compile"
)

type mem map[string][]byte

func (m mem) Read(p string) ([]byte, error) { return m[p], nil }
func (m mem) Abs(p string) (string, error)  { return p, nil }

func main() {
	fmt.Println("intsize", strconv.IntSize)
	cases := []struct{ label, src string }{
		{"enum-2^32+1", "enum E {A = 4294967297, B}"},
		{"enum-2^32", "enum E {A = 4294967296}"},
		{"enum--2^32+1", "enum E {A = -4294967295}"},
		{"enum-2^31", "enum E {A = 2147483648}"},
		{"enum-2^63-1", "enum E {A = 9223372036854775807}"},
		{"field-2^32+1", "struct S {4294967297: optional string f}"},
		{"field-2^32+32767", "struct S {4294999999: optional string f}"},
		{"field--2^32+1", "struct S {-4294967295: optional string f}"},
		{"control-enum-max", "enum E {A = 2147483647}"},
		{"control-field-max", "struct S {32767: optional string f}"},
		{"control-const-i64", "const i64 c = 4294967297"},
	}
	for _, c := range cases {
		m, err := compile.Compile("/a.thrift", compile.Filesystem(mem{"/a.thrift": []byte(c.src)}), compile.NonStrict())
		if err != nil {
			fmt.Println(c.label, "err")
			continue
		}
		var parts []string
		for name, t := range m.Types {
			switch x := t.(type) {
			case *compile.EnumSpec:
				for _, it := range x.Items {
					parts = append(parts, fmt.Sprintf("%s.%s=%d", name, it.Name, it.Value))
				}
			case *compile.StructSpec:
				for _, f := range x.Fields {
					parts = append(parts, fmt.Sprintf("%s.%s=%d", name, f.Name, f.ID))
				}
			}
		}
		for name, k := range m.Constants {
			parts = append(parts, fmt.Sprintf("%s=%v", name, k.Value))
		}
		sort.Strings(parts)
		fmt.Println(c.label, "ok", parts)
	}
}
