package main

import (
	"bufio"
	"bytes"
	"context"
	"fmt"
	"io"
	"strings"

	"go.uber.org/thriftrw/protocol/binary"
	"go.uber.org/thriftrw/protocol/envelope"
	"go.uber.org/thriftrw/protocol/stream"
	"go.uber.org/thriftrw/wire"

	"verifharness/internal/rng"
	"verifharness/internal/wv"
)

type env struct {
	name  []byte
	etype uint8
	seqid uint32
	body  *wv.V
}

func (e env) wire() wire.Envelope {
	return wire.Envelope{Name: string(e.name), Type: wire.EnvelopeType(int8(e.etype)), SeqID: int32(e.seqid), Value: e.body.ToWire()}
}

func implEncEnv(strict bool, e env) string {
	var buf bytes.Buffer
	var err error
	if strict {
		err = binary.Default.EncodeEnveloped(e.wire(), &buf)
	} else {
		w := binary.BorrowWriter(&buf)
		err = w.WriteLegacyEnveloped(e.wire())
		binary.ReturnWriter(w)
	}
	if err != nil {
		return "err"
	}
	return "ok " + hx(buf.Bytes())
}

func implDecEnv(b []byte) (res string) {
	p := safely(func() {
		e, err := binary.Default.DecodeEnveloped(bytes.NewReader(b))
		if err != nil {
			res = "err"
			return
		}
		v, err := wv.FromWire(e.Value)
		if err != nil {
			res = "err"
			return
		}
		res = fmt.Sprintf("ok %s %d %d %s", hx([]byte(e.Name)), uint8(e.Type), uint32(e.SeqID), v.Text())
	})
	if p != "" {
		return "panic " + p
	}
	return
}

func responderText(r interface{}) string {
	switch x := r.(type) {
	case *binary.EnvelopeV0Responder:
		return fmt.Sprintf("legacy %s %d", hx([]byte(x.Name)), uint32(x.SeqID))
	case *binary.EnvelopeV1Responder:
		return fmt.Sprintf("strict %s %d", hx([]byte(x.Name)), uint32(x.SeqID))
	default:
		if r == interface{}(binary.NoEnvelopeResponder) {
			return "bare - 0"
		}
		return fmt.Sprintf("unknown-responder %T", r)
	}
}

func implDecodeRequest(et uint8, b []byte) (res string, resp envelope.Responder) {
	p := safely(func() {
		// a ReaderAt has no cursor: every other bytes.Reader has been read from before (to its end, or
		// to within a byte or two of it), which says nothing about what ReadAt will find
		src := bytes.NewReader(b)
		if decAlt++; decAlt%2 == 0 {
			n := len(b) - decAlt/2%3
			if n < 0 {
				n = 0
			}
			io.ReadFull(src, make([]byte, n))
		}
		val, r, err := binary.Default.DecodeRequest(wire.EnvelopeType(int8(et)), src)
		if err != nil {
			res = "err"
			return
		}
		v, err := wv.FromWire(val)
		if err != nil {
			res = "err"
			return
		}
		resp = r
		res = fmt.Sprintf("ok %s %s", responderText(r), v.Text())
	})
	if p != "" {
		return "panic " + p, nil
	}
	return
}

type structBody struct{ v *wv.V }

func (s *structBody) Decode(r stream.Reader) error {
	v, err := wv.ReadStream(r, wv.TStruct)
	s.v = v
	return err
}

var seekAlt, plainAlt, decAlt int

func implReadRequest(et uint8, b []byte, sizes []int, seekable bool) (res string, rw stream.ResponseWriter) {
	p := safely(func() {
		body := &structBody{}
		var w stream.ResponseWriter
		var err error
		if seekable {
			// every other seekable source has been read from before: the request does not start at
			// offset 0 of the source (a connection buffer, a file holding several messages)
			src := bytes.NewReader(b)
			if seekAlt++; seekAlt%2 == 0 {
				pre := []byte{0x0b, 0x00, 0x0c}[:1+seekAlt/2%3]
				src = bytes.NewReader(append(append([]byte{}, pre...), b...))
				io.ReadFull(src, make([]byte, len(pre)))
			}
			w, err = binary.Default.ReadRequest(context.Background(), wire.EnvelopeType(int8(et)), src, body)
		} else {
			// the kinds of reader a server really hands over: the raw stream, a bufio.Reader around
			// it, a bytes.Buffer holding the message (the last two can un-read one byte, not two)
			var src io.Reader = maybePipe(newChunkReader(b, sizes))
			switch plainAlt++; plainAlt % 4 {
			case 1:
				src = bufio.NewReaderSize(newChunkReader(b, sizes), 16)
			case 3:
				src = bytes.NewBuffer(append([]byte{}, b...))
			}
			w, err = binary.Default.ReadRequest(context.Background(), wire.EnvelopeType(int8(et)), src, body)
		}
		if err != nil {
			res = "err"
			return
		}
		rw = w
		res = fmt.Sprintf("ok %s %s", responderText(w), body.v.Text())
	})
	if p != "" {
		return "panic " + p, nil
	}
	return
}

type streamEnveloper struct {
	v *wv.V
	t wire.EnvelopeType
}

// generated *_Result.MethodName() returns the bare method name (never the multiplexed request
// name); responders must ignore it and echo the request's name.
func (s streamEnveloper) MethodName() string              { return "bareMethod" }
func (s streamEnveloper) EnvelopeType() wire.EnvelopeType { return s.t }
func (s streamEnveloper) Encode(w stream.Writer) error    { return s.v.WriteStream(w) }

func genEnv(r *rng.R, thorough bool) env {
	var e env
	switch r.Intn(8) {
	case 0:
		e.name = []byte{byte(r.U64())} // shortest name
	case 1:
		e.name = r.Bytes(1 + r.Intn(300)) // arbitrary bytes, non-UTF8
	case 2:
		e.name = []byte("Service:method")
	case 3:
		n := 1 << uint(8+r.Intn(9)) // up to 2^16
		if !thorough && n > 1<<12 {
			n = 1 << 12
		}
		e.name = bytes.Repeat([]byte{'n'}, n)
	default:
		e.name = []byte(fmt.Sprintf("m%d", r.Intn(1000)))
	}
	switch r.Intn(4) {
	case 0:
		e.etype = uint8(1 + r.Intn(4))
	case 1:
		e.etype = uint8(r.Intn(128))
	default:
		e.etype = 1
	}
	seqs := []uint32{0, 1, 0x7fffffff, 0x80000000, 0xffffffff, 0x00010000, 0x80010001}
	e.seqid = seqs[r.Intn(len(seqs))]
	if r.Chance(1, 3) {
		e.seqid = uint32(r.U64())
	}
	e.body = wv.Gen(r, wv.TStruct, wv.GenCfg{MaxDepth: 1 + r.Intn(3), MaxLen: r.Pick(0, 1, 3, 5), MaxBin: r.Pick(0, 3, 12)}, 0)
	return e
}

func c12Case(c *checker, r *rng.R, e env) {
	bodyText := e.body.Text()
	key := fmt.Sprintf("%s %d %d %s", hx(e.name), e.etype, e.seqid, bodyText)
	c.rep.Hist("etype", fmt.Sprint(e.etype))
	nb := "≤16"
	if len(e.name) > 16 {
		nb = "≤256"
	}
	if len(e.name) > 256 {
		nb = ">256"
	}
	c.rep.Hist("name-len", nb)
	c.rep.Case(key, true)

	strictB := implEncEnv(true, e)
	legacyB := implEncEnv(false, e)
	c.expect("C12 EncodeEnveloped vs model", fmt.Sprintf("V 1 %s %d %d %s", hx(e.name), e.etype, e.seqid, bodyText), strictB)
	c.expect("C12 WriteLegacyEnveloped vs model", fmt.Sprintf("V 0 %s %d %d %s", hx(e.name), e.etype, e.seqid, bodyText), legacyB)
	if !strings.HasPrefix(strictB, "ok ") || !strings.HasPrefix(legacyB, "ok ") {
		c.oracle("C12 envelope encode failed", key, strictB+" / "+legacyB, "encoding an envelope failed")
		return
	}
	bare := e.body.Encode(nil)
	frames := []struct {
		name string
		b    []byte
		resp string
	}{
		{"strict", unhx(strictB[3:]), fmt.Sprintf("strict %s %d", hx(e.name), e.seqid)},
		{"legacy", unhx(legacyB[3:]), fmt.Sprintf("legacy %s %d", hx(e.name), e.seqid)},
		{"bare", bare, "bare - 0"},
	}
	wantEnv := fmt.Sprintf("ok %s %d %d %s", hx(e.name), e.etype, e.seqid, bodyText)
	for _, f := range frames {
		c.rep.Hist("framing", f.name)
		if f.name != "bare" {
			d := implDecEnv(f.b)
			if d != wantEnv {
				c.oracle("C12 envelope round trip", "W "+hx(f.b), d, "DecodeEnveloped(Encode(e)) ≠ e: want "+wantEnv)
			}
			c.expect("C12 DecodeEnveloped vs model", "W "+hx(f.b), d)
		}
		// server side: both request APIs, right and wrong expected type
		for _, et := range []uint8{e.etype, e.etype%4 + 1 + 4*(e.etype/4)} {
			want := fmt.Sprintf("ok %s %s", f.resp, bodyText)
			if et != e.etype && f.name != "bare" {
				want = "err"
			}
			q, resp := implDecodeRequest(et, f.b)
			if q != want {
				c.oracle("C12 DecodeRequest classification", fmt.Sprintf("Q %d %s", et, hx(f.b)), q, "want "+want)
			}
			c.expect("C12 DecodeRequest vs model", fmt.Sprintf("Q %d %s", et, hx(f.b)), q)
			sizes := randomSizes(r, len(f.b))
			if r.Chance(1, 3) { // first read returns exactly one byte / zero bytes
				sizes = append([]int{r.Intn(2)}, sizes...)
			}
			rr, rw := implReadRequest(et, f.b, sizes, false)
			if rr != q {
				c.oracle("C12 ReadRequest≠DecodeRequest", fmt.Sprintf("R 1 %d %s", et, chunkText(f.b, sizes)), rr, "DecodeRequest: "+q)
			}
			c.expect("C12 ReadRequest vs model", fmt.Sprintf("R 1 %d %s", et, chunkText(f.b, sizes)), rr)
			rs, _ := implReadRequest(et, f.b, nil, true)
			if rs != q {
				c.oracle("C12 ReadRequest(seekable)≠DecodeRequest", fmt.Sprintf("R 1 %d %s", et, hx(f.b)), rs, "DecodeRequest: "+q)
			}
			if resp != nil && rw != nil {
				// reply through both responder APIs
				reply := wv.Gen(r, wv.TStruct, wv.GenCfg{MaxDepth: 2, MaxLen: 2, MaxBin: 4}, 0)
				rt := uint8(2 + r.Intn(2))
				var b1, b2 bytes.Buffer
				err1 := resp.EncodeResponse(reply.ToWire(), wire.EnvelopeType(rt), &b1)
				err2 := rw.WriteResponse(wire.EnvelopeType(rt), &b2, streamEnveloper{reply, wire.EnvelopeType(rt)})
				got := "ok " + hx(b1.Bytes())
				if err1 != nil || err2 != nil || !bytes.Equal(b1.Bytes(), b2.Bytes()) {
					c.oracle("C12 responders disagree", key, got, "WriteResponse: "+hx(b2.Bytes()))
				}
				c.expect("C12 EncodeResponse vs model", fmt.Sprintf("P %s %d %s", f.resp, rt, reply.Text()), got)
				if f.name != "bare" {
					d := implDecEnv(b1.Bytes())
					wantR := fmt.Sprintf("ok %s %d %d %s", hx(e.name), rt, e.seqid, reply.Text())
					if d != wantR {
						c.oracle("C12 reply does not echo name/seqid in the same framing", key, d, "want "+wantR)
					}
					isStrict := len(b1.Bytes()) > 0 && b1.Bytes()[0]&0x80 != 0
					if isStrict != (f.name == "strict") {
						c.oracle("C12 reply framing differs from request framing", key, got, f.name)
					}
				} else if got != "ok "+hx(reply.Encode(nil)) {
					c.oracle("C12 bare reply is not the bare struct", key, got, "")
				}
			}
		}
	}
	if len(c.pend) > 20000 {
		c.flush()
	}
}

func runC12(c *checker, r *rng.R) {
	n, nJunk := 1500, 20000
	thorough := *tier == "thorough"
	if thorough {
		n, nJunk = 40000, 600000
	}
	for i := 0; i < n; i++ {
		e := genEnv(r, thorough)
		if i < 4 {
			c.rep.Sample(fmt.Sprintf("envelope name=%s type=%d seqid=%d body=%s", hx(e.name), e.etype, e.seqid, e.body.Text()))
		}
		c12Case(c, r, e)
	}
	// classification agreement of the two request APIs on arbitrary bytes
	for i := 0; i < nJunk; i++ {
		var b []byte
		if r.Chance(1, 2) {
			e := genEnv(r, false)
			if len(e.name) > 40 {
				e.name = e.name[:40]
			}
			x := implEncEnv(r.Bool(), e)
			b = mutate(r, unhx(x[3:]))
		} else {
			b = r.Bytes(r.Intn(30))
			if len(b) > 0 && r.Chance(1, 2) {
				b[0] = []byte{0, 0x80, 0x0b, 0x0c}[r.Intn(4)]
			}
		}
		et := uint8(1 + r.Intn(4))
		sizes := randomSizes(r, len(b))
		key := fmt.Sprintf("%d %s", et, hx(b))
		c.rep.Case("junk "+key, len(b) > 0)
		q, _ := implDecodeRequest(et, b)
		rr, _ := implReadRequest(et, b, sizes, false)
		c.rep.Hist("junk-outcome", strings.Fields(q)[0]+"/"+strings.Fields(rr)[0])
		if strings.HasPrefix(q, "ok") && rr != q {
			c.oracle("C12 streaming API rejects/differs on input the random-access API accepts", fmt.Sprintf("R 1 %d %s", et, chunkText(b, sizes)), rr, "DecodeRequest: "+q)
		}
		if strings.HasPrefix(q, "panic") || strings.HasPrefix(rr, "panic") {
			c.oracle("C12 panic", key, q+" / "+rr, "request reader panicked")
		}
		c.expect("C12 DecodeRequest vs model (arbitrary bytes)", "Q "+key, q)
		c.expect("C12 ReadRequest vs model (arbitrary bytes)", fmt.Sprintf("R 1 %d %s", et, chunkText(b, sizes)), rr)
		if len(c.pend) > 20000 {
			c.flush()
		}
	}
	c.flush()
	runC12Server(c, r)
	c.flush()
	c.rep.Rule = "envelopes: names 1..2^16 bytes (non-UTF8, ':'-multiplexed), types 0..127, seqids at int32 boundaries, random struct bodies × 3 framings × {DecodeRequest (every other bytes.Reader already read to its end or nearly), ReadRequest non-seekable (plain, with a Seek method that always fails like a pipe, behind a bufio.Reader, from a bytes.Buffer) under random segmentation incl. 1-byte/zero-length first reads, ReadRequest seekable, every other source already read from (the request starts at offset 1–3)} × right/wrong expected type, replies through both responder APIs; plus mutated envelopes and random bytes for classification agreement; plus internal/envelope.Server over internal/multiplex (through the verif hook): enveloped Calls in both framings to known / unknown services and methods and a failing handler — the answer must echo name and sequence id, be a Reply with the handler's value or an Exception; the same through envelope.Client + multiplex.Client; responses retained across later requests and a server shared by 8 goroutines (a response must stay what it was); every case non-trivial; distinct by canonical text"
}
