package main

import (
	"bufio"
	"encoding/json"
	"os"
	"path/filepath"
	"sort"
	"strconv"
	"strings"

	"verifharness/internal/rng"
	"verifharness/internal/wv"
)

// runLine replays one case given in model-op syntax (the `input` of a disagreement).
func runLine(c *checker, line string) {
	f := strings.Fields(line)
	if len(f) == 0 || strings.HasPrefix(line, "#") {
		return
	}
	r := rng.New(7)
	num := func(s string) int { n, _ := strconv.Atoi(s); return n }
	switch f[0] {
	case "E":
		if v, err := wv.Parse(strings.Join(f[1:], " ")); err == nil {
			c02Value(c, v, "replay")
			// once more after a failed Encode of the same value (pooled state left behind by a
			// failed call is part of what the run explores)
			c02FailedEncode(v)
			c02Value(c, v, "replay-after-failed-encode")
		}
	case "L", "D":
		if len(f) == 3 {
			c03Input(c, r, byte(num(f[1])), unhx(f[2]), "replay")
		}
	case "K":
		if len(f) == 4 {
			c03Input(c, r, byte(num(f[2])), unhx(f[3]), "replay")
		}
	case "A":
		if len(f) == 3 && f[1] == "env" {
			c13Case(c, "env-stream", 0, unhx(f[2]))
			c13Case(c, "env-decode", 0, unhx(f[2]))
			c13Case(c, "read-request", 0, unhx(f[2]))
			c.flushCost()
		} else if len(f) == 3 && f[1] == "frame" {
			c13Case(c, "frame", 0, unhx(f[2]))
			c.flushCost()
		} else if len(f) == 4 {
			for _, api := range []string{"stream", "stream-skip", "lazy"} {
				c13Case(c, api, byte(num(f[2])), unhx(f[3]))
			}
			c.flushCost()
		}
	case "Q", "W":
		b := unhx(f[len(f)-1])
		et := uint8(1)
		if f[0] == "Q" {
			et = uint8(num(f[1]))
		}
		q, _ := implDecodeRequest(et, b)
		c.rep.Case(line, true)
		c.expect("replay DecodeRequest vs model", "Q "+strconv.Itoa(int(et))+" "+hx(b), q)
		for _, sizes := range [][]int{nil, ones(len(b)), {0, 1}} {
			rr, _ := implReadRequest(et, b, sizes, false)
			if strings.HasPrefix(q, "ok") && rr != q {
				c.oracle("C12 streaming API rejects/differs on input the random-access API accepts", "R 1 "+strconv.Itoa(int(et))+" "+chunkText(b, sizes), rr, "DecodeRequest: "+q)
			}
			c.expect("replay ReadRequest vs model", "R 1 "+strconv.Itoa(int(et))+" "+chunkText(b, sizes), rr)
		}
	case "R":
		if len(f) == 4 {
			var b []byte
			var sizes []int
			for _, ch := range strings.Split(f[3], ",") {
				x := unhx(ch)
				b = append(b, x...)
				sizes = append(sizes, len(x))
			}
			et := uint8(num(f[2]))
			q, _ := implDecodeRequest(et, b)
			rr, _ := implReadRequest(et, b, sizes, false)
			c.rep.Case(line, true)
			if strings.HasPrefix(q, "ok") && rr != q {
				c.oracle("C12 streaming API rejects/differs on input the random-access API accepts", line, rr, "DecodeRequest: "+q)
			}
			c.expect("replay ReadRequest vs model", line, rr)
		}
	}
}

func ones(n int) []int {
	s := make([]int, n)
	for i := range s {
		s[i] = 1
	}
	return s
}

func runFile(c *checker, path string) {
	fh, err := os.Open(path)
	if err != nil {
		return
	}
	defer fh.Close()
	if strings.HasSuffix(path, ".json") {
		// a replay file written by bin/check: {"disagreements":[{"input":...}]}
		var doc struct {
			Disagreements []struct {
				Input string `json:"input"`
			} `json:"disagreements"`
		}
		if json.NewDecoder(fh).Decode(&doc) == nil {
			for _, d := range doc.Disagreements {
				runLine(c, d.Input)
			}
		}
		return
	}
	sc := bufio.NewScanner(fh)
	sc.Buffer(make([]byte, 1<<20), 1<<28)
	for sc.Scan() {
		runLine(c, sc.Text())
	}
}

func runReplay(c *checker, path string) {
	runFile(c, path)
	c.flush()
	c.rep.Rule = "replay of " + path
}

func runCorpus(c *checker, dir string) {
	if dir == "" {
		return
	}
	files, _ := filepath.Glob(filepath.Join(dir, "*"))
	sort.Strings(files)
	for _, f := range files {
		runFile(c, f)
	}
	c.flush()
	c.rep.Hist("how", "corpus-files:"+strconv.Itoa(len(files)))
}
