// Command wirecheck is the correspondence check between thriftrw's binary
// protocol (protocol/binary, wire) and the Lean model M-Wire, plus the
// implementation-side property oracles for C02, C03, C12.
package main

import (
	"bytes"
	"encoding/hex"
	"errors"
	"flag"
	"fmt"
	"io"
	"os"
	"os/exec"
	"runtime"
	"runtime/debug"
	"strings"
	"sync"
	"time"

	"go.uber.org/thriftrw/protocol/binary"
	"go.uber.org/thriftrw/wire"

	"verifharness/internal/lineproto"
	"verifharness/internal/report"
	"verifharness/internal/rng"
	"verifharness/internal/wv"
)

var (
	prop   = flag.String("prop", "", "property id (C02, C03, C12)")
	tier   = flag.String("tier", "quick", "quick|thorough")
	driver = flag.String("driver", "", "path to the Lean wire driver")
	out    = flag.String("out", "", "report file")
	replay = flag.String("replay", "", "replay file (ops, one per line)")
	corpus = flag.String("corpus", "", "corpus directory")
)

func hx(b []byte) string {
	if len(b) == 0 {
		return "-"
	}
	return hex.EncodeToString(b)
}

func unhx(s string) []byte {
	if s == "-" {
		return nil
	}
	b, err := hex.DecodeString(s)
	if err != nil {
		panic(err)
	}
	return b
}

// chunkReader is an io.Reader (not a Seeker) over a queue of chunks: each Read
// returns data from the first chunk only; an empty chunk yields a zero-length
// read (0, nil). This is exactly the model's `Chunks`.
type chunkReader struct {
	chunks [][]byte
	pos    int
	// eofWithData: the Read that delivers the last byte returns it together with io.EOF
	// (as iotest.DataErrReader and HTTP bodies of known length do) instead of on a later call.
	eofWithData bool
}

func (c *chunkReader) Read(p []byte) (int, error) {
	if len(c.chunks) == 0 {
		return 0, io.EOF
	}
	if len(c.chunks[0]) == 0 {
		c.chunks = c.chunks[1:]
		return 0, nil
	}
	n := copy(p, c.chunks[0])
	c.chunks[0] = c.chunks[0][n:]
	if len(c.chunks[0]) == 0 {
		c.chunks = c.chunks[1:]
	}
	c.pos += n
	if c.eofWithData && len(c.chunks) == 0 {
		return n, io.EOF
	}
	return n, nil
}

// pipeLike has a Seek method that always fails, like the read end of a pipe (an *os.File): a
// reader kind the library must treat like any other non-seekable stream.
type pipeLike struct{ r io.Reader }

func (p pipeLike) Read(b []byte) (int, error) { return p.r.Read(b) }
func (p pipeLike) Seek(int64, int) (int64, error) {
	return 0, errors.New("seek: illegal seek")
}

var pipeAlt int

// maybePipe wraps every other non-seekable reader in pipeLike.
func maybePipe(r io.Reader) io.Reader {
	if pipeAlt++; pipeAlt%2 == 0 {
		return pipeLike{r}
	}
	return r
}

func newChunkReader(data []byte, sizes []int) *chunkReader {
	c := &chunkReader{}
	pos := 0
	for _, n := range sizes {
		if pos+n > len(data) {
			n = len(data) - pos
		}
		c.chunks = append(c.chunks, data[pos:pos+n])
		pos += n
	}
	if pos < len(data) {
		c.chunks = append(c.chunks, data[pos:])
	}
	// every other reader hands out its last byte together with io.EOF (both are legal
	// io.Reader behaviours and must not be told apart by a decoder)
	c.eofWithData = (len(data)+len(sizes))%2 == 1
	return c
}

func chunkText(data []byte, sizes []int) string {
	c := newChunkReader(data, sizes)
	var parts []string
	for _, ch := range c.chunks {
		parts = append(parts, hx(ch))
	}
	if len(parts) == 0 {
		return "-"
	}
	return strings.Join(parts, ",")
}

func randomSizes(r *rng.R, total int) []int {
	switch r.Intn(4) {
	case 0:
		return nil // whole
	case 1:
		s := make([]int, total)
		for i := range s {
			s[i] = 1
		}
		return s
	}
	var s []int
	for left := total; left > 0; {
		n := r.Intn(9) // includes 0
		if r.Chance(1, 8) {
			n = r.Intn(left + 1)
		}
		s = append(s, n)
		left -= n
	}
	return s
}

// watchdog: an implementation call that does not return (a decoder that loops) or that
// grows the heap without bound cannot be interrupted from inside the process, so a monitor
// goroutine records the offending input as a property failure, writes the report and exits.
var (
	wdMu      sync.Mutex
	wdInput   string
	wdStarted time.Time
	wdRep     *report.Report
)

func wdEnter(input string) {
	wdMu.Lock()
	wdInput, wdStarted = input, time.Now()
	wdMu.Unlock()
}

func wdLeave() {
	wdMu.Lock()
	wdInput = ""
	wdMu.Unlock()
}

func startWatchdog(rep *report.Report) {
	wdRep = rep
	go func() {
		for {
			time.Sleep(200 * time.Millisecond)
			wdMu.Lock()
			in, st := wdInput, wdStarted
			wdMu.Unlock()
			if in == "" {
				continue
			}
			var ms runtime.MemStats
			runtime.ReadMemStats(&ms)
			el := time.Since(st)
			if el > 20*time.Second || ms.HeapAlloc > 6<<30 {
				why := fmt.Sprintf("implementation call did not finish: %.1fs elapsed, heap %d MiB (hang / unbounded work or allocation)", el.Seconds(), ms.HeapAlloc>>20)
				rep.Disagree(report.Disagreement{Kind: *prop + " decoder does not terminate / unbounded resources", Input: in, Impl: "no result", Oracle: why})
				rep.Evaluations++
				rep.Rule = "aborted by the watchdog on a non-terminating implementation call"
				rep.Write(*out)
				os.Exit(0)
			}
		}
	}()
}

// safely runs f, converting a panic into an error string.
func safely(f func()) (panicked string) {
	defer func() {
		if r := recover(); r != nil {
			panicked = fmt.Sprint(r)
		}
	}()
	f()
	return ""
}

// ---- implementation-side operations (answers in the driver's output syntax) ----

// plainWriter is an io.Writer and nothing else (a file, a connection, a hash): every other encode
// goes to one, the others to a *bytes.Buffer, and the bytes must be the same.
type plainWriter struct{ b *bytes.Buffer }

func (p plainWriter) Write(x []byte) (int, error) { return p.b.Write(x) }

var destAlt [2]int

func encodeDest(which int, buf *bytes.Buffer) io.Writer {
	if destAlt[which]++; destAlt[which]%2 == 0 {
		return plainWriter{buf}
	}
	return buf
}

func implEncode(v *wv.V) string {
	var buf bytes.Buffer
	if err := binary.Default.Encode(v.ToWire(), encodeDest(0, &buf)); err != nil {
		return "err"
	}
	return "ok " + hx(buf.Bytes())
}

func implStreamEncode(v *wv.V) string {
	var buf bytes.Buffer
	w := binary.Default.Writer(encodeDest(1, &buf))
	err := v.WriteStream(w)
	w.Close()
	if err != nil {
		return "err"
	}
	return "ok " + hx(buf.Bytes())
}

// eofReaderAt returns io.EOF together with the bytes of a read that ends exactly at the end of the
// input (io.ReaderAt allows either nil or EOF there; bytes.Reader chooses nil).
type eofReaderAt struct{ b []byte }

func (e eofReaderAt) ReadAt(p []byte, off int64) (int, error) {
	if off < 0 || off > int64(len(e.b)) {
		return 0, io.EOF
	}
	n := copy(p, e.b[off:])
	if int(off)+n == len(e.b) {
		return n, io.EOF
	}
	return n, nil
}

var lazyAlt int

func implLazy(t byte, b []byte) (res string, val *wv.V, consumed int64) {
	p := safely(func() {
		var ra io.ReaderAt = bytes.NewReader(b)
		switch lazyAlt++; lazyAlt % 4 {
		case 0:
			ra = eofReaderAt{b}
		case 2:
			// a bytes.Reader that somebody has read from before (hashed, logged, sniffed): ReadAt
			// does not care about the read position, and Len() is what is left, not the size
			br := bytes.NewReader(b)
			io.CopyN(io.Discard, br, int64(len(b)-len(b)/(1+lazyAlt%3)))
			ra = br
		}
		rd := binary.NewReader(ra)
		w, off, err := rd.ReadValue(wire.Type(t), 0)
		if err != nil {
			res = "err"
			return
		}
		v, err := wv.FromWire(w)
		if err != nil {
			res = "err"
			return
		}
		val, consumed = v, off
		res = fmt.Sprintf("ok %d %s", off, v.Text())
	})
	if p != "" {
		return "panic " + p, nil, 0
	}
	return
}

func implEvaluate(t byte, b []byte) string {
	res := ""
	p := safely(func() {
		w, err := binary.Default.Decode(bytes.NewReader(b), wire.Type(t))
		if err != nil {
			res = "err"
			return
		}
		if err := wire.EvaluateValue(w); err != nil {
			res = "err"
			return
		}
		res = "ok"
	})
	if p != "" {
		return "panic " + p
	}
	return res
}

func implStream(t byte, b []byte, sizes []int) (res string, val *wv.V, consumed int) {
	p := safely(func() {
		cr := newChunkReader(b, sizes)
		sr := binary.Default.Reader(maybePipe(cr))
		defer sr.Close()
		v, err := wv.ReadStream(sr, t)
		if err != nil {
			res = "err"
			return
		}
		val, consumed = v, cr.pos
		res = fmt.Sprintf("ok %d %s", cr.pos, v.Text())
	})
	if p != "" {
		return "panic " + p, nil, 0
	}
	return
}

// implStreamBuffer reads the value from a *bytes.Buffer, which the caller then reuses for its next
// message (Reset + Write) BEFORE looking at the value: a decoded value owns its bytes.
func implStreamBuffer(t byte, b []byte) (res string) {
	p := safely(func() {
		buf := bytes.NewBuffer(append(make([]byte, 0, len(b)+64), b...))
		sr := binary.Default.Reader(buf)
		v, err := wv.ReadStream(sr, t)
		sr.Close()
		if err != nil {
			res = "err"
			return
		}
		consumed := len(b) - buf.Len()
		buf.Reset()
		buf.Write(bytes.Repeat([]byte{0xa5}, len(b)+32))
		res = fmt.Sprintf("ok %d %s", consumed, v.Text())
	})
	if p != "" {
		return "panic " + p
	}
	return
}

func implSkip(seek bool, t byte, b []byte, sizes []int) (res string, consumed int64) {
	p := safely(func() {
		if seek {
			br := bytes.NewReader(b)
			sr := binary.NewStreamReader(br)
			defer sr.Close()
			if err := sr.Skip(wire.Type(t)); err != nil {
				res = "err"
				return
			}
			pos, _ := br.Seek(0, io.SeekCurrent)
			consumed = pos
			res = fmt.Sprintf("ok %d", pos)
			return
		}
		cr := newChunkReader(b, sizes)
		sr := binary.NewStreamReader(maybePipe(cr))
		defer sr.Close()
		if err := sr.Skip(wire.Type(t)); err != nil {
			res = "err"
			return
		}
		consumed = int64(cr.pos)
		res = fmt.Sprintf("ok %d", cr.pos)
	})
	if p != "" {
		return "panic " + p, 0
	}
	return
}

// ---- check plumbing ----

type pending struct {
	op    string // model op line
	impl  string // implementation answer in the same syntax
	kind  string
	input string
}

type checker struct {
	rep      *report.Report
	pend     []pending
	pendCost []pendingCost
	skipModel bool // values the driver would be slow on: reference codec and oracles only
}

func lineprotoRun(ops []string) ([]string, error) { return lineproto.Run(*driver, ops) }

func reportDis(kind, input, impl, model string) report.Disagreement {
	return report.Disagreement{Kind: kind, Input: input, Impl: impl, Model: model}
}

func (c *checker) expect(kind, op, impl string) {
	if c.skipModel {
		return
	}
	c.pend = append(c.pend, pending{op: op, impl: impl, kind: kind, input: op})
}

// oracle records a failure of an implementation-side property oracle.
func (c *checker) oracle(kind, input, impl, why string) {
	c.rep.Disagree(report.Disagreement{Kind: kind, Input: input, Impl: impl, Oracle: why})
}

func (c *checker) flush() {
	if len(c.pend) == 0 {
		return
	}
	ops := make([]string, len(c.pend))
	for i, p := range c.pend {
		ops[i] = p.op
	}
	ans, err := lineproto.Run(*driver, ops)
	if err != nil {
		fmt.Fprintln(os.Stderr, "wirecheck:", err)
		os.Exit(3)
	}
	for i, p := range c.pend {
		if ans[i] != p.impl {
			c.rep.Disagree(report.Disagreement{Kind: p.kind, Input: p.input, Impl: p.impl, Model: ans[i]})
		}
	}
	c.pend = c.pend[:0]
}

// ---- C02 ----

// failAfter accepts n bytes and then fails (with a short write, as a full disk or a closed
// connection does).
type failAfter struct{ n int }

func (f *failAfter) Write(p []byte) (int, error) {
	if len(p) <= f.n {
		f.n -= len(p)
		return len(p), nil
	}
	k := f.n
	f.n = 0
	return k, io.ErrShortWrite
}

var c02Fail int

// c02FailedEncode makes an Encode (and a stream-writer sequence) of v fail part-way; the
// encodes and decodes that follow must not be affected by whatever the failed call left in
// pooled writers and buffers.
func c02FailedEncode(v *wv.V) {
	n := len(v.Encode(nil))
	if n == 0 {
		return
	}
	safely(func() {
		_ = binary.Default.Encode(v.ToWire(), &failAfter{n: n / 2})
		w := binary.Default.Writer(&failAfter{n: n - 1})
		_ = v.WriteStream(w)
		w.Close()
	})
}

func c02Value(c *checker, v *wv.V, how string) {
	text := v.Text()
	if c02Fail++; c02Fail%3 == 0 {
		c02FailedEncode(v)
		c.rep.Hist("preceded-by-failed-encode", "yes")
	}
	ref := "ok " + hx(v.Encode(nil))
	e1 := implEncode(v)
	e2 := implStreamEncode(v)
	c.rep.Hist("type", fmt.Sprint(v.T))
	c.rep.Hist("how", how)
	c.rep.Case(text, v.Nodes() > 1 || v.T == wv.TDouble || v.T == wv.TBinary)
	if e1 != ref {
		c.oracle("C02 encode≠spec", "E "+text, e1, "Encode(v) differs from the harness reference encoding "+ref)
	}
	if e2 != e1 {
		c.oracle("C02 stream-writer≠writer", "E "+text, e2, "stream.Writer call sequence emits other bytes than Encode: "+e1)
	}
	c.expect("C02 Encode vs model enc", "E "+text, e1)
	c.expect("C02 StreamWriter vs model enc", "E "+text, e2)
	if !strings.HasPrefix(e1, "ok ") {
		return
	}
	b := unhx(e1[3:])
	want := fmt.Sprintf("ok %d %s", len(b), text)
	l, _, _ := implLazy(v.T, b)
	if l != want {
		c.oracle("C02 Decode(Encode v)≠v", fmt.Sprintf("L %d %s", v.T, hx(b)), l, "random-access decode of Encode(v) is not v: want "+want)
	}
	c.expect("C02 Decode+force vs model decF", fmt.Sprintf("L %d %s", v.T, hx(b)), l)
	s, _, _ := implStream(v.T, b, c02Sizes(len(b)))
	if s != want {
		c.oracle("C02 StreamRead(Encode v)≠v", fmt.Sprintf("D %d %s", v.T, hx(b)), s, "streaming read of Encode(v) is not v: want "+want)
	}
	c.expect("C02 stream read vs model dec", fmt.Sprintf("D %d %s", v.T, hx(b)), s)
	if c02ReuseN%3 == 2 && len(b) < 70000 {
		if sb := implStreamBuffer(v.T, b); sb != want {
			c.oracle("C02 a value read from a bytes.Buffer changes when the buffer is reused", fmt.Sprintf("D %d %s", v.T, hx(b)), sb, "want "+want)
		}
	}
	if c02ReuseN%3 == 1 && len(b) < 4000 {
		// more data behind the value (the next message on the connection), handed out as eagerly
		// as the reader asks for it: reading the value must take exactly its own bytes
		more := append(append([]byte{}, b...), b...)
		more = append(more, 0xff, 0x00, 0x7f)
		s2, _, _ := implStream(v.T, more, nil)
		if s2 != want {
			c.oracle("C02 a stream read takes bytes that belong to what follows", fmt.Sprintf("D %d %s (followed by %d more bytes)", v.T, hx(b), len(more)-len(b)), s2, "want "+want)
		}
	}
	if c02ReuseN++; c02ReuseN%4 == 0 || len(b) > 60000 {
		c02Reuse(c, v, b, text)
	}
	c02Prev = b
	if len(c.pend) > 20000 {
		c.flush()
	}
}

var (
	c02ReuseN int
	c02Prev   []byte
)

// c02Reuse: a decoded value stays what it was. The value is decoded (containers still lazy),
// encoded, forced with wire.EvaluateValue, the previous message is decoded and forced in between,
// and then the value is encoded and read once more: both encodings must be the original bytes and
// the reading the original value. (A writer or an evaluator that hands a container of the value
// back to a pool, or a container that reports another size than it yields, shows up here.)
func c02Reuse(c *checker, v *wv.V, b []byte, text string) {
	input := fmt.Sprintf("reuse %d %s", v.T, hx(b))
	c.rep.Hist("reuse-after-encode-and-evaluate", "yes")
	var got string
	p := safely(func() {
		w, err := binary.Default.Decode(bytes.NewReader(b), wire.Type(v.T))
		if err != nil {
			got = "decode failed: " + err.Error()
			return
		}
		var e1, e2 bytes.Buffer
		if err := binary.Default.Encode(w, &e1); err != nil {
			got = "first Encode of the decoded value failed: " + err.Error()
			return
		}
		if err := wire.EvaluateValue(w); err != nil {
			got = "EvaluateValue failed: " + err.Error()
			return
		}
		var keep []wire.Value
		for i := 0; i < 3; i++ { // other decodes in between: they take whatever a pool has to offer
			for _, other := range [][]byte{c02Prev, b} {
				if len(other) == 0 || len(other) > 4096 {
					continue
				}
				if w2, err := binary.Default.Decode(bytes.NewReader(other), wire.TStruct); err == nil {
					_ = wire.EvaluateValue(w2)
					keep = append(keep, w2)
				}
			}
		}
		if err := binary.Default.Encode(w, &e2); err != nil {
			got = "second Encode of the decoded value failed: " + err.Error()
			return
		}
		back, err := wv.FromWire(w)
		switch {
		case !bytes.Equal(e1.Bytes(), b):
			got = fmt.Sprintf("first Encode of the decoded value gives %d bytes that are not the input", e1.Len())
		case !bytes.Equal(e2.Bytes(), b):
			got = fmt.Sprintf("second Encode of the decoded value (after EvaluateValue and other decodes) gives %d bytes that are not the input", e2.Len())
		case err != nil:
			got = "reading the decoded value again failed: " + err.Error()
		case back.Text() != text:
			got = "the decoded value reads differently after EvaluateValue and other decodes"
		}
		runtime.KeepAlive(keep)
	})
	if p != "" {
		got = "panic " + p
	}
	if got != "" {
		c.oracle("C02 a decoded value does not stay what it was", input, got, "Decode, Encode, EvaluateValue, other decodes, Encode, read: both encodings and the reading must be the original")
	}
}

// read segmentation for the C02 stream read: cheap deterministic rotation of whole / 1-byte /
// 3-byte / 7-byte chunks and 1- / 2-byte chunks each preceded by a zero-length read (0, nil), which an
// io.Reader may return at any time (C03 explores random segmentations).
var c02Seg int

func c02Sizes(n int) []int {
	c02Seg++
	var k int
	zero := false // a zero-length read (0, nil) before every piece
	switch c02Seg % 6 {
	case 0:
		return nil
	case 1:
		k = 1
	case 2:
		k = 3
	case 3:
		k = 7
	case 4:
		k, zero = 1, true
	default:
		k, zero = 2, true
	}
	if n > 4096 {
		k = 4093 // keep huge binaries cheap but still segmented
	}
	s := make([]int, 0, n/k+1)
	for left := n; left > 0; left -= k {
		if zero {
			s = append(s, 0)
		}
		s = append(s, k)
	}
	return s
}

func runC02(c *checker, r *rng.R) {
	budget, nRand, depth := 4, 12000, 5
	if *tier == "thorough" {
		budget, nRand, depth = 5, 150000, 8
	}
	enumerated := 0
	for _, t := range wv.AllTypes {
		wv.Enumerate(t, budget, func(v *wv.V) bool {
			enumerated++
			if enumerated <= 3 || enumerated%5000 == 0 {
				c.rep.Sample("enumerated: " + v.Text())
			}
			c02Value(c, v, "enumerated")
			return true
		})
	}
	c.rep.Notes = append(c.rep.Notes, fmt.Sprintf("bounded-exhaustive enumeration: %d values with ≤%d nodes over tiny leaf domains", enumerated, budget))
	for i := 0; i < nRand; i++ {
		cfg := wv.GenCfg{MaxDepth: 1 + r.Intn(depth), MaxLen: r.Pick(0, 1, 2, 3, 5, 9), MaxBin: r.Pick(0, 1, 4, 40)}
		t := wv.AllTypes[r.Intn(len(wv.AllTypes))]
		v := wv.Gen(r, t, cfg, 0)
		if i < 6 {
			c.rep.Sample("random: " + v.Text())
		}
		c02Value(c, v, "random")
	}
	// a few binaries around the 1 MiB allocation threshold of ReadBinary
	for _, n := range []int{1<<20 - 1, 1 << 20, 1<<20 + 1} {
		v := &wv.V{T: wv.TStruct, Fields: []wv.Field{{ID: 1, V: &wv.V{T: wv.TBinary, Bin: r.Bytes(n)}}, {ID: 2, V: &wv.V{T: wv.TBool, U: 1}}}}
		c02Value(c, v, "threshold-binary")
		c.flush()
	}
	// two binaries above the threshold in one value (a reader must not hand out storage it reuses)
	{
		big := func(n int, seed byte) *wv.V {
			b := make([]byte, n)
			for i := range b {
				b[i] = seed + byte(i%251)
			}
			return &wv.V{T: wv.TBinary, Bin: b}
		}
		v := &wv.V{T: wv.TStruct, Fields: []wv.Field{{ID: 1, V: big(1<<20+5, 1)}, {ID: 2, V: big(1<<20+9, 77)}}}
		c02Value(c, v, "two-large-binaries")
		c.flush()
		l := &wv.V{T: wv.TList, ET: wv.TBinary, Items: []*wv.V{big(1<<20+1, 3), big(1<<20+1, 9), big(10, 5)}}
		c02Value(c, l, "two-large-binaries")
		c.flush()
	}
	// long containers of fixed-width items (payloads of several KiB: whatever block size a reader
	// works with, records straddle its boundaries), and binaries around small buffer sizes
	{
		fixed := []byte{wv.TBool, wv.TI8, wv.TI16, wv.TI32, wv.TI64, wv.TDouble}
		scalar := func(t byte, i int) *wv.V {
			u := uint64(i)*0x9e3779b97f4a7c15 + 1
			switch t {
			case wv.TBool:
				u = uint64(i) & 1
			case wv.TI8:
				u &= 0xff
			case wv.TI16:
				u &= 0xffff
			case wv.TI32:
				u &= 0xffffffff
			case wv.TDouble:
				u = uint64(0x4000000000000000) + uint64(i) // finite, distinct
			}
			return &wv.V{T: t, U: u}
		}
		nBig := 10
		if *tier == "thorough" {
			nBig = 60
		}
		for i := 0; i < nBig; i++ {
			kt, vt := fixed[r.Intn(len(fixed))], fixed[r.Intn(len(fixed))]
			n := 300 + r.Intn(1500)
			m := &wv.V{T: wv.TMap, KT: kt, ET: vt}
			for j := 0; j < n; j++ {
				m.Items = append(m.Items, scalar(kt, j), scalar(vt, j+7))
			}
			c02Value(c, m, "long-fixed-width-container")
			et := fixed[r.Intn(len(fixed))]
			l := &wv.V{T: []byte{wv.TList, wv.TSet}[r.Intn(2)], ET: et}
			for j, n := 0, 600+r.Intn(5000); j < n; j++ {
				l.Items = append(l.Items, scalar(et, j))
			}
			c02Value(c, &wv.V{T: wv.TStruct, Fields: []wv.Field{{ID: 1, V: l}, {ID: 2, V: m}, {ID: 3, V: scalar(wv.TI32, i)}}}, "long-fixed-width-container")
			c.flush()
		}
		// containers of more than 2^16 items (a size kept in 16 bits, or capped, shows up here);
		// against the reference codec and the reuse probe only: the driver is slow on them
		c.skipModel = true
		for _, n := range []int{65536, 65537} {
			l := &wv.V{T: wv.TList, ET: wv.TI8}
			for j := 0; j < n; j++ {
				l.Items = append(l.Items, scalar(wv.TI8, j))
			}
			c02Value(c, &wv.V{T: wv.TStruct, Fields: []wv.Field{{ID: 1, V: l}, {ID: 2, V: scalar(wv.TI32, n)}}}, "container-over-2^16-items")
			c.flush()
		}
		{
			m := &wv.V{T: wv.TMap, KT: wv.TI32, ET: wv.TBool}
			for j := 0; j < 65537; j++ {
				m.Items = append(m.Items, scalar(wv.TI32, j), scalar(wv.TBool, j))
			}
			c02Value(c, m, "container-over-2^16-items")
			st := &wv.V{T: wv.TSet, ET: wv.TI16}
			for j := 0; j < 65540; j++ {
				st.Items = append(st.Items, scalar(wv.TI16, j))
			}
			c02Value(c, st, "container-over-2^16-items")
			c.flush()
		}
		c.skipModel = false
		for n := 120; n <= 300; n++ { // every length around typical scratch-buffer sizes
			b := r.Bytes(n)
			c02Value(c, &wv.V{T: wv.TStruct, Fields: []wv.Field{{ID: 1, V: &wv.V{T: wv.TBinary, Bin: b}}, {ID: 2, V: scalar(wv.TI64, n)}}}, "binary-lengths-120-300")
		}
		for _, n := range []int{511, 512, 513, 1023, 1024, 1025, 4095, 4096, 4097, 8191, 8192, 8193, 65535, 65536, 65537} {
			c02Value(c, &wv.V{T: wv.TStruct, Fields: []wv.Field{{ID: 1, V: &wv.V{T: wv.TBinary, Bin: r.Bytes(n)}}, {ID: 2, V: scalar(wv.TI64, n)}}}, "binary-lengths-power-of-two")
		}
	}
	c.flush()
	c.rep.Rule = "values: bounded-exhaustive enumeration of small shapes + random typed values (all 11 types, nested, raw element-type bytes on empty containers, extreme ints, special doubles) + binaries at the 1 MiB threshold, two over-threshold binaries per value, long maps/lists/sets of fixed-width items (300–6000 entries; four of 2^16 … 2^16+4 items, without the model), every binary length 120–300 and around powers of two up to 64 KiB; Encode and the stream writer alternately into a *bytes.Buffer and into a writer that is an io.Writer and nothing else; random-access decode through bytes.Reader and through a ReaderAt that returns io.EOF together with the last bytes; every third value preceded by an Encode and a stream-writer sequence of the same value into a destination that fails half-way; stream reads and skips (every other non-seekable reader with a Seek method that always fails, like the read end of a pipe; binaries alternately through ReadBinary and ReadString) under rotating segmentation (whole, 1, 3, 7 bytes, and 1 or 2 bytes after a zero-length read each), every other reader returning its last byte together with io.EOF; every third value is also read from a stream that goes on behind it (consumption must be exact), every third from a bytes.Buffer that is reset and refilled before the value is looked at; random-access decodes also through a bytes.Reader that has been read from before; every fourth value (and every large one) is also decoded, encoded, forced with wire.EvaluateValue, followed by other decodes, and encoded and read again: it must still be the original; non-trivial = has more than one node or is a double/binary; distinct by canonical text"
}

// ---- C03 ----

func mutate(r *rng.R, b []byte) []byte {
	b = append([]byte{}, b...)
	n := 1 + r.Intn(3)
	for k := 0; k < n; k++ {
		if len(b) == 0 {
			b = append(b, byte(r.U64()))
			continue
		}
		i := r.Intn(len(b))
		switch r.Intn(9) {
		case 0:
			b[i] ^= 1 << uint(r.Intn(8))
		case 1:
			b[i] = byte(r.U64())
		case 2:
			b[i] = wv.AllTypes[r.Intn(len(wv.AllTypes))]
		case 3: // 4-byte length/count edit
			if i+4 <= len(b) {
				vals := [][]byte{{0xff, 0xff, 0xff, 0xff}, {0x7f, 0xff, 0xff, 0xff}, {0x80, 0, 0, 0}, {0, 0, 0, 0}, {0, 0, 0, 1}, {0, 1, 0, 0}}
				copy(b[i:], vals[r.Intn(len(vals))])
			}
		case 4:
			b = b[:i] // truncate
		case 5:
			b = append(b[:i], append([]byte{byte(r.U64())}, b[i:]...)...) // insert
		case 6:
			b = append(b[:i], b[i+1:]...) // delete
		case 7:
			b[i] = []byte{0, 1, 2, 0xff, 0x80}[r.Intn(5)]
		case 8:
			b = append(b, r.Bytes(r.Intn(4))...)
		}
	}
	return b
}

func c03Input(c *checker, r *rng.R, t byte, b []byte, how string) {
	hexb := hx(b)
	key := fmt.Sprintf("%d %s", t, hexb)
	sizes := randomSizes(r, len(b))

	wdEnter("L " + key)
	defer wdLeave()
	l, lv, loff := implLazy(t, b)
	ev := implEvaluate(t, b)
	s, sv, soff := implStream(t, b, sizes)
	k0, k0n := implSkip(false, t, b, sizes)
	k1, k1n := implSkip(true, t, b, nil)

	okL, okS := strings.HasPrefix(l, "ok "), strings.HasPrefix(s, "ok ")
	c.rep.Hist("how", how)
	c.rep.Hist("requested-type", fmt.Sprint(t))
	outcome := "both-err"
	if okL && okS {
		outcome = "both-ok"
	} else if okL != okS {
		outcome = "lazy/stream-differ"
	}
	c.rep.Hist("outcome", outcome)
	c.rep.Case(key, okL || okS || len(b) > 0)

	for _, x := range []string{l, ev, s, k0, k1} {
		if strings.HasPrefix(x, "panic") {
			c.oracle("C03 panic", key, x, "decoder panicked")
		}
	}
	if okL != (ev == "ok") {
		c.oracle("C03 EvaluateValue≠forcing", "L "+key, ev, "EvaluateValue and an explicit ForEach walk disagree on success: "+l)
	}
	if okL {
		re := implEncode(lv)
		if loff > int64(len(b)) || re != "ok "+hx(b[:loff]) {
			c.oracle("C03 re-encode≠consumed prefix (random-access)", "L "+key, l, "re-encoded: "+re)
		}
		if k1 != fmt.Sprintf("ok %d", loff) || k1n != loff {
			c.oracle("C03 skip≠decode length (seekable)", "K 1 "+key, k1, "decode consumed "+fmt.Sprint(loff))
		}
	}
	if okS {
		re := implEncode(sv)
		if re != "ok "+hx(b[:soff]) {
			c.oracle("C03 re-encode≠consumed prefix (stream)", "D "+key, s, "re-encoded: "+re)
		}
		if k0 != fmt.Sprintf("ok %d", soff) || k0n != int64(soff) {
			c.oracle("C03 skip≠decode length (stream)", "K 0 "+key, k0, "decode consumed "+fmt.Sprint(soff))
		}
	}
	if okL != okS || (okL && l != s) {
		c.oracle("C03 readers disagree", key, l, "stream reader: "+s)
	}
	c.expect("C03 Decode+force vs model decF", "L "+key, l)
	c.expect("C03 stream read vs model dec", "D "+key, s)
	c.expect("C03 Skip (stream) vs model skip", "K 0 "+key, k0)
	c.expect("C03 Skip (seek) vs model skip", "K 1 "+key, k1)
	if len(c.pend) > 20000 {
		c.flush()
	}
}

func runC03(c *checker, r *rng.R) {
	nValid, nMut, nRand := 4000, 30000, 8000
	if *tier == "thorough" {
		nValid, nMut, nRand = 60000, 900000, 200000
	}
	anyType := func() byte {
		if r.Chance(1, 12) {
			return byte(r.U64())
		}
		return wv.AllTypes[r.Intn(len(wv.AllTypes))]
	}
	// valid encodings, and truncation at every offset of small ones
	for i := 0; i < nValid; i++ {
		cfg := wv.GenCfg{MaxDepth: 1 + r.Intn(4), MaxLen: r.Pick(0, 1, 2, 3, 5), MaxBin: r.Pick(0, 1, 4, 20)}
		t := wv.AllTypes[r.Intn(len(wv.AllTypes))]
		v := wv.Gen(r, t, cfg, 0)
		b := v.Encode(nil)
		if i < 3 {
			c.rep.Sample(fmt.Sprintf("valid: type %d bytes %s", t, hx(b)))
		}
		c03Input(c, r, t, b, "valid")
		if len(b) <= 24 {
			for k := 0; k < len(b); k++ {
				c03Input(c, r, t, b[:k], "truncated")
			}
		}
		if r.Chance(1, 4) {
			c03Input(c, r, anyType(), b, "valid-wrong-type")
		}
	}
	for i := 0; i < nMut; i++ {
		cfg := wv.GenCfg{MaxDepth: 1 + r.Intn(4), MaxLen: r.Pick(0, 1, 2, 3, 5), MaxBin: r.Pick(0, 1, 4, 20)}
		t := wv.AllTypes[7+r.Intn(4)]
		if r.Chance(1, 4) {
			t = wv.AllTypes[r.Intn(len(wv.AllTypes))]
		}
		v := wv.Gen(r, t, cfg, 0)
		b := mutate(r, v.Encode(nil))
		if i < 4 {
			c.rep.Sample(fmt.Sprintf("mutated: type %d bytes %s", t, hx(b)))
		}
		if r.Chance(1, 10) {
			t = anyType()
		}
		c03Input(c, r, t, b, "mutated")
	}
	// exactly one bool byte outside {0,1}, wherever a bool can sit: in containers (validated lazily by
	// the random-access decoder), in structs used as map keys / values / list elements, at any depth
	for i := 0; i < nMut/6; i++ {
		bl := func() *wv.V { return &wv.V{T: wv.TBool, U: uint64(r.Intn(2))} }
		inner := []*wv.V{
			{T: wv.TList, ET: wv.TBool, Items: []*wv.V{bl(), bl(), bl()}},
			{T: wv.TSet, ET: wv.TBool, Items: []*wv.V{bl()}},
			{T: wv.TMap, KT: wv.TBool, ET: wv.TI8, Items: []*wv.V{bl(), {T: wv.TI8, U: 7}}},
			{T: wv.TMap, KT: wv.TI16, ET: wv.TBool, Items: []*wv.V{{T: wv.TI16, U: 3}, bl(), {T: wv.TI16, U: 4}, bl()}},
			bl(),
		}[r.Intn(5)]
		st := func(x *wv.V) *wv.V {
			return &wv.V{T: wv.TStruct, Fields: []wv.Field{{ID: 1, V: &wv.V{T: wv.TI32, U: uint64(i)}}, {ID: uint16(2 + r.Intn(3)), V: x}}}
		}
		var v *wv.V
		switch r.Intn(7) {
		case 0: // struct-typed map key
			v = &wv.V{T: wv.TMap, KT: wv.TStruct, ET: wv.TI8, Items: []*wv.V{st(inner), {T: wv.TI8, U: 1}}}
		case 1: // struct-typed map value
			v = &wv.V{T: wv.TMap, KT: wv.TI8, ET: wv.TStruct, Items: []*wv.V{{T: wv.TI8, U: 1}, st(inner)}}
		case 2:
			v = &wv.V{T: wv.TList, ET: wv.TStruct, Items: []*wv.V{st(bl()), st(inner)}}
		case 3:
			v = &wv.V{T: wv.TSet, ET: wv.TStruct, Items: []*wv.V{st(st(inner))}}
		case 4:
			v = st(st(inner))
		case 5: // container-typed map key
			k := &wv.V{T: wv.TList, ET: wv.TBool, Items: []*wv.V{bl(), bl()}}
			v = &wv.V{T: wv.TMap, KT: wv.TList, ET: wv.TStruct, Items: []*wv.V{k, st(inner)}}
		default:
			v = wv.Gen(r, wv.AllTypes[7+r.Intn(4)], wv.GenCfg{MaxDepth: 2 + r.Intn(3), MaxLen: r.Pick(1, 2, 3), MaxBin: 4}, 0)
		}
		if !v.PoisonBool(r) {
			continue
		}
		c03Input(c, r, v.T, v.Encode(nil), "one-invalid-bool")
	}
	for i := 0; i < nRand; i++ {
		b := r.Bytes(r.Intn(24))
		if r.Chance(1, 2) && len(b) > 0 { // bias towards plausible headers
			b[0] = wv.AllTypes[r.Intn(len(wv.AllTypes))]
		}
		c03Input(c, r, anyType(), b, "random")
	}
	// valid values nested deeply, one item per level: 8 … 1000 levels of lists, sets, map values,
	// struct fields, or a mix (a decoder that does per-level work proportional to what lies below,
	// or worse, shows up as a hang under the watchdog)
	for _, depth := range []int{8, 16, 24, 32, 48, 64, 128, 256, 1000} {
		for kind := 0; kind < 5; kind++ {
			v := &wv.V{T: wv.TI8, U: 7}
			for i := 0; i < depth; i++ {
				k := kind
				if kind == 4 {
					k = r.Intn(4)
				}
				switch k {
				case 0:
					v = &wv.V{T: wv.TStruct, Fields: []wv.Field{{ID: uint16(1 + i%3), V: v}}}
				case 1:
					v = &wv.V{T: wv.TList, ET: v.T, Items: []*wv.V{v}}
				case 2:
					v = &wv.V{T: wv.TSet, ET: v.T, Items: []*wv.V{v}}
				default:
					v = &wv.V{T: wv.TMap, KT: wv.TI8, ET: v.T, Items: []*wv.V{{T: wv.TI8, U: 1}, v}}
				}
			}
			c03Input(c, r, v.T, v.Encode(nil), "deep-nesting")
			c.flush()
		}
	}
	c.flush()
	// binaries whose declared length lies above the 1 MiB threshold of ReadBinary (above it the
	// readers copy in pieces instead of allocating the declared length) and whose payload stops
	// short — exactly at a multiple of 1 MiB, at other block sizes a copier may use, and one byte
	// either side: nothing but an error is acceptable (seeded change C03-64: a piece that returns
	// io.EOF without a byte was taken for the end of the value)
	{
		type cut struct{ decl, have int }
		cuts := []cut{{1<<20 + 1, 1 << 20}, {2<<20 + 7, 1 << 20}, {2<<20 + 7, 2 << 20}, {3 << 20, 1<<20 + 1}, {2 << 20, 1<<20 - 1}, {1<<20 + 1, 4096}, {3 << 20, 65536}}
		if *tier == "thorough" {
			for k := 1; k <= 4; k++ {
				cuts = append(cuts, cut{5<<20 + 3, k << 20}, cut{k<<20 + 1, k << 20})
			}
			for sh := uint(9); sh <= 21; sh++ {
				cuts = append(cuts, cut{4 << 20, 1 << sh}, cut{1<<20 + 1<<sh + 1, 1<<20 + 1<<sh})
			}
		}
		for i, d := range cuts {
			b := make([]byte, 4+d.have)
			b[0], b[1], b[2], b[3] = byte(d.decl>>24), byte(d.decl>>16), byte(d.decl>>8), byte(d.decl)
			for j := 4; j < len(b); j++ {
				b[j] = byte(j % 251)
			}
			if i%2 == 0 {
				c03Input(c, r, wv.TBinary, b, "large-binary-cut-at-block-boundary")
			} else { // as field 1 of a struct
				c03Input(c, r, wv.TStruct, append([]byte{wv.TBinary, 0, 1}, b...), "large-binary-cut-at-block-boundary")
			}
			c.flush()
		}
	}
	c03DeepProbe(c)
	c.rep.Rule = "byte strings: valid encodings, binaries declared above 1 MiB whose payload stops at a multiple of 1 MiB / 4 KiB / 64 KiB or one byte beside it, truncation at every offset of encodings ≤24 bytes, grammar-aware mutations (bit/byte flips, type-byte swaps, length/count edits incl. negative and 2^31-1, insert/delete/truncate/append), uniform random, valid values nested 8 … 1000 levels deep (one item per level: lists, sets, map values, struct fields, mixed); × requested type (11 valid + random invalid) × {random-access+force, stream under random segmentation incl. 1-byte and zero-length reads, skip with and without seek}; non-trivial = non-empty input; distinct by (type, bytes)"
}

// deepChild is the body of the child process of c03DeepProbe: struct-in-struct nesting of `depth`
// levels (4·depth+1 bytes) through Skip and through the random-access decoder, under a goroutine
// stack limit of 64 MiB (Go's default is 1 GiB: the same recursion then needs ~16 times the depth).
func deepChild(mode string, depth int) {
	debug.SetMaxStack(64 << 20)
	b := bytes.Repeat([]byte{wv.TStruct, 0, 1}, depth)
	b = append(b, bytes.Repeat([]byte{0}, depth+1)...)
	var err error
	if mode == "skip" {
		sr := binary.NewStreamReader(bytes.NewReader(b))
		err = sr.Skip(wire.TStruct)
		sr.Close()
	} else {
		_, err = binary.Default.Decode(bytes.NewReader(b), wire.TStruct)
	}
	fmt.Println("returned", err)
}

// c03DeepProbe: known finding D78. Skip and both decoders recurse once per nesting level without a
// bound of their own; input nested deeply enough exhausts the goroutine stack, which is a fatal
// error of the Go runtime (it cannot be recovered, the process dies).
func c03DeepProbe(c *checker) {
	for _, mode := range []string{"skip", "decode"} {
		cmd := exec.Command(os.Args[0])
		cmd.Env = append(os.Environ(), "VERIF_DEEP_CHILD="+mode, "GOMEMLIMIT=2GiB")
		out, err := cmd.CombinedOutput()
		c.rep.Hist("how", "D78 probe: 600000 nested structs in a child with a 64 MiB stack limit")
		switch {
		case err != nil && strings.Contains(string(out), "stack overflow"):
			c.rep.Known = append(c.rep.Known, report.Known{ID: "D78", What: fmt.Sprintf("%s of 600 000 nested structs (2.4 MB) under a 64 MiB goroutine stack limit: fatal error: stack overflow, the process dies (with Go's default 1 GiB limit about 4 000 000 levels, 16 MB, do the same)", mode)})
		case err == nil && strings.HasPrefix(string(out), "returned"):
			c.rep.Notes = append(c.rep.Notes, "D78 probe ("+mode+"): the child returned normally ("+strings.TrimSpace(string(out))+") — the finding appears to be repaired; known_findings.json should say so")
		default:
			c.oracle("C03 deep-nesting probe died in an unexpected way", "deep "+mode, summarizeOut(string(out)), fmt.Sprint(err))
		}
	}
}

func summarizeOut(s string) string {
	if len(s) > 400 {
		return s[:400] + "…"
	}
	return s
}

func main() {
	if mode := os.Getenv("VERIF_DEEP_CHILD"); mode != "" {
		deepChild(mode, 600000)
		return
	}
	flag.Parse()
	rep := report.New(*prop)
	c := &checker{rep: rep}
	startWatchdog(rep)
	r := rng.FromEnv(0x1000)
	if *replay != "" {
		runReplay(c, *replay)
	} else {
		runCorpus(c, *corpus)
		switch *prop {
		case "C02":
			runC02(c, r)
		case "C03":
			runC03(c, r)
		case "C12":
			runC12(c, r)
		case "C13":
			runC13(c, r)
		default:
			fmt.Fprintln(os.Stderr, "unknown property", *prop)
			os.Exit(2)
		}
	}
	if err := rep.Write(*out); err != nil {
		fmt.Fprintln(os.Stderr, err)
		os.Exit(3)
	}
}
