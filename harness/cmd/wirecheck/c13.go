package main

import (
	"bytes"
	"context"
	"fmt"
	"io"
	"os"
	"runtime"
	"strings"
	"syscall"
	"time"
	"verifharness/internal/report"

	"go.uber.org/thriftrw/protocol/binary"
	"go.uber.org/thriftrw/protocol/stream"
	"go.uber.org/thriftrw/verifhook"
	"go.uber.org/thriftrw/wire"

	"verifharness/internal/rng"
	"verifharness/internal/wv"
)

// drain reads one value of type t through the stream.Reader primitives without
// building anything (so that the measured allocation is the reader's own).
func drain(r stream.Reader, t byte) error {
	switch t {
	case wv.TBool:
		_, err := r.ReadBool()
		return err
	case wv.TI8:
		_, err := r.ReadInt8()
		return err
	case wv.TI16:
		_, err := r.ReadInt16()
		return err
	case wv.TI32:
		_, err := r.ReadInt32()
		return err
	case wv.TI64:
		_, err := r.ReadInt64()
		return err
	case wv.TDouble:
		_, err := r.ReadDouble()
		return err
	case wv.TBinary:
		_, err := r.ReadBinary()
		return err
	case wv.TStruct:
		if err := r.ReadStructBegin(); err != nil {
			return err
		}
		fh, ok, err := r.ReadFieldBegin()
		if err != nil {
			return err
		}
		for ok {
			if err := drain(r, byte(fh.Type)); err != nil {
				return err
			}
			if err := r.ReadFieldEnd(); err != nil {
				return err
			}
			if fh, ok, err = r.ReadFieldBegin(); err != nil {
				return err
			}
		}
		return r.ReadStructEnd()
	case wv.TMap:
		mh, err := r.ReadMapBegin()
		if err != nil {
			return err
		}
		for i := 0; i < mh.Length; i++ {
			if err := drain(r, byte(mh.KeyType)); err != nil {
				return err
			}
			if err := drain(r, byte(mh.ValueType)); err != nil {
				return err
			}
		}
		return r.ReadMapEnd()
	case wv.TSet:
		sh, err := r.ReadSetBegin()
		if err != nil {
			return err
		}
		for i := 0; i < sh.Length; i++ {
			if err := drain(r, byte(sh.Type)); err != nil {
				return err
			}
		}
		return r.ReadSetEnd()
	case wv.TList:
		lh, err := r.ReadListBegin()
		if err != nil {
			return err
		}
		for i := 0; i < lh.Length; i++ {
			if err := drain(r, byte(lh.Type)); err != nil {
				return err
			}
		}
		return r.ReadListEnd()
	}
	return fmt.Errorf("unknown type")
}

type drainBody struct{}

func (drainBody) Decode(r stream.Reader) error { return drain(r, wv.TStruct) }

// measure returns the bytes allocated while f runs (single goroutine).
func measure(f func()) uint64 {
	var m0, m1 runtime.MemStats
	runtime.ReadMemStats(&m0)
	f()
	runtime.ReadMemStats(&m1)
	return m1.TotalAlloc - m0.TotalAlloc
}

// lenOffsets returns the offsets of every 4-byte length/count in the encoding of v.
func lenOffsets(v *wv.V, base int, out *[]int) int {
	switch v.T {
	case wv.TBool, wv.TI8:
		return base + 1
	case wv.TI16:
		return base + 2
	case wv.TI32:
		return base + 4
	case wv.TI64, wv.TDouble:
		return base + 8
	case wv.TBinary:
		*out = append(*out, base)
		return base + 4 + len(v.Bin)
	case wv.TStruct:
		for _, f := range v.Fields {
			base = lenOffsets(f.V, base+3, out)
		}
		return base + 1
	case wv.TMap:
		*out = append(*out, base+2)
		base += 6
	case wv.TSet, wv.TList:
		*out = append(*out, base+1)
		base += 5
	}
	for _, it := range v.Items {
		base = lenOffsets(it, base, out)
	}
	return base
}

var bigLens = []uint32{1 << 16, 1<<20 - 1, 1 << 20, 1<<20 + 1, 1 << 24, 1 << 27, 1<<31 - 1, 0xffffffff, 0x80000000}

const (
	c13Const = 12 << 20 // the property's "fixed constant"
	c13PerN  = 64
	c13Slack = 48 << 10 // runtime noise + reader object + error values
)

func c13Case(c *checker, api string, t byte, b []byte) {
	n := len(b)
	key := fmt.Sprintf("%s %d %s", api, t, hx(b))
	var got uint64
	var modelOp string
	switch api {
	case "env-stream", "env-decode", "env-stream-seekable":
		wdEnter("A env " + hx(b))
	case "frame", "frame8", "frame-after-large":
		wdEnter("A frame " + hx(b))
	default:
		wdEnter(fmt.Sprintf("A stream %d %s", t, hx(b)))
	}
	defer wdLeave()
	t0 := cpuTime()
	p := safely(func() {
		switch api {
		case "stream":
			modelOp = fmt.Sprintf("A stream %d %s", t, hx(b))
			got = measure(func() {
				sr := binary.Default.Reader(newChunkReader(b, nil))
				_ = drain(sr, t)
				sr.Close()
			})
		case "stream-seekable":
			// the streaming reader over a source that can seek (a file, a bytes.Reader): what the
			// source "has" beyond its end must not be taken on trust
			got = measure(func() {
				sr := binary.Default.Reader(bytes.NewReader(b))
				_ = drain(sr, t)
				sr.Close()
			})
		case "stream-skip":
			got = measure(func() {
				sr := binary.NewStreamReader(newChunkReader(b, nil))
				_ = sr.Skip(wire.Type(t))
				sr.Close()
			})
		case "lazy":
			got = measure(func() {
				w, err := binary.Default.Decode(raSource(b), wire.Type(t))
				if err == nil {
					_ = wire.EvaluateValue(w)
				}
			})
		case "env-stream":
			modelOp = "A env " + hx(b)
			got = measure(func() {
				sr := binary.NewStreamReader(newChunkReader(b, nil))
				_, _ = sr.ReadEnvelopeBegin()
				sr.Close()
			})
		case "env-stream-seekable":
			got = measure(func() {
				sr := binary.NewStreamReader(bytes.NewReader(b))
				_, _ = sr.ReadEnvelopeBegin()
				sr.Close()
			})
		case "read-request-seekable":
			got = measure(func() {
				_, _ = binary.Default.ReadRequest(context.Background(), wire.Call, bytes.NewReader(b), drainBody{})
			})
		case "env-decode":
			got = measure(func() {
				e, err := binary.Default.DecodeEnveloped(raSource(b))
				if err == nil {
					_ = wire.EvaluateValue(e.Value)
				}
			})
		case "decode-request":
			got = measure(func() {
				v, _, err := binary.Default.DecodeRequest(wire.Call, raSource(b))
				if err == nil {
					_ = wire.EvaluateValue(v)
				}
			})
		case "read-request":
			got = measure(func() {
				_, _ = binary.Default.ReadRequest(context.Background(), wire.Call, newChunkReader(b, nil), drainBody{})
			})
		case "frame":
			modelOp = "A frame " + hx(b)
			got = measure(func() {
				fr := verifhook.NewFrameReader(io.NopCloser(newChunkReader(b, nil)))
				_, _ = fr.Read()
			})
		case "frame-after-large":
			// state left behind: the same reader has read a genuine frame of 33 MiB before (only the
			// read of the second frame, the bare header b with a few bytes, is measured)
			big := make([]byte, 4+33<<20)
			big[0], big[1], big[2], big[3] = 0x02, 0x10, 0, 0 // 33 MiB
			fr := verifhook.NewFrameReader(io.NopCloser(io.MultiReader(bytes.NewReader(big), newChunkReader(b, nil))))
			if first, err := fr.Read(); err != nil || len(first) != 33<<20 {
				panic(fmt.Sprintf("the genuine first frame was not read: %d bytes, %v", len(first), err))
			}
			got = measure(func() {
				_, _ = fr.Read()
			})
		case "frame8":
			// the threshold between the pre-allocating and the copying path lowered to 8 bytes
			// (verif hook), so that an input of a few bytes delivers "a threshold's worth" of a
			// frame that declares far more
			modelOp = "A frameat 8 " + hx(b)
			old := verifhook.SetFastPathFrameSize(8)
			got = measure(func() {
				fr := verifhook.NewFrameReader(io.NopCloser(newChunkReader(b, nil)))
				_, _ = fr.Read()
			})
			verifhook.SetFastPathFrameSize(old)
		}
	})
	elapsed := cpuTime() - t0 // CPU time of this process, not wall time: a loaded machine must not raise an alarm
	c.rep.Hist("api", api)
	c.rep.Case(key, true)
	if elapsed > time.Second {
		c.oracle("C13 work not linear in the input size", key, fmt.Sprintf("took %.2fs of CPU time", elapsed.Seconds()),
			fmt.Sprintf("N=%d bytes; bound 1s", n))
		slowCases++
		if slowCases >= 3 { // every further case would be as slow: report what was found and stop
			c.flushCost()
			c.rep.Rule = "stopped early after 3 inputs whose decoding took more than 1 s each"
			c.rep.Write(*out)
			os.Exit(0)
		}
	}
	if p != "" {
		c.oracle("C13 panic", key, "panic "+p, "decoder panicked")
		return
	}
	bucket := "≤64KiB"
	if got > 64<<10 {
		bucket = "≤2MiB"
	}
	if got > 2<<20 {
		bucket = "≤12MiB"
	}
	if got > 12<<20 {
		bucket = ">12MiB"
	}
	c.rep.Hist("measured-alloc", bucket)
	if got > uint64(c13Const+c13PerN*n) {
		c.oracle("C13 allocation not bounded by input size", key, fmt.Sprintf("allocated %d bytes", got),
			fmt.Sprintf("N=%d; bound %d", n, c13Const+c13PerN*n))
	}
	if modelOp != "" {
		c.pendCost = append(c.pendCost, pendingCost{op: modelOp, got: got, key: key, n: n})
	}
}

var slowCases int

// readerAtOnly has ReadAt and nothing else: no Size, no Len, no Seek (an *os.File, or any wrapper
// an application puts around its source, looks like this to the random-access decoder).
type readerAtOnly struct{ r *bytes.Reader }

func (r readerAtOnly) ReadAt(p []byte, off int64) (int, error) { return r.r.ReadAt(p, off) }

var raAlt int

// raSource is the source of a random-access decode: alternately a bytes.Reader and a readerAtOnly.
func raSource(b []byte) io.ReaderAt {
	if raAlt++; raAlt%2 == 0 {
		return readerAtOnly{bytes.NewReader(b)}
	}
	return bytes.NewReader(b)
}

type pendingCost struct {
	op  string
	got uint64
	key string
	n   int
}

func (c *checker) flushCost() {
	if len(c.pendCost) == 0 {
		return
	}
	ops := make([]string, len(c.pendCost))
	for i, p := range c.pendCost {
		ops[i] = p.op
	}
	ans, err := lineprotoRun(ops)
	if err != nil {
		panic(err)
	}
	for i, p := range c.pendCost {
		var pred uint64
		if _, err := fmt.Sscanf(ans[i], "ok %d", &pred); err != nil {
			c.rep.Disagree(reportDis("C13 model answer", p.op, fmt.Sprint(p.got), ans[i]))
			continue
		}
		// buffered (CopyN) reads are modelled as an upper bound 4*present+1024; pre-sized
		// reads (make) are exact. So: measured ≤ predicted + slack, and when the prediction is
		// a pre-sized allocation (≥ 64 KiB and not of the 4k+1024 form) measured ≥ predicted.
		if p.got > pred+uint64(c13Slack)+uint64(200*p.n) {
			c.rep.Disagree(reportDis("C13 measured allocation exceeds the model's prediction", p.op,
				fmt.Sprintf("allocated %d", p.got), fmt.Sprintf("predicted %d", pred)))
		}
		if pred >= 64<<10 && p.got+1024 < pred {
			c.rep.Disagree(reportDis("C13 model predicts a pre-sized allocation the implementation did not make", p.op,
				fmt.Sprintf("allocated %d", p.got), fmt.Sprintf("predicted %d", pred)))
		}
	}
	c.pendCost = c.pendCost[:0]
}

func runC13(c *checker, r *rng.R) {
	nVals := 2500
	if *tier == "thorough" {
		nVals = 40000
	}
	apis := []string{"stream", "stream-seekable", "stream-skip", "lazy"}
	put32 := func(b []byte, off int, v uint32) []byte {
		o := append([]byte{}, b...)
		o[off], o[off+1], o[off+2], o[off+3] = byte(v>>24), byte(v>>16), byte(v>>8), byte(v)
		return o
	}
	for i := 0; i < nVals; i++ {
		cfg := wv.GenCfg{MaxDepth: 1 + r.Intn(3), MaxLen: r.Pick(1, 2, 3), MaxBin: r.Pick(0, 2, 6)}
		v := wv.Gen(r, wv.TStruct, cfg, 0)
		b := v.Encode(nil)
		if len(b) > 64 {
			continue
		}
		var offs []int
		lenOffsets(v, 0, &offs)
		if i < 3 {
			c.rep.Sample(fmt.Sprintf("message %s with length positions %v", hx(b), offs))
		}
		for _, off := range offs {
			if off+4 > len(b) {
				continue
			}
			for _, L := range bigLens {
				mb := put32(b, off, L)
				c.rep.Hist("declared-length", fmt.Sprintf("%#x", L))
				for _, api := range apis {
					c13Case(c, api, wv.TStruct, mb)
				}
				// the same message inside envelopes and request readers
				e := env{name: []byte("m"), etype: 1, seqid: 7, body: v}
				for _, strict := range []bool{true, false} {
					x := implEncEnv(strict, e)
					eb := unhx(x[3:])
					hdr := len(eb) - len(b)
					meb := put32(eb, hdr+off, L)
					for _, api := range []string{"env-decode", "decode-request", "read-request"} {
						c13Case(c, api, 0, meb)
					}
				}
			}
		}
	}
	for _, L := range []uint32{1 << 24, 24 << 20, 32 << 20, 33 << 20} {
		c13Case(c, "frame-after-large", 0, append(put32(make([]byte, 4), 0, L), 'a', 'b', 'c'))
	}
	// envelope name length and frame length positions; top-level containers of every element type
	for _, L := range bigLens {
		for _, tail := range [][]byte{{}, {0}, {1, 0, 0, 0, 7, 0}, bytes.Repeat([]byte{'a'}, 40)} {
			legacy := append(put32(make([]byte, 4), 0, L), tail...)
			strict := append(append([]byte{0x80, 1, 0, 1}, put32(make([]byte, 4), 0, L)...), tail...)
			for _, b := range [][]byte{legacy, strict} {
				c13Case(c, "env-stream", 0, b)
				c13Case(c, "env-stream-seekable", 0, b)
				c13Case(c, "env-decode", 0, b)
				c13Case(c, "decode-request", 0, b)
				c13Case(c, "read-request", 0, b)
				c13Case(c, "read-request-seekable", 0, b)
			}
			c13Case(c, "frame", 0, legacy)
			c13Case(c, "frame8", 0, legacy)
		}
		for _, present := range []int{7, 8, 9, 16, 33} {
			c13Case(c, "frame8", 0, append(put32(make([]byte, 4), 0, L), bytes.Repeat([]byte{'a'}, present)...))
		}
		// element types: the defined ones, and codes the protocol does not define (a reader that
		// learns to step over a new code must not do so one element at a time for a declared count)
		for _, et := range append(append([]byte{}, wv.AllTypes...), 0, 1, 5, 7, 9, 16, 17, 18, 32, 127, 128, 255) {
			lst := append([]byte{et}, put32(make([]byte, 4), 0, L)...)
			lst = append(lst, 0, 0, 0, 0, 0, 0, 0, 0, 0)
			for _, t := range []byte{wv.TList, wv.TSet} {
				for _, api := range apis {
					c13Case(c, api, t, lst)
				}
			}
			m := append([]byte{et, wv.AllTypes[r.Intn(len(wv.AllTypes))]}, put32(make([]byte, 4), 0, L)...)
			m = append(m, 0, 0, 0, 0, 0, 0, 0, 0, 0, 0, 0, 0, 0, 0, 0, 0, 0, 0)
			for _, api := range apis {
				c13Case(c, api, wv.TMap, m)
			}
			// … and as a field of a struct
			sf := append([]byte{wv.TList, 0, 1}, lst...)
			sf = append(sf, 0)
			for _, api := range apis {
				c13Case(c, api, wv.TStruct, sf)
			}
		}
	}
	c13DeepNesting(c)
	c.flushCost()
	c.rep.Rule = "messages ≤ 64 bytes (random structs, optionally enveloped strict/legacy) with every 4-byte length/count position set to each of {2^16, 2^20-1, 2^20, 2^20+1, 2^24, 2^27, 2^31-1, 0xffffffff, 0x80000000}; top-level containers of every element type (the 11 defined codes and 12 undefined ones); envelope name length; frame length (also with the frame reader's threshold lowered to 8 bytes and 7..40 bytes of the frame present, and on a reader that has read a genuine frame of 33 MiB before) × APIs {stream primitives (over a plain reader and over a seekable one), Skip, Decode+EvaluateValue, ReadEnvelopeBegin, DecodeEnveloped, DecodeRequest, ReadRequest (plain and seekable source), ReadEnvelopeBegin over a seekable source, frame reader}; the random-access APIs alternately over a bytes.Reader and over a source that has ReadAt and nothing else; deeply nested valid containers (1 item per level, up to 8000 levels: work must stay linear — known finding D79 for the lazy decoder); measured = runtime TotalAlloc delta; every case non-trivial; distinct by (api, bytes)"
	_ = strings.TrimSpace
}

// cpuTime is the CPU time (user + system) this process has consumed so far.
func cpuTime() time.Duration {
	var ru syscall.Rusage
	if err := syscall.Getrusage(syscall.RUSAGE_SELF, &ru); err != nil {
		return 0
	}
	return time.Duration(ru.Utime.Nano() + ru.Stime.Nano())
}

// c13DeepNesting: the work of decoding a VALID message must be linear in its size whatever its
// shape. Containers nested one item per level: list<list<…<i8>>>, depth d, 5·d+5 bytes. The
// streaming reader and Skip are linear. The lazy decoder is not — known finding D79: every level
// is skipped once when its parent is decoded and once more when it is forced, so Decode +
// EvaluateValue costs depth² (8000 levels, 40 KB: seconds).
func c13DeepNesting(c *checker) {
	nest := func(d int) []byte {
		b := bytes.Repeat([]byte{wv.TList, 0, 0, 0, 1}, d)
		return append(b, wv.TI8, 0, 0, 0, 0)
	}
	time1 := func(f func()) time.Duration {
		t0 := cpuTime()
		f()
		return cpuTime() - t0
	}
	for _, d := range []int{500, 2000, 8000} {
		b := nest(d)
		c.rep.Hist("how", "deep nesting")
		c.rep.Case(fmt.Sprintf("deep-nesting %d", d), true)
		input := fmt.Sprintf("A x %d %s", wv.TList, hx(b))
		// a generous linear bound: 2 µs per input byte + 50 ms
		bound := time.Duration(len(b))*2*time.Microsecond + 50*time.Millisecond
		if el := time1(func() {
			sr := binary.NewStreamReader(newChunkReader(b, nil))
			_ = sr.Skip(wire.TList)
			sr.Close()
		}); el > bound {
			c.oracle("C13 work not linear in the input size (deep nesting, Skip)", input, fmt.Sprintf("took %v of CPU time for %d bytes", el, len(b)), fmt.Sprintf("bound %v", bound))
		}
		if el := time1(func() {
			sr := binary.Default.Reader(newChunkReader(b, nil))
			_ = drain(sr, wv.TList)
			sr.Close()
		}); el > bound {
			c.oracle("C13 work not linear in the input size (deep nesting, streaming reader)", input, fmt.Sprintf("took %v of CPU time for %d bytes", el, len(b)), fmt.Sprintf("bound %v", bound))
		}
		el := time1(func() {
			w, err := binary.Default.Decode(bytes.NewReader(b), wire.TList)
			if err == nil {
				_ = wire.EvaluateValue(w)
			}
		})
		if d == 8000 {
			if el > bound {
				c.rep.Known = append(c.rep.Known, report.Known{ID: "D79", What: fmt.Sprintf("Decode + EvaluateValue of list<list<…>> nested %d levels, one item per level (%d bytes): %v of CPU time (linear bound %v); the lazy decoder skips every level once per enclosing level", d, len(b), el.Round(time.Millisecond), bound)})
			} else {
				c.rep.Notes = append(c.rep.Notes, fmt.Sprintf("D79 probe: forcing %d nested levels took %v (bound %v) — the finding appears to be repaired; known_findings.json should say so", d, el, bound))
			}
		}
	}
}
