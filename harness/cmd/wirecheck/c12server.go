package main

// C12, the glue around the codec: internal/envelope.Server and .Client, internal/multiplex.
// A server (over the multiplexer) is driven with enveloped requests in both framings and must
// answer with the request's name and sequence id, type Reply with the handler's value or type
// Exception carrying a TApplicationException; a client over a transport that calls the server
// must hand the handler's value (or the exception) back. Responses are retained across later
// requests, and the server is also shared between goroutines: a response must stay what it was.

import (
	"bytes"
	"errors"
	"fmt"
	"strings"
	"sync"

	"go.uber.org/thriftrw/protocol/binary"
	"go.uber.org/thriftrw/verifhook"
	"go.uber.org/thriftrw/wire"

	"verifharness/internal/rng"
	"verifharness/internal/wv"
)

type echoSvc struct{ tag string }

var errBoom = errors.New("boom: scripted handler failure")

// Handle answers {1: "<tag>/<method>" (binary), 2: the request body}; methods starting with
// 'u' are unknown, methods starting with 'e' fail.
func (e echoSvc) Handle(name string, body wire.Value) (wire.Value, error) {
	switch {
	case strings.HasPrefix(name, "u"):
		return wire.Value{}, verifhook.ErrUnknownMethod(name)
	case strings.HasPrefix(name, "e"):
		return wire.Value{}, errBoom
	}
	return wire.NewValueStruct(wire.Struct{Fields: []wire.Field{
		{ID: 1, Value: wire.NewValueBinary([]byte(e.tag + "/" + name))},
		{ID: 2, Value: body},
	}}), nil
}

type serverTransport struct{ srv verifhook.EnvelopeServer }

func (t serverTransport) Send(b []byte) ([]byte, error) { return t.srv.Handle(b) }

// expectedReply is what the server must answer to (service, method, body): kind "reply" with the
// text of the reply struct, or "exception".
func expectedReply(services map[string]bool, full string, body *wv.V) (kind, text string) {
	parts := strings.SplitN(full, ":", 2)
	if len(parts) < 2 || !services[parts[0]] {
		return "exception", ""
	}
	if strings.HasPrefix(parts[1], "u") || strings.HasPrefix(parts[1], "e") {
		return "exception", ""
	}
	reply := &wv.V{T: wv.TStruct, Fields: []wv.Field{{ID: 1, V: &wv.V{T: wv.TBinary, Bin: []byte(parts[0] + "/" + parts[1])}}, {ID: 2, V: body}}}
	return "reply", reply.Text()
}

func c12ServerName(r *rng.R) string {
	svc := []string{"alpha", "beta", "nosuch", "", "a:b"}[r.Intn(5)]
	method := []string{"get", "put", "unknownThing", "explode", "", "m:n", "x\xff\xfe", "ping"}[r.Intn(8)]
	if r.Chance(1, 8) {
		return method // no service part at all
	}
	if r.Chance(1, 6) {
		method = fmt.Sprintf("m%d", r.Intn(100000))
	}
	return svc + ":" + method
}

func checkServerResponse(c *checker, how, full string, etype uint8, seq uint32, body *wv.V, services map[string]bool, resp []byte, err error) {
	input := fmt.Sprintf("server %s type=%d name=%s seq=%d body=%s", how, etype, hx([]byte(full)), seq, body.Text())
	if err != nil {
		c.oracle("C12 server failed on a well-formed request", input, err.Error(), "Server.Handle must answer every well-formed Call with a Reply or an Exception envelope")
		return
	}
	e, derr := binary.Default.DecodeEnveloped(bytes.NewReader(resp))
	if derr != nil {
		c.oracle("C12 server response does not decode", input, hx(resp), derr.Error())
		return
	}
	if e.Name != full || uint32(e.SeqID) != seq {
		c.oracle("C12 server response does not echo name and sequence id", input, fmt.Sprintf("name=%s seq=%d", hx([]byte(e.Name)), uint32(e.SeqID)), "the response must carry the request's method name and sequence id")
	}
	if etype != 1 && etype != 4 {
		// not a request: an Exception envelope carrying INVALID_MESSAGE_TYPE (2); no handler ran
		c.rep.Hist("server-answer", "not a request")
		got := fmt.Sprintf("type=%d", e.Type)
		if v, verr := wv.FromWire(e.Value); verr == nil && e.Type == wire.Exception {
			for _, f := range v.Fields {
				if f.ID == 2 && f.V.T == wv.TI32 {
					got = fmt.Sprintf("exception %d", f.V.U)
				}
			}
		}
		if got != "exception 2" {
			c.oracle("C12 server ran or mis-answered an envelope that is not a request", input, got, "want a TApplicationException of type 2 (invalid message type): only Call and OneWay envelopes are requests")
		}
		return
	}
	// where the multiplexer cut the name, as the service saw it, against the model (splitColon;
	// theorems multiplexed_method_intact / multiplex_cut_at_first_colon)
	if e.Type == wire.Reply {
		if v, verr := wv.FromWire(e.Value); verr == nil && len(v.Fields) > 0 && v.Fields[0].V.T == wv.TBinary {
			b := v.Fields[0].V.Bin
			if i := bytes.IndexByte(b, '/'); i >= 0 {
				c.expect("C12 multiplex cut vs model", fmt.Sprintf("MUX %x", full), fmt.Sprintf("some %x. %x.", b[:i], b[i+1:]))
			}
		}
	} else if !strings.Contains(full, ":") {
		c.expect("C12 multiplex cut vs model", fmt.Sprintf("MUX %x", full), "none")
	}
	kind, text := expectedReply(services, full, body)
	c.rep.Hist("server-answer", kind)
	switch kind {
	case "reply":
		v, verr := wv.FromWire(e.Value)
		if e.Type != wire.Reply || verr != nil || v.Text() != text {
			got := "?"
			if verr == nil {
				got = v.Text()
			}
			c.oracle("C12 server reply is not the handler's value", input, fmt.Sprintf("type=%d %s", e.Type, got), "want type=2 "+text)
		}
	default:
		if e.Type != wire.Exception {
			c.oracle("C12 server did not answer with an exception", input, fmt.Sprintf("type=%d", e.Type), "unknown service / unknown method / failing handler must yield an Exception envelope")
			break
		}
		// TApplicationException {1: message, 2: type}: UNKNOWN_METHOD (1) when nobody knows the
		// method — no such service, or the service says so —, INTERNAL_ERROR (6) when the handler failed
		wantType := uint64(1)
		if parts := strings.SplitN(full, ":", 2); len(parts) == 2 && services[parts[0]] && strings.HasPrefix(parts[1], "e") {
			wantType = 6
		}
		got := "no type field"
		if v, verr := wv.FromWire(e.Value); verr == nil {
			for _, f := range v.Fields {
				if f.ID == 2 && f.V.T == wv.TI32 {
					got = fmt.Sprint(f.V.U)
				}
			}
		}
		if got != fmt.Sprint(wantType) {
			c.oracle("C12 server exception has the wrong type", input, "TApplicationException type "+got, fmt.Sprintf("want %d (1 = unknown method, 6 = internal error)", wantType))
		}
	}
}

func runC12Server(c *checker, r *rng.R) {
	n := 600
	if *tier == "thorough" {
		n = 20000
	}
	services := map[string]bool{"alpha": true, "beta": true}
	mh := verifhook.NewMultiplexHandler()
	for s := range services {
		mh.Put(s, echoSvc{s})
	}
	srv := verifhook.NewEnvelopeServer(binary.Default, mh)
	cfg := func() wv.GenCfg {
		return wv.GenCfg{MaxDepth: 1 + r.Intn(3), MaxLen: r.Pick(0, 1, 3, 6), MaxBin: r.Pick(0, 3, 40, 300)}
	}

	// sequential requests; every response is retained (the slice itself and a copy) and looked at
	// again after later requests
	type kept struct {
		resp, copy []byte
		input      string
	}
	var retained []kept
	for i := 0; i < n; i++ {
		full := c12ServerName(r)
		seqs := []uint32{0, 1, 0x7fffffff, 0x80000000, 0xffffffff, uint32(r.U64())}
		e := env{name: []byte(full), etype: 1, seqid: seqs[r.Intn(len(seqs))], body: wv.Gen(r, wv.TStruct, cfg(), 0)}
		if r.Chance(1, 10) {
			// an envelope that is not a request (Reply, Exception, an undefined type): the server
			// must not run it (finding D92, repaired)
			e.etype = uint8(r.Pick(2, 3, 0, 5, 127))
		} else if r.Chance(1, 6) {
			e.etype = 4 // OneWay is a request too
		}
		strict := r.Bool()
		if len(e.name) == 0 {
			strict = true // a legacy envelope cannot carry an empty name
		}
		enc := implEncEnv(strict, e)
		if !strings.HasPrefix(enc, "ok ") {
			continue
		}
		c.rep.Case("server "+enc, true)
		c.rep.Hist("how", "envelope server / multiplexer")
		resp, err := srv.Handle(unhx(enc[3:]))
		checkServerResponse(c, "sequential", full, e.etype, e.seqid, e.body, services, resp, err)
		if err == nil {
			retained = append(retained, kept{resp, append([]byte{}, resp...), fmt.Sprintf("server retained name=%s seq=%d", hx(e.name), e.seqid)})
		}
		if len(retained) > 16 {
			retained = retained[1:]
		}
		for _, k := range retained {
			if !bytes.Equal(k.resp, k.copy) {
				c.oracle("C12 a response changed after a later request was handled", k.input, hx(k.resp), "was "+hx(k.copy))
				k.copy = append([]byte{}, k.resp...)
			}
		}
		// the same request through envelope.Client + multiplex.Client over a transport that calls the server
		parts := strings.SplitN(full, ":", 2)
		if len(parts) == 2 && !strings.Contains(parts[0], ":") {
			cl := verifhook.NewMultiplexClient(parts[0], verifhook.NewEnvelopeClient(binary.Default, serverTransport{srv}))
			got, cerr := cl.Send(parts[1], e.body.ToWire())
			kind, text := expectedReply(services, full, e.body)
			input := fmt.Sprintf("client name=%s body=%s", hx(e.name), e.body.Text())
			if kind == "reply" {
				v, verr := wv.FromWire(got)
				if cerr != nil || verr != nil || v.Text() != text {
					c.oracle("C12 client did not return the handler's value", input, fmt.Sprint(cerr), "want "+text)
				}
			} else if cerr == nil {
				c.oracle("C12 client returned a value although the server answered with an exception", input, "nil error", "")
			}
		}
	}
	// the server shared between goroutines: each checks the response to its own request
	var wg sync.WaitGroup
	var mu sync.Mutex
	for g := 0; g < 8; g++ {
		gr := r.Fork()
		wg.Add(1)
		go func() {
			defer wg.Done()
			for i := 0; i < n/8; i++ {
				full := []string{"alpha:get", "beta:put", "alpha:explode", "nosuch:x", "beta:unknown"}[gr.Intn(5)] + fmt.Sprint(gr.Intn(1000))
				e := env{name: []byte(full), etype: 1, seqid: uint32(gr.U64()), body: wv.Gen(gr, wv.TStruct, wv.GenCfg{MaxDepth: 2, MaxLen: 3, MaxBin: 40}, 0)}
				enc := implEncEnv(true, e)
				resp, err := srv.Handle(unhx(enc[3:]))
				held := resp
				// handle one more request of this goroutine's own before looking at the first response
				e2 := env{name: []byte("alpha:second"), etype: 1, seqid: 7, body: wv.Gen(gr, wv.TStruct, wv.GenCfg{MaxDepth: 1, MaxLen: 2, MaxBin: 8}, 0)}
				srv.Handle(unhx(implEncEnv(true, e2)[3:]))
				mu.Lock()
				c.rep.Hist("how", "envelope server shared by 8 goroutines")
				checkServerResponse(c, "concurrent", full, e.etype, e.seqid, e.body, services, held, err)
				mu.Unlock()
			}
		}()
	}
	wg.Wait()
}
