package main

// Child-process execution for C08: compile.Compile and gen.Generate run in a
// separate process under a wall-clock timeout, GOMEMLIMIT, `ulimit -v` and a
// small maximum goroutine stack, because a stack overflow or a hang cannot be
// caught in-process. One child serves many jobs (one per line, answers flushed
// line by line); when it dies, the job it was working on is the one that killed it.

import (
	"bufio"
	"bytes"
	"fmt"
	"io"
	"os"
	"os/exec"
	"path/filepath"
	"runtime/debug"
	"strings"
	"time"

	"go.uber.org/thriftrw/compile"
	thriftgen "go.uber.org/thriftrw/gen"
)

const (
	childStack   = 64 << 20 // bytes: a Link recursion deeper than this is reported as a crash
	childTimeout = 20 * time.Second
)

// childMain: "<strict>\t<root file>\t<thrift root>\t<out dir>" per line.
// Answers "compile-err" or "compile-ok" followed by "gen-ok" | "gen-err".
func childMain() {
	debug.SetMaxStack(childStack)
	in := bufio.NewScanner(os.Stdin)
	in.Buffer(make([]byte, 1<<20), 1<<26)
	out := bufio.NewWriter(os.Stdout)
	for in.Scan() {
		f := strings.Split(in.Text(), "\t")
		if len(f) != 4 {
			fmt.Fprintln(out, "bad-job")
			out.Flush()
			continue
		}
		var opts []compile.Option
		if f[0] == "0" {
			opts = append(opts, compile.NonStrict())
		}
		m, err := compile.Compile(f[1], opts...)
		if err != nil {
			_ = err.Error()
			fmt.Fprintln(out, "compile-err")
			out.Flush()
			continue
		}
		fmt.Fprintln(out, "compile-ok")
		out.Flush()
		err = thriftgen.Generate(m, &thriftgen.Options{
			OutputDir:      f[3],
			PackagePrefix:  "example.com/gen",
			ThriftRoot:     f[2],
			NoVersionCheck: true,
		})
		os.RemoveAll(f[3])
		if err != nil {
			_ = err.Error()
			fmt.Fprintln(out, "gen-err")
		} else {
			fmt.Fprintln(out, "gen-ok")
		}
		out.Flush()
	}
}

type child struct {
	cmd    *exec.Cmd
	stdin  io.WriteCloser
	lines  chan string
	stderr *bytes.Buffer
}

var theChild *child

func startChild() *child {
	self, err := os.Executable()
	if err != nil {
		fmt.Fprintln(os.Stderr, "compilecheck:", err)
		os.Exit(3)
	}
	// 6 GiB of address space is far more than the Go runtime needs for these jobs
	cmd := exec.Command("sh", "-c", "ulimit -v 6291456; exec \"$0\" --child", self)
	cmd.Env = append(os.Environ(), "GOMEMLIMIT=1GiB", "GOMAXPROCS=2")
	stdin, _ := cmd.StdinPipe()
	stdout, _ := cmd.StdoutPipe()
	c := &child{cmd: cmd, stdin: stdin, lines: make(chan string, 4), stderr: &bytes.Buffer{}}
	cmd.Stderr = &limitedWriter{buf: c.stderr, max: 1 << 16}
	if err := cmd.Start(); err != nil {
		fmt.Fprintln(os.Stderr, "compilecheck: cannot start child:", err)
		os.Exit(3)
	}
	go func() {
		sc := bufio.NewScanner(stdout)
		for sc.Scan() {
			c.lines <- sc.Text()
		}
		close(c.lines)
	}()
	return c
}

type limitedWriter struct {
	buf *bytes.Buffer
	max int
}

func (w *limitedWriter) Write(p []byte) (int, error) {
	if w.buf.Len() < w.max {
		n := w.max - w.buf.Len()
		if n > len(p) {
			n = len(p)
		}
		w.buf.Write(p[:n])
	}
	return len(p), nil
}

func (c *child) kill() {
	c.stdin.Close()
	c.cmd.Process.Kill()
	c.cmd.Wait()
}

func closeChildren() {
	if theChild != nil {
		theChild.kill()
		theChild = nil
	}
}

// read one answer line; "" with why != "" when the child died or hung.
func (c *child) read() (line, why string) {
	select {
	case l, ok := <-c.lines:
		if !ok {
			c.cmd.Wait()
			e := c.stderr.String()
			switch {
			case strings.Contains(e, "stack overflow"):
				return "", "stack overflow"
			case strings.Contains(e, "panic:"):
				return "", "panic"
			case strings.Contains(e, "out of memory") || strings.Contains(e, "cannot allocate"):
				return "", "out of memory"
			}
			return "", "child died: " + firstLine(e)
		}
		return l, ""
	case <-time.After(childTimeout):
		return "", "timeout"
	}
}

func firstLine(s string) string {
	if i := strings.IndexByte(s, '\n'); i >= 0 {
		s = s[:i]
	}
	if len(s) > 200 {
		s = s[:200]
	}
	return s
}

// childRun compiles and generates the program at dir in the child. The answer is in
// the syntax of the driver's G op: ok | err | diverges | gen-diverges; detail says how
// a crash happened and whether generation returned an error.
func childRun(dir string, p *Prog) (answer, detail string) {
	if theChild == nil {
		theChild = startChild()
	}
	c := theChild
	strict := "1"
	if !p.Strict {
		strict = "0"
	}
	fmt.Fprintf(c.stdin, "%s\t%s\t%s\t%s\n", strict, filepath.Join(dir, p.Files[0].Path), dir, filepath.Join(dir, "_out"))
	l, why := c.read()
	if why != "" {
		c.kill()
		theChild = nil
		return "diverges", "compile: " + why
	}
	switch l {
	case "compile-err":
		return "err", ""
	case "compile-ok":
		l2, why := c.read()
		if why != "" {
			c.kill()
			theChild = nil
			return "gen-diverges", "generate: " + why
		}
		return "ok", l2
	}
	return "bad-child-answer " + l, ""
}
