package main

// C08: compiler and generator terminate with a result or an error on every input.

import (
	"encoding/hex"
	"fmt"
	"os"
	"strings"

	"verifharness/internal/rng"
)

func sexpSafe(p *Prog) bool {
	for _, f := range p.Files {
		for _, inc := range f.Includes {
			b := fileBaseName(inc.Path)
			if b == "" || strings.ContainsAny(b, " \t\r\n") {
				return false
			}
		}
	}
	return true
}

// xOp is the replayable form of a program given as raw texts:
// X <strict> <path>=<hex> …
func xOp(p *Prog) string {
	var b strings.Builder
	s := 0
	if p.Strict {
		s = 1
	}
	fmt.Fprintf(&b, "X %d", s)
	for _, f := range p.Files {
		h := hex.EncodeToString([]byte(f.Text()))
		if h == "" {
			h = "-"
		}
		fmt.Fprintf(&b, " %s=%s", f.Path, h)
	}
	return b.String()
}

func parseXOp(fields []string) *Prog {
	p := &Prog{Strict: fields[1] == "1"}
	for _, kv := range fields[2:] {
		i := strings.LastIndexByte(kv, '=')
		if i < 0 {
			continue
		}
		var raw []byte
		if kv[i+1:] != "-" {
			raw, _ = hex.DecodeString(kv[i+1:])
		}
		if raw == nil {
			raw = []byte{}
		}
		p.Files = append(p.Files, &File{Path: kv[:i], Raw: raw})
	}
	return p
}

// c08Case runs one file set in the child and compares with the model's verdict.
// structured: p is an abstract description (its Sexp is the model input); otherwise
// the files are raw text and the AST is recovered with the real parser.
// known: id of the known finding whose shape the case has ("" = none).
func c08Case(c *checker, p *Prog, structured bool, how, known string) {
	if len(c.rep.Disagreements) >= 40 {
		return // enough failing inputs; every further crash costs seconds
	}
	dir := c.newDir()
	defer os.RemoveAll(dir)
	if err := p.Write(dir); err != nil {
		fmt.Fprintln(os.Stderr, "compilecheck:", err)
		os.Exit(3)
	}
	impl, detail := childRun(dir, p)
	c.rep.Hist("how", how)
	c.rep.Hist("outcome", impl+map[bool]string{true: " (" + detail + ")", false: ""}[detail != "" && impl != "ok"])
	if impl == "ok" {
		c.rep.Hist("generation", detail)
	}
	input := ""
	var q *Prog
	if structured {
		q = p
		input = fmt.Sprintf("G %d O 0 %s", modelFuel, p.Sexp())
	} else {
		input = xOp(p)
		if impl != "diverges" { // the parser did not kill the child: safe to call it here
			var why string
			q, why = fromText(p)
			if q != nil && !sexpSafe(q) {
				q, why = nil, "include name not expressible"
			}
			if q == nil {
				c.rep.Hist("model-skipped", why)
			}
		}
	}
	c.rep.Case(input, impl != "err" || structured)
	crashed := impl == "diverges" || impl == "gen-diverges"
	if strings.HasSuffix(known, ":gen") {
		// the known finding is about the generator only: a compiler that does not return is a violation
		if impl == "diverges" {
			known = ""
		} else {
			known = strings.TrimSuffix(known, ":gen")
		}
	}
	if crashed {
		if known != "" {
			c.knownHit(known, fmt.Sprintf("%s (%s) on %s", impl, detail, how))
			c.maybeFlush()
			return // a recorded finding: not compared with the model (whose verdict it contradicts by definition)
		} else {
			c.oracle("C08 compiler/generator crashed or hung", input, impl+" ("+detail+")",
				"compile.Compile / gen.Generate must return a module, output, or an error")
		}
	} else if known != "" {
		c.stale[known] = true
	}
	if strings.HasPrefix(impl, "bad-child-answer") {
		c.oracle("C08 child protocol", input, impl, "internal")
		return
	}
	if q != nil {
		op := fmt.Sprintf("G %d O 0 %s", modelFuel, q.Sexp())
		c.expectIn("C08 outcome (ok / err / diverges / gen-diverges) vs model", op, impl, input)
	}
	c.maybeFlush()
}

// ---------------------------------------------------------------- structured cycle programs

func tref(n string) *TExpr { return &TExpr{Kind: "ref", Name: n} }
func cref(n string) *CV    { return &CV{Kind: 'r', R: n} }

func oneFile(defs ...*Def) *Prog {
	return &Prog{Strict: true, Files: []*File{{Path: "a.thrift", Defs: defs}}}
}

// wrap puts a reference inside a container type now and then.
func wrapType(r *rng.R, t *TExpr) *TExpr {
	switch r.Intn(6) {
	case 0:
		return &TExpr{Kind: "list", A: t}
	case 1:
		return &TExpr{Kind: "map", A: &TExpr{Kind: "string"}, B: t}
	case 2:
		return &TExpr{Kind: "set", A: t}
	}
	return t
}

type cycleCase struct {
	p     *Prog
	how   string
	known string
}

// cyclePrograms builds programs with every kind of reference cycle of length 1..k,
// deep acyclic chains, and invalid references.
func cyclePrograms(r *rng.R, k int) []cycleCase {
	var out []cycleCase
	add := func(p *Prog, how, known string) { out = append(out, cycleCase{p, how, known}) }
	for n := 1; n <= k; n++ {
		name := func(pfx string, i int) string { return fmt.Sprintf("%s%d", pfx, (i%n)+1) }
		// typedef -> typedef (optionally through containers): rejected
		var defs []*Def
		for i := 0; i < n; i++ {
			defs = append(defs, &Def{Kind: 'T', Name: name("T", i), Ty: wrapType(r, tref(name("T", i+1)))})
		}
		add(oneFile(defs...), fmt.Sprintf("typedef cycle len %d", n), "")
		// the same cycle with a value that has to be cast to one of its types while linking,
		// i.e. before the cycle check runs: a constant, a constant of a container of it, a field default
		for variant := 0; variant < 3; variant++ {
			var ds []*Def
			for i := 0; i < n; i++ {
				ds = append(ds, &Def{Kind: 'T', Name: name("T", i), Ty: tref(name("T", i+1))})
			}
			one := []*CV{{Kind: 'i', I: 1}, {Kind: 'b', B: true}, {Kind: 'd', D: 1.5}, {Kind: 's', S: "x"}, {Kind: 'l'}, {Kind: 'm'}}[r.Intn(6)]
			switch variant {
			case 0:
				ds = append(ds, &Def{Kind: 'C', Name: "c", Ty: tref(name("T", r.Intn(n))), Val: one})
			case 1:
				ds = append(ds, &Def{Kind: 'C', Name: "c", Ty: &TExpr{Kind: "list", A: tref(name("T", r.Intn(n)))}, Val: &CV{Kind: 'l', L: []*CV{one}}})
			case 2:
				ds = append(ds, &Def{Kind: 'S', SKind: 's', Name: "Holder", Fields: []*Field{{ID: i64p(1), Name: "f", Req: 'o', Ty: tref(name("T", r.Intn(n))), Dflt: one}}})
			}
			if r.Bool() { // the value first, the cycle after it
				ds = append(ds[n:], ds[:n]...)
			}
			add(oneFile(ds...), fmt.Sprintf("typedef cycle len %d with a value cast to it (%d)", n, variant), "")
		}
		// the cycle with a TAIL of 1..3 typedefs leading into it, plain or with a value cast to the outermost
		// one: whoever looks for the end of the chain starts outside the cycle and never comes back to
		// where it started
		for variant := 0; variant < 5; variant++ {
			var ds []*Def
			for i := 0; i < n; i++ {
				ds = append(ds, &Def{Kind: 'T', Name: name("T", i), Ty: tref(name("T", i+1))})
			}
			tail := 1 + r.Intn(3)
			prev := name("T", r.Intn(n))
			for j := 1; j <= tail; j++ {
				nm := fmt.Sprintf("Tail%d", j)
				ds = append(ds, &Def{Kind: 'T', Name: nm, Ty: tref(prev)})
				prev = nm
			}
			switch variant {
			case 1:
				ds = append(ds, &Def{Kind: 'C', Name: "c", Ty: tref(prev), Val: &CV{Kind: 'i', I: 1}})
			case 2:
				ds = append(ds, &Def{Kind: 'S', SKind: 's', Name: "Holder", Fields: []*Field{{ID: i64p(1), Name: "f", Req: 'o', Ty: tref(prev), Dflt: &CV{Kind: 's', S: "x"}}}})
			case 3:
				// a dotted reference that names one of these typedefs as if it were an enum (Tail1.X,
				// T2.X): whoever follows typedef targets to find the enum must not go round for ever
				who := []string{prev, name("T", r.Intn(n))}[r.Intn(2)]
				ds = append(ds, &Def{Kind: 'C', Name: "c", Ty: &TExpr{Kind: "i32"}, Val: cref(who + ".X")})
			case 4:
				who := []string{prev, name("T", r.Intn(n))}[r.Intn(2)]
				ds = append(ds, &Def{Kind: 'S', SKind: 's', Name: "Holder", Fields: []*Field{{ID: i64p(1), Name: "f", Req: 'o', Ty: &TExpr{Kind: "list", A: &TExpr{Kind: "i32"}}, Dflt: &CV{Kind: 'l', L: []*CV{cref(who + ".X")}}}}})
			}
			for i := len(ds) - 1; i > 0; i-- { // any source order
				j := r.Intn(i + 1)
				ds[i], ds[j] = ds[j], ds[i]
			}
			add(oneFile(ds...), fmt.Sprintf("typedef cycle len %d with a tail of %d typedefs leading into it (%d)", n, tail, variant), "")
		}
		// typedef -> … -> struct -> typedef: legal recursion through a struct. One order of
		// linking leaves a nil root (D10, a C07 finding); for C08 only termination matters.
		defs = nil
		for i := 0; i < n; i++ {
			if i == n-1 {
				defs = append(defs, &Def{Kind: 'S', SKind: 's', Name: name("T", i), Fields: []*Field{{ID: i64p(1), Name: "f", Req: 'o', Ty: wrapType(r, tref(name("T", i+1)))}}})
			} else {
				defs = append(defs, &Def{Kind: 'T', Name: name("T", i), Ty: tref(name("T", i+1))})
			}
		}
		add(oneFile(defs...), fmt.Sprintf("typedef/struct cycle len %d", n), "")
		// struct -> struct
		defs = nil
		for i := 0; i < n; i++ {
			defs = append(defs, &Def{Kind: 'S', SKind: []byte{'s', 'u', 'x'}[r.Intn(3)], Name: name("S", i), Fields: []*Field{{ID: i64p(1), Name: "f", Req: 'o', Ty: wrapType(r, tref(name("S", i+1)))}}})
		}
		add(oneFile(defs...), fmt.Sprintf("struct cycle len %d", n), "")
		// const -> const with an anonymous type: rejected (formerly D6 / D4)
		for _, ty := range []string{"i32", "string", "list"} {
			defs = nil
			for i := 0; i < n; i++ {
				t := &TExpr{Kind: ty}
				if ty == "list" {
					t = &TExpr{Kind: "list", A: &TExpr{Kind: "i32"}}
				}
				defs = append(defs, &Def{Kind: 'C', Name: name("c", i), Ty: t, Val: cref(name("c", i+1))})
			}
			add(oneFile(defs...), fmt.Sprintf("const cycle (%s) len %d", ty, n), "")
		}
		// const -> const, all of one named type: rejected as well
		defs = []*Def{{Kind: 'T', Name: "N", Ty: &TExpr{Kind: "i32"}}}
		for i := 0; i < n; i++ {
			defs = append(defs, &Def{Kind: 'C', Name: name("c", i), Ty: tref("N"), Val: cref(name("c", i+1))})
		}
		add(oneFile(defs...), fmt.Sprintf("const cycle (named type) len %d", n), "")
		// const cycle inside list / map literals
		defs = nil
		for i := 0; i < n; i++ {
			defs = append(defs, &Def{Kind: 'C', Name: name("c", i), Ty: &TExpr{Kind: "list", A: &TExpr{Kind: "list", A: &TExpr{Kind: "i32"}}},
				Val: &CV{Kind: 'l', L: []*CV{cref(name("c", i+1))}}})
		}
		add(oneFile(defs...), fmt.Sprintf("const cycle through list literal len %d", n), "")
		// const <-> struct default
		defs = nil
		for i := 0; i < n; i++ {
			defs = append(defs, &Def{Kind: 'S', SKind: 's', Name: name("S", i), Fields: []*Field{
				{ID: i64p(1), Name: "f", Req: 'o', Ty: tref(name("S", i+1)), Dflt: cref(name("c", i+1))},
				{ID: i64p(2), Name: "g", Req: 'o', Ty: &TExpr{Kind: "i32"}, Dflt: &CV{Kind: 'i', I: int64(i)}}}})
			defs = append(defs, &Def{Kind: 'C', Name: name("c", i), Ty: tref(name("S", i)), Val: &CV{Kind: 'm'}})
		}
		add(oneFile(defs...), fmt.Sprintf("const/struct-default cycle len %d", n), "")
		defs = nil
		for i := 0; i < n; i++ {
			defs = append(defs, &Def{Kind: 'S', SKind: 's', Name: name("S", i), Fields: []*Field{
				{ID: i64p(1), Name: "f", Req: 'o', Ty: &TExpr{Kind: "i32"}, Dflt: cref(name("c", i+1))}}})
			defs = append(defs, &Def{Kind: 'C', Name: name("c", i), Ty: &TExpr{Kind: "i32"}, Val: cref(name("d", i))})
			defs = append(defs, &Def{Kind: 'C', Name: name("d", i), Ty: tref(name("S", i)), Val: &CV{Kind: 'm'}})
		}
		add(oneFile(defs...), fmt.Sprintf("const/struct-default (cast mismatch) cycle len %d", n), "")
		// struct whose default is a struct literal that needs that default again: rejected (formerly D40)
		defs = nil
		for i := 0; i < n; i++ {
			defs = append(defs, &Def{Kind: 'S', SKind: 's', Name: name("S", i), Fields: []*Field{
				{ID: i64p(1), Name: "f", Req: 'o', Ty: tref(name("S", i+1)), Dflt: &CV{Kind: 'm'}}}})
		}
		add(oneFile(defs...), fmt.Sprintf("recursive struct default len %d", n), "")
		// service extends cycle: rejected (formerly D5)
		defs = nil
		for i := 0; i < n; i++ {
			defs = append(defs, &Def{Kind: 'V', Name: name("V", i), Parent: name("V", i+1), Funcs: []*Func{{Name: "m"}}})
		}
		add(oneFile(defs...), fmt.Sprintf("service cycle len %d", n), "")
		// include loop of length n (n = 1: self include), with a reference across it
		p := &Prog{Strict: true}
		fn := []string{"a", "b", "c", "d", "e", "f", "g", "h", "i", "j"} // at least k names (k = 7 in the thorough tier)
		for i := 0; i < n; i++ {
			nx := fn[(i+1)%n]
			p.Files = append(p.Files, &File{Path: fn[i] + ".thrift", Includes: []Include{{Path: "./" + nx + ".thrift"}},
				Defs: []*Def{{Kind: 'S', SKind: 's', Name: "S", Fields: []*Field{{ID: i64p(1), Name: "f", Req: 'o', Ty: tref(nx + ".S")}}}}})
		}
		add(p, fmt.Sprintf("include loop len %d", n), "")
		// the same loop carrying a service cycle, a constant cycle, a typedef cycle across the files
		for variant := 0; variant < 3; variant++ {
			q := &Prog{Strict: true}
			for i := 0; i < n; i++ {
				nx := fn[(i+1)%n]
				var d *Def
				switch variant {
				case 0:
					d = &Def{Kind: 'V', Name: "V", Parent: nx + ".V", Funcs: []*Func{{Name: "m"}}}
				case 1:
					d = &Def{Kind: 'C', Name: "c", Ty: &TExpr{Kind: []string{"i32", "string"}[r.Intn(2)]}, Val: cref(nx + ".c")}
				default:
					d = &Def{Kind: 'T', Name: "T", Ty: wrapType(r, tref(nx+".T"))}
				}
				q.Files = append(q.Files, &File{Path: fn[i] + ".thrift", Includes: []Include{{Path: "./" + nx + ".thrift"}}, Defs: []*Def{d}})
			}
			add(q, fmt.Sprintf("include loop len %d with a %s cycle across it", n, []string{"service", "constant", "typedef"}[variant]), "")
		}
		// mutually nested struct defaults where one default is a literal of the wrong kind
		if n >= 2 {
			bad := []*CV{{Kind: 'd', D: 1.5}, {Kind: 'b', B: true}, {Kind: 'i', I: 3}, {Kind: 's', S: "x"}, {Kind: 'l'}}[r.Intn(5)]
			var ds []*Def
			for i := 0; i < n; i++ {
				dv := &CV{Kind: 'm'}
				if i == 0 {
					dv = bad
				}
				ds = append(ds, &Def{Kind: 'S', SKind: 's', Name: name("S", i), Fields: []*Field{
					{ID: i64p(1), Name: "f", Req: 'o', Ty: tref(name("S", i+1)), Dflt: dv}}})
			}
			add(oneFile(ds...), fmt.Sprintf("mutually nested struct defaults len %d with a mistyped literal", n), "")
		}
	}
	// every single-file program above once more as an INCLUDED file, entered from the including
	// file through one of its definitions: within a module types are linked before constants before
	// services, so a cycle is always entered at a type first; a reference from another module
	// enters it at a constant, a service or a type of the includer's choosing (finding D74)
	for _, cc := range append([]cycleCase{}, out...) {
		if len(cc.p.Files) != 1 || cc.known != "" {
			continue
		}
		var consts, types, svcs []string
		for _, d := range cc.p.Files[0].Defs {
			switch d.Kind {
			case 'C':
				consts = append(consts, d.Name)
			case 'V':
				svcs = append(svcs, d.Name)
			default:
				types = append(types, d.Name)
			}
		}
		inc := &File{Path: "inc.thrift", Defs: cc.p.Files[0].Defs}
		enter := func(how string, defs ...*Def) {
			root := &File{Path: "root.thrift", Includes: []Include{{Path: "./inc.thrift"}}, Defs: defs}
			add(&Prog{Strict: true, Files: []*File{root, inc}}, cc.how+", entered from an including file through "+how, "")
		}
		if len(consts) > 0 {
			c := consts[r.Intn(len(consts))]
			switch r.Intn(3) {
			case 0:
				enter("a field default", &Def{Kind: 'S', SKind: 's', Name: "Entry", Fields: []*Field{{ID: i64p(1), Name: "v", Req: 'o', Ty: &TExpr{Kind: "i32"}, Dflt: cref("inc." + c)}}})
			case 1:
				enter("a constant", &Def{Kind: 'C', Name: "entry", Ty: &TExpr{Kind: []string{"i32", "string"}[r.Intn(2)]}, Val: cref("inc." + c)})
			default:
				enter("a list constant", &Def{Kind: 'C', Name: "entry", Ty: &TExpr{Kind: "list", A: &TExpr{Kind: "i32"}}, Val: &CV{Kind: 'l', L: []*CV{cref("inc." + c)}}})
			}
		}
		if len(types) > 0 && (len(consts) == 0 || r.Bool()) {
			t := types[r.Intn(len(types))]
			if r.Bool() {
				enter("a typedef", &Def{Kind: 'T', Name: "Entry", Ty: wrapType(r, tref("inc."+t))})
			} else {
				enter("a struct field with a default", &Def{Kind: 'S', SKind: 's', Name: "Entry", Fields: []*Field{{ID: i64p(1), Name: "v", Req: 'o', Ty: tref("inc." + t), Dflt: &CV{Kind: 'm'}}}})
			}
		}
		if len(svcs) > 0 {
			enter("a service", &Def{Kind: 'V', Name: "Entry", Parent: "inc." + svcs[r.Intn(len(svcs))], Funcs: []*Func{{Name: "m"}}})
		}
	}
	// constants defined as each other whose struct types carry defaults that refer to the other
	// constant, entered at a constant (D74 itself, lengths 1..k)
	for n := 1; n <= k; n++ {
		name := func(pfx string, i int) string { return fmt.Sprintf("%s%d", pfx, (i%n)+1) }
		var defs []*Def
		for i := 0; i < n; i++ {
			defs = append(defs, &Def{Kind: 'S', SKind: 's', Name: name("T", i), Fields: []*Field{{ID: i64p(1), Name: "f", Req: 'o', Ty: &TExpr{Kind: "i32"}, Dflt: cref(name("c", i+1))}}})
			defs = append(defs, &Def{Kind: 'C', Name: name("c", i), Ty: tref(name("T", i)), Val: cref(name("c", i+1))})
		}
		root := &File{Path: "root.thrift", Includes: []Include{{Path: "./inc.thrift"}},
			Defs: []*Def{{Kind: 'S', SKind: 's', Name: "Entry", Fields: []*Field{{ID: i64p(1), Name: "v", Req: 'o', Ty: &TExpr{Kind: "i32"}, Dflt: cref("inc." + name("c", r.Intn(n)))}}}}}
		add(&Prog{Strict: true, Files: []*File{root, {Path: "inc.thrift", Defs: defs}}}, fmt.Sprintf("constants defined as each other through the defaults of their types, len %d, entered at a constant", n), "")
	}
	// acyclic typedefs that are referred to twice by the typedef above them: a search (or a code
	// generator) without a memo visits the last one 2^depth times. Both are linear now (findings
	// D85 and D86, repaired: the cycle search remembers clean types, EnsureDeclared remembers what
	// it has declared) — at depth 24 neither used to finish.
	for _, depth := range []int{6, 12, 24} {
		var defs []*Def
		for i := 0; i < depth; i++ {
			nx := tref(fmt.Sprintf("T%d", i+1))
			defs = append(defs, &Def{Kind: 'T', Name: fmt.Sprintf("T%d", i), Ty: &TExpr{Kind: "map", A: nx, B: nx}})
		}
		defs = append(defs, &Def{Kind: 'T', Name: fmt.Sprintf("T%d", depth), Ty: &TExpr{Kind: "i32"}})
		add(oneFile(defs...), fmt.Sprintf("typedefs shared twice per level, depth %d", depth), "")
	}
	// layers of two files, every file including both files of the next layer: an acyclic include
	// graph in which the last layer is reached along 2^depth paths. Whoever walks it (the compiler
	// loads every file once; the generator looks for include cycles) must remember what is done.
	for _, layers := range []int{6, 40} {
		var files []*File
		for l := 0; l < layers; l++ {
			for k := 0; k < 2; k++ {
				f := &File{Path: fmt.Sprintf("l%d_%d.thrift", l, k)}
				if l+1 < layers {
					f.Includes = []Include{{Path: fmt.Sprintf("./l%d_0.thrift", l+1)}, {Path: fmt.Sprintf("./l%d_1.thrift", l+1)}}
					f.Defs = []*Def{{Kind: 'T', Name: fmt.Sprintf("T%d_%d", l, k), Ty: &TExpr{Kind: "list", A: tref(fmt.Sprintf("l%d_%d.T%d_%d", l+1, k, l+1, k))}}}
				} else {
					f.Defs = []*Def{{Kind: 'T', Name: fmt.Sprintf("T%d_%d", l, k), Ty: &TExpr{Kind: "i32"}}}
				}
				files = append(files, f)
			}
		}
		root := &File{Path: "root.thrift", Includes: []Include{{Path: "./l0_0.thrift"}, {Path: "./l0_1.thrift"}},
			Defs: []*Def{{Kind: 'T', Name: "Top", Ty: tref("l0_0.T0_0")}}}
		add(&Prog{Strict: true, Files: append([]*File{root}, files...)}, fmt.Sprintf("include diamonds, %d layers of two files", layers), "")
	}
	// deep acyclic structures must be handled without overflowing
	for _, depth := range []int{50, 400} {
		t := &TExpr{Kind: "i32"}
		for i := 0; i < depth; i++ {
			t = &TExpr{Kind: "list", A: t}
		}
		add(oneFile(&Def{Kind: 'T', Name: "Deep", Ty: t}), fmt.Sprintf("nested list depth %d", depth), "")
		var defs []*Def
		for i := 0; i < depth; i++ {
			ty := &TExpr{Kind: "i32"}
			if i > 0 {
				ty = tref(fmt.Sprintf("T%d", i-1))
			}
			defs = append(defs, &Def{Kind: 'T', Name: fmt.Sprintf("T%d", i), Ty: ty})
		}
		add(oneFile(defs...), fmt.Sprintf("typedef chain depth %d", depth), "")
		defs = nil
		for i := 0; i < depth; i++ {
			v := &CV{Kind: 'i', I: 1}
			if i > 0 {
				v = cref(fmt.Sprintf("c%d", i-1))
			}
			defs = append(defs, &Def{Kind: 'C', Name: fmt.Sprintf("c%d", i), Ty: &TExpr{Kind: "i32"}, Val: v})
		}
		add(oneFile(defs...), fmt.Sprintf("const reference chain depth %d", depth), "")
		defs = nil
		for i := 0; i < depth; i++ {
			d := &Def{Kind: 'V', Name: fmt.Sprintf("V%d", i), Funcs: []*Func{{Name: "m"}}}
			if i > 0 {
				d.Parent = fmt.Sprintf("V%d", i-1)
			}
			defs = append(defs, d)
		}
		add(oneFile(defs...), fmt.Sprintf("service chain depth %d", depth), "")
	}
	// invalid references
	add(oneFile(&Def{Kind: 'T', Name: "T", Ty: tref("Nope")}), "unknown type", "")
	add(oneFile(&Def{Kind: 'T', Name: "T", Ty: tref("nope.T")}), "unknown include-qualified type", "")
	add(oneFile(&Def{Kind: 'C', Name: "c", Ty: &TExpr{Kind: "i32"}, Val: cref("nope")}), "unknown constant", "")
	add(oneFile(&Def{Kind: 'C', Name: "c", Ty: &TExpr{Kind: "i32"}, Val: cref("a.b.c.d")}), "unknown dotted constant", "")
	add(oneFile(&Def{Kind: 'E', Name: "E", Items: []EnumItem{{Name: "A"}}}, &Def{Kind: 'C', Name: "c", Ty: tref("E"), Val: cref("E.B")}), "unknown enum item", "")
	add(oneFile(&Def{Kind: 'V', Name: "V", Parent: "Nope"}), "unknown parent service", "")
	add(oneFile(&Def{Kind: 'V', Name: "V", Funcs: []*Func{{Name: "m", Excs: []*Field{{ID: i64p(1), Name: "e", Req: 'd', Ty: &TExpr{Kind: "i32"}}}}}}), "throws a non-exception", "")
	add(&Prog{Strict: true, Files: []*File{{Path: "a.thrift", Includes: []Include{{Path: "./missing.thrift"}}}}}, "include of a missing file", "")
	add(&Prog{Strict: true, Files: []*File{{Path: "a.thrift", Includes: []Include{{Path: "./b.thrift"}}}, {Path: "b.thrift", Bad: true, Raw: []byte("struct {")}}}, "include of an unparsable file", "")
	add(&Prog{Strict: true, Files: []*File{{Path: "a.thrift", Includes: []Include{{Path: "./b-c.thrift"}}}, {Path: "b-c.thrift"}}}, "include of a hyphenated file", "")
	add(&Prog{Strict: true, Files: []*File{{Path: "a.thrift", Includes: []Include{{As: "x", Path: "./b.thrift"}}}, {Path: "b.thrift"}}}, "include-as", "")
	add(&Prog{Strict: true, Files: []*File{{Path: "a.thrift", Includes: []Include{{Path: "./b.thrift"}, {Path: "b.thrift"}}}, {Path: "b.thrift"}}}, "same file included twice", "")
	return out
}

// ---------------------------------------------------------------- token-level mutation

var tokenDict = []string{"struct", "union", "exception", "enum", "typedef", "const", "service", "extends", "include", "namespace",
	"required", "optional", "oneway", "void", "throws", "list", "set", "map", "bool", "byte", "i8", "i16", "i32", "i64", "double", "string", "binary",
	"{", "}", "(", ")", "<", ">", "[", "]", ",", ";", ":", "=", "*", "true", "false", "0", "1", "-1", "65536", "0x7fffffff", "1.5", "\"s\"", "'q'",
	"T1", "S2", "a.S", "b.T1", "x", "9223372036854775808", "-", "+", ".", "/*", "*/", "//", "#", "\"", "'", "\\", "\n", "go", "py.name",
	// documentation comments in every degenerate form (they are parsed, unindented and attached to the next definition)
	"/** */", "/***/", "/**\n */", "/**\n *\n */", "/**\n\n*/", "/** \t\n \t */", "/**\n * a\n */", "/**\n  b\n    c\n */", "/**/", "/** * */"}

func tokenize(s string) []string {
	var toks []string
	i := 0
	for i < len(s) {
		c := s[i]
		switch {
		case c == ' ' || c == '\n' || c == '\t':
			j := i
			for j < len(s) && (s[j] == ' ' || s[j] == '\n' || s[j] == '\t') {
				j++
			}
			toks = append(toks, s[i:j])
			i = j
		case c == '"':
			j := i + 1
			for j < len(s) && s[j] != '"' {
				j++
			}
			if j < len(s) {
				j++
			}
			toks = append(toks, s[i:j])
			i = j
		case strings.ContainsRune("{}()<>[],;:=", rune(c)):
			toks = append(toks, s[i:i+1])
			i++
		default:
			j := i
			for j < len(s) && !strings.ContainsRune(" \n\t\"{}()<>[],;:=", rune(s[j])) {
				j++
			}
			toks = append(toks, s[i:j])
			i = j
		}
	}
	return toks
}

func mutateTokens(r *rng.R, text string) string {
	toks := tokenize(text)
	n := 1 + r.Intn(3)
	for k := 0; k < n && len(toks) > 0; k++ {
		i := r.Intn(len(toks))
		switch r.Intn(7) {
		case 0: // delete
			toks = append(toks[:i], toks[i+1:]...)
		case 1: // duplicate
			toks = append(toks[:i], append([]string{toks[i], " "}, toks[i:]...)...)
		case 2: // swap with another
			j := r.Intn(len(toks))
			toks[i], toks[j] = toks[j], toks[i]
		case 3, 4: // replace by a dictionary token
			toks[i] = tokenDict[r.Intn(len(tokenDict))]
		case 5: // insert a dictionary token
			toks = append(toks[:i], append([]string{" ", tokenDict[r.Intn(len(tokenDict))], " "}, toks[i:]...)...)
		case 6: // replace by another token of the same text (moves identifiers and literals around)
			j := r.Intn(len(toks))
			toks[i] = toks[j]
		}
	}
	return strings.Join(toks, "")
}

func runC08(c *checker, r *rng.R) {
	nValid, nMut, nBytes, k := 1800, 7000, 1200, 5
	if *tier == "thorough" {
		nValid, nMut, nBytes, k = 20000, 80000, 10000, 7
	}
	// structured: every kind of cycle, deep chains, invalid references
	for _, cc := range cyclePrograms(r, k) {
		if cc.known == "" {
			c08Case(c, cc.p, true, "cycle: "+cc.how, "")
		} else {
			// known-finding shapes are counted apart and reported as known findings
			c08Case(c, cc.p, true, "known-shape: "+cc.how, cc.known)
		}
	}
	// random valid programs: the generator must terminate on everything that compiles
	for i := 0; i < nValid; i++ {
		cfg := genCfg{maxFiles: 1 + r.Intn(3), maxTypes: 1 + r.Intn(6), maxConsts: r.Intn(4), maxServices: r.Intn(3), nonStrict: r.Chance(1, 4), subdirs: false}
		p, _ := program(r, cfg)
		if i < 2 {
			c.rep.Sample("program: " + p.Sexp())
		}
		c08Case(c, p, true, "generated program", "")
	}
	// token-level mutations of valid IDL
	for i := 0; i < nMut; i++ {
		cfg := genCfg{maxFiles: 1 + r.Intn(2), maxTypes: 1 + r.Intn(5), maxConsts: r.Intn(4), maxServices: r.Intn(3), nonStrict: r.Chance(1, 4)}
		p, _ := program(r, cfg)
		q := &Prog{Strict: p.Strict}
		victim := r.Intn(len(p.Files))
		for j, f := range p.Files {
			text := f.Text()
			if j == victim {
				text = mutateTokens(r, text)
			}
			q.Files = append(q.Files, &File{Path: f.Path, Raw: []byte(text)})
		}
		if i < 2 {
			c.rep.Sample("mutated: " + strings.ReplaceAll(string(q.Files[victim].Raw), "\n", "\\n"))
		}
		c08Case(c, q, false, "token mutation", "")
	}
	// annotations in every position with degenerate values (the generator reads go.* annotations of
	// definitions, fields, enum items, functions, parameters and container types)
	{
		keys := []string{"go.name", "go.label", "go.tag", "go.type", "go.nolog", "go.redact", "py.x"}
		vals := []string{"", ` = ""`, ` = "_"`, ` = "__"`, ` = "a"`, ` = "A_b"`, ` = "1"`, ` = "É"`, ` = " "`, ` = "A B"`, ` = "\""`, ` = "json:\"x\""`, ` = "slice"`, ` = "map"`, ` = "type"`, ` = "S"`}
		shapes := []string{
			"struct S {} %s", "struct S { 1: optional i32 x %s }", "struct S { 1: required string x %s; 2: optional i32 y %s }",
			"enum E { A %s }", "enum E { A %s, B %s }", "enum E { A } %s", "union U { 1: i32 x %s }", "union U { 1: i32 x } %s",
			"exception X {} %s", "exception X { 1: optional string m %s }", "typedef i32 T %s", "typedef list<i32> %s T", "typedef set<string> %s T",
			"typedef map<string, i32> %s T", "typedef set<S> %s T\nstruct S { 1: optional list<S> %s l }", "service V {} %s", "service V { void f() %s }",
			"service V { void f(1: i32 a %s) }", "service V { i32 f() throws (1: X e %s) }\nexception X {}", "service V { oneway void f(1: list<i32> %s a) %s }",
			"struct S { 1: optional map<i32, list<string> %s> %s m %s }", "struct _ {} %s", "struct S { 1: optional i32 _ %s }"}
		for _, sh := range shapes {
			holes := strings.Count(sh, "%s")
			for _, k := range keys {
				for _, v := range vals {
					args := make([]interface{}, holes)
					for h := range args {
						args[h] = "(" + k + v + ")"
						if h > 0 && r.Chance(1, 3) {
							args[h] = "(" + keys[r.Intn(len(keys))] + vals[r.Intn(len(vals))] + ")"
						}
					}
					text := fmt.Sprintf(strings.ReplaceAll(sh, "\\n", "\n"), args...) + "\n"
					c08Case(c, &Prog{Strict: false, Files: []*File{{Path: "a.thrift", Raw: []byte(text)}}}, false, "annotation", "")
				}
			}
		}
	}
	// arbitrary bytes
	for i := 0; i < nBytes; i++ {
		var raw []byte
		switch r.Intn(4) {
		case 0:
			raw = r.Bytes(r.Intn(64))
		case 1:
			raw = []byte(tokenDict[r.Intn(len(tokenDict))] + " " + string(r.Bytes(r.Intn(16))))
		case 2:
			var b strings.Builder
			for n := r.Intn(30); n > 0; n-- {
				b.WriteString(tokenDict[r.Intn(len(tokenDict))] + " ")
			}
			raw = []byte(b.String())
		default:
			raw = []byte(strings.Repeat([]string{"{", "[", "(", "<", "list<", "map<i32,", "/*", "\""}[r.Intn(8)], 1+r.Intn(3000)))
		}
		p := &Prog{Strict: r.Bool(), Files: []*File{{Path: "a.thrift", Raw: raw}}}
		c08Case(c, p, false, "arbitrary bytes", "")
	}
	c.flush()
	c.rep.Rule = "file sets run through compile.Compile + gen.Generate in a child process (20 s timeout, GOMEMLIMIT 1 GiB, ulimit -v 6 GiB, 64 MiB goroutine stack): structurally generated programs with every kind of reference cycle of length 1..k (typedef→typedef also through containers, typedef→struct→typedef, struct→struct, const→const with anonymous / named types and through literals, const↔struct default, service extends, include loop / self include, the include loop carrying a service / constant / typedef cycle across files, typedef cycles with a literal of any kind cast to them, typedef cycles with a tail of typedefs leading into them, mutually nested struct defaults with a mistyped literal; every one of these also as an included file entered from the includer through a constant / field default / typedef / service, so that the cycle is not entered at a type first), acyclic typedefs referred to twice per level (depth 6 / 12 / 24: 2^depth paths), deep acyclic chains (400 levels), invalid references and includes; random valid programs; every go.* annotation with degenerate values (none, empty, underscores, lower case, digits, spaces, quotes, Go keywords) on every annotatable position; token-level mutations of valid IDL; arbitrary bytes. Outcome ∈ {ok, err, diverges (compile crash/timeout), gen-diverges} compared with the model's verdict (the AST of text inputs comes from the real parser); oracle: no crash/timeout. Non-trivial = structured, or accepted by the parser; distinct by input. The shapes of the repaired findings D4 D5 D6 D40 D74 (constant cycles, service cycles, self-referential defaults, constants cast while their types are being linked) are part of the cycle stream and must end in an error."
}
