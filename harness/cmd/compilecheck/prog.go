package main

// Abstract program description: what the generators build, rendered (a) to
// .thrift text for the real compiler and (b) to the token syntax of the Lean
// driver (lean/Driver/CompileMain.lean).

import (
	"encoding/hex"
	"fmt"
	"math"
	"os"
	"path/filepath"
	"strconv"
	"strings"
)

type TExpr struct {
	Kind string // bool i8 i16 i32 i64 double string binary | list set map | ref
	Name string // ref: the name as written
	A, B *TExpr
	// generator's intent (not rendered): the definition a ref is meant to denote
	Target *Def
}

type CV struct {
	Kind byte // i d b s l m r
	I    int64
	Lit  string // optional source spelling of an integer (hex, explicit sign)
	D    float64
	B    bool
	S    string
	L    []*CV
	M    [][2]*CV
	R    string
	// generator's intent (not rendered): the constant a reference is meant to denote
	Target *Def
}

type Field struct {
	ID    *int64
	IDLit string // optional spelling
	Name  string
	Req   byte // r o d
	Ty    *TExpr
	Dflt  *CV
}

type Func struct {
	Name   string
	Oneway bool
	Args   []*Field
	Ret    *TExpr // nil = void
	Excs   []*Field
}

type EnumItem struct {
	Name string
	Val  *int64
	Lit  string
}

type Def struct {
	Kind   byte // T E S C V
	Name   string
	Ty     *TExpr     // T C
	Items  []EnumItem // E
	SKind  byte       // S: s u x
	Fields []*Field   // S
	Val    *CV        // C
	Parent string     // V ("" = none)
	Funcs  []*Func    // V
	// generator's bookkeeping
	File      int
	ParentDef *Def
}

type Include struct {
	As   string // include-as name ("" normally)
	Path string // as written
}

type File struct {
	Path     string // relative to the program directory
	Bad      bool   // does not parse
	Raw      []byte // text to write instead of the rendering (Bad files, raw inputs)
	Includes []Include
	Defs     []*Def
}

type Prog struct {
	Strict bool
	Files  []*File
}

// ---------------------------------------------------------------- rendering

var baseNames = map[string]bool{"bool": true, "i8": true, "i16": true, "i32": true, "i64": true, "double": true, "string": true, "binary": true}

func (t *TExpr) Text() string {
	switch t.Kind {
	case "list":
		return "list<" + t.A.Text() + ">"
	case "set":
		return "set<" + t.A.Text() + ">"
	case "map":
		return "map<" + t.A.Text() + ", " + t.B.Text() + ">"
	case "ref":
		return t.Name
	}
	return t.Kind
}

func (t *TExpr) Sexp(b *strings.Builder) {
	switch t.Kind {
	case "list":
		b.WriteString(" L")
		t.A.Sexp(b)
	case "set":
		b.WriteString(" Z")
		t.A.Sexp(b)
	case "map":
		b.WriteString(" M")
		t.A.Sexp(b)
		t.B.Sexp(b)
	case "ref":
		b.WriteString(" R " + t.Name)
	default:
		b.WriteString(" " + t.Kind)
	}
}

func doubleText(v float64) string {
	s := strconv.FormatFloat(v, 'g', -1, 64)
	if !strings.ContainsAny(s, ".e") {
		s += ".0"
	}
	return s
}

func quote(s string) string {
	// the generators only use characters that need no escaping
	return "\"" + s + "\""
}

func (v *CV) Text() string {
	switch v.Kind {
	case 'i':
		if v.Lit != "" {
			return v.Lit
		}
		return strconv.FormatInt(v.I, 10)
	case 'd':
		return doubleText(v.D)
	case 'b':
		if v.B {
			return "true"
		}
		return "false"
	case 's':
		return quote(v.S)
	case 'l':
		var parts []string
		for _, x := range v.L {
			parts = append(parts, x.Text())
		}
		return "[" + strings.Join(parts, ", ") + "]"
	case 'm':
		var parts []string
		for _, kv := range v.M {
			parts = append(parts, kv[0].Text()+": "+kv[1].Text())
		}
		return "{" + strings.Join(parts, ", ") + "}"
	case 'r':
		return v.R
	}
	panic("bad cv")
}

func (v *CV) Sexp(b *strings.Builder) {
	switch v.Kind {
	case 'i':
		fmt.Fprintf(b, " i %d", v.I)
	case 'd':
		fmt.Fprintf(b, " d %x", math.Float64bits(v.D))
	case 'b':
		if v.B {
			b.WriteString(" b 1")
		} else {
			b.WriteString(" b 0")
		}
	case 's':
		if v.S == "" {
			b.WriteString(" s -")
		} else {
			b.WriteString(" s " + hex.EncodeToString([]byte(v.S)))
		}
	case 'l':
		fmt.Fprintf(b, " l %d", len(v.L))
		for _, x := range v.L {
			x.Sexp(b)
		}
	case 'm':
		fmt.Fprintf(b, " m %d", len(v.M))
		for _, kv := range v.M {
			kv[0].Sexp(b)
			kv[1].Sexp(b)
		}
	case 'r':
		b.WriteString(" r " + v.R)
	}
}

func (f *Field) Text() string {
	var b strings.Builder
	if f.ID != nil {
		if f.IDLit != "" {
			b.WriteString(f.IDLit)
		} else {
			b.WriteString(strconv.FormatInt(*f.ID, 10))
		}
		b.WriteString(": ")
	}
	switch f.Req {
	case 'r':
		b.WriteString("required ")
	case 'o':
		b.WriteString("optional ")
	}
	b.WriteString(f.Ty.Text() + " " + f.Name)
	if f.Dflt != nil {
		b.WriteString(" = " + f.Dflt.Text())
	}
	return b.String()
}

func (f *Field) Sexp(b *strings.Builder) {
	if f.ID != nil {
		fmt.Fprintf(b, " %d", *f.ID)
	} else {
		b.WriteString(" -")
	}
	b.WriteString(" " + f.Name + " " + string(f.Req))
	f.Ty.Sexp(b)
	if f.Dflt != nil {
		b.WriteString(" =")
		f.Dflt.Sexp(b)
	} else {
		b.WriteString(" -")
	}
}

func fieldsText(fs []*Field, sep string) string {
	var parts []string
	for _, f := range fs {
		parts = append(parts, f.Text())
	}
	return strings.Join(parts, sep)
}

func (d *Def) Text() string {
	switch d.Kind {
	case 'T':
		return "typedef " + d.Ty.Text() + " " + d.Name
	case 'E':
		var parts []string
		for _, it := range d.Items {
			s := it.Name
			if it.Val != nil {
				if it.Lit != "" {
					s += " = " + it.Lit
				} else {
					s += " = " + strconv.FormatInt(*it.Val, 10)
				}
			}
			parts = append(parts, s)
		}
		return "enum " + d.Name + " { " + strings.Join(parts, ", ") + " }"
	case 'S':
		kw := map[byte]string{'s': "struct", 'u': "union", 'x': "exception"}[d.SKind]
		return kw + " " + d.Name + " {\n  " + fieldsText(d.Fields, "\n  ") + "\n}"
	case 'C':
		return "const " + d.Ty.Text() + " " + d.Name + " = " + d.Val.Text()
	case 'V':
		var b strings.Builder
		b.WriteString("service " + d.Name)
		if d.Parent != "" {
			b.WriteString(" extends " + d.Parent)
		}
		b.WriteString(" {\n")
		for _, fn := range d.Funcs {
			b.WriteString("  ")
			if fn.Oneway {
				b.WriteString("oneway ")
			}
			if fn.Ret == nil {
				b.WriteString("void")
			} else {
				b.WriteString(fn.Ret.Text())
			}
			b.WriteString(" " + fn.Name + "(" + fieldsText(fn.Args, ", ") + ")")
			if len(fn.Excs) > 0 {
				b.WriteString(" throws (" + fieldsText(fn.Excs, ", ") + ")")
			}
			b.WriteString("\n")
		}
		b.WriteString("}")
		return b.String()
	}
	panic("bad def")
}

func (d *Def) Sexp(b *strings.Builder) {
	switch d.Kind {
	case 'T':
		b.WriteString(" T " + d.Name)
		d.Ty.Sexp(b)
	case 'E':
		fmt.Fprintf(b, " E %s %d", d.Name, len(d.Items))
		for _, it := range d.Items {
			if it.Val != nil {
				fmt.Fprintf(b, " %s %d", it.Name, *it.Val)
			} else {
				b.WriteString(" " + it.Name + " -")
			}
		}
	case 'S':
		fmt.Fprintf(b, " S %c %s %d", d.SKind, d.Name, len(d.Fields))
		for _, f := range d.Fields {
			f.Sexp(b)
		}
	case 'C':
		b.WriteString(" C " + d.Name)
		d.Ty.Sexp(b)
		d.Val.Sexp(b)
	case 'V':
		p := d.Parent
		if p == "" {
			p = "-"
		}
		fmt.Fprintf(b, " V %s %s %d", d.Name, p, len(d.Funcs))
		for _, fn := range d.Funcs {
			ow := 0
			if fn.Oneway {
				ow = 1
			}
			fmt.Fprintf(b, " %s %d %d", fn.Name, ow, len(fn.Args))
			for _, f := range fn.Args {
				f.Sexp(b)
			}
			if fn.Ret == nil {
				b.WriteString(" void")
			} else {
				fn.Ret.Sexp(b)
			}
			fmt.Fprintf(b, " %d", len(fn.Excs))
			for _, f := range fn.Excs {
				f.Sexp(b)
			}
		}
	}
}

func (f *File) Text() string {
	if f.Raw != nil {
		return string(f.Raw)
	}
	var b strings.Builder
	for _, inc := range f.Includes {
		if inc.As != "" {
			b.WriteString("include " + inc.As + " " + quote(inc.Path) + "\n")
		} else {
			b.WriteString("include " + quote(inc.Path) + "\n")
		}
	}
	for _, d := range f.Defs {
		b.WriteString(d.Text() + "\n")
	}
	return b.String()
}

// fileBaseName mirrors compile/string.go.
func fileBaseName(p string) string {
	return strings.TrimSuffix(filepath.Base(p), filepath.Ext(p))
}

// fileIndex resolves an include written in file `from` to a file index (-1: none).
func (p *Prog) fileIndex(from int, incPath string) int {
	want := filepath.Join(filepath.Dir(p.Files[from].Path), incPath)
	for i, f := range p.Files {
		if filepath.Clean(f.Path) == want {
			return i
		}
	}
	return -1
}

// Sexp renders the program in the driver's token syntax.
func (p *Prog) Sexp() string {
	var b strings.Builder
	s := 0
	if p.Strict {
		s = 1
	}
	fmt.Fprintf(&b, "P %d %d", s, len(p.Files))
	for i, f := range p.Files {
		if f.Bad {
			b.WriteString(" X")
			continue
		}
		fmt.Fprintf(&b, " F %d", len(f.Includes))
		for _, inc := range f.Includes {
			as := 0
			if inc.As != "" {
				as = 1
			}
			t := "-"
			if j := p.fileIndex(i, inc.Path); j >= 0 {
				t = strconv.Itoa(j)
			}
			fmt.Fprintf(&b, " %d %s %s", as, fileBaseName(inc.Path), t)
		}
		fmt.Fprintf(&b, " %d", len(f.Defs))
		for _, d := range f.Defs {
			d.Sexp(&b)
		}
	}
	return b.String()
}

// Write renders every file below dir.
func (p *Prog) Write(dir string) error {
	for _, f := range p.Files {
		path := filepath.Join(dir, f.Path)
		if err := os.MkdirAll(filepath.Dir(path), 0o755); err != nil {
			return err
		}
		if err := os.WriteFile(path, []byte(f.Text()), 0o644); err != nil {
			return err
		}
	}
	return nil
}

// ---------------------------------------------------------------- orders

// ModOrder is the visit order of one module's maps.
type ModOrder struct {
	Includes, Types, Consts, Services []string
	Funcs                             map[string][]string
}

type Orders []ModOrder

func namesSexp(b *strings.Builder, ns []string) {
	fmt.Fprintf(b, " %d", len(ns))
	for _, n := range ns {
		b.WriteString(" " + n)
	}
}

func (o Orders) Sexp() string {
	var b strings.Builder
	fmt.Fprintf(&b, "O %d", len(o))
	for _, m := range o {
		namesSexp(&b, m.Includes)
		namesSexp(&b, m.Types)
		namesSexp(&b, m.Consts)
		namesSexp(&b, m.Services)
		var svcs []string
		for s := range m.Funcs {
			svcs = append(svcs, s)
		}
		sortStrings(svcs)
		fmt.Fprintf(&b, " %d", len(svcs))
		for _, s := range svcs {
			b.WriteString(" " + s)
			namesSexp(&b, m.Funcs[s])
		}
	}
	return b.String()
}

// ---------------------------------------------------------------- parsing the token syntax back (replay, corpus)

type tokens struct {
	t []string
	i int
}

func (t *tokens) next() string {
	if t.i >= len(t.t) {
		panic("unexpected end of op")
	}
	t.i++
	return t.t[t.i-1]
}

func (t *tokens) peek() string {
	if t.i >= len(t.t) {
		return ""
	}
	return t.t[t.i]
}

func (t *tokens) num() int {
	n, err := strconv.Atoi(t.next())
	if err != nil {
		panic(err)
	}
	return n
}

func (t *tokens) ty() *TExpr {
	k := t.next()
	switch k {
	case "L":
		return &TExpr{Kind: "list", A: t.ty()}
	case "Z":
		return &TExpr{Kind: "set", A: t.ty()}
	case "M":
		a := t.ty()
		return &TExpr{Kind: "map", A: a, B: t.ty()}
	case "R":
		return &TExpr{Kind: "ref", Name: t.next()}
	}
	if !baseNames[k] {
		panic("bad type " + k)
	}
	return &TExpr{Kind: k}
}

func (t *tokens) cv() *CV {
	switch k := t.next(); k {
	case "i":
		n, err := strconv.ParseInt(t.next(), 10, 64)
		if err != nil {
			panic(err)
		}
		return &CV{Kind: 'i', I: n}
	case "d":
		n, err := strconv.ParseUint(t.next(), 16, 64)
		if err != nil {
			panic(err)
		}
		return &CV{Kind: 'd', D: math.Float64frombits(n)}
	case "b":
		return &CV{Kind: 'b', B: t.next() == "1"}
	case "s":
		h := t.next()
		if h == "-" {
			return &CV{Kind: 's'}
		}
		bs, err := hex.DecodeString(h)
		if err != nil {
			panic(err)
		}
		return &CV{Kind: 's', S: string(bs)}
	case "l":
		n := t.num()
		v := &CV{Kind: 'l'}
		for i := 0; i < n; i++ {
			v.L = append(v.L, t.cv())
		}
		return v
	case "m":
		n := t.num()
		v := &CV{Kind: 'm'}
		for i := 0; i < n; i++ {
			k := t.cv()
			v.M = append(v.M, [2]*CV{k, t.cv()})
		}
		return v
	case "r":
		return &CV{Kind: 'r', R: t.next()}
	default:
		panic("bad cv " + k)
	}
}

func (t *tokens) field() *Field {
	f := &Field{}
	if id := t.next(); id != "-" {
		n, err := strconv.ParseInt(id, 10, 64)
		if err != nil {
			panic(err)
		}
		f.ID = &n
	}
	f.Name = t.next()
	f.Req = t.next()[0]
	f.Ty = t.ty()
	if t.next() == "=" {
		f.Dflt = t.cv()
	}
	return f
}

func (t *tokens) fields() []*Field {
	n := t.num()
	var fs []*Field
	for i := 0; i < n; i++ {
		fs = append(fs, t.field())
	}
	return fs
}

// parseProg parses "P …"; file paths are synthesised (f<i>.thrift named after the
// include base names that point to them when possible).
func (t *tokens) prog() *Prog {
	if t.next() != "P" {
		panic("expected P")
	}
	p := &Prog{Strict: t.next() == "1"}
	n := t.num()
	type incRef struct {
		as     bool
		name   string
		target int
	}
	incs := make([][]incRef, n)
	for i := 0; i < n; i++ {
		f := &File{}
		p.Files = append(p.Files, f)
		if t.next() == "X" {
			f.Bad = true
			f.Raw = []byte("struct {")
			continue
		}
		ni := t.num()
		for j := 0; j < ni; j++ {
			as := t.next() == "1"
			name := t.next()
			target := -1
			if tg := t.next(); tg != "-" {
				target, _ = strconv.Atoi(tg)
			}
			incs[i] = append(incs[i], incRef{as, name, target})
		}
		nd := t.num()
		for j := 0; j < nd; j++ {
			d := &Def{Kind: t.next()[0], File: i}
			switch d.Kind {
			case 'T':
				d.Name = t.next()
				d.Ty = t.ty()
			case 'E':
				d.Name = t.next()
				k := t.num()
				for x := 0; x < k; x++ {
					it := EnumItem{Name: t.next()}
					if v := t.next(); v != "-" {
						n, err := strconv.ParseInt(v, 10, 64)
						if err != nil {
							panic(err)
						}
						it.Val = &n
					}
					d.Items = append(d.Items, it)
				}
			case 'S':
				d.SKind = t.next()[0]
				d.Name = t.next()
				d.Fields = t.fields()
			case 'C':
				d.Name = t.next()
				d.Ty = t.ty()
				d.Val = t.cv()
			case 'V':
				d.Name = t.next()
				if pn := t.next(); pn != "-" {
					d.Parent = pn
				}
				k := t.num()
				for x := 0; x < k; x++ {
					fn := &Func{Name: t.next(), Oneway: t.next() == "1"}
					fn.Args = t.fields()
					if t.peek() == "void" {
						t.next()
					} else {
						fn.Ret = t.ty()
					}
					fn.Excs = t.fields()
					d.Funcs = append(d.Funcs, fn)
				}
			default:
				panic("bad def kind")
			}
			f.Defs = append(f.Defs, d)
		}
	}
	// file names: the base name under which a file is included, else f<i>
	names := make([]string, n)
	for i := range incs {
		for _, r := range incs[i] {
			if r.target >= 0 && r.target < n && names[r.target] == "" {
				names[r.target] = r.name
			}
		}
	}
	used := map[string]bool{}
	for i := range names {
		if names[i] == "" || used[names[i]] {
			names[i] = fmt.Sprintf("f%d", i)
		}
		used[names[i]] = true
		p.Files[i].Path = names[i] + ".thrift"
	}
	for i := range incs {
		for _, r := range incs[i] {
			inc := Include{}
			if r.as {
				inc.As = "alias"
			}
			if r.target >= 0 && r.target < n && fileBaseName(p.Files[r.target].Path) == r.name {
				inc.Path = "./" + p.Files[r.target].Path
			} else if r.target >= 0 && r.target < n {
				// same target under another base name cannot be expressed with flat files
				inc.Path = "./" + p.Files[r.target].Path
			} else {
				inc.Path = "./" + r.name + ".thrift"
				for used[r.name] { // must not exist
					r.name += "_missing"
					inc.Path = "./" + r.name + ".thrift"
				}
			}
			p.Files[i].Includes = append(p.Files[i].Includes, inc)
		}
	}
	return p
}

func (t *tokens) names() []string {
	n := t.num()
	var ns []string
	for i := 0; i < n; i++ {
		ns = append(ns, t.next())
	}
	return ns
}

func (t *tokens) orders() Orders {
	if t.next() != "O" {
		panic("expected O")
	}
	n := t.num()
	var o Orders
	for i := 0; i < n; i++ {
		m := ModOrder{Funcs: map[string][]string{}}
		m.Includes = t.names()
		m.Types = t.names()
		m.Consts = t.names()
		m.Services = t.names()
		k := t.num()
		for j := 0; j < k; j++ {
			s := t.next()
			m.Funcs[s] = t.names()
		}
		o = append(o, m)
	}
	return o
}
