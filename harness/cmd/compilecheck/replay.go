package main

// Corpus and replay: every line is an op in the driver's syntax (C…, G…) or a raw-text
// input (X…), optionally prefixed by "known:Dnn " when the line is the witness of a
// known finding. Lines starting with # are comments.

import (
	"bufio"
	"encoding/json"
	"fmt"
	"os"
	"path/filepath"
	"sort"
	"strconv"
	"strings"

	"verifharness/internal/rng"
)

func runLine(c *checker, line string) {
	line = strings.TrimSpace(line)
	if line == "" || strings.HasPrefix(line, "#") {
		return
	}
	known := ""
	if strings.HasPrefix(line, "known:") {
		i := strings.IndexByte(line, ' ')
		if i < 0 {
			return
		}
		known, line = line[len("known:"):i], strings.TrimSpace(line[i+1:])
	}
	f := strings.Fields(line)
	defer func() {
		if r := recover(); r != nil {
			c.rep.Notes = append(c.rep.Notes, fmt.Sprintf("unreadable corpus/replay line (%v): %.80s", r, line))
		}
	}()
	r := rng.New(11)
	switch f[0] {
	case "C":
		t := &tokens{t: f, i: 3}
		o := t.orders()
		p := t.prog()
		switch *prop {
		case "C07":
			var extra []Orders
			if len(o) > 0 {
				extra = append(extra, o)
			}
			c07Program(c, r, p, "corpus", known, extra)
		case "C08":
			c08Case(c, p, true, "corpus", known)
		default:
			c09Program(c, p, "corpus", known)
		}
	case "S":
		t := &tokens{t: f, i: 1}
		p := t.prog()
		if *prop == "C07" {
			c07Program(c, r, p, "corpus", known, nil)
		}
	case "G":
		t := &tokens{t: f, i: 2}
		t.orders()
		p := t.prog()
		switch *prop {
		case "C07":
			c07Program(c, r, p, "corpus", known, nil)
		case "C09":
			c09Program(c, p, "corpus", known)
		default:
			c08Case(c, p, true, "corpus", known)
		}
	case "X":
		p := parseXOp(f)
		if len(p.Files) > 0 {
			c08Case(c, p, false, "corpus", known)
		}
	default:
		c.rep.Notes = append(c.rep.Notes, "unknown op in corpus/replay: "+strconv.Quote(f[0]))
	}
}

func runFile(c *checker, path string) {
	fh, err := os.Open(path)
	if err != nil {
		return
	}
	defer fh.Close()
	if strings.HasSuffix(path, ".json") {
		var doc struct {
			Disagreements []struct {
				Input string `json:"input"`
			} `json:"disagreements"`
		}
		if json.NewDecoder(fh).Decode(&doc) == nil {
			for _, d := range doc.Disagreements {
				runLine(c, d.Input)
			}
		}
		return
	}
	sc := bufio.NewScanner(fh)
	sc.Buffer(make([]byte, 1<<20), 1<<28)
	for sc.Scan() {
		runLine(c, sc.Text())
	}
}

func runCorpus(c *checker, dir string) {
	if dir == "" {
		return
	}
	files, _ := filepath.Glob(filepath.Join(dir, "*"))
	sort.Strings(files)
	for _, f := range files {
		runFile(c, f)
	}
	c.flush()
	c.rep.Hist("how", "corpus-files:"+strconv.Itoa(len(files)))
}
