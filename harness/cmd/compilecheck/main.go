// Command compilecheck is the correspondence check between thriftrw's compiler
// (package compile, plus the generator's service recursion in package gen) and
// the Lean model M-Compile, with the implementation-side property oracles for
// C07 (references resolve correctly, independent of ordering), C08 (compiler
// and generator terminate) and C09 (no silent numeric wrap-around).
package main

import (
	"flag"
	"fmt"
	"os"
	"path/filepath"
	"strings"

	"go.uber.org/thriftrw/compile"

	"verifharness/internal/lineproto"
	"verifharness/internal/report"
	"verifharness/internal/rng"
)

var (
	prop     = flag.String("prop", "", "property id (C07, C08, C09)")
	tier     = flag.String("tier", "quick", "quick|thorough")
	driver   = flag.String("driver", "", "path to the Lean compile driver")
	out      = flag.String("out", "", "report file")
	probe386 = flag.String("probe386", "", "C09: the int32probe binary built for GOARCH=386")
	replay   = flag.String("replay", "", "replay file")
	corpus   = flag.String("corpus", "", "corpus directory")
	childFl  = flag.Bool("child", false, "internal: run as compile/generate child")
)

// modelFuel is the nesting depth the model may use before its verdict is
// "diverges"; far above anything a terminating link of the generated programs needs.
const modelFuel = 4000

type pending struct {
	op, impl, kind, input string
	known                 string // id of the known finding this case probes ("" = none)
}

type checker struct {
	rep     *report.Report
	pend    []pending
	tmpRoot string
	nDirs   int
	known   map[string]string // finding id -> what (reproduced this run)
	stale   map[string]bool   // finding id probed but not reproduced
}

func (c *checker) expect(kind, op, impl string) {
	c.pend = append(c.pend, pending{op: op, impl: impl, kind: kind, input: op})
}

func (c *checker) expectIn(kind, op, impl, input string) {
	c.pend = append(c.pend, pending{op: op, impl: impl, kind: kind, input: input})
}

func (c *checker) oracle(kind, input, impl, why string) {
	c.rep.Disagree(report.Disagreement{Kind: kind, Input: input, Impl: impl, Oracle: why})
}

func (c *checker) knownHit(id, what string) {
	if _, ok := c.known[id]; !ok {
		c.known[id] = what
	}
}

func (c *checker) flush() {
	if len(c.pend) == 0 {
		return
	}
	ops := make([]string, len(c.pend))
	for i, p := range c.pend {
		ops[i] = p.op
	}
	ans, err := lineproto.Run(*driver, ops)
	if err != nil {
		fmt.Fprintln(os.Stderr, "compilecheck:", err)
		os.Exit(3)
	}
	for i, p := range c.pend {
		if ans[i] != p.impl {
			c.rep.Disagree(report.Disagreement{Kind: p.kind, Input: p.input, Impl: p.impl, Model: ans[i]})
		}
	}
	c.pend = c.pend[:0]
}

func (c *checker) maybeFlush() {
	if len(c.pend) > 4000 {
		c.flush()
	}
}

// newDir returns a fresh directory for one program.
func (c *checker) newDir() string {
	c.nDirs++
	d := filepath.Join(c.tmpRoot, fmt.Sprintf("p%d", c.nDirs))
	os.MkdirAll(d, 0o755)
	return d
}

// ---------------------------------------------------------------- in-process compilation

var rootSpelling int

// implCompile compiles the program rendered in dir with the given visit orders
// (nil: plain compile.Compile with Go's own map order) and answers in the
// driver's syntax. A panic is reported as "panic: …".
func implCompile(dir string, p *Prog, o Orders) (answer string, mod *compile.Module) {
	defer func() {
		if r := recover(); r != nil {
			answer = "panic: " + fmt.Sprint(r)
			mod = nil
		}
	}()
	// the input about to be compiled in this process: a fatal error of the runtime (stack
	// overflow, out of memory) cannot be recovered, so bin/check reads this file when the
	// harness dies and reports its content as the failing input
	if *out != "" {
		os.WriteFile(*out+".current", []byte(fmt.Sprintf("G %d O 0 %s\n", modelFuel, p.Sexp())), 0o644)
	}
	var opts []compile.Option
	if !p.Strict {
		opts = append(opts, compile.NonStrict())
	}
	root := filepath.Join(dir, p.Files[0].Path)
	// the root file may be named by any path that denotes it: every third compilation spells it
	// in an unclean form (a file reached again through an include cycle is still the same module)
	rootSpelling++
	switch rootSpelling % 6 {
	case 2:
		root = dir + "/./" + p.Files[0].Path
	case 4:
		root = filepath.Dir(dir) + "/" + filepath.Base(dir) + "/../" + filepath.Base(dir) + "//" + p.Files[0].Path
	}
	d := newDumper(dir, p)
	var m *compile.Module
	var err error
	if o == nil {
		m, err = compile.Compile(root, opts...)
	} else {
		m, err = compile.CompileWithLinkOrder(root, func(path, kind string, names []string) []string {
			i, ok := d.idx[path]
			if !ok || i >= len(o) {
				return names
			}
			switch {
			case kind == compile.VerifOrderIncludes:
				return o[i].Includes
			case kind == compile.VerifOrderTypes:
				return o[i].Types
			case kind == compile.VerifOrderConstants:
				return o[i].Consts
			case kind == compile.VerifOrderServices:
				return o[i].Services
			case strings.HasPrefix(kind, compile.VerifOrderFunctionsPrefix):
				return o[i].Funcs[strings.TrimPrefix(kind, compile.VerifOrderFunctionsPrefix)]
			}
			return names
		}, opts...)
	}
	if err != nil {
		_ = err.Error() // error rendering is part of what must not panic
		return "err", nil
	}
	return "ok " + d.dump(m), m
}

func opC(pre bool, o Orders, p *Prog) string {
	pr := 0
	if pre {
		pr = 1
	}
	if o == nil {
		o = Orders{}
	}
	return fmt.Sprintf("C %d %d %s %s", pr, modelFuel, o.Sexp(), p.Sexp())
}

func main() {
	flag.Parse()
	if *childFl {
		childMain()
		return
	}
	rep := report.New(*prop)
	tmp, err := os.MkdirTemp("", "compilecheck")
	if err != nil {
		fmt.Fprintln(os.Stderr, err)
		os.Exit(3)
	}
	defer os.RemoveAll(tmp)
	c := &checker{rep: rep, tmpRoot: tmp, known: map[string]string{}, stale: map[string]bool{}}
	r := rng.FromEnv(0x7000)
	if *replay != "" {
		runFile(c, *replay)
		c.flush()
		rep.Rule = "replay of " + *replay
	} else {
		runCorpus(c, *corpus)
		switch *prop {
		case "C07":
			runC07(c, r)
		case "C08":
			runC08(c, r)
		case "C09":
			runC09(c, r)
		default:
			fmt.Fprintln(os.Stderr, "unknown property", *prop)
			os.RemoveAll(tmp)
			os.Exit(2)
		}
	}
	c.flush()
	closeChildren()
	var ids []string
	for id := range c.known {
		ids = append(ids, id)
	}
	sortStrings(ids)
	for _, id := range ids {
		rep.Known = append(rep.Known, report.Known{ID: id, What: c.known[id]})
	}
	for id := range c.stale {
		if _, ok := c.known[id]; !ok {
			rep.Notes = append(rep.Notes, "known finding "+id+": its witness no longer fails on this tree (turn the record into status=fixed)")
		}
	}
	os.Remove(*out + ".current")
	if err := rep.Write(*out); err != nil {
		fmt.Fprintln(os.Stderr, err)
		os.RemoveAll(tmp)
		os.Exit(3)
	}
}
