package main

// Conversion of a parsed ast.Program (the real parser's output) into the abstract
// program description, for inputs that exist only as text (token-level mutations,
// arbitrary bytes). The parser itself is the business of C11; here it only supplies
// the AST the compiler will see, so that the model can be asked for its verdict.

import (
	"fmt"

	"go.uber.org/thriftrw/ast"
	"go.uber.org/thriftrw/idl"
)

type unsupported struct{ what string }

func convType(t ast.Type) *TExpr {
	switch x := t.(type) {
	case ast.BaseType:
		if len(x.Annotations) > 0 {
			panic(unsupported{"annotation"})
		}
		return &TExpr{Kind: map[ast.BaseTypeID]string{ast.BoolTypeID: "bool", ast.I8TypeID: "i8", ast.I16TypeID: "i16", ast.I32TypeID: "i32",
			ast.I64TypeID: "i64", ast.DoubleTypeID: "double", ast.StringTypeID: "string", ast.BinaryTypeID: "binary"}[x.ID]}
	case ast.ListType:
		if len(x.Annotations) > 0 {
			panic(unsupported{"annotation"})
		}
		return &TExpr{Kind: "list", A: convType(x.ValueType)}
	case ast.SetType:
		if len(x.Annotations) > 0 {
			panic(unsupported{"annotation"})
		}
		return &TExpr{Kind: "set", A: convType(x.ValueType)}
	case ast.MapType:
		if len(x.Annotations) > 0 {
			panic(unsupported{"annotation"})
		}
		return &TExpr{Kind: "map", A: convType(x.KeyType), B: convType(x.ValueType)}
	case ast.TypeReference:
		return &TExpr{Kind: "ref", Name: x.Name}
	}
	panic(unsupported{fmt.Sprintf("type %T", t)})
}

func convValue(v ast.ConstantValue) *CV {
	switch x := v.(type) {
	case ast.ConstantInteger:
		return &CV{Kind: 'i', I: int64(x)}
	case ast.ConstantDouble:
		return &CV{Kind: 'd', D: float64(x)}
	case ast.ConstantBoolean:
		return &CV{Kind: 'b', B: bool(x)}
	case ast.ConstantString:
		return &CV{Kind: 's', S: string(x)}
	case ast.ConstantReference:
		return &CV{Kind: 'r', R: x.Name}
	case ast.ConstantList:
		c := &CV{Kind: 'l'}
		for _, e := range x.Items {
			c.L = append(c.L, convValue(e))
		}
		return c
	case ast.ConstantMap:
		c := &CV{Kind: 'm'}
		for _, e := range x.Items {
			c.M = append(c.M, [2]*CV{convValue(e.Key), convValue(e.Value)})
		}
		return c
	}
	panic(unsupported{fmt.Sprintf("value %T", v)})
}

func convFields(fs []*ast.Field) []*Field {
	var out []*Field
	for _, f := range fs {
		if len(f.Annotations) > 0 {
			panic(unsupported{"annotation"})
		}
		g := &Field{Name: f.Name, Ty: convType(f.Type)}
		if !f.IDUnset {
			g.ID = i64p(int64(f.ID))
		}
		switch f.Requiredness {
		case ast.Required:
			g.Req = 'r'
		case ast.Optional:
			g.Req = 'o'
		default:
			g.Req = 'd'
		}
		if f.Default != nil {
			g.Dflt = convValue(f.Default)
		}
		out = append(out, g)
	}
	return out
}

// parseFile converts one file's text; ok=false: it does not parse; the panic value
// `unsupported` escapes when the AST uses something the model's syntax leaves out.
func parseFile(text []byte) (f *File, ok bool) {
	prog, err := idl.Parse(text)
	if err != nil {
		return nil, false
	}
	f = &File{}
	for _, h := range prog.Headers {
		if inc, isInc := h.(*ast.Include); isInc {
			f.Includes = append(f.Includes, Include{As: inc.Name, Path: inc.Path})
		}
	}
	for _, d := range prog.Definitions {
		switch x := d.(type) {
		case *ast.Constant:
			f.Defs = append(f.Defs, &Def{Kind: 'C', Name: x.Name, Ty: convType(x.Type), Val: convValue(x.Value)})
		case *ast.Typedef:
			if len(x.Annotations) > 0 {
				panic(unsupported{"annotation"})
			}
			f.Defs = append(f.Defs, &Def{Kind: 'T', Name: x.Name, Ty: convType(x.Type)})
		case *ast.Enum:
			if len(x.Annotations) > 0 {
				panic(unsupported{"annotation"})
			}
			def := &Def{Kind: 'E', Name: x.Name}
			for _, it := range x.Items {
				if len(it.Annotations) > 0 {
					panic(unsupported{"annotation"})
				}
				e := EnumItem{Name: it.Name}
				if it.Value != nil {
					e.Val = i64p(int64(*it.Value))
				}
				def.Items = append(def.Items, e)
			}
			f.Defs = append(f.Defs, def)
		case *ast.Struct:
			if len(x.Annotations) > 0 {
				panic(unsupported{"annotation"})
			}
			k := map[ast.StructureType]byte{ast.StructType: 's', ast.UnionType: 'u', ast.ExceptionType: 'x'}[x.Type]
			f.Defs = append(f.Defs, &Def{Kind: 'S', SKind: k, Name: x.Name, Fields: convFields(x.Fields)})
		case *ast.Service:
			if len(x.Annotations) > 0 {
				panic(unsupported{"annotation"})
			}
			def := &Def{Kind: 'V', Name: x.Name}
			if x.Parent != nil {
				def.Parent = x.Parent.Name
			}
			for _, fn := range x.Functions {
				if len(fn.Annotations) > 0 {
					panic(unsupported{"annotation"})
				}
				g := &Func{Name: fn.Name, Oneway: fn.OneWay, Args: convFields(fn.Parameters), Excs: convFields(fn.Exceptions)}
				if fn.ReturnType != nil {
					g.Ret = convType(fn.ReturnType)
				}
				def.Funcs = append(def.Funcs, g)
			}
			f.Defs = append(f.Defs, def)
		default:
			panic(unsupported{fmt.Sprintf("definition %T", d)})
		}
	}
	return f, true
}

// fromText rebuilds the abstract description of a program given as raw file texts.
// why != "" : the model cannot be asked (unsupported construct or parser panic).
func fromText(p *Prog) (q *Prog, why string) {
	defer func() {
		if r := recover(); r != nil {
			if u, ok := r.(unsupported); ok {
				q, why = nil, u.what
				return
			}
			q, why = nil, "parser panic: "+fmt.Sprint(r)
		}
	}()
	q = &Prog{Strict: p.Strict}
	for _, f := range p.Files {
		text := []byte(f.Text())
		nf, ok := parseFile(text)
		if !ok {
			q.Files = append(q.Files, &File{Path: f.Path, Bad: true, Raw: text})
			continue
		}
		nf.Path = f.Path
		nf.Raw = text
		q.Files = append(q.Files, nf)
	}
	return q, ""
}
