package main

// C09: accepted programs are well-formed — no silent numeric wrap-around,
// uniqueness, no self-defined constants/services.

import (
	"fmt"
	"os"
	"os/exec"
	"strings"

	"go.uber.org/thriftrw/compile"

	"verifharness/internal/rng"
)

// violation of a C09 clause found on the implementation's output; tag names the
// known finding whose (narrow, source-level) shape the input has, "" otherwise.
type violation struct {
	what string
	tag  string
}

// designatedIDs: the identifier the source designates for every field (explicit, or
// the next auto-assigned negative one where that is allowed). ok=false: some field has
// no designated identifier at all (unset where auto-assignment is off).
func designatedIDs(fs []*Field, allowNeg bool) (ids []int64, ok bool) {
	ok = true
	next := int64(-1)
	for _, f := range fs {
		switch {
		case f.ID != nil:
			ids = append(ids, *f.ID)
			if allowNeg && *f.ID < 0 {
				next = *f.ID - 1
			}
		case allowNeg:
			ids = append(ids, next)
			next--
		default:
			ids = append(ids, 0)
			ok = false
		}
	}
	return
}

// sourceVerdict: what the property prescribes for the numeric/uniqueness aspects of the
// source alone: reject=true with a reason, and the known-finding tag when the current
// compiler is known to accept that shape.
func sourceVerdict(p *Prog) (reject bool, why, tag string) {
	set := func(w, t string) {
		if !reject || (tag != "" && t == "") {
			reject, why, tag = true, w, t
		}
	}
	checkFields := func(where string, fs []*Field, allowNeg bool) {
		ids, ok := designatedIDs(fs, allowNeg)
		if !ok {
			set(where+": field without identifier", "")
		}
		seenID := map[int64]bool{}
		seenName := map[string]bool{}
		for i, f := range fs {
			id := ids[i]
			switch {
			case id > 32767:
				set(fmt.Sprintf("%s: field id %d > 32767", where, id), "")
			case id < 1 && !allowNeg:
				set(fmt.Sprintf("%s: field id %d < 1", where, id), "")
			case id < -32768:
				set(fmt.Sprintf("%s: field id %d < -32768", where, id), "")
			}
			if seenID[id] {
				set(fmt.Sprintf("%s: duplicate field id %d", where, id), "")
			}
			seenID[id] = true
			if seenName[f.Name] {
				set(fmt.Sprintf("%s: duplicate field name %s", where, f.Name), "")
			}
			seenName[f.Name] = true
		}
	}
	for _, f := range p.Files {
		names := map[string]bool{}
		for _, d := range f.Defs {
			if names[d.Name] {
				set("duplicate definition "+d.Name, "")
			}
			names[d.Name] = true
			switch d.Kind {
			case 'S':
				checkFields(d.Name, d.Fields, !p.Strict)
			case 'E':
				seen := map[string]bool{}
				for i, v := range enumValues(d) {
					if v > 2147483647 || v < -2147483648 {
						set(fmt.Sprintf("enum %s: value %d outside int32", d.Name, v), "")
					}
					k := strings.ToLower(d.Items[i].Name)
					if seen[k] {
						set("enum "+d.Name+": duplicate item "+d.Items[i].Name, "")
					}
					seen[k] = true
				}
			case 'V':
				seen := map[string]bool{}
				for _, fn := range d.Funcs {
					k := strings.ToLower(fn.Name)
					if seen[k] {
						set("service "+d.Name+": duplicate function "+fn.Name, "")
					}
					seen[k] = true
					checkFields(d.Name+"."+fn.Name, fn.Args, false)
					checkFields(d.Name+"."+fn.Name+" throws", fn.Excs, false)
				}
				if d.Parent == d.Name {
					set("service "+d.Name+" extends itself", "")
				}
				for _, d2 := range f.Defs {
					if d2.Kind == 'V' && d2 != d && d.Parent == d2.Name && d2.Parent == d.Name {
						set("services "+d.Name+" and "+d2.Name+" extend each other", "")
					}
				}
			case 'C':
				if d.Val.Kind == 'r' && d.Val.R == d.Name {
					set("constant "+d.Name+" is defined as itself", "")
				}
				if constReaches(f, d, d, map[*Def]bool{}) {
					set("constant "+d.Name+" needs its own value", "")
				}
				for _, d2 := range f.Defs {
					if d2.Kind == 'C' && d2 != d && d.Val.Kind == 'r' && d.Val.R == d2.Name && d2.Val.Kind == 'r' && d2.Val.R == d.Name {
						set("constants "+d.Name+" and "+d2.Name+" are defined as each other", "")
					}
				}
				if b, ok := intBounds[d.Ty.Kind]; ok && d.Val.Kind == 'i' && (d.Val.I < b[0] || d.Val.I > b[1]) {
					set(fmt.Sprintf("constant %s: %d outside %s", d.Name, d.Val.I, d.Ty.Kind), "")
				}
			}
		}
	}
	return
}

func intRange(t compile.TypeSpec) (lo, hi int64, ok bool) {
	switch compile.RootTypeSpec(t).(type) {
	case *compile.I8Spec:
		return -128, 127, true
	case *compile.I16Spec:
		return -32768, 32767, true
	case *compile.I32Spec:
		return -2147483648, 2147483647, true
	case *compile.I64Spec:
		return -9223372036854775808, 9223372036854775807, true
	}
	return 0, 0, false
}

// checkValue compares a linked constant with the literal it was written as.
func checkValue(where string, src *CV, v compile.ConstantValue, t compile.TypeSpec, out *[]violation) {
	if src == nil || v == nil || t == nil {
		return
	}
	root := compile.RootTypeSpec(t)
	switch src.Kind {
	case 'i':
		if lo, hi, ok := intRange(t); ok {
			ci, isInt := v.(compile.ConstantInt)
			if !isInt || int64(ci) != src.I {
				*out = append(*out, violation{fmt.Sprintf("%s: literal %d compiled to %v", where, src.I, v), ""})
			} else if src.I < lo || src.I > hi {
				*out = append(*out, violation{fmt.Sprintf("%s: %d accepted for a type with range [%d, %d]", where, src.I, lo, hi), ""})
			}
		}
		if e, ok := root.(*compile.EnumSpec); ok {
			if ref, isRef := v.(compile.EnumItemReference); isRef {
				if int64(ref.Item.Value) != src.I {
					*out = append(*out, violation{fmt.Sprintf("%s: literal %d compiled to enum item %s.%s = %d", where, src.I, e.Name, ref.Item.Name, ref.Item.Value), ""})
				}
			}
		}
	case 'l':
		var elem compile.TypeSpec
		switch r := root.(type) {
		case *compile.ListSpec:
			elem = r.ValueSpec
		case *compile.SetSpec:
			elem = r.ValueSpec
		}
		var items []compile.ConstantValue
		switch x := v.(type) {
		case compile.ConstantList:
			items = x
		case compile.ConstantSet:
			items = x
		}
		if elem != nil && len(items) == len(src.L) {
			for i := range items {
				checkValue(fmt.Sprintf("%s[%d]", where, i), src.L[i], items[i], elem, out)
			}
		}
	case 'm':
		switch r := root.(type) {
		case *compile.MapSpec:
			if x, ok := v.(compile.ConstantMap); ok && len(x) == len(src.M) {
				for i := range x {
					checkValue(fmt.Sprintf("%s{key %d}", where, i), src.M[i][0], x[i].Key, r.KeySpec, out)
					checkValue(fmt.Sprintf("%s{value %d}", where, i), src.M[i][1], x[i].Value, r.ValueSpec, out)
				}
			}
		case *compile.StructSpec:
			if x, ok := v.(*compile.ConstantStruct); ok {
				for _, kv := range src.M {
					if kv[0].Kind != 's' {
						continue
					}
					if f, err := r.Fields.FindByName(kv[0].S); err == nil {
						checkValue(where+"."+kv[0].S, kv[1], x.Fields[kv[0].S], f.Type, out)
					}
				}
			}
		}
	}
}

// c09Oracle evaluates the property on the compiled module against the source.
func c09Oracle(p *Prog, dir string, root *compile.Module) []violation {
	var out []violation
	d := newDumper(dir, p)
	seen := map[*compile.Module]bool{}
	var visit func(m *compile.Module)
	checkFields := func(where string, src []*Field, fg compile.FieldGroup, allowNeg bool) {
		ids, _ := designatedIDs(src, allowNeg)
		if len(fg) != len(src) {
			return
		}
		usedID := map[int16]bool{}
		usedName := map[string]bool{}
		for i, f := range fg {
			if int64(f.ID) != ids[i] {
				tag := ""

				out = append(out, violation{fmt.Sprintf("%s.%s: source designates field id %d, compiled id is %d", where, f.Name, ids[i], f.ID), tag})
			}
			if usedID[f.ID] {
				out = append(out, violation{fmt.Sprintf("%s: field id %d used twice", where, f.ID), ""})
			}
			if usedName[f.Name] {
				out = append(out, violation{fmt.Sprintf("%s: field name %s used twice", where, f.Name), ""})
			}
			usedID[f.ID], usedName[f.Name] = true, true
			if src[i].Dflt != nil && f.Default != nil {
				checkValue(where+"."+f.Name+" default", src[i].Dflt, f.Default, f.Type, &out)
			}
		}
	}
	visit = func(m *compile.Module) {
		if seen[m] {
			return
		}
		seen[m] = true
		for _, inc := range m.Includes {
			visit(inc.Module)
		}
		fi, ok := d.idx[m.ThriftPath]
		if !ok {
			return
		}
		for _, def := range p.Files[fi].Defs {
			switch def.Kind {
			case 'S':
				if s, ok := m.Types[def.Name].(*compile.StructSpec); ok {
					checkFields(def.Name, def.Fields, s.Fields, !p.Strict)
				}
			case 'E':
				if e, ok := m.Types[def.Name].(*compile.EnumSpec); ok && len(e.Items) == len(def.Items) {
					seenItem := map[string]bool{}
					for i, v := range enumValues(def) {
						if int64(e.Items[i].Value) != v {
							tag := ""

							out = append(out, violation{fmt.Sprintf("enum %s.%s: source designates %d, compiled value is %d", def.Name, e.Items[i].Name, v, e.Items[i].Value), tag})
						}
						k := strings.ToLower(e.Items[i].Name)
						if seenItem[k] {
							out = append(out, violation{"enum " + def.Name + ": item name used twice: " + e.Items[i].Name, ""})
						}
						seenItem[k] = true
					}
				}
			case 'C':
				if c := m.Constants[def.Name]; c != nil {
					checkValue("const "+def.Name, def.Val, c.Value, c.Type, &out)
					if selfConst(c, c.Value, 0) {
						out = append(out, violation{"constant " + def.Name + " is defined in terms of itself", ""})
					}
				}
			case 'V':
				if s := m.Services[def.Name]; s != nil {
					for q, n := s.Parent, 0; q != nil && n < 64; q, n = q.Parent, n+1 {
						if q == s {
							out = append(out, violation{"service " + def.Name + " inherits from itself", ""})
							break
						}
					}
					for _, fn := range def.Funcs {
						if f := s.Functions[fn.Name]; f != nil {
							checkFields(def.Name+"."+fn.Name, fn.Args, compile.FieldGroup(f.ArgsSpec), false)
						}
					}
				}
			}
		}
	}
	visit(root)
	return out
}

// selfConst: does the linked value of c mention c again (through constant references)?
func selfConst(c *compile.Constant, v compile.ConstantValue, depth int) bool {
	if depth > 32 {
		return false
	}
	switch x := v.(type) {
	case compile.ConstReference:
		if x.Target == c {
			return true
		}
		return selfConst(c, x.Target.Value, depth+1)
	case compile.ConstantList:
		for _, e := range x {
			if selfConst(c, e, depth+1) {
				return true
			}
		}
	case compile.ConstantSet:
		for _, e := range x {
			if selfConst(c, e, depth+1) {
				return true
			}
		}
	case compile.ConstantMap:
		for _, e := range x {
			if selfConst(c, e.Key, depth+1) || selfConst(c, e.Value, depth+1) {
				return true
			}
		}
	case *compile.ConstantStruct:
		for _, e := range x.Fields {
			if selfConst(c, e, depth+1) {
				return true
			}
		}
	}
	return false
}

// c09Program compiles one program, evaluates the oracle and queues the model comparison.
// probe != "" marks a corpus probe of that known finding.
func c09Program(c *checker, p *Prog, how, probe string) {
	dir := c.newDir()
	defer os.RemoveAll(dir)
	if err := p.Write(dir); err != nil {
		fmt.Fprintln(os.Stderr, "compilecheck:", err)
		os.Exit(3)
	}
	op := opC(false, nil, p)
	impl, mod := implCompile(dir, p, nil)
	c.rep.Hist("how", how)
	strict := "strict"
	if !p.Strict {
		strict = "non-strict"
	}
	c.rep.Hist("mode", strict)
	reject, why, tag := sourceVerdict(p)
	switch {
	case impl == "err":
		c.rep.Hist("outcome", "rejected")
	case strings.HasPrefix(impl, "ok"):
		c.rep.Hist("outcome", "accepted")
	}
	c.rep.Case(op, true)
	if strings.HasPrefix(impl, "panic") {
		c.oracle("C09 compiler panicked", op, impl, "compile.Compile panicked")
		return
	}
	hit := false
	if mod != nil {
		if reject {
			if tag != "" {
				c.knownHit(tag, "accepted although the property requires rejection: "+why)
				hit = true
			} else {
				c.oracle("C09 source that must be rejected was accepted", op, impl, why)
			}
		}
		for _, v := range c09Oracle(p, dir, mod) {
			if v.tag != "" {
				c.knownHit(v.tag, v.what)
				hit = true
			} else {
				c.oracle("C09 compiled number differs from the source / uniqueness", op, impl, v.what)
			}
		}
	}
	if probe != "" && !hit {
		c.stale[probe] = true
	}
	c.expect("C09 compile result vs model", op, impl)
	c.maybeFlush()
}

// plantNumeric rewrites parts of a generated program around numeric boundaries.
// It returns a label for the histogram.
func plantNumeric(r *rng.R, p *Prog, g *gen) string {
	var structs, enums, svcs []*Def
	for _, f := range p.Files {
		for _, d := range f.Defs {
			switch d.Kind {
			case 'S':
				if len(d.Fields) > 0 {
					structs = append(structs, d)
				}
			case 'E':
				enums = append(enums, d)
			case 'V':
				svcs = append(svcs, d)
			}
		}
	}
	label := "valid"
	// valid boundary identifiers
	for _, s := range structs {
		if !r.Chance(1, 2) {
			continue
		}
		used := map[int64]bool{}
		next := int64(-1)
		for _, f := range s.Fields {
			if f.ID == nil {
				used[next] = true
				next--
				continue
			}
			var cand []int64
			if p.Strict {
				cand = []int64{1, 2, 127, 128, 255, 256, 32766, 32767, 16384}
			} else {
				cand = []int64{0, 1, -1, -2, 127, -128, -129, 255, 256, 32767, 32766, -32767, -32768, 16384, -16384}
			}
			for n := 0; n < 8; n++ {
				v := cand[r.Intn(len(cand))]
				clash := used[v]
				if !p.Strict && v < 0 { // the auto-assigned ids that follow must not clash either
					for k := int64(1); k <= int64(len(s.Fields)); k++ {
						if used[v-k] || v-k < -32768 {
							clash = true
						}
					}
				}
				if !clash {
					f.ID = i64p(v)
					if v >= 0 && r.Chance(1, 4) {
						f.IDLit = fmt.Sprintf("0x%x", v)
					} else if r.Chance(1, 8) {
						f.IDLit = zeroPadded(v, 1+r.Intn(3))
					}
					break
				}
			}
			used[*f.ID] = true
			if !p.Strict && *f.ID < 0 {
				next = *f.ID - 1
			}
		}
		// re-validate: duplicates may have slipped in through auto ids; fall back to plain ids
		if ids, ok := designatedIDs(s.Fields, !p.Strict); ok {
			seen := map[int64]bool{}
			bad := false
			for _, id := range ids {
				if seen[id] || id > 32767 || id < -32768 {
					bad = true
				}
				seen[id] = true
			}
			if bad {
				for i, f := range s.Fields {
					f.ID, f.IDLit = i64p(int64(i+1)), ""
				}
			}
		}
	}
	if !r.Chance(2, 5) {
		return label
	}
	// one planted defect that the compiler must reject
	kind := r.Intn(22)
	switch {
	case kind == 0 && len(structs) > 0:
		s := structs[r.Intn(len(structs))]
		f := s.Fields[r.Intn(len(s.Fields))]
		f.ID, f.IDLit = i64p([]int64{32768, 32769, 65535, 65536, 65537, 98304, 2147483647, 2147483648, 4294967297, 9223372036854775807}[r.Intn(10)]), ""
		label = "field id above 32767"
	case kind == 1 && len(structs) > 0 && p.Strict:
		s := structs[r.Intn(len(structs))]
		f := s.Fields[r.Intn(len(s.Fields))]
		f.ID, f.IDLit = i64p([]int64{0, -1, -2, -32768, -32769, -65535, -65536, -9223372036854775808}[r.Intn(8)]), ""
		label = "strict: field id below 1"
	case kind == 2 && len(structs) > 0 && p.Strict:
		s := structs[r.Intn(len(structs))]
		s.Fields[r.Intn(len(s.Fields))].ID = nil
		label = "strict: field id unset"
	case kind == 3 && len(structs) > 0:
		s := structs[r.Intn(len(structs))]
		if len(s.Fields) >= 2 {
			ids, _ := designatedIDs(s.Fields, !p.Strict)
			i := r.Intn(len(s.Fields) - 1)
			s.Fields[len(s.Fields)-1].ID, s.Fields[len(s.Fields)-1].IDLit = i64p(ids[i]), ""
			label = "duplicate field id"
		}
	case kind == 4 && len(structs) > 0:
		s := structs[r.Intn(len(structs))]
		if len(s.Fields) >= 2 {
			s.Fields[len(s.Fields)-1].Name = s.Fields[0].Name
			label = "duplicate field name"
		}
	case kind == 5 && len(enums) > 0:
		e := enums[r.Intn(len(enums))]
		if len(e.Items) >= 1 {
			n := e.Items[0].Name
			e.Items = append(e.Items, EnumItem{Name: strings.ToLower(n)})
			label = "duplicate enum item (case-insensitive)"
		}
	case kind == 6 && len(svcs) > 0:
		s := svcs[r.Intn(len(svcs))]
		if len(s.Funcs) >= 1 {
			s.Funcs = append(s.Funcs, &Func{Name: strings.ToUpper(s.Funcs[0].Name)})
			label = "duplicate function (case-insensitive)"
		}
	case kind == 7:
		// literal beyond int64: the file does not lex
		f := p.Files[r.Intn(len(p.Files))]
		lit := []string{"9223372036854775808", "-9223372036854775809", "0x8000000000000000", "18446744073709551616", "0xffffffffffffffffff"}[r.Intn(5)]
		f.Defs = append(f.Defs, &Def{Kind: 'C', Name: g.name("c"), Ty: &TExpr{Kind: "i64"}, Val: &CV{Kind: 'i', Lit: lit}})
		f.Raw = []byte(f.Text())
		f.Bad = true
		label = "literal beyond int64"
	case kind == 8:
		f := p.Files[r.Intn(len(p.Files))]
		f.Defs = append(f.Defs, &Def{Kind: 'C', Name: g.name("c"), Ty: &TExpr{Kind: "bool"}, Val: &CV{Kind: 'i', I: []int64{2, -1, 256, 4294967296}[r.Intn(4)]}})
		label = "bool constant other than 0/1"
	case kind == 9 && len(enums) > 0:
		e := enums[r.Intn(len(enums))]
		vals := map[int64]bool{}
		for _, v := range enumValues(e) {
			vals[v] = true
		}
		for _, v := range []int64{5, -7, 1000, 2147483647, -2147483648} {
			if !vals[v] {
				file := p.Files[e.File]
				file.Defs = append(file.Defs, &Def{Kind: 'C', Name: g.name("c"), Ty: &TExpr{Kind: "ref", Name: e.Name, Target: e}, Val: &CV{Kind: 'i', I: v}})
				label = "enum constant that is no item value"
				break
			}
		}
	case kind == 11 && len(enums) > 0:
		// enum value outside int32 (explicit, or the implicit successor of 2147483647)
		e := enums[r.Intn(len(enums))]
		if r.Bool() {
			v := []int64{2147483648, 4294967296, 4294967297, -2147483649, 9223372036854775807, -9223372036854775808}[r.Intn(6)]
			e.Items = append(e.Items, EnumItem{Name: g.name("I"), Val: i64p(v)})
		} else {
			e.Items = append(e.Items, EnumItem{Name: g.name("I"), Val: i64p(2147483647)}, EnumItem{Name: g.name("I")})
		}
		label = "enum value outside int32"
	case kind == 12 && len(structs) > 0 && !p.Strict:
		s := structs[r.Intn(len(structs))]
		if r.Bool() {
			f := s.Fields[r.Intn(len(s.Fields))]
			f.ID, f.IDLit = i64p([]int64{-32769, -40000, -65535, -65536, -2147483648, -9223372036854775808}[r.Intn(6)]), ""
		} else {
			// auto-assigned identifier after -32768
			s.Fields[0].ID, s.Fields[0].IDLit = i64p(-32768), ""
			s.Fields = append(s.Fields, &Field{Name: g.name("f"), Req: 'o', Ty: &TExpr{Kind: "i32"}})
		}
		label = "non-strict: field id below -32768"
	case kind == 13:
		f := p.Files[r.Intn(len(p.Files))]
		ty := []string{"i8", "i16", "i32"}[r.Intn(3)]
		b := intBounds[ty]
		v := []int64{b[1] + 1, b[0] - 1, b[1] + 1 + (b[1]-b[0])/2, 4294967296, -4294967297, 9223372036854775807}[r.Intn(6)]
		var d *Def
		switch r.Intn(3) {
		case 0:
			d = &Def{Kind: 'C', Name: g.name("c"), Ty: &TExpr{Kind: ty}, Val: &CV{Kind: 'i', I: v}}
		case 1:
			d = &Def{Kind: 'C', Name: g.name("c"), Ty: &TExpr{Kind: "list", A: &TExpr{Kind: ty}}, Val: &CV{Kind: 'l', L: []*CV{{Kind: 'i', I: 1}, {Kind: 'i', I: v}}}}
		default:
			d = &Def{Kind: 'S', SKind: 's', Name: g.name("S"), Fields: []*Field{{ID: i64p(1), Name: g.name("f"), Req: 'o', Ty: &TExpr{Kind: ty}, Dflt: &CV{Kind: 'i', I: v}}}}
		}
		f.Defs = append(f.Defs, d)
		label = "integer constant outside its type"
	case kind == 14 && len(enums) > 0:
		e := enums[r.Intn(len(enums))]
		vals := enumValues(e)
		if len(vals) > 0 {
			v := vals[r.Intn(len(vals))]
			if v >= -2147483648 && v <= 2147483647 {
				file := p.Files[e.File]
				file.Defs = append(file.Defs, &Def{Kind: 'C', Name: g.name("c"), Ty: &TExpr{Kind: "ref", Name: e.Name, Target: e}, Val: &CV{Kind: 'i', I: v + []int64{4294967296, -4294967296, 8589934592}[r.Intn(3)]}})
				label = "enum constant equal to an item value modulo 2^32"
			}
		}
	case kind == 15:
		f := p.Files[r.Intn(len(p.Files))]
		n := g.name("c")
		ty := &TExpr{Kind: []string{"i32", "string", "list"}[r.Intn(3)]}
		if ty.Kind == "list" {
			ty.A = &TExpr{Kind: "i32"}
		}
		if r.Bool() {
			f.Defs = append(f.Defs, &Def{Kind: 'C', Name: n, Ty: ty, Val: &CV{Kind: 'r', R: n}})
		} else {
			n2 := g.name("c")
			f.Defs = append(f.Defs, &Def{Kind: 'C', Name: n, Ty: ty, Val: &CV{Kind: 'r', R: n2}}, &Def{Kind: 'C', Name: n2, Ty: ty, Val: &CV{Kind: 'r', R: n}})
		}
		label = "constant defined in terms of itself"
	case kind == 17:
		// a constant that needs its own value through a struct / list / map literal of a recursive
		// struct type (cycle length 1 or 2; the closing field declared directly or through a typedef)
		f := p.Files[r.Intn(len(p.Files))]
		sn, tn := g.name("Rec"), g.name("RecT")
		ft := &TExpr{Kind: "ref", Name: sn}
		if r.Bool() {
			ft = &TExpr{Kind: "ref", Name: tn}
		}
		shape := r.Intn(3)
		var fieldTy *TExpr
		wrap := func(v *CV) *CV { return v }
		switch shape {
		case 0:
			fieldTy = ft
		case 1:
			fieldTy = &TExpr{Kind: "list", A: ft}
			wrap = func(v *CV) *CV { return &CV{Kind: 'l', L: []*CV{v}} }
		default:
			fieldTy = &TExpr{Kind: "map", A: &TExpr{Kind: "string"}, B: ft}
			wrap = func(v *CV) *CV { return &CV{Kind: 'm', M: [][2]*CV{{{Kind: 's', S: "k"}, v}}} }
		}
		f.Defs = append(f.Defs,
			&Def{Kind: 'S', SKind: 's', Name: sn, Fields: []*Field{{ID: i64p(1), Name: "value", Req: 'r', Ty: &TExpr{Kind: "i32"}}, {ID: i64p(2), Name: "tail", Req: 'o', Ty: fieldTy}}},
			&Def{Kind: 'T', Name: tn, Ty: &TExpr{Kind: "ref", Name: sn}})
		lit := func(next string) *CV {
			return &CV{Kind: 'm', M: [][2]*CV{{{Kind: 's', S: "value"}, {Kind: 'i', I: 1}}, {{Kind: 's', S: "tail"}, wrap(&CV{Kind: 'r', R: next})}}}
		}
		n := g.name("c")
		cty := &TExpr{Kind: "ref", Name: []string{sn, tn}[r.Intn(2)]}
		if r.Bool() {
			f.Defs = append(f.Defs, &Def{Kind: 'C', Name: n, Ty: cty, Val: lit(n)})
		} else {
			n2 := g.name("c")
			second := lit(n)
			if r.Bool() {
				second = &CV{Kind: 'r', R: n}
			}
			f.Defs = append(f.Defs, &Def{Kind: 'C', Name: n, Ty: cty, Val: lit(n2)}, &Def{Kind: 'C', Name: n2, Ty: cty, Val: second})
		}
		label = "constant defined in terms of itself through a literal"
	case kind == 16:
		f := p.Files[r.Intn(len(p.Files))]
		n := g.name("V")
		if r.Bool() {
			f.Defs = append(f.Defs, &Def{Kind: 'V', Name: n, Parent: n})
		} else {
			n2 := g.name("V")
			f.Defs = append(f.Defs, &Def{Kind: 'V', Name: n, Parent: n2}, &Def{Kind: 'V', Name: n2, Parent: n})
		}
		label = "service that inherits from itself"
	case kind == 18 && len(structs) > 0 && !p.Strict:
		// an auto-assigned identifier that meets an explicit negative one: -N, -1, then N-1 fields
		// without identifier (-2 … -N)
		s := structs[r.Intn(len(structs))]
		for i, f := range s.Fields {
			f.ID, f.IDLit = i64p(int64(i+1)), ""
		}
		n := int64(2 + r.Intn(3))
		s.Fields = append(s.Fields, &Field{ID: i64p(-n), Name: g.name("f"), Req: 'o', Ty: &TExpr{Kind: "i32"}},
			&Field{ID: i64p(-1), Name: g.name("f"), Req: 'o', Ty: &TExpr{Kind: "i32"}})
		for k := int64(1); k < n; k++ {
			s.Fields = append(s.Fields, &Field{Name: g.name("f"), Req: 'o', Ty: &TExpr{Kind: "string"}})
		}
		label = "non-strict: auto-assigned field id equal to an explicit one"
	case kind == 19:
		// an enum item where an i8 / i16 is expected, with a value outside that type (whether enum
		// items may stand for integers at all is the compiler's choice; outside the range they may not)
		f := p.Files[r.Intn(len(p.Files))]
		ty := []string{"i8", "i16"}[r.Intn(2)]
		b := intBounds[ty]
		v := []int64{b[1] + 1, b[0] - 1, 100000, 2147483647, -2147483648}[r.Intn(5)]
		en, in := g.name("E"), g.name("I")
		f.Defs = append(f.Defs, &Def{Kind: 'E', Name: en, Items: []EnumItem{{Name: g.name("I"), Val: i64p(1)}, {Name: in, Val: i64p(v)}}})
		ref := &CV{Kind: 'r', R: en + "." + in}
		switch r.Intn(3) {
		case 0:
			f.Defs = append(f.Defs, &Def{Kind: 'C', Name: g.name("c"), Ty: &TExpr{Kind: ty}, Val: ref})
		case 1:
			f.Defs = append(f.Defs, &Def{Kind: 'C', Name: g.name("c"), Ty: &TExpr{Kind: "list", A: &TExpr{Kind: ty}}, Val: &CV{Kind: 'l', L: []*CV{{Kind: 'i', I: 1}, ref}}})
		default:
			f.Defs = append(f.Defs, &Def{Kind: 'S', SKind: 's', Name: g.name("S"), Fields: []*Field{{ID: i64p(1), Name: g.name("f"), Req: 'o', Ty: &TExpr{Kind: ty}, Dflt: ref}}})
		}
		label = "enum item outside the integer type it is used as"
	case kind == 20:
		// a struct literal that gives one field twice: one of the values would survive, the other
		// (here sometimes outside the i8 / i16 of the field) would never be checked
		f := p.Files[r.Intn(len(p.Files))]
		ty := []string{"i8", "i16", "i32"}[r.Intn(3)]
		b := intBounds[ty]
		sn, fn := g.name("S"), g.name("f")
		first := []int64{1, b[1] + 1, b[0] - 1, 0}[r.Intn(4)]
		sd := &Def{Kind: 'S', SKind: 's', Name: sn, Fields: []*Field{{ID: i64p(1), Name: fn, Req: 'o', Ty: &TExpr{Kind: ty}}}}
		lit := &CV{Kind: 'm', M: [][2]*CV{{{Kind: 's', S: fn}, {Kind: 'i', I: first}}, {{Kind: 's', S: fn}, {Kind: 'i', I: 1}}}}
		f.Defs = append(f.Defs, sd, &Def{Kind: 'C', Name: g.name("c"), Ty: &TExpr{Kind: "ref", Name: sn, Target: sd}, Val: lit})
		label = "struct literal that gives a field twice"
	case kind == 21:
		// a default that is needed, by omission from a literal, while it is itself being linked:
		// struct S {1: optional S f = {}}, or constants a = {} (of Outer, whose field defaults to b) and
		// b = {"back": a} (of Inner)
		f := p.Files[r.Intn(len(p.Files))]
		if r.Bool() {
			sn := g.name("Self")
			sd := &Def{Kind: 'S', SKind: 's', Name: sn}
			sd.Fields = []*Field{{ID: i64p(1), Name: g.name("f"), Req: 'o', Ty: &TExpr{Kind: "ref", Name: sn, Target: sd}, Dflt: &CV{Kind: 'm'}}}
			f.Defs = append(f.Defs, sd)
		} else {
			on, in, an, bn := g.name("Outer"), g.name("Inner"), g.name("c"), g.name("c")
			od := &Def{Kind: 'S', SKind: 's', Name: on}
			id := &Def{Kind: 'S', SKind: 's', Name: in}
			ad := &Def{Kind: 'C', Name: an, Ty: &TExpr{Kind: "ref", Name: on, Target: od}, Val: &CV{Kind: 'm'}}
			bd := &Def{Kind: 'C', Name: bn, Ty: &TExpr{Kind: "ref", Name: in, Target: id}}
			bd.Val = &CV{Kind: 'm', M: [][2]*CV{{{Kind: 's', S: "back"}, {Kind: 'r', R: an, Target: ad}}}}
			od.Fields = []*Field{{ID: i64p(1), Name: "inner", Req: 'o', Ty: &TExpr{Kind: "ref", Name: in, Target: id}, Dflt: &CV{Kind: 'r', R: bn, Target: bd}}}
			id.Fields = []*Field{{ID: i64p(1), Name: "back", Req: 'o', Ty: &TExpr{Kind: "ref", Name: on, Target: od}}}
			defs := []*Def{od, id, ad, bd}
			for i := len(defs) - 1; i > 0; i-- {
				j := r.Intn(i + 1)
				defs[i], defs[j] = defs[j], defs[i]
			}
			f.Defs = append(f.Defs, defs...)
		}
		label = "default needed while it is being linked"
	case kind == 10:
		f := p.Files[r.Intn(len(p.Files))]
		if len(f.Defs) > 0 {
			d := f.Defs[r.Intn(len(f.Defs))]
			f.Defs = append(f.Defs, &Def{Kind: 'E', Name: d.Name})
			label = "duplicate definition name"
		}
	}
	return label
}

// c09Probe386 runs int32probe, built for a platform whose int is 32 bits wide: every source whose
// number does not fit such an int must be rejected — not truncated and then accepted (finding D82,
// repaired) — and the controls must compile to the numbers written.
func c09Probe386(c *checker) {
	if *probe386 == "" {
		return
	}
	outB, err := exec.Command(*probe386).CombinedOutput()
	out := string(outB)
	c.rep.Hist("how", "GOARCH=386 probe")
	if err != nil || !strings.HasPrefix(out, "intsize 32\n") {
		c.rep.Notes = append(c.rep.Notes, "the GOARCH=386 probe could not be run on this machine (no 32-bit emulation?): "+summarize386(out)+" "+fmt.Sprint(err))
		return
	}
	want := map[string]string{
		"enum-2^32+1": "err", "enum-2^32": "err", "enum--2^32+1": "err", "enum-2^31": "err", "enum-2^63-1": "err",
		"field-2^32+1": "err", "field-2^32+32767": "err", "field--2^32+1": "err",
		"control-enum-max": "ok [E.A=2147483647]", "control-field-max": "ok [S.f=32767]", "control-const-i64": "ok [c=4294967297]",
	}
	seen := 0
	for _, line := range strings.Split(strings.TrimSpace(out), "\n")[1:] {
		f := strings.SplitN(line, " ", 2)
		if len(f) != 2 {
			continue
		}
		w, ok := want[f[0]]
		if !ok {
			continue
		}
		seen++
		c.rep.Case("probe386 "+f[0], true)
		if f[1] != w {
			c.oracle("C09 on a platform with a 32-bit int the number is truncated before it is range-checked", "probe386 "+f[0], f[1], "want "+w)
		}
	}
	if seen != len(want) {
		c.oracle("C09 GOARCH=386 probe incomplete", "probe386", summarize386(out), fmt.Sprintf("%d of %d cases answered", seen, len(want)))
	}
}

func summarize386(s string) string {
	if len(s) > 300 {
		return s[:300] + "…"
	}
	return s
}

func runC09(c *checker, r *rng.R) {
	c09Probe386(c)
	n := 100000
	if *tier == "thorough" {
		n = 1500000
	}
	for i := 0; i < n; i++ {
		cfg := genCfg{maxFiles: 1 + r.Intn(2), maxTypes: 1 + r.Intn(5), maxConsts: 1 + r.Intn(5), maxServices: r.Intn(2),
			numeric: true, nonStrict: true}
		p, g := program(r, cfg)
		label := plantNumeric(r, p, g)
		c.rep.Hist("planted", label)
		if i < 3 {
			c.rep.Sample("program: " + p.Sexp())
		}
		c09Program(c, p, "generated", "")
	}
	c.flush()
	c.rep.Rule = "programs whose numeric literals sit around every type boundary (0, ±1, ±2^7, ±2^15, ±2^31, ±2^63 and neighbours; decimal, +signed, zero-padded decimal and hex spellings): field identifiers explicit / unset (auto-negative in non-strict mode), enum values explicit / implicit, integer constants and defaults of i8/i16/i32/i64/double/bool/enum types (also inside lists, maps, struct literals, through typedefs), strict and non-strict mode; 40% carry one planted defect the compiler must reject (identifier above 32767 / below 1 / below -32768 / unset / duplicate, duplicate names, literal beyond int64, enum value outside int32, integer constant or default outside its i8/i16/i32 type, an enum item beyond the i8/i16 it is used as, an auto-assigned identifier equal to an explicit negative one, a struct literal that gives a field twice, a default that is needed while it is being linked, bool other than 0/1, enum value that is no item or equals one only modulo 2^32, constant or service defined in terms of itself, also through struct / list / map literals of a recursive struct type); oracle: compiled numbers equal the source and lie in range, else rejected; compared with the Lean model; every case non-trivial; distinct by program. The shapes of the repaired findings D5 D6 D7 D8 D9 are ordinary planted defects and corpus entries; plus a probe built for GOARCH=386 and run under 32-bit emulation: numbers that do not fit a 32-bit int must be rejected, not truncated (D82, repaired)."
}

// constReaches: does the value of `from` mention (at any depth, through other constants of the
// file) the constant `to`?
func constReaches(f *File, from, to *Def, seen map[*Def]bool) bool {
	if seen[from] {
		return false
	}
	seen[from] = true
	var refs []string
	var walk func(v *CV)
	walk = func(v *CV) {
		if v == nil {
			return
		}
		if v.Kind == 'r' {
			refs = append(refs, v.R)
		}
		for _, x := range v.L {
			walk(x)
		}
		for _, kv := range v.M {
			walk(kv[0])
			walk(kv[1])
		}
	}
	walk(from.Val)
	for _, name := range refs {
		for _, d := range f.Defs {
			if d.Kind == 'C' && d.Name == name {
				if d == to || constReaches(f, d, to, seen) {
					return true
				}
			}
		}
	}
	return false
}
