package main

// Canonical dump of a compiled *compile.Module graph, in exactly the syntax of
// lean/ThriftVerif/Compile/Dump.lean.

import (
	"encoding/hex"
	"fmt"
	"math"
	"path/filepath"
	"reflect"
	"sort"
	"strings"

	"go.uber.org/thriftrw/ast"
	"go.uber.org/thriftrw/compile"
)

func sortStrings(s []string) { sort.Strings(s) }

type dumper struct {
	idx map[string]int // absolute thrift path -> file index
}

func newDumper(dir string, p *Prog) *dumper {
	d := &dumper{idx: map[string]int{}}
	for i, f := range p.Files {
		d.idx[filepath.Join(dir, f.Path)] = i
	}
	return d
}

func (d *dumper) file(path string) string {
	if i, ok := d.idx[path]; ok {
		return fmt.Sprint(i)
	}
	return "?" + path
}

func (d *dumper) ty(t compile.TypeSpec) string {
	switch x := t.(type) {
	case nil:
		return "nil"
	case *compile.BoolSpec:
		return "bool"
	case *compile.I8Spec:
		return "i8"
	case *compile.I16Spec:
		return "i16"
	case *compile.I32Spec:
		return "i32"
	case *compile.I64Spec:
		return "i64"
	case *compile.DoubleSpec:
		return "double"
	case *compile.StringSpec:
		return "string"
	case *compile.BinarySpec:
		return "binary"
	case *compile.ListSpec:
		return "list<" + d.ty(x.ValueSpec) + ">"
	case *compile.SetSpec:
		return "set<" + d.ty(x.ValueSpec) + ">"
	case *compile.MapSpec:
		return "map<" + d.ty(x.KeySpec) + "," + d.ty(x.ValueSpec) + ">"
	case *compile.TypedefSpec:
		return "@" + d.file(x.File) + "." + x.Name
	case *compile.EnumSpec:
		return "@" + d.file(x.File) + "." + x.Name
	case *compile.StructSpec:
		return "@" + d.file(x.File) + "." + x.Name
	}
	// typeSpecReference (unexported): an unlinked reference
	return "?" + t.ThriftName()
}

func (d *dumper) cv(v compile.ConstantValue) string {
	switch x := v.(type) {
	case nil:
		return "?"
	case compile.ConstantInt:
		return fmt.Sprintf("i%d", int64(x))
	case compile.ConstantDouble:
		return fmt.Sprintf("d%x", math.Float64bits(float64(x)))
	case compile.ConstantBool:
		if x {
			return "b1"
		}
		return "b0"
	case compile.ConstantString:
		return "s" + hex.EncodeToString([]byte(x))
	case compile.ConstantList:
		parts := make([]string, len(x))
		for i, e := range x {
			parts[i] = d.cv(e)
		}
		return "[" + strings.Join(parts, ",") + "]"
	case compile.ConstantSet:
		parts := make([]string, len(x))
		for i, e := range x {
			parts[i] = d.cv(e)
		}
		return "{" + strings.Join(parts, ",") + "}"
	case compile.ConstantMap:
		parts := make([]string, len(x))
		for i, e := range x {
			parts[i] = d.cv(e.Key) + ">" + d.cv(e.Value)
		}
		return "m[" + strings.Join(parts, ",") + "]"
	case *compile.ConstantStruct:
		var parts []string
		for k, e := range x.Fields {
			parts = append(parts, k+"="+d.cv(e))
		}
		sort.Strings(parts)
		return "S[" + strings.Join(parts, ",") + "]"
	case compile.ConstReference:
		return "c@" + d.file(x.Target.File) + "." + x.Target.Name
	case compile.EnumItemReference:
		return fmt.Sprintf("e@%s.%s.%s=%d", d.file(x.Enum.File), x.Enum.Name, x.Item.Name, x.Item.Value)
	}
	// constantReference (unexported): an unlinked reference
	rv := reflect.ValueOf(v)
	if rv.Kind() == reflect.Struct {
		if f := rv.FieldByName("Name"); f.IsValid() && f.Kind() == reflect.String {
			return "u" + f.String()
		}
	}
	return fmt.Sprintf("?%T", v)
}

func (d *dumper) fields(fs compile.FieldGroup, withDefault bool) string {
	parts := make([]string, len(fs))
	for i, f := range fs {
		r := "o"
		if f.Required {
			r = "r"
		}
		s := fmt.Sprintf("%d:%s:%s:%s", f.ID, f.Name, r, d.ty(f.Type))
		if f.Default != nil {
			if withDefault {
				s += "=" + d.cv(f.Default)
			} else {
				s += "=?"
			}
		}
		parts[i] = s
	}
	return strings.Join(parts, ",")
}

func (d *dumper) module(m *compile.Module) string {
	var b strings.Builder
	fmt.Fprintf(&b, "M%s{T:", d.file(m.ThriftPath))
	var names []string
	for n := range m.Types {
		names = append(names, n)
	}
	sort.Strings(names)
	for i, n := range names {
		if i > 0 {
			b.WriteString(";")
		}
		switch x := m.Types[n].(type) {
		case *compile.TypedefSpec:
			b.WriteString("typedef " + n + "=" + d.ty(x.Target) + "~" + d.ty(compile.RootTypeSpec(x)))
		case *compile.EnumSpec:
			parts := make([]string, len(x.Items))
			for j, it := range x.Items {
				parts[j] = fmt.Sprintf("%s=%d", it.Name, it.Value)
			}
			b.WriteString("enum " + n + "[" + strings.Join(parts, ",") + "]")
		case *compile.StructSpec:
			kw := map[ast.StructureType]string{ast.StructType: "struct", ast.UnionType: "union", ast.ExceptionType: "exception"}[x.Type]
			b.WriteString(kw + " " + n + "[" + d.fields(x.Fields, true) + "]")
		default:
			b.WriteString("?" + n)
		}
	}
	b.WriteString("|C:")
	names = names[:0]
	for n := range m.Constants {
		names = append(names, n)
	}
	sort.Strings(names)
	for i, n := range names {
		if i > 0 {
			b.WriteString(";")
		}
		c := m.Constants[n]
		b.WriteString(n + ":" + d.ty(c.Type) + "=" + d.cv(c.Value))
	}
	b.WriteString("|S:")
	names = names[:0]
	for n := range m.Services {
		names = append(names, n)
	}
	sort.Strings(names)
	for i, n := range names {
		if i > 0 {
			b.WriteString(";")
		}
		s := m.Services[n]
		b.WriteString(n + "^")
		if s.Parent != nil {
			b.WriteString("@" + d.file(s.Parent.File) + "." + s.Parent.Name)
		} else {
			b.WriteString("-")
		}
		var fns []string
		for fn := range s.Functions {
			fns = append(fns, fn)
		}
		sort.Strings(fns)
		b.WriteString("[")
		for j, fn := range fns {
			if j > 0 {
				b.WriteString(",")
			}
			f := s.Functions[fn]
			ow := "0"
			if f.OneWay {
				ow = "1"
			}
			b.WriteString(fn + ":" + ow + "(" + d.fields(compile.FieldGroup(f.ArgsSpec), true) + ")->")
			if f.ResultSpec == nil {
				b.WriteString("none")
			} else {
				if f.ResultSpec.ReturnType == nil {
					b.WriteString("void")
				} else {
					b.WriteString(d.ty(f.ResultSpec.ReturnType))
				}
				b.WriteString("!(" + d.fields(f.ResultSpec.Exceptions, true) + ")")
			}
		}
		b.WriteString("]")
	}
	b.WriteString("}")
	return b.String()
}

// dump renders every module reachable from root, in file-index order.
func (d *dumper) dump(root *compile.Module) string {
	mods := map[int]*compile.Module{}
	var visit func(m *compile.Module)
	visit = func(m *compile.Module) {
		i, ok := d.idx[m.ThriftPath]
		if !ok {
			i = -1 - len(mods)
		}
		if _, seen := mods[i]; seen {
			return
		}
		mods[i] = m
		for _, inc := range m.Includes {
			visit(inc.Module)
		}
	}
	visit(root)
	var keys []int
	for k := range mods {
		keys = append(keys, k)
	}
	sort.Ints(keys)
	parts := make([]string, len(keys))
	for i, k := range keys {
		parts[i] = d.module(mods[k])
	}
	return strings.Join(parts, " ")
}
