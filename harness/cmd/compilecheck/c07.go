package main

// C07: references resolve to the right definitions, independent of ordering.

import (
	"fmt"
	"os"
	"sort"
	"strings"

	"go.uber.org/thriftrw/compile"

	"verifharness/internal/rng"
)

// naturalOrders lists, per file, the names of every map the compiler ranges over (sorted).
func naturalOrders(p *Prog) Orders {
	o := make(Orders, len(p.Files))
	for i, f := range p.Files {
		m := ModOrder{Funcs: map[string][]string{}}
		seenInc := map[string]bool{}
		for _, inc := range f.Includes {
			n := fileBaseName(inc.Path)
			if !seenInc[n] {
				seenInc[n] = true
				m.Includes = append(m.Includes, n)
			}
		}
		for _, d := range f.Defs {
			switch d.Kind {
			case 'T', 'E', 'S':
				m.Types = append(m.Types, d.Name)
			case 'C':
				m.Consts = append(m.Consts, d.Name)
			case 'V':
				m.Services = append(m.Services, d.Name)
				var fns []string
				for _, fn := range d.Funcs {
					fns = append(fns, fn.Name)
				}
				sort.Strings(fns)
				m.Funcs[d.Name] = fns
			}
		}
		sort.Strings(m.Includes)
		sort.Strings(m.Types)
		sort.Strings(m.Consts)
		sort.Strings(m.Services)
		o[i] = m
	}
	return o
}

func cloneOrders(o Orders) Orders {
	c := make(Orders, len(o))
	for i, m := range o {
		n := ModOrder{Funcs: map[string][]string{}}
		n.Includes = append([]string(nil), m.Includes...)
		n.Types = append([]string(nil), m.Types...)
		n.Consts = append([]string(nil), m.Consts...)
		n.Services = append([]string(nil), m.Services...)
		for k, v := range m.Funcs {
			n.Funcs[k] = append([]string(nil), v...)
		}
		c[i] = n
	}
	return c
}

func shuffle(r *rng.R, s []string) {
	for i := len(s) - 1; i > 0; i-- {
		j := r.Intn(i + 1)
		s[i], s[j] = s[j], s[i]
	}
}

func randomOrders(r *rng.R, base Orders) Orders {
	o := cloneOrders(base)
	for i := range o {
		shuffle(r, o[i].Includes)
		shuffle(r, o[i].Types)
		shuffle(r, o[i].Consts)
		shuffle(r, o[i].Services)
		var ks []string
		for k := range o[i].Funcs {
			ks = append(ks, k)
		}
		sort.Strings(ks)
		for _, k := range ks {
			shuffle(r, o[i].Funcs[k])
		}
	}
	return o
}

// permutations returns all n! orders of s.
func permutations(s []string) [][]string { return permsPlain(s) }

func permsPlain(s []string) [][]string {
	if len(s) <= 1 {
		return [][]string{append([]string(nil), s...)}
	}
	var out [][]string
	for i := range s {
		rest := append(append([]string(nil), s[:i]...), s[i+1:]...)
		for _, p := range permsPlain(rest) {
			out = append(out, append([]string{s[i]}, p...))
		}
	}
	return out
}

func hasRefs(p *Prog) bool {
	return strings.Contains(p.Sexp(), " R ") || strings.Contains(p.Sexp(), " r ")
}

type orderRun struct {
	o    Orders
	impl string
}

// c07Program checks one program under many visit orders, repeated natural runs,
// permutations of the source, the model with the same order, and the spec.
// known != "" marks a probe of that known finding.
func c07Program(c *checker, r *rng.R, p *Prog, how, known string, extra []Orders) {
	dir := c.newDir()
	defer os.RemoveAll(dir)
	if err := p.Write(dir); err != nil {
		fmt.Fprintln(os.Stderr, "compilecheck:", err)
		os.Exit(3)
	}
	sexp := p.Sexp()
	nontrivial := hasRefs(p)
	base := naturalOrders(p)
	var orders []Orders
	orders = append(orders, extra...)
	orders = append(orders, cloneOrders(base))
	rev := cloneOrders(base)
	for i := range rev {
		for _, s := range [][]string{rev[i].Includes, rev[i].Types, rev[i].Consts, rev[i].Services} {
			for a, b := 0, len(s)-1; a < b; a, b = a+1, b-1 {
				s[a], s[b] = s[b], s[a]
			}
		}
	}
	orders = append(orders, rev)
	for k := 0; k < 4; k++ {
		orders = append(orders, randomOrders(r, base))
	}
	exhaustive := 0
	for i := range base {
		bg := randomOrders(r, base)
		if n := len(base[i].Types); n >= 2 && n <= 6 {
			for _, perm := range permutations(base[i].Types) {
				o := cloneOrders(bg)
				o[i].Types = perm
				orders = append(orders, o)
			}
			exhaustive++
		} else if n > 6 {
			for k := 0; k < 40; k++ {
				orders = append(orders, randomOrders(r, base))
			}
		}
		if n := len(base[i].Consts); n >= 2 && n <= 4 {
			for _, perm := range permutations(base[i].Consts) {
				o := cloneOrders(bg)
				o[i].Consts = perm
				orders = append(orders, o)
			}
		}
		if n := len(base[i].Services); n >= 2 && n <= 3 {
			for _, perm := range permutations(base[i].Services) {
				o := cloneOrders(bg)
				o[i].Services = perm
				orders = append(orders, o)
			}
		}
		if n := len(base[i].Includes); n >= 2 && n <= 3 {
			for _, perm := range permutations(base[i].Includes) {
				o := cloneOrders(bg)
				o[i].Includes = perm
				orders = append(orders, o)
			}
		}
	}
	c.rep.Hist("how", how)
	for _, ft := range features(p) {
		c.rep.Hist("features", ft)
	}
	c.rep.Hist("files", fmt.Sprint(len(p.Files)))
	c.rep.Hist("orders-per-program", fmt.Sprint(bucket(len(orders))))
	if exhaustive > 0 {
		c.rep.Hist("modules-with-all-n!-type-orders", fmt.Sprint(exhaustive))
	}

	var runs []orderRun
	seenOp := map[string]bool{}
	for _, o := range orders {
		op := opC(true, o, p)
		if seenOp[op] {
			continue
		}
		seenOp[op] = true
		impl, _ := implCompile(dir, p, o)
		runs = append(runs, orderRun{o, impl})
		c.rep.Case(op, nontrivial)
		if strings.HasPrefix(impl, "panic") {
			c.oracle("C07 compiler panicked", op, impl, "CompileWithLinkOrder panicked")
			continue
		}
		c.pend = append(c.pend, pending{op: op, impl: impl, kind: "C07 linked module vs model run with the same visit order", input: op, known: known})
	}
	// every constant and default is cast to its declared type
	if _, mod := implCompile(dir, p, base); mod != nil {
		for _, v := range castOracle(mod) {
			if v.tag != "" {
				c.knownHit(v.tag, v.what)
				if known == v.tag {
					known = v.tag + "!"
				}
			} else {
				c.oracle("C07 constant not cast to its declared type", opC(true, base, p), "", v.what)
			}
		}
	}
	known = strings.TrimSuffix(known, "!")
	first := runs[0].impl
	outcome := "ok"
	if first == "err" {
		outcome = "err"
	}
	c.rep.Hist("outcome", outcome)
	differs := false
	for _, ru := range runs[1:] {
		if ru.impl != first {
			differs = true
			if known != "" {
				c.knownHit(known, "the compiled module depends on the link order: "+diffSummary(first, ru.impl))
			} else {
				c.oracle("C07 result depends on the visit order", opC(true, ru.o, p), ru.impl,
					"another order ("+runs[0].o.Sexp()+") gives: "+first)
			}
			break
		}
	}
	if (known == "D10" || known == "D50") && !differs {
		c.stale[known] = true
	}
	// repeated natural runs (Go's own map order)
	for k := 0; k < 3; k++ {
		impl, _ := implCompile(dir, p, nil)
		c.rep.Case("natural "+sexp, nontrivial)
		if impl != first && known == "" {
			c.oracle("C07 result differs between runs (map iteration order)", opC(false, nil, p), impl, "an ordered run gives: "+first)
			break
		}
	}
	if known == "" {
		c.expect("C07 Compile vs model (declaration order)", opC(false, nil, p), first)
		if strings.HasPrefix(first, "ok ") {
			c.expect("C07 linked module vs declarative spec", "S "+sexp, first)
		}
	}
	// permutations of the definitions in the source
	if known == "" {
		for fi, f := range p.Files {
			if f.Bad || len(f.Defs) < 2 {
				continue
			}
			var perms [][]int
			if len(f.Defs) <= 4 {
				perms = intPerms(len(f.Defs))
			} else {
				for k := 0; k < 5; k++ {
					perm := make([]int, len(f.Defs))
					for i := range perm {
						perm[i] = i
					}
					for i := len(perm) - 1; i > 0; i-- {
						j := r.Intn(i + 1)
						perm[i], perm[j] = perm[j], perm[i]
					}
					perms = append(perms, perm)
				}
			}
			for _, perm := range perms {
				q := &Prog{Strict: p.Strict}
				for j, g := range p.Files {
					if j != fi {
						q.Files = append(q.Files, g)
						continue
					}
					ng := &File{Path: g.Path, Includes: g.Includes}
					for _, k := range perm {
						ng.Defs = append(ng.Defs, g.Defs[k])
					}
					q.Files = append(q.Files, ng)
				}
				qdir := c.newDir()
				q.Write(qdir)
				impl, _ := implCompile(qdir, q, nil)
				os.RemoveAll(qdir)
				c.rep.Case("perm "+q.Sexp(), nontrivial)
				c.rep.Hist("how", "source-permutation")
				if impl != first {
					c.oracle("C07 result depends on the order of definitions in the source", opC(false, nil, q), impl, "original order gives: "+first)
				}
				c.expect("C07 permuted source vs model", opC(false, nil, q), impl)
			}
		}
	}
	c.maybeFlush()
}

func intPerms(n int) [][]int {
	s := make([]string, n)
	for i := range s {
		s[i] = fmt.Sprint(i)
	}
	var out [][]int
	for _, p := range permsPlain(s) {
		q := make([]int, n)
		for i, x := range p {
			fmt.Sscan(x, &q[i])
		}
		out = append(out, q)
	}
	return out
}

func bucket(n int) string {
	switch {
	case n <= 8:
		return "≤8"
	case n <= 32:
		return "9–32"
	case n <= 128:
		return "33–128"
	case n <= 800:
		return "129–800"
	}
	return ">800"
}

func diffSummary(a, b string) string {
	i := 0
	for i < len(a) && i < len(b) && a[i] == b[i] {
		i++
	}
	lo := i - 30
	if lo < 0 {
		lo = 0
	}
	cut := func(s string) string {
		hi := i + 40
		if hi > len(s) {
			hi = len(s)
		}
		if lo > len(s) {
			return ""
		}
		return s[lo:hi]
	}
	return fmt.Sprintf("…%s… vs …%s…", cut(a), cut(b))
}

func runC07(c *checker, r *rng.R) {
	n := 4000
	if *tier == "thorough" {
		n = 60000
	}
	for i := 0; i < n; i++ {
		cfg := genCfg{maxFiles: 1 + r.Intn(4), maxTypes: 1 + r.Intn(7), maxConsts: r.Intn(5), maxServices: r.Intn(3),
			nonStrict: r.Chance(1, 4), shadows: true, subdirs: true, selfRefs: true}
		p, _ := program(r, cfg)
		if i < 3 {
			c.rep.Sample("program: " + p.Sexp())
		}
		c07Program(c, r, p, "generated", "", nil)
	}
	c.flush()
	c.rep.Rule = "multi-file programs from an abstract description (forward/backward/cross-file and transitive dotted references, typedef chains through structs, diamond/cyclic/self includes, dotted local names shadowing include-qualified names, constants and defaults generated by type); each × {sorted, reversed, random visit orders, all n! orders of the named types of every module with ≤6 types, all orders of ≤4 constants / ≤3 services / ≤3 includes} through compile.CompileWithLinkOrder, × 3 natural runs, × permutations of the definitions in the source; compared across orders (oracle), with the Lean linker run with the same order, and with the declarative spec; non-trivial = the program contains at least one reference; distinct by (program, order). Excluded by construction (probed from corpus/C07): typedef on a reference cycle (D10), struct literal reachable from the struct's own Link (D50). The shapes of the repaired findings D17 (enum item at another type) and D4/D6 (constants defined in terms of themselves) are generated and must be rejected under every order."
}

// castOracle: the linked value of every constant and default has the shape of its declared
// type (an enum item only at that enum, an integer only at an integer type, …).
func castOracle(root *compile.Module) []violation {
	var out []violation
	var check func(where string, v compile.ConstantValue, t compile.TypeSpec, depth int)
	check = func(where string, v compile.ConstantValue, t compile.TypeSpec, depth int) {
		if v == nil || t == nil || depth > 16 {
			return
		}
		rt := compile.RootTypeSpec(t)
		switch x := v.(type) {
		case compile.EnumItemReference:
			if rt != compile.TypeSpec(x.Enum) {
				out = append(out, violation{fmt.Sprintf("%s: enum item %s.%s used at type %s without a cast check", where, x.Enum.Name, x.Item.Name, t.ThriftName()), ""})
			}
		case compile.ConstantInt:
			switch rt.(type) {
			case *compile.I8Spec, *compile.I16Spec, *compile.I32Spec, *compile.I64Spec:
			default:
				out = append(out, violation{fmt.Sprintf("%s: integer at type %s", where, t.ThriftName()), ""})
			}
		case compile.ConstantString:
			if _, ok := rt.(*compile.StringSpec); !ok {
				out = append(out, violation{fmt.Sprintf("%s: string at type %s", where, t.ThriftName()), ""})
			}
		case compile.ConstantBool:
			if _, ok := rt.(*compile.BoolSpec); !ok {
				out = append(out, violation{fmt.Sprintf("%s: bool at type %s", where, t.ThriftName()), ""})
			}
		case compile.ConstantDouble:
			if _, ok := rt.(*compile.DoubleSpec); !ok {
				out = append(out, violation{fmt.Sprintf("%s: double at type %s", where, t.ThriftName()), ""})
			}
		case compile.ConstantList:
			if l, ok := rt.(*compile.ListSpec); ok {
				for _, e := range x {
					check(where, e, l.ValueSpec, depth+1)
				}
			} else {
				out = append(out, violation{fmt.Sprintf("%s: list at type %s", where, t.ThriftName()), ""})
			}
		case compile.ConstantSet:
			if l, ok := rt.(*compile.SetSpec); ok {
				for _, e := range x {
					check(where, e, l.ValueSpec, depth+1)
				}
			} else {
				out = append(out, violation{fmt.Sprintf("%s: set at type %s", where, t.ThriftName()), ""})
			}
		case compile.ConstantMap:
			if m, ok := rt.(*compile.MapSpec); ok {
				for _, e := range x {
					check(where, e.Key, m.KeySpec, depth+1)
					check(where, e.Value, m.ValueSpec, depth+1)
				}
			} else {
				out = append(out, violation{fmt.Sprintf("%s: map at type %s", where, t.ThriftName()), ""})
			}
		case *compile.ConstantStruct:
			if s, ok := rt.(*compile.StructSpec); ok {
				for k, e := range x.Fields {
					if f, err := s.Fields.FindByName(k); err == nil {
						check(where+"."+k, e, f.Type, depth+1)
					}
				}
			} else {
				out = append(out, violation{fmt.Sprintf("%s: struct at type %s", where, t.ThriftName()), ""})
			}
		case compile.ConstReference:
			if x.Target.Type != t {
				out = append(out, violation{fmt.Sprintf("%s: reference to %s kept at a different type", where, x.Target.Name), ""})
			}
		}
	}
	seen := map[*compile.Module]bool{}
	var visit func(m *compile.Module)
	visit = func(m *compile.Module) {
		if seen[m] {
			return
		}
		seen[m] = true
		for _, inc := range m.Includes {
			visit(inc.Module)
		}
		for n, c := range m.Constants {
			check("const "+n, c.Value, c.Type, 0)
		}
		for n, t := range m.Types {
			if s, ok := t.(*compile.StructSpec); ok {
				for _, f := range s.Fields {
					check(n+"."+f.Name+" default", f.Default, f.Type, 0)
				}
			}
		}
	}
	visit(root)
	sort.Slice(out, func(i, j int) bool { return out[i].what < out[j].what })
	return out
}

// features names the reference shapes a program exercises (for the evidence histogram).
func features(p *Prog) []string {
	var out []string
	add := func(s string) {
		for _, x := range out {
			if x == s {
				return
			}
		}
		out = append(out, s)
	}
	// include graph
	n := len(p.Files)
	adj := make([][]int, n)
	indeg := make([]int, n)
	for i, f := range p.Files {
		for _, inc := range f.Includes {
			if j := p.fileIndex(i, inc.Path); j >= 0 {
				adj[i] = append(adj[i], j)
				indeg[j]++
				if j == i {
					add("self include")
				}
			}
		}
	}
	for i := range adj {
		if indeg[i] >= 2 {
			add("file reached through several includes")
		}
		// cycle through i?
		seen := map[int]bool{}
		stack := append([]int(nil), adj[i]...)
		for len(stack) > 0 {
			x := stack[len(stack)-1]
			stack = stack[:len(stack)-1]
			if x == i {
				add("include cycle")
				break
			}
			if !seen[x] {
				seen[x] = true
				stack = append(stack, adj[x]...)
			}
		}
	}
	pos := map[*Def]int{}
	for _, f := range p.Files {
		for i, d := range f.Defs {
			pos[d] = i
		}
	}
	var walkT func(from *Def, t *TExpr)
	walkT = func(from *Def, t *TExpr) {
		if t == nil {
			return
		}
		if t.Kind == "ref" {
			dots := strings.Count(t.Name, ".")
			if t.Target != nil {
				switch {
				case t.Target.File != from.File && dots >= 2 && !strings.Contains(t.Target.Name, "."):
					add("transitive include-qualified reference (a.b.T)")
				case t.Target.File != from.File:
					add("include-qualified reference")
				case strings.Contains(t.Target.Name, "."):
					add("reference to a local dotted name")
				case pos[t.Target] > pos[from]:
					add("forward reference")
				default:
					add("backward reference")
				}
				if t.Target.Kind == 'T' {
					if rt := rootExpr(t); rt != nil && rt.Kind == "ref" && rt.Target != nil && rt.Target.Kind == 'S' {
						add("typedef chain ending in a struct")
					}
				}
			}
		}
		walkT(from, t.A)
		walkT(from, t.B)
	}
	var walkV func(v *CV)
	walkV = func(v *CV) {
		if v == nil {
			return
		}
		if v.Kind == 'r' {
			if v.Target != nil {
				add("constant reference")
			} else {
				add("enum item reference")
			}
		}
		for _, x := range v.L {
			walkV(x)
		}
		for _, kv := range v.M {
			walkV(kv[0])
			walkV(kv[1])
		}
	}
	for _, f := range p.Files {
		for _, d := range f.Defs {
			if strings.Contains(d.Name, ".") {
				add("local dotted definition shadowing an include-qualified name")
			}
			walkT(d, d.Ty)
			walkV(d.Val)
			for _, fl := range d.Fields {
				walkT(d, fl.Ty)
				walkV(fl.Dflt)
			}
			if d.Kind == 'V' && d.ParentDef != nil {
				if d.ParentDef.File != d.File {
					add("parent service in another file")
				} else {
					add("parent service in the same file")
				}
			}
			for _, fn := range d.Funcs {
				walkT(d, fn.Ret)
				for _, a := range fn.Args {
					walkT(d, a.Ty)
					walkV(a.Dflt)
				}
				for _, a := range fn.Excs {
					walkT(d, a.Ty)
				}
			}
		}
	}
	return out
}
