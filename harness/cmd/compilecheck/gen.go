package main

// Structured program generator: multi-file programs from an abstract description,
// with forward/backward/cross-file references, typedef chains through structs,
// diamond and cyclic includes, dotted local names next to include-qualified names,
// constants and defaults generated *by type* so that most programs compile.

import (
	"fmt"
	"path/filepath"
	"strconv"
	"strings"

	"verifharness/internal/rng"
)

type genCfg struct {
	maxFiles    int
	maxTypes    int // per program
	maxConsts   int
	maxServices int
	numeric     bool // C09: numeric literals at type boundaries
	nonStrict   bool
	shadows     bool
	subdirs     bool
	selfRefs    bool // plant constants defined in terms of themselves and enum items at other types (must be rejected)
}

type gen struct {
	r        *rng.R
	cfg      genCfg
	p        *Prog
	types    []*Def
	consts   []*Def
	services []*Def
	ctr      int
	shadow   map[string]*Def // "<file>|<spelled name>" -> local dotted definition
}

func i64p(v int64) *int64 { return &v }

func (g *gen) name(prefix string) string {
	g.ctr++
	return fmt.Sprintf("%s%d", prefix, g.ctr)
}

func (g *gen) base(i int) string { return fileBaseName(g.p.Files[i].Path) }

// ensureInclude makes file `from` include file `to` and returns the include name.
func (g *gen) ensureInclude(from, to int) string {
	rel, err := filepath.Rel(filepath.Dir(g.p.Files[from].Path), g.p.Files[to].Path)
	if err != nil {
		panic(err)
	}
	for _, inc := range g.p.Files[from].Includes {
		if g.p.fileIndex(from, inc.Path) == to {
			return fileBaseName(inc.Path)
		}
	}
	if !strings.HasPrefix(rel, ".") && g.r.Bool() {
		rel = "./" + rel
	}
	g.p.Files[from].Includes = append(g.p.Files[from].Includes, Include{Path: rel})
	return g.base(to)
}

// spelled returns how file `from` refers to definition d (adding an include if needed),
// or "" when a local dotted definition shadows that spelling.
func (g *gen) spelled(from int, d *Def) string {
	if d.File == from {
		return d.Name
	}
	// sometimes through an intermediate include: from -> k -> d.File
	if g.r.Chance(1, 8) {
		for k := range g.p.Files {
			if k != from && k != d.File && g.includes(from, k) && g.includes(k, d.File) {
				s := g.base(k) + "." + g.base(d.File) + "." + d.Name
				_, sh := g.shadow[fmt.Sprintf("%d|%s", from, s)]
				_, sh2 := g.shadow[fmt.Sprintf("%d|%s", k, g.base(d.File)+"."+d.Name)]
				if !sh && !sh2 {
					return s
				}
			}
		}
	}
	s := g.ensureInclude(from, d.File) + "." + d.Name
	if _, sh := g.shadow[fmt.Sprintf("%d|%s", from, s)]; sh {
		return ""
	}
	return s
}

func (g *gen) includes(from, to int) bool {
	for _, inc := range g.p.Files[from].Includes {
		if g.p.fileIndex(from, inc.Path) == to {
			return true
		}
	}
	return false
}

func (g *gen) refTo(from int, d *Def) *TExpr {
	s := g.spelled(from, d)
	if s == "" {
		return nil
	}
	return &TExpr{Kind: "ref", Name: s, Target: d}
}

var scalarKinds = []string{"bool", "i8", "i16", "i32", "i64", "double", "string", "binary"}

// typeExpr builds a type expression for use in file `from`; cands are the named
// types it may mention.
func (g *gen) typeExpr(from int, cands []*Def, depth int) *TExpr {
	k := g.r.Intn(10)
	if depth >= 2 && k >= 7 {
		k = g.r.Intn(7)
	}
	switch {
	case k < 4 && len(cands) > 0:
		if t := g.refTo(from, cands[g.r.Intn(len(cands))]); t != nil {
			return t
		}
		return &TExpr{Kind: "i32"}
	case k < 7:
		if g.cfg.numeric {
			return &TExpr{Kind: []string{"i8", "i16", "i32", "i64", "i32", "bool", "double"}[g.r.Intn(7)]}
		}
		return &TExpr{Kind: scalarKinds[g.r.Intn(len(scalarKinds))]}
	case k == 7:
		return &TExpr{Kind: "list", A: g.typeExpr(from, cands, depth+1)}
	case k == 8:
		return &TExpr{Kind: "set", A: g.typeExpr(from, cands, depth+1)}
	default:
		return &TExpr{Kind: "map", A: g.typeExpr(from, cands, depth+1), B: g.typeExpr(from, cands, depth+1)}
	}
}

// root follows typedef targets (generator's intent) to the ultimate type expression.
func rootExpr(t *TExpr) *TExpr {
	for n := 0; n < 64 && t != nil && t.Kind == "ref" && t.Target != nil && t.Target.Kind == 'T'; n++ {
		t = t.Target.Ty
	}
	return t
}

var intBounds = map[string][2]int64{
	"i8": {-128, 127}, "i16": {-32768, 32767}, "i32": {-2147483648, 2147483647},
	"i64": {-9223372036854775808, 9223372036854775807},
}

// boundaryInt picks a value in [lo, hi] near a power-of-two boundary.
func (g *gen) boundaryInt(lo, hi int64) int64 {
	pts := []int64{0, 1, -1, 2, 127, 128, -128, -129, 255, 256, 32767, 32768, -32768, -32769, 65535, 65536,
		2147483647, 2147483648, -2147483648, -2147483649, 4294967295, 4294967296, 4294967297,
		9223372036854775807, -9223372036854775808, 9223372036854775806, -9223372036854775807,
		9007199254740992, 9007199254740993, lo, hi, lo + 1, hi - 1}
	for n := 0; n < 20; n++ {
		v := pts[g.r.Intn(len(pts))]
		if v >= lo && v <= hi {
			return v
		}
	}
	return lo
}

// zeroPadded spells v in decimal with n leading zeros (010 is ten, -0100 is minus one hundred).
func zeroPadded(v int64, n int) string {
	if v < 0 {
		return "-" + strings.Repeat("0", n) + strconv.FormatUint(uint64(-(v+1))+1, 10)
	}
	return strings.Repeat("0", n) + strconv.FormatInt(v, 10)
}

func (g *gen) intLit(v int64) *CV {
	c := &CV{Kind: 'i', I: v}
	if g.cfg.numeric {
		switch {
		case v >= 0 && g.r.Chance(1, 4):
			c.Lit = fmt.Sprintf("0x%x", v)
		case v >= 0 && g.r.Chance(1, 8):
			c.Lit = fmt.Sprintf("+%d", v)
		case v >= 0 && g.r.Chance(1, 10):
			c.Lit = fmt.Sprintf("0x%X", v)
		case g.r.Chance(1, 8):
			c.Lit = zeroPadded(v, 1+g.r.Intn(3)) // decimal with leading zeros is still decimal
		}
	}
	return c
}

// value builds a constant expression of type t for use in file `from`. Only constants
// created earlier may be referenced (so the main stream has no constant cycles), and an
// enum item is only used where the root type is that enum (D17).
func (g *gen) value(from int, t *TExpr, depth int) *CV {
	rt := rootExpr(t)
	if rt == nil {
		return &CV{Kind: 'i', I: 0}
	}
	// a reference to an earlier constant of the very same declared type
	if g.r.Chance(1, 3) {
		var same []*Def
		for _, c := range g.consts {
			crt := rootExpr(c.Ty)
			if crt == nil || crt.Kind != rt.Kind {
				continue
			}
			switch rt.Kind {
			case "ref":
				if crt.Target == rt.Target {
					same = append(same, c)
				} else if crt.Target != nil && rt.Target != nil && crt.Target.Kind == 'S' && rt.Target.Kind == 'S' && g.r.Chance(1, 3) {
					// a constant of ANOTHER struct type: the cast goes through the fields by
					// name (it may fail); the referenced constant must keep its own value
					same = append(same, c)
				}
			case "list", "set", "map":
				if crt.Text() == rt.Text() && c.Ty.Text() == t.Text() {
					same = append(same, c)
				}
			default: // same scalar kind, possibly reached through different typedefs
				same = append(same, c)
			}
		}
		if len(same) > 0 {
			c := same[g.r.Intn(len(same))]
			if s := g.spelled(from, c); s != "" {
				return &CV{Kind: 'r', R: s, Target: c}
			}
		}
	}
	switch rt.Kind {
	case "bool":
		if g.r.Chance(1, 3) {
			return &CV{Kind: 'i', I: int64(g.r.Intn(2))}
		}
		return &CV{Kind: 'b', B: g.r.Bool()}
	case "i8", "i16", "i32", "i64":
		b := intBounds[rt.Kind]
		if g.cfg.numeric {
			return g.intLit(g.boundaryInt(b[0], b[1]))
		}
		return &CV{Kind: 'i', I: int64(g.r.Intn(200)) - 100}
	case "double":
		if g.r.Bool() {
			if g.cfg.numeric {
				return g.intLit(g.boundaryInt(-9223372036854775808, 9223372036854775807))
			}
			return &CV{Kind: 'i', I: int64(g.r.Intn(2000)) - 1000}
		}
		return &CV{Kind: 'd', D: []float64{0, 1.5, -2.25, 1e10, 1e-3, 123456.789, -0.5, 3}[g.r.Intn(8)]}
	case "string":
		return &CV{Kind: 's', S: []string{"", "a", "hello world", "x-y_z", "Thrift 1"}[g.r.Intn(5)]}
	case "binary":
		// string literals are not accepted for binary; stay with a type that is
		return &CV{Kind: 's', S: "bin"}
	case "list", "set":
		n := g.r.Intn(3)
		if depth >= 2 {
			n = g.r.Intn(2)
		}
		v := &CV{Kind: 'l'}
		for i := 0; i < n; i++ {
			v.L = append(v.L, g.value(from, rt.A, depth+1))
		}
		return v
	case "map":
		n := g.r.Intn(3)
		if depth >= 2 {
			n = g.r.Intn(2)
		}
		v := &CV{Kind: 'm'}
		for i := 0; i < n; i++ {
			v.M = append(v.M, [2]*CV{g.value(from, rt.A, depth+1), g.value(from, rt.B, depth+1)})
		}
		return v
	case "ref":
		d := rt.Target
		if d == nil {
			return &CV{Kind: 'i', I: 0}
		}
		switch d.Kind {
		case 'E':
			if len(d.Items) == 0 {
				return &CV{Kind: 'i', I: 0}
			}
			vals := enumValues(d)
			k := g.r.Intn(len(d.Items))
			if g.r.Bool() {
				return &CV{Kind: 'i', I: vals[k]}
			}
			// now and then through a typedef of the enum (`typedef Color Colour` … `Colour.GREEN`): that
			// is not a way to name an enum item, in whatever order the definitions are linked
			if g.cfg.selfRefs && t.Kind == "ref" && t.Target != nil && t.Target.Kind == 'T' && g.r.Chance(1, 8) {
				if s := g.spelled(from, t.Target); s != "" {
					return &CV{Kind: 'r', R: s + "." + d.Items[k].Name}
				}
			}
			if s := g.spelled(from, d); s != "" {
				return &CV{Kind: 'r', R: s + "." + d.Items[k].Name}
			}
			return &CV{Kind: 'i', I: vals[k]}
		case 'S':
			v := &CV{Kind: 'm'}
			for _, f := range d.Fields {
				need := f.Req == 'r' && f.Dflt == nil
				if need || (depth < 2 && g.r.Chance(1, 3)) {
					if depth >= 3 && !need {
						continue
					}
					if depth >= 4 {
						// give up on deep required recursion: the program will be rejected, which is fine
						continue
					}
					v.M = append(v.M, [2]*CV{{Kind: 's', S: f.Name}, g.value(from, f.Ty, depth+1)})
				}
			}
			return v
		}
	}
	return &CV{Kind: 'i', I: 0}
}

// enumValues are the values the source designates for the items of an enum.
func enumValues(d *Def) []int64 {
	vals := make([]int64, len(d.Items))
	prev := int64(-1)
	for i, it := range d.Items {
		if it.Val != nil {
			prev = *it.Val
		} else {
			prev++
		}
		vals[i] = prev
	}
	return vals
}

func (g *gen) fields(from int, cands []*Def, kind byte, n int, withDefaults bool) []*Field {
	var fs []*Field
	id := int64(0)
	for i := 0; i < n; i++ {
		id += int64(1 + g.r.Intn(3))
		f := &Field{ID: i64p(id), Name: g.name("f"), Ty: g.typeExpr(from, cands, 0)}
		switch kind {
		case 'u', 't', 'a': // union / throws list / arguments
			f.Req = []byte{'o', 'd'}[g.r.Intn(2)]
			if kind == 'a' && g.r.Chance(1, 4) {
				f.Req = 'r'
			}
		default:
			f.Req = []byte{'o', 'r', 'o'}[g.r.Intn(3)]
			if !g.p.Strict && g.r.Chance(1, 4) {
				f.Req = 'd'
			}
		}
		if !g.p.Strict && kind != 'a' && kind != 't' && g.r.Chance(1, 4) {
			f.ID = nil // auto-assigned negative identifier
		}
		if withDefaults && kind != 'u' && kind != 't' && g.r.Chance(1, 3) {
			f.Dflt = g.value(from, f.Ty, 1)
		}
		fs = append(fs, f)
	}
	return fs
}

// build creates a whole program.
func (g *gen) build() *Prog {
	r := g.r
	g.p = &Prog{Strict: !g.cfg.nonStrict || r.Chance(2, 3)}
	g.shadow = map[string]*Def{}
	nFiles := 1 + r.Intn(g.cfg.maxFiles)
	names := []string{"a", "b", "c", "d", "e"}
	for i := 0; i < nFiles; i++ {
		path := names[i] + ".thrift"
		if g.cfg.subdirs && i > 0 && r.Chance(1, 5) {
			path = "sub/" + path
		}
		if i > 0 && r.Chance(1, 12) {
			path = strings.Replace(path, names[i]+".thrift", names[i]+".v1.thrift", 1) // base name with a dot
		}
		g.p.Files = append(g.p.Files, &File{Path: path})
	}
	// every file reachable: a chain with extra (possibly cyclic / diamond / self) includes
	for i := 1; i < nFiles; i++ {
		g.ensureInclude(r.Intn(i), i)
	}
	for k := r.Intn(3); k > 0; k-- {
		a, b := r.Intn(nFiles), r.Intn(nFiles)
		if a != b || r.Chance(1, 6) {
			g.ensureInclude(a, b)
		}
	}

	nTypes := 1 + r.Intn(g.cfg.maxTypes)
	for i := 0; i < nTypes; i++ {
		from := r.Intn(nFiles)
		d := &Def{File: from}
		switch k := r.Intn(10); {
		case k < 3:
			d.Kind, d.Name = 'T', g.name("T")
			d.Ty = g.typeExpr(from, g.types, 0)
		case k < 5:
			d.Kind, d.Name = 'E', g.name("E")
			n := 1 + r.Intn(3)
			for j := 0; j < n; j++ {
				it := EnumItem{Name: g.name("I")}
				if r.Bool() {
					if g.cfg.numeric {
						it.Val = i64p(g.boundaryInt(-2147483648, 2147483647-3))
						if *it.Val >= 0 && r.Chance(1, 4) {
							it.Lit = fmt.Sprintf("0x%x", *it.Val)
						} else if r.Chance(1, 8) {
							it.Lit = zeroPadded(*it.Val, 1+r.Intn(3))
						}
					} else {
						it.Val = i64p(int64(r.Intn(20)))
					}
				}
				d.Items = append(d.Items, it)
			}
		default:
			d.Kind = 'S'
			d.SKind = []byte{'s', 's', 's', 'u', 'x'}[r.Intn(5)]
			d.Name = g.name("S")
			d.Fields = g.fields(from, g.types, d.SKind, r.Intn(4), false)
		}
		g.p.Files[from].Defs = append(g.p.Files[from].Defs, d)
		g.types = append(g.types, d)
		// dotted local definition shadowing an include-qualified name
		if g.cfg.shadows && r.Chance(1, 10) {
			for k := 0; k < nFiles; k++ {
				if k != from && g.includes(k, from) {
					sd := &Def{Kind: 'S', SKind: 's', Name: g.base(from) + "." + d.Name, File: k}
					g.p.Files[k].Defs = append(g.p.Files[k].Defs, sd)
					g.shadow[fmt.Sprintf("%d|%s", k, sd.Name)] = sd
					g.types = append(g.types, sd)
					break
				}
			}
		}
	}
	// late fields: structs may mention any named type (forward references, recursion)
	for _, d := range g.types {
		if d.Kind == 'S' && d.SKind != 'x' && r.Chance(1, 2) {
			fs := g.fields(d.File, g.types, d.SKind, 1+r.Intn(2), false)
			for _, f := range fs {
				f.ID = i64p(int64(100 + len(d.Fields)))
				d.Fields = append(d.Fields, f)
			}
		}
	}
	// constants (each may mention earlier constants only) and defaults
	nConsts := r.Intn(g.cfg.maxConsts + 1)
	for i := 0; i < nConsts; i++ {
		from := r.Intn(nFiles)
		d := &Def{Kind: 'C', Name: g.name("c"), File: from}
		d.Ty = g.typeExpr(from, g.types, 0)
		d.Val = g.value(from, d.Ty, 0)
		g.p.Files[from].Defs = append(g.p.Files[from].Defs, d)
		g.consts = append(g.consts, d)
		if g.cfg.shadows && r.Chance(1, 12) {
			for k := 0; k < nFiles; k++ {
				if k != from && g.includes(k, from) {
					sd := &Def{Kind: 'C', Name: g.base(from) + "." + d.Name, File: k, Ty: &TExpr{Kind: "i32"}, Val: &CV{Kind: 'i', I: 7}}
					g.p.Files[k].Defs = append(g.p.Files[k].Defs, sd)
					g.shadow[fmt.Sprintf("%d|%s", k, sd.Name)] = sd
					break
				}
			}
		}
	}
	// a constant redefined as a reference to any constant of the same type — itself, an
	// earlier or a later one: cycles must be rejected, under every order
	if g.cfg.selfRefs && len(g.consts) > 0 && r.Chance(1, 12) {
		c := g.consts[r.Intn(len(g.consts))]
		var same []*Def
		for _, c2 := range g.consts {
			if c2.Ty.Text() == c.Ty.Text() && (c.Ty.Kind != "ref" || c2.Ty.Target == c.Ty.Target) {
				same = append(same, c2)
			}
		}
		c2 := same[r.Intn(len(same))]
		if sp := g.spelled(c.File, c2); sp != "" {
			c.Val = &CV{Kind: 'r', R: sp, Target: c2}
		}
	}
	// an enum item where the declared type is not that enum: must be rejected
	if g.cfg.selfRefs && len(g.consts) > 0 && r.Chance(1, 20) {
		c := g.consts[r.Intn(len(g.consts))]
		for _, e := range g.types {
			if e.Kind == 'E' && len(e.Items) > 0 && rootExpr(c.Ty) != nil && rootExpr(c.Ty).Target != e {
				if sp := g.spelled(c.File, e); sp != "" {
					c.Val = &CV{Kind: 'r', R: sp + "." + e.Items[0].Name}
				}
				break
			}
		}
	}
	for _, d := range g.types {
		if d.Kind == 'S' && d.SKind != 'u' {
			for _, f := range d.Fields {
				if f.Dflt == nil && r.Chance(1, 5) {
					f.Dflt = g.value(d.File, f.Ty, 1)
				}
			}
		}
	}
	// services
	var excs []*Def
	for _, d := range g.types {
		if d.Kind == 'S' && d.SKind == 'x' {
			excs = append(excs, d)
		}
	}
	nSvc := r.Intn(g.cfg.maxServices + 1)
	for i := 0; i < nSvc; i++ {
		from := r.Intn(nFiles)
		d := &Def{Kind: 'V', Name: g.name("V"), File: from}
		if len(g.services) > 0 && r.Bool() {
			pd := g.services[r.Intn(len(g.services))]
			if s := g.spelled(from, pd); s != "" {
				d.Parent, d.ParentDef = s, pd
			}
		}
		for k := r.Intn(4); k > 0; k-- {
			fn := &Func{Name: g.name("m"), Oneway: r.Chance(1, 6)}
			fn.Args = g.fields(from, g.types, 'a', r.Intn(3), true)
			if !fn.Oneway {
				if r.Chance(2, 3) {
					fn.Ret = g.typeExpr(from, g.types, 0)
				}
				if len(excs) > 0 && r.Chance(1, 3) {
					x := excs[r.Intn(len(excs))]
					if t := g.refTo(from, x); t != nil {
						fn.Excs = []*Field{{ID: i64p(1), Name: g.name("x"), Req: 'd', Ty: t}}
					}
				}
			}
			d.Funcs = append(d.Funcs, fn)
		}
		g.p.Files[from].Defs = append(g.p.Files[from].Defs, d)
		g.services = append(g.services, d)
		// a local service with a dotted name that shadows the include-qualified name of this one:
		// `extends base.V3` in that file means the local one, as for types and constants
		if g.cfg.shadows && r.Chance(1, 6) {
			for k := 0; k < nFiles; k++ {
				if _, taken := g.shadow[fmt.Sprintf("%d|%s", k, g.base(from)+"."+d.Name)]; k != from && g.includes(k, from) && !taken {
					sd := &Def{Kind: 'V', Name: g.base(from) + "." + d.Name, File: k, Funcs: []*Func{{Name: g.name("local")}}}
					g.p.Files[k].Defs = append(g.p.Files[k].Defs, sd)
					g.shadow[fmt.Sprintf("%d|%s", k, sd.Name)] = sd
					g.services = append(g.services, sd)
					// and right away a service of that file that extends it by that name
					ext := &Def{Kind: 'V', Name: g.name("V"), File: k, Parent: sd.Name, ParentDef: sd}
					g.p.Files[k].Defs = append(g.p.Files[k].Defs, ext)
					g.services = append(g.services, ext)
					break
				}
			}
		}
	}
	// source order: shuffle the definitions of every file (forward references)
	for _, f := range g.p.Files {
		for i := len(f.Defs) - 1; i > 0; i-- {
			j := r.Intn(i + 1)
			f.Defs[i], f.Defs[j] = f.Defs[j], f.Defs[i]
		}
	}
	return g.p
}

// ---------------------------------------------------------------- shape predicates (known findings are excluded by these)

func eachRef(t *TExpr, f func(*TExpr)) {
	if t == nil {
		return
	}
	if t.Kind == "ref" {
		f(t)
	}
	eachRef(t.A, f)
	eachRef(t.B, f)
}

// valueDeps lists what linking value v at type t pulls in: the constants it refers to and
// the structs a literal of which it contains (whose defaults are then needed).
func valueDeps(t *TExpr, v *CV, out *[]*Def) {
	if v == nil {
		return
	}
	rt := rootExpr(t)
	if v.Kind == 'r' && v.Target != nil {
		*out = append(*out, v.Target)
		// a constant of another struct type is cast field by field, like a literal of the
		// struct it is cast to (completed with that struct's defaults)
		if rt != nil && rt.Kind == "ref" && rt.Target != nil && rt.Target.Kind == 'S' {
			if crt := rootExpr(v.Target.Ty); crt == nil || crt.Target != rt.Target {
				*out = append(*out, rt.Target)
			}
		}
		return
	}
	if rt == nil {
		return
	}
	switch {
	case rt.Kind == "ref" && rt.Target != nil && rt.Target.Kind == 'S' && v.Kind == 'm':
		*out = append(*out, rt.Target)
		for _, kv := range v.M {
			for _, f := range rt.Target.Fields {
				if kv[0].Kind == 's' && kv[0].S == f.Name {
					valueDeps(f.Ty, kv[1], out)
				}
			}
		}
	case (rt.Kind == "list" || rt.Kind == "set") && v.Kind == 'l':
		for _, e := range v.L {
			valueDeps(rt.A, e, out)
		}
	case rt.Kind == "map" && v.Kind == 'm':
		for _, kv := range v.M {
			valueDeps(rt.A, kv[0], out)
			valueDeps(rt.B, kv[1], out)
		}
	}
}

// structLiteralReentry: linking struct S can reach (through the types of its fields, its
// defaults, the constants those mention, …) a value that contains a literal of S itself.
// Such a literal is then evaluated against a half-linked S — the shape of D50 (whether the
// program is accepted depends on the link order) and of D40.
func structLiteralReentry(defs []*Def) bool {
	typeRefs := func(t *TExpr, out *[]*Def) {
		eachRef(t, func(r *TExpr) {
			if r.Target != nil {
				*out = append(*out, r.Target)
			}
		})
	}
	// values(d): the (type, value) pairs evaluated when d is linked
	literals := func(d *Def) []*Def {
		var deps []*Def
		switch d.Kind {
		case 'C':
			valueDeps(d.Ty, d.Val, &deps)
		case 'S':
			for _, f := range d.Fields {
				valueDeps(f.Ty, f.Dflt, &deps)
			}
		}
		return deps // constants referenced and structs a literal of which occurs
	}
	succ := func(d *Def) []*Def {
		var out []*Def
		switch d.Kind {
		case 'T', 'C':
			typeRefs(d.Ty, &out)
		case 'S':
			for _, f := range d.Fields {
				typeRefs(f.Ty, &out)
			}
		}
		return append(out, literals(d)...)
	}
	for _, start := range defs {
		if start.Kind != 'S' {
			continue
		}
		seen := map[*Def]bool{start: true}
		stack := []*Def{start}
		for len(stack) > 0 {
			d := stack[len(stack)-1]
			stack = stack[:len(stack)-1]
			for _, l := range literals(d) {
				if l == start {
					return true
				}
			}
			for _, n := range succ(d) {
				if !seen[n] {
					seen[n] = true
					stack = append(stack, n)
				}
			}
		}
	}
	return false
}

func newGen(r *rng.R, cfg genCfg) *gen { return &gen{r: r, cfg: cfg} }

// typeSuccessors: the definitions a type definition refers to in its type expressions.
func typeSuccessors(d *Def) []*Def {
	var out []*Def
	add := func(t *TExpr) {
		eachRef(t, func(r *TExpr) {
			if r.Target != nil {
				out = append(out, r.Target)
			}
		})
	}
	switch d.Kind {
	case 'T', 'C':
		add(d.Ty)
	case 'S':
		for _, f := range d.Fields {
			add(f.Ty)
		}
	}
	return out
}

// valueAtCyclicTypedef: a constant or a default value is given at a type from which a typedef that
// lies on a reference cycle can be reached. Casting a value at a typedef whose Link is still in
// progress is the territory of the known findings D21 / D50 (the outcome depends on the order);
// a typedef on a cycle WITHOUT such values is the shape of the repaired D10 and is generated.
func valueAtCyclicTypedef(types, consts []*Def) bool {
	cyclic := map[*Def]bool{}
	for _, start := range types {
		if start.Kind != 'T' {
			continue
		}
		seen := map[*Def]bool{}
		stack := typeSuccessors(start)
		for len(stack) > 0 {
			d := stack[len(stack)-1]
			stack = stack[:len(stack)-1]
			if d == start {
				cyclic[start] = true
				break
			}
			if seen[d] {
				continue
			}
			seen[d] = true
			stack = append(stack, typeSuccessors(d)...)
		}
	}
	if len(cyclic) == 0 {
		return false
	}
	reaches := func(t *TExpr) bool {
		var stack []*Def
		eachRef(t, func(r *TExpr) {
			if r.Target != nil {
				stack = append(stack, r.Target)
			}
		})
		seen := map[*Def]bool{}
		for len(stack) > 0 {
			d := stack[len(stack)-1]
			stack = stack[:len(stack)-1]
			if cyclic[d] {
				return true
			}
			if seen[d] {
				continue
			}
			seen[d] = true
			stack = append(stack, typeSuccessors(d)...)
		}
		return false
	}
	for _, c := range consts {
		if reaches(c.Ty) {
			return true
		}
	}
	for _, d := range types {
		if d.Kind != 'S' {
			continue
		}
		for _, f := range d.Fields {
			if f.Dflt != nil && reaches(f.Ty) {
				return true
			}
		}
	}
	return false
}

// program generates a program that avoids the D21 / D50 shapes (values at typedefs that lie on a
// reference cycle, struct literals reachable from the struct's own Link). Typedefs on a reference
// cycle through a struct field — the shape of the repaired D10 — are generated.
func program(r *rng.R, cfg genCfg) (*Prog, *gen) {
	for {
		g := newGen(r.Fork(), cfg)
		p := g.build()
		all := append(append([]*Def(nil), g.types...), g.consts...)
		if !valueAtCyclicTypedef(g.types, g.consts) && !structLiteralReentry(all) {
			return p, g
		}
	}
}
