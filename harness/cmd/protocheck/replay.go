package main

// Replay of recorded inputs: corpus files (text, one input per line) and the replay
// JSON written by bin/check ({"disagreements":[{"input":...}]}). An input is either a
// driver op that describes the whole case (H: fake-plugin scripts; F/FW: frames; P*:
// path functions; XM: merges) or a scenario line (C17SCN {json}, C18CFG ...).

import (
	"bufio"
	"encoding/json"
	"os"
	"path/filepath"
	"sort"
	"strconv"
	"strings"

	"go.uber.org/thriftrw/verifhook"
)

func scenarioFromH(line string) (scenario, bool) {
	f := strings.Fields(line)
	// H coreOk nc {path content}* ord np {name eas code hsOut hsExit genOut genExit byeOut byeExit}*
	if len(f) < 5 {
		return scenario{}, false
	}
	sc := scenario{label: "replay", coreOK: f[1] == "1"}
	nc, err := strconv.Atoi(f[2])
	if err != nil {
		return sc, false
	}
	i := 3 + 2*nc + 1
	if i >= len(f) {
		return sc, false
	}
	np, err := strconv.Atoi(f[i])
	if err != nil || np > len(pluginNames) {
		return sc, false
	}
	i++
	for k := 0; k < np; k++ {
		if i+9 > len(f) {
			return sc, false
		}
		code, _ := strconv.Atoi(f[i+2])
		p := pluginSpec{name: string(unhx(f[i])), exitAtStart: f[i+1] == "1", exitCode: code}
		mk := func(o, e string) stepSpec {
			st := stepSpec{exits: e == "1", kind: "replayed", good: true}
			if o != "-" {
				st.out = parseChunks(o)
			}
			return st
		}
		p.hs, p.gen, p.bye = mk(f[i+3], f[i+4]), mk(f[i+5], f[i+6]), mk(f[i+7], f[i+8])
		sc.plugins = append(sc.plugins, p)
		i += 9
	}
	return sc, i == len(f)
}

// replayH runs a recorded script against the binary: model comparison plus the oracles
// that need no knowledge of what the script "means".
func replayH(c *checker, line string) {
	sc, ok := scenarioFromH(line)
	if !ok {
		return
	}
	for _, p := range sc.plugins {
		valid := false
		for _, n := range pluginNames {
			valid = valid || n == p.name
		}
		if !valid {
			return
		}
	}
	res := runScenario(sc, caseCounter.next())
	if res.timedOut { // might be a blocking script: run again with the short timeout
		sc.hang = true
	}
	op := sc.opLine(false)
	ans := res.answer(sc)
	c.rep.Case(op, true)
	c.rep.Hist("how", "replay/corpus")
	c.expect("C16 thriftrw+fake plugins vs host automaton (replay)", op, ans)
	if len(res.survivors) > 0 {
		c.oracle("C16 surviving child process", op, ans, "")
	}
	for k, p := range sc.plugins {
		if res.timedOut || res.views[k] == "" {
			continue
		}
		if !viewRe.MatchString(res.views[k]) {
			c.oracle("C16 trace automaton", op, ans, p.name+" saw "+res.views[k])
		}
		if !res.reaped[k] {
			c.oracle("C16 plugin not reaped", op, ans, p.name)
		}
	}
}

func replayLine(c *checker, line string) {
	line = strings.TrimSpace(line)
	if line == "" || strings.HasPrefix(line, "#") {
		return
	}
	f := strings.Fields(line)
	switch f[0] {
	case "H", "HT":
		replayH(c, line)
	case "compile-fails", "output-file-not-go", "output-file-no-extension", "thrift-root-elsewhere":
		c16CompileFails(c) // the whole (small) family of host-refuses scenarios
	case "C17SCN":
		var s c17Scenario
		if json.Unmarshal([]byte(strings.TrimPrefix(line, "C17SCN ")), &s) == nil {
			c17Check(c, []c17Scenario{s}, "replay/corpus")
		}
	case "F":
		if len(f) == 3 {
			thr, _ := strconv.ParseInt(f[1], 10, 64)
			old := verifhook.SetFastPathFrameSize(thr)
			c.rep.Case(line, true)
			c.expect("frame.Reader vs readFrames (replay)", line, readAllFrames(parseChunks(f[2])))
			verifhook.SetFastPathFrameSize(old)
		}
	case "FW":
		if len(f) == 2 {
			rec := &writeRecorder{}
			verifhook.NewFrameWriter(rec).Write(unhx(f[1]))
			c.rep.Case(line, true)
			c.expect("frame.Writer vs writeFrame (replay)", line, "ok "+chunksText(rec.writes))
		}
	case "PC", "PD", "PB", "PA":
		if len(f) == 2 {
			a := string(unhx(f[1]))
			ans := map[string]string{"PC": hxs(filepath.Clean(a)), "PD": hxs(filepath.Dir(a)), "PB": hxs(filepath.Base(a)), "PA": b01(filepath.IsAbs(a))}[f[0]]
			c.rep.Case(line, true)
			c.expect("path function (replay)", line, "ok "+ans)
		}
	case "PJ", "PR", "PM":
		if len(f) == 3 {
			a, b := string(unhx(f[1])), string(unhx(f[2]))
			ans := "err"
			switch f[0] {
			case "PJ":
				ans = "ok " + hxs(filepath.Join(a, b))
			case "PR":
				if rp, err := filepath.Rel(a, b); err == nil {
					ans = "ok " + hxs(rp)
				}
			case "PM":
				if pkg, err := filepath.Rel(a, strings.TrimSuffix(b, ".thrift")); err == nil && pkg != ".." && !strings.HasPrefix(pkg, "../") {
					ans = "ok " + hxs(filepath.Join(pkg, filepath.Base(pkg)+".go"))
				}
			}
			c.rep.Case(line, true)
			c.expect("path function (replay)", line, ans)
		}
	case "XM":
		replayXM(c, line)
	}
}

func replayFile(c *checker, path string) {
	fh, err := os.Open(path)
	if err != nil {
		return
	}
	defer fh.Close()
	if strings.HasSuffix(path, ".json") {
		var doc struct {
			Disagreements []struct {
				Input string `json:"input"`
			} `json:"disagreements"`
		}
		if json.NewDecoder(fh).Decode(&doc) == nil {
			for _, d := range doc.Disagreements {
				replayLine(c, d.Input)
			}
		}
		c.flush()
		c.rep.Rule = "replay of " + path
		return
	}
	sc := bufio.NewScanner(fh)
	sc.Buffer(make([]byte, 1<<20), 1<<28)
	for sc.Scan() {
		replayLine(c, sc.Text())
	}
	c.flush()
	if c.rep.Rule == "" {
		c.rep.Rule = "replay of " + path
	}
}

func corpusDir(c *checker, dir string) {
	if dir == "" {
		return
	}
	files, _ := filepath.Glob(filepath.Join(dir, "*"))
	sort.Strings(files)
	for _, f := range files {
		replayFile(c, f)
	}
	c.rep.Rule = ""
	c.rep.Hist("how", "corpus-files:"+strconv.Itoa(len(files)))
}

func c16Replay(c *checker, path string) { replayFile(c, path) }
func c16Corpus(c *checker, dir string)  { corpusDir(c, dir) }
