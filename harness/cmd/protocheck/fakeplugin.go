package main

// The scripted fake plugin. Started by the real `thriftrw` binary as
// thriftrw-plugin-<name> (a symlink to this executable). It reads
// $VERIF_FAKE_DIR/<name>.script, logs what it sees to $VERIF_FAKE_DIR/<name>.log
// and otherwise does exactly what the script says: for each request kind the
// bytes to write (in the given write calls) and whether to exit afterwards.
//
// It uses none of thriftrw's code: frames and envelope headers are parsed by hand.
//
// Script lines:
//   exit_at_start 0|1
//   exit_code N
//   hs|gen|bye <exits 0|1> <chunks: comma-separated hex, "-" = nothing>
//
// Log lines: start | req <kind> <payload hex> | eof | eof-partial | exit

import (
	"bufio"
	"encoding/binary"
	"fmt"
	"io"
	"os"
	"os/signal"
	"path/filepath"
	"strconv"
	"strings"
	"syscall"
	"time"
)

type fakeStep struct {
	exits bool
	out   [][]byte
}

type fakeScript struct {
	exitAtStart bool
	exitCode    int
	steps       map[string]fakeStep
}

func (s fakeScript) text() string {
	var sb strings.Builder
	b := func(x bool) int {
		if x {
			return 1
		}
		return 0
	}
	fmt.Fprintf(&sb, "exit_at_start %d\nexit_code %d\n", b(s.exitAtStart), s.exitCode)
	for _, k := range []string{"hs", "gen", "bye"} {
		st := s.steps[k]
		fmt.Fprintf(&sb, "%s %d %s\n", k, b(st.exits), chunksText(st.out))
	}
	return sb.String()
}

func parseFakeScript(path string) (fakeScript, error) {
	s := fakeScript{steps: map[string]fakeStep{}}
	f, err := os.Open(path)
	if err != nil {
		return s, err
	}
	defer f.Close()
	sc := bufio.NewScanner(f)
	sc.Buffer(make([]byte, 1<<20), 1<<28)
	for sc.Scan() {
		fs := strings.Fields(sc.Text())
		if len(fs) < 2 {
			continue
		}
		switch fs[0] {
		case "exit_at_start":
			s.exitAtStart = fs[1] == "1"
		case "exit_code":
			s.exitCode, _ = strconv.Atoi(fs[1])
		case "hs", "gen", "bye":
			st := fakeStep{exits: fs[1] == "1"}
			if len(fs) > 2 && fs[2] != "-" {
				st.out = parseChunks(fs[2])
			}
			s.steps[fs[0]] = st
		}
	}
	return s, sc.Err()
}

func fakePluginMain() {
	signal.Ignore(syscall.SIGPIPE)
	name := strings.TrimPrefix(filepath.Base(os.Args[0]), "thriftrw-plugin-")
	for _, a := range os.Args[1:] {
		if strings.HasPrefix(a, "--inst=") { // one of several plugins given under the same name
			name += "@" + strings.TrimPrefix(a, "--inst=")
		}
	}
	dir := os.Getenv("VERIF_FAKE_DIR")
	logf, err := os.OpenFile(filepath.Join(dir, name+".log"), os.O_CREATE|os.O_WRONLY|os.O_APPEND, 0o644)
	if err != nil {
		os.Exit(97)
	}
	logln := func(s string) { logf.WriteString(s + "\n") }
	logln("start " + strconv.Itoa(os.Getpid()))
	script, err := parseFakeScript(filepath.Join(dir, name+".script"))
	if err != nil {
		logln("no-script")
		os.Exit(98)
	}
	die := func() {
		os.Stdin.Close()
		os.Stdout.Close()
		// give a host that does not wait for us the chance to finish first: the
		// harness requires this line to exist when the host exits.
		time.Sleep(15 * time.Millisecond)
		logln("exit")
		os.Exit(script.exitCode)
	}
	if script.exitAtStart {
		die()
	}
	for {
		var hdr [4]byte
		n, err := io.ReadFull(os.Stdin, hdr[:])
		if err != nil {
			if n == 0 {
				logln("eof")
			} else {
				logln("eof-partial")
			}
			die()
		}
		body := make([]byte, binary.BigEndian.Uint32(hdr[:]))
		if _, err := io.ReadFull(os.Stdin, body); err != nil {
			logln("eof-partial")
			die()
		}
		kind := "?"
		if len(body) >= 8 {
			nl := int(binary.BigEndian.Uint32(body[4:8]))
			if nl >= 0 && 8+nl <= len(body) {
				switch string(body[8 : 8+nl]) {
				case "Plugin:handshake":
					kind = "hs"
				case "ServiceGenerator:generate":
					kind = "gen"
				case "Plugin:goodbye":
					kind = "bye"
				}
			}
		}
		if kind == "gen" {
			logln("req gen -")
		} else {
			logln("req " + kind + " " + hx(body))
		}
		st := script.steps[kind]
		if st.exits {
			os.Stdin.Close()
		}
		for i, ch := range st.out {
			if i > 0 && len(st.out) <= 96 {
				time.Sleep(60 * time.Microsecond)
			}
			os.Stdout.Write(ch)
		}
		if st.exits {
			die()
		}
	}
}
