package main

// C16: the real thriftrw binary against 1..3 scripted fake plugins, compared with
// the Lean host automaton on the same scripts; plus implementation-side oracles.

import (
	"context"
	"fmt"
	"os"
	"os/exec"
	"path/filepath"
	"regexp"
	"strconv"
	"strings"
	"sync"
	"syscall"
	"time"

	"verifharness/internal/rng"
	"verifharness/internal/wv"
)

var pluginNames = []string{"alpha", "beta", "gamma"}

type stepSpec struct {
	out   [][]byte
	exits bool
	// generator-side knowledge used only by the implementation-side oracles
	good bool // a complete, correct, acceptable reply (whatever its segmentation)
	kind string
}

type pluginSpec struct {
	name         string
	exitAtStart  bool
	exitCode     int
	hs, gen, bye stepSpec
	hsFeature    bool // the (good) handshake reply advertises SERVICE_GENERATOR
	genFiles     []kv // files of a good generate reply
}

type scenario struct {
	label   string
	plugins []pluginSpec
	coreOK  bool
	// compileFails: the Thrift file does not compile (no model comparison: whether plugins are started at
	// all before that is the host's choice; whatever was started is owed the whole conversation)
	compileFails bool
	// extraArgs: further host options (the host-refuses scenarios: options the host rejects by itself)
	extraArgs []string
	hang    bool // the generator expects the host to block (short timeout)
}

const goodProgram = "struct S { 1: optional string a }\nservice Svc { void f() }\n"

// a program that compiles but whose code generation fails (two fields with the same Go name)
const genFailProgram = "struct B { 1: optional string foo_bar; 2: optional string fooBar }\nservice Svc { void f() }\n"

func b01(b bool) string {
	if b {
		return "1"
	}
	return "0"
}

// keys names the script and log of each plugin: its name, or name@position when several
// plugins of the scenario are given under the same name (-p "name --inst=position").
func (sc scenario) keys() []string {
	n := map[string]int{}
	for _, p := range sc.plugins {
		n[p.name]++
	}
	ks := make([]string, len(sc.plugins))
	for i, p := range sc.plugins {
		ks[i] = p.name
		if n[p.name] > 1 {
			ks[i] = fmt.Sprintf("%s@%d", p.name, i)
		}
	}
	return ks
}

func (sc scenario) sameNames() bool {
	for i, k := range sc.keys() {
		if k != sc.plugins[i].name {
			return true
		}
	}
	return false
}

// orNamed: the error output can only tell plugins apart by name, so the "named" bit of
// an answer is shared by the plugins given under one name (applied to the model's answer).
func (sc scenario) orNamed(ans string) string {
	parts := strings.Split(ans, "; ")
	if len(parts) != len(sc.plugins)+1 {
		return ans
	}
	any := map[string]bool{}
	for i, p := range sc.plugins {
		if strings.HasPrefix(parts[i+1], "1") {
			any[p.name] = true
		}
	}
	for i, p := range sc.plugins {
		if any[p.name] && strings.HasPrefix(parts[i+1], "0") {
			parts[i+1] = "1" + parts[i+1][1:]
		}
	}
	return strings.Join(parts, "; ")
}

func (sc scenario) opLine(trace bool) string {
	var sb strings.Builder
	op := "H"
	if trace {
		op = "HT"
	}
	fmt.Fprintf(&sb, "%s %s 1 %s %s - %d", op, b01(sc.coreOK), hxs("root/root.go"), hxs("core"), len(sc.plugins))
	// completion order: identity
	s := sb.String()
	s = strings.Replace(s, " - ", " "+orderText(len(sc.plugins))+" ", 1)
	sb.Reset()
	sb.WriteString(s)
	for _, p := range sc.plugins {
		fmt.Fprintf(&sb, " %s %s %d", hxs(p.name), b01(p.exitAtStart), p.exitCode)
		for _, st := range []stepSpec{p.hs, p.gen, p.bye} {
			fmt.Fprintf(&sb, " %s %s", chunksText(st.out), b01(st.exits))
		}
	}
	return sb.String()
}

func orderText(n int) string {
	if n == 0 {
		return "-"
	}
	var parts []string
	for i := 0; i < n; i++ {
		parts = append(parts, strconv.Itoa(i))
	}
	return strings.Join(parts, ",")
}

type runResult struct {
	exit      int
	timedOut  bool
	stderr    string
	views     []string
	pids      []int
	reaped    []bool // the plugin's log ended with `exit` at the moment the host exited
	reqs      [][]string
	files     []string
	survivors []int
}

var binDirOnce sync.Once

func fakeBinDir() string {
	d := filepath.Join(work(), "bin")
	binDirOnce.Do(func() {
		os.MkdirAll(d, 0o755)
		self, err := os.Executable()
		if err != nil {
			fmt.Fprintln(os.Stderr, "protocheck:", err)
			os.Exit(3)
		}
		for _, n := range append(append([]string{}, pluginNames...), "p0", "p1", "p2", "p3") {
			os.Symlink(self, filepath.Join(d, "thriftrw-plugin-"+n))
		}
	})
	return d
}

func procGone(pid int) bool {
	b, err := os.ReadFile(fmt.Sprintf("/proc/%d/stat", pid))
	if err != nil {
		return true
	}
	// pid (comm) state ...
	s := string(b)
	if i := strings.LastIndex(s, ")"); i >= 0 && i+2 < len(s) {
		return s[i+2] == 'Z' || s[i+2] == 'X'
	}
	return false
}

func parseLog(path string) (view string, pid int, reqs []string, exited bool) {
	b, err := os.ReadFile(path)
	if err != nil {
		return "", 0, nil, false
	}
	var ev []string
	for _, l := range strings.Split(strings.TrimSpace(string(b)), "\n") {
		f := strings.Fields(l)
		if len(f) == 0 {
			continue
		}
		switch f[0] {
		case "start":
			ev = append(ev, "start")
			if len(f) > 1 {
				pid, _ = strconv.Atoi(f[1])
			}
		case "req":
			k := map[string]string{"hs": "handshake", "gen": "generate", "bye": "goodbye"}[f[1]]
			if k == "" {
				k = "unknown-request"
			}
			ev = append(ev, k)
			if len(f) > 2 {
				reqs = append(reqs, f[1]+" "+f[2])
			}
		case "exit":
			ev = append(ev, "exit")
			exited = true
		default:
			ev = append(ev, f[0])
		}
	}
	return strings.Join(ev, "."), pid, reqs, exited
}

func runScenario(sc scenario, idx int) runResult {
	dir := filepath.Join(work(), "c16", fmt.Sprintf("run-%d", idx))
	scripts := filepath.Join(dir, "scripts")
	os.MkdirAll(scripts, 0o755)
	os.MkdirAll(filepath.Join(dir, "src"), 0o755)
	prog := goodProgram
	if !sc.coreOK {
		prog = genFailProgram
	}
	if sc.compileFails {
		prog = "struct A { 1: optional NoSuchType f }\nservice Svc { void f() }\n"
	}
	os.WriteFile(filepath.Join(dir, "src", "root.thrift"), []byte(prog), 0o644)
	args := []string{"--out", filepath.Join(dir, "out"), "--pkg-prefix", "x"}
	keys := sc.keys()
	for i, p := range sc.plugins {
		fs := fakeScript{exitAtStart: p.exitAtStart, exitCode: p.exitCode, steps: map[string]fakeStep{
			"hs": {p.hs.exits, p.hs.out}, "gen": {p.gen.exits, p.gen.out}, "bye": {p.bye.exits, p.bye.out}}}
		os.WriteFile(filepath.Join(scripts, keys[i]+".script"), []byte(fs.text()), 0o644)
		if keys[i] != p.name {
			args = append(args, "-p", p.name+" --inst="+strings.TrimPrefix(keys[i], p.name+"@"))
		} else {
			args = append(args, "-p", p.name)
		}
	}
	for _, a := range sc.extraArgs {
		args = append(args, strings.ReplaceAll(a, "{dir}", dir))
	}
	args = append(args, filepath.Join(dir, "src", "root.thrift"))
	tmo := 20 * time.Second
	if sc.hang {
		tmo = 1500 * time.Millisecond
	}
	ctx, cancel := context.WithTimeout(context.Background(), tmo)
	defer cancel()
	cmd := exec.Command(thriftrw(), args...)
	cmd.Dir = dir
	cmd.Env = append(os.Environ(), "PATH="+fakeBinDir()+":"+os.Getenv("PATH"), "VERIF_FAKE_DIR="+scripts)
	cmd.SysProcAttr = &syscall.SysProcAttr{Setpgid: true}
	// stderr goes to a FILE: with a pipe, exec.Cmd.Wait would also wait for the plugins (which
	// inherit the host's stderr) and "the host exited before the plugin" could never be seen
	errPath := filepath.Join(dir, "stderr.txt")
	errFile, _ := os.Create(errPath)
	cmd.Stderr = errFile
	cmd.Stdout = errFile
	var res runResult
	defer errFile.Close()
	if err := cmd.Start(); err != nil {
		res.exit = -1
		res.stderr = err.Error()
		return res
	}
	done := make(chan error, 1)
	go func() { done <- cmd.Wait() }()
	select {
	case err := <-done:
		if ee, ok := err.(*exec.ExitError); ok {
			res.exit = ee.ExitCode()
		} else if err != nil {
			res.exit = -1
		}
	case <-ctx.Done():
		res.timedOut = true
		syscall.Kill(-cmd.Process.Pid, syscall.SIGKILL)
		<-done
	}
	// the moment of truth for "reaped": did every started plugin finish before the host did?
	for i := range sc.plugins {
		_, _, _, exited := parseLog(filepath.Join(scripts, keys[i]+".log"))
		res.reaped = append(res.reaped, exited)
	}
	if b, err := os.ReadFile(errPath); err == nil {
		res.stderr = string(b)
	}
	// now let stragglers finish (or find them still running)
	deadline := time.Now().Add(2 * time.Second)
	for i := range sc.plugins {
		_, pid, _, _ := parseLog(filepath.Join(scripts, keys[i]+".log"))
		if pid == 0 {
			continue
		}
		for !procGone(pid) && time.Now().Before(deadline) && !res.timedOut {
			time.Sleep(5 * time.Millisecond)
		}
		if !procGone(pid) {
			if !res.timedOut {
				res.survivors = append(res.survivors, pid)
			}
			syscall.Kill(pid, syscall.SIGKILL)
		}
	}
	syscall.Kill(-cmd.Process.Pid, syscall.SIGKILL) // whatever is left of the group
	for i := range sc.plugins {
		v, pid, reqs, _ := parseLog(filepath.Join(scripts, keys[i]+".log"))
		res.views = append(res.views, v)
		res.pids = append(res.pids, pid)
		res.reqs = append(res.reqs, reqs)
	}
	res.files = outFiles(filepath.Join(dir, "out"))
	os.RemoveAll(dir)
	return res
}

func named(stderr, name string) bool {
	return strings.Contains(stderr, "\""+name+"\"") || strings.Contains(stderr, "thriftrw-plugin-"+name)
}

func (res runResult) answer(sc scenario) string {
	verdict := "ok"
	if res.timedOut {
		verdict = "hang"
	} else if res.exit != 0 {
		verdict = "fail"
	}
	files := "-"
	if len(res.files) > 0 {
		files = filesText(res.files)
	}
	var sb strings.Builder
	fmt.Fprintf(&sb, "ok %s %s ", verdict, files)
	for i, p := range sc.plugins {
		if i > 0 {
			sb.WriteByte(' ')
		}
		fmt.Fprintf(&sb, "; %s %s", b01(named(res.stderr, p.name)), res.views[i])
	}
	return sb.String()
}

// c16CompileFails: the host fails for a reason that has nothing to do with plugins (the file does not
// compile). It must exit with a failure, and a plugin it has started by then — if any — must still get
// its goodbye after a successful handshake, see its pipes closed and be reaped.
func c16CompileFails(c *checker) {
	type refusal struct {
		label        string
		compileFails bool
		extra        []string
	}
	// the host's own reasons to fail, with plugins named on the command line: the file does not compile;
	// an --output-file that is not a .go file (seeded change C16-64: the test was moved behind the start
	// of the plugins and in front of the deferred Close); an --output-file with a directory part; a
	// --thrift-root that does not contain the file
	refusals := []refusal{
		{"compile-fails", true, nil},
		{"output-file-not-go", false, []string{"--output-file", "all.txt"}},
		{"output-file-no-extension", false, []string{"--output-file", "all"}},
		{"thrift-root-elsewhere", false, []string{"--thrift-root", "{dir}/scripts"}},
	}
	for ri := 0; ri < 3*len(refusals); ri++ {
		n, rf := 1+ri/len(refusals), refusals[ri%len(refusals)]
		sc := scenario{label: fmt.Sprintf("%s x%d", rf.label, n), coreOK: true, compileFails: rf.compileFails, extraArgs: rf.extra}
		for i := 0; i < n; i++ {
			sc.plugins = append(sc.plugins, conforming(pluginNames[i]))
		}
		res := runScenario(sc, caseCounter.next())
		op := sc.label
		ans := fmt.Sprintf("exit=%d timedOut=%v views=%v", res.exit, res.timedOut, res.views)
		c.rep.Case(op, true)
		c.rep.Hist("how", "host-refuses: "+rf.label)
		fail := func(kind, why string) {
			c.oracle("C16 "+kind, op, ans, sc.label+": "+why+" | stderr: "+firstLine(res.stderr))
		}
		if res.timedOut || res.exit == -1 {
			fail("host blocked", "the host did not exit")
			continue
		}
		if res.exit == 0 {
			fail("exit status 0 although the host had to refuse ("+rf.label+")", "")
		}
		if len(res.survivors) > 0 {
			fail("surviving child process", fmt.Sprint("plugin processes still running after the host exited: ", res.survivors))
		}
		for k, p := range sc.plugins {
			v := res.views[k]
			if v == "" {
				continue // never started: fine
			}
			if !res.reaped[k] {
				fail("plugin not reaped", p.name+" had not finished when the host exited (no Wait): "+v)
			}
			if strings.Contains(v, "handshake") && strings.Count(v, "goodbye") != 1 {
				fail("goodbye count", p.name+" completed its handshake and got "+fmt.Sprint(strings.Count(v, "goodbye"))+" goodbye requests: "+v)
			}
			if !strings.Contains(v, "eof") {
				fail("pipes not closed", p.name+" never saw EOF on its stdin: "+v)
			}
		}
	}
}

// ---- replies and faults ----

func goodHs(name string, feature bool) []byte {
	var feats []int32
	if feature {
		feats = []int32{1}
	}
	return frameOf(envStrict(mHandshake, etReply, 1, hsResult(name, 4, feats)))
}

func goodGen(files []kv) []byte {
	return frameOf(envStrict(mGenerate, etReply, 1, genResult(files, true)))
}

func goodBye() []byte { return frameOf(envStrict(mGoodbye, etReply, 1, vStruct())) }

func whole(b []byte) [][]byte { return [][]byte{b} }

func okStep(b []byte) stepSpec { return stepSpec{out: whole(b), good: true, kind: "ok"} }

// conforming plugin with one generated file.
func conforming(name string) pluginSpec {
	files := []kv{{name + "/extra.go", "// " + name}}
	return pluginSpec{name: name, hs: okStep(goodHs(name, true)), gen: okStep(goodGen(files)), bye: okStep(goodBye()),
		hsFeature: true, genFiles: files}
}

// stepFaults lists, for one protocol step with correct reply frame `good` for `method`,
// every fault of the property's list as a replacement step.
func stepFaults(r *rng.R, method string, good []byte) []stepSpec {
	var fs []stepSpec
	add := func(kind string, out [][]byte, exits, ok bool) {
		fs = append(fs, stepSpec{out: out, exits: exits, good: ok, kind: kind})
	}
	add("ok-1byte-writes", splitChunks(good, ones(len(good))), false, true)
	add("ok-random-writes", splitChunks(good, randomSizes(r, len(good))), false, true)
	add("ok-then-exit", whole(good), true, true)
	add("exception-envelope", whole(frameOf(envStrict(method, etException, 1, excBody("boom", 6)))), false, false)
	add("exception-malformed-body", whole(frameOf(envStrict(method, etException, 1, vStruct(fld(1, vI32(7)))))), false, false)
	add("garbage-frame", whole(frameOf(r.Bytes(1+r.Intn(24)))), false, false)
	add("garbage-frame-ff", whole(frameOf([]byte{0xff, 0xff, 0xff, 0xff, 0, 0})), false, false)
	add("empty-frame", whole(frameOf(nil)), false, false)
	add("envelope-type-call", whole(frameOf(envStrict(method, etCall, 1, vStruct()))), false, false)
	add("envelope-type-oneway", whole(frameOf(envStrict(method, etOneWay, 1, vStruct()))), false, false)
	add("exit-after-reading", nil, true, false)
	if method == mGoodbye {
		// a correct goodbye reply followed by more output than a pipe holds: the host never reads it, so
		// the plugin sits in write() until the host closes its end of the pipe — which it must, or it
		// waits for a process that cannot exit
		add("ok-then-flood", [][]byte{good, make([]byte, 300<<10)}, true, true)
	}
	add("oversized-prefix-ffffffff", [][]byte{{0xff, 0xff, 0xff, 0xff}, good[4:]}, true, false)
	add("oversized-prefix-plus1", [][]byte{be32(uint32(len(good) - 4 + 1)), good[4:]}, true, false)
	add("oversized-prefix-just-below-fastpath", [][]byte{be32(10*1024*1024 - 1), good[4:]}, true, false)
	add("oversized-prefix-fastpath", [][]byte{be32(10 * 1024 * 1024), good[4:]}, true, false)
	for k := 0; k < len(good); k++ {
		add(fmt.Sprintf("truncated@%d", k), whole(good[:k]), true, false)
	}
	return fs
}

func hsVariants(name string) []stepSpec {
	mk := func(kind string, body *wv.V, ok bool) stepSpec {
		return stepSpec{out: whole(frameOf(envStrict(mHandshake, etReply, 1, body))), good: ok, kind: kind}
	}
	resp := func(fs ...wv.Field) *wv.V { return vStruct(fld(0, vStruct(fs...))) }
	return []stepSpec{
		mk("wrong-name", hsResult("zzz", 4, []int32{1}), false),
		mk("empty-name", hsResult("", 4, []int32{1}), false),
		mk("name-prefix", hsResult(name+"x", 4, []int32{1}), false),
		mk("api-version-3", hsResult(name, 3, []int32{1}), false),
		mk("api-version-5", hsResult(name, 5, []int32{1}), false),
		mk("api-version-negative", hsResult(name, -4, []int32{1}), false),
		mk("no-features", hsResult(name, 4, nil), true),
		mk("unknown-feature-only", hsResult(name, 4, []int32{2}), true),
		mk("feature-twice-and-unknown", hsResult(name, 4, []int32{7, 1, 1}), true),
		mk("missing-name", resp(fld(2, vI32(4)), fld(3, vI32List(1))), false),
		mk("missing-version", resp(fld(1, vBin(name)), fld(3, vI32List(1))), false),
		mk("missing-features", resp(fld(1, vBin(name)), fld(2, vI32(4))), false),
		mk("name-wrong-type", resp(fld(1, vI32(1)), fld(2, vI32(4)), fld(3, vI32List(1))), false),
		mk("version-wrong-type", resp(fld(1, vBin(name)), fld(2, vI64(4)), fld(3, vI32List(1))), false),
		mk("features-wrong-elem-type", resp(fld(1, vBin(name)), fld(2, vI32(4)), fld(3, vList(wv.TI64, vI64(1)))), true),
		mk("duplicate-name-last-wins", resp(fld(1, vBin("zzz")), fld(2, vI32(4)), fld(3, vI32List(1)), fld(1, vBin(name))), true),
		mk("duplicate-name-last-wrong", resp(fld(1, vBin(name)), fld(2, vI32(4)), fld(3, vI32List(1)), fld(1, vBin("zzz"))), false),
		mk("unknown-extra-fields", resp(fld(9, vBin("x")), fld(1, vBin(name)), fld(2, vI32(4)), fld(3, vI32List(1)), fld(4, vBin("v"))), true),
		mk("no-success-field", vStruct(), false),
		mk("success-wrong-type", vStruct(fld(0, vI32(1))), false),
		mk("success-twice-last-bad", vStruct(fld(0, vStruct(fld(1, vBin(name)), fld(2, vI32(4)), fld(3, vI32List(1)))), fld(0, vStruct())), false),
		{out: whole(frameOf(envStrict("Other:method", etReply, 77, hsResult(name, 4, []int32{1})))), good: true, kind: "reply-other-name-and-seqid"},
		{out: whole(frameOf(envLegacy(mHandshake, etReply, 1, hsResult(name, 4, []int32{1})))), good: true, kind: "legacy-envelope-reply"},
	}
}

func genVariants() []stepSpec {
	mk := func(kind string, body *wv.V, ok bool) stepSpec {
		return stepSpec{out: whole(frameOf(envStrict(mGenerate, etReply, 1, body))), good: ok, kind: kind}
	}
	badMap := &wv.V{T: wv.TMap, KT: wv.TBinary, ET: wv.TI32, Items: []*wv.V{vBin("k.go"), vI32(1)}}
	dupMap := vFilesMap([]kv{{"d.go", "first"}, {"e.go", "x"}, {"d.go", "second"}})
	return []stepSpec{
		mk("no-files", genResult(nil, true), true),
		mk("nil-files", genResult(nil, false), true),
		mk("three-files", genResult([]kv{{"a/b.go", "1"}, {"c.go", "2"}, {"deep/er/d.go", ""}}, true), true),
		mk("dotdot-path", genResult([]kv{{"ok.go", "1"}, {"../evil.go", "2"}}, true), false),
		mk("dotdot-inside-name", genResult([]kv{{"a..b/x.go", "1"}}, true), false),
		mk("absolute-path", genResult([]kv{{"/abs/x.go", "1"}}, true), true),
		mk("map-wrong-value-type", vStruct(fld(0, vStruct(fld(1, badMap)))), true),
		mk("duplicate-key-last-wins", vStruct(fld(0, vStruct(fld(1, dupMap)))), true),
		mk("files-field-twice", vStruct(fld(0, vStruct(fld(1, vFilesMap([]kv{{"one.go", "1"}})), fld(1, vFilesMap([]kv{{"two.go", "2"}}))))), true),
		mk("no-success", vStruct(), false),
		mk("success-not-struct", vStruct(fld(0, vBin("x"))), false),
	}
}

var viewRe = regexp.MustCompile(`^start(\.handshake(\.generate)*(\.goodbye)?)?(\.eof)?\.exit$`)

// c16Check runs the scenarios (in parallel), compares with the model and applies the oracles.
func c16Check(c *checker, scs []scenario, how string) {
	results := make([]runResult, len(scs))
	var wg sync.WaitGroup
	sem := make(chan struct{}, 8)
	for i := range scs {
		wg.Add(1)
		sem <- struct{}{}
		go func(i int) {
			defer wg.Done()
			defer func() { <-sem }()
			results[i] = runScenario(scs[i], caseCounter.next())
		}(i)
	}
	wg.Wait()
	hsWant := "ok " + hx(frameOf(envStrict(mHandshake, etCall, 1, vStruct(fld(1, vStruct())))))
	byeWant := "ok " + hx(frameOf(envStrict(mGoodbye, etCall, 1, vStruct())))
	_ = hsWant
	_ = byeWant
	for i, sc := range scs {
		res := results[i]
		op := sc.opLine(false)
		ans := res.answer(sc)
		nontrivial := false
		for _, p := range sc.plugins {
			for _, st := range []stepSpec{p.hs, p.gen, p.bye} {
				if st.kind != "ok" {
					nontrivial = true
				}
				c.rep.Hist("step-fault", strings.SplitN(st.kind, "@", 2)[0])
			}
			if p.exitAtStart || p.exitCode != 0 {
				nontrivial = true
			}
		}
		c.rep.Hist("how", how)
		c.rep.Hist("plugins", strconv.Itoa(len(sc.plugins)))
		c.rep.Hist("verdict", strings.Fields(ans)[1])
		c.rep.Case(op, nontrivial || len(sc.plugins) > 1)
		if i < 2 {
			c.rep.Sample(sc.label + ": " + op + " => " + ans)
		}
		if sc.sameNames() {
			c.expectCanon("C16 thriftrw+fake plugins vs host automaton ("+sc.label+")", op, ans, sc.orNamed)
			c.rep.Hist("same-name plugins", "yes")
		} else {
			c.expect("C16 thriftrw+fake plugins vs host automaton ("+sc.label+")", op, ans)
		}

		// ---- implementation-side oracles (no model) ----
		fail := func(kind, why string) {
			c.oracle("C16 "+kind, op, ans, sc.label+": "+why+" | stderr: "+firstLine(res.stderr))
		}
		if res.exit == -1 {
			fail("host crashed", "thriftrw did not exit normally")
		}
		if res.timedOut != sc.hang {
			fail("host blocked", fmt.Sprintf("timed out=%v, expected=%v", res.timedOut, sc.hang))
		}
		if len(res.survivors) > 0 {
			fail("surviving child process", fmt.Sprint("plugin processes still running after the host exited: ", res.survivors))
		}
		for k, p := range sc.plugins {
			v := res.views[k]
			if res.timedOut {
				continue
			}
			if v == "" {
				fail("plugin not started", p.name+" was never started")
				continue
			}
			if !viewRe.MatchString(v) {
				fail("trace automaton", p.name+" saw "+v+", not start (handshake (generate)* goodbye)? eof? exit")
			}
			if !res.reaped[k] {
				fail("plugin not reaped", p.name+" had not finished when the host exited (no Wait): "+v)
			}
			accepted := p.hs.good && !p.exitAtStart
			if strings.Contains(v, "generate") && !(accepted && p.hsFeature) {
				fail("generate without valid handshake", p.name+" got a generate request although its handshake reply was "+p.hs.kind)
			}
			nbye := strings.Count(v, "goodbye")
			aliveForBye := !p.exitAtStart && !p.hs.exits && !(p.gen.exits && strings.Contains(v, "generate"))
			if !accepted && nbye != 0 {
				fail("goodbye after failed handshake", p.name+" got goodbye although its handshake reply was "+p.hs.kind)
			}
			if accepted && aliveForBye && nbye != 1 {
				fail("goodbye count", fmt.Sprintf("%s got %d goodbye requests after a successful handshake", p.name, nbye))
			}
			if aliveForBye && !p.bye.exits && !strings.Contains(v, "eof") {
				fail("pipes not closed", p.name+" never saw EOF on its stdin: "+v)
			}
			for _, rq := range res.reqs[k] {
				f := strings.Fields(rq)
				if f[0] == "hs" {
					c.expect("C16 handshake request bytes", "HR handshake", "ok "+hx(frameOf(unhx(f[1]))))
				} else if f[0] == "bye" {
					c.expect("C16 goodbye request bytes", "HR goodbye", "ok "+hx(frameOf(unhx(f[1]))))
				}
			}
		}
		c16ExitOracle(c, sc, res, op, ans)
		if len(c.pend) > 4000 {
			c.flush()
		}
	}
}

func firstLine(s string) string {
	s = strings.TrimSpace(s)
	if len(s) > 300 {
		s = s[:300]
	}
	return strings.ReplaceAll(s, "\n", " / ")
}

// c16ExitOracle: "exits with failure naming the plugin iff some plugin failed", evaluated
// from what the generator knows about the scripts (only where that is unambiguous).
func c16ExitOracle(c *checker, sc scenario, res runResult, op, ans string) {
	if res.timedOut {
		return
	}
	allAccepted := true
	for _, p := range sc.plugins {
		if p.exitAtStart || !p.hs.good {
			allAccepted = false
		}
	}
	anyFault := !sc.coreOK
	faultyName := map[string]bool{}
	var clean []string
	for _, p := range sc.plugins {
		accepted := !p.exitAtStart && p.hs.good
		faulty := p.exitCode != 0 || !accepted
		named := !accepted || p.exitCode != 0
		if accepted {
			asked := allAccepted && sc.coreOK && p.hsFeature && !p.hs.exits
			if asked && !p.gen.good {
				faulty, named = true, true
			}
			if allAccepted && sc.coreOK && p.hsFeature && p.hs.exits {
				faulty, named = true, true // died before generate could be answered
			}
			// goodbye is sent to every accepted plugin
			byeFails := !p.bye.good || p.hs.exits || (asked && p.gen.exits)
			if byeFails {
				faulty, named = true, true // D41 (fixed): a goodbye failure names the plugin too
			}
		}
		if faulty {
			anyFault = true
			faultyName[p.name] = true
		} else {
			clean = append(clean, p.name)
		}
		if named && !named2(res.stderr, p.name) && res.exit != 0 {
			c.oracle("C16 failure does not name the plugin", op, ans, sc.label+": "+p.name+" failed (handshake/generate/goodbye/exit status) but the error output does not mention it: "+firstLine(res.stderr))
		}
	}
	for _, name := range clean {
		if !faultyName[name] && named2(res.stderr, name) && !conflictPossible(sc) {
			c.oracle("C16 error output names a plugin that did not fail", op, ans, sc.label+": "+name+" | "+firstLine(res.stderr))
		}
	}
	if !conflictPossible(sc) {
		if anyFault && res.exit == 0 {
			c.oracle("C16 exit status 0 although a plugin failed", op, ans, sc.label)
		}
		if !anyFault && res.exit != 0 {
			c.oracle("C16 failure exit although no plugin failed", op, ans, sc.label+": "+firstLine(res.stderr))
		}
	}
}

func named2(stderr, name string) bool { return named(stderr, name) }

func appendOnce(xs []string, s string) []string {
	for _, x := range xs {
		if x == s {
			return xs
		}
	}
	return append(xs, s)
}

// conflictPossible: two plugins (or a plugin and the core) may produce the same path; then
// which plugin is named depends on the completion order and is not compared.
func conflictPossible(sc scenario) bool {
	seen := map[string]bool{"root/root.go": true}
	for _, p := range sc.plugins {
		for _, f := range p.genFiles {
			if seen[f.k] {
				return true
			}
			seen[f.k] = true
		}
		if p.gen.kind != "ok" && p.gen.good {
			return true // variant replies with their own file lists
		}
	}
	return false
}

type counter struct {
	mu sync.Mutex
	n  int
}

func (c *counter) next() int {
	c.mu.Lock()
	defer c.mu.Unlock()
	c.n++
	return c.n
}

var caseCounter counter

func withStep(p pluginSpec, which string, st stepSpec) pluginSpec {
	switch which {
	case "hs":
		p.hs = st
		// a replaced handshake reply keeps the feature only if it says so: variants decide
	case "gen":
		p.gen = st
	case "bye":
		p.bye = st
	}
	return p
}

func runC16(c *checker, r *rng.R) {
	if *replay != "" {
		c16Replay(c, *replay)
		return
	}
	c16Corpus(c, *corpus)
	thorough := *tier == "thorough"
	var scs []scenario

	// 1. the conforming run, 1..3 plugins
	for n := 1; n <= 3; n++ {
		sc := scenario{label: fmt.Sprintf("conforming x%d", n), coreOK: true}
		for i := 0; i < n; i++ {
			sc.plugins = append(sc.plugins, conforming(pluginNames[i]))
		}
		scs = append(scs, sc)
	}
	c16Check(c, scs, "conforming")
	scs = nil

	// 2. one plugin, each step x each fault (truncation at every byte offset included)
	base := conforming("alpha")
	goodFrames := map[string][]byte{"hs": goodHs("alpha", true), "gen": goodGen(base.genFiles), "bye": goodBye()}
	methods := map[string]string{"hs": mHandshake, "gen": mGenerate, "bye": mGoodbye}
	for _, which := range []string{"hs", "gen", "bye"} {
		for _, f := range stepFaults(r, methods[which], goodFrames[which]) {
			p := withStep(base, which, f)
			scs = append(scs, scenario{label: which + ":" + f.kind, coreOK: true, plugins: []pluginSpec{p}})
		}
	}
	for _, v := range hsVariants("alpha") {
		p := withStep(base, "hs", v)
		p.hsFeature = v.good && (v.kind == "feature-twice-and-unknown" || v.kind == "duplicate-name-last-wins" || v.kind == "unknown-extra-fields" || v.kind == "reply-other-name-and-seqid" || v.kind == "legacy-envelope-reply")
		scs = append(scs, scenario{label: "hs:" + v.kind, coreOK: true, plugins: []pluginSpec{p}})
	}
	for _, v := range genVariants() {
		p := withStep(base, "gen", v)
		p.genFiles = nil
		scs = append(scs, scenario{label: "gen:" + v.kind, coreOK: true, plugins: []pluginSpec{p}})
	}
	// exit before reading anything / non-zero exit status / core generator fails
	p := base
	p.exitAtStart = true
	scs = append(scs, scenario{label: "exit-at-start", coreOK: true, plugins: []pluginSpec{p}})
	for _, code := range []int{1, 3, 255} {
		p = base
		p.exitCode = code
		scs = append(scs, scenario{label: fmt.Sprintf("exit-status-%d", code), coreOK: true, plugins: []pluginSpec{p}})
	}
	scs = append(scs, scenario{label: "core-generation-fails", coreOK: false, plugins: []pluginSpec{base}})
	// stale extra frame: the reply to handshake is followed by a second frame
	p = base
	p.hs = stepSpec{out: whole(append(goodHs("alpha", true), goodGen([]kv{{"stale.go", "s"}})...)), good: true, kind: "extra-frame-after-reply"}
	p.genFiles = nil
	p.gen.kind = "stale"
	scs = append(scs, scenario{label: "hs:extra-frame", coreOK: true, plugins: []pluginSpec{p}})
	c16Check(c, scs, "single-plugin-fault")
	scs = nil

	// 3. several plugins with independent random scripts
	nMulti := 1500
	if thorough {
		nMulti = 6000
	}
	for i := 0; i < nMulti; i++ {
		n := 2 + r.Intn(2)
		sc := scenario{label: fmt.Sprintf("multi-%d", i), coreOK: !r.Chance(1, 8)}
		var kinds []string
		for k := 0; k < n; k++ {
			name := pluginNames[k]
			p := conforming(name)
			if r.Chance(1, 6) {
				p.hsFeature = false
				p.hs = stepSpec{out: whole(goodHs(name, false)), good: true, kind: "no-features"}
			}
			if r.Chance(3, 5) { // one fault somewhere
				which := []string{"hs", "gen", "bye"}[r.Intn(3)]
				good := map[string][]byte{"hs": goodHs(name, p.hsFeature), "gen": goodGen(p.genFiles), "bye": goodBye()}[which]
				var f stepSpec
				switch {
				case which == "hs" && r.Chance(1, 3):
					vs := hsVariants(name)
					f = vs[r.Intn(len(vs))]
					if f.good {
						p.hsFeature = f.kind == "feature-twice-and-unknown" || f.kind == "duplicate-name-last-wins" || f.kind == "unknown-extra-fields" || f.kind == "reply-other-name-and-seqid" || f.kind == "legacy-envelope-reply"
					}
				default:
					fs := stepFaults(r, methods[which], good)
					f = fs[r.Intn(len(fs))]
				}
				p = withStep(p, which, f)
				kinds = append(kinds, name+"."+which+":"+f.kind)
			}
			if r.Chance(1, 12) {
				p.exitCode = 1 + r.Intn(3)
				kinds = append(kinds, name+".exit-status")
			}
			if r.Chance(1, 25) {
				p.exitAtStart = true
				kinds = append(kinds, name+".exit-at-start")
			}
			sc.plugins = append(sc.plugins, p)
		}
		sc.label += " " + strings.Join(kinds, ",")
		scs = append(scs, sc)
	}
	c16Check(c, scs, "multi-plugin-random")
	scs = nil

	// 3b. the same plugin given more than once (-p "alpha --inst=0" -p "alpha --inst=2"): separate
	// processes, each owed the whole conversation
	nSame := 150
	if thorough {
		nSame = 900
	}
	patterns := [][]string{{"alpha", "alpha"}, {"alpha", "alpha", "beta"}, {"alpha", "beta", "alpha"}, {"beta", "alpha", "alpha"}, {"alpha", "alpha", "alpha"}}
	for i := 0; i < nSame; i++ {
		pat := patterns[i%len(patterns)]
		sc := scenario{label: fmt.Sprintf("same-name-%d", i), coreOK: i < len(patterns) || !r.Chance(1, 10)}
		var kinds []string
		for k, name := range pat {
			p := conforming(name)
			p.genFiles = []kv{{fmt.Sprintf("%s/extra%d.go", name, k), "// " + name}}
			p.gen = okStep(goodGen(p.genFiles))
			if i >= len(patterns) && r.Chance(1, 3) { // the first rounds are all-conforming
				which := []string{"hs", "gen", "bye"}[r.Intn(3)]
				good := map[string][]byte{"hs": goodHs(name, true), "gen": goodGen(p.genFiles), "bye": goodBye()}[which]
				fs := stepFaults(r, methods[which], good)
				f := fs[r.Intn(len(fs))]
				p = withStep(p, which, f)
				kinds = append(kinds, fmt.Sprintf("%s#%d.%s:%s", name, k, which, f.kind))
			}
			sc.plugins = append(sc.plugins, p)
		}
		sc.label += " " + strings.Join(kinds, ",")
		scs = append(scs, sc)
	}
	c16Check(c, scs, "same-name-plugins")
	scs = nil

	// 4. a plugin that stays alive without completing its reply blocks the host (outside the
	// property's fault list; confirms the model's `hang` outcome)
	for _, which := range []string{"hs", "gen", "bye"} {
		good := goodFrames[which]
		p := withStep(base, which, stepSpec{out: whole(good[:len(good)/2]), kind: "alive-incomplete"})
		q := conforming("beta")
		scs = append(scs, scenario{label: which + ":alive-incomplete", coreOK: true, hang: true, plugins: []pluginSpec{p, q}})
	}
	c16Check(c, scs, "blocking-plugin")
	c.flush()

	c16CompileFails(c)
	c16PluginMain(c, r)
	c16Frames(c, r)
	c.flush()
	c.rep.Rule = "scenarios = the real thriftrw binary + 1..3 fake plugins, each with a script (bytes written per request in given write calls, exit points, exit status): conforming; one plugin x {handshake, generate, goodbye} x {ok in 1-byte/random writes, exception envelope, garbage frame, empty frame, wrong envelope type, exit before/after reading, oversized prefixes, truncation at EVERY byte offset, handshake/generate field variants}; 2..3 plugins with independent random faults; 2..3 plugins of which two or three are given under the SAME name (separate processes); blocking plugins; a Thrift file that does not compile (whatever was started by then is owed the whole conversation); + plugin.Main over in-memory pipes under random segmentations; + frame Reader/Writer under random segmentations and a lowered fast-path threshold. Compared: per-plugin event log, exit status, written files, plugins named on stderr, request bytes. non-trivial = some fault or >1 plugin; distinct by script"
	c.rep.Notes = append(c.rep.Notes,
		"proved: host automaton properties over arbitrary plugin byte streams; observed only: os/exec, pipes, process reaping (log must end in `exit` when the host exits; no surviving pids), goroutine scheduling of concurrent.Range")
}
