package main

// C17: output confinement, conflict detection, all-or-nothing. The real thriftrw binary
// in a sandbox directory whose whole tree is hashed before and after; scripted plugins
// returning awkward paths; programs whose k-th module fails to generate; thrift-root /
// out-dir layouts. Compared with the Lean generate plan; path functions vs path/filepath.

import (
	"context"
	"encoding/json"
	"fmt"
	"os"
	"os/exec"
	"path/filepath"
	"sort"
	"strconv"
	"strings"
	"sync"
	"syscall"
	"time"

	"verifharness/internal/report"
	"verifharness/internal/rng"
)

// c17Scenario is replayable: it is stored (as one JSON line) as the failing input.
type c17Scenario struct {
	Label      string            `json:"label"`
	Files      map[string]string `json:"files"`      // sandbox-relative path -> content (thrift sources, pre-existing files)
	Main       string            `json:"main"`       // sandbox-relative path of the Thrift file given on the command line
	Cwd        string            `json:"cwd"`        // sandbox-relative working directory
	ThriftRoot string            `json:"thriftRoot"` // "" = not given; as given on the command line ({S} = sandbox)
	Out        string            `json:"out"`        // as given on the command line ({S} = sandbox)
	Modules    []c17Module       `json:"modules"`    // in some walk order, root first
	Plugins    []c17Plugin       `json:"plugins"`
	Clash      string            `json:"clash,omitempty"`      // which deliberate path clash the generator put in (histogram only)
	OutputFile string            `json:"outputFile,omitempty"` // --output-file (only the main module is generated: model cliPlanOutputFile)
	GoPath     bool              `json:"goPath,omitempty"`     // no --pkg-prefix: the prefix is derived from $GOPATH = {S}/gopath (Out lies below its src/)
}

type c17Module struct {
	Path  string `json:"path"` // sandbox-relative
	Fails bool   `json:"fails"`
}

type c17Plugin struct {
	Name  string `json:"name"`
	Inst  string `json:"inst,omitempty"` // several plugins may share a name: -p "<name> --inst=<inst>"
	Fail  bool   `json:"fail"`  // answers generate with an exception
	Files []kv2  `json:"files"` // otherwise these
}

type kv2 struct {
	K string `json:"k"`
	V string `json:"v"`
}

func (p c17Plugin) key() string {
	if p.Inst != "" {
		return p.Name + "@" + p.Inst
	}
	return p.Name
}

func (s c17Scenario) line() string {
	b, _ := json.Marshal(s)
	return "C17SCN " + string(b)
}

func (s c17Scenario) op(sandbox string) string {
	sub := func(p string) string { return strings.ReplaceAll(p, "{S}", sandbox) }
	var sb strings.Builder
	root := "!"
	if s.ThriftRoot != "" {
		root = hxs(sub(s.ThriftRoot))
	}
	if s.OutputFile != "" {
		fmt.Fprintf(&sb, "GO %s %s %s %s %d", hxs(filepath.Join(sandbox, s.Cwd)), root, hxs(sub(s.Out)), hxs(s.OutputFile), len(s.Modules))
	} else {
		fmt.Fprintf(&sb, "GC %s %s %s %d", hxs(filepath.Join(sandbox, s.Cwd)), root, hxs(sub(s.Out)), len(s.Modules))
	}
	for _, m := range s.Modules {
		c := hxs("core")
		if m.Fails {
			c = "!"
		}
		fmt.Fprintf(&sb, " %s %s", hxs(filepath.Join(sandbox, m.Path)), c)
	}
	fmt.Fprintf(&sb, " %d", len(s.Plugins))
	for _, p := range s.Plugins {
		if p.Fail {
			sb.WriteString(" !")
			continue
		}
		fmt.Fprintf(&sb, " %d", len(p.Files))
		for _, f := range p.Files {
			fmt.Fprintf(&sb, " %s %s", hxs(f.K), hxs(f.V))
		}
	}
	sb.WriteString(" " + orderText(len(s.Plugins)))
	return sb.String()
}

type c17Result struct {
	exit    int
	stderr  string
	diff    []string // sandbox-relative changes (+ added, ~ changed, - removed)
	written []string // "<abs path hex>=<content hex>" for files created or changed
	started map[string]bool
}

func runC17Scenario(s c17Scenario, idx int) (c17Result, string) {
	sandbox := filepath.Join(work(), "c17", fmt.Sprintf("s%d", idx))
	sub := func(p string) string { return strings.ReplaceAll(p, "{S}", sandbox) }
	scripts := filepath.Join(work(), "c17", fmt.Sprintf("scripts%d", idx))
	os.MkdirAll(scripts, 0o755)
	os.MkdirAll(filepath.Join(sandbox, s.Cwd), 0o755)
	for p, c := range s.Files {
		full := filepath.Join(sandbox, p)
		os.MkdirAll(filepath.Dir(full), 0o755)
		os.WriteFile(full, []byte(c), 0o644)
	}
	args := []string{"--out", sub(s.Out), "--pkg-prefix", "x"}
	if s.GoPath {
		args = args[:2]
	}
	if s.ThriftRoot != "" {
		args = append(args, "--thrift-root", sub(s.ThriftRoot))
	}
	for _, p := range s.Plugins {
		var gen fakeStep
		if p.Fail {
			gen = fakeStep{out: whole(frameOf(envStrict(mGenerate, etException, 1, excBody("scripted", 6))))}
		} else {
			var files []kv
			for _, f := range p.Files {
				files = append(files, kv{f.K, f.V})
			}
			gen = fakeStep{out: whole(goodGen(files))}
		}
		fs := fakeScript{steps: map[string]fakeStep{"hs": {out: whole(goodHs(p.Name, true))}, "gen": gen, "bye": {out: whole(goodBye())}}}
		os.WriteFile(filepath.Join(scripts, p.key()+".script"), []byte(fs.text()), 0o644)
		if p.Inst != "" {
			args = append(args, "-p", p.Name+" --inst="+p.Inst)
		} else {
			args = append(args, "-p", p.Name)
		}
	}
	if s.OutputFile != "" {
		args = append(args, "--output-file", s.OutputFile)
	}
	args = append(args, filepath.Join(sandbox, s.Main))
	before := snapshot(sandbox)
	ctx, cancel := context.WithTimeout(context.Background(), 30*time.Second)
	defer cancel()
	cmd := exec.CommandContext(ctx, thriftrw(), args...)
	cmd.Dir = filepath.Join(sandbox, s.Cwd)
	cmd.Env = append(os.Environ(), "PATH="+fakeBinDir()+":"+os.Getenv("PATH"), "VERIF_FAKE_DIR="+scripts, "GOPATH="+filepath.Join(sandbox, "gopath"))
	cmd.SysProcAttr = &syscall.SysProcAttr{Setpgid: true}
	errPath := filepath.Join(scripts, "stderr.txt")
	errFile, _ := os.Create(errPath)
	cmd.Stderr = errFile
	cmd.Stdout = errFile
	var res c17Result
	err := cmd.Run()
	errFile.Close()
	if ee, ok := err.(*exec.ExitError); ok {
		res.exit = ee.ExitCode()
	} else if err != nil {
		res.exit = -1
	}
	if cmd.Process != nil {
		syscall.Kill(-cmd.Process.Pid, syscall.SIGKILL)
	}
	if b, err := os.ReadFile(errPath); err == nil {
		res.stderr = string(b)
	}
	after := snapshot(sandbox)
	res.diff = diffSnap(before, after)
	for _, d := range res.diff {
		if (d[0] == '+' || d[0] == '~') && after[d[1:]] != "d" {
			b, _ := os.ReadFile(filepath.Join(sandbox, d[1:]))
			content := hx(b)
			if strings.HasPrefix(string(b), "// Code generated by thriftrw") {
				content = hxs("core")
			}
			res.written = append(res.written, hxs(filepath.Join(sandbox, d[1:]))+"="+content)
		}
	}
	sort.Strings(res.written)
	res.started = map[string]bool{}
	for _, p := range s.Plugins {
		if _, err := os.Stat(filepath.Join(scripts, p.key()+".log")); err == nil {
			res.started[p.key()] = true
		}
	}
	os.RemoveAll(sandbox)
	os.RemoveAll(scripts)
	return res, sandbox
}

const (
	okModule   = "struct T%d { 1: optional string a }\n"
	failModule = "struct T%d { 1: optional string foo_bar; 2: optional string fooBar }\n"
)

// program lays out n modules: the main file includes all others.
func program(dirs []string, names []string, failing map[int]bool, service bool) (map[string]string, []c17Module) {
	files := map[string]string{}
	var mods []c17Module
	mainPath := filepath.Join(dirs[0], names[0]+".thrift")
	var mainSrc strings.Builder
	for i := 1; i < len(names); i++ {
		p := filepath.Join(dirs[i], names[i]+".thrift")
		rel, _ := filepath.Rel(filepath.Dir(mainPath), p)
		if !strings.HasPrefix(rel, ".") {
			rel = "./" + rel
		}
		fmt.Fprintf(&mainSrc, "include \"%s\"\n", rel)
	}
	for i := range names {
		p := filepath.Join(dirs[i], names[i]+".thrift")
		tmpl := okModule
		if failing[i] {
			tmpl = failModule
		}
		src := fmt.Sprintf(tmpl, i)
		if i == 0 {
			src = mainSrc.String() + src
			if service {
				src += "service Svc { void f() }\n"
			}
		}
		files[p] = src
		mods = append(mods, c17Module{Path: p, Fails: failing[i]})
	}
	return files, mods
}

var pathShapes = []string{
	"p.go", "a/b.go", "deep/er/still/x.go", "/abs/x.go", "/x.go", "//dbl//x.go", "a//b//c.go", "./dot.go", "a/./b.go",
	"./a/./b/./c.go", "trail/x.go/", "sp ace/x.go", "a.b/c.d.go", "...", ".../x", ".hidden", "-dash", "root/other.go", "root.go",
}

var dotdotShapes = []string{"../x.go", "a/../../x.go", "..", "a/..", "a..b/x.go", "x..", "..x", "/../x", "a/b/../../../x"}

// paths that denote the output directory itself (D33, fixed: refused before anything is written)
var outDirShapes = []string{"", ".", "./", "/", "//", "./.", ".//./"}

func cleanRel(p string) string { return filepath.Join("/", p) }

// clashes: a is the output directory itself, or a and b (cleaned, as written below the output
// directory) are in a file-vs-directory clash.
func dirPrefix(a, b string) bool { return strings.HasPrefix(b, a+"/") }

func clashes(a, b string) bool {
	ca, cb := cleanRel(a), cleanRel(b)
	return ca != "/" && cb != "/" && (dirPrefix(ca, cb) || dirPrefix(cb, ca))
}

// usable: the cleaned target is not the output directory itself and not in a file-vs-directory
// clash with another output. Ordinary picks stay clear of such clashes so that most scenarios
// get as far as writing; the clashes themselves (D33, fixed: refused before the first write)
// are put in deliberately by the generator. Equal cleaned paths are allowed: a reported conflict.
func usable(p string, taken map[string]bool) bool {
	c := cleanRel(p)
	if c == "/" {
		return false
	}
	for t := range taken {
		if strings.HasPrefix(t, c+"/") || strings.HasPrefix(c, t+"/") {
			return false
		}
	}
	return true
}

func c17Generate(r *rng.R, n int) []c17Scenario {
	var out []c17Scenario
	for i := 0; i < n; i++ {
		s := c17Scenario{Cwd: "work", Files: map[string]string{"sibling/keep.txt": "keep", "work/note.txt": "n"}}
		// layout
		nm := 1 + r.Intn(4)
		names := []string{"root", "inc1", "inc2", "inc3", "inc4"}[:nm]
		layout := r.Intn(5)
		dirs := make([]string, nm)
		for k := range dirs {
			switch layout {
			case 0: // flat
				dirs[k] = "proj"
			case 1: // main deeper than includes
				dirs[k] = "proj"
				if k == 0 {
					dirs[k] = "proj/a/b"
				}
			case 2: // everything in different subdirectories
				dirs[k] = "proj/" + string(rune('p'+k))
			case 3: // an include outside proj
				dirs[k] = "proj/a"
				if k == nm-1 && nm > 1 {
					dirs[k] = "other"
				}
			case 4: // deep common ancestor
				dirs[k] = "proj/x/y"
				if k%2 == 1 {
					dirs[k] = "proj/x/z/w"
				}
			}
		}
		failing := map[int]bool{}
		if r.Chance(1, 3) {
			failing[r.Intn(nm)] = true
			if r.Chance(1, 4) {
				failing[r.Intn(nm)] = true
			}
		}
		nplug := r.Pick(0, 1, 1, 2, 2, 3)
		files, mods := program(dirs, names, failing, true)
		for k, v := range files {
			s.Files[k] = v
		}
		s.Modules = mods
		s.Main = mods[0].Path
		// thrift root
		switch r.Intn(8) {
		case 0:
			s.ThriftRoot = "{S}/proj"
		case 1:
			s.ThriftRoot = "{S}" // nested: the grandparent
		case 2:
			s.ThriftRoot = "{S}/" + dirs[0] // the main file's own directory: includes elsewhere are outside
		case 3:
			s.ThriftRoot = "{S}/proj/../proj/"
		case 4:
			s.ThriftRoot = "../proj" // relative to cwd
		}
		// output directory
		switch r.Intn(7) {
		case 0:
			s.Out = "../out"
		case 1:
			s.Out = "{S}/proj/gen" // inside the source tree
		case 2:
			s.Out = "{S}/out/../out2//"
		case 3:
			s.Out = "o/u/t"
		default:
			s.Out = "{S}/out"
		}
		if r.Chance(1, 5) {
			// the package prefix comes from $GOPATH instead of --pkg-prefix
			s.GoPath = true
			s.Out = []string{"{S}/gopath/src/example.com/p/gen", "{S}/gopath/src/q", "../gopath/src/a/b/c/", "{S}/gopath/src/x/../y/gen"}[r.Intn(4)]
		}
		outRel := func() string {
			o := strings.ReplaceAll(s.Out, "{S}", "/S")
			if !filepath.IsAbs(o) {
				o = filepath.Join("/S", s.Cwd, o)
			}
			r, _ := filepath.Rel("/S", filepath.Clean(o))
			return r
		}()
		// pre-existing content of the output directory
		fresh := r.Chance(1, 3) // the output directory (and its parents) do not exist yet
		if !fresh {
			s.Files[filepath.Join(outRel, "existing.txt")] = "old"
		}
		stale := !fresh && r.Chance(1, 2)
		if stale {
			s.Files[filepath.Join(outRel, "root", "root.go")] = "// stale"
		}
		// what the output directory already holds must not be in the way of an ACCEPTED plan (that
		// would be an OS-level failure of the write loop, outside C17): a deliberate clash with a
		// position where a core file only MAY be must not touch the stale root/root.go.
		blocked := func(p string) bool {
			c := cleanRel(p)
			return stale && (c == "/root" || c == "/root/root.go" || strings.HasPrefix(c, "/root/root.go/"))
		}
		// plugins and their paths
		taken := map[string]bool{}
		var corePos []string // every position a core file could take under any root
		for _, m := range mods {
			// conservatively reserve every position a core file could take under any root
			b := strings.TrimSuffix(filepath.Base(m.Path), ".thrift")
			for _, pre := range []string{"", "proj", "a", "a/b", "proj/a", "proj/a/b", "x/y", "x/z/w", "proj/x/y", "proj/x/z/w", "other", "p", "q", "r", "s", "t",
				"proj/p", "proj/q", "proj/r", "proj/s", "proj/t", "y", "z/w", "b"} {
				taken[cleanRel(filepath.Join(pre, b, b+".go"))] = true
				corePos = append(corePos, filepath.Join(pre, b, b+".go"))
			}
		}
		var raw []string
		for k := 0; k < nplug; k++ {
			p := c17Plugin{Name: pluginNames[k]}
			twin := k > 0 && r.Chance(1, 5) // the same plugin given twice with different arguments
			if twin {
				p.Name, p.Inst = pluginNames[0], fmt.Sprint(k)
			}
			if r.Chance(1, 10) {
				p.Fail = true
			} else {
				if twin && len(raw) > 0 && r.Chance(2, 3) {
					path := raw[r.Intn(len(raw))]
					p.Files = append(p.Files, kv2{path, fmt.Sprintf("%s#%d", p.key(), len(p.Files))})
					raw = append(raw, path)
				}
				for f := r.Intn(4); f > 0; f-- {
					var path string
					deliberate := false // a path that is meant to clash: exempt from the usable() filter
					switch {
					case r.Chance(1, 9):
						path = dotdotShapes[r.Intn(len(dotdotShapes))]
					case r.Chance(1, 16):
						// the output directory itself
						path = outDirShapes[r.Intn(len(outDirShapes))]
						deliberate = true
						s.Clash = "output directory itself"
					case r.Chance(1, 9) && len(raw) > 0:
						// file-vs-directory with a path of another plugin (or of this one): a file below
						// it, or one of its directories as a file
						other := raw[r.Intn(len(raw))]
						if strings.Contains(other, "..") || cleanRel(other) == "/" {
							continue
						}
						if r.Chance(1, 2) {
							path = other + "/" + pathShapes[r.Intn(3)]
						} else {
							d := filepath.Dir(cleanRel(other))
							if d == "/" {
								continue // a top-level file has no directory to clash with
							}
							if r.Chance(1, 2) && filepath.Dir(d) != "/" {
								d = filepath.Dir(d)
							}
							path = []string{"", "./", "/"}[r.Intn(3)] + d[1:]
						}
						deliberate = true
						s.Clash = "file-vs-directory between plugin paths"
						// a third path that sorts BETWEEN the clashing file and what lies below it (the byte
						// after the common name is below '/'): the clash is then not between neighbours
						if r.Chance(1, 2) {
							fileSide := other
							if !strings.HasPrefix(cleanRel(path), cleanRel(other)+"/") {
								fileSide = path
							}
							if fs := strings.TrimRight(fileSide, "/"); fs != "" && !strings.Contains(fs, "..") {
								inter := fs + []string{".txt", "-x", "+y", "!z", ",w", ".go"}[r.Intn(6)]
								if !taken[cleanRel(inter)] {
									p.Files = append(p.Files, kv2{inter, fmt.Sprintf("%s#%d", p.key(), len(p.Files))})
									raw = append(raw, inter)
									taken[cleanRel(inter)] = true
									s.Clash = "file-vs-directory between plugin paths, not neighbours in sorted order"
								}
							}
						}
					case r.Chance(1, 9):
						// file-vs-directory with a core file, if there is one at that position: a file
						// below it, or one of its directories as a file
						pos := corePos[r.Intn(len(corePos))]
						if r.Chance(1, 2) {
							path = pos + "/x.go"
						} else {
							path = filepath.Dir(pos)
							if r.Chance(1, 3) && filepath.Dir(path) != "." {
								path = filepath.Dir(path)
							}
						}
						if blocked(path) {
							continue
						}
						deliberate = true
						if s.Clash == "" {
							s.Clash = "file-vs-directory with a possible core path"
						}
					case r.Chance(1, 10) && len(raw) > 0:
						path = raw[r.Intn(len(raw))] // equal to another (or the same) plugin's path
					case r.Chance(1, 12):
						path = "root/root.go" // possibly equal to a core path
					default:
						path = pathShapes[r.Intn(len(pathShapes))]
						if r.Chance(1, 2) {
							path = p.Name + "/" + path
						}
					}
					dup := false
					for _, f0 := range p.Files {
						if f0.K == path {
							dup = true
						}
					}
					rawEqual := false
					for _, x := range raw {
						if x == path {
							rawEqual = true
						}
					}
					isDotDot := strings.Contains(path, "..")
					if dup || (!deliberate && !rawEqual && !isDotDot && path != "root/root.go" && !usable(path, taken)) {
						continue
					}
					p.Files = append(p.Files, kv2{path, fmt.Sprintf("%s#%d", p.key(), len(p.Files))})
					raw = append(raw, path)
					if !isDotDot {
						taken[cleanRel(path)] = true
					}
				}
			}
			s.Plugins = append(s.Plugins, p)
		}
		if r.Chance(1, 8) {
			s.OutputFile = outputFileShapes[r.Intn(len(outputFileShapes))]
		}
		s.Label = fmt.Sprintf("layout%d mods=%d fail=%d root=%q out=%q plugins=%d output-file=%q gopath=%v fresh-out=%v", layout, nm, len(failing), s.ThriftRoot, s.Out, nplug, s.OutputFile, s.GoPath, fresh)
		out = append(out, s)
	}
	return out
}

// --output-file values: main.go only checks the extension; the file must still land below the output directory.
var outputFileShapes = []string{"all.go", "./x.go", "sub/dir/x.go", "../x.go", "../../x.go", "../../../../x.go", "a/../../../x.go", "a/b/../../../../x.go"}

func c17Check(c *checker, scs []c17Scenario, how string) {
	type rr struct {
		res     c17Result
		sandbox string
	}
	results := make([]rr, len(scs))
	var wg sync.WaitGroup
	sem := make(chan struct{}, 8)
	for i := range scs {
		wg.Add(1)
		sem <- struct{}{}
		go func(i int) {
			defer wg.Done()
			defer func() { <-sem }()
			res, sb := runC17Scenario(scs[i], caseCounter.next())
			results[i] = rr{res, sb}
		}(i)
	}
	wg.Wait()
	var ops []string
	for i, s := range scs {
		ops = append(ops, s.op(results[i].sandbox))
	}
	answers := ask(ops)
	for i, s := range scs {
		res, sandbox := results[i].res, results[i].sandbox
		impl := "err"
		if res.exit == 0 {
			impl = "ok " + filesText(res.written)
		}
		model := answers[i]
		input := s.line()
		c.rep.Hist("how", how)
		c.rep.Hist("outcome", strings.Fields(impl)[0])
		c.rep.Hist("modules", strconv.Itoa(len(s.Modules)))
		c.rep.Hist("plugins", strconv.Itoa(len(s.Plugins)))
		for _, p := range s.Plugins {
			for _, f := range p.Files {
				c.rep.Hist("plugin-path-shape", shapeOf(f.K))
			}
		}
		if s.Clash != "" {
			c.rep.Hist("deliberate-clash", s.Clash)
		}
		c.rep.Case(input, len(s.Plugins) > 0 || len(s.Modules) > 1 || s.ThriftRoot != "")
		if i < 2 {
			c.rep.Sample(s.Label + ": " + ops[i] + " => " + impl)
		}
		outAbs := strings.ReplaceAll(s.Out, "{S}", sandbox)
		if !filepath.IsAbs(outAbs) {
			outAbs = filepath.Join(sandbox, s.Cwd, outAbs)
		}
		outRel, _ := filepath.Rel(sandbox, filepath.Clean(outAbs))

		if s.OutputFile != "" {
			c.rep.Hist("output-file-shape", s.OutputFile)
		}
		c.rep.Hist("package-prefix-from", map[bool]string{true: "$GOPATH", false: "--pkg-prefix"}[s.GoPath])
		if _, had := s.Files[filepath.Join(outRel, "existing.txt")]; !had {
			c.rep.Hist("output-directory", "does not exist before the run")
		} else {
			c.rep.Hist("output-directory", "exists with content")
		}
		if impl != model {
			c.rep.Disagree(report.Disagreement{Kind: "C17 thriftrw vs generate plan (" + how + ")", Input: input, Impl: impl + " | stderr: " + firstLine(res.stderr), Model: model})
		}
		// ---- implementation-side oracles ----
		if res.exit == -1 {
			c.oracle("C17 host crashed", input, impl, firstLine(res.stderr))
		}
		for _, d := range res.diff {
			// (a directory above an output directory that did not exist yet is created with it)
			if !within(outRel, d[1:]) && !(d[0] == '+' && strings.HasPrefix(outRel, d[1:]+"/")) {
				c.oracle("C17 write outside the output directory", input, impl, "changed "+d+" (output directory "+outRel+")")
			}
			if d[0] == '-' {
				c.oracle("C17 file removed", input, impl, d)
			}
		}
		if res.exit != 0 && len(res.diff) > 0 {
			c.oracle("C17 failed run modified the file system", input, impl, "exit "+strconv.Itoa(res.exit)+" but "+strings.Join(res.diff, " ")+" | "+firstLine(res.stderr))
		}
		// conflicts: the same raw path from two sources must be an error
		seen := map[string]bool{}
		conflict := false
		for _, p := range s.Plugins {
			if p.Fail {
				continue
			}
			for _, f := range p.Files {
				k := filepath.Join("/", f.K) // the form in which it is written below the output directory
				if seen[k] {
					conflict = true
				}
				seen[k] = true
			}
		}
		if conflict && res.exit == 0 {
			c.oracle("C17 conflict not reported", input, impl, "two plugin paths name the same file")
		}
		// a path that is the output directory itself, or two paths in a file-vs-directory clash,
		// cannot all be written: must be an error (and, as every error, without any write — the
		// oracle above; that is what finding D33 violated)
		var pluginPaths []string
		for _, p := range s.Plugins {
			if p.Fail {
				continue
			}
			for _, f := range p.Files {
				pluginPaths = append(pluginPaths, f.K)
			}
		}
		for a, pa := range pluginPaths {
			if cleanRel(pa) == "/" {
				c.rep.Hist("path-clash", "output directory itself")
				if res.exit == 0 {
					c.oracle("C17 path that is the output directory not reported", input, impl, strconv.Quote(pa))
				}
			}
			for _, pb := range pluginPaths[a+1:] {
				if clashes(pa, pb) {
					c.rep.Hist("path-clash", "file-vs-directory between plugin paths")
					if res.exit == 0 {
						c.oracle("C17 file-vs-directory clash not reported", input, impl, strconv.Quote(pa)+" vs "+strconv.Quote(pb))
					}
				}
			}
		}
		if res.exit == 0 {
			// … and between everything that was written (core files included): physically impossible,
			// so a failure here means the snapshot or the sandbox is broken
			var ws []string
			for _, w := range res.written {
				ws = append(ws, strings.SplitN(w, "=", 2)[0])
			}
			for a := range ws {
				for _, wb := range ws[a+1:] {
					if dirPrefix(ws[a], wb) || dirPrefix(wb, ws[a]) {
						c.oracle("C17 written paths clash file-vs-directory", input, impl, ws[a]+" "+wb)
					}
				}
			}
		}
		anyFail := false
		for k, m := range s.Modules {
			anyFail = anyFail || (m.Fails && (k == 0 || s.OutputFile == ""))
		}
		for _, p := range s.Plugins {
			anyFail = anyFail || p.Fail
			for _, f := range p.Files {
				if strings.Contains(f.K, "..") {
					anyFail = true
				}
			}
		}
		if anyFail && res.exit == 0 {
			c.oracle("C17 success although a module or plugin failed", input, impl, "")
		}
	}
}

func within(dir, p string) bool {
	return p == dir || strings.HasPrefix(p, dir+"/") || dir == "."
}

func shapeOf(p string) string {
	switch {
	case strings.Contains(p, ".."):
		return "contains .."
	case cleanRel(p) == "/":
		return "output directory itself"
	case strings.HasPrefix(p, "/"):
		return "absolute"
	case strings.Contains(p, "//"):
		return "repeated separators"
	case strings.HasPrefix(p, "./") || strings.Contains(p, "/./"):
		return "dot component"
	case p == "root/root.go":
		return "core path"
	}
	return "relative"
}

// c17Regressions: the witnesses of the repaired findings D42, D34 and D33, as ordinary scenarios
// (each must fail with the sandbox untouched; anything else is a violation).
func c17Regressions() []c17Scenario {
	base := func(label string, plugins ...c17Plugin) c17Scenario {
		files, mods := program([]string{"proj"}, []string{"root"}, nil, true)
		files["sibling/keep.txt"] = "keep"
		files["out/existing.txt"] = "old"
		return c17Scenario{Label: label, Cwd: "work", Files: files, Main: mods[0].Path, Out: "{S}/out", Modules: mods, Plugins: plugins}
	}
	return []c17Scenario{
		base("regression D42: plugin ./root/root.go vs core root/root.go", c17Plugin{Name: "alpha", Files: []kv2{{"./root/root.go", "PLUGIN"}}}),
		base("regression D42: plugins x.go and ./x.go", c17Plugin{Name: "alpha", Files: []kv2{{"x.go", "AAA"}}}, c17Plugin{Name: "beta", Files: []kv2{{"./x.go", "BBB"}}}),
		base("two plugins, one path, the same bytes (still two sources for one file)", c17Plugin{Name: "alpha", Files: []kv2{{"shared/helper.go", "SAME"}}}, c17Plugin{Name: "beta", Files: []kv2{{"shared/helper.go", "SAME"}}}),
		base("two plugins, one file under two spellings, the same bytes", c17Plugin{Name: "alpha", Files: []kv2{{"shared/helper.go", "SAME"}}}, c17Plugin{Name: "beta", Files: []kv2{{"./shared//helper.go", "SAME"}}}),
		base("two plugins, one path, both empty", c17Plugin{Name: "alpha", Files: []kv2{{"empty.go", ""}}}, c17Plugin{Name: "beta", Files: []kv2{{"empty.go", ""}}}),
		base("regression D42: plugins a/b.go and /a//b.go", c17Plugin{Name: "alpha", Files: []kv2{{"a/b.go", "AAA"}}}, c17Plugin{Name: "beta", Files: []kv2{{"/a//b.go", "BBB"}}}),
		base("regression D42: one plugin returning x.go and ./x.go", c17Plugin{Name: "alpha", Files: []kv2{{"x.go", "AAA"}, {"./x.go", "BBB"}}}),
		{Label: "regression D34: thrift file named ...thrift directly in the inferred root", Cwd: "work", Main: "proj/...thrift", Out: "{S}/o/out",
			Files:   map[string]string{"proj/...thrift": "struct S { 1: optional string a }\n", "sibling/keep.txt": "keep"},
			Modules: []c17Module{{Path: "proj/...thrift"}}},
		base("regression D33: plugin path \".\"", c17Plugin{Name: "alpha", Files: []kv2{{".", "X"}}}),
		base("regression D33: plugin path \"\"", c17Plugin{Name: "alpha", Files: []kv2{{"", "X"}}}),
		base("regression D33: plugin path \"./\" beside an ordinary file", c17Plugin{Name: "alpha", Files: []kv2{{"ok.go", "O"}, {"./", "X"}}}),
		base("regression D33: plugin path \"/\" from the second plugin", c17Plugin{Name: "alpha", Files: []kv2{{"ok.go", "O"}}}, c17Plugin{Name: "beta", Files: []kv2{{"/", "X"}}}),
		base("regression D33: plugin file \"root\" vs core directory root/", c17Plugin{Name: "alpha", Files: []kv2{{"root", "X"}}}),
		base("regression D33: plugin file below the core file root/root.go", c17Plugin{Name: "alpha", Files: []kv2{{"root/root.go/x.go", "X"}}}),
		base("regression D33: plugins a and a/b.go", c17Plugin{Name: "alpha", Files: []kv2{{"a", "AAA"}}}, c17Plugin{Name: "beta", Files: []kv2{{"a/b.go", "BBB"}}}),
		base("regression D33: plugins a/b/c.go and ./a", c17Plugin{Name: "alpha", Files: []kv2{{"a/b/c.go", "AAA"}, {"z.go", "Z"}}}, c17Plugin{Name: "beta", Files: []kv2{{"./a", "BBB"}}}),
		base("regression D33: one plugin returning q/r.go and q", c17Plugin{Name: "alpha", Files: []kv2{{"q/r.go", "AAA"}, {"q", "BBB"}}}),
		base("near clash: root-x, roo, root/root.gox beside core root/root.go (accepted)", c17Plugin{Name: "alpha", Files: []kv2{{"root-x", "A"}, {"roo", "B"}, {"root/root.gox", "C"}}}),
	}
}

// ---- path functions vs path/filepath ----

var pathAtoms = []string{"/", "/", ".", "..", "a", "b", "ab", "..a", "a..", "...", "x.thrift", ".thrift", "c.go", " "}

func randomPath(r *rng.R) string {
	if r.Chance(1, 25) {
		return ""
	}
	if r.Chance(1, 30) {
		b := r.Bytes(1 + r.Intn(6))
		for i := range b {
			if b[i] == 0 {
				b[i] = '/'
			}
		}
		return string(b)
	}
	var sb strings.Builder
	if r.Chance(1, 2) {
		sb.WriteByte('/')
	}
	for k := r.Intn(7); k > 0; k-- {
		sb.WriteString(pathAtoms[r.Intn(len(pathAtoms))])
		if r.Chance(3, 4) {
			sb.WriteByte('/')
		}
	}
	return sb.String()
}

func c17Paths(c *checker, r *rng.R) {
	n := 12000
	if *tier == "thorough" {
		n = 400000
	}
	for i := 0; i < n; i++ {
		a, b := randomPath(r), randomPath(r)
		if r.Chance(1, 3) { // related paths: b below / beside a
			b = a + "/" + randomPath(r)
		}
		c.rep.Hist("how", "path-functions")
		c.rep.Case("paths "+a+" "+b, true)
		c.expect("C17 filepath.Clean vs clean", "PC "+hxs(a), "ok "+hxs(filepath.Clean(a)))
		c.expect("C17 filepath.Join vs join2", "PJ "+hxs(a)+" "+hxs(b), "ok "+hxs(filepath.Join(a, b)))
		c.expect("C17 filepath.Dir vs dir", "PD "+hxs(a), "ok "+hxs(filepath.Dir(a)))
		c.expect("C17 filepath.Base vs base", "PB "+hxs(a), "ok "+hxs(filepath.Base(a)))
		c.expect("C17 filepath.IsAbs vs isAbs", "PA "+hxs(a), "ok "+b01(filepath.IsAbs(a)))
		relAns := "err"
		if rp, err := filepath.Rel(a, b); err == nil {
			relAns = "ok " + hxs(rp)
		}
		c.expect("C17 filepath.Rel vs rel", "PR "+hxs(a)+" "+hxs(b), relAns)
		// the generated-file position as generateModule computes it
		pm := "err"
		if pkg, err := filepath.Rel(a, strings.TrimSuffix(b, ".thrift")); err == nil && pkg != ".." && !strings.HasPrefix(pkg, "../") {
			pm = "ok " + hxs(filepath.Join(pkg, filepath.Base(pkg)+".go"))
		}
		c.expect("C17 generateModule path vs modulePath", "PM "+hxs(a)+" "+hxs(b), pm)
		// lexical confinement, directly on path/filepath
		if filepath.IsAbs(a) && !strings.Contains(b, "..") {
			j := filepath.Join(a, b)
			ca := filepath.Clean(a)
			if !(j == ca || ca == "/" || strings.HasPrefix(j, ca+"/")) {
				c.oracle("C17 Join escapes the output directory", "PJ "+hxs(a)+" "+hxs(b), j, "out="+ca)
			}
		}
		if len(c.pend) > 30000 {
			c.flush()
		}
	}
}

func runC17(c *checker, r *rng.R) {
	if *replay != "" {
		replayFile(c, *replay)
		return
	}
	corpusDir(c, *corpus)
	n := 1200
	if *tier == "thorough" {
		n = 9000
	}
	c17Check(c, c17Generate(r, n), "generated")
	c17Check(c, c17Regressions(), "regressions")
	c17Paths(c, r)
	c.flush()
	c.rep.Rule = "scenarios = the real thriftrw binary in a sandbox tree (sources, output directory with pre-existing files or (1 in 3) not existing yet, a sibling directory; package prefix from --pkg-prefix or (1 in 5) derived from $GOPATH) hashed before/after: 1..5 modules in 5 directory layouts with the k-th module failing to generate x {no --thrift-root, proj, grandparent, main's own dir, uncleaned, relative} x 5 out-dir spellings x 0..3 plugins returning paths from {relative, absolute, .., ., repeated separators, trailing slash, equal to a core path, equal to another plugin's path, the output directory itself (\"\", \".\", \"./\", \"/\"), a file below / a directory of another plugin's path, a file below / a directory of a possible core file} or failing; compared with the Lean plan (exit status + exact set of files written with contents); + 12k random POSIX path pairs through Clean/Join/Rel/Dir/Base/IsAbs/generated-file path vs path/filepath. non-trivial = has plugins, several modules or an explicit root; distinct by scenario"
	c.rep.Notes = append(c.rep.Notes, "D42, D34 and D33 are fixed: their witnesses run as ordinary scenarios (a failure must leave the sandbox untouched), and the D33 shapes — a path that is the output directory itself, file-vs-directory pairs between two plugins and between a plugin and a core file — are part of the random stream; what the output directory holds beforehand (existing.txt, sometimes a stale root/root.go) is never in the way of an accepted plan: a write refused by the OS half-way is outside C17")
}
