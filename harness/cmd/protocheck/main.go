// Command protocheck is the correspondence check between thriftrw's plugin
// protocol / output planning / concurrent use of the codec and the Lean model
// M-Proto, plus the implementation-side property oracles for C16, C17, C18.
//
// The same binary doubles as the scripted fake plugin: when it is started under
// a name `thriftrw-plugin-<x>` it behaves as that plugin (fakeplugin.go), and
// with VERIF_PROTOCHECK_MODE=pluginmain it runs the real plugin library's
// plugin.Main on its stdin/stdout (pluginmain.go).
package main

import (
	"encoding/hex"
	"flag"
	"fmt"
	"os"
	"os/signal"
	"path/filepath"
	"strings"
	"syscall"

	"verifharness/internal/lineproto"
	"verifharness/internal/report"
	"verifharness/internal/rng"
)

var (
	prop   = flag.String("prop", "", "property id (C16, C17, C18)")
	tier   = flag.String("tier", "quick", "quick|thorough")
	driver = flag.String("driver", "", "path to the Lean proto driver (protodrv)")
	wdrv   = flag.String("wiredriver", "", "path to the Lean wire driver (wiredrv; C18)")
	out    = flag.String("out", "", "report file")
	replay = flag.String("replay", "", "replay file")
	corpus = flag.String("corpus", "", "corpus directory")
)

func hx(b []byte) string {
	if len(b) == 0 {
		return "-"
	}
	return hex.EncodeToString(b)
}

func hxs(s string) string { return hx([]byte(s)) }

func unhx(s string) []byte {
	if s == "-" || s == "" {
		return nil
	}
	b, err := hex.DecodeString(s)
	if err != nil {
		panic(fmt.Sprintf("bad hex %q", s))
	}
	return b
}

func chunksText(cs [][]byte) string {
	if len(cs) == 0 {
		return "-"
	}
	parts := make([]string, len(cs))
	for i, c := range cs {
		parts[i] = hx(c)
	}
	return strings.Join(parts, ",")
}

func parseChunks(s string) [][]byte {
	if s == "-" {
		return [][]byte{nil}
	}
	var cs [][]byte
	for _, p := range strings.Split(s, ",") {
		cs = append(cs, unhx(p))
	}
	return cs
}

func flat(cs [][]byte) []byte {
	var b []byte
	for _, c := range cs {
		b = append(b, c...)
	}
	return b
}

// splitChunks cuts data into chunks of the given sizes (the rest goes into a final chunk).
func splitChunks(data []byte, sizes []int) [][]byte {
	var cs [][]byte
	pos := 0
	for _, n := range sizes {
		if pos+n > len(data) {
			n = len(data) - pos
		}
		cs = append(cs, data[pos:pos+n])
		pos += n
	}
	if pos < len(data) {
		cs = append(cs, data[pos:])
	}
	return cs
}

func ones(n int) []int {
	s := make([]int, n)
	for i := range s {
		s[i] = 1
	}
	return s
}

// randomSizes: whole / 1-byte / random pieces including zero-length ones.
func randomSizes(r *rng.R, total int) []int {
	switch r.Intn(4) {
	case 0:
		return nil
	case 1:
		return ones(total)
	}
	var s []int
	for left := total; left > 0; {
		n := r.Intn(9)
		if r.Chance(1, 8) {
			n = r.Intn(left + 1)
		}
		s = append(s, n)
		left -= n
	}
	return s
}

func safely(f func()) (panicked string) {
	defer func() {
		if r := recover(); r != nil {
			panicked = fmt.Sprint(r)
		}
	}()
	f()
	return ""
}

type pending struct {
	op, impl, kind, input string
	drv                   string
	canon                 func(string) string // applied to the model's answer before comparing
}

type checker struct {
	rep  *report.Report
	pend []pending
}

func (c *checker) expect(kind, op, impl string) {
	c.pend = append(c.pend, pending{op: op, impl: impl, kind: kind, input: op, drv: *driver})
}

func (c *checker) expectCanon(kind, op, impl string, canon func(string) string) {
	c.pend = append(c.pend, pending{op: op, impl: impl, kind: kind, input: op, drv: *driver, canon: canon})
}

func (c *checker) expectWire(kind, op, impl string) {
	c.pend = append(c.pend, pending{op: op, impl: impl, kind: kind, input: op, drv: *wdrv})
}

func (c *checker) oracle(kind, input, impl, why string) {
	c.rep.Disagree(report.Disagreement{Kind: kind, Input: input, Impl: impl, Oracle: why})
}

// ask runs ops through the proto driver right away (for two-stage cases).
func ask(ops []string) []string {
	ans, err := lineproto.Run(*driver, ops)
	if err != nil {
		fmt.Fprintln(os.Stderr, "protocheck:", err)
		cleanupAll()
		os.Exit(3)
	}
	return ans
}

func (c *checker) flush() {
	for _, d := range []string{*driver, *wdrv} {
		var idx []int
		var ops []string
		for i, p := range c.pend {
			if p.drv == d {
				idx = append(idx, i)
				ops = append(ops, p.op)
			}
		}
		if len(ops) == 0 {
			continue
		}
		if d == "" {
			fmt.Fprintln(os.Stderr, "protocheck: driver path missing")
			cleanupAll()
			os.Exit(3)
		}
		ans, err := lineproto.Run(d, ops)
		if err != nil {
			fmt.Fprintln(os.Stderr, "protocheck:", err)
			cleanupAll()
			os.Exit(3)
		}
		for k, i := range idx {
			p := c.pend[i]
			if p.canon != nil {
				ans[k] = p.canon(ans[k])
			}
			if ans[k] != p.impl {
				c.rep.Disagree(report.Disagreement{Kind: p.kind, Input: p.input, Impl: p.impl, Model: ans[k]})
			}
		}
	}
	c.pend = c.pend[:0]
}

func main() {
	if strings.HasPrefix(filepath.Base(os.Args[0]), "thriftrw-plugin-") {
		fakePluginMain()
		return
	}
	if os.Getenv("VERIF_PROTOCHECK_MODE") == "pluginmain" {
		pluginMainChild()
		return
	}
	if os.Getenv("VERIF_PROTOCHECK_MODE") == "pluginmain-batch" {
		pluginMainBatchChild()
		return
	}
	flag.Parse()
	sigc := make(chan os.Signal, 1)
	signal.Notify(sigc, syscall.SIGINT, syscall.SIGTERM)
	go func() {
		<-sigc
		cleanupAll()
		os.Exit(3)
	}()
	rep := report.New(*prop)
	c := &checker{rep: rep}
	r := rng.FromEnv(0x1600)
	defer cleanupAll()
	switch *prop {
	case "C16":
		runC16(c, r)
	case "C17":
		runC17(c, r)
	case "C18":
		runC18(c, r)
	default:
		fmt.Fprintln(os.Stderr, "unknown property", *prop)
		os.Exit(2)
	}
	c.flush()
	cleanupAll()
	if err := rep.Write(*out); err != nil {
		fmt.Fprintln(os.Stderr, err)
		cleanupAll()
		os.Exit(3)
	}
}
