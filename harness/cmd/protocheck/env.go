package main

// Shared machinery: scratch directories, building the real thriftrw binary from
// $VERIF_REPO, reference encoders for frames/envelopes/replies (the harness's own,
// independent of thriftrw), directory-tree snapshots.

import (
	"crypto/sha256"
	"encoding/binary"
	"fmt"
	"io/fs"
	"os"
	"os/exec"
	"path/filepath"
	"sort"
	"strings"
	"sync"

	"verifharness/internal/wv"
)

var (
	workOnce sync.Once
	workDir  string
	cleanMu  sync.Mutex
)

func work() string {
	workOnce.Do(func() {
		d, err := os.MkdirTemp("", "protocheck-")
		if err != nil {
			fmt.Fprintln(os.Stderr, "protocheck:", err)
			cleanupAll()
			os.Exit(3)
		}
		workDir = d
	})
	return workDir
}

func cleanupAll() {
	cleanMu.Lock()
	defer cleanMu.Unlock()
	if workDir != "" {
		os.RemoveAll(workDir)
	}
}

func repoRoot() string {
	if r := os.Getenv("VERIF_REPO"); r != "" {
		return r
	}
	return "/repo"
}

func goEnv(extra ...string) []string {
	e := os.Environ()
	e = append(e, "GOFLAGS=-mod=mod", "GOPROXY=off", "GOSUMDB=off", "GOTOOLCHAIN=local")
	return append(e, extra...)
}

var (
	thriftrwOnce sync.Once
	thriftrwBin  string
)

// thriftrw builds the real CLI from the repository under check.
func thriftrw() string {
	thriftrwOnce.Do(func() {
		bin := filepath.Join(work(), "thriftrw")
		cmd := exec.Command("go", "build", "-o", bin, ".")
		cmd.Dir = repoRoot()
		cmd.Env = goEnv("CGO_ENABLED=0")
		if outp, err := cmd.CombinedOutput(); err != nil {
			fmt.Fprintf(os.Stderr, "protocheck: building thriftrw from %s failed: %v\n%s\n", repoRoot(), err, outp)
			cleanupAll()
			os.Exit(3)
		}
		thriftrwBin = bin
	})
	return thriftrwBin
}

// ---- reference encoders ----

func be32(n uint32) []byte {
	var b [4]byte
	binary.BigEndian.PutUint32(b[:], n)
	return b[:]
}

func frameOf(msg []byte) []byte { return append(be32(uint32(len(msg))), msg...) }

const (
	etCall      = 1
	etReply     = 2
	etException = 3
	etOneWay    = 4
)

// envStrict is the versioned envelope encoding.
func envStrict(name string, typ byte, seq uint32, body *wv.V) []byte {
	b := be32(0x80010000 | uint32(typ))
	b = append(b, be32(uint32(len(name)))...)
	b = append(b, name...)
	b = append(b, be32(seq)...)
	return body.Encode(b)
}

// envLegacy is the unversioned envelope encoding.
func envLegacy(name string, typ byte, seq uint32, body *wv.V) []byte {
	b := be32(uint32(len(name)))
	b = append(b, name...)
	b = append(b, typ)
	b = append(b, be32(seq)...)
	return body.Encode(b)
}

func vStruct(fs ...wv.Field) *wv.V     { return &wv.V{T: wv.TStruct, Fields: fs} }
func vBin(s string) *wv.V              { return &wv.V{T: wv.TBinary, Bin: []byte(s)} }
func vI32(n int32) *wv.V               { return &wv.V{T: wv.TI32, U: uint64(uint32(n))} }
func vI64(n int64) *wv.V               { return &wv.V{T: wv.TI64, U: uint64(n)} }
func vList(et byte, xs ...*wv.V) *wv.V { return &wv.V{T: wv.TList, ET: et, Items: xs} }
func fld(id uint16, v *wv.V) wv.Field  { return wv.Field{ID: id, V: v} }

func vI32List(xs ...int32) *wv.V {
	var items []*wv.V
	for _, x := range xs {
		items = append(items, vI32(x))
	}
	return vList(wv.TI32, items...)
}

type kv struct{ k, v string }

func vFilesMap(files []kv) *wv.V {
	m := &wv.V{T: wv.TMap, KT: wv.TBinary, ET: wv.TBinary}
	for _, f := range files {
		m.Items = append(m.Items, vBin(f.k), vBin(f.v))
	}
	return m
}

// hsResult is Plugin_Handshake_Result{success: HandshakeResponse{...}}.
func hsResult(name string, ver int32, feats []int32) *wv.V {
	return vStruct(fld(0, vStruct(fld(1, vBin(name)), fld(2, vI32(ver)), fld(3, vI32List(feats...)), fld(4, vBin("9.9.9")))))
}

// genResult is ServiceGenerator_Generate_Result{success: {files}}; nil files = field absent.
func genResult(files []kv, present bool) *wv.V {
	if !present {
		return vStruct(fld(0, vStruct()))
	}
	return vStruct(fld(0, vStruct(fld(1, vFilesMap(files)))))
}

func excBody(msg string, typ int32) *wv.V {
	return vStruct(fld(1, vBin(msg)), fld(2, vI32(typ)))
}

const (
	mHandshake = "Plugin:handshake"
	mGenerate  = "ServiceGenerator:generate"
	mGoodbye   = "Plugin:goodbye"
)

// ---- directory snapshots ----

// snapshot maps every path below root (relative) to "d" or the sha256 of the file.
func snapshot(root string) map[string]string {
	m := map[string]string{}
	filepath.WalkDir(root, func(p string, d fs.DirEntry, err error) error {
		if err != nil {
			return nil
		}
		rel, _ := filepath.Rel(root, p)
		if d.IsDir() {
			m[rel] = "d"
			return nil
		}
		if d.Type()&fs.ModeSymlink != 0 {
			t, _ := os.Readlink(p)
			m[rel] = "l:" + t
			return nil
		}
		b, err := os.ReadFile(p)
		if err != nil {
			m[rel] = "?"
			return nil
		}
		m[rel] = fmt.Sprintf("%x", sha256.Sum256(b))
		return nil
	})
	return m
}

// diffSnap lists paths that were added, removed or changed.
func diffSnap(before, after map[string]string) []string {
	var d []string
	for k, v := range after {
		if b, ok := before[k]; !ok {
			d = append(d, "+"+k)
		} else if b != v {
			d = append(d, "~"+k)
		}
	}
	for k := range before {
		if _, ok := after[k]; !ok {
			d = append(d, "-"+k)
		}
	}
	sort.Strings(d)
	return d
}

// outFiles lists regular files below dir as "<relhex>=<contenthex>", core-generated
// files (recognised by their header) with the placeholder content "core".
func outFiles(dir string) []string {
	var res []string
	filepath.WalkDir(dir, func(p string, d fs.DirEntry, err error) error {
		if err != nil || d.IsDir() {
			return nil
		}
		rel, _ := filepath.Rel(dir, p)
		b, _ := os.ReadFile(p)
		content := hx(b)
		if strings.HasPrefix(string(b), "// Code generated by thriftrw") {
			content = hxs("core")
		}
		res = append(res, hxs(rel)+"="+content)
		return nil
	})
	sort.Strings(res)
	return res
}

func filesText(fs []string) string {
	return strings.Join(append([]string{fmt.Sprint(len(fs))}, fs...), " ")
}
