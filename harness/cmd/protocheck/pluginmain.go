package main

// C16, library side: plugin.Main (the real plugin library) served over in-memory
// pipes under exact segmentations, and as a child process for sessions that do not
// end with goodbye; internal/frame Reader/Writer under random segmentations.

import (
	"bufio"
	"bytes"
	"encoding/binary"
	"encoding/json"
	"fmt"
	"io"
	"os"
	"os/exec"
	"path/filepath"
	"sort"
	"strconv"
	"strings"
	"time"

	"go.uber.org/thriftrw/plugin"
	"go.uber.org/thriftrw/plugin/api"
	tbinary "go.uber.org/thriftrw/protocol/binary"
	"go.uber.org/thriftrw/verifhook"
	"go.uber.org/thriftrw/version"

	"verifharness/internal/rng"
	"verifharness/internal/wv"
)

// chunkReader is an io.Reader over a queue of chunks: each Read returns data from the
// first chunk only; an empty chunk yields a zero-length read. This is the model's `Chunks`.
type chunkReader struct {
	chunks [][]byte
	pos    int
}

func (c *chunkReader) Read(p []byte) (int, error) {
	if len(c.chunks) == 0 {
		return 0, io.EOF
	}
	if len(c.chunks[0]) == 0 {
		c.chunks = c.chunks[1:]
		return 0, nil
	}
	n := copy(p, c.chunks[0])
	c.chunks[0] = c.chunks[0][n:]
	if len(c.chunks[0]) == 0 {
		c.chunks = c.chunks[1:]
	}
	c.pos += n
	return n, nil
}

func newChunkReader(cs [][]byte) *chunkReader {
	cp := make([][]byte, len(cs))
	for i, c := range cs {
		cp[i] = append([]byte{}, c...)
	}
	return &chunkReader{chunks: cp}
}

// writeRecorder records every Write call.
type writeRecorder struct{ writes [][]byte }

func (w *writeRecorder) Write(p []byte) (int, error) {
	w.writes = append(w.writes, append([]byte{}, p...))
	return len(p), nil
}

// ---- plugin.Main ----

type genAnswer struct {
	err      bool
	files    []kv
	nilFiles bool
}

func (g genAnswer) text() string {
	if g.err {
		return "E"
	}
	if g.nilFiles {
		return "N"
	}
	var sb strings.Builder
	fmt.Fprintf(&sb, "%d", len(g.files))
	for _, f := range g.files {
		fmt.Fprintf(&sb, " %s %s", hxs(f.k), hxs(f.v))
	}
	return sb.String()
}

type scriptedSG struct {
	answers []genAnswer
	i       int
}

func (s *scriptedSG) Generate(*api.GenerateServiceRequest) (*api.GenerateServiceResponse, error) {
	if s.i >= len(s.answers) {
		return nil, fmt.Errorf("no more answers")
	}
	a := s.answers[s.i]
	s.i++
	if a.err {
		return nil, fmt.Errorf("scripted failure")
	}
	if a.nilFiles {
		return &api.GenerateServiceResponse{}, nil
	}
	m := map[string][]byte{}
	for _, f := range a.files {
		m[f.k] = []byte(f.v)
	}
	return &api.GenerateServiceResponse{Files: m}, nil
}

// validGenerateArgs builds ServiceGenerator_Generate_Args with a well-formed request.
func validGenerateArgs() []byte {
	req := &api.GenerateServiceRequest{
		RootServices:  []api.ServiceID{1},
		Services:      map[api.ServiceID]*api.Service{1: {Name: "S", ThriftName: "S", Functions: []*api.Function{}, ModuleID: 1}},
		Modules:       map[api.ModuleID]*api.Module{1: {ImportPath: "x/y", Directory: "y", ThriftFilePath: "y.thrift"}},
		PackagePrefix: "x",
		ThriftRoot:    "/r",
	}
	w, err := api.ServiceGenerator_Generate_Helper.Args(req).ToWire()
	if err != nil {
		panic(err)
	}
	var buf bytes.Buffer
	if err := tbinary.Default.Encode(w, &buf); err != nil {
		panic(err)
	}
	return buf.Bytes()
}

type pmRequest struct {
	payload []byte // envelope bytes
	isGen   bool   // a ServiceGenerator:generate request (consumes a model answer)
	reaches bool   // ... that reaches the user's generator
	// the envelope is not a request (neither Call nor OneWay): answered with INVALID_MESSAGE_TYPE
	// before any handler sees it (finding D92, repaired)
	notRequest bool
}

func rawEnv(strict bool, name string, typ byte, seq uint32, body []byte) []byte {
	var b []byte
	if strict {
		b = append(be32(0x80010000|uint32(typ)), be32(uint32(len(name)))...)
		b = append(b, name...)
		b = append(b, be32(seq)...)
	} else {
		b = append(be32(uint32(len(name))), name...)
		b = append(b, typ)
		b = append(b, be32(seq)...)
	}
	return append(b, body...)
}

// parseAnswers turns the plugin's output stream into the driver's answer syntax.
func parseAnswers(outp []byte) ([]string, bool) {
	var res []string
	for len(outp) > 0 {
		if len(outp) < 4 {
			return res, false
		}
		n := int(binary.BigEndian.Uint32(outp))
		if 4+n > len(outp) {
			return res, false
		}
		m := outp[4 : 4+n]
		outp = outp[4+n:]
		if len(m) < 12 || binary.BigEndian.Uint32(m)&0xffff0000 != 0x80010000 {
			res = append(res, "unparsable-envelope")
			continue
		}
		typ := m[3]
		nl := int(binary.BigEndian.Uint32(m[4:]))
		if 8+nl+4 > len(m) {
			res = append(res, "unparsable-envelope")
			continue
		}
		name := m[8 : 8+nl]
		seq := binary.BigEndian.Uint32(m[8+nl:])
		body := m[12+nl:]
		kind := ""
		switch typ {
		case etException:
			kind = "X?"
			if v, err := decodeStruct(body); err == nil {
				for _, f := range v.Fields {
					if f.ID == 2 && f.V.T == wv.TI32 {
						kind = "X" + strconv.Itoa(int(int32(f.V.U)))
					}
				}
			}
		case etReply:
			kind = "R" + hx(body)
			if string(name) == mGenerate {
				if v, err := decodeStruct(body); err == nil && len(v.Fields) == 1 && v.Fields[0].ID == 0 && v.Fields[0].V.T == wv.TStruct {
					inner := v.Fields[0].V
					if len(inner.Fields) == 0 {
						kind = "F-"
					} else if len(inner.Fields) == 1 && inner.Fields[0].ID == 1 && inner.Fields[0].V.T == wv.TMap {
						mp := inner.Fields[0].V
						var items []string
						for i := 0; i+1 < len(mp.Items); i += 2 {
							items = append(items, hx(mp.Items[i].Bin)+"="+hx(mp.Items[i+1].Bin))
						}
						sort.Strings(items)
						kind = "F" + strings.Join(append([]string{strconv.Itoa(len(items))}, items...), ",")
					}
				}
			}
		default:
			kind = "T" + strconv.Itoa(int(typ))
		}
		res = append(res, fmt.Sprintf("%s:%d:%s", hx(name), seq, kind))
	}
	return res, true
}

// decodeStruct decodes a struct with the harness's own generic stream reader over the
// real protocol (used only to canonicalise map order and pick out fields).
func decodeStruct(b []byte) (*wv.V, error) {
	sr := tbinary.Default.Reader(bytes.NewReader(b))
	defer sr.Close()
	return wv.ReadStream(sr, wv.TStruct)
}

type pmSession struct {
	name    string
	hasSG   bool
	reqs    []pmRequest
	answers []genAnswer // what the user's generator returns, in call order
	tail    []byte      // bytes after the last frame
}

func (s pmSession) stream() []byte {
	var b []byte
	for _, r := range s.reqs {
		b = append(b, frameOf(r.payload)...)
	}
	return append(b, s.tail...)
}

func (s pmSession) op(chunks [][]byte) string {
	// the model consumes one answer per generate request; requests that do not reach the
	// user's function get an `E`.
	var gens []string
	ai := 0
	for _, r := range s.reqs {
		if !r.isGen || !s.hasSG || r.notRequest {
			continue // (an envelope that is not a request never gets as far as the generator)
		}
		if r.reaches && ai < len(s.answers) {
			gens = append(gens, s.answers[ai].text())
			ai++
		} else {
			gens = append(gens, "E")
		}
	}
	return fmt.Sprintf("S %s %s %s %d %s %s", hxs(s.name), b01(s.hasSG), hxs(version.Version), len(gens),
		strings.Join(gens, " "), chunksText(chunks))
}

func randomSession(r *rng.R, endWithGoodbye bool) pmSession {
	s := pmSession{name: []string{"alpha", "b", "plugin-x"}[r.Intn(3)], hasSG: !r.Chance(1, 4)}
	n := r.Intn(6)
	genArgs := validGenerateArgs()
	for i := 0; i < n; i++ {
		seq := uint32(r.Intn(5))
		if r.Chance(1, 6) {
			seq = uint32(r.U64())
		}
		strict := !r.Chance(1, 8)
		typ := byte(etCall)
		if r.Chance(1, 8) {
			typ = []byte{etReply, etOneWay, etException}[r.Intn(3)]
		}
		switch r.Intn(7) {
		case 0, 1:
			s.reqs = append(s.reqs, pmRequest{payload: rawEnv(strict, mHandshake, typ, seq, vStruct(fld(1, vStruct())).Encode(nil))})
		case 2, 3:
			a := genAnswer{}
			switch r.Intn(4) {
			case 0:
				a.err = true
			case 1:
				a.nilFiles = true
			default:
				for k := r.Intn(4); k > 0; k-- {
					a.files = append(a.files, kv{fmt.Sprintf("f%d/%d.go", k, r.Intn(100)), string(r.Bytes(r.Intn(6)))})
				}
				a.files = dedupKeys(a.files)
			}
			isReq := typ == etCall || typ == etOneWay
			s.reqs = append(s.reqs, pmRequest{payload: rawEnv(strict, mGenerate, typ, seq, genArgs), isGen: true, reaches: isReq, notRequest: !isReq})
			if s.hasSG && isReq {
				s.answers = append(s.answers, a)
			}
		case 4: // generate with malformed arguments: never reaches the user's function
			s.reqs = append(s.reqs, pmRequest{payload: rawEnv(strict, mGenerate, typ, seq, vStruct(fld(1, vStruct())).Encode(nil)), isGen: true, notRequest: typ != etCall && typ != etOneWay})
		case 5:
			nm := []string{"Plugin:nope", "Nope:handshake", "handshake", "", ":", "Plugin:", "ServiceGenerator:handshake", "Plugin:goodbye:x"}[r.Intn(8)]
			s.reqs = append(s.reqs, pmRequest{payload: rawEnv(strict || nm == "", nm, typ, seq, vStruct().Encode(nil))})
		case 6:
			s.reqs = append(s.reqs, pmRequest{payload: rawEnv(strict, mHandshake, typ, seq, vStruct(fld(7, vBin("extra"))).Encode(nil))})
		}
	}
	if endWithGoodbye {
		s.reqs = append(s.reqs, pmRequest{payload: rawEnv(true, mGoodbye, etCall, uint32(r.Intn(9)), vStruct().Encode(nil))})
		if r.Chance(1, 2) {
			s.tail = r.Bytes(r.Intn(12)) // never read
			if r.Chance(1, 2) {
				s.tail = append(frameOf(rawEnv(true, mHandshake, etCall, 1, vStruct().Encode(nil))), s.tail...)
			}
		}
	}
	return s
}

func dedupKeys(fs []kv) []kv {
	seen := map[string]bool{}
	var out []kv
	for _, f := range fs {
		if !seen[f.k] {
			seen[f.k] = true
			out = append(out, f)
		}
	}
	return out
}

// runPluginMainInProcess serves one session through the real plugin.Main over an
// in-memory reader that delivers exactly the given chunks.
func runPluginMainInProcess(s pmSession, chunks [][]byte) (string, int) {
	cr := newChunkReader(chunks)
	var outb bytes.Buffer
	p := &plugin.Plugin{Name: s.name, Reader: cr, Writer: &outb}
	if s.hasSG {
		p.ServiceGenerator = &scriptedSG{answers: s.answers}
	}
	done := make(chan string, 1)
	go func() { done <- safely(func() { plugin.Main(p) }) }()
	select {
	case pn := <-done:
		if pn != "" {
			return "panic " + pn, cr.pos
		}
	case <-time.After(10 * time.Second):
		return "timeout", cr.pos
	}
	as, whole := parseAnswers(outb.Bytes())
	if !whole {
		as = append(as, "partial-frame")
	}
	return strings.Join(append([]string{"ok", "goodbye", strconv.Itoa(len(as))}, as...), " "), cr.pos
}

// pmBatchCase is one in-memory session handed to the batch child.
type pmBatchCase struct {
	Name    string       `json:"name"`
	HasSG   bool         `json:"sg"`
	Answers []genAnswerJ `json:"answers"`
	Chunks  []string     `json:"chunks"`
}

type genAnswerJ struct {
	Err   bool  `json:"err"`
	Nil   bool  `json:"nil"`
	Files []kv2 `json:"files"`
}

// pluginMainBatchChild runs sessions through the real plugin.Main over in-memory readers with
// exact chunking, one result line per session. plugin.Main ends the process with log.Fatalf
// when a session fails; the parent then sees which session had no result line.
func pluginMainBatchChild() {
	f, err := os.Open(os.Getenv("VERIF_PM_BATCH"))
	if err != nil {
		os.Exit(3)
	}
	start, _ := strconv.Atoi(os.Getenv("VERIF_PM_START"))
	sc := bufio.NewScanner(f)
	sc.Buffer(make([]byte, 1<<20), 1<<28)
	w := bufio.NewWriter(os.Stdout)
	idx := -1
	for sc.Scan() {
		idx++
		if idx < start {
			continue
		}
		var c pmBatchCase
		if json.Unmarshal(sc.Bytes(), &c) != nil {
			continue
		}
		s := pmSession{name: c.Name, hasSG: c.HasSG}
		for _, a := range c.Answers {
			g := genAnswer{err: a.Err, nilFiles: a.Nil}
			for _, f := range a.Files {
				g.files = append(g.files, kv{string(unhx(f.K)), string(unhx(f.V))})
			}
			s.answers = append(s.answers, g)
		}
		var chunks [][]byte
		for _, ch := range c.Chunks {
			chunks = append(chunks, unhx(ch))
		}
		impl, consumed := runPluginMainInProcess(s, chunks)
		fmt.Fprintf(w, "%d\t%d\t%s\n", idx, consumed, impl)
		w.Flush()
	}
	os.Exit(0)
}

// runPluginMainBatch returns, per session, the answer and the bytes consumed; a session that
// killed the child gets the answer "process-terminated".
func runPluginMainBatch(cases []pmBatchCase) ([]string, []int) {
	path := filepath.Join(work(), fmt.Sprintf("pmbatch-%d.jsonl", caseCounter.next()))
	fh, _ := os.Create(path)
	bw := bufio.NewWriter(fh)
	for _, c := range cases {
		b, _ := json.Marshal(c)
		bw.Write(b)
		bw.WriteByte('\n')
	}
	bw.Flush()
	fh.Close()
	res := make([]string, len(cases))
	cons := make([]int, len(cases))
	self, _ := os.Executable()
	start := 0
	for start < len(cases) {
		cmd := exec.Command(self)
		cmd.Env = append(os.Environ(), "VERIF_PROTOCHECK_MODE=pluginmain-batch", "VERIF_PM_BATCH="+path, "VERIF_PM_START="+strconv.Itoa(start))
		var outb bytes.Buffer
		cmd.Stdout = &outb
		done := make(chan error, 1)
		if err := cmd.Start(); err != nil {
			break
		}
		go func() { done <- cmd.Wait() }()
		select {
		case <-done:
		case <-time.After(5 * time.Minute):
			cmd.Process.Kill()
			<-done
		}
		last := start - 1
		for _, line := range strings.Split(outb.String(), "\n") {
			f := strings.SplitN(line, "\t", 3)
			if len(f) != 3 {
				continue
			}
			i, err := strconv.Atoi(f[0])
			if err != nil || i < 0 || i >= len(cases) {
				continue
			}
			cons[i], _ = strconv.Atoi(f[1])
			res[i] = f[2]
			last = i
		}
		if last+1 < len(cases) && res[last+1] == "" {
			res[last+1] = "process-terminated"
			start = last + 2
		} else {
			start = last + 1
		}
		if last == len(cases)-1 {
			break
		}
	}
	os.Remove(path)
	return res, cons
}

// pluginMainChild is the child mode: the real plugin.Main on stdin/stdout.
func pluginMainChild() {
	p := &plugin.Plugin{Name: os.Getenv("VERIF_PM_NAME")}
	if os.Getenv("VERIF_PM_SG") == "1" {
		var answers []genAnswer
		for _, a := range strings.Split(os.Getenv("VERIF_PM_ANSWERS"), ";") {
			switch {
			case a == "":
			case a == "E":
				answers = append(answers, genAnswer{err: true})
			case a == "N":
				answers = append(answers, genAnswer{nilFiles: true})
			default:
				var g genAnswer
				for _, f := range strings.Split(a, ",") {
					kvp := strings.SplitN(f, "=", 2)
					if len(kvp) == 2 {
						g.files = append(g.files, kv{string(unhx(kvp[0])), string(unhx(kvp[1]))})
					}
				}
				answers = append(answers, g)
			}
		}
		p.ServiceGenerator = &scriptedSG{answers: answers}
	}
	plugin.Main(p)
	os.Exit(0)
}

func runPluginMainChild(s pmSession, chunks [][]byte) string {
	self, _ := os.Executable()
	cmd := exec.Command(self)
	var ans []string
	for _, a := range s.answers {
		switch {
		case a.err:
			ans = append(ans, "E")
		case a.nilFiles:
			ans = append(ans, "N")
		default:
			var fs []string
			for _, f := range a.files {
				fs = append(fs, hxs(f.k)+"="+hxs(f.v))
			}
			if len(fs) == 0 {
				fs = []string{"0"}
			}
			ans = append(ans, strings.Join(fs, ","))
		}
	}
	cmd.Env = append(os.Environ(), "VERIF_PROTOCHECK_MODE=pluginmain", "VERIF_PM_NAME="+s.name, "VERIF_PM_SG="+b01(s.hasSG),
		"VERIF_PM_ANSWERS="+strings.Join(ans, ";"))
	stdin, _ := cmd.StdinPipe()
	var outb, errb bytes.Buffer
	cmd.Stdout = &outb
	cmd.Stderr = &errb
	if err := cmd.Start(); err != nil {
		return "start-error"
	}
	go func() {
		for _, ch := range chunks {
			if _, err := stdin.Write(ch); err != nil {
				break
			}
			time.Sleep(50 * time.Microsecond)
		}
		stdin.Close()
	}()
	done := make(chan error, 1)
	go func() { done <- cmd.Wait() }()
	var err error
	select {
	case err = <-done:
	case <-time.After(10 * time.Second):
		cmd.Process.Kill()
		<-done
		return "timeout"
	}
	as, whole := parseAnswers(outb.Bytes())
	if !whole {
		as = append(as, "partial-frame")
	}
	stop := "goodbye"
	if err != nil {
		stop = "failed"
	}
	return strings.Join(append([]string{"ok", stop, strconv.Itoa(len(as))}, as...), " ")
}

func c16PluginMain(c *checker, r *rng.R) {
	n, nChild := 1500, 60
	if *tier == "thorough" {
		n, nChild = 20000, 600
	}
	type pmCase struct {
		s      pmSession
		chunks [][]byte
		op     string
	}
	var cases []pmCase
	var ops []string
	for i := 0; i < n; i++ {
		s := randomSession(r, true)
		data := s.stream()
		chunks := splitChunks(data, randomSizes(r, len(data)))
		cases = append(cases, pmCase{s, chunks, s.op(chunks)})
		ops = append(ops, s.op(chunks))
	}
	// plugin.Main ends the process (log.Fatalf) when the session does not end with goodbye,
	// so only sessions the model expects to end that way run in-process; the rest go to a child
	model := ask(ops)
	var batch []pmBatchCase
	var batchIdx []int
	for i, cs := range cases {
		if !strings.HasPrefix(model[i], "ok goodbye ") {
			continue
		}
		bc := pmBatchCase{Name: cs.s.name, HasSG: cs.s.hasSG}
		for _, a := range cs.s.answers {
			aj := genAnswerJ{Err: a.err, Nil: a.nilFiles}
			for _, f := range a.files {
				aj.Files = append(aj.Files, kv2{hxs(f.k), hxs(f.v)}) // hex: contents are arbitrary bytes
			}
			bc.Answers = append(bc.Answers, aj)
		}
		for _, ch := range cs.chunks {
			bc.Chunks = append(bc.Chunks, hx(ch))
		}
		batch = append(batch, bc)
		batchIdx = append(batchIdx, i)
	}
	bres, bcons := runPluginMainBatch(batch)
	inproc := map[int]int{}
	for k, i := range batchIdx {
		inproc[i] = k
	}
	for i, cs := range cases {
		s, chunks, op := cs.s, cs.chunks, cs.op
		data := flat(chunks)
		k, ok := inproc[i]
		if !ok {
			impl := runPluginMainChild(s, chunks)
			c.rep.Case(op, true)
			c.expect("C16 plugin.Main (child) vs server model", op, impl)
			continue
		}
		impl, consumed := bres[k], bcons[k]
		c.rep.Hist("how", "plugin.Main in-memory")
		c.rep.Hist("plugin.Main requests", strconv.Itoa(len(s.reqs)))
		c.rep.Case(op, true)
		if i < 2 {
			c.rep.Sample("plugin.Main: " + op + " => " + impl)
		}
		c.expect("C16 plugin.Main vs server model", op, impl)
		if impl == "process-terminated" {
			c.oracle("C16 plugin.Main gave up on a session that ends with goodbye", op, impl, "the library terminated the process (log.Fatalf) instead of answering")
			continue
		}
		// oracle: answers handshake/generate/goodbye, one answer per request, stops after goodbye
		want := len(data) - len(s.tail)
		if consumed > want {
			c.oracle("C16 plugin.Main read past goodbye", op, impl, fmt.Sprintf("consumed %d bytes, the goodbye frame ends at %d", consumed, want))
		}
		f := strings.Fields(impl)
		if len(f) < 3 || f[0] != "ok" || f[2] != strconv.Itoa(len(s.reqs)) {
			c.oracle("C16 plugin.Main did not answer every request", op, impl, fmt.Sprintf("%d requests", len(s.reqs)))
		} else {
			last := f[len(f)-1]
			if !strings.HasSuffix(last, ":R00") {
				c.oracle("C16 plugin.Main goodbye reply", op, impl, "the last answer is not an empty Reply")
			}
		}
	}
	for i := 0; i < nChild; i++ {
		s := randomSession(r, r.Chance(1, 3))
		data := s.stream()
		switch r.Intn(3) {
		case 0: // truncate inside the stream
			if len(data) > 0 && len(s.tail) == 0 {
				data = data[:r.Intn(len(data))]
			}
		case 1: // a frame that is not an envelope, then more
			if len(s.tail) == 0 && (len(s.reqs) == 0 || !bytes.HasPrefix(s.reqs[len(s.reqs)-1].payload[8:], []byte(mGoodbye))) {
				data = append(data, frameOf(r.Bytes(1+r.Intn(6)))...)
				data = append(data, frameOf(rawEnv(true, mHandshake, etCall, 1, vStruct().Encode(nil)))...)
			}
		}
		chunks := splitChunks(data, randomSizes(r, len(data)))
		// the model op is built from the session but with the bytes actually sent
		op := s.op(chunks)
		impl := runPluginMainChild(s, chunks)
		c.rep.Hist("how", "plugin.Main child process")
		c.rep.Case(op, true)
		c.expect("C16 plugin.Main (child) vs server model", op, impl)
	}
}

// ---- frames ----

func readAllFrames(chunks [][]byte) string {
	rd := verifhook.NewFrameReader(newChunkReader(chunks))
	var msgs []string
	clean := "0"
	for {
		var m []byte
		var err error
		if p := safely(func() { m, err = rd.Read() }); p != "" {
			return "panic " + p
		}
		if err != nil {
			if err == io.EOF {
				clean = "1"
			}
			break
		}
		msgs = append(msgs, hx(m))
	}
	return strings.Join(append([]string{"ok", clean, strconv.Itoa(len(msgs))}, msgs...), " ")
}

func c16Frames(c *checker, r *rng.R) {
	n := 3000
	if *tier == "thorough" {
		n = 150000
	}
	threshold := int64(10 * 1024 * 1024)
	check := func(data []byte, how string, want []string) {
		chunks := splitChunks(data, randomSizes(r, len(data)))
		if r.Chance(1, 10) {
			chunks = append(chunks, nil)
		}
		op := "F " + strconv.FormatInt(threshold, 10) + " " + chunksText(chunks)
		impl := readAllFrames(chunks)
		c.rep.Hist("how", "frames:"+how)
		c.rep.Case(op, len(data) > 0)
		c.expect("C16 frame.Reader vs readFrames ("+how+")", op, impl)
		if want != nil {
			exp := strings.Join(append([]string{"ok", "1", strconv.Itoa(len(want))}, want...), " ")
			if impl != exp {
				c.oracle("C16 frames not delivered intact and in order", op, impl, "written: "+exp)
			}
		}
		if strings.HasPrefix(impl, "panic") {
			c.oracle("C16 frame.Reader panicked", op, impl, "")
		}
	}
	for round := 0; round < 2; round++ {
		how := "fast-path"
		if round == 1 {
			old := verifhook.SetFastPathFrameSize(8)
			defer verifhook.SetFastPathFrameSize(old)
			threshold = 8
			how = "copyN-path(threshold lowered to 8 via hook)"
		}
		for i := 0; i < n/2; i++ {
			var msgs [][]byte
			for k := r.Intn(5); k > 0; k-- {
				sz := r.Pick(0, 0, 1, 2, 3, 7, 8, 9, 20, 40)
				if r.Chance(1, 40) {
					sz = 300 + r.Intn(400)
				}
				msgs = append(msgs, r.Bytes(sz))
			}
			// writer: recorded Write calls vs the model, and the stream they form
			rec := &writeRecorder{}
			fw := verifhook.NewFrameWriter(rec)
			var want []string
			for _, m := range msgs {
				before := len(rec.writes)
				if err := fw.Write(m); err != nil {
					c.oracle("C16 frame.Writer error", "FW "+hx(m), err.Error(), "")
				}
				c.expect("C16 frame.Writer vs writeFrame", "FW "+hx(m), "ok "+chunksText(rec.writes[before:]))
				want = append(want, hx(m))
			}
			data := flat(rec.writes)
			check(data, how+" valid", want)
			if len(data) <= 40 && i%4 == 0 {
				for k := 0; k < len(data); k++ {
					check(data[:k], how+" truncated", nil)
				}
			}
			if i%3 == 0 {
				mut := append([]byte{}, data...)
				if len(mut) > 0 {
					j := r.Intn(len(mut))
					mut[j] = byte(r.U64())
					if r.Chance(1, 3) && len(mut) >= 4 {
						copy(mut, [][]byte{{0xff, 0xff, 0xff, 0xff}, {0, 0x9f, 0xff, 0xff}, {0, 0xa0, 0, 0}, {0x7f, 0xff, 0xff, 0xff}}[r.Intn(4)])
					}
				}
				check(mut, how+" mutated", nil)
			}
			if i%5 == 0 {
				check(r.Bytes(r.Intn(14)), how+" random", nil)
			}
			if len(c.pend) > 20000 {
				c.flush()
			}
		}
		if round == 1 {
			verifhook.SetFastPathFrameSize(10 * 1024 * 1024)
		}
	}
	// one frame across the real threshold, implementation only (round trip)
	big := r.Bytes(10*1024*1024 + 3)
	rec := &writeRecorder{}
	verifhook.NewFrameWriter(rec).Write(big)
	rd := verifhook.NewFrameReader(newChunkReader(splitChunks(flat(rec.writes), []int{1, 3, 70000, 1 << 20})))
	got, err := rd.Read()
	c.rep.Case("big-frame", true)
	if err != nil || !bytes.Equal(got, big) {
		c.oracle("C16 frame above the fast-path threshold does not round-trip", "10MiB+3 frame", fmt.Sprint(err), "")
	}
}
