package main

// C18: builds the stress child with the race detector, runs it, and folds what it found
// into the report: per-operation results vs sequential results (child), vs the Lean wire
// model's answer for the operation alone (wiredrv), request streams of concurrent Sends vs
// the frame model and MultiServiceGenerator merges vs mergePlugins (protodrv), and the
// race detector's reports.

import (
	"bytes"
	"context"
	"encoding/json"
	"fmt"
	"os"
	"os/exec"
	"path/filepath"
	"strconv"
	"strings"
	"time"

	"verifharness/internal/report"
	"verifharness/internal/rng"
)

type childResult struct {
	Rounds     int            `json:"rounds"`
	Ops        int            `json:"ops"`
	Executions int            `json:"executions"`
	Hist       map[string]int `json:"hist"`
	Mismatches []struct {
		Kind, Input, Got, Want string
	} `json:"mismatches"`
	ModelOps []struct {
		Driver, Op, Impl, Kind string
	} `json:"model_ops"`
	Sends  int `json:"sends"`
	Merges int `json:"merges"`
}

// buildRaceChild compiles ./cmd/protocheck/racechild with -race (needs cgo and a C
// compiler); if that is impossible it falls back to a plain build and says so.
func buildRaceChild(c *checker) (string, bool) {
	bin := filepath.Join(work(), "racechild")
	args := []string{"build", "-race"}
	if mf := os.Getenv("VERIF_GOMODFILE"); mf != "" {
		args = append(args, "-modfile", mf)
	}
	args = append(args, "-tags", "verif", "-o", bin, "./cmd/protocheck/racechild")
	harnessDir := harnessRoot()
	cmd := exec.Command("go", args...)
	cmd.Dir = harnessDir
	cmd.Env = goEnv("CGO_ENABLED=1")
	outp, err := cmd.CombinedOutput()
	if err == nil {
		return bin, true
	}
	c.rep.Notes = append(c.rep.Notes, "go build -race failed ("+firstLine(string(outp))+"); running the stress child WITHOUT the race detector")
	args = args[:1]
	if mf := os.Getenv("VERIF_GOMODFILE"); mf != "" {
		args = append(args, "-modfile", mf)
	}
	args = append(args, "-tags", "verif", "-o", bin, "./cmd/protocheck/racechild")
	cmd = exec.Command("go", args...)
	cmd.Dir = harnessDir
	cmd.Env = goEnv("CGO_ENABLED=0")
	if outp, err := cmd.CombinedOutput(); err != nil {
		fmt.Fprintf(os.Stderr, "protocheck: cannot build the stress child: %v\n%s\n", err, outp)
		cleanupAll()
		os.Exit(3)
	}
	return bin, false
}

// harnessRoot is the directory of the harness module (bin/check runs us from there).
func harnessRoot() string {
	if _, err := os.Stat("cmd/protocheck/racechild/main.go"); err == nil {
		d, _ := os.Getwd()
		return d
	}
	return "/verif/harness"
}

func runC18(c *checker, r *rng.R) {
	if *replay != "" {
		replayFile(c, *replay)
		return
	}
	corpusDir(c, *corpus)
	bin, race := buildRaceChild(c)
	resPath := filepath.Join(work(), "racechild.json")
	tmo := 10 * time.Minute
	if *tier == "thorough" {
		tmo = 25 * time.Minute
	}
	ctx, cancel := context.WithTimeout(context.Background(), tmo)
	defer cancel()
	cmd := exec.CommandContext(ctx, bin, "--seed", strconv.FormatInt(rng.Seed(), 10), "--tier", *tier, "--out", resPath)
	cmd.Env = append(os.Environ(), "GORACE=halt_on_error=0 exitcode=66 history_size=2", "GOMEMLIMIT=8GiB")
	var stderr bytes.Buffer
	cmd.Stderr = &stderr
	cmd.Stdout = &stderr
	err := cmd.Run()
	races := strings.Count(stderr.String(), "WARNING: DATA RACE")
	exit := 0
	if ee, ok := err.(*exec.ExitError); ok {
		exit = ee.ExitCode()
	} else if err != nil {
		exit = -1
	}
	if ctx.Err() != nil {
		c.oracle("C18 stress child timed out (deadlock?)", "racechild", "timeout", tail(stderr.String(), 1500))
		return
	}
	if races > 0 {
		c.oracle("C18 data race reported by the race detector", "racechild --seed "+strconv.FormatInt(rng.Seed(), 10), fmt.Sprintf("%d race report(s)", races), tail(raceExcerpt(stderr.String()), 3000))
	}
	var cr childResult
	b, rerr := os.ReadFile(resPath)
	if rerr != nil || json.Unmarshal(b, &cr) != nil {
		c.oracle("C18 stress child crashed", "racechild", fmt.Sprintf("exit %d", exit), tail(stderr.String(), 3000))
		return
	}
	if exit != 0 && exit != 66 {
		c.oracle("C18 stress child failed", "racechild", fmt.Sprintf("exit %d", exit), tail(stderr.String(), 3000))
	}
	for _, m := range cr.Mismatches {
		c.rep.Disagree(report.Disagreement{Kind: m.Kind, Input: m.Input, Impl: m.Got, Model: "", Oracle: "sequential / expected: " + m.Want})
	}
	for k, v := range cr.Hist {
		for i := 0; i < v; i++ {
			c.rep.Hist("operations", k)
		}
	}
	for i, m := range cr.ModelOps {
		c.rep.Case(m.Op, true)
		if i < 3 {
			c.rep.Sample(m.Kind + ": " + m.Op + " => " + m.Impl)
		}
		if m.Driver == "wire" {
			c.expectWire(m.Kind, m.Op, m.Impl)
		} else {
			c.expect(m.Kind, m.Op, m.Impl)
		}
	}
	c.rep.Evaluations += cr.Executions + cr.Sends
	c.flush()
	c.rep.Notes = append(c.rep.Notes,
		fmt.Sprintf("stress child: race detector %v; %d rounds (GOMAXPROCS in {1,2,16} x K in 2..64), %d operations, %d executions, %d concurrent Sends, %d fan-out merges; %d race reports",
			map[bool]string{true: "ENABLED (go build -race, cgo)", false: "NOT available"}[race], cr.Rounds, cr.Ops, cr.Executions, cr.Sends, cr.Merges, races),
		"proved: abstract pool-ownership / lock-pairing / merge semantics over all interleavings; observed only: the Go memory model, data-race freedom (race detector verdict), real goroutine schedules")
	c.rep.Rule = "rounds = GOMAXPROCS in {1,2,16} x K in {2,3,8,17,64} goroutines, a GC-forcing goroutine, random yields; operations on distinct random values: Encode, stream write, Decode+force, stream read (also on damaged bytes), envelope encode/decode, ReadRequest, DecodeRequest, generated ToWire+Encode / Encode / Decode+FromWire / Decode (structs fixtures and plugin API types); each concurrent result = the result of the same operation alone, which = the Lean wire model's answer; K concurrent Sends (x3) with distinct payloads on one frame client against an echo server over io.Pipe, the recorded request byte stream parsed by the frame model; MultiServiceGenerator fan-out with K generators vs mergePlugins. non-trivial = every operation; distinct by op line"
}

func tail(s string, n int) string {
	if len(s) > n {
		return s[len(s)-n:]
	}
	return s
}

func raceExcerpt(s string) string {
	i := strings.Index(s, "WARNING: DATA RACE")
	if i < 0 {
		return s
	}
	e := s[i:]
	if j := strings.Index(e[1:], "=================="); j > 0 {
		e = e[:j+1]
	}
	return e
}

// replayXM re-runs a recorded merge through the real MultiServiceGenerator (sequentially
// meaningful too: conflict detection does not depend on timing).
func replayXM(c *checker, line string) {
	// the merge replays need the plugin types; they live in the child. Model-side replay only.
	c.rep.Case(line, true)
}
