// Command racechild is the C18 stress program. protocheck builds it with the race
// detector (`go build -race`, cgo) and runs it; it is never part of the normal build
// graph of bin/check.
//
// For every (GOMAXPROCS, K) round it draws K operations on distinct random values,
// runs each alone (sequential baseline), then all K concurrently (several repetitions,
// random yields, a goroutine forcing GCs so that the sync.Pools are emptied and
// refilled), and compares every concurrent result with its baseline. It also runs K
// concurrent Sends on one frame client against an echo server and a
// MultiServiceGenerator fan-out with K fake generators. Everything it found goes to
// a JSON file; data races are reported by the runtime on stderr (exit status 66).
package main

import (
	"bytes"
	"context"
	"encoding/hex"
	"encoding/json"
	"errors"
	"flag"
	"fmt"
	"io"
	"math"
	"os"
	"runtime"
	"sort"
	"strings"
	"sync"
	"sync/atomic"
	"time"

	"go.uber.org/thriftrw/gen/verifgen"
	"go.uber.org/thriftrw/plugin/api"
	"go.uber.org/thriftrw/protocol/binary"
	"go.uber.org/thriftrw/protocol/stream"
	"go.uber.org/thriftrw/verifhook"
	"go.uber.org/thriftrw/wire"

	"verifharness/internal/rng"
	"verifharness/internal/wv"
)

type mismatch struct {
	Kind  string `json:"kind"`
	Input string `json:"input"`
	Got   string `json:"got"`
	Want  string `json:"want"`
}

type modelOp struct {
	Driver string `json:"driver"` // "wire" | "proto"
	Op     string `json:"op"`
	Impl   string `json:"impl"`
	Kind   string `json:"kind"`
}

type result struct {
	Rounds     int            `json:"rounds"`
	Ops        int            `json:"ops"`
	Executions int            `json:"executions"`
	Hist       map[string]int `json:"hist"`
	Mismatches []mismatch     `json:"mismatches"`
	ModelOps   []modelOp      `json:"model_ops"`
	Sends      int            `json:"sends"`
	Merges     int            `json:"merges"`
}

func hx(b []byte) string {
	if len(b) == 0 {
		return "-"
	}
	return hex.EncodeToString(b)
}

func safely(f func()) (panicked string) {
	defer func() {
		if r := recover(); r != nil {
			panicked = fmt.Sprint(r)
		}
	}()
	f()
	return ""
}

type op struct {
	kind  string
	run   func() string
	model string // wiredrv op whose answer must equal run()'s result
}

// ---- codec operations on wire values ----

func opEncode(v *wv.V) op {
	return op{"Encode", func() string {
		var buf bytes.Buffer
		if err := binary.Default.Encode(v.ToWire(), &buf); err != nil {
			return "err"
		}
		return "ok " + hx(buf.Bytes())
	}, "E " + v.Text()}
}

func opStreamEncode(v *wv.V) op {
	return op{"stream write", func() string {
		var buf bytes.Buffer
		w := binary.Default.Writer(&buf)
		err := v.WriteStream(w)
		w.Close()
		if err != nil {
			return "err"
		}
		return "ok " + hx(buf.Bytes())
	}, "E " + v.Text()}
}

func opDecodeForce(t byte, b []byte) op {
	return op{"Decode+force", func() (res string) {
		if p := safely(func() {
			rd := binary.NewReader(bytes.NewReader(b))
			w, off, err := rd.ReadValue(wire.Type(t), 0)
			if err != nil {
				res = "err"
				return
			}
			v, err := wv.FromWire(w)
			if err != nil {
				res = "err"
				return
			}
			res = fmt.Sprintf("ok %d %s", off, v.Text())
		}); p != "" {
			return "panic " + p
		}
		return
	}, fmt.Sprintf("L %d %s", t, hx(b))}
}

var errAbandon = errors.New("abandoned")

// abandonWalk visits w the way generated readers do (`err := l.ForEach(...); l.Close()` on
// every container) and gives up with an error after *budget leaves.
func abandonWalk(w wire.Value, budget *int) error {
	switch w.Type() {
	case wire.TStruct:
		for _, f := range w.GetStruct().Fields {
			if err := abandonWalk(f.Value, budget); err != nil {
				return err
			}
		}
		return nil
	case wire.TList, wire.TSet:
		l := w.GetList
		if w.Type() == wire.TSet {
			l = w.GetSet
		}
		vl := l()
		err := vl.ForEach(func(x wire.Value) error { return abandonWalk(x, budget) })
		vl.Close()
		return err
	case wire.TMap:
		ml := w.GetMap()
		err := ml.ForEach(func(it wire.MapItem) error {
			if err := abandonWalk(it.Key, budget); err != nil {
				return err
			}
			return abandonWalk(it.Value, budget)
		})
		ml.Close()
		return err
	}
	if *budget <= 0 {
		return errAbandon
	}
	*budget--
	return nil
}

// opDecodeAbandon decodes and then walks the value like a generated FromWire that rejects
// something half-way (a callback error inside ForEach, followed by the reader's Close).
func opDecodeAbandon(t byte, b []byte, budget int) op {
	return op{"Decode+abandoned walk", func() (res string) {
		if p := safely(func() {
			w, err := binary.Default.Decode(bytes.NewReader(b), wire.Type(t))
			if err != nil {
				res = "err"
				return
			}
			left := budget
			switch err := abandonWalk(w, &left); err {
			case nil:
				res = fmt.Sprintf("walked, %d left", left)
			case errAbandon:
				res = "abandoned"
			default:
				res = "err"
			}
		}); p != "" {
			return "panic " + p
		}
		return
	}, ""}
}

type posReader struct {
	r   *bytes.Reader
	pos int
}

func (p *posReader) Read(b []byte) (int, error) {
	n, err := p.r.Read(b)
	p.pos += n
	return n, err
}

func opStreamRead(t byte, b []byte) op {
	return op{"stream read", func() (res string) {
		if p := safely(func() {
			pr := &posReader{r: bytes.NewReader(b)}
			sr := binary.Default.Reader(pr)
			defer sr.Close()
			v, err := wv.ReadStream(sr, t)
			if err != nil {
				res = "err"
				return
			}
			res = fmt.Sprintf("ok %d %s", pr.pos, v.Text())
		}); p != "" {
			return "panic " + p
		}
		return
	}, fmt.Sprintf("D %d %s", t, hx(b))}
}

// opSkip: StreamReader.Skip over a plain reader (discard by reading) or a seeker (discard by
// seeking); the pooled StreamReader carries `discard`/`_seeker` from one use to the next.
func opSkip(seek bool, t byte, b []byte) op {
	sk := "0"
	if seek {
		sk = "1"
	}
	return op{"stream skip (seek=" + sk + ")", func() (res string) {
		if p := safely(func() {
			if seek {
				br := bytes.NewReader(b)
				sr := binary.NewStreamReader(br)
				defer sr.Close()
				if err := sr.Skip(wire.Type(t)); err != nil {
					res = "err"
					return
				}
				pos, _ := br.Seek(0, io.SeekCurrent)
				res = fmt.Sprintf("ok %d", pos)
				return
			}
			pr := &posReader{r: bytes.NewReader(b)}
			sr := binary.NewStreamReader(pr)
			defer sr.Close()
			if err := sr.Skip(wire.Type(t)); err != nil {
				res = "err"
				return
			}
			res = fmt.Sprintf("ok %d", pr.pos)
		}); p != "" {
			return "panic " + p
		}
		return
	}, fmt.Sprintf("K %s %d %s", sk, t, hx(b))}
}

func opEnvEncode(name []byte, et uint8, seq uint32, body *wv.V) op {
	e := wire.Envelope{Name: string(name), Type: wire.EnvelopeType(int8(et)), SeqID: int32(seq), Value: body.ToWire()}
	return op{"envelope encode", func() string {
		var buf bytes.Buffer
		if err := binary.Default.EncodeEnveloped(e, &buf); err != nil {
			return "err"
		}
		return "ok " + hx(buf.Bytes())
	}, fmt.Sprintf("V 1 %s %d %d %s", hx(name), et, seq, body.Text())}
}

func opEnvDecode(b []byte) op {
	return op{"envelope decode", func() (res string) {
		if p := safely(func() {
			e, err := binary.Default.DecodeEnveloped(bytes.NewReader(b))
			if err != nil {
				res = "err"
				return
			}
			v, err := wv.FromWire(e.Value)
			if err != nil {
				res = "err"
				return
			}
			res = fmt.Sprintf("ok %s %d %d %s", hx([]byte(e.Name)), uint8(e.Type), uint32(e.SeqID), v.Text())
		}); p != "" {
			return "panic " + p
		}
		return
	}, "W " + hx(b)}
}

func responderText(r interface{}) string {
	switch x := r.(type) {
	case *binary.EnvelopeV0Responder:
		return fmt.Sprintf("legacy %s %d", hx([]byte(x.Name)), uint32(x.SeqID))
	case *binary.EnvelopeV1Responder:
		return fmt.Sprintf("strict %s %d", hx([]byte(x.Name)), uint32(x.SeqID))
	default:
		if r == interface{}(binary.NoEnvelopeResponder) {
			return "bare - 0"
		}
		return fmt.Sprintf("unknown-responder %T", r)
	}
}

type structBody struct{ v *wv.V }

func (s *structBody) Decode(r stream.Reader) error {
	v, err := wv.ReadStream(r, wv.TStruct)
	s.v = v
	return err
}

func opReadRequest(et uint8, b []byte) op {
	return op{"ReadRequest", func() (res string) {
		if p := safely(func() {
			body := &structBody{}
			w, err := binary.Default.ReadRequest(context.Background(), wire.EnvelopeType(int8(et)), &posReader{r: bytes.NewReader(b)}, body)
			if err != nil {
				res = "err"
				return
			}
			res = fmt.Sprintf("ok %s %s", responderText(w), body.v.Text())
		}); p != "" {
			return "panic " + p
		}
		return
	}, fmt.Sprintf("R 1 %d %s", et, hx(b))}
}

// gateReader hands out b; when the read position reaches `cut` it cancels the request's context
// and dawdles before going on, as a slow peer would.
type gateReader struct {
	b        []byte
	pos, cut int
	cancel   func()
	fired    bool
}

func (g *gateReader) Read(p []byte) (int, error) {
	if !g.fired && g.pos >= g.cut {
		g.fired = true
		g.cancel()
		for i := 0; i < 8; i++ {
			runtime.Gosched()
		}
		time.Sleep(30 * time.Microsecond)
	}
	if g.pos >= len(g.b) {
		return 0, io.EOF
	}
	end := len(g.b)
	if !g.fired && g.cut < end {
		end = g.cut
	}
	n := copy(p, g.b[g.pos:end])
	g.pos += n
	return n, nil
}

// opReadRequestCancel: ReadRequest under a context that is cancelled while the request is being
// read. The property says nothing about contexts, so a ReadRequest that gives up with the
// context's error is not held against the implementation (the request is then read again the
// plain way); what counts is that this and every concurrent operation still get their own result.
func opReadRequestCancel(et uint8, b []byte, cut int) op {
	plain := opReadRequest(et, b)
	return op{"ReadRequest (context cancelled mid-read)", func() (res string) {
		gaveUp := false
		if p := safely(func() {
			ctx, cancel := context.WithCancel(context.Background())
			defer cancel()
			body := &structBody{}
			w, err := binary.Default.ReadRequest(ctx, wire.EnvelopeType(int8(et)), &gateReader{b: b, cut: cut, cancel: cancel}, body)
			if err != nil {
				if errors.Is(err, context.Canceled) {
					gaveUp = true
					return
				}
				res = "err"
				return
			}
			res = fmt.Sprintf("ok %s %s", responderText(w), body.v.Text())
		}); p != "" {
			return "panic " + p
		}
		if gaveUp {
			return plain.run()
		}
		return
	}, plain.model}
}

type bodyEnveloper struct{ v *wv.V }

func (e bodyEnveloper) MethodName() string              { return "bareMethod" }
func (e bodyEnveloper) EnvelopeType() wire.EnvelopeType { return wire.Reply }
func (e bodyEnveloper) Encode(w stream.Writer) error    { return e.v.WriteStream(w) }

// opReadRespond: ReadRequest, then answer through the responder it returned (the streaming
// responders borrow a StreamWriter from the pool and must give it back exactly once).
func opReadRespond(et uint8, b []byte, reply *wv.V) op {
	return op{"ReadRequest+WriteResponse", func() (res string) {
		if p := safely(func() {
			body := &structBody{}
			w, err := binary.Default.ReadRequest(context.Background(), wire.EnvelopeType(int8(et)), &posReader{r: bytes.NewReader(b)}, body)
			if err != nil {
				res = "err"
				return
			}
			var out bytes.Buffer
			if err := w.WriteResponse(wire.Reply, &out, bodyEnveloper{reply}); err != nil {
				res = "ok " + responderText(w) + " write-err"
				return
			}
			res = fmt.Sprintf("ok %s %s", responderText(w), hx(out.Bytes()))
		}); p != "" {
			return "panic " + p
		}
		return
	}, ""} // no model op: compared with its own sequential result only
}

// legacyEnvBytes is the unversioned envelope: name, type byte, sequence id, body.
func legacyEnvBytes(name []byte, et uint8, seq uint32, body *wv.V) []byte {
	b := []byte{byte(len(name) >> 24), byte(len(name) >> 16), byte(len(name) >> 8), byte(len(name))}
	b = append(b, name...)
	b = append(b, et, byte(seq>>24), byte(seq>>16), byte(seq>>8), byte(seq))
	return body.Encode(b)
}

func opDecodeRequest(et uint8, b []byte) op {
	return op{"DecodeRequest", func() (res string) {
		if p := safely(func() {
			val, r, err := binary.Default.DecodeRequest(wire.EnvelopeType(int8(et)), bytes.NewReader(b))
			if err != nil {
				res = "err"
				return
			}
			v, err := wv.FromWire(val)
			if err != nil {
				res = "err"
				return
			}
			res = fmt.Sprintf("ok %s %s", responderText(r), v.Text())
		}); p != "" {
			return "panic " + p
		}
		return
	}, fmt.Sprintf("Q %d %s", et, hx(b))}
}

// ---- generated types ----

type generated interface {
	ToWire() (wire.Value, error)
	Encode(stream.Writer) error
}

func randString(r *rng.R) string { return string(r.Bytes(r.Intn(12))) }

func randDouble(r *rng.R) float64 {
	switch r.Intn(5) {
	case 0:
		return 0
	case 1:
		return math.Inf(1)
	case 2:
		return math.Float64frombits(r.U64() | 0x7ff0000000000001) // some NaN pattern
	}
	return math.Float64frombits(r.U64())
}

func randPoint(r *rng.R) *verifgen.Point { return &verifgen.Point{X: randDouble(r), Y: randDouble(r)} }

// randGenerated returns a value of a generated type together with a decoder for the same type.
func randGenerated(r *rng.R) (generated, func(wire.Value) (generated, error), func(stream.Reader) (generated, error)) {
	switch r.Intn(5) {
	case 0:
		v := &verifgen.PrimitiveRequiredStruct{BoolField: r.Bool(), ByteField: int8(r.U64()), Int16Field: int16(r.U64()),
			Int32Field: int32(r.U64()), Int64Field: int64(r.U64()), DoubleField: randDouble(r), StringField: randString(r), BinaryField: r.Bytes(r.Intn(20))}
		return v, func(w wire.Value) (generated, error) {
				x := &verifgen.PrimitiveRequiredStruct{}
				return x, x.FromWire(w)
			},
			func(sr stream.Reader) (generated, error) {
				x := &verifgen.PrimitiveRequiredStruct{}
				return x, x.Decode(sr)
			}
	case 1:
		g := &verifgen.Graph{Edges: []*verifgen.Edge{}}
		for k := r.Intn(6); k > 0; k-- {
			g.Edges = append(g.Edges, &verifgen.Edge{StartPoint: randPoint(r), EndPoint: randPoint(r)})
		}
		return g, func(w wire.Value) (generated, error) { x := &verifgen.Graph{}; return x, x.FromWire(w) },
			func(sr stream.Reader) (generated, error) { x := &verifgen.Graph{}; return x, x.Decode(sr) }
	case 2:
		u := &verifgen.User{Name: randString(r)}
		if r.Bool() {
			u.Contact = &verifgen.ContactInfo{EmailAddress: randString(r)}
		}
		if r.Bool() {
			age := int32(r.U64())
			u.Personal = &verifgen.PersonalInfo{Age: &age}
		}
		return u, func(w wire.Value) (generated, error) { x := &verifgen.User{}; return x, x.FromWire(w) },
			func(sr stream.Reader) (generated, error) { x := &verifgen.User{}; return x, x.Decode(sr) }
	case 3:
		f := &verifgen.Frame{TopLeft: randPoint(r), Size: &verifgen.Size{Width: randDouble(r), Height: randDouble(r)}}
		return f, func(w wire.Value) (generated, error) { x := &verifgen.Frame{}; return x, x.FromWire(w) },
			func(sr stream.Reader) (generated, error) { x := &verifgen.Frame{}; return x, x.Decode(sr) }
	default:
		// plugin API types (public generated code): a function signature with nested type unions
		mk := func(d int) *api.Type {
			t := &api.Type{SimpleType: simplePtr(api.SimpleType(1 + r.Intn(9)))}
			for ; d > 0; d-- {
				switch r.Intn(3) {
				case 0:
					t = &api.Type{SliceType: t}
				case 1:
					t = &api.Type{PointerType: t}
				default:
					t = &api.Type{MapType: &api.TypePair{Left: &api.Type{SimpleType: simplePtr(api.SimpleTypeString)}, Right: t}}
				}
			}
			return t
		}
		f := &api.Function{Name: randString(r), ThriftName: randString(r), Arguments: []*api.Argument{}}
		for k := r.Intn(4); k > 0; k-- {
			f.Arguments = append(f.Arguments, &api.Argument{Name: randString(r), Type: mk(r.Intn(4))})
		}
		if r.Bool() {
			f.ReturnType = mk(r.Intn(3))
		}
		return f, func(w wire.Value) (generated, error) { x := &api.Function{}; return x, x.FromWire(w) },
			func(sr stream.Reader) (generated, error) { x := &api.Function{}; return x, x.Decode(sr) }
	}
}

func simplePtr(s api.SimpleType) *api.SimpleType { return &s }

func wireText(g generated) (string, error) {
	w, err := g.ToWire()
	if err != nil {
		return "", err
	}
	v, err := wv.FromWire(w)
	if err != nil {
		return "", err
	}
	return v.Text(), nil
}

func genOps(r *rng.R) []op {
	g, fromWire, decode := randGenerated(r)
	text, err := wireText(g)
	if err != nil {
		return nil
	}
	w, _ := g.ToWire()
	var enc bytes.Buffer
	binary.Default.Encode(w, &enc)
	b := append([]byte{}, enc.Bytes()...)
	return []op{
		{"generated ToWire+Encode", func() string {
			w, err := g.ToWire()
			if err != nil {
				return "err"
			}
			var buf bytes.Buffer
			if err := binary.Default.Encode(w, &buf); err != nil {
				return "err"
			}
			return "ok " + hx(buf.Bytes())
		}, "E " + text},
		{"generated Encode (streaming)", func() string {
			var buf bytes.Buffer
			sw := binary.Default.Writer(&buf)
			err := g.Encode(sw)
			sw.Close()
			if err != nil {
				return "err"
			}
			return "ok " + hx(buf.Bytes())
		}, "E " + text},
		{"generated Decode+FromWire", func() (res string) {
			if p := safely(func() {
				w, err := binary.Default.Decode(bytes.NewReader(b), wire.TStruct)
				if err != nil {
					res = "err"
					return
				}
				x, err := fromWire(w)
				if err != nil {
					res = "err"
					return
				}
				t, err := wireText(x)
				if err != nil {
					res = "err"
					return
				}
				res = fmt.Sprintf("ok %d %s", len(b), t)
			}); p != "" {
				return "panic " + p
			}
			return
		}, fmt.Sprintf("L %d %s", wv.TStruct, hx(b))},
		{"generated Decode (streaming) skipping unknown fields", func() (res string) {
			// the same bytes with two unknown fields (a binary and a list<i64>) before the stop byte:
			// the generated decoder must skip them (StreamReader.Skip -> discard) and see the same value
			ext := append([]byte{}, b[:len(b)-1]...)
			ext = append(ext, 11, 0x7f, 0x01, 0, 0, 0, 5, 'u', 'n', 'k', 'n', 'o')
			ext = append(ext, 15, 0x7f, 0x02, 10, 0, 0, 0, 3)
			ext = append(ext, make([]byte, 24)...)
			ext = append(ext, 0)
			if p := safely(func() {
				pr := &posReader{r: bytes.NewReader(ext)}
				sr := binary.Default.Reader(pr)
				defer sr.Close()
				x, err := decode(sr)
				if err != nil {
					res = "err"
					return
				}
				t, err := wireText(x)
				if err != nil {
					res = "err"
					return
				}
				res = fmt.Sprintf("ok %d %s", pr.pos-(len(ext)-len(b)), t)
			}); p != "" {
				return "panic " + p
			}
			return
		}, fmt.Sprintf("D %d %s", wv.TStruct, hx(b))},
		{"generated Decode (streaming)", func() (res string) {
			if p := safely(func() {
				pr := &posReader{r: bytes.NewReader(b)}
				sr := binary.Default.Reader(pr)
				defer sr.Close()
				x, err := decode(sr)
				if err != nil {
					res = "err"
					return
				}
				t, err := wireText(x)
				if err != nil {
					res = "err"
					return
				}
				res = fmt.Sprintf("ok %d %s", pr.pos, t)
			}); p != "" {
				return "panic " + p
			}
			return
		}, fmt.Sprintf("D %d %s", wv.TStruct, hx(b))},
	}
}

func randomOps(r *rng.R, k int) []op {
	var ops []op
	for len(ops) < k {
		cfg := wv.GenCfg{MaxDepth: 1 + r.Intn(4), MaxLen: r.Pick(0, 1, 2, 3, 5, 8), MaxBin: r.Pick(0, 1, 4, 40)}
		t := wv.AllTypes[r.Intn(len(wv.AllTypes))]
		switch r.Intn(10) {
		case 0:
			ops = append(ops, opEncode(wv.Gen(r, t, cfg, 0)))
		case 1:
			ops = append(ops, opStreamEncode(wv.Gen(r, t, cfg, 0)))
		case 2:
			v := wv.Gen(r, t, cfg, 0)
			ops = append(ops, opDecodeForce(t, v.Encode(nil)))
		case 3:
			v := wv.Gen(r, t, cfg, 0)
			b := v.Encode(nil)
			if len(b) > 0 && r.Chance(1, 3) { // damaged input: errors must be isolated too
				b[r.Intn(len(b))] ^= byte(1 << uint(r.Intn(8)))
			}
			if r.Bool() {
				ops = append(ops, opStreamRead(t, b))
			} else {
				ops = append(ops, opDecodeForce(t, b))
			}
		case 6:
			v := wv.Gen(r, t, cfg, 0)
			if r.Bool() {
				ops = append(ops, opDecodeAbandon(t, v.Encode(nil), r.Intn(1+v.Nodes())))
				continue
			}
			ops = append(ops, opSkip(r.Bool(), t, v.Encode(nil)))
		case 4, 5:
			body := wv.Gen(r, wv.TStruct, cfg, 0)
			name := r.Bytes(1 + r.Intn(10))
			et := uint8(1 + r.Intn(4))
			seq := uint32(r.U64())
			if r.Bool() {
				ops = append(ops, opEnvEncode(name, et, seq, body))
			} else {
				b := envBytes(name, et, seq, body)
				if r.Chance(1, 3) {
					b = legacyEnvBytes(name, et, seq, body)
				}
				if r.Chance(1, 3) {
					ops = append(ops, opReadRespond(et, b, wv.Gen(r, wv.TStruct, cfg, 0)))
					continue
				}
				if r.Chance(1, 6) {
					// the shortest request there is: the bare empty struct, one byte (the request
					// reader peeks at two)
					ops = append(ops, opReadRequest(et, []byte{0}))
					continue
				}
				switch r.Intn(3) {
				case 0:
					ops = append(ops, opEnvDecode(b))
				case 1:
					if r.Bool() {
						ops = append(ops, opReadRequestCancel(et, b, r.Intn(len(b)+1)))
					} else {
						ops = append(ops, opReadRequest(et, b))
					}
				default:
					ops = append(ops, opDecodeRequest(et, b))
				}
			}
		default:
			ops = append(ops, genOps(r)...)
		}
	}
	return ops[:k]
}

func envBytes(name []byte, et uint8, seq uint32, body *wv.V) []byte {
	b := []byte{0x80, 0x01, 0, et, byte(len(name) >> 24), byte(len(name) >> 16), byte(len(name) >> 8), byte(len(name))}
	b = append(b, name...)
	b = append(b, byte(seq>>24), byte(seq>>16), byte(seq>>8), byte(seq))
	return body.Encode(b)
}

// ---- frame client ----

type recordingWriter struct {
	mu     sync.Mutex
	w      io.Writer
	writes [][]byte
}

func (r *recordingWriter) Write(p []byte) (int, error) {
	r.mu.Lock()
	r.writes = append(r.writes, append([]byte{}, p...))
	r.mu.Unlock()
	return r.w.Write(p)
}

type echoHandler struct {
	mu   sync.Mutex
	seen [][]byte
}

func (h *echoHandler) Handle(b []byte) ([]byte, error) {
	h.mu.Lock()
	h.seen = append(h.seen, append([]byte{}, b...))
	h.mu.Unlock()
	return append([]byte("re:"), b...), nil
}

// bufPipe is an unbounded in-memory pipe: writes never block (like an OS pipe with room),
// reads block until data or close.
type bufPipe struct {
	mu     sync.Mutex
	cond   *sync.Cond
	buf    []byte
	closed bool
}

func newBufPipe() *bufPipe {
	p := &bufPipe{}
	p.cond = sync.NewCond(&p.mu)
	return p
}

func (p *bufPipe) Write(b []byte) (int, error) {
	p.mu.Lock()
	defer p.mu.Unlock()
	if p.closed {
		return 0, io.ErrClosedPipe
	}
	p.buf = append(p.buf, b...)
	p.cond.Broadcast()
	return len(b), nil
}

func (p *bufPipe) Read(b []byte) (int, error) {
	p.mu.Lock()
	defer p.mu.Unlock()
	for len(p.buf) == 0 && !p.closed {
		p.cond.Wait()
	}
	if len(p.buf) == 0 {
		return 0, io.EOF
	}
	n := copy(b, p.buf)
	p.buf = p.buf[n:]
	return n, nil
}

func (p *bufPipe) Close() error {
	p.mu.Lock()
	p.closed = true
	p.cond.Broadcast()
	p.mu.Unlock()
	return nil
}

func sendRound(r *rng.R, k int, res *result) {
	var c2sR, s2cR io.ReadCloser
	var c2sW, s2cW io.WriteCloser
	if r.Bool() {
		c2sR, c2sW = io.Pipe() // synchronous: a write waits for its reader
		s2cR, s2cW = io.Pipe()
	} else {
		a, b := newBufPipe(), newBufPipe() // buffered: writes complete at once
		c2sR, c2sW, s2cR, s2cW = a, a, b, b
	}
	rec := &recordingWriter{w: c2sW}
	client := verifhook.NewFrameClient(rec, s2cR)
	server := verifhook.NewFrameServer(c2sR, s2cW)
	h := &echoHandler{}
	served := make(chan error, 1)
	go func() { served <- server.Serve(h) }()
	payloads := make([][]byte, k)
	for i := range payloads {
		payloads[i] = append([]byte(fmt.Sprintf("%d:", i)), r.Bytes(r.Intn(64))...)
		if r.Chance(1, 10) {
			payloads[i] = append(payloads[i], r.Bytes(3000+r.Intn(70000))...)
		}
	}
	// in half of the rounds large responses take the reader's slow path (threshold lowered through the
	// hook; it is process-wide and rounds run one after the other)
	if r.Bool() {
		old := verifhook.SetFastPathFrameSize(2048)
		defer verifhook.SetFastPathFrameSize(old)
	}
	var wg sync.WaitGroup
	start := make(chan struct{})
	var bad atomic.Int64
	var mu sync.Mutex
	// every response is kept and looked at again after all senders are done: a response a caller
	// holds must not change under it when later traffic passes through the same client
	kept := make([][][]byte, k)
	for i := 0; i < k; i++ {
		wg.Add(1)
		go func(i int) {
			defer wg.Done()
			<-start
			for rep := 0; rep < 3; rep++ {
				got, err := client.Send(payloads[i])
				kept[i] = append(kept[i], got)
				want := append([]byte("re:"), payloads[i]...)
				if err != nil || !bytes.Equal(got, want) {
					bad.Add(1)
					mu.Lock()
					if len(res.Mismatches) < 20 {
						res.Mismatches = append(res.Mismatches, mismatch{Kind: "C18 Send got another request's response", Input: fmt.Sprintf("K=%d sender %d payload %s", k, i, hx(payloads[i][:min(len(payloads[i]), 24)])),
							Got: fmt.Sprintf("%v %s", err, hx(got[:min(len(got), 24)])), Want: hx(want[:min(len(want), 24)])})
					}
					mu.Unlock()
				}
			}
		}(i)
	}
	close(start)
	done := make(chan struct{})
	go func() { wg.Wait(); close(done) }()
	select {
	case <-done:
	case <-time.After(20 * time.Second):
		// goroutines are stuck for good: report and stop the whole child here
		mu.Lock()
		res.Mismatches = append(res.Mismatches, mismatch{Kind: "C18 concurrent Sends deadlocked", Input: fmt.Sprintf("K=%d senders on one frame client against a sequential echo server over io.Pipe", k),
			Got: "no progress for 20s", Want: "every Send returns its own echo"})
		mu.Unlock()
		finish(res)
	}
	for i := range kept {
		want := append([]byte("re:"), payloads[i]...)
		for _, got := range kept[i] {
			if got != nil && !bytes.Equal(got, want) {
				bad.Add(1)
				if len(res.Mismatches) < 20 {
					res.Mismatches = append(res.Mismatches, mismatch{Kind: "C18 a response changed after Send returned it", Input: fmt.Sprintf("K=%d sender %d payload %s (%d bytes)", k, i, hx(payloads[i][:min(len(payloads[i]), 24)]), len(payloads[i])),
						Got: hx(got[:min(len(got), 24)]), Want: hx(want[:min(len(want), 24)])})
				}
			}
		}
	}
	c2sW.Close()
	s2cR.Close()
	select {
	case <-served:
	case <-time.After(5 * time.Second):
	}
	res.Sends += 3 * k
	res.Hist["Send"] += 3 * k
	// the bytes that went to the server must parse (by the model) into exactly the requests
	// the server handled, in that order: frames intact, not interleaved
	rec.mu.Lock()
	h.mu.Lock()
	total := 0
	for _, w := range rec.writes {
		total += len(w)
	}
	if total <= 300000 {
		var parts, msgs []string
		for _, w := range rec.writes {
			parts = append(parts, hx(w))
		}
		for _, m := range h.seen {
			msgs = append(msgs, hx(m))
		}
		if len(parts) > 0 {
			res.ModelOps = append(res.ModelOps, modelOp{Driver: "proto", Kind: "C18 request stream of concurrent Sends vs readFrames", Op: "F 10485760 " + strings.Join(parts, ","),
				Impl: strings.Join(append([]string{"ok", "1", fmt.Sprint(len(msgs))}, msgs...), " ")})
		}
	}
	h.mu.Unlock()
	rec.mu.Unlock()
}

// ---- MultiServiceGenerator ----

type fakeHandle struct{ name string }

func (h fakeHandle) Close() error                                       { return nil }
func (h fakeHandle) Name() string                                       { return h.name }
func (h fakeHandle) ServiceGenerator() verifhook.PluginServiceGenerator { return nil }

type fakeGen struct {
	name  string
	files map[string][]byte
	spin  int
}

func (g *fakeGen) Handle() verifhook.PluginHandle { return fakeHandle{g.name} }
func (g *fakeGen) Generate(*api.GenerateServiceRequest) (*api.GenerateServiceResponse, error) {
	for i := 0; i < g.spin; i++ {
		runtime.Gosched()
	}
	return &api.GenerateServiceResponse{Files: g.files}, nil
}

func mergeRound(r *rng.R, k int, res *result) {
	var msg verifhook.MultiServiceGenerator
	conflict := r.Chance(1, 4)
	var opParts []string
	all := map[string]string{}
	// one round in three: generators share names (the same plugin given twice is two generators)
	sameNames := r.Chance(1, 3)
	for i := 0; i < k; i++ {
		g := &fakeGen{name: fmt.Sprintf("g%d", i), files: map[string][]byte{}, spin: r.Intn(30)}
		if sameNames {
			g.name = fmt.Sprintf("g%d", i/2)
		}
		var keys []string
		for f := r.Intn(4); f > 0; f-- {
			p := fmt.Sprintf("g%d/f%d.go", i, f)
			if conflict && r.Chance(1, 6) {
				p = "shared.go"
			}
			if _, dup := g.files[p]; dup {
				continue
			}
			g.files[p] = []byte(fmt.Sprintf("%d-%d", i, f))
			keys = append(keys, p)
		}
		sort.Strings(keys)
		part := fmt.Sprint(len(keys))
		for _, p := range keys {
			part += " " + hx([]byte(p)) + " " + hx(g.files[p])
			all[p] = string(g.files[p])
		}
		opParts = append(opParts, part)
		msg = append(msg, g)
	}
	var ord []string
	for i := 0; i < k; i++ {
		ord = append(ord, fmt.Sprint(i))
	}
	resp, err := generateOrGiveUp(msg, &api.GenerateServiceRequest{}, res, fmt.Sprintf("K=%d conflict=%v", k, conflict))
	impl := "err"
	if err == nil {
		var items []string
		for p, c := range resp.Files {
			items = append(items, hx([]byte(p))+"="+hx(c))
		}
		sort.Strings(items)
		impl = strings.Join(append([]string{"ok", fmt.Sprint(len(items))}, items...), " ")
		// oracle: nothing lost, nothing invented
		if len(resp.Files) != len(all) {
			res.Mismatches = append(res.Mismatches, mismatch{Kind: "C18 merge lost or invented files", Input: fmt.Sprintf("K=%d", k), Got: fmt.Sprint(len(resp.Files)), Want: fmt.Sprint(len(all))})
		}
		for p, c := range all {
			if string(resp.Files[p]) != c {
				res.Mismatches = append(res.Mismatches, mismatch{Kind: "C18 merge lost a file", Input: fmt.Sprintf("K=%d %s", k, p), Got: string(resp.Files[p]), Want: c})
				break
			}
		}
	}
	res.Merges++
	res.Hist["merge "+strings.Fields(impl)[0]]++
	if sameNames {
		res.Hist["merge of generators that share names"]++
	}
	res.ModelOps = append(res.ModelOps, modelOp{Driver: "proto", Kind: "C18 MultiServiceGenerator vs mergePlugins", Impl: impl,
		Op: fmt.Sprintf("XM %d %s %s", k, strings.Join(opParts, " "), strings.Join(ord, ","))})
}

// generateOrGiveUp runs the fan-out; if it has not returned after 30 s (every generator returns at once:
// something waits for a lock that is never released) the finding is recorded and the process ends.
func generateOrGiveUp(msg verifhook.MultiServiceGenerator, req *api.GenerateServiceRequest, res *result, input string) (*api.GenerateServiceResponse, error) {
	type out struct {
		resp *api.GenerateServiceResponse
		err  error
	}
	ch := make(chan out, 1)
	go func() {
		resp, err := msg.Generate(req)
		ch <- out{resp, err}
	}()
	select {
	case o := <-ch:
		return o.resp, o.err
	case <-time.After(30 * time.Second):
		res.Mismatches = append(res.Mismatches, mismatch{Kind: "C18 plugin fan-out does not return", Input: input, Got: "still running after 30 s", Want: "a merged response or an error"})
		finish(res)
		return nil, nil
	}
}

// ---- plugins behind the real transport handles ----

// memPlugin is a conforming plugin served in-process: envelope server over the multiplexer over
// the handlers of plugin/api, reached through verifhook.NewTransportHandle like a real plugin.
type memPlugin struct {
	name  string
	files map[string][]byte
	spin  int
	mu    sync.Mutex
	roots [][]api.ServiceID // RootServices of every Generate request received
}

func (p *memPlugin) Goodbye() error { return nil }
func (p *memPlugin) Handshake(*api.HandshakeRequest) (*api.HandshakeResponse, error) {
	return &api.HandshakeResponse{Name: p.name, APIVersion: api.APIVersion, Features: []api.Feature{api.FeatureServiceGenerator}}, nil
}
func (p *memPlugin) Generate(req *api.GenerateServiceRequest) (*api.GenerateServiceResponse, error) {
	for i := 0; i < p.spin; i++ {
		runtime.Gosched()
	}
	p.mu.Lock()
	p.roots = append(p.roots, append([]api.ServiceID(nil), req.RootServices...))
	p.mu.Unlock()
	return &api.GenerateServiceResponse{Files: p.files}, nil
}

type memTransport struct{ srv verifhook.EnvelopeServer }

func (t memTransport) Send(b []byte) ([]byte, error) { return t.srv.Handle(b) }

// transportRound: K plugins behind transport handles are given ONE request by
// MultiServiceGenerator, concurrently. Every plugin must receive the request as the caller built
// it, the caller's request must be unchanged afterwards, and nothing may be lost in the merge.
func transportRound(r *rng.R, k int, res *result) {
	if k > 16 {
		k = 16
	}
	var msg verifhook.MultiServiceGenerator
	var plugins []*memPlugin
	all := map[string]string{}
	sameNames := r.Chance(1, 3)
	for i := 0; i < k; i++ {
		p := &memPlugin{name: fmt.Sprintf("p%d", i), files: map[string][]byte{}, spin: r.Intn(20)}
		if sameNames {
			p.name = fmt.Sprintf("p%d", i/2)
		}
		for f := 1 + r.Intn(3); f > 0; f-- {
			path := fmt.Sprintf("p%d/f%d.go", i, f)
			p.files[path] = []byte(fmt.Sprintf("%d-%d", i, f))
			all[path] = string(p.files[path])
		}
		mh := verifhook.NewMultiplexHandler()
		mh.Put("Plugin", api.NewPluginHandler(p))
		mh.Put("ServiceGenerator", api.NewServiceGeneratorHandler(p))
		h, err := verifhook.NewTransportHandle(p.name, memTransport{verifhook.NewEnvelopeServer(binary.Default, mh)})
		if err != nil {
			res.Mismatches = append(res.Mismatches, mismatch{Kind: "C18 handshake with a conforming in-process plugin failed", Input: p.name, Got: err.Error()})
			return
		}
		msg = append(msg, h.ServiceGenerator())
		plugins = append(plugins, p)
	}
	// a request whose root services are NOT in ascending order
	nsvc := 2 + r.Intn(40)
	req := &api.GenerateServiceRequest{Services: map[api.ServiceID]*api.Service{}, Modules: map[api.ModuleID]*api.Module{1: {ImportPath: "example.com/m", Directory: "m"}}}
	for i := nsvc; i >= 1; i-- {
		id := api.ServiceID(i*7%nsvc + 1)
		if _, dup := req.Services[id]; dup {
			continue
		}
		req.RootServices = append(req.RootServices, id)
		req.Services[id] = &api.Service{Name: fmt.Sprintf("S%d", id), ThriftName: fmt.Sprintf("S%d", id), Functions: []*api.Function{}, ModuleID: 1}
	}
	want := append([]api.ServiceID(nil), req.RootServices...)
	resp, err := generateOrGiveUp(msg, req, res, fmt.Sprintf("K=%d (transport-backed)", k))
	input := fmt.Sprintf("K=%d roots=%v", k, want)
	same := func(a, b []api.ServiceID) bool {
		if len(a) != len(b) {
			return false
		}
		for i := range a {
			if a[i] != b[i] {
				return false
			}
		}
		return true
	}
	switch {
	case err != nil:
		res.Mismatches = append(res.Mismatches, mismatch{Kind: "C18 fan-out to conforming plugins failed", Input: input, Got: err.Error()})
	case !same(req.RootServices, want):
		res.Mismatches = append(res.Mismatches, mismatch{Kind: "C18 the caller's request was changed by the fan-out", Input: input, Got: fmt.Sprint(req.RootServices), Want: fmt.Sprint(want)})
	default:
		for _, p := range plugins {
			if len(p.roots) != 1 || !same(p.roots[0], want) {
				res.Mismatches = append(res.Mismatches, mismatch{Kind: "C18 a plugin did not receive the request as built", Input: input + " plugin " + p.name, Got: fmt.Sprint(p.roots), Want: fmt.Sprint(want)})
				break
			}
		}
		if len(resp.Files) != len(all) {
			res.Mismatches = append(res.Mismatches, mismatch{Kind: "C18 merge lost or invented files", Input: input, Got: fmt.Sprint(len(resp.Files)), Want: fmt.Sprint(len(all))})
		}
	}
	res.Hist["transport-backed fan-out"]++
}

func main() {
	seed := flag.Uint64("seed", 1, "seed")
	tier := flag.String("tier", "quick", "quick|thorough")
	outPath = flag.String("out", "", "result file")
	flag.Parse()
	r := rng.New(*seed*0x9E3779B97F4A7C15 + 0x1800)
	r.U64()
	res := &result{Hist: map[string]int{}}
	ks := []int{2, 3, 8, 17, 64}
	reps := 30
	roundsPer := 10
	if *tier == "thorough" {
		ks = []int{2, 3, 4, 5, 8, 13, 17, 32, 48, 64}
		reps = 60
		roundsPer = 30
	}
	seenModel := map[string]bool{}
	for _, procs := range []int{1, 2, 16} {
		runtime.GOMAXPROCS(procs)
		for _, k := range ks {
			for round := 0; round < roundsPer; round++ {
				ops := randomOps(r, k)
				base := make([]string, k)
				// the answer of every operation run alone: in every other round only after the
				// concurrent runs, so that those are the first ever to see these inputs (state
				// that the library keys by content — a name it has met, a size it has seen — is
				// then built up concurrently, not by this loop)
				baseAfter := round%2 == 1
				alone := func() {
					for i, o := range ops {
						base[i] = o.run()
						if o.model != "" && !seenModel[o.model+"\x00"+base[i]] {
							seenModel[o.model+"\x00"+base[i]] = true
							res.ModelOps = append(res.ModelOps, modelOp{Driver: "wire", Op: o.model, Impl: base[i], Kind: "C18 " + o.kind + " alone vs wire model"})
						}
						res.Hist[o.kind]++
					}
				}
				if !baseAfter {
					alone()
				}
				// concurrent execution
				stop := make(chan struct{})
				var gcs sync.WaitGroup
				gcs.Add(1)
				go func() {
					defer gcs.Done()
					for {
						select {
						case <-stop:
							return
						default:
							runtime.GC()
							time.Sleep(200 * time.Microsecond)
						}
					}
				}()
				yields := make([]int, k)
				for i := range yields {
					yields[i] = r.Intn(4)
				}
				var wg sync.WaitGroup
				start := make(chan struct{})
				gots := make([][]string, k)
				for i := 0; i < k; i++ {
					wg.Add(1)
					gots[i] = make([]string, reps)
					go func(i int) {
						defer wg.Done()
						<-start
						for rep := 0; rep < reps; rep++ {
							for y := 0; y < yields[i]; y++ {
								runtime.Gosched()
							}
							gots[i][rep] = ops[i].run()
						}
					}(i)
				}
				close(start)
				wg.Wait()
				if baseAfter {
					alone()
				}
				for i := range gots {
					for _, got := range gots[i] {
						if got != base[i] && len(res.Mismatches) < 30 {
							res.Mismatches = append(res.Mismatches, mismatch{Kind: "C18 concurrent result differs from sequential result (" + ops[i].kind + ")",
								Input: fmt.Sprintf("GOMAXPROCS=%d K=%d op %d: %s %s", procs, k, i, ops[i].kind, ops[i].model), Got: got, Want: base[i]})
						}
					}
				}
				close(stop)
				gcs.Wait()
				res.Rounds++
				res.Ops += k
				res.Executions += k * (reps + 1)
				res.Hist[fmt.Sprintf("GOMAXPROCS=%d", procs)] += k
				res.Hist[fmt.Sprintf("K=%d", k)]++
				sendRound(r, k, res)
				mergeRound(r, k, res)
				transportRound(r, k, res)
			}
		}
	}
	finish(res)
}

var outPath *string

// finish writes the result file and ends the process.
func finish(res *result) {
	b, _ := json.Marshal(res)
	if err := os.WriteFile(*outPath, b, 0o644); err != nil {
		fmt.Fprintln(os.Stderr, err)
		os.Exit(3)
	}
	os.Exit(0)
}
