// Command namecheck compares thriftrw's name mapping (gen.goCase, gen.constantName, exposed
// by the verif hook gen/verif_export.go) with the Lean model M-Gen Naming (C06).
package main

import (
	"flag"
	"fmt"
	"os"
	"strings"

	"go.uber.org/thriftrw/gen"

	"verifharness/internal/lineproto"
	"verifharness/internal/report"
	"verifharness/internal/rng"
)

var (
	prop   = flag.String("prop", "C06", "property id")
	tier   = flag.String("tier", "quick", "quick|thorough")
	driver = flag.String("driver", "", "path to schemadrv")
	out    = flag.String("out", "", "report file")
	corpus = flag.String("corpus", "", "corpus dir (unused)")
	replay = flag.String("replay", "", "replay file (op lines)")
)

var words = []string{"foo", "Foo", "FOO", "id", "Id", "ID", "http", "HTTP", "url", "Url", "x", "X", "a1", "A1", "9", "uuid", "UTF8", "utf8",
	"Api", "bar", "BAR", "baz", "type", "func", "String", "ToWire", "Error", "userId", "UserID", "Json", "xml", "VM", "vm", "Ttl"}

func ident(r *rng.R) string {
	n := 1 + r.Intn(4)
	var parts []string
	for i := 0; i < n; i++ {
		if r.Chance(1, 12) {
			parts = append(parts, "") // consecutive / leading / trailing underscores
			continue
		}
		w := words[r.Intn(len(words))]
		if r.Chance(1, 6) {
			b := []byte(w)
			for j := range b {
				if r.Bool() && b[j] >= 'a' && b[j] <= 'z' {
					b[j] -= 32
				}
			}
			w = string(b)
		}
		parts = append(parts, w)
	}
	s := strings.Join(parts, "_")
	if s == "" {
		s = "x"
	}
	if r.Chance(1, 15) {
		s = s + "." + words[r.Intn(len(words))]
	}
	return s
}

func safe(f func() string) (res string) {
	defer func() {
		if e := recover(); e != nil {
			res = "panic"
		}
	}()
	return "ok " + f()
}

func main() {
	flag.Parse()
	rep := report.New(*prop)
	r := rng.FromEnv(0x6060)
	n := 20000
	if *tier == "thorough" {
		n = 400000
	}
	var ops, impl []string
	add := func(op, id string) {
		ops = append(ops, op+" "+id)
		if op == "gocase" {
			impl = append(impl, safe(func() string { return gen.VerifGoCase(id) }))
		} else {
			impl = append(impl, safe(func() string { return gen.VerifConstantName(id) }))
		}
	}
	if *replay != "" {
		b, _ := os.ReadFile(*replay)
		for _, l := range strings.Split(string(b), "\n") {
			f := strings.Fields(l)
			if len(f) == 2 && (f[0] == "gocase" || f[0] == "constname") {
				add(f[0], f[1])
			}
		}
	} else {
		for i := 0; i < n; i++ {
			id := ident(r)
			op := "gocase"
			if r.Chance(1, 3) {
				op = "constname"
			}
			add(op, id)
			if i < 5 {
				rep.Sample(op + " " + id)
			}
			rep.Hist("op", op)
			rep.Hist("underscores", fmt.Sprint(strings.Count(id, "_")))
			rep.Case(op+" "+id, strings.ContainsAny(id, "_ABCDEFGHIJKLMNOPQRSTUVWXYZ"))
		}
	}
	ans, err := lineproto.Run(*driver, ops)
	if err != nil {
		fmt.Fprintln(os.Stderr, "namecheck:", err)
		os.Exit(3)
	}
	for i := range ops {
		if ans[i] != impl[i] {
			rep.Disagree(report.Disagreement{Kind: "C06 name mapping: gen vs model", Input: ops[i], Impl: impl[i], Model: ans[i]})
		}
	}
	rep.Rule = "random identifiers built from case-varied words, initialisms, digits, Go keywords and method names joined by 0..3 underscores (incl. empty words, dotted names); goCase and constantName of the real generator (verif hook) vs the Lean model; non-trivial = contains an underscore or an upper-case letter; distinct by (op, identifier)"
	if err := rep.Write(*out); err != nil {
		os.Exit(3)
	}
}
