// Command idlcheck is the correspondence check between thriftrw's Thrift IDL parser
// (idl, idl/internal, ast.Walk) and the Lean model M-Idl, plus the implementation-side
// property oracles of C11.
package main

import (
	"bufio"
	"encoding/json"
	"flag"
	"fmt"
	"hash/fnv"
	"os"
	"path/filepath"
	"sort"
	"strings"

	"go.uber.org/thriftrw/ast"
	"go.uber.org/thriftrw/idl"

	"verifharness/internal/lineproto"
	"verifharness/internal/report"
	"verifharness/internal/rng"
)

var (
	prop   = flag.String("prop", "C11", "property id")
	tier   = flag.String("tier", "quick", "quick|thorough")
	driver = flag.String("driver", "", "path to the Lean idl driver")
	out    = flag.String("out", "", "report file")
	replay = flag.String("replay", "", "replay file (ops, one per line, or a replay JSON)")
	corpus = flag.String("corpus", "", "corpus directory")
)

type pending struct{ op, impl, kind string }

type knownAcc struct {
	n     int
	first string
}

type checker struct {
	rep   *report.Report
	pend  []pending
	known map[string]*knownAcc
}

func (c *checker) expect(kind, op, impl string) {
	c.pend = append(c.pend, pending{op: op, impl: impl, kind: kind})
	if len(c.pend) >= 4000 {
		c.flush()
	}
}

func (c *checker) oracle(kind, input, impl, why string) {
	c.rep.Disagree(report.Disagreement{Kind: kind, Input: input, Impl: clip(impl), Oracle: clip(why)})
}

func clip(s string) string {
	if len(s) > 1500 {
		return s[:1500] + "…"
	}
	return s
}

func (c *checker) knownFinding(id, example string) {
	k := c.known[id]
	if k == nil {
		k = &knownAcc{first: example}
		c.known[id] = k
	}
	k.n++
}

func (c *checker) flush() {
	if len(c.pend) == 0 {
		return
	}
	ops := make([]string, len(c.pend))
	for i, p := range c.pend {
		ops[i] = p.op
	}
	ans, err := lineproto.Run(*driver, ops)
	if err != nil {
		fmt.Fprintln(os.Stderr, "idlcheck:", err)
		os.Exit(3)
	}
	for i, p := range c.pend {
		if ans[i] != p.impl {
			c.rep.Disagree(report.Disagreement{Kind: p.kind, Input: p.op, Impl: clip(p.impl), Model: clip(ans[i])})
		}
	}
	c.pend = c.pend[:0]
}

// known (unrepaired) findings. D16, D65 and D66 were repaired in /repo; their corpus witnesses are
// ordinary regression inputs now: failing one is a violation.
var findingText = map[string]string{
	"D18": "a keyword (or reserved word) directly followed by a newline reports the position after the newline: line+k, column ≤ 0; a docstring before it is dropped",
	"D19": "a constant value directly after '=' or ':' is given the position of that '=' / ':'",
	"D20": "a service's parent reference is given the position of 'extends'",
	"D61": "idl.Info.Pos of an integer/double/boolean/string constant is the position of the LAST constant with an equal value (NodePositions is keyed by node value)",
	"D62": "'/**/' followed later by any '*/' is scanned as one docstring: everything in between is swallowed and its newlines are not counted",
	"D63": "a syntax error at end of input that follows blanks, a comment or an unterminated comment is reported at column 1-lineStart (≤ 0): the scanner resets ts to 0 when it skips",
}

// ---- the generic oracles: any byte string ----

func lineStarts(doc []byte) []int {
	ls := []int{0}
	for i, b := range doc {
		if b == '\n' {
			ls = append(ls, i+1)
		}
	}
	return ls
}

// insideDoc: 1 ≤ line ≤ lines+1 and 1 ≤ column ≤ length of that line + 1.
func insideDoc(doc []byte, ls []int, l, col int) bool {
	if l < 1 || l > len(ls) {
		return false
	}
	end := len(doc)
	if l < len(ls) {
		end = ls[l] - 1
	}
	return col >= 1 && col <= end-ls[l-1]+1
}

// explainOutside attributes an out-of-document error position to a known finding: the column
// was computed from an offset o that lies before the start of the reported line.
func explainOutside(doc []byte, ls []int, l, col int) string {
	if l < 1 || l > len(ls) {
		return ""
	}
	// a docstring that starts with "/**/" and spans lines (D62) loses newlines: every later
	// line number, and every column computed against a line start, is off
	// (every occurrence is looked at: an earlier "/**/" may end on the same line — found by the
	// thorough tier, where the first of three ended inside "/*/" and a later one spanned a line)
	for from := 0; ; {
		i := strings.Index(string(doc[from:]), "/**/")
		if i < 0 {
			break
		}
		i += from
		if j := strings.Index(string(doc[i+4:]), "*/"); j >= 0 && strings.Contains(string(doc[i+4:i+4+j]), "\n") {
			return "D62"
		}
		from = i + 1
	}
	o := ls[l-1] + col - 1
	if o >= ls[l-1] && o <= len(doc) {
		// beyond the end of the reported line: the scanner lost newlines. The only construct that
		// does that and lets scanning go on is a docstring that starts with "/**/" (D62).
		if i := strings.Index(string(doc), "/**/"); i >= 0 && i < o && strings.Contains(string(doc[i+4:o]), "\n") {
			return "D62"
		}
		return ""
	}
	if o < 0 || o > len(doc) {
		return ""
	}
	if o == 0 {
		return "D63"
	}
	rest := string(doc[o:])
	if strings.HasPrefix(rest, "/*") {
		return "D63"
	}
	for _, lists := range [][]string{keywordList, reservedList} {
		for _, k := range lists {
			if strings.HasPrefix(rest, k) {
				return "D18"
			}
		}
	}
	return ""
}

// checkAny runs one document through the implementation, evaluates the oracles that hold for
// every byte string, and queues the model comparison.
func (c *checker) checkAny(doc []byte, how string) implResult {
	op := "parse " + hx(string(doc))
	res := implParse(doc)
	c.rep.Hist("how", how)
	okRes := res.prog != nil && len(res.errs) == 0
	outcome := "errors"
	if okRes {
		outcome = "program"
	}
	c.rep.Hist("outcome", outcome)
	c.rep.Case(string(doc), len(doc) > 0)
	if res.panicked != "" {
		c.oracle("C11 panic", op, res.answer, "idl.Parse panicked")
		return res
	}
	if res.both || strings.HasPrefix(res.answer, "err-type") {
		c.oracle("C11 program xor errors", op, res.answer, "program and errors at once, or neither")
	}
	if !okRes {
		if len(res.errs) == 0 {
			c.oracle("C11 empty error list", op, res.answer, "no program and no error")
		}
		ls := lineStarts(doc)
		for _, e := range res.errs {
			if !insideDoc(doc, ls, e.Line, e.Column) {
				if id := explainOutside(doc, ls, e.Line, e.Column); id != "" {
					c.knownFinding(id, op+" → "+res.answer)
				} else {
					c.oracle("C11 error position outside the document", op, res.answer, fmt.Sprintf("error at %d:%d; the document has %d lines", e.Line, e.Column, len(ls)))
				}
			}
		}
		c.rep.Hist("errors", fmt.Sprint(len(res.errs)))
	}
	c.expect("C11 idl.Parse vs model parse", op, res.answer)
	c.expect("C11 lexer vs model lexAll", "lex "+hx(string(doc)), implLex(doc))
	if okRes {
		wa, visits, pan := implWalk(res)
		if pan != "" {
			c.oracle("C11 walk panic", "walk "+hx(string(doc)), wa, "ast.Walk panicked")
			return res
		}
		want := flatten(res)
		if msg := compareVisits(want, visits); msg != "" {
			c.oracle("C11 walk does not visit every node once with its true parent", "walk "+hx(string(doc)), wa, msg)
		}
		c.expect("C11 ast.Walk vs model walk", "walk "+hx(string(doc)), wa)
		// a visitor that hands out a fresh visitor per node and prunes some sub-trees
		for salt := uint32(0); salt < 2; salt++ {
			pa, pv, ppan := implWalkPruning(res, salt)
			if ppan != "" {
				c.oracle("C11 walk panic", "walk "+hx(string(doc)), pa, "ast.Walk panicked with a visitor that returns nil / a fresh visitor")
				break
			}
			if msg := compareVisits(prunedWalk(visits, salt), pv); msg != "" {
				c.oracle("C11 walk with a pruning visitor", "walk "+hx(string(doc)), pa,
					"the walk must visit exactly the nodes outside the pruned sub-trees, each with the visitor returned for its parent: "+msg)
				break
			}
		}
	}
	return res
}

// pruneAt decides (from the label only) whether the visitor returns nil at a node.
func pruneAt(label string, depth int, salt uint32) bool {
	if depth == 0 {
		return false
	}
	h := fnv.New32a()
	h.Write([]byte(label))
	return (h.Sum32()^salt*2654435761)%4 == 0
}

// prunedWalk is what a pruning visitor must see, given the full pre-order walk.
func prunedWalk(full []visit, salt uint32) []visit {
	var out []visit
	skip := -1
	for _, v := range full {
		if skip >= 0 && v.depth > skip {
			continue
		}
		skip = -1
		out = append(out, v)
		if pruneAt(v.label, v.depth, salt) {
			skip = v.depth
		}
	}
	return out
}

// pruningVisitor carries the depth it was created for; Visit returns a fresh
// visitor for the children, or nil to prune.
type pruningVisitor struct {
	depth  int
	salt   uint32
	d      *dumper
	visits *[]visit
	bad    *string
}

func (p *pruningVisitor) Visit(w ast.Walker, n ast.Node) ast.Visitor {
	parent := "-"
	if q := w.Parent(); q != nil {
		parent = p.d.label(q)
	}
	label := p.d.label(n)
	depth := len(w.Ancestors())
	if depth != p.depth && *p.bad == "" {
		*p.bad = fmt.Sprintf("%s at depth %d was visited with the visitor returned at depth %d", label, depth, p.depth-1)
	}
	*p.visits = append(*p.visits, visit{label: label, parent: parent, depth: depth})
	if pruneAt(label, depth, p.salt) {
		return nil
	}
	return &pruningVisitor{depth: p.depth + 1, salt: p.salt, d: p.d, visits: p.visits, bad: p.bad}
}

func implWalkPruning(r implResult, salt uint32) (answer string, visits []visit, panicked string) {
	defer func() {
		if p := recover(); p != nil {
			panicked = fmt.Sprint(p)
			answer = "panic " + panicked
		}
	}()
	bad := ""
	ast.Walk(&pruningVisitor{salt: salt, d: &dumper{info: r.info}, visits: &visits, bad: &bad}, r.prog)
	parts := make([]string, len(visits))
	for i, v := range visits {
		parts[i] = v.label + "^" + v.parent
	}
	answer = fmt.Sprintf("ok %d %s", len(visits), strings.Join(parts, " "))
	if bad != "" {
		// reported through compareVisits' caller as a mismatch of the visit list
		visits = append(visits, visit{label: "wrong-visitor: " + bad, depth: -1})
	}
	return answer, visits, ""
}

// compareVisits: the walk must be exactly the pre-order of the tree (same nodes, same depths);
// the parent handed to the visitor must be the nearest earlier node one level up.
func compareVisits(want, got []visit) string {
	if len(want) != len(got) {
		return fmt.Sprintf("the tree has %d nodes, the walk made %d visits", len(want), len(got))
	}
	stack := []string{}
	for i := range want {
		if want[i].label != got[i].label || want[i].depth != got[i].depth {
			return fmt.Sprintf("visit %d: want %s at depth %d, got %s at depth %d", i, want[i].label, want[i].depth, got[i].label, got[i].depth)
		}
		d := got[i].depth
		if d > len(stack) {
			return fmt.Sprintf("visit %d: depth jumps to %d", i, d)
		}
		stack = stack[:d]
		parent := "-"
		if d > 0 {
			parent = stack[d-1]
		}
		if got[i].parent != parent {
			return fmt.Sprintf("visit %d (%s): Parent() is %s, the true parent is %s", i, got[i].label, got[i].parent, parent)
		}
		stack = append(stack, got[i].label)
	}
	return ""
}

// ---- the main oracle: parse(render(ast)) = ast ----

func firstDiff(a, b string) string {
	x, y := strings.Fields(a), strings.Fields(b)
	for i := 0; i < len(x) && i < len(y); i++ {
		if x[i] != y[i] {
			lo := i - 3
			if lo < 0 {
				lo = 0
			}
			return fmt.Sprintf("token %d: got %q want %q (context: %s)", i, x[i], y[i], strings.Join(y[lo:i+1], " "))
		}
	}
	return fmt.Sprintf("lengths differ: %d vs %d tokens", len(x), len(y))
}

func (c *checker) checkRendered(rd *rendered, how string) {
	res := c.checkAny(rd.doc, how)
	if res.panicked != "" {
		return
	}
	// replayable form: the document and what the current code is known to answer for it (the
	// printer's tree with the known position rules applied)
	witness := fmt.Sprintf("witness GEN %s %s", hx(string(rd.doc)), rd.repDump)
	switch res.answer {
	case rd.trueDump:
		c.rep.Hist("faithful", "true positions")
	case rd.repDump:
		c.rep.Hist("faithful", "positions as known findings predict")
		for id := range rd.rules {
			c.knownFinding(id, "parse "+hx(string(rd.doc)))
		}
	default:
		c.oracle("C11 parse(render(ast)) is not the printed tree", witness, res.answer,
			"differs from the printer's tree even after applying the known position rules: "+firstDiff(res.answer, rd.repDump))
	}
}

// ---- corpus / replay ----

func (c *checker) runLine(line string) {
	f := strings.Fields(line)
	if len(f) < 2 || strings.HasPrefix(line, "#") {
		return
	}
	switch f[0] {
	case "parse", "walk", "lex":
		doc, err := unhx(f[1])
		if err == nil {
			c.checkAny(doc, "replay")
		}
	case "witness":
		if len(f) < 4 {
			return
		}
		doc, err := unhx(f[2])
		if err != nil {
			return
		}
		res := c.checkAny(doc, "witness")
		truth := strings.Join(f[3:], " ")
		holds := res.answer == truth
		if truth == "inside" {
			holds = true
			ls := lineStarts(doc)
			for _, e := range res.errs {
				holds = holds && insideDoc(doc, ls, e.Line, e.Column)
			}
		}
		_, isFinding := findingText[f[1]]
		switch {
		case holds && isFinding:
			c.rep.Notes = append(c.rep.Notes, "finding "+f[1]+" no longer reproduces on its witness: "+line[:min(len(line), 120)])
		case !holds && isFinding:
			c.knownFinding(f[1], "parse "+f[2]+" → "+res.answer)
		case !holds:
			kind := "C11 parse(render(ast)) is not the printed tree"
			if f[1] != "GEN" {
				kind = "C11 regression of repaired finding " + f[1]
			}
			c.oracle(kind, line, res.answer, "want "+truth+"; "+firstDiff(res.answer, truth))
		}
	case "unq1", "unq2":
		b, err := unhx(f[1])
		if err == nil {
			c.expect("C11 Unquote vs model", f[0]+" "+f[1], implUnquote(f[0] == "unq1", b))
			c.rep.Case(line, true)
		}
	case "doc":
		b, err := unhx(f[1])
		if err == nil {
			c.expect("C11 ParseDocstring vs model", line, "ok "+hx(idl.VerifParseDocstring(string(b))))
			c.rep.Case(line, true)
		}
	}
}

func (c *checker) runFile(path string) {
	fh, err := os.Open(path)
	if err != nil {
		return
	}
	defer fh.Close()
	if strings.HasSuffix(path, ".json") {
		var doc struct {
			Disagreements []struct {
				Input string `json:"input"`
			} `json:"disagreements"`
		}
		if json.NewDecoder(fh).Decode(&doc) == nil {
			for _, d := range doc.Disagreements {
				c.runLine(d.Input)
			}
		}
		return
	}
	sc := bufio.NewScanner(fh)
	sc.Buffer(make([]byte, 1<<20), 1<<28)
	for sc.Scan() {
		c.runLine(sc.Text())
	}
}

func (c *checker) runCorpus(dir string) {
	if dir == "" {
		return
	}
	files, _ := filepath.Glob(filepath.Join(dir, "*"))
	sort.Strings(files)
	for _, f := range files {
		c.runFile(f)
	}
	c.flush()
	c.rep.Hist("how", fmt.Sprintf("corpus-files:%d", len(files)))
}

func implUnquote(single bool, b []byte) (ans string) {
	defer func() {
		if p := recover(); p != nil {
			ans = "panic " + fmt.Sprint(p)
		}
	}()
	var s string
	var err error
	if single {
		s, err = idl.VerifUnquoteSingleQuoted(b)
	} else {
		s, err = idl.VerifUnquoteDoubleQuoted(b)
	}
	if err != nil {
		return "err"
	}
	return "ok " + hx(s)
}

func main() {
	flag.Parse()
	rep := report.New(*prop)
	c := &checker{rep: rep, known: map[string]*knownAcc{}}
	r := rng.FromEnv(0x1100)
	if *replay != "" {
		c.runFile(*replay)
		c.flush()
		rep.Rule = "replay of " + *replay
	} else {
		c.runCorpus(*corpus)
		runStreams(c, r)
		c.flush()
	}
	ids := make([]string, 0, len(c.known))
	for id := range c.known {
		ids = append(ids, id)
	}
	sort.Strings(ids)
	for _, id := range ids {
		k := c.known[id]
		rep.Known = append(rep.Known, report.Known{ID: id, What: fmt.Sprintf("%s — reproduced on %d inputs, e.g. %s", findingText[id], k.n, clip(k.first)[:min(len(clip(k.first)), 300)])})
	}
	if err := rep.Write(*out); err != nil {
		fmt.Fprintln(os.Stderr, err)
		os.Exit(3)
	}
}
