package main

// The harness's own abstract syntax (independent of /repo/ast): what the generator draws,
// what the printer renders, and — with the positions the printer recorded — what a faithful
// parser has to return. `dumpX` prints it in the driver's answer syntax, either with the TRUE
// positions or with the positions the current code is known to report (D18, D19, D20, D61).

import (
	"fmt"
	"strings"
)

type Pos struct{ L, C int }

func (p Pos) String() string { return fmt.Sprintf("%d:%d", p.L, p.C) }

// TokPos is the position of one printed token: where it really starts, and what lex.Pos()
// is known to say right after it was scanned (differs for a keyword followed by a newline, D18).
type TokPos struct {
	True, Rep Pos
	NLAfter   int // newlines in the blanks a keyword absorbed
}

// XPos is a node position: first token, plus (D19/D20) the preceding token whose position
// the parser is known to report instead.
type XPos struct {
	Tok  *TokPos
	Via  *TokPos
	VRul string // "D19" or "D20" when Via is set
	// filled by finalize:
	True, Rep Pos
	Rules     []string
}

type XAnn struct {
	Name, Value string
	HasValue    bool
	P           XPos
}

type XType struct {
	Kind string // base map list set ref
	Base string // bool i8 … (byte prints as "byte" but is i8)
	Byte bool
	Name string
	K, V *XType
	Anns []*XAnn
	P    XPos
}

type XConst struct {
	Kind  string // int dbl bool str cref clist cmap
	Int   int64
	IText string // how the integer is written
	Bits  uint64
	DText string
	B     bool
	S     string
	Name  string
	Items []*XConst
	KVs   []*XKV
	P     XPos
}

type XKV struct {
	K, V *XConst
	P    XPos
}

type XDoc struct {
	Lines    []string // intended text; nil = no docstring
	Detached bool     // separated from the node by more than one newline → not attached
	// filled by the printer:
	JointNL    int    // newlines between the docstring and the first token of the node
	ExpectTrue string // what a faithful parser attaches
	ExpectRep  string // what the current code is known to attach (D18 can drop it)
}

type XField struct {
	ID      int64
	IDText  string
	Unset   bool
	Name    string
	Req     int
	T       *XType
	Default *XConst
	Anns    []*XAnn
	Doc     XDoc
	P       XPos
}

type XFn struct {
	Name      string
	Oneway    bool
	Ret       *XType
	Params    []*XField
	HasThrows bool
	Exc       []*XField
	Anns      []*XAnn
	Doc       XDoc
	P         XPos
}

type XItem struct {
	Name   string
	Value  *int64
	VText  string
	Anns   []*XAnn
	Doc    XDoc
	P      XPos
}

type XDef struct {
	Kind    string // const typedef enum struct union exception service
	Name    string
	T       *XType
	V       *XConst
	Items   []*XItem
	Fields  []*XField
	Fns     []*XFn
	Parent  string
	ParentP XPos
	Anns    []*XAnn
	Doc     XDoc
	P       XPos
}

type XHeader struct {
	Kind              string // inc cpp ns
	Name, Path, Scope string
	P                 XPos
}

type XProg struct {
	Headers []*XHeader
	Defs    []*XDef
}

// ---- dump in the driver's syntax ----

type xdumper struct{ rep bool }

func (d xdumper) pos(p *XPos) string {
	if d.rep {
		return p.Rep.String()
	}
	return p.True.String()
}

func (d xdumper) doc(x *XDoc) string {
	if d.rep {
		return hx(x.ExpectRep)
	}
	return hx(x.ExpectTrue)
}

func (d xdumper) anns(as []*XAnn) string {
	parts := make([]string, len(as))
	for i, a := range as {
		parts[i] = fmt.Sprintf("(ann %s %s %s)", d.pos(&a.P), hx(a.Name), hx(a.Value))
	}
	return "[" + strings.Join(parts, " ") + "]"
}

func (d xdumper) typ(t *XType) string {
	switch t.Kind {
	case "base":
		return fmt.Sprintf("(base %s %s %s)", d.pos(&t.P), t.Base, d.anns(t.Anns))
	case "map":
		return fmt.Sprintf("(map %s %s %s %s)", d.pos(&t.P), d.typ(t.K), d.typ(t.V), d.anns(t.Anns))
	case "list", "set":
		return fmt.Sprintf("(%s %s %s %s)", t.Kind, d.pos(&t.P), d.typ(t.V), d.anns(t.Anns))
	}
	return fmt.Sprintf("(ref %s %s)", d.pos(&t.P), hx(t.Name))
}

func (d xdumper) constant(c *XConst) string {
	switch c.Kind {
	case "int":
		return fmt.Sprintf("(int %s %d)", d.pos(&c.P), c.Int)
	case "dbl":
		return fmt.Sprintf("(dbl %s %d)", d.pos(&c.P), c.Bits)
	case "bool":
		b := 0
		if c.B {
			b = 1
		}
		return fmt.Sprintf("(bool %s %d)", d.pos(&c.P), b)
	case "str":
		return fmt.Sprintf("(str %s %s)", d.pos(&c.P), hx(c.S))
	case "cref":
		return fmt.Sprintf("(cref %s %s)", d.pos(&c.P), hx(c.Name))
	case "clist":
		parts := make([]string, len(c.Items))
		for i, x := range c.Items {
			parts[i] = d.constant(x)
		}
		return fmt.Sprintf("(clist %s [%s])", d.pos(&c.P), strings.Join(parts, " "))
	}
	parts := make([]string, len(c.KVs))
	for i, kv := range c.KVs {
		parts[i] = fmt.Sprintf("(kv %s %s %s)", d.pos(&kv.P), d.constant(kv.K), d.constant(kv.V))
	}
	return fmt.Sprintf("(cmap %s [%s])", d.pos(&c.P), strings.Join(parts, " "))
}

func (d xdumper) fields(fs []*XField) string {
	parts := make([]string, len(fs))
	for i, f := range fs {
		id := "-"
		if !f.Unset {
			id = fmt.Sprint(f.ID)
		}
		def := "-"
		if f.Default != nil {
			def = d.constant(f.Default)
		}
		parts[i] = fmt.Sprintf("(field %s %s %s %s %d %s %s %s)", d.pos(&f.P), id, hx(f.Name), d.doc(&f.Doc), f.Req, d.typ(f.T), def, d.anns(f.Anns))
	}
	return "[" + strings.Join(parts, " ") + "]"
}

func (d xdumper) definition(x *XDef) string {
	switch x.Kind {
	case "const":
		return fmt.Sprintf("(const %s %s %s %s %s)", d.pos(&x.P), hx(x.Name), d.doc(&x.Doc), d.typ(x.T), d.constant(x.V))
	case "typedef":
		return fmt.Sprintf("(typedef %s %s %s %s %s)", d.pos(&x.P), hx(x.Name), d.doc(&x.Doc), d.typ(x.T), d.anns(x.Anns))
	case "enum":
		parts := make([]string, len(x.Items))
		for i, it := range x.Items {
			v := "-"
			if it.Value != nil {
				v = fmt.Sprint(*it.Value)
			}
			parts[i] = fmt.Sprintf("(item %s %s %s %s %s)", d.pos(&it.P), hx(it.Name), d.doc(&it.Doc), v, d.anns(it.Anns))
		}
		return fmt.Sprintf("(enum %s %s %s [%s] %s)", d.pos(&x.P), hx(x.Name), d.doc(&x.Doc), strings.Join(parts, " "), d.anns(x.Anns))
	case "struct", "union", "exception":
		return fmt.Sprintf("(%s %s %s %s %s %s)", x.Kind, d.pos(&x.P), hx(x.Name), d.doc(&x.Doc), d.fields(x.Fields), d.anns(x.Anns))
	}
	parent := "-"
	if x.Parent != "" {
		parent = fmt.Sprintf("(ext %s %s)", d.pos(&x.ParentP), hx(x.Parent))
	}
	parts := make([]string, len(x.Fns))
	for i, f := range x.Fns {
		ret := "void"
		if f.Ret != nil {
			ret = d.typ(f.Ret)
		}
		ow := 0
		if f.Oneway {
			ow = 1
		}
		parts[i] = fmt.Sprintf("(fn %s %s %s %d %s %s %s %s)", d.pos(&f.P), hx(f.Name), d.doc(&f.Doc), ow, ret, d.fields(f.Params), d.fields(f.Exc), d.anns(f.Anns))
	}
	return fmt.Sprintf("(service %s %s %s %s [%s] %s)", d.pos(&x.P), hx(x.Name), d.doc(&x.Doc), parent, strings.Join(parts, " "), d.anns(x.Anns))
}

func (d xdumper) program(p *XProg) string {
	hs := make([]string, len(p.Headers))
	for i, h := range p.Headers {
		switch h.Kind {
		case "inc":
			hs[i] = fmt.Sprintf("(inc %s %s %s)", d.pos(&h.P), hx(h.Name), hx(h.Path))
		case "cpp":
			hs[i] = fmt.Sprintf("(cpp %s %s)", d.pos(&h.P), hx(h.Path))
		default:
			hs[i] = fmt.Sprintf("(ns %s %s %s)", d.pos(&h.P), hx(h.Scope), hx(h.Name))
		}
	}
	ds := make([]string, len(p.Defs))
	for i, x := range p.Defs {
		ds[i] = d.definition(x)
	}
	return "P[" + strings.Join(hs, " ") + "][" + strings.Join(ds, " ") + "]"
}

// ---- the tree as a walk must see it: (label, depth) in pre-order ----

type xvisit struct {
	kind  string
	p     *XPos // nil for the program
	depth int
}

type xwalker struct{ out []xvisit }

func (w *xwalker) add(kind string, p *XPos, depth int) { w.out = append(w.out, xvisit{kind, p, depth}) }

func (w *xwalker) anns(as []*XAnn, depth int) {
	for _, a := range as {
		w.add("ann", &a.P, depth)
	}
}

func (w *xwalker) typ(t *XType, depth int) {
	w.add(t.Kind, &t.P, depth)
	switch t.Kind {
	case "map":
		w.typ(t.K, depth+1)
		w.typ(t.V, depth+1)
	case "list", "set":
		w.typ(t.V, depth+1)
	}
	w.anns(t.Anns, depth+1)
}

func (w *xwalker) constant(c *XConst, depth int) {
	w.add(c.Kind, &c.P, depth)
	for _, x := range c.Items {
		w.constant(x, depth+1)
	}
	for _, kv := range c.KVs {
		w.add("kv", &kv.P, depth+1)
		w.constant(kv.K, depth+2)
		w.constant(kv.V, depth+2)
	}
}

func (w *xwalker) fields(fs []*XField, depth int) {
	for _, f := range fs {
		w.add("field", &f.P, depth)
		w.typ(f.T, depth+1)
		if f.Default != nil {
			w.constant(f.Default, depth+1)
		}
		w.anns(f.Anns, depth+1)
	}
}

func (w *xwalker) program(p *XProg) {
	w.add("prog", nil, 0)
	for _, h := range p.Headers {
		w.add(h.Kind, &h.P, 1)
	}
	for _, x := range p.Defs {
		w.add(x.Kind, &x.P, 1)
		switch x.Kind {
		case "const":
			w.typ(x.T, 2)
			w.constant(x.V, 2)
		case "typedef":
			w.typ(x.T, 2)
		case "enum":
			for _, it := range x.Items {
				w.add("item", &it.P, 2)
				w.anns(it.Anns, 3)
			}
		case "struct", "union", "exception":
			w.fields(x.Fields, 2)
		case "service":
			for _, f := range x.Fns {
				w.add("fn", &f.P, 2)
				if f.Ret != nil {
					w.typ(f.Ret, 3)
				}
				w.fields(f.Params, 3)
				w.fields(f.Exc, 3)
				w.anns(f.Anns, 3)
			}
		}
		w.anns(x.Anns, 2)
	}
}
