package main

// Random programs from the full thrift.y grammar (abstract syntax of xast.go).

import (
	"math"
	"strconv"
	"strings"

	"verifharness/internal/rng"
)

var keywordList = []string{"include", "cpp_include", "namespace", "void", "bool", "byte", "i8", "i16", "i32", "i64",
	"double", "string", "binary", "map", "list", "set", "oneway", "typedef", "struct", "union", "exception",
	"extends", "throws", "service", "enum", "const", "required", "optional", "true", "false"}

var reservedList = []string{"BEGIN", "END", "__CLASS__", "__DIR__", "__FILE__", "__FUNCTION__", "__LINE__", "__METHOD__",
	"__NAMESPACE__", "abstract", "alias", "and", "args", "as", "assert", "begin", "break", "case", "catch", "class",
	"clone", "continue", "declare", "def", "default", "del", "delete", "do", "dynamic", "elif", "else", "elseif",
	"elsif", "end", "enddeclare", "endfor", "endforeach", "endif", "endswitch", "endwhile", "ensure", "except",
	"exec", "finally", "float", "for", "foreach", "from", "function", "global", "goto", "if", "implements",
	"import", "in", "inline", "instanceof", "interface", "is", "lambda", "module", "native", "new", "next", "nil",
	"not", "or", "package", "pass", "public", "print", "private", "protected", "raise", "redo", "rescue", "retry",
	"register", "return", "self", "sizeof", "static", "super", "switch", "synchronized", "then", "this", "throw",
	"transient", "try", "undef", "unless", "unsigned", "until", "use", "var", "virtual", "volatile", "when",
	"while", "with", "xor", "yield"}

var notIdent = func() map[string]bool {
	m := map[string]bool{}
	for _, k := range keywordList {
		m[k] = true
	}
	for _, k := range reservedList {
		m[k] = true
	}
	return m
}()

type gen struct {
	r        *rng.R
	maxDepth int
	big      bool
}

const identFirst = "abcdefghijklmnopqrstuvwxyzABCDEFGHIJKLMNOPQRSTUVWXYZ_"
const identRest = identFirst + "0123456789"

func (g *gen) identSeg() string {
	n := 1 + g.r.Intn(7)
	b := make([]byte, n)
	b[0] = identFirst[g.r.Intn(len(identFirst))]
	for i := 1; i < n; i++ {
		b[i] = identRest[g.r.Intn(len(identRest))]
	}
	return string(b)
}

func (g *gen) ident() string {
	for {
		s := g.identSeg()
		// sometimes something that *contains* a keyword or looks like one
		if g.r.Chance(1, 8) {
			s = keywordList[g.r.Intn(len(keywordList))] + identRest[g.r.Intn(len(identRest)):][:1]
		}
		for g.r.Chance(1, 6) {
			// '.' [a-zA-Z0-9_]
			s += "." + string(identRest[g.r.Intn(len(identRest))]) + g.identSeg()[1:]
		}
		if !notIdent[s] {
			return s
		}
	}
}

// content of a string literal: any bytes.
func (g *gen) content() string {
	n := g.r.Pick(0, 1, 2, 3, 5, 8, 13)
	var b []byte
	for len(b) < n {
		switch g.r.Intn(12) {
		case 0:
			b = append(b, '\\')
		case 1:
			b = append(b, '\'')
		case 2:
			b = append(b, '"')
		case 3:
			b = append(b, "\n\t\r\a\b\f\v\x00"[g.r.Intn(8)])
		case 4:
			b = append(b, byte(g.r.U64())) // any byte, possibly ill-formed UTF-8
		case 5:
			b = append(b, string(rune([]int{0xe9, 0x20ac, 0x1f600, 0x7ff, 0x800, 0xffff, 0x10000, 0x10ffff, 0xfffd}[g.r.Intn(9)]))...)
		case 6:
			b = append(b, "\\'"...) // the D16 neighbourhood
		default:
			b = append(b, byte(0x20+g.r.Intn(0x5f)))
		}
	}
	return string(b)
}

func (g *gen) anns() []*XAnn {
	if !g.r.Chance(1, 3) {
		return nil
	}
	n := g.r.Pick(0, 1, 1, 2, 3)
	as := make([]*XAnn, n)
	for i := range as {
		a := &XAnn{Name: g.ident()}
		if g.r.Chance(2, 3) {
			a.HasValue = true
			a.Value = g.content()
		}
		as[i] = a
	}
	if as == nil || len(as) == 0 {
		return []*XAnn{} // "()" : written, but empty
	}
	return as
}

var baseTypes = []string{"bool", "byte", "i8", "i16", "i32", "i64", "double", "string", "binary"}

func (g *gen) typ(depth int) *XType {
	k := g.r.Intn(10)
	if depth >= g.maxDepth && k >= 7 {
		k = g.r.Intn(7)
	}
	switch {
	case k < 5:
		b := baseTypes[g.r.Intn(len(baseTypes))]
		t := &XType{Kind: "base", Base: b, Anns: g.anns()}
		if b == "byte" {
			t.Base, t.Byte = "i8", true
		}
		return t
	case k < 7:
		return &XType{Kind: "ref", Name: g.ident()}
	case k == 7:
		return &XType{Kind: "map", K: g.typ(depth + 1), V: g.typ(depth + 1), Anns: g.anns()}
	case k == 8:
		return &XType{Kind: "list", V: g.typ(depth + 1), Anns: g.anns()}
	}
	return &XType{Kind: "set", V: g.typ(depth + 1), Anns: g.anns()}
}

func (g *gen) intValue() int64 {
	switch g.r.Intn(8) {
	case 0:
		return []int64{math.MaxInt64, math.MinInt64, math.MaxInt64 - 1, math.MinInt64 + 1, math.MaxInt32, math.MinInt32, 1 << 32, -(1 << 32)}[g.r.Intn(8)]
	case 1:
		return int64(g.r.U64())
	case 2:
		return -int64(g.r.Intn(1000))
	default:
		return int64(g.r.Intn(40))
	}
}

// intText picks one of the ways lex.rl lets an integer be written.
func (g *gen) intText(v int64) string {
	zeros := strings.Repeat("0", g.r.Pick(0, 0, 0, 1, 3))
	if v >= 0 {
		switch g.r.Intn(6) {
		case 0:
			return "+" + zeros + strconv.FormatInt(v, 10)
		case 1:
			h := strconv.FormatInt(v, 16)
			if g.r.Bool() {
				h = strings.ToUpper(h)
			}
			return "0x" + zeros + h
		case 2:
			if v == 0 {
				return "-0"
			}
		}
		return zeros + strconv.FormatInt(v, 10)
	}
	u := strconv.FormatUint(uint64(-v), 10) // also right for MinInt64
	return "-" + zeros + u
}

func (g *gen) doubleText() (string, uint64) {
	for {
		var sb strings.Builder
		switch g.r.Intn(4) {
		case 0:
			sb.WriteByte('-')
		case 1:
			sb.WriteByte('+')
		}
		nd := 1 + g.r.Intn(g.r.Pick(1, 3, 6, 20))
		for i := 0; i < nd; i++ {
			sb.WriteByte(byte('0' + g.r.Intn(10)))
		}
		hasFrac := g.r.Bool()
		if hasFrac {
			sb.WriteByte('.')
			nf := g.r.Intn(g.r.Pick(1, 3, 8, 25))
			for i := 0; i < nf; i++ {
				sb.WriteByte(byte('0' + g.r.Intn(10)))
			}
		}
		if !hasFrac || g.r.Bool() {
			sb.WriteByte("eE"[g.r.Intn(2)])
			switch g.r.Intn(3) {
			case 0:
				sb.WriteByte('-')
			case 1:
				sb.WriteByte('+')
			}
			e := g.r.Intn(g.r.Pick(3, 20, 310, 340))
			sb.WriteString(strings.Repeat("0", g.r.Pick(0, 0, 1)) + strconv.Itoa(e))
		}
		s := sb.String()
		f, err := strconv.ParseFloat(s, 64)
		if err != nil {
			continue // out of range: belongs to the error stream
		}
		return s, math.Float64bits(f)
	}
}

func (g *gen) constant(depth int) *XConst {
	k := g.r.Intn(12)
	if depth >= g.maxDepth && k >= 9 {
		k = g.r.Intn(9)
	}
	switch {
	case k < 3:
		v := g.intValue()
		return &XConst{Kind: "int", Int: v, IText: g.intText(v)}
	case k < 4:
		t, b := g.doubleText()
		return &XConst{Kind: "dbl", DText: t, Bits: b}
	case k < 5:
		return &XConst{Kind: "bool", B: g.r.Bool()}
	case k < 8:
		return &XConst{Kind: "str", S: g.content()}
	case k < 9:
		return &XConst{Kind: "cref", Name: g.ident()}
	case k < 11:
		n := g.r.Pick(0, 1, 2, 3, 4)
		c := &XConst{Kind: "clist"}
		for i := 0; i < n; i++ {
			c.Items = append(c.Items, g.constant(depth+1))
		}
		return c
	}
	n := g.r.Pick(0, 1, 2, 3)
	c := &XConst{Kind: "cmap"}
	for i := 0; i < n; i++ {
		c.KVs = append(c.KVs, &XKV{K: g.constant(depth + 1), V: g.constant(depth + 1)})
	}
	return c
}

var docWords = []string{"foo", "bar", "Baz.", "does", "stuff", "a*b", "x/y", "1)", "@param", "it's", "\"q\"", "/*", "*", "é", "#", "//"}

func (g *gen) docLine() string {
	for {
		n := 1 + g.r.Intn(4)
		ws := make([]string, n)
		for i := range ws {
			ws[i] = docWords[g.r.Intn(len(docWords))]
		}
		s := strings.Join(ws, " ")
		if strings.HasPrefix(s, "*") || strings.Contains(s, "*/") || strings.HasSuffix(s, "*") {
			continue
		}
		return s
	}
}

func (g *gen) doc() XDoc {
	if !g.r.Chance(2, 5) {
		return XDoc{}
	}
	n := g.r.Pick(1, 1, 2, 3)
	d := XDoc{Detached: g.r.Chance(1, 6)}
	for i := 0; i < n; i++ {
		l := g.docLine()
		if i > 0 && g.r.Chance(1, 4) {
			l = strings.Repeat(" ", 1+g.r.Intn(3)) + l // relative indentation is kept
		}
		d.Lines = append(d.Lines, l)
	}
	return d
}

func (g *gen) fields(max int) []*XField {
	n := g.r.Intn(max + 1)
	fs := make([]*XField, n)
	for i := range fs {
		f := &XField{Name: g.ident(), T: g.typ(1), Req: g.r.Pick(0, 0, 1, 2), Anns: g.anns(), Doc: g.doc()}
		if g.r.Chance(1, 5) {
			f.Unset = true
		} else {
			f.ID = int64(i + 1)
			if g.r.Chance(1, 6) {
				f.ID = g.intValue()
			}
			f.IDText = g.intText(f.ID)
		}
		if g.r.Chance(1, 3) {
			f.Default = g.constant(1)
		}
		fs[i] = f
	}
	return fs
}

func (g *gen) definition() *XDef {
	d := &XDef{Name: g.ident(), Doc: g.doc()}
	switch g.r.Intn(9) {
	case 0, 1:
		d.Kind = "const"
		d.T = g.typ(0)
		d.V = g.constant(0)
	case 2:
		d.Kind = "typedef"
		d.T = g.typ(0)
		d.Anns = g.anns()
	case 3:
		d.Kind = "enum"
		n := g.r.Intn(5)
		for i := 0; i < n; i++ {
			it := &XItem{Name: g.ident(), Anns: g.anns(), Doc: g.doc()}
			if g.r.Bool() {
				v := g.intValue()
				it.Value, it.VText = &v, g.intText(v)
			}
			d.Items = append(d.Items, it)
		}
		d.Anns = g.anns()
	case 4, 5, 6:
		d.Kind = []string{"struct", "union", "exception"}[g.r.Intn(3)]
		d.Fields = g.fields(4)
		d.Anns = g.anns()
	default:
		d.Kind = "service"
		if g.r.Chance(1, 2) {
			d.Parent = g.ident()
		}
		n := g.r.Intn(4)
		for i := 0; i < n; i++ {
			f := &XFn{Name: g.ident(), Oneway: g.r.Chance(1, 4), Params: g.fields(3), Anns: g.anns(), Doc: g.doc()}
			if !g.r.Chance(1, 3) {
				f.Ret = g.typ(1)
			}
			if g.r.Chance(1, 3) {
				f.HasThrows = true
				f.Exc = g.fields(2)
			}
			d.Fns = append(d.Fns, f)
		}
		d.Anns = g.anns()
	}
	return d
}

func (g *gen) program() *XProg {
	p := &XProg{}
	nh := g.r.Pick(0, 0, 1, 2, 3)
	for i := 0; i < nh; i++ {
		switch g.r.Intn(4) {
		case 0:
			p.Headers = append(p.Headers, &XHeader{Kind: "inc", Path: g.content()})
		case 1:
			p.Headers = append(p.Headers, &XHeader{Kind: "inc", Name: g.ident(), Path: g.content()})
		case 2:
			p.Headers = append(p.Headers, &XHeader{Kind: "cpp", Path: g.content()})
		default:
			h := &XHeader{Kind: "ns", Scope: "*", Name: g.ident()}
			if g.r.Bool() {
				h.Scope = g.ident()
			}
			p.Headers = append(p.Headers, h)
		}
	}
	nd := g.r.Pick(0, 1, 1, 2, 3, 4, 6)
	if g.big {
		nd = 4 + g.r.Intn(12)
	}
	for i := 0; i < nd; i++ {
		p.Defs = append(p.Defs, g.definition())
	}
	return p
}
