package main

// The implementation's parse result, token stream and walk in the answer syntax of the
// Lean driver (lean/ThriftVerif/Idl/Dump.lean).

import (
	"encoding/hex"
	"fmt"
	"math"
	"strings"

	"go.uber.org/thriftrw/ast"
	"go.uber.org/thriftrw/idl"
)

func hx(s string) string {
	if len(s) == 0 {
		return "-"
	}
	return hex.EncodeToString([]byte(s))
}

func unhx(s string) ([]byte, error) {
	if s == "-" {
		return nil, nil
	}
	return hex.DecodeString(s)
}

func posText(p ast.Position) string { return fmt.Sprintf("%d:%d", p.Line, p.Column) }

type dumper struct {
	info *idl.Info
	sb   strings.Builder
}

func (d *dumper) pos(n ast.Node) string { return posText(d.info.Pos(n)) }

func (d *dumper) anns(as []*ast.Annotation) string {
	var parts []string
	for _, a := range as {
		parts = append(parts, fmt.Sprintf("(ann %s %s %s)", d.pos(a), hx(a.Name), hx(a.Value)))
	}
	return "[" + strings.Join(parts, " ") + "]"
}

var baseNames = map[ast.BaseTypeID]string{
	ast.BoolTypeID: "bool", ast.I8TypeID: "i8", ast.I16TypeID: "i16", ast.I32TypeID: "i32",
	ast.I64TypeID: "i64", ast.DoubleTypeID: "double", ast.StringTypeID: "string", ast.BinaryTypeID: "binary",
}

func (d *dumper) typ(t ast.Type) string {
	switch x := t.(type) {
	case ast.BaseType:
		name, ok := baseNames[x.ID]
		if !ok {
			name = fmt.Sprintf("base%d", int(x.ID))
		}
		return fmt.Sprintf("(base %s %s %s)", d.pos(x), name, d.anns(x.Annotations))
	case ast.MapType:
		return fmt.Sprintf("(map %s %s %s %s)", d.pos(x), d.typ(x.KeyType), d.typ(x.ValueType), d.anns(x.Annotations))
	case ast.ListType:
		return fmt.Sprintf("(list %s %s %s)", d.pos(x), d.typ(x.ValueType), d.anns(x.Annotations))
	case ast.SetType:
		return fmt.Sprintf("(set %s %s %s)", d.pos(x), d.typ(x.ValueType), d.anns(x.Annotations))
	case ast.TypeReference:
		return fmt.Sprintf("(ref %s %s)", d.pos(x), hx(x.Name))
	}
	return fmt.Sprintf("(unknown-type %T)", t)
}

func (d *dumper) constant(c ast.ConstantValue) string {
	switch x := c.(type) {
	case ast.ConstantInteger:
		return fmt.Sprintf("(int %s %d)", d.pos(x), int64(x))
	case ast.ConstantDouble:
		return fmt.Sprintf("(dbl %s %d)", d.pos(x), math.Float64bits(float64(x)))
	case ast.ConstantBoolean:
		b := 0
		if x {
			b = 1
		}
		return fmt.Sprintf("(bool %s %d)", d.pos(x), b)
	case ast.ConstantString:
		return fmt.Sprintf("(str %s %s)", d.pos(x), hx(string(x)))
	case ast.ConstantReference:
		return fmt.Sprintf("(cref %s %s)", d.pos(x), hx(x.Name))
	case ast.ConstantList:
		var parts []string
		for _, i := range x.Items {
			parts = append(parts, d.constant(i))
		}
		return fmt.Sprintf("(clist %s [%s])", d.pos(x), strings.Join(parts, " "))
	case ast.ConstantMap:
		var parts []string
		for _, i := range x.Items {
			parts = append(parts, fmt.Sprintf("(kv %s %s %s)", d.pos(i), d.constant(i.Key), d.constant(i.Value)))
		}
		return fmt.Sprintf("(cmap %s [%s])", d.pos(x), strings.Join(parts, " "))
	}
	return fmt.Sprintf("(unknown-const %T)", c)
}

func (d *dumper) field(f *ast.Field) string {
	id := "-"
	if !f.IDUnset {
		id = fmt.Sprint(f.ID)
	}
	def := "-"
	if f.Default != nil {
		def = d.constant(f.Default)
	}
	return fmt.Sprintf("(field %s %s %s %s %d %s %s %s)", d.pos(f), id, hx(f.Name), hx(f.Doc), int(f.Requiredness), d.typ(f.Type), def, d.anns(f.Annotations))
}

func (d *dumper) fields(fs []*ast.Field) string {
	var parts []string
	for _, f := range fs {
		parts = append(parts, d.field(f))
	}
	return "[" + strings.Join(parts, " ") + "]"
}

func (d *dumper) function(f *ast.Function) string {
	ret := "void"
	if f.ReturnType != nil {
		ret = d.typ(f.ReturnType)
	}
	ow := 0
	if f.OneWay {
		ow = 1
	}
	return fmt.Sprintf("(fn %s %s %s %d %s %s %s %s)", d.pos(f), hx(f.Name), hx(f.Doc), ow, ret, d.fields(f.Parameters), d.fields(f.Exceptions), d.anns(f.Annotations))
}

var structKinds = map[ast.StructureType]string{ast.StructType: "struct", ast.UnionType: "union", ast.ExceptionType: "exception"}

func (d *dumper) definition(def ast.Definition) string {
	switch x := def.(type) {
	case *ast.Constant:
		return fmt.Sprintf("(const %s %s %s %s %s)", d.pos(x), hx(x.Name), hx(x.Doc), d.typ(x.Type), d.constant(x.Value))
	case *ast.Typedef:
		return fmt.Sprintf("(typedef %s %s %s %s %s)", d.pos(x), hx(x.Name), hx(x.Doc), d.typ(x.Type), d.anns(x.Annotations))
	case *ast.Enum:
		var parts []string
		for _, i := range x.Items {
			v := "-"
			if i.Value != nil {
				v = fmt.Sprint(*i.Value)
			}
			parts = append(parts, fmt.Sprintf("(item %s %s %s %s %s)", d.pos(i), hx(i.Name), hx(i.Doc), v, d.anns(i.Annotations)))
		}
		return fmt.Sprintf("(enum %s %s %s [%s] %s)", d.pos(x), hx(x.Name), hx(x.Doc), strings.Join(parts, " "), d.anns(x.Annotations))
	case *ast.Struct:
		kind, ok := structKinds[x.Type]
		if !ok {
			kind = fmt.Sprintf("struct%d", int(x.Type))
		}
		return fmt.Sprintf("(%s %s %s %s %s %s)", kind, d.pos(x), hx(x.Name), hx(x.Doc), d.fields(x.Fields), d.anns(x.Annotations))
	case *ast.Service:
		parent := "-"
		if x.Parent != nil {
			parent = fmt.Sprintf("(ext %d:%d %s)", x.Parent.Line, x.Parent.Column, hx(x.Parent.Name))
		}
		var parts []string
		for _, f := range x.Functions {
			parts = append(parts, d.function(f))
		}
		return fmt.Sprintf("(service %s %s %s %s [%s] %s)", d.pos(x), hx(x.Name), hx(x.Doc), parent, strings.Join(parts, " "), d.anns(x.Annotations))
	}
	return fmt.Sprintf("(unknown-def %T)", def)
}

func (d *dumper) header(h ast.Header) string {
	switch x := h.(type) {
	case *ast.Include:
		return fmt.Sprintf("(inc %s %s %s)", d.pos(x), hx(x.Name), hx(x.Path))
	case *ast.CppInclude:
		return fmt.Sprintf("(cpp %s %s)", d.pos(x), hx(x.Path))
	case *ast.Namespace:
		return fmt.Sprintf("(ns %s %s %s)", d.pos(x), hx(x.Scope), hx(x.Name))
	}
	return fmt.Sprintf("(unknown-header %T)", h)
}

func (d *dumper) program(p *ast.Program) string {
	var hs, ds []string
	for _, h := range p.Headers {
		hs = append(hs, d.header(h))
	}
	for _, x := range p.Definitions {
		ds = append(ds, d.definition(x))
	}
	return "P[" + strings.Join(hs, " ") + "][" + strings.Join(ds, " ") + "]"
}

func (d *dumper) label(n ast.Node) string {
	kind := "?"
	switch x := n.(type) {
	case *ast.Program:
		return "prog@0:0"
	case *ast.Include:
		kind = "inc"
	case *ast.CppInclude:
		kind = "cpp"
	case *ast.Namespace:
		kind = "ns"
	case *ast.Constant:
		kind = "const"
	case *ast.Typedef:
		kind = "typedef"
	case *ast.Enum:
		kind = "enum"
	case *ast.Struct:
		kind = structKinds[x.Type]
	case *ast.Service:
		kind = "service"
	case *ast.EnumItem:
		kind = "item"
	case *ast.Field:
		kind = "field"
	case *ast.Function:
		kind = "fn"
	case ast.BaseType:
		kind = "base"
	case ast.MapType:
		kind = "map"
	case ast.ListType:
		kind = "list"
	case ast.SetType:
		kind = "set"
	case ast.TypeReference:
		kind = "ref"
	case ast.ConstantInteger:
		kind = "int"
	case ast.ConstantDouble:
		kind = "dbl"
	case ast.ConstantBoolean:
		kind = "bool"
	case ast.ConstantString:
		kind = "str"
	case ast.ConstantReference:
		kind = "cref"
	case ast.ConstantList:
		kind = "clist"
	case ast.ConstantMap:
		kind = "cmap"
	case ast.ConstantMapItem:
		kind = "kv"
	case *ast.Annotation:
		kind = "ann"
	default:
		kind = fmt.Sprintf("%T", n)
	}
	return kind + "@" + d.pos(n)
}

// implResult is what idl.Config.Parse did on one document.
type implResult struct {
	answer   string // driver syntax of `parse`
	prog     *ast.Program
	info     *idl.Info
	errs     []ast.Position
	panicked string
	both     bool // program and errors at once / neither
}

func implParse(doc []byte) (r implResult) {
	defer func() {
		if p := recover(); p != nil {
			r.panicked = fmt.Sprint(p)
			r.answer = "panic " + r.panicked
		}
	}()
	info := &idl.Info{}
	cfg := idl.Config{Info: info}
	prog, err := cfg.Parse(doc)
	r.prog, r.info = prog, info
	if err != nil {
		pe, ok := err.(*idl.ParseError)
		if !ok {
			r.answer = "err-type " + fmt.Sprintf("%T", err)
			return
		}
		for _, e := range pe.Errors {
			r.errs = append(r.errs, e.Pos)
		}
		if prog != nil {
			r.both = true
		}
		parts := make([]string, len(r.errs))
		for i, p := range r.errs {
			parts[i] = posText(p)
		}
		r.answer = fmt.Sprintf("err %d %s", len(r.errs), strings.Join(parts, " "))
		return
	}
	if prog == nil {
		r.both = true
		r.answer = "neither"
		return
	}
	d := &dumper{info: info}
	r.answer = "ok " + d.program(prog)
	return
}

type visit struct {
	label, parent string
	depth         int
}

// implWalk runs ast.Walk over the program.
func implWalk(r implResult) (answer string, visits []visit, panicked string) {
	defer func() {
		if p := recover(); p != nil {
			panicked = fmt.Sprint(p)
			answer = "panic " + panicked
		}
	}()
	if r.prog == nil {
		return "err", nil, ""
	}
	d := &dumper{info: r.info}
	ast.Walk(ast.VisitorFunc(func(w ast.Walker, n ast.Node) {
		parent := "-"
		if p := w.Parent(); p != nil {
			parent = d.label(p)
		}
		visits = append(visits, visit{label: d.label(n), parent: parent, depth: len(w.Ancestors())})
	}), r.prog)
	parts := make([]string, len(visits))
	for i, v := range visits {
		parts[i] = v.label + "^" + v.parent
	}
	return fmt.Sprintf("ok %d %s", len(visits), strings.Join(parts, " ")), visits, ""
}

func implLex(doc []byte) (answer string) {
	defer func() {
		if p := recover(); p != nil {
			answer = "panic " + fmt.Sprint(p)
		}
	}()
	var parts []string
	for _, t := range idl.VerifLexAll(doc) {
		s := ""
		switch t.Kind {
		case "eof":
			s = "eof"
		case "id":
			s = "id:" + hx(t.Text)
		case "lit":
			s = "lit:" + hx(t.Text)
		case "int":
			s = fmt.Sprintf("int:%d", t.I64)
		case "dbl":
			s = fmt.Sprintf("dbl:%d", t.Bits)
		case "kw":
			s = "kw:" + t.Text
		case "sym":
			s = fmt.Sprintf("sym:%d", t.Sym)
		}
		s += fmt.Sprintf("@%d:%d", t.Line, t.Column)
		if t.Err {
			s += "!"
		}
		parts = append(parts, s)
	}
	return "ok " + strings.Join(parts, " ")
}

// flatten lists every ast.Node of the program in source order with its depth, by this file's
// own knowledge of the AST (not ast.Walk / visitChildren).
func flatten(r implResult) []visit {
	d := &dumper{info: r.info}
	var out []visit
	add := func(n ast.Node, depth int) { out = append(out, visit{label: d.label(n), depth: depth}) }
	anns := func(as []*ast.Annotation, depth int) {
		for _, a := range as {
			add(a, depth)
		}
	}
	var typ func(t ast.Type, depth int)
	typ = func(t ast.Type, depth int) {
		add(t, depth)
		switch x := t.(type) {
		case ast.BaseType:
			anns(x.Annotations, depth+1)
		case ast.MapType:
			typ(x.KeyType, depth+1)
			typ(x.ValueType, depth+1)
			anns(x.Annotations, depth+1)
		case ast.ListType:
			typ(x.ValueType, depth+1)
			anns(x.Annotations, depth+1)
		case ast.SetType:
			typ(x.ValueType, depth+1)
			anns(x.Annotations, depth+1)
		}
	}
	var constant func(c ast.ConstantValue, depth int)
	constant = func(c ast.ConstantValue, depth int) {
		add(c, depth)
		switch x := c.(type) {
		case ast.ConstantList:
			for _, i := range x.Items {
				constant(i, depth+1)
			}
		case ast.ConstantMap:
			for _, i := range x.Items {
				add(i, depth+1)
				constant(i.Key, depth+2)
				constant(i.Value, depth+2)
			}
		}
	}
	fields := func(fs []*ast.Field, depth int) {
		for _, f := range fs {
			add(f, depth)
			typ(f.Type, depth+1)
			if f.Default != nil {
				constant(f.Default, depth+1)
			}
			anns(f.Annotations, depth+1)
		}
	}
	add(r.prog, 0)
	for _, h := range r.prog.Headers {
		add(h, 1)
	}
	for _, def := range r.prog.Definitions {
		add(def, 1)
		switch x := def.(type) {
		case *ast.Constant:
			typ(x.Type, 2)
			constant(x.Value, 2)
		case *ast.Typedef:
			typ(x.Type, 2)
			anns(x.Annotations, 2)
		case *ast.Enum:
			for _, i := range x.Items {
				add(i, 2)
				anns(i.Annotations, 3)
			}
			anns(x.Annotations, 2)
		case *ast.Struct:
			fields(x.Fields, 2)
			anns(x.Annotations, 2)
		case *ast.Service:
			for _, f := range x.Functions {
				add(f, 2)
				if f.ReturnType != nil {
					typ(f.ReturnType, 3)
				}
				fields(f.Parameters, 3)
				fields(f.Exceptions, 3)
				anns(f.Annotations, 3)
			}
			anns(x.Annotations, 2)
		}
	}
	return out
}
