package main

// The independent pretty-printer: renders an XProg with randomised layout and records the
// true position of the first token of every node (and what the current code is known to report).

import (
	"fmt"
	"strings"
	"unicode/utf8"

	"verifharness/internal/rng"
)

const (
	tkNone = iota
	tkWord // identifier, number: needs a separator next to another word
	tkKeyword
	tkSym
	tkLit
)

type printer struct {
	r        *rng.R
	buf      []byte
	line     int
	col      int
	prevKind int
	prevKw   *TokPos // keyword just printed, whose trailing blanks are not decided yet
	prevKwAt int     // its start offset
	allowD18 bool
	dense    int // 0 = one line, few blanks … 3 = many newlines and comments
	crlf     bool

	pendingDoc *XDoc
	positions  []*XPos
	prims      []*XConst
	docs       []*docUse
}

type docUse struct {
	doc   *XDoc
	first *TokPos
}

func newPrinter(r *rng.R, allowD18 bool) *printer {
	return &printer{r: r, line: 1, col: 1, allowD18: allowD18, dense: r.Intn(4), crlf: r.Chance(1, 10)}
}

func (p *printer) write(s string) {
	for i := 0; i < len(s); i++ {
		if s[i] == '\n' {
			p.line++
			p.col = 1
		} else {
			p.col++
		}
	}
	p.buf = append(p.buf, s...)
}

func isBlankByte(b byte) bool { return b == ' ' || b == '\t' || b == '\r' || b == '\n' }

func (p *printer) nl() string {
	s := "\n"
	if p.crlf {
		s = "\r\n"
	}
	return s + strings.Repeat([]string{" ", "  ", "\t", ""}[p.r.Intn(4)], p.r.Intn(4))
}

var commentWords = []string{"note", "TODO", "x", "struct", "/*", "*", "**", "//", "#", "'", "\"", "é", "\xff", "{", "1:", "\\", "/**"}

func (p *printer) commentText(multi bool) string {
	n := p.r.Intn(4)
	var ws []string
	for i := 0; i < n; i++ {
		w := commentWords[p.r.Intn(len(commentWords))]
		if multi && p.r.Chance(1, 5) {
			w = "\n"
		}
		ws = append(ws, w)
	}
	return strings.Join(ws, " ")
}

// a plain block comment: not empty inside, not starting with '*', no "*/" inside.
func (p *printer) blockComment() string {
	body := " " + p.commentText(true)
	if p.r.Chance(1, 4) {
		body = "/" + body // "/*/ … */" is a comment too
	}
	body = strings.ReplaceAll(body, "*/", "* /")
	if strings.HasSuffix(body, "/") && !strings.HasSuffix(body, " /") {
		body += " "
	}
	return "/*" + body + "*/"
}

func (p *printer) lineComment() string {
	text := strings.ReplaceAll(p.commentText(false), "\n", " ")
	if p.r.Bool() {
		return "#" + text + p.nl()
	}
	return "//" + text + p.nl()
}

func (p *printer) blanks() string {
	return strings.Repeat([]string{" ", " ", "\t", "\r"}[p.r.Intn(4)], 1+p.r.Intn(2))
}

// gapElems draws a random separator: blanks, newlines, comments.
func (p *printer) gapElems(noLeadingNewline bool) string {
	var sb strings.Builder
	n := 0
	switch p.dense {
	case 0:
		n = p.r.Pick(0, 0, 1)
	case 1:
		n = p.r.Pick(0, 1, 1, 2)
	default:
		n = p.r.Pick(0, 1, 2, 3, 4)
	}
	seenNonBlank := false
	for i := 0; i < n; i++ {
		k := p.r.Intn(10)
		if p.dense == 0 && k >= 4 {
			k = 0
		}
		switch {
		case k < 4:
			sb.WriteString(p.blanks())
		case k < 7:
			if noLeadingNewline && !seenNonBlank {
				sb.WriteString(p.blanks())
			} else {
				sb.WriteString(p.nl())
			}
		case k < 8:
			sb.WriteString(p.lineComment())
			seenNonBlank = true
		default:
			sb.WriteString(p.blockComment())
			seenNonBlank = true
		}
	}
	return sb.String()
}

func needSpace(prev, next int) bool {
	wordy := func(k int) bool { return k == tkWord || k == tkKeyword }
	return wordy(prev) && wordy(next)
}

// docText renders the intended lines of a docstring in one of the supported shapes.
func (p *printer) docText(lines []string) string {
	ind := strings.Repeat(" ", p.r.Intn(5))
	if p.r.Chance(1, 5) {
		ind = "\t"
	}
	if len(lines) == 1 && p.r.Chance(2, 3) {
		lead := strings.Repeat(" ", p.r.Intn(3))
		if lead == "" && strings.HasPrefix(lines[0], "/") {
			lead = " " // "/**/…" is the D62 shape
		}
		return "/**" + lead + lines[0] + strings.Repeat(" ", p.r.Intn(3)) + "*/"
	}
	var sb strings.Builder
	switch p.r.Intn(4) {
	case 0: // no stars
		sb.WriteString("/**\n")
		for _, l := range lines {
			sb.WriteString(ind + "  " + l + "\n")
		}
		sb.WriteString(ind + "*/")
	case 1: // text starts on the opening line
		sb.WriteString("/** " + lines[0] + "\n")
		for _, l := range lines[1:] {
			sb.WriteString(ind + " * " + l + "\n")
		}
		sb.WriteString(ind + " */")
	default: // the classic block, optionally with empty lines around
		sb.WriteString("/**\n")
		if p.r.Chance(1, 4) {
			sb.WriteString(ind + " *\n")
		}
		for _, l := range lines {
			sb.WriteString(ind + " * " + l + "\n")
		}
		if p.r.Chance(1, 4) {
			sb.WriteString(ind + " *\n")
		}
		sb.WriteString(ind + " */")
	}
	return sb.String()
}

// joint separates a docstring from its node; returns the text and whether it was kept attached.
func (p *printer) joint(detached bool) string {
	if !detached {
		switch p.r.Intn(6) {
		case 0:
			return ""
		case 1:
			return " "
		case 2:
			return " " + strings.ReplaceAll(p.blockComment(), "\n", " ") + " "
		case 3:
			return " //" + strings.ReplaceAll(p.commentText(false), "\n", " ") + "\n"
		default:
			return "\n" + strings.Repeat(" ", p.r.Intn(5))
		}
	}
	switch p.r.Intn(4) {
	case 0:
		return "\n\n"
	case 1:
		return "\n  \n\t"
	case 2:
		return "\n# " + strings.ReplaceAll(p.commentText(false), "\n", " ") + "\n"
	default:
		return "\n\n\n  "
	}
}

// emit prints one token after a random separator and returns its position record.
func (p *printer) emit(text string, kind int) *TokPos {
	noNL := p.prevKw != nil && !p.allowD18
	gap := ""
	if p.prevKind != tkNone || p.r.Chance(1, 3) {
		gap = p.gapElems(noNL)
	}
	var du *docUse
	if d := p.pendingDoc; d != nil {
		p.pendingDoc = nil
		du = &docUse{doc: d}
		if d.Lines != nil {
			j := p.joint(d.Detached)
			d.JointNL = strings.Count(j, "\n")
			gap += p.docText(d.Lines) + j
		}
		p.docs = append(p.docs, du)
	}
	if gap == "" && needSpace(p.prevKind, kind) {
		gap = " "
	}
	if p.prevKw != nil {
		// the blanks directly after a keyword belong to the keyword token (D18)
		i, nls, lastNL := 0, 0, -1
		for i < len(gap) && isBlankByte(gap[i]) {
			if gap[i] == '\n' {
				nls++
				lastNL = i
			}
			i++
		}
		if nls > 0 {
			kwEnd := len(p.buf)
			lineStart := kwEnd + lastNL + 1
			p.prevKw.NLAfter = nls
			p.prevKw.Rep = Pos{p.prevKw.True.L + nls, p.prevKwAt - lineStart + 1}
		}
		p.prevKw = nil
	}
	p.write(gap)
	tp := &TokPos{True: Pos{p.line, p.col}}
	tp.Rep = tp.True
	if kind == tkKeyword {
		p.prevKw, p.prevKwAt = tp, len(p.buf)
	}
	if du != nil {
		du.first = tp
	}
	p.write(text)
	p.prevKind = kind
	return tp
}

func (p *printer) kw(s string) *TokPos    { return p.emit(s, tkKeyword) }
func (p *printer) sym(s string) *TokPos   { return p.emit(s, tkSym) }
func (p *printer) word(s string) *TokPos  { return p.emit(s, tkWord) }
func (p *printer) at(x *XPos, t *TokPos)  { x.Tok = t; p.positions = append(p.positions, x) }
func (p *printer) wantDoc(d *XDoc)        { p.pendingDoc = d }
func (p *printer) optSep() {
	switch p.r.Intn(4) {
	case 0:
		p.sym(",")
	case 1:
		p.sym(";")
	}
}

// literal writes the content as a '…' or "…" literal, choosing an escape form per character.
func (p *printer) literalText(s string) string {
	q := byte('"')
	if p.r.Bool() {
		q = '\''
	}
	other := byte('\'')
	if q == '\'' {
		other = '"'
	}
	var sb strings.Builder
	sb.WriteByte(q)
	numeric := func(b byte) string {
		if p.r.Bool() {
			if p.r.Bool() {
				return fmt.Sprintf("\\x%02X", b)
			}
			return fmt.Sprintf("\\x%02x", b)
		}
		return fmt.Sprintf("\\%03o", b)
	}
	for i := 0; i < len(s); {
		b := s[i]
		piece := ""
		size := 1
		if b >= 0x80 {
			r, n := utf8.DecodeRuneInString(s[i:])
			if r == utf8.RuneError && n == 1 {
				piece = numeric(b)
				if p.r.Bool() {
					piece = string([]byte{b}) // a raw ill-formed byte is kept as it is (the former D65 shape)
				}
			} else {
				size = n
				switch k := p.r.Intn(6); {
				case k == 0 && r <= 0xffff:
					piece = fmt.Sprintf("\\u%04x", r)
				case k == 1:
					piece = fmt.Sprintf("\\U%08X", r)
				case k == 2:
					for j := 0; j < n; j++ {
						piece += numeric(s[i+j])
					}
				default:
					piece = s[i : i+n]
				}
			}
		} else {
			named := map[byte]string{'\a': `\a`, '\b': `\b`, '\f': `\f`, '\n': `\n`, '\r': `\r`, '\t': `\t`, '\v': `\v`}
			switch {
			case b == '\\':
				piece = []string{`\\`, `\\`, `\\`, numeric(b)}[p.r.Intn(4)]
			case b == q:
				piece = []string{"\\" + string(q), "\\" + string(q), numeric(b)}[p.r.Intn(3)]
			case b == other:
				// raw, escaped or numeric — also directly after an escaped backslash (the former D16
				// shape) and numerically inside '…' (the former D66 shape)
				piece = []string{"\\" + string(other), numeric(b), string(other), string(other)}[p.r.Intn(4)]
			case b == '\n':
				piece = []string{`\n`, `\n`, numeric(b)}[p.r.Intn(3)]
			case named[b] != "":
				piece = []string{named[b], numeric(b), string(b)}[p.r.Intn(3)]
			case b < 0x20 || b == 0x7f:
				piece = []string{numeric(b), string(b)}[p.r.Intn(2)]
			default:
				piece = string(b)
				if p.r.Chance(1, 10) {
					piece = numeric(b)
				}
				if p.r.Chance(1, 20) {
					piece = fmt.Sprintf("\\u%04X", b)
				}
			}
		}
		sb.WriteString(piece)
		i += size
	}
	sb.WriteByte(q)
	return sb.String()
}

func (p *printer) lit(s string) *TokPos { return p.emit(p.literalText(s), tkLit) }

func (p *printer) anns(as []*XAnn) {
	if as == nil {
		return
	}
	p.sym("(")
	for _, a := range as {
		p.at(&a.P, p.word(a.Name))
		if a.HasValue {
			p.sym("=")
			p.lit(a.Value)
		}
		p.optSep()
	}
	p.sym(")")
}

func (p *printer) typ(t *XType) {
	switch t.Kind {
	case "base":
		name := t.Base
		if t.Byte {
			name = "byte"
		}
		p.at(&t.P, p.kw(name))
	case "map":
		p.at(&t.P, p.kw("map"))
		p.sym("<")
		p.typ(t.K)
		p.sym(",")
		p.typ(t.V)
		p.sym(">")
	case "list", "set":
		p.at(&t.P, p.kw(t.Kind))
		p.sym("<")
		p.typ(t.V)
		p.sym(">")
	default:
		p.at(&t.P, p.word(t.Name))
		return
	}
	p.anns(t.Anns)
}

// constant prints a constant value; via/rule describe the '=' or ':' printed directly before it.
func (p *printer) constant(c *XConst, via *TokPos) {
	if via != nil {
		c.P.Via, c.P.VRul = via, "D19"
	}
	switch c.Kind {
	case "int":
		p.at(&c.P, p.word(c.IText))
		p.prims = append(p.prims, c)
	case "dbl":
		p.at(&c.P, p.word(c.DText))
		p.prims = append(p.prims, c)
	case "bool":
		if c.B {
			p.at(&c.P, p.kw("true"))
		} else {
			p.at(&c.P, p.kw("false"))
		}
		p.prims = append(p.prims, c)
	case "str":
		p.at(&c.P, p.lit(c.S))
		p.prims = append(p.prims, c)
	case "cref":
		p.at(&c.P, p.word(c.Name))
	case "clist":
		p.at(&c.P, p.sym("["))
		for _, x := range c.Items {
			p.constant(x, nil)
			p.optSep()
		}
		p.sym("]")
	case "cmap":
		p.at(&c.P, p.sym("{"))
		for _, kv := range c.KVs {
			p.constant(kv.K, nil)
			kv.P.Tok = kv.K.P.Tok
			p.positions = append(p.positions, &kv.P)
			colon := p.sym(":")
			p.constant(kv.V, colon)
			p.optSep()
		}
		p.sym("}")
	}
}

func (p *printer) fields(fs []*XField) {
	for _, f := range fs {
		p.wantDoc(&f.Doc)
		var first *TokPos
		set := func(t *TokPos) {
			if first == nil {
				first = t
			}
		}
		if !f.Unset {
			set(p.word(f.IDText))
			p.sym(":")
		}
		switch f.Req {
		case 1:
			set(p.kw("required"))
		case 2:
			set(p.kw("optional"))
		}
		p.typ(f.T)
		set(f.T.P.Tok)
		p.at(&f.P, first)
		p.word(f.Name)
		if f.Default != nil {
			eq := p.sym("=")
			p.constant(f.Default, eq)
		}
		p.anns(f.Anns)
		p.optSep()
	}
}

func (p *printer) program(x *XProg) {
	for _, h := range x.Headers {
		switch h.Kind {
		case "inc":
			p.at(&h.P, p.kw("include"))
			if h.Name != "" {
				p.word(h.Name)
			}
			p.lit(h.Path)
		case "cpp":
			p.at(&h.P, p.kw("cpp_include"))
			p.lit(h.Path)
		default:
			p.at(&h.P, p.kw("namespace"))
			if h.Scope == "*" {
				p.sym("*")
			} else {
				p.word(h.Scope)
			}
			p.word(h.Name)
		}
	}
	for _, d := range x.Defs {
		p.wantDoc(&d.Doc)
		switch d.Kind {
		case "const":
			p.at(&d.P, p.kw("const"))
			p.typ(d.T)
			p.word(d.Name)
			eq := p.sym("=")
			p.constant(d.V, eq)
		case "typedef":
			p.at(&d.P, p.kw("typedef"))
			p.typ(d.T)
			p.word(d.Name)
			p.anns(d.Anns)
		case "enum":
			p.at(&d.P, p.kw("enum"))
			p.word(d.Name)
			p.sym("{")
			for _, it := range d.Items {
				p.wantDoc(&it.Doc)
				p.at(&it.P, p.word(it.Name))
				if it.Value != nil {
					p.sym("=")
					p.word(it.VText)
				}
				p.anns(it.Anns)
				p.optSep()
			}
			p.sym("}")
			p.anns(d.Anns)
		case "struct", "union", "exception":
			p.at(&d.P, p.kw(d.Kind))
			p.word(d.Name)
			p.sym("{")
			p.fields(d.Fields)
			p.sym("}")
			p.anns(d.Anns)
		case "service":
			p.at(&d.P, p.kw("service"))
			p.word(d.Name)
			if d.Parent != "" {
				ext := p.kw("extends")
				d.ParentP.Via, d.ParentP.VRul = ext, "D20"
				p.at(&d.ParentP, p.word(d.Parent))
			}
			p.sym("{")
			for _, f := range d.Fns {
				p.wantDoc(&f.Doc)
				var first *TokPos
				if f.Oneway {
					first = p.kw("oneway")
				}
				if f.Ret == nil {
					t := p.kw("void")
					if first == nil {
						first = t
					}
				} else {
					p.typ(f.Ret)
					if first == nil {
						first = f.Ret.P.Tok
					}
				}
				p.at(&f.P, first)
				p.word(f.Name)
				p.sym("(")
				p.fields(f.Params)
				p.sym(")")
				if f.HasThrows {
					p.kw("throws")
					p.sym("(")
					p.fields(f.Exc)
					p.sym(")")
				}
				p.anns(f.Anns)
				p.optSep()
			}
			p.sym("}")
			p.anns(d.Anns)
		}
		p.optSep()
	}
	// trailing separator (blanks, comments) — decides the blanks after a final keyword
	if p.prevKw != nil {
		p.emit("", tkNone)
	} else if p.r.Bool() {
		p.write(p.gapElems(false))
	}
}

// rendered is a printed program with everything a faithful parser must return.
type rendered struct {
	doc      []byte
	prog     *XProg
	trueDump string
	repDump  string
	rules    map[string]bool // known findings that make repDump ≠ trueDump
}

func primKey(c *XConst) string {
	switch c.Kind {
	case "int":
		return fmt.Sprintf("i%d", c.Int)
	case "dbl":
		b := c.Bits
		if b == 1<<63 {
			b = 0 // +0 == -0 as a Go map key
		}
		return fmt.Sprintf("d%d", b)
	case "bool":
		return fmt.Sprintf("b%v", c.B)
	}
	return "s" + c.S
}

func render(r *rng.R, x *XProg, allowD18 bool) *rendered {
	p := newPrinter(r, allowD18)
	p.program(x)
	rules := map[string]bool{}
	for _, xp := range p.positions {
		xp.True = xp.Tok.True
		if xp.Via != nil {
			xp.Rep = xp.Via.Rep
			if xp.Rep != xp.True {
				rules[xp.VRul] = true
			}
			if xp.Via.Rep != xp.Via.True {
				rules["D18"] = true
			}
		} else {
			xp.Rep = xp.Tok.Rep
			if xp.Rep != xp.True {
				rules["D18"] = true
			}
		}
	}
	// idl.Info.Pos of a value-typed constant: the position recorded for the LAST equal value (D61)
	last := map[string]Pos{}
	for _, c := range p.prims {
		last[primKey(c)] = c.P.Rep
	}
	for _, c := range p.prims {
		if l := last[primKey(c)]; l != c.P.Rep {
			c.P.Rep = l
			rules["D61"] = true
		}
	}
	for _, du := range p.docs {
		d := du.doc
		if d.Lines == nil {
			continue
		}
		text := strings.Join(d.Lines, "\n")
		if d.JointNL <= 1 {
			d.ExpectTrue = text
		}
		if d.JointNL+du.first.NLAfter <= 1 {
			d.ExpectRep = text
		}
		if d.ExpectRep != d.ExpectTrue {
			rules["D18"] = true
		}
	}
	return &rendered{doc: p.buf, prog: x, trueDump: "ok " + xdumper{false}.program(x), repDump: "ok " + xdumper{true}.program(x), rules: rules}
}
